import ColaVerif.Model.Annot

/-!
# The code model of `A @ X`, `X @ A` and `A.to_dense()`

`mm A b X`   — `A._matmat(X)` for an operand with `b` columns (`operators.py`, per kind);
`rmm A b X`  — `A._rmatmat(X)` for an operand with `b` rows (explicit overrides, else the default
               of `operator_base.py:62-70`: conjugation shortcut when `A.isa(SelfAdjoint)`, else
               linear transposition of `_matmat` — through the harness shim that is
               `(_matmat(I))ᵀ @ Xᵀ`);
`td A`       — `A.to_dense()` (kind-specific overrides, else `A @ I` or, when `8·rows < cols`,
               `I @ A`).
Every node result is passed through `forceM` (identity, proved) so that execution is polynomial.
-/

namespace Op
variable {R : Type} [CommRing R] [StarRing R] [DecidableEq R]

/-- does the class of the operator (annotation wrappers do not change the class) override
`_rmatmat`? -/
def hasExplicitRmm : Op R → Bool
  | dense .. => true | tri .. => true | sparse .. => true | prod _ => true | sum _ => true
  | diag .. => true | transpose _ => true | adjoint _ => true | sliced .. => true
  | annot _ A => A.hasExplicitRmm
  | _ => false

/-- does the class override `to_dense`? -/
def hasExplicitTd : Op R → Bool
  | dense .. => true | tri .. => true | kron _ => true | kronsum _ => true | bdiag .. => true
  | diag .. => true
  | annot _ A => A.hasExplicitTd
  | _ => false

def idxR (A : Op R) (s : Ix) : List Nat := (Ix.resolve A.rows s).getD []
def idxC (A : Op R) (s : Ix) : List Nat := (Ix.resolve A.cols s).getD []

mutual
/-- `A._matmat(X)`, `X : cols × b` -/
def mm : Op R → Nat → MatF R → MatV R
  | dense _ r c a, b, X => forceV r b (mmul c a X)
  | tri _ r c _ a, b, X => forceV r b (mmul c a X)
  | sparse _ r c ents, b, X => forceV r b (mmul c (sparseDen ents) X)
  | scalar _ s _, _, X => MatV.of (smulM s X)
  | eye _ _, _, X => MatV.of (X)
  | prod Ms, b, X => Ms.foldr (fun M acc => M.mm b acc.f) (MatV.of X)
  | sum Ms, b, X =>
      let r := sumMatmat (Ms.map (fun M => fun Y => M.mm b Y)) X
      forceV ((Ms.map (·.rows)).head?.getD 0) b r.f
  | kron Ms, b, X =>
      let r := kronMatmat
        (Ms.map (fun M => (⟨M.rows, M.cols, M.den.f, fun b' m => M.mm b' m⟩ : FacAct R))) b X
      forceV ((Ms.map (·.rows)).prod) b r.f
  | kronsum Ms, b, X =>
      let r := kronSumMatmat
        (Ms.map (fun M => (⟨M.rows, M.cols, M.den.f, fun b' m => M.mm b' m⟩ : FacAct R))) b X
      forceV ((Ms.map (·.rows)).prod) b r.f
  | bdiag Ms mults, b, X =>
      let r := bdiagMatmat
        ((Ms.map (fun M => (⟨M.rows, M.cols, M.den.f, fun b' m => M.mm b' m⟩ : FacAct R))).zip mults) b X
      forceV (dotSum (Ms.map (·.rows)) mults) b r.f
  | diag _ _ d, _, X => MatV.of (fun i j => d i * X i j)
  | tridiag _ n al be ga, _, X => MatV.of (tridiagMatmat n al be ga X)
  | transpose A, b, X => MatV.of (transposeM (A.rmm b (transposeM X)).f)
  | adjoint A, b, X => MatV.of (transposeM (conjM (A.rmm b (transposeM (conjM X))).f))
  | sliced A s0 s1, b, X =>
      let r := slicedMatmat (fun Y => A.mm b Y) (idxR A s0) (idxC A s1) X
      forceV (idxR A s0).length b r.f
  | perm _ p, _, X => MatV.of (permMatmat p X)
  | concat ax Ms, b, X =>
      if ax then hcatMatmat (Ms.map (fun M => (M.cols, fun Y => M.mm b Y))) X
      else MatV.of (vstack (Ms.map (fun M => (M.rows, (M.mm b X).f))))
  | house _ n v beta, b, X => forceV n b (houseMatmat n v beta X)
  | generic A, b, X => A.mm b X
  | annot _ A, b, X => A.mm b X
termination_by A => (sizeOf A, 0)

/-- `A._rmatmat(X)`, `X : b × rows` -/
def rmm : Op R → Nat → MatF R → MatV R
  | dense _ r c a, b, X => forceV b c (mmul r X a)
  | tri _ r c _ a, b, X => forceV b c (mmul r X a)
  | sparse _ r c ents, b, X =>
      forceV b c (transposeM (mmul r (transposeM (sparseDen ents)) (transposeM X)))
  | prod Ms, b, X => Ms.foldl (fun acc M => M.rmm b acc.f) (MatV.of X)
  | sum Ms, b, X =>
      let r := sumMatmat (Ms.map (fun M => fun Y => M.rmm b Y)) X
      forceV b ((Ms.map (·.cols)).head?.getD 0) r.f
  | diag _ _ d, _, X => MatV.of (fun i j => d j * X i j)
  | transpose A, b, X => MatV.of (transposeM (A.mm b (transposeM X)).f)
  | adjoint A, b, X => MatV.of (transposeM (conjM (A.mm b (transposeM (conjM X))).f))
  | sliced A s0 s1, b, X =>
      let r := slicedRmatmat (fun Y => A.rmm b Y) (idxR A s0) (idxC A s1) X
      forceV b (idxC A s1).length r.f
  | annot a A, b, X =>
      if A.hasExplicitRmm then A.rmm b X
      else if (annot a A).isa .selfAdjoint then
        forceV b A.cols (conjM (transposeM (A.mm b (conjM (transposeM X))).f))
      else
        let AI := A.mm A.cols eyeM
        forceV b A.cols (transposeM (mmul A.rows (transposeM AI.f) (transposeM X)))
  | A, b, X =>
      if A.isa .selfAdjoint then
        forceV b A.cols (conjM (transposeM (A.mm b (conjM (transposeM X))).f))
      else
        let AI := A.mm A.cols eyeM
        forceV b A.cols (transposeM (mmul A.rows (transposeM AI.f) (transposeM X)))
termination_by A => (sizeOf A, 1)
end

/-- `A.to_dense()` -/
def td : Op R → MatV R
  | dense _ _ _ a => MatV.of (a)
  | tri _ _ _ _ a => MatV.of (a)
  | kron Ms =>
      match Ms.map (fun M => (⟨M.rows, M.cols, M.td.f, fun _ m => MatV.of m⟩ : FacAct R)) with
      | [] => MatV.of (eyeM)
      | F :: Fs => forceV ((F :: Fs).map (·.r)).prod ((F :: Fs).map (·.c)).prod (kronDense F.r F.c F.a Fs)
  | kronsum Ms =>
      match Ms.map (fun M => (⟨M.rows, M.cols, M.td.f, fun _ m => MatV.of m⟩ : FacAct R)) with
      | [] => MatV.of (eyeM)
      | F :: Fs => forceV ((F :: Fs).map (·.r)).prod ((F :: Fs).map (·.c)).prod (kronSumDense F.r F.a Fs)
  | bdiag Ms mults =>
      forceV (dotSum (Ms.map (·.rows)) mults) (dotSum (Ms.map (·.cols)) mults)
        (bdiagDen ((Ms.map (fun M => (⟨M.rows, M.cols, M.td.f, fun _ m => MatV.of m⟩ : FacAct R))).zip mults))
  | diag _ _ d => MatV.of (diagM d)
  | annot a A =>
      if A.hasExplicitTd then A.td
      else if 8 * A.rows < A.cols then (annot a A).rmm A.rows eyeM else A.mm A.cols eyeM
  | A => if 8 * A.rows < A.cols then A.rmm A.rows eyeM else A.mm A.cols eyeM

end Op
