import ColaVerif.Model.Op

/-!
# Annotation inference (`cola/annotations.py:80-193`, `operator_base.py:27-36`)

`anns A` is the `annotations` attribute of the operator object: what `get_annotations` infers in
the base constructor, united with the declared ones (`annot a A` = `cola.PSD(A)` etc.).
Sets are lists without order; `isa` goes through the annotation subclass order
(PSD ≤ SelfAdjoint, Unitary ≤ Stiefel).
-/

namespace Ann
def sub : Ann → Ann → Bool
  | a, b => a == b || (a == psd && b == selfAdjoint) || (a == unitary && b == stiefel)
def all : List Ann := [selfAdjoint, psd, stiefel, unitary]
def toString : Ann → String
  | selfAdjoint => "SelfAdjoint" | psd => "PSD" | stiefel => "Stiefel" | unitary => "Unitary"
end Ann

abbrev AnnSet := List Ann

namespace AnnSet
def inter (s t : AnnSet) : AnnSet := s.filter (fun a => t.contains a)
def diff (s t : AnnSet) : AnnSet := s.filter (fun a => !t.contains a)
def union (s t : AnnSet) : AnnSet := s ++ t.filter (fun a => !s.contains a)
/-- `reduce(lambda x, y: x & y, …)` (non-empty list) -/
def interAll : List AnnSet → AnnSet
  | [] => []
  | s :: rest => rest.foldl inter s
def isa (s : AnnSet) (a : Ann) : Bool := s.any (fun x => Ann.sub x a)
/-- canonical form for output -/
def canon (s : AnnSet) : AnnSet := Ann.all.filter (fun a => s.contains a)
end AnnSet

namespace Op
variable {R : Type} [DecidableEq R]

def winEq (r c : Nat) (a b : MatF R) : Bool :=
  (List.range r).all fun i => (List.range c).all fun j => a i j = b i j
def vecEq (n : Nat) (a b : Nat → R) : Bool := (List.range n).all fun i => a i = b i

/-- Python object identity `A is B`, modelled as structural equality of the trees on their
windows (the harness builds structurally equal sub-expressions as one shared object). -/
def sameObj : Op R → Op R → Bool
  | dense d r c a, dense d' r' c' a' => d == d' && r == r' && c == c' && winEq r c a a'
  | tri d r c l a, tri d' r' c' l' a' => d == d' && r == r' && c == c' && l == l' && winEq r c a a'
  | sparse d r c e, sparse d' r' c' e' => d == d' && r == r' && c == c' && e == e'
  | scalar d s n, scalar d' s' n' => d == d' && s == s' && n == n'
  | eye d n, eye d' n' => d == d' && n == n'
  | prod Ms, prod Ms' => sameList Ms Ms'
  | sum Ms, sum Ms' => sameList Ms Ms'
  | kron Ms, kron Ms' => sameList Ms Ms'
  | kronsum Ms, kronsum Ms' => sameList Ms Ms'
  | bdiag Ms m, bdiag Ms' m' => m == m' && sameList Ms Ms'
  | diag d n v, diag d' n' v' => d == d' && n == n' && vecEq n v v'
  | tridiag d n a b c, tridiag d' n' a' b' c' =>
      d == d' && n == n' && vecEq (n - 1) a a' && vecEq n b b' && vecEq (n - 1) c c'
  | transpose A, transpose A' => sameObj A A'
  | adjoint A, adjoint A' => sameObj A A'
  | sliced A s t, sliced A' s' t' => s == s' && t == t' && sameObj A A'
  | perm d p, perm d' p' => d == d' && p == p'
  | concat x Ms, concat x' Ms' => x == x' && sameList Ms Ms'
  | house d n v b, house d' n' v' b' => d == d' && n == n' && vecEq n v v' && b == b'
  | generic A, generic A' => sameObj A A'
  | annot a A, annot a' A' => a == a' && sameObj A A'
  | _, _ => false
where
  sameList : List (Op R) → List (Op R) → Bool
  | [], [] => true
  | A :: As, B :: Bs => sameObj A B && sameList As Bs
  | _, _ => false

/-- the operator without its declaration wrappers (the class of the Python object) -/
def core : Op R → Op R
  | annot _ A => A.core
  | A => A

def isScalarMul (A : Op R) : Bool :=
  match A.core with
  | scalar _ _ _ => true
  | _ => false

/-- `are_the_same(A1, A1T)` of annotations.py (isinstance tests look at the class, i.e. through
declaration wrappers; `is` compares with the wrapped object's `.A`) -/
def areTheSame (A1 A2 : Op R) : Bool :=
  match A2.core with
  | adjoint B => sameObj A1 B
  | transpose B => sameObj A1 B
  | _ =>
    match A1.core with
    | adjoint B => sameObj B A2
    | transpose B => sameObj B A2
    | _ => false

def isTA (A : Op R) : Bool :=
  match A.core with
  | transpose _ => true
  | adjoint _ => true
  | _ => false

def isT (A : Op R) : Bool :=
  match A.core with
  | transpose _ => true
  | _ => false

/-- the two index objects compare equal the way `get_annotations(Sliced)` compares them -/
def slicesSymmetric : Ix → Ix → Bool
  | .slice a b c, .slice a' b' c' => a == a' && b == b' && c == c'
  | .arr l, .arr l' => l == l'
  | _, _ => false

def anns : Op R → AnnSet
  | eye _ _ => [.unitary, .psd]
  | perm _ _ => [.unitary]
  | kron Ms => AnnSet.interAll (Ms.map (·.anns))
  | bdiag Ms _ => AnnSet.interAll (Ms.map (·.anns))
  | sum Ms => AnnSet.diff (AnnSet.interAll (Ms.map (·.anns))) [.unitary, .stiefel]
  | prod Ms =>
      let as := Ms.map (·.anns)
      let gram := match Ms with
        | [A1, A2] => (isTA A1 || isTA A2) && areTheSame A1 A2 &&
            (!A1.dtype.isComplex || !(isT A1 || isT A2))
        | _ => false
      if gram then AnnSet.union (AnnSet.inter (AnnSet.interAll as) [.unitary, .stiefel]) [.psd]
      else
        let nc := (Ms.zip as).filter (fun p => !isScalarMul p.1)
        match nc with
        | [p] => p.2
        | _ => AnnSet.inter (AnnSet.interAll as) [.unitary, .stiefel]
  | sliced A s0 s1 =>
      if slicesSymmetric s0 s1 then AnnSet.diff A.anns [.unitary, .stiefel] else []
  | transpose A => if A.rows = A.cols then A.anns else AnnSet.diff A.anns [.stiefel]
  | adjoint A => if A.rows = A.cols then A.anns else AnnSet.diff A.anns [.stiefel]
  | annot a A => AnnSet.union A.anns [a]
  | _ => []

def isa (A : Op R) (a : Ann) : Bool := AnnSet.isa A.anns a

end Op
