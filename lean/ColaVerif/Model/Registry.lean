/-
  C18 — the class-level attribute registry of cola operators as a state machine.

  Code modelled (cola/ops/operator_base.py, cola/backends/backends.py):

    class LinearOperator(metaclass=AutoRegisteringPyTree):
        _dynamic = {key: False for key in ['xnp', 'shape', 'dtype', 'device', 'annotations']}
        def __setattr__(self, name, value):
            if name not in self.__class__._dynamic:
                cond = definitely_dynamic(value) or any(map(is_array, tree_flatten(value)[0]))
                self.__class__._dynamic[name] = cond          # FIRST assignment per class decides
            return super().__setattr__(name, value)
        def tree_flatten(self):   # children = values of attributes with _dynamic[key], aux = the rest
        def tree_unflatten(cls, aux, children):   # object.__new__(cls); setattr(obj, k, v) ...; obj.device = ...
    class AutoRegisteringPyTree(type):
        def __init__(cls, ...): cls._dynamic = cls._dynamic.copy()   # per (parametrised) subclass

  State: `Reg` = Class → Attr → Option Bool (an association list; the first entry for a key wins and
  entries are never removed or changed).  Events: creation of a subclass (copies the parent's entries)
  and constructor calls (assignments in source order).  Values are trees: arrays, non-array leaves
  (slices, ints, functions, dtypes, ...), containers (tuple / list / dict values) and operators
  (class + attribute dict), because `tree_flatten(value)` descends through containers and through
  nested operators USING THE REGISTRY of their classes.

  Abstractions: classes and attribute names are numbers; `tree_flatten` enumerates `sorted(vars(self))`,
  the model enumerates the dict in insertion order (one fixed permutation per class, shared by flatten
  and unflatten, so nothing below depends on it); `find_device(fields) or fields['device']` is
  `fields['device']` (the NumPy backend has one device, `None`).
-/

namespace ColaVerif.Registry

abbrev Class := Nat
abbrev Attr := Nat

mutual
/-- a Python value as far as pytree flattening can see -/
inductive Val where
  | arr (a : Nat)                    -- an array (identified by a payload id)
  | atom (n : Nat)                   -- a leaf that is not an array: slice, int, bool, function, dtype, sparse matrix, ...
  | tup (vs : Vals)                  -- tuple / list / dict (optree descends into them)
  | obj (c : Class) (fs : Fields)    -- a LinearOperator: class and attribute dict
  deriving DecidableEq, Repr
inductive Vals where
  | nil
  | cons (v : Val) (vs : Vals)
  deriving DecidableEq, Repr
/-- an attribute dict, in insertion order, keys distinct -/
inductive Fields where
  | nil
  | cons (a : Attr) (v : Val) (fs : Fields)
  deriving DecidableEq, Repr
end

def Val.isArr : Val → Bool
  | .arr _ => true
  | _ => false

/-! ### the registry -/

abbrev Reg := List ((Class × Attr) × Bool)

def Reg.get (r : Reg) (c : Class) (a : Attr) : Option Bool :=
  match r with
  | [] => none
  | e :: r' => if e.1 = (c, a) then some e.2 else Reg.get r' c a

/-- `_dynamic` of the root class LinearOperator (class 0): five static attributes -/
def Attr.xnp : Attr := 0
def Attr.shape : Attr := 1
def Attr.dtype : Attr := 2
def Attr.device : Attr := 3
def Attr.annotations : Attr := 4

def Reg.base : Reg :=
  [((0, Attr.xnp), false), ((0, Attr.shape), false), ((0, Attr.dtype), false), ((0, Attr.device), false),
   ((0, Attr.annotations), false)]

/-! ### flattening values (optree with the cola registrations) -/

mutual
/-- the leaves of a value: arrays and atoms; containers are descended into; an operator contributes the
    leaves of the attributes its class registry marks dynamic (unregistered: KeyError in the code; the
    model treats it as static and `Registered` below excludes the case) -/
def Val.leaves (r : Reg) : Val → List Val
  | .arr a => [.arr a]
  | .atom n => [.atom n]
  | .tup vs => Vals.leaves r vs
  | .obj c fs => Fields.leaves r c fs
def Vals.leaves (r : Reg) : Vals → List Val
  | .nil => []
  | .cons v vs => Val.leaves r v ++ Vals.leaves r vs
def Fields.leaves (r : Reg) (c : Class) : Fields → List Val
  | .nil => []
  | .cons a v fs => (if r.get c a = some true then Val.leaves r v else []) ++ Fields.leaves r c fs
end

mutual
/-- every array inside a value, registry or not: the "array parameters" -/
def Val.arrays : Val → List Val
  | .arr a => [.arr a]
  | .atom _ => []
  | .tup vs => Vals.arrays vs
  | .obj _ fs => Fields.arrays fs
def Vals.arrays : Vals → List Val
  | .nil => []
  | .cons v vs => Val.arrays v ++ Vals.arrays vs
def Fields.arrays : Fields → List Val
  | .nil => []
  | .cons _ v fs => Val.arrays v ++ Fields.arrays fs
end

/-- the test of `__setattr__`: `definitely_dynamic(value) or any(map(is_array, tree_flatten(value)[0]))` -/
def cond (r : Reg) (v : Val) : Bool :=
  match v with
  | .arr _ => true
  | .obj _ _ => true
  | v => (Val.leaves r v).any Val.isArr

/-! ### attribute dicts -/

def Fields.get : Fields → Attr → Option Val
  | .nil, _ => none
  | .cons a v fs, b => if a = b then some v else Fields.get fs b

/-- `object.__setattr__`: replace the value of an existing key, else append -/
def Fields.set : Fields → Attr → Val → Fields
  | .nil, b, w => .cons b w .nil
  | .cons a v fs, b, w => if a = b then .cons a w fs else .cons a v (Fields.set fs b w)

def Fields.toList : Fields → List (Attr × Val)
  | .nil => []
  | .cons a v fs => (a, v) :: Fields.toList fs

structure Obj where
  cls : Class
  fields : Fields
  deriving DecidableEq, Repr

/-- same class and the same value for every attribute name -/
def Obj.Same (o o' : Obj) : Prop := o.cls = o'.cls ∧ ∀ a, o.fields.get a = o'.fields.get a

/-! ### events -/

/-- `LinearOperator.__setattr__`: registry entry on the FIRST assignment of the name in this class -/
def setattr (r : Reg) (c : Class) (fs : Fields) (a : Attr) (v : Val) : Reg × Fields :=
  ((match r.get c a with
    | some _ => r
    | none => r ++ [((c, a), cond r v)]), fs.set a v)

/-- a sequence of assignments `self.a = v` in source order -/
def assignAll (r : Reg) (c : Class) (fs : Fields) : List (Attr × Val) → Reg × Fields
  | [] => (r, fs)
  | (a, v) :: rest => assignAll (setattr r c fs a v).1 c (setattr r c fs a v).2 rest

inductive Event where
  /-- `AutoRegisteringPyTree.__init__` for a new (parametrised) subclass: copy of the parent's registry -/
  | subclass (c parent : Class)
  /-- a constructor call: `__new__`/`__init__` assign these attributes in this order -/
  | construct (c : Class) (assigns : List (Attr × Val))
  deriving Repr

structure State where
  reg : Reg
  objs : List Obj          -- every operator built so far
  deriving Repr

def State.init : State := { reg := Reg.base, objs := [] }

def copyEntries (r : Reg) (c parent : Class) : Reg :=
  (r.filter (fun e => e.1.1 = parent)).map (fun e => ((c, e.1.2), e.2))

def step (s : State) : Event → State
  | .subclass c p => { s with reg := s.reg ++ copyEntries s.reg c p }
  | .construct c as =>
      { reg := (assignAll s.reg c .nil as).1, objs := s.objs ++ [⟨c, (assignAll s.reg c .nil as).2⟩] }

def run (h : List Event) : State := h.foldl step State.init
def runFrom (s : State) (h : List Event) : State := h.foldl step s

/-! ### flatten / unflatten -/

/-- `tree_flatten`: children (values of the dynamic attributes) and aux data (`(key,)` for a dynamic
    attribute, `(key, val)` for a static one); `none` = KeyError (`self._dynamic[key]`) -/
def Fields.split (r : Reg) (c : Class) : Fields → Option (List Val × List (Attr × Option Val))
  | .nil => some ([], [])
  | .cons a v fs =>
      match r.get c a, Fields.split r c fs with
      | some true, some (ch, aux) => some (v :: ch, (a, none) :: aux)
      | some false, some (ch, aux) => some (ch, (a, some v) :: aux)
      | _, _ => none

def flatten (r : Reg) (o : Obj) : Option (List Val × List (Attr × Option Val)) := o.fields.split r o.cls

/-- the `fields` dict of `tree_unflatten` -/
def rebuild : List (Attr × Option Val) → List Val → Option (List (Attr × Val))
  | [], _ => some []
  | (a, some v) :: aux, ch => (rebuild aux ch).map ((a, v) :: ·)
  | (a, none) :: aux, v :: ch => (rebuild aux ch).map ((a, v) :: ·)
  | (_, none) :: _, [] => none

def lookupKV : List (Attr × Val) → Attr → Option Val
  | [], _ => none
  | (a, v) :: kv, b => if a = b then some v else lookupKV kv b

/-- `tree_unflatten(cls, aux, children)`: every key except `device` through `setattr` (so through the
    registry), then `obj.device = fields['device']` -/
def unflatten (r : Reg) (c : Class) (aux : List (Attr × Option Val)) (children : List Val) : Option (Reg × Obj) :=
  match rebuild aux children with
  | none => none
  | some kv =>
      match lookupKV kv Attr.device with
      | none => none      -- KeyError: fields['device']
      | some d =>
          let res := assignAll r c .nil (kv.filter (fun e => e.1 ≠ Attr.device) ++ [(Attr.device, d)])
          some (res.1, ⟨c, res.2⟩)

/-! ### what "the leaves are the array parameters" means, attribute by attribute -/

/-- attributes that flatten hands out as pytree children -/
def dynAttrs (r : Reg) (o : Obj) : List (Attr × Val) :=
  o.fields.toList.filter (fun e => r.get o.cls e.1 = some true)

/-- attributes whose value holds an array (or is an operator): the verdict `__setattr__` would reach
    on THIS instance -/
def arrAttrs (r : Reg) (o : Obj) : List (Attr × Val) :=
  o.fields.toList.filter (fun e => cond r e.2)

/-- every attribute of the object has a registry entry in its class (no KeyError in tree_flatten) -/
def Registered (r : Reg) (o : Obj) : Prop := ∀ a v, o.fields.get a = some v → (r.get o.cls a).isSome

/-- NAMED CLAUSE `first-instance-representative`: the verdicts stored in the registry of o's class
    (reached on the first instance that assigned each attribute) are the verdicts o itself would get -/
def Representative (r : Reg) (o : Obj) : Prop :=
  ∀ a v, o.fields.get a = some v → r.get o.cls a = some (cond r v)

def clauses (r : Reg) (o : Obj) : List String :=
  if o.fields.toList.all (fun e => r.get o.cls e.1 = some (cond r e.2)) then [] else ["first-instance-representative"]

end ColaVerif.Registry
