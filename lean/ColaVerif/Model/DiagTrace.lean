import ColaVerif.Model.Wf
import ColaVerif.Model.Index

/-!
# `cola.linalg.diag` / `cola.linalg.trace` (C08)

Code model of `cola/linalg/trace/diag_trace.py` (the dispatch rules of `diag` and `trace`, the
`Auto` decision) and of `cola/linalg/trace/diagonal_estimation.py` (`exact_diag`,
`get_I_chunk_like`).  1-D arrays are `List R` (length = extent).

* `diagK D n k`, `traceSpec D n` — the SPECIFICATION: the `k`-th diagonal / the trace of the
  represented `n × n` matrix;
* `exactDiag bs0 A k` — the probing loop of `exact_diag` with the hard-coded `100` of
  `bs = min(100, n)` replaced by the PARAMETER `bs0` (the theorems quantify over it);
* `diagCode bs0 alg A k`, `traceCode bs0 alg A` — what `diag(A, k, alg)` / `trace(A, alg)` do:
  rule selection as the dispatcher does it (the class-specific rule wins over the generic
  `LinearOperator` rules, which have precedence -1; `Triangular` is a subclass of `Dense`;
  annotation wrappers do not change the class), results are `Except String (List R)`: an error
  class (`"error:AssertionError"`, `"error:ValueError"`) = the call REFUSES;
* `className`, `diagRuleClass`, `traceRuleClass` — the Python class of the operator object and the
  class in the first position of the rule the model applies (compared on every run with what the
  live resolver of /repo selects on real instances: stream D of harness/props/c08.py);
* the `BlockDiag` / `Kronecker` rules refuse (`assert all(M.shape[-2] == M.shape[-1] …)`) when a
  block / factor is not square (repaired in /repo: they used to return wrong values).
-/

namespace Op
variable {R : Type}

/-! ## specification -/

/-- the `k`-th diagonal of the `n × n` matrix `D`: entries `D t (t+k)` (`k ≥ 0`) / `D (t-k) t`
(`k < 0`), `t < n - |k|` -/
def diagK (D : MatF R) (n : Nat) (k : Int) : List R :=
  (List.range (n - k.natAbs)).map (fun t => if 0 ≤ k then D t (t + k.toNat) else D (t + k.natAbs) t)

/-- the trace of the `n × n` matrix `D` -/
def traceSpec [AddCommMonoid R] (D : MatF R) (n : Nat) : R := sumTo n (fun i => D i i)

/-! ## numpy primitives on 1-D arrays -/

/-- `np.diag(a, k)` of an `r × c` array -/
def npDiag (r c : Nat) (a : MatF R) (k : Int) : List R :=
  if 0 ≤ k then (List.range (min r (c - k.toNat))).map (fun t => a t (t + k.toNat))
  else (List.range (min (r - k.natAbs) c)).map (fun t => a (t + k.natAbs) t)

/-- `xnp.zeros((n - abs(k),))`: a negative extent raises ValueError -/
def npZeros [Zero R] (n : Nat) (k : Int) : Except String (List R) :=
  if k.natAbs ≤ n then .ok (List.replicate (n - k.natAbs) 0) else .error "error:ValueError"

/-- `u + v` for 1-D arrays with NumPy broadcasting -/
def bcAdd [Add R] [Zero R] (u v : List R) : Except String (List R) :=
  if u.length = v.length then .ok (List.zipWith (· + ·) u v)
  else if u.length = 1 then .ok (v.map (fun x => u.headD 0 + x))
  else if v.length = 1 then .ok (u.map (fun x => x + v.headD 0))
  else .error "error:ValueError"

/-- first error of a list of results, else all values -/
def dtSeqE {α : Type} : List (Except String α) → Except String (List α)
  | [] => .ok []
  | r :: rs => do
      let a ← r
      let as ← dtSeqE rs
      pure (a :: as)

/-- Python `sum(d(M) for M in Ms)`: `0 + d₁`, then for each further member: evaluate it, add -/
def sumFold [Add R] [Zero R] : List (Except String (List R)) → Except String (List R)
  | [] => .error "error:empty-sum"
  | r :: rs => do
      let d ← r
      rs.foldlM (fun acc r' => do let d' ← r'; bcAdd acc d') d

/-- `product([d_i[None,…,:,…,None]]).reshape(-1)`: the outer product of 1-D arrays, row-major -/
def outerProd [Mul R] [One R] : List (List R) → List R
  | [] => [1]
  | d :: ds => d.flatMap (fun x => (outerProd ds).map (fun y => x * y))

/-- `sum([d_i[None,…,:,…,None]]).reshape(-1)`: the outer sum of 1-D arrays, row-major -/
def outerSum [Add R] [Zero R] : List (List R) → List R
  | [] => [0]
  | d :: ds => d.flatMap (fun x => (outerSum ds).map (fun y => x + y))

/-- `range(0, n, bs)` -/
def pyRange0 (n bs : Nat) : List Nat := (List.range ((n + bs - 1) / bs)).map (fun q => q * bs)

/-- the `Auto` rule: `tol < 1 / sqrt(10 * numel)` for `tol = tn / td` -/
def autoExact (tn td numel : Nat) : Bool := decide (10 * numel * tn ^ 2 < td ^ 2)

/-- `alg` of the call (`omitted` = `Auto()`) -/
inductive Alg | auto | exact
deriving DecidableEq, Repr

variable [CommRing R] [StarRing R] [DecidableEq R]

/-! ## `get_I_chunk_like`, `exact_diag` -/

/-- `I_like(A)[:, a:b].to_dense()`: `__getitem__` builds `Sliced(Identity, (slice(None), slice(a, b)))`,
`to_dense` is its default (`Sliced._matmat` of the identity) -/
def idCols (dt : DType) (n a b : Nat) : MatV R :=
  (sliced (eye dt n) fullSlice (.slice (some (a : Int)) (some (b : Int)) none)).td

/-- the shifted chunk of `get_I_chunk_like(A, i, bs, shift = k)` for the columns `i:stop` -/
def shiftedChunk (dt : DType) (n i stop : Nat) (k : Int) (chunk : MatV R) : MatV R :=
  if k = 0 then chunk
  else
    let lo : Int := (i : Int) - k
    let hi : Int := (stop : Int) - k
    let clo : Int := max lo 0
    let chi : Int := min hi (n : Int)
    if chi > clo then
      let piece : MatV R := idCols dt n clo.toNat chi.toNat
      let off := (clo - lo).toNat
      let w2 := (chi - clo).toNat
      -- zeros((n, stop - i)); shifted[:, clo-lo : chi-lo] = piece
      forceV n (stop - i) (fun r j => if off ≤ j ∧ j < off + w2 then piece.f r (j - off) else 0)
    else MatV.of zeroM

/-- one pass of the loop body: `((A @ chunk) * shifted_chunk).sum(-1)` for the columns `i:stop` -/
def chunkRowSums (A : Op R) (n : Nat) (k : Int) (i stop : Nat) : List R :=
  let w := stop - i
  let chunk : MatV R := idCols A.dtype n i stop
  let sh : MatV R := shiftedChunk A.dtype n i stop k chunk
  let Y : MatV R := A.mm w chunk.f
  (List.range n).map (fun r => sumTo w (fun j => Y.f r j * sh.f r j))

/-- the accumulated `diag_sum` of `exact_diag` (block size `min(bs0, n)`) -/
def exactDiagSum (bs0 : Nat) (A : Op R) (k : Int) : List R :=
  let n := A.rows
  let bs := min bs0 n
  (pyRange0 n bs).foldl
    (fun acc i => List.zipWith (· + ·) acc (chunkRowSums A n k i (min (i + bs) n)))
    (List.replicate n 0)

/-- `exact_diag(A, k, bs)` with `bs = min(bs0, A.shape[0])`:
`diag_sum[abs(k):]` for `k ≤ 0`, `diag_sum[:(-k or None)]` otherwise -/
def exactDiag (bs0 : Nat) (A : Op R) (k : Int) : List R :=
  if k ≤ 0 then (exactDiagSum bs0 A k).drop k.natAbs
  else (exactDiagSum bs0 A k).take (A.rows - k.toNat)

/-- the generic rules: `diag(A: LinearOperator, k, alg: Auto)` (exact-vs-Hutchinson decision at the
default tolerance 1e-6) and `diag(A: LinearOperator, k, alg: Exact)`.
A zero extent makes `range(0, 0, 0)` raise; a non-square operand is outside the model
(`I_like` of a non-square operator is a non-square "identity"). -/
def genericDiag (bs0 : Nat) (alg : Alg) (A : Op R) (k : Int) : Except String (List R) :=
  if alg = .auto ∧ autoExact 1 1000000 (A.rows * A.cols) = false then .error "unmodelled:hutch"
  else if A.rows ≠ A.cols then .error "unmodelled:nonsquare-exact"
  else if A.rows = 0 then .error "error:ValueError"
  else .ok (exactDiag bs0 A k)

/-! ## the dispatch rules of `diag` -/

/-- `diag(A, k, alg)` -/
def diagCode (bs0 : Nat) (alg : Alg) : Op R → Int → Except String (List R)
  | dense _ r c a, k => .ok (npDiag r c a k)
  | tri _ r c _ a, k => .ok (npDiag r c a k)
  | eye _ n, k => if k = 0 then .ok (List.replicate n 1) else npZeros n k
  | diag _ n d, k => if k = 0 then .ok ((List.range n).map d) else npZeros n k
  | scalar _ s n, k => do
      -- A.c * diag(I_like(A), k, alg)
      let e ← (if k = 0 then .ok (List.replicate n 1) else npZeros n k : Except String (List R))
      pure (e.map (fun x => s * x))
  | sum Ms, k => sumFold (Ms.map (fun M => diagCode bs0 alg M k))
  | bdiag Ms mults, k =>
      if k ≠ 0 then .error "error:AssertionError"
      else if (Ms.map (fun M => decide (M.rows ≠ M.cols))).any id then .error "error:AssertionError"
      else do
        let ds ← dtSeqE (Ms.map (fun M => diagCode bs0 alg M k))
        let parts := (ds.zip mults).flatMap (fun p => List.replicate p.2 p.1)
        if parts.isEmpty then .error "error:ValueError" else pure parts.flatten
  | kron Ms, k =>
      if k ≠ 0 then .error "error:AssertionError"
      else if (Ms.map (fun M => decide (M.rows ≠ M.cols))).any id then .error "error:AssertionError"
      else do
        let ds ← dtSeqE (Ms.map (fun M => diagCode bs0 alg M k))
        pure (outerProd ds)
  | kronsum Ms, k =>
      if k ≠ 0 then .error "error:AssertionError"
      else do
        let ds ← dtSeqE (Ms.map (fun M => diagCode bs0 alg M k))
        pure (outerSum ds)
  | annot _ A, k => diagCode bs0 alg A k
  | A, k => genericDiag bs0 alg A k

/-! ## the dispatch rules of `trace` -/

/-- `trace(A, alg)`: `prod(trace(M))` for a `Kronecker`, else `assert square; diag(A, 0, alg).sum()` -/
def traceCode (bs0 : Nat) (alg : Alg) : Op R → Except String R
  | kron Ms => do
      let ts ← dtSeqE (Ms.map (fun M => traceCode bs0 alg M))
      match ts with
      | [] => .error "error:TypeError"
      | t :: ts' => pure (ts'.foldl (· * ·) t)
  | annot _ A => traceCode bs0 alg A
  | A =>
      if A.rows ≠ A.cols then .error "error:AssertionError"
      else do
        let d ← diagCode bs0 alg A 0
        pure d.sum

/-! ## rule selection (which rule `diagCode` / `traceCode` apply, by class) -/

/-- the Python class of the operator object (annotation wrappers do not change it; `generic` =
`cola.fns.no_dispatch` builds a bare `LinearOperator`) -/
def className : Op R → String
  | dense .. => "cola.ops.operators.Dense"
  | tri .. => "cola.ops.operators.Triangular"
  | sparse .. => "cola.ops.operators.Sparse"
  | scalar .. => "cola.ops.operators.ScalarMul"
  | eye .. => "cola.ops.operators.Identity"
  | prod _ => "cola.ops.operators.Product"
  | sum _ => "cola.ops.operators.Sum"
  | kron _ => "cola.ops.operators.Kronecker"
  | kronsum _ => "cola.ops.operators.KronSum"
  | bdiag .. => "cola.ops.operators.BlockDiag"
  | diag .. => "cola.ops.operators.Diagonal"
  | tridiag .. => "cola.ops.operators.Tridiagonal"
  | transpose _ => "cola.ops.operators.Transpose"
  | adjoint _ => "cola.ops.operators.Adjoint"
  | sliced .. => "cola.ops.operators.Sliced"
  | perm .. => "cola.ops.operators.Permutation"
  | concat .. => "cola.ops.operators.Concatenated"
  | house .. => "cola.ops.operators.Householder"
  | generic _ => "cola.ops.operator_base.LinearOperator"
  | annot _ A => A.className

/-- the class in the first position of the signature of the `diag` rule that `diagCode` applies -/
def diagRuleClass : Op R → String
  | dense .. => "cola.ops.operators.Dense"
  | tri .. => "cola.ops.operators.Dense"
  | scalar .. => "cola.ops.operators.ScalarMul"
  | eye .. => "cola.ops.operators.Identity"
  | sum _ => "cola.ops.operators.Sum"
  | kron _ => "cola.ops.operators.Kronecker"
  | kronsum _ => "cola.ops.operators.KronSum"
  | bdiag .. => "cola.ops.operators.BlockDiag"
  | diag .. => "cola.ops.operators.Diagonal"
  | annot _ A => A.diagRuleClass
  | _ => "cola.ops.operator_base.LinearOperator"

/-- the same for `trace` -/
def traceRuleClass : Op R → String
  | kron _ => "cola.ops.operators.Kronecker"
  | annot _ A => A.traceRuleClass
  | _ => "cola.ops.operator_base.LinearOperator"

end Op
