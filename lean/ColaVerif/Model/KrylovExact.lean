import ColaVerif.Basic.Mat
import ColaVerif.Basic.GRat

/-!
# Executable exact Krylov model over ℚ[i] (used by DriverC07 and DriverC09)

The Lanczos / Arnoldi recurrence of `cola/linalg/decompositions/{lanczos,arnoldi}.py` WITHOUT the
normalisation `q / ‖q‖` (square roots of non-squares are not in ℚ[i]):

```
q₀ = v;   w = A q_j - Σ_{l ≤ j} h_{l j} q_l,  h_{l j} = ⟨q_l, A q_j⟩ / ⟨q_l, q_l⟩;   q_{j+1} = w,  h_{j+1, j} = 1
```
until `w = 0` exactly (the Krylov space is exhausted after `m` steps — in exact arithmetic this is where
the loops of cola stop for every tolerance, C14 `exhausted` / C15 `C15_dimension_cap`).  The result
satisfies `A Q = Q H` with `Q e₁ = v` (normalisation constant `c = 1`); `KryFac.check` RE-CHECKS this on
every call, so that `KrylovPoly.aeval_mulVec_start` (Lemmas/KrylovPoly.lean: `p(A) v = c • Q (p(H) e₁)`
for EVERY basis with `A Q = Q H`, orthonormal or not) applies to every value the drivers print.  The
normalised basis of the code spans the same spaces and differs by a diagonal scaling; by that theorem
both give `p(A) v`.

What the drivers compute with it (everything a polynomial of the small matrix, hence exact):
* `applyPoly` — `Q p(H) e₁`, the value of `LanczosUnary` / `ArnoldiUnary` for a polynomial `f = p`;
* `powerSums` / `detFromPowerSums` — `t_k = Σ_i (Q_i H_i^k e₁)_i = tr A^k` through the identity probes of
  the exact trace, and the determinant reconstructed from `t_1 … t_n` by Newton's identities: the value
  of the Krylov path of `slogdet` for the monomials (the transcendental step `exp ∘ tr ∘ log` is the
  theorem `C07_exp_trace_log`, not the executable model).
-/

namespace KrylovExact

abbrev Vec := Array GRat

def vget (x : Vec) (i : Nat) : GRat := x.getD i 0

def vzero (n : Nat) : Vec := Array.replicate n 0

def visZero (x : Vec) : Bool := x.all (fun z => z.re == 0 && z.im == 0)

/-- `⟨x, y⟩ = Σ conj(xᵢ) yᵢ` -/
def dotc (x y : Vec) : GRat :=
  (List.range x.size).foldl (fun acc i => acc + star (vget x i) * vget y i) 0

def axpy (a : GRat) (x y : Vec) : Vec := Array.ofFn (n := y.size) fun i => vget y i.val + a * vget x i.val

def matVec (n : Nat) (A : Array (Array GRat)) (x : Vec) : Vec :=
  Array.ofFn (n := n) fun i =>
    let row := A.getD i.val #[]
    (List.range n).foldl (fun acc j => acc + vget row j * vget x j) 0

def toRows (n : Nat) (A : MatF GRat) : Array (Array GRat) :=
  Array.ofFn (n := n) fun i => Array.ofFn (n := n) fun j => A i.val j.val

def unitVec (n i : Nat) : Vec := Array.ofFn (n := n) fun j => if j.val = i then 1 else 0

/-- an (un-normalised) Krylov factorisation: `m` basis vectors and the `m × m` Hessenberg matrix,
`H[l][j]` = coefficient of `q_l` in `A q_j` -/
structure KryFac where
  m : Nat
  Q : Array Vec
  H : Array (Array GRat)
deriving Inhabited

def KryFac.h (F : KryFac) (l j : Nat) : GRat := (F.H.getD l #[]).getD j 0

/-- the recurrence, at most `cap` steps -/
def arnoldi (n : Nat) (A : Array (Array GRat)) (v : Vec) (cap : Nat) : KryFac := Id.run do
  if visZero v then return ⟨0, #[], #[]⟩
  let mut Q : Array Vec := #[v]
  let mut cols : Array (Array GRat) := #[]      -- column j of H (length j + 2)
  let mut done := false
  for j in [0:cap] do
    if !done then
      let qj := Q.getD j #[]
      let mut w := matVec n A qj
      let w0 := w
      let mut col : Array GRat := #[]
      for l in [0:j+1] do
        let ql := Q.getD l #[]
        let hlj := dotc ql w0 * GRat.inv (dotc ql ql)
        col := col.push hlj
        w := axpy (-hlj) ql w
      if visZero w then
        cols := cols.push col
        done := true
      else if j + 1 < cap then
        cols := cols.push (col.push 1)
        Q := Q.push w
      else
        -- the cap was reached before the space was exhausted: not invariant (`check` fails)
        cols := cols.push col
        done := true
  let m := Q.size
  let H : Array (Array GRat) := Array.ofFn (n := m) fun l => Array.ofFn (n := m) fun j =>
    (cols.getD j.val #[]).getD l.val 0
  return ⟨m, Q, H⟩

/-- the hypothesis of the theorems, re-checked: `A q_j = Σ_l H[l][j] q_l` for every column, `q₀ = v` -/
def KryFac.check (F : KryFac) (n : Nat) (A : Array (Array GRat)) (v : Vec) : Bool :=
  (F.m == 0 && visZero v) ||
  (F.Q.getD 0 #[] == v &&
    (List.range F.m).all fun j =>
      let lhs := matVec n A (F.Q.getD j #[])
      let rhs := (List.range F.m).foldl (fun acc l => axpy (F.h l j) (F.Q.getD l #[]) acc) (vzero n)
      (List.range n).all fun i => vget lhs i == vget rhs i)

/-- `H^k e₁` for `k = 0 … K` -/
def powE1 (F : KryFac) (K : Nat) : Array Vec := Id.run do
  let mut y : Vec := unitVec F.m 0
  let mut out : Array Vec := #[y]
  for _ in [0:K] do
    y := matVec F.m F.H y
    out := out.push y
  return out

/-- `Q y` -/
def KryFac.lift (F : KryFac) (n : Nat) (y : Vec) : Vec :=
  (List.range F.m).foldl (fun acc l => axpy (vget y l) (F.Q.getD l #[]) acc) (vzero n)

/-- **`Q p(H) e₁`** for `p = Σ coeffs[k] xᵏ` — what the Krylov operators return for a polynomial `f` -/
def applyPoly (n : Nat) (A : Array (Array GRat)) (v : Vec) (coeffs : List GRat) : Option Vec :=
  let F := arnoldi n A v n
  if !F.check n A v then none else
  if F.m == 0 then some (vzero n) else
  let ps := powE1 F (coeffs.length - 1)
  let y : Vec := (coeffs.zipIdx).foldl (fun acc ck => axpy ck.1 (ps.getD ck.2 #[]) acc) (vzero F.m)
  some (F.lift n y)

/-- Krylov dimension (grade) of every identity probe -/
def grades (n : Nat) (A : Array (Array GRat)) : List Nat :=
  (List.range n).map fun i => (arnoldi n A (unitVec n i) n).m

/-- `t_k = Σ_i (Q_i H_i^k e₁)_i`, `k = 1 … n` (the exact trace of `A^k` through the Krylov operators) -/
def powerSums (n : Nat) (A : Array (Array GRat)) : Option (Array GRat) := Id.run do
  let mut t : Array GRat := Array.replicate (n + 1) 0
  for i in [0:n] do
    let v := unitVec n i
    let F := arnoldi n A v n
    if !F.check n A v then return none
    let ps := powE1 F n
    for k in [0:n+1] do
      t := t.setIfInBounds k (t.getD k 0 + vget (F.lift n (ps.getD k #[])) i)
  return some t

/-- Newton's identities: `k e_k = Σ_{j=1}^{k} (-1)^{j-1} e_{k-j} t_j`; `det = e_n` -/
def detFromPowerSums (n : Nat) (t : Array GRat) : GRat := Id.run do
  let mut e : Array GRat := #[1]
  for k in [1:n+1] do
    let mut s : GRat := 0
    for j in [1:k+1] do
      let term := e.getD (k - j) 0 * t.getD j 0
      s := if j % 2 == 1 then s + term else s - term
    e := e.push (s * GRat.inv ⟨k, 0⟩)
  return e.getD n 0

/-! ## the relative stopping rule of the loops in exact arithmetic (clause `krylov-batch-unequal-exhaustion`)

`arnoldi_fact` continues while `norm > tol * H[1, 0]`, `lanczos_fact` while `subdiag[i - 1] > tol * subdiag[1]` (both
relative to the FIRST residual norm), for ANY member of the batch.  In exact arithmetic the normalised residual norms are
`β_j = ‖q_{j+1}‖ / ‖q_j‖` for the un-normalised vectors, and `‖q_k‖²` is the `k`-th pivot of Gaussian elimination (no
pivoting) of the Gram matrix `G[a][b] = ⟨A^a v, A^b v⟩` of the Krylov vectors (`= det G_{k+1} / det G_k`).  Everything is
rational arithmetic on the inputs — which are exact rationals also for float payloads (a double is a dyadic rational). -/

/-- `v, A v, …, A^m v` -/
def krylovVecs (n : Nat) (A : Array (Array GRat)) (v : Vec) (m : Nat) : Array Vec := Id.run do
  let mut out : Array Vec := #[v]
  let mut y := v
  for _ in [0:m] do
    y := matVec n A y
    out := out.push y
  return out

/-- squared norms `‖q_k‖²`, `k = 0 … m`, of the un-normalised Arnoldi vectors = pivots of the Gram matrix of the Krylov
vectors (`0` from the first exactly vanishing one on) -/
def gramPivots (K : Array Vec) : Array Rat := Id.run do
  let m := K.size
  let mut G : Array (Array GRat) := Array.ofFn (n := m) fun a => Array.ofFn (n := m) fun b =>
    dotc (K.getD a.val #[]) (K.getD b.val #[])
  let mut piv : Array Rat := #[]
  let mut dead := false
  for k in [0:m] do
    let p := ((G.getD k #[]).getD k 0)
    if dead || p.re == 0 then
      dead := true
      piv := piv.push 0
    else
      piv := piv.push p.re
      let pinv := GRat.inv p
      let rowk := G.getD k #[]
      for r in [k+1:m] do
        let fac := (G.getD r #[]).getD k 0 * pinv
        if fac != 0 then
          G := G.setIfInBounds r (Array.zipWith (fun x y => x - fac * y) (G.getD r #[]) rowk)
  return piv

/-- **number of steps a single start vector runs** under the relative rule with tolerance `tol` (`tol2 = tol²`) and cap
`cap = min(max_iters, n)`: the least `s ≥ 1` with `s = cap`, or `β_{s-1} ≤ tol β_0`; `0` for a zero start vector -/
def stopStep (n : Nat) (A : Array (Array GRat)) (v : Vec) (cap : Nat) (tol2 : Rat) : Nat := Id.run do
  if visZero v then return 0
  let p := gramPivots (krylovVecs n A v cap)
  let g (k : Nat) : Rat := p.getD k 0
  for s in [1:cap] do
    -- after step `s`: continue iff β²_{s-1} > tol² β²_0, i.e. p_s p_0 > tol² p_1 p_{s-1}
    if !(g s * g 0 > tol2 * g 1 * g (s - 1)) then return s
  return cap

/-- the decidable predicate of the clause `krylov-batch-unequal-exhaustion`: the columns of the operand stop at
different steps when run alone (so the batched loop keeps stepping a finished member) -/
def unequalExhaustion (n : Nat) (A : Array (Array GRat)) (cols : List Vec) (cap : Nat) (tol2 : Rat) : Bool × List Nat :=
  let steps := cols.map fun v => stopStep n A v cap tol2
  (match steps with
   | [] => false
   | s :: rest => rest.any (· != s), steps)

end KrylovExact
