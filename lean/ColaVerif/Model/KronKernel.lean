import ColaVerif.Basic.Tensor

/-!
# The Kronecker product loop (`Kronecker._matmat`, cola/ops/operators.py:216-223)

```
ev = v.reshape(*[Mi.shape[-1] for Mi in Ms], -1)
for i, M in enumerate(Ms):
    ev_front = moveaxis(ev, i, 0)
    Mev_front = (M @ ev_front.reshape(M.shape[-1], -1)).reshape(M.shape[0], *ev_front.shape[1:])
    ev = moveaxis(Mev_front, 0, i)
return ev.reshape(self.shape[-2], ev.shape[-1])
```
`kronMatmat_eq`: for every list of factors (any length, any shapes) and every operand the loop
returns `(M₁ ⊗ … ⊗ M_k) · v`, where `⊗` is `np.kron`'s div/mod layout (`kronDen_cons`).
-/

open Finset

variable {R : Type}

/-- sum over the box `∏ range c_t` of multi-indices -/
def boxSum [AddCommMonoid R] : List Nat → (List Nat → R) → R
  | [], f => f []
  | c :: cs, f => ∑ q ∈ range c, boxSum cs (fun qs => f (q :: qs))

/-- entry of the Kronecker product at multi-indices -/
def kronEntry [MulZeroOneClass R] : List (FacAct R) → List Nat → List Nat → R
  | [], _, _ => 1
  | M :: Ms, i :: is, j :: js => M.a i j * kronEntry Ms is js
  | _ :: _, _, _ => 0

/-- the loop `for i, M in enumerate(Ms): ev = step M i ev`, started at axis `i` -/
def kronLoop [Zero R] : Nat → List (FacAct R) → Tensor R → Tensor R
  | _, [], ev => ev
  | i, M :: Ms, ev => kronLoop (i+1) Ms (kronStep M ev i)

theorem boxSum_congr [AddCommMonoid R] (cs : List Nat) (f g : List Nat → R)
    (h : ∀ qs, InB cs qs → f qs = g qs) : boxSum cs f = boxSum cs g := by
  induction cs generalizing f g with
  | nil => exact h [] trivial
  | cons c cs ih =>
    simp only [boxSum]
    apply Finset.sum_congr rfl
    intro q hq
    apply ih
    intro qs hqs
    exact h (q :: qs) ⟨Finset.mem_range.mp hq, hqs⟩

theorem boxSum_mul_sum [NonUnitalNonAssocSemiring R] (cs : List Nat) (c : Nat) (g : List Nat → R)
    (h : Nat → List Nat → R) :
    boxSum cs (fun qs => g qs * ∑ q ∈ range c, h q qs) =
      ∑ q ∈ range c, boxSum cs (fun qs => g qs * h q qs) := by
  induction cs generalizing g h with
  | nil => simp [boxSum, Finset.mul_sum]
  | cons d cs ih =>
    simp only [boxSum]
    rw [Finset.sum_comm]
    apply Finset.sum_congr rfl
    intro p _
    exact ih (fun qs => g (p :: qs)) (fun q qs => h q (p :: qs))

theorem getD_split (pre rest : List Nat) (a : Nat) :
    (pre ++ a :: rest).getD pre.length 0 = a := by
  simp [List.getD]

theorem eraseIdx_split (pre rest : List Nat) (a : Nat) :
    (pre ++ a :: rest).eraseIdx pre.length = pre ++ rest := by
  induction pre with
  | nil => simp
  | cons p pre ih => simp [ih]

theorem insertAt_split (pre rest : List Nat) (q : Nat) :
    insertAt pre.length q (pre ++ rest) = pre ++ q :: rest := by
  simp [insertAt]

theorem InB_append : ∀ (s1 s2 i1 i2 : List Nat), InB s1 i1 → InB s2 i2 → InB (s1 ++ s2) (i1 ++ i2)
  | [], _, [], _, _, h2 => h2
  | s :: s1, s2, i :: i1, i2, h1, h2 => ⟨h1.1, InB_append s1 s2 i1 i2 h1.2 h2⟩
  | [], _, _ :: _, _, h1, _ => by simp [InB] at h1
  | _ :: _, _, [], _, h1, _ => by simp [InB] at h1

theorem InB_length : ∀ (s i : List Nat), InB s i → i.length = s.length
  | [], [], _ => rfl
  | s :: ss, i :: is, h => by simp [InB_length ss is h.2]
  | [], _ :: _, h => by simp [InB] at h
  | _ :: _, [], h => by simp [InB] at h

/-- shape after one step -/
theorem kronStep_shape [Zero R] (M : FacAct R) (ev : Tensor R) (pre post : List Nat) (d : Nat)
    (hs : ev.shape = pre ++ d :: post) :
    (kronStep M ev pre.length).shape = pre ++ M.r :: post := by
  simp only [kronStep, forceT_eq, moveFromFront, ofMat, moveToFront, hs, List.tail_cons,
    List.headD_cons]
  rw [eraseIdx_split, insertAt_split]

/-- **Kronecker loop theorem.** Starting at axis `|pre|` of a tensor of shape
    `pre ++ cols ++ [b]`, the loop over the remaining factors computes, at every in-bounds
    index, the sum over the column box of `kronEntry * ev`. -/
theorem kronLoop_get [CommSemiring R] : ∀ (Ms : List (FacAct R)) (_hM : ∀ M ∈ Ms, M.Ok)
    (ev : Tensor R) (preS : List Nat) (b : Nat)
    (preI is : List Nat) (col : Nat),
    ev.shape = preS ++ Ms.map (·.c) ++ [b] →
    InB preS preI → InB (Ms.map (·.r)) is → col < b →
    (kronLoop preS.length Ms ev).get (preI ++ is ++ [col]) =
      boxSum (Ms.map (·.c)) (fun qs => kronEntry Ms is qs * ev.get (preI ++ qs ++ [col]))
  | [], _, ev, preS, b, preI, is, col, _, _, his, _ => by
    cases is with
    | nil => simp [kronLoop, boxSum, kronEntry]
    | cons a is => simp [InB] at his
  | M :: Ms, hM, ev, preS, b, preI, is, col, hs, hpre, his, hcol => by
    cases is with
    | nil => simp [InB] at his
    | cons a is' =>
      obtain ⟨ha, his'⟩ := his
      have hMok : M.Ok := hM M (by simp)
      have hMs : ∀ M' ∈ Ms, M'.Ok := fun M' h => hM M' (by simp [h])
      have hlen : preI.length = preS.length := InB_length _ _ hpre
      have hs1 : ev.shape = preS ++ M.c :: (Ms.map (·.c) ++ [b]) := by
        simpa [List.append_assoc] using hs
      have hshape' : (kronStep M ev preS.length).shape
          = (preS ++ [M.r]) ++ Ms.map (·.c) ++ [b] := by
        rw [kronStep_shape M ev preS (Ms.map (·.c) ++ [b]) M.c hs1]; simp
      have hpre' : InB (preS ++ [M.r]) (preI ++ [a]) :=
        InB_append _ _ _ _ hpre ⟨ha, trivial⟩
      have ih := kronLoop_get Ms hMs (kronStep M ev preS.length) (preS ++ [M.r]) b
        (preI ++ [a]) is' col hshape' hpre' his' hcol
      have hl : (preS ++ [M.r]).length = preS.length + 1 := by simp
      simp only [kronLoop]
      rw [hl] at ih
      have e1 : preI ++ a :: is' ++ [col] = preI ++ [a] ++ is' ++ [col] := by simp
      rw [e1, ih]
      simp only [List.map_cons, boxSum]
      have hstep : ∀ qs, InB (Ms.map (·.c)) qs →
          (kronStep M ev preS.length).get (preI ++ [a] ++ qs ++ [col]) =
            ∑ q ∈ range M.c, M.a a q * ev.get (preI ++ q :: (qs ++ [col])) := by
        intro qs hqs
        have e2 : preI ++ [a] ++ qs ++ [col] = preI ++ a :: (qs ++ [col]) := by simp
        rw [e2, ← hlen]
        have hi : preI.length < (preI ++ a :: (qs ++ [col])).length := by simp
        have hb : InB (ev.shape.eraseIdx preI.length)
            ((preI ++ a :: (qs ++ [col])).eraseIdx preI.length) := by
          rw [eraseIdx_split, hs1, hlen, eraseIdx_split]
          exact InB_append _ _ _ _ hpre (InB_append _ _ _ _ hqs ⟨hcol, trivial⟩)
        have hr : (preI ++ a :: (qs ++ [col])).getD preI.length 0 < M.r := by
          rw [getD_split]; exact ha
        rw [kronStep_get M hMok ev preI.length _ hi hr hb, getD_split, eraseIdx_split]
        apply Finset.sum_congr rfl
        intro q _
        rw [insertAt_split]
      rw [boxSum_congr _ _ _ (fun qs hqs => by rw [hstep qs hqs])]
      rw [boxSum_mul_sum]
      apply Finset.sum_congr rfl
      intro q _
      apply boxSum_congr
      intro qs _
      simp only [kronEntry, List.append_assoc, List.cons_append]
      ring

/-- splitting a flat sum over `range (c * P)` into digit sums -/
theorem sum_range_mul [AddCommMonoid R] (c P : Nat) (g : Nat → R) :
    ∑ J ∈ range (c * P), g J = ∑ q ∈ range c, ∑ j ∈ range P, g (q * P + j) := by
  induction c with
  | zero => simp
  | succ c ih =>
    rw [Nat.succ_mul, Finset.sum_range_add, ih, Finset.sum_range_succ]

/-- box sum = flat sum over the unravelled index -/
theorem boxSum_eq_flat [AddCommMonoid R] : ∀ (cs : List Nat) (f : List Nat → R),
    boxSum cs f = ∑ J ∈ range cs.prod, f (unravel cs J)
  | [], f => by simp [boxSum, unravel, one_nsmul]
  | c :: cs, f => by
    simp only [boxSum, List.prod_cons]
    rw [sum_range_mul]
    apply Finset.sum_congr rfl
    intro q hq
    rw [boxSum_eq_flat cs]
    apply Finset.sum_congr rfl
    intro j hj
    have hj' := Finset.mem_range.mp hj
    have hpos : 0 < cs.prod := by omega
    simp only [unravel]
    have h1 : (q * cs.prod + j) / cs.prod = q := by
      rw [Nat.add_comm, Nat.add_mul_div_right _ _ hpos, Nat.div_eq_of_lt hj']; simp
    have h2 : (q * cs.prod + j) % cs.prod = j := by
      rw [Nat.add_comm, Nat.add_mul_mod_self_right, Nat.mod_eq_of_lt hj']
    rw [h1, h2]

/-- `v.reshape(*cs, -1)` for a matrix `v` with `b` columns -/
def reshapeIn (cs : List Nat) (b : Nat) (v : MatF R) : Tensor R :=
  ⟨cs ++ [b], fun idx => v (ravel cs idx.dropLast) (idx.getLastD 0)⟩

/-- `ev.reshape(prod rs, b)` -/
def reshapeOut (rs : List Nat) (ev : Tensor R) : MatF R :=
  fun I col => ev.get (unravel rs I ++ [col])

/-- model of `Kronecker._matmat` -/
def kronMatmat [Zero R] (Ms : List (FacAct R)) (b : Nat) (v : MatF R) : MatV R :=
  MatV.of (reshapeOut (Ms.map (·.r)) (kronLoop 0 Ms (reshapeIn (Ms.map (·.c)) b v)))

/-- represented matrix of the Kronecker product (row-major multi-index convention of np.kron) -/
def kronDen [MulZeroOneClass R] (Ms : List (FacAct R)) : MatF R :=
  fun I J => kronEntry Ms (unravel (Ms.map (·.r)) I) (unravel (Ms.map (·.c)) J)

/-- **C01, Kronecker case**: for every list of factors, every operand with `b` columns and every
    in-range entry, the reshape/moveaxis loop returns `(M₁ ⊗ … ⊗ M_k) · v`. -/
theorem kronMatmat_eq [CommSemiring R] (Ms : List (FacAct R)) (hM : ∀ M ∈ Ms, M.Ok) (b : Nat)
    (v : MatF R) (I col : Nat)
    (hI : I < (Ms.map (·.r)).prod) (hcol : col < b) :
    (kronMatmat Ms b v).f I col = ∑ J ∈ range (Ms.map (·.c)).prod, kronDen Ms I J * v J col := by
  obtain ⟨_, hinb⟩ := ravel_unravel (Ms.map (·.r)) I hI
  have h := kronLoop_get Ms hM (reshapeIn (Ms.map (·.c)) b v) [] b [] (unravel (Ms.map (·.r)) I) col
    (by simp [reshapeIn]) trivial hinb hcol
  simp only [List.length_nil, List.nil_append] at h
  simp only [kronMatmat, MatV.of_f, reshapeOut, h]
  rw [boxSum_eq_flat]
  apply Finset.sum_congr rfl
  intro J hJ
  obtain ⟨hrav, _⟩ := ravel_unravel (Ms.map (·.c)) J (Finset.mem_range.mp hJ)
  simp [reshapeIn, kronDen, hrav]

/-- the multi-index spec agrees with the binary div/mod formula of `np.kron` -/
theorem kronDen_cons [MulZeroOneClass R] (M : FacAct R) (Ms : List (FacAct R)) (I J : Nat) :
    kronDen (M :: Ms) I J =
      M.a (I / (Ms.map (·.r)).prod) (J / (Ms.map (·.c)).prod) *
        kronDen Ms (I % (Ms.map (·.r)).prod) (J % (Ms.map (·.c)).prod) := by
  simp [kronDen, unravel, kronEntry]
