/-!
# Code model of `cola/linalg/inverse/cg.py` (+ `while_loop_winfo` of `cola/utils/torch_tqdm.py`)

The model mirrors the NumPy-backend execution of

* `cg` (default `x0`, default preconditioner `I_like(A)` — the identity returns its operand),
* `run_batched_cg` (per-column `mult = ‖b‖`, `scale = where(mult == 0, 1, mult)`, `b / scale`,
  `x0 / scale`, `initialize`, effective tolerance `tol * ‖r0‖ + tol` per column, the loop,
  rescaling by `mult`),
* `cond_fun` (`any` column above its tolerance `&` `k < max_iters`),
* `take_cg_step` / `update_alpha` / `update_gamma_beta` (the `has_converged` mask with
  `eps = 1e-40` that sets alpha and beta to 0, the guarded divisions),
* `do_safe_div` (`denom == 0 ⇒ denom := 1e-40`; an exact zero test since the repair 1a4d949),
* `while_loop_winfo` (`iterations` = number of evaluations of the stopping test; `errors` = tracked
  residual at every evaluation plus the final one, first two dropped).

It is generic over a LAW-FREE operations class `NumOps K`.  Instances: `Float`, `CFloat` (here,
executable) and `rcOps 𝕜`, the one induced by `RCLike 𝕜` (in `Lemmas/CGBridge.lean`, exact
arithmetic).

Layout: an `n × m` array of the code is an `Array` of `m` columns, each an `Array K` of length `n`
(every operation of the loop body is column-wise: `norm(axis=-2)`, `sum(axis=-2)`, element-wise
products with `1 × m` rows); a matrix is the array of its rows.  All data lives in arrays and
multi-field structures (no closures), so the interpreter evaluates it once.
-/

namespace CG

/-- law-free scalar operations (real quantities — norms, tolerances — are embedded in `K`) -/
class NumOps (K : Type) where
  zero : K
  add : K → K → K
  sub : K → K → K
  mul : K → K → K
  div : K → K → K
  conj : K → K
  /-- modulus, as a (real) element of `K` (`np.abs`) -/
  abs : K → K
  /-- square root of the real part (`np.sqrt` of a real array) -/
  sqrt : K → K
  /-- strict comparison of the real parts -/
  lt : K → K → Bool
  /-- the constant `_small_value = 1e-40` -/
  small : K
  /-- `n ↦ n` as a scalar (the count in `mean`) -/
  ofNat : Nat → K
  one : K
  /-- `· == 0` -/
  isZero : K → Bool

open NumOps

abbrev Vec (K : Type) := Array K
/-- array of rows -/
abbrev Mat (K : Type) := Array (Array K)

section ops
variable {K : Type} [NumOps K]

/-- `add.reduce`: left-to-right accumulation -/
def vsum (v : Vec K) : K := v.foldl add zero
/-- row of a dense product -/
def dot (u v : Vec K) : K := vsum (Array.zipWith mul u v)
/-- `sum(conj(u) * v, axis=-2)` -/
def dotc (u v : Vec K) : K := vsum (Array.zipWith (fun a b => mul (conj a) b) u v)
/-- `np.linalg.norm(·, axis=-2)` = `sqrt(add.reduce((conj(x) * x).real))` -/
def norm (v : Vec K) : K := sqrt (dotc v v)
def vadd (u v : Vec K) : Vec K := Array.zipWith add u v
def vsub (u v : Vec K) : Vec K := Array.zipWith sub u v
/-- `a * v` with `a` a `1 × 1` entry of a `1 × m` row -/
def smul (a : K) (v : Vec K) : Vec K := v.map (fun t => mul a t)
/-- `v * a` (the final `state[0] * mult`) -/
def scaleR (v : Vec K) (a : K) : Vec K := v.map (fun t => mul t a)
/-- dense `A @ v` -/
def matVec (A : Mat K) (v : Vec K) : Vec K := A.map (fun row => dot row v)
/-- `P @ r`; `P = None` is `I_like(A)`, whose product returns its operand -/
def applyP : Option (Mat K) → Vec K → Vec K
  | none, v => v
  | some P, v => matVec P v

/-- `do_safe_div` on one entry: an EXACT zero test (`denom == 0`, repaired code) — only a denominator
that is exactly zero is replaced by `_small_value` -/
def safeDiv (num den : K) : K :=
  div num (if isZero den then small else den)

/-- `v / s` with `s` the column's entry of a `1 × m` row -/
def vdiv (v : Vec K) (s : K) : Vec K := v.map (fun t => div t s)

/-- `where(mult == 0, 1, mult)`, one entry -/
def scaleOf (m : K) : K := if isZero m then one else m

end ops

/-- per-column part of the loop state `(x, k, r, p, alpha, beta, gamma)` -/
structure Col (K : Type) where
  x : Vec K
  r : Vec K
  p : Vec K
  alpha : K
  beta : K
  gamma : K

/-- loop state: the columns and the shared counter `k` -/
structure State (K : Type) where
  cols : Array (Col K)
  k : Nat

/-- the `info` dictionary of `while_loop_winfo` (the fields the property talks about) -/
structure Info (K : Type) where
  iterations : Nat
  errors : Array K

section model
variable {K : Type} [NumOps K]

/-- `initialize`, one column -/
def initCol (A : Mat K) (P : Option (Mat K)) (b x0 : Vec K) : Col K :=
  let r0 := vsub b (matVec A x0)
  let z0 := applyP P r0
  { x := x0, r := r0, p := z0, alpha := zero, beta := zero, gamma := dotc r0 z0 }

/-- `take_cg_step`, one column (`update_alpha`, `update_gamma_beta` inlined) -/
def stepCol (A : Mat K) (P : Option (Mat K)) (s : Col K) : Col K :=
  let hasConverged := lt (norm s.r) small
  let Ap := matVec A s.p
  let alpha := if hasConverged then zero else safeDiv s.gamma (dotc s.p Ap)
  let x1 := vadd s.x (smul alpha s.p)
  let r1 := vsub s.r (smul alpha Ap)
  let z1 := applyP P r1
  let gamma1 := dotc r1 z1
  let beta := if hasConverged then zero else safeDiv gamma1 s.gamma
  let p1 := vadd z1 (smul beta s.p)
  { x := x1, r := r1, p := p1, alpha := alpha, beta := beta, gamma := gamma1 }

/-- `take_cg_step` on the batched state -/
def step (A : Mat K) (P : Option (Mat K)) (s : State K) : State K :=
  { cols := s.cols.map (stepCol A P), k := s.k + 1 }

/-- `rs > tol` for one column -/
def above (t : K) (c : Col K) : Bool := lt t (norm c.r)

/-- `xnp.any(rs > tol)` -/
def anyAbove (tolEff : Array K) (cols : Array (Col K)) : Bool :=
  (Array.zipWith above tolEff cols).any id

/-- `cond_fun` -/
def cond (tolEff : Array K) (maxIters : Nat) (s : State K) : Bool :=
  anyAbove tolEff s.cols && decide (s.k < maxIters)

/-- `track_res`: `norm(r, axis=-2).mean()` -/
def track (s : State K) : K :=
  div (vsum (s.cols.map (fun c => norm c.r))) (ofNat s.cols.size)

/-- `newcond` bookkeeping of `while_loop_winfo` (`every = 1`) -/
def Info.tick (i : Info K) (e : K) : Info K :=
  { iterations := i.iterations + 1, errors := i.errors.push e }

/-- `while_loop(newcond, body_fun, init_val)` of `while_loop_winfo`, with fuel.  The fuel is
`max_iters`; `run_exit_cond` (Lemmas/CGLoop.lean) shows the condition is false at exit, i.e. the
fuel is never what stops the loop. -/
def whileWinfo {σ : Type} (trackFn : σ → K) (condFn : σ → Bool) (body : σ → σ) :
    Nat → σ → Info K → σ × Info K
  | 0, s, info => (s, info.tick (trackFn s))
  | fuel + 1, s, info =>
    if condFn s then whileWinfo trackFn condFn body fuel (body s) (info.tick (trackFn s))
    else (s, info.tick (trackFn s))

/-- the epilogue of `new_while`: append the final error, drop the first two entries -/
def Info.finish (i : Info K) (e : K) : Info K :=
  { iterations := i.iterations, errors := (i.errors.push e).extract 2 (i.errors.size + 1) }

/-- what `run_batched_cg` returns: `(x * mult, r * mult, k, info)` -/
structure Result (K : Type) where
  x : Array (Vec K)
  r : Array (Vec K)
  k : Nat
  info : Info K

/-- the normalisation constants `mult = norm(b, axis=-2)` -/
def mults (b : Array (Vec K)) : Array K := b.map norm

/-- initial state of `run_batched_cg` -/
def initState (A : Mat K) (P : Option (Mat K)) (b x0 : Array (Vec K)) : State K :=
  let scale := (mults b).map scaleOf
  let bn := Array.zipWith vdiv b scale
  let x0n := Array.zipWith vdiv x0 scale
  { cols := Array.zipWith (initCol A P) bn x0n, k := 0 }

/-- `tol * norm(r0) + tol`, per column -/
def tolEffs (tol : K) (s0 : State K) : Array K :=
  s0.cols.map (fun c => add (mul tol (norm c.r)) tol)

/-- final state and raw bookkeeping of the loop -/
def runLoop (A : Mat K) (P : Option (Mat K)) (tolEff : Array K) (maxIters : Nat) (s0 : State K) :
    State K × Info K :=
  whileWinfo track (cond tolEff maxIters) (step A P) maxIters s0 ⟨0, #[]⟩

/-- `run_batched_cg(A, b, x0, max_iters, tol, preconditioner)` -/
def runBatchedCG (A : Mat K) (b x0 : Array (Vec K)) (maxIters : Nat) (tol : K)
    (P : Option (Mat K)) : Result K :=
  let mult := mults b
  let s0 := initState A P b x0
  let tolEff := tolEffs tol s0
  let out := runLoop A P tolEff maxIters s0
  let s := out.1
  { x := Array.zipWith scaleR (s.cols.map (·.x)) mult
    r := Array.zipWith scaleR (s.cols.map (·.r)) mult
    k := s.k
    info := out.2.finish (track s) }

/-- `cg(A, rhs, x0, P, tol, max_iters)`: `x0 = None` is `zeros_like(rhs)`; a 1-D `rhs` is one
column (the reshapes are plumbing) -/
def cg (A : Mat K) (rhs : Array (Vec K)) (x0 : Option (Array (Vec K))) (P : Option (Mat K))
    (tol : K) (maxIters : Nat) : Result K :=
  let x0' := match x0 with
    | some x => x
    | none => rhs.map (fun c => c.map (fun _ => zero))
  runBatchedCG A rhs x0' maxIters tol P

/-- the states at which the stopping test is evaluated (for the per-step trace of the driver;
`loopStates_eq` / `whileWinfo_spec` / `C12_trace` tie it to `whileWinfo`) -/
def loopStates {σ : Type} (condFn : σ → Bool) (body : σ → σ) : Nat → σ → List σ
  | 0, s => [s]
  | fuel + 1, s => if condFn s then s :: loopStates condFn body fuel (body s) else [s]

end model

/-! ## executable instances -/

/-- bit pattern of the double nearest to `1e-40` -/
def smallF : Float := Float.ofBits 0x37A16C262777579C

instance : NumOps Float where
  zero := 0.0
  add := (· + ·)
  sub := (· - ·)
  mul := (· * ·)
  div := (· / ·)
  conj := id
  abs := Float.abs
  sqrt := Float.sqrt
  lt a b := decide (a < b)
  small := smallF
  ofNat n := n.toFloat
  one := 1.0
  isZero a := a == 0.0

/-- complex128 -/
structure CFloat where
  re : Float
  im : Float

namespace CFloat

def add (a b : CFloat) : CFloat := ⟨a.re + b.re, a.im + b.im⟩
def sub (a b : CFloat) : CFloat := ⟨a.re - b.re, a.im - b.im⟩
def mul (a b : CFloat) : CFloat := ⟨a.re * b.re - a.im * b.im, a.re * b.im + a.im * b.re⟩

/-- NumPy's complex division (Smith's algorithm, `loops.c.src`) -/
def div (a b : CFloat) : CFloat :=
  let br := b.re.abs
  let bi := b.im.abs
  if br >= bi then
    if br == 0.0 && bi == 0.0 then ⟨a.re / br, a.im / br⟩
    else
      let rat := b.im / b.re
      let scl := 1.0 / (b.re + b.im * rat)
      ⟨(a.re + a.im * rat) * scl, (a.im - a.re * rat) * scl⟩
  else
    let rat := b.re / b.im
    let scl := 1.0 / (b.im + b.re * rat)
    ⟨(a.re * rat + a.im) * scl, (a.im * rat - a.re) * scl⟩

/-- `np.abs` (hypot without the overflow protection — irrelevant below 1e150) -/
def abs (a : CFloat) : CFloat :=
  if a.im == 0.0 then ⟨a.re.abs, 0.0⟩ else ⟨Float.sqrt (a.re * a.re + a.im * a.im), 0.0⟩

end CFloat

instance : NumOps CFloat where
  zero := ⟨0.0, 0.0⟩
  add := CFloat.add
  sub := CFloat.sub
  mul := CFloat.mul
  div := CFloat.div
  conj a := ⟨a.re, -a.im⟩
  abs := CFloat.abs
  sqrt a := ⟨Float.sqrt a.re, 0.0⟩
  lt a b := decide (a.re < b.re)
  small := ⟨smallF, 0.0⟩
  ofNat n := ⟨n.toFloat, 0.0⟩
  one := ⟨1.0, 0.0⟩
  isZero a := a.re == 0.0 && a.im == 0.0

end CG
