import ColaVerif.Model.Cost

/-!
# C19, rule level: which operators a linear-algebra call hands to a generic (dense / iterative) rule

A deliberately small description of the *recursion skeleton* of the rule families
(cola/linalg/inverse/inv.py, logdet/logdet.py, trace/diag_trace.py, unary/unary.py,
decompositions/decompositions.py): for a function `f` and an operator tree `A`,
`dens f A` lists the sub-operators on which the call ends in a GENERIC rule of some function
(`A.to_dense()` + LAPACK, or an iterative algorithm on that operator).  Numerical content is
irrelevant here; the models that carry it are Model/Decomp.lean, LogDet.lean, DiagTrace.lean, ….

The table `act f k` ("what the rule of `f` for kind `k` does with the operator") is compared
* with the live dispatcher and the source of the rules: `act f k ≠ self` must coincide with the
  generated classification (`Gen/StructuralRules.lean`), theorem `C19_skeleton_matches_rules`;
* with the running code: props/c19.py logs every `to_dense` / `Dense(...)` during the public calls.
-/

namespace Op
variable {R : Type}

/-- the functions of the family (`unary` = `apply_unary`, also reached from `log`;
`pow` also from `sqrt` / `isqrt`; `inv` also from `solve`; `slogdet` also from `logdet`) -/
inductive Fn | inv | slogdet | diag | trace | unary | exp | pow | chol | plu
deriving DecidableEq, Repr

/-- operator kinds as far as the rules distinguish them -/
inductive Kind | kron | kronsum | bdiag | prod | sum | eye | scalar | diagonal | dense | tri | perm
  | transpose | adjoint | other
deriving DecidableEq, Repr

/-- what the selected rule does with the operator -/
inductive Act
  /-- works on the parameters of the kind only (`A.diag`, `A.c`, shape): nothing is densified -/
  | leaf
  /-- calls `g` on every member (`A.Ms`, or `A.A` for Transpose / Adjoint) -/
  | members (g : Fn)
  /-- a generic rule receives the operator itself -/
  | self
deriving DecidableEq, Repr

/-- the rule table.  Forwarding rules are composed: `trace(BlockDiag) = diag(BlockDiag).sum()`
calls `diag` on the members, `exp(BlockDiag) = apply_unary(exp, BlockDiag)` calls `apply_unary`
on the members, `cholesky(Diagonal) = sqrt → pow → apply_unary(Diagonal)` is a leaf, …
`Product` rules of `inv` / `slogdet` apply only when every member is square (see `dens`). -/
def act : Fn → Kind → Act
  -- inv.py
  | .inv, .eye => .leaf | .inv, .scalar => .leaf | .inv, .diagonal => .leaf | .inv, .perm => .leaf
  | .inv, .tri => .leaf
  | .inv, .prod => .members .inv | .inv, .bdiag => .members .inv | .inv, .kron => .members .inv
  -- logdet.py
  | .slogdet, .eye => .leaf | .slogdet, .scalar => .leaf | .slogdet, .diagonal => .leaf
  | .slogdet, .tri => .leaf | .slogdet, .perm => .leaf
  | .slogdet, .prod => .members .slogdet | .slogdet, .kron => .members .slogdet
  | .slogdet, .bdiag => .members .slogdet
  -- diag_trace.py
  | .diag, .dense => .leaf | .diag, .tri => .leaf | .diag, .eye => .leaf | .diag, .diagonal => .leaf
  | .diag, .scalar => .leaf
  | .diag, .sum => .members .diag | .diag, .bdiag => .members .diag | .diag, .kron => .members .diag
  | .diag, .kronsum => .members .diag
  | .trace, .kron => .members .trace
  | .trace, .dense => .leaf | .trace, .tri => .leaf | .trace, .eye => .leaf | .trace, .diagonal => .leaf
  | .trace, .scalar => .leaf
  | .trace, .sum => .members .diag | .trace, .bdiag => .members .diag | .trace, .kronsum => .members .diag
  -- unary.py
  | .unary, .diagonal => .leaf | .unary, .eye => .leaf | .unary, .scalar => .leaf
  | .unary, .bdiag => .members .unary | .unary, .transpose => .members .unary
  | .unary, .adjoint => .members .unary
  | .exp, .kronsum => .members .exp
  | .exp, .diagonal => .leaf | .exp, .eye => .leaf | .exp, .scalar => .leaf
  | .exp, .bdiag => .members .unary | .exp, .transpose => .members .unary | .exp, .adjoint => .members .unary
  | .pow, .kron => .members .pow
  | .pow, .diagonal => .leaf | .pow, .eye => .leaf | .pow, .scalar => .leaf
  | .pow, .bdiag => .members .unary | .pow, .transpose => .members .unary | .pow, .adjoint => .members .unary
  -- decompositions.py
  | .chol, .eye => .leaf | .chol, .diagonal => .leaf | .chol, .scalar => .leaf
  | .chol, .kron => .members .chol | .chol, .bdiag => .members .chol
  | .plu, .eye => .leaf | .plu, .diagonal => .leaf | .plu, .scalar => .leaf
  | .plu, .kron => .members .plu | .plu, .bdiag => .members .plu
  | _, _ => .self

/-- the dispatched functions whose rules `act f` describes (`log` shares the table of
`apply_unary`, `sqrt` / `isqrt` that of `pow` with a non-integer exponent) -/
def Fn.pyNames : Fn → List String
  | .inv => ["inv"] | .slogdet => ["slogdet"] | .diag => ["diag"] | .trace => ["trace"]
  | .unary => ["apply_unary", "log"] | .exp => ["exp"] | .pow => ["pow", "sqrt", "isqrt"]
  | .chol => ["cholesky"] | .plu => ["plu"]

def Fn.all : List Fn := [.inv, .slogdet, .diag, .trace, .unary, .exp, .pow, .chol, .plu]

/-- the structured kinds and the names of their Python classes -/
def Kind.structured : List (Kind × String) :=
  [(.kron, "Kronecker"), (.kronsum, "KronSum"), (.bdiag, "BlockDiag"), (.diagonal, "Diagonal"),
   (.eye, "Identity"), (.scalar, "ScalarMul"), (.prod, "Product"), (.sum, "Sum")]

/-- does the `Product` rule of `f` carry the condition "every member is square"? -/
def prodNeedsSquare : Fn → Bool
  | .inv => true | .slogdet => true | _ => false

def allSquare (Ms : List (Op R)) : Bool := (Ms.map (fun M => M.rows == M.cols)).all id

/-- the operators that end in a generic rule during `f(A)` -/
def dens : Fn → Op R → List (Op R)
  | f, annot _ A => dens f A          -- declaration wrappers do not change the class
  | f, kron Ms =>
      match act f .kron with
      | .leaf => [] | .self => [kron Ms]
      | .members g => (Ms.map (fun M => dens g M)).flatten
  | f, kronsum Ms =>
      match act f .kronsum with
      | .leaf => [] | .self => [kronsum Ms]
      | .members g => (Ms.map (fun M => dens g M)).flatten
  | f, bdiag Ms mults =>
      match act f .bdiag with
      | .leaf => [] | .self => [bdiag Ms mults]
      | .members g => (Ms.map (fun M => dens g M)).flatten
  | f, prod Ms =>
      match act f .prod with
      | .leaf => [] | .self => [prod Ms]
      | .members g =>
          if !prodNeedsSquare f || allSquare Ms then (Ms.map (fun M => dens g M)).flatten else [prod Ms]
  | f, sum Ms =>
      match act f .sum with
      | .leaf => [] | .self => [sum Ms]
      | .members g => (Ms.map (fun M => dens g M)).flatten
  | f, transpose A =>
      match act f .transpose with
      | .leaf => [] | .self => [transpose A] | .members g => dens g A
  | f, adjoint A =>
      match act f .adjoint with
      | .leaf => [] | .self => [adjoint A] | .members g => dens g A
  | f, eye dt n => match act f .eye with | .leaf => [] | _ => [eye dt n]
  | f, scalar dt s n => match act f .scalar with | .leaf => [] | _ => [scalar dt s n]
  | f, diag dt n d => match act f .diagonal with | .leaf => [] | _ => [diag dt n d]
  | f, dense dt r c a => match act f .dense with | .leaf => [] | _ => [dense dt r c a]
  | f, tri dt r c l a => match act f .tri with | .leaf => [] | _ => [tri dt r c l a]
  | f, perm dt p => match act f .perm with | .leaf => [] | _ => [perm dt p]
  | _, sparse dt r c e => [sparse dt r c e]
  | _, tridiag dt n al be ga => [tridiag dt n al be ga]
  | _, sliced A s0 s1 => [sliced A s0 s1]
  | _, concat ax Ms => [concat ax Ms]
  | _, house dt n v beta => [house dt n v beta]
  | _, generic A => [generic A]

/-- all proper sub-terms -/
def subterms : Op R → List (Op R)
  | prod Ms => Ms ++ (Ms.map (fun M => M.subterms)).flatten
  | sum Ms => Ms ++ (Ms.map (fun M => M.subterms)).flatten
  | kron Ms => Ms ++ (Ms.map (fun M => M.subterms)).flatten
  | kronsum Ms => Ms ++ (Ms.map (fun M => M.subterms)).flatten
  | bdiag Ms _ => Ms ++ (Ms.map (fun M => M.subterms)).flatten
  | concat _ Ms => Ms ++ (Ms.map (fun M => M.subterms)).flatten
  | transpose A => A :: A.subterms
  | adjoint A => A :: A.subterms
  | sliced A _ _ => A :: A.subterms
  | generic A => A :: A.subterms
  | annot _ A => A :: A.subterms
  | _ => []

/-- the kind of the class of the operator (annotation wrappers stripped) -/
def kindOf : Op R → Kind
  | annot _ A => kindOf A
  | kron _ => .kron | kronsum _ => .kronsum | bdiag _ _ => .bdiag | prod _ => .prod | sum _ => .sum
  | eye _ _ => .eye | scalar _ _ _ => .scalar | diag _ _ _ => .diagonal | dense .. => .dense
  | tri .. => .tri | perm _ _ => .perm | transpose _ => .transpose | adjoint _ => .adjoint
  | _ => .other

/-- the members the `Product` condition looks at -/
def prodSquareOK : Fn → Op R → Bool
  | f, annot _ A => prodSquareOK f A
  | f, prod Ms => !prodNeedsSquare f || allSquare Ms
  | _, _ => true

/-- `f` has a structural rule that applies to `A` -/
def hasRule (f : Fn) (A : Op R) : Bool := act f (kindOf A) != .self && prodSquareOK f A

end Op
