import ColaVerif.Model.Cost

/-!
# C19, rule level: which operators a linear-algebra call hands to a generic (dense / iterative) rule

A deliberately small description of the *recursion skeleton* of the rule families
(cola/linalg/inverse/inv.py, logdet/logdet.py, trace/diag_trace.py, unary/unary.py,
decompositions/decompositions.py): for a function `f` and an operator tree `A`,
`dens f A` lists the sub-operators on which the call ends in a GENERIC rule of some function
(`A.to_dense()` + LAPACK, or an iterative algorithm on that operator).  Numerical content is
irrelevant here; the models that carry it are Model/Decomp.lean, LogDet.lean, DiagTrace.lean, ….

The table `act f k` ("what the rule of `f` for kind `k` does with the operator") is compared
* with the live dispatcher and the source of the rules: `act f k ≠ self` must coincide with the
  generated classification (`Gen/StructuralRules.lean`), theorem `C19_skeleton_matches_rules`;
* with the running code: props/c19.py logs every `to_dense` / `Dense(...)` during the public calls.
-/

namespace Op
variable {R : Type}

/-- the functions of the family (`unary` = `apply_unary`, also reached from `log`;
`pow` also from `sqrt` / `isqrt`; `inv` also from `solve`; `slogdet` also from `logdet`) -/
inductive Fn | inv | slogdet | diag | trace | unary | exp | pow | chol | plu
deriving DecidableEq, Repr

/-- operator kinds as far as the rules distinguish them -/
inductive Kind | kron | kronsum | bdiag | prod | sum | eye | scalar | diagonal | dense | tri | perm
  | transpose | adjoint | other
deriving DecidableEq, Repr

/-- what the selected rule does with the operator -/
inductive Act
  /-- works on the parameters of the kind only (`A.diag`, `A.c`, shape): nothing is densified -/
  | leaf
  /-- calls `g` on every member (`A.Ms`, or `A.A` for Transpose / Adjoint) -/
  | members (g : Fn)
  /-- a generic rule receives the operator itself -/
  | self
deriving DecidableEq, Repr

/-- the rule table.  Forwarding rules are composed: `trace(BlockDiag) = diag(BlockDiag).sum()`
calls `diag` on the members, `exp(BlockDiag) = apply_unary(exp, BlockDiag)` calls `apply_unary`
on the members, `cholesky(Diagonal) = sqrt → pow → apply_unary(Diagonal)` is a leaf, …
`Product` rules of `inv` / `slogdet` apply only when every member is square (see `dens`). -/
def act : Fn → Kind → Act
  -- inv.py
  | .inv, .eye => .leaf | .inv, .scalar => .leaf | .inv, .diagonal => .leaf | .inv, .perm => .leaf
  | .inv, .tri => .leaf
  | .inv, .prod => .members .inv | .inv, .bdiag => .members .inv | .inv, .kron => .members .inv
  -- logdet.py
  | .slogdet, .eye => .leaf | .slogdet, .scalar => .leaf | .slogdet, .diagonal => .leaf
  | .slogdet, .tri => .leaf | .slogdet, .perm => .leaf
  | .slogdet, .prod => .members .slogdet | .slogdet, .kron => .members .slogdet
  | .slogdet, .bdiag => .members .slogdet
  -- diag_trace.py
  | .diag, .dense => .leaf | .diag, .tri => .leaf | .diag, .eye => .leaf | .diag, .diagonal => .leaf
  | .diag, .scalar => .leaf
  | .diag, .sum => .members .diag | .diag, .bdiag => .members .diag | .diag, .kron => .members .diag
  | .diag, .kronsum => .members .diag
  | .trace, .kron => .members .trace
  | .trace, .dense => .leaf | .trace, .tri => .leaf | .trace, .eye => .leaf | .trace, .diagonal => .leaf
  | .trace, .scalar => .leaf
  | .trace, .sum => .members .diag | .trace, .bdiag => .members .diag | .trace, .kronsum => .members .diag
  -- unary.py
  | .unary, .diagonal => .leaf | .unary, .eye => .leaf | .unary, .scalar => .leaf
  | .unary, .bdiag => .members .unary | .unary, .transpose => .members .unary
  | .unary, .adjoint => .members .unary
  | .exp, .kronsum => .members .exp
  | .exp, .diagonal => .leaf | .exp, .eye => .leaf | .exp, .scalar => .leaf
  | .exp, .bdiag => .members .unary | .exp, .transpose => .members .unary | .exp, .adjoint => .members .unary
  | .pow, .kron => .members .pow
  | .pow, .diagonal => .leaf | .pow, .eye => .leaf | .pow, .scalar => .leaf
  | .pow, .bdiag => .members .unary | .pow, .transpose => .members .unary | .pow, .adjoint => .members .unary
  -- decompositions.py
  | .chol, .eye => .leaf | .chol, .diagonal => .leaf | .chol, .scalar => .leaf
  | .chol, .kron => .members .chol | .chol, .bdiag => .members .chol
  | .plu, .eye => .leaf | .plu, .diagonal => .leaf | .plu, .scalar => .leaf
  | .plu, .kron => .members .plu | .plu, .bdiag => .members .plu
  | _, _ => .self

/-! ### the per-rule structure, hand-written from the source of the rules (round 2)

Read off cola/linalg/inverse/inv.py, logdet/logdet.py, trace/diag_trace.py, unary/unary.py,
decompositions/decompositions.py by hand; `Lemmas/SkeletonTie.lean` compares it FIELD BY FIELD with what
the translator extracts from the AST of the live rules (`Gen/StructuralRules.lean: shapes_<f>`), and
`act` above is DERIVED from it (`actOf`; checked as `SkeletonTie.skeletonDerived`, theorem `C19_skeleton_derived`) — so `act`, and with it `dens` and
`C19_rules`, is no longer a free-standing table. -/

/-- one alternative of an argument: the `k`-th positional of the rule, or an expression of the class
    with this (qualified) Python name -/
inductive HAlt | param (k : Nat) | cls (name : String)
deriving DecidableEq, Repr

inductive HArg | whole | member | ilike | alts (as : List HAlt)
deriving DecidableEq, Repr

structure HShape where
  /-- what the body touches of the operator (sorted; same vocabulary as `Structural.RuleShape.touch`) -/
  touch : List String
  /-- calls of dispatched functions of the family, in source order -/
  calls : List (String × List HArg)
deriving DecidableEq, Repr

def HArg.p (k : Nat) : HArg := .alts [.param k]
def HArg.c (n : String) : HArg := .alts [.cls n]

/-- the rule a function has FOR a structured kind (none: no rule of its own) -/
def kindRule : String → Kind → Option HShape
  -- inv.py
  | "inv", .eye => some ⟨["self"], []⟩
  | "inv", .scalar => some ⟨["c"], []⟩
  | "inv", .diagonal => some ⟨["diag"], []⟩
  | "inv", .prod => some ⟨["Ms"], [("inv", [.member, .p 1])]⟩
  | "inv", .bdiag => some ⟨["Ms", "multiplicities"], [("inv", [.member, .p 1])]⟩
  | "inv", .kron => some ⟨["Ms"], [("inv", [.member, .p 1])]⟩
  -- logdet.py
  | "slogdet", .eye => some ⟨[], []⟩
  | "slogdet", .scalar => some ⟨["c"], []⟩
  | "slogdet", .diagonal => some ⟨["diag"], []⟩
  | "slogdet", .prod => some ⟨["Ms"], [("slogdet", [.member, .p 1, .p 2])]⟩
  | "slogdet", .kron => some ⟨["Ms"], [("slogdet", [.member, .p 1, .p 2])]⟩
  | "slogdet", .bdiag => some ⟨["Ms", "multiplicities"], [("slogdet", [.member, .p 1, .p 2])]⟩
  -- diag_trace.py
  | "diag", .eye => some ⟨[], []⟩
  | "diag", .diagonal => some ⟨["diag"], []⟩
  | "diag", .scalar => some ⟨["I_like", "c"], [("diag", [.ilike, .p 1, .p 2])]⟩
  | "diag", .sum => some ⟨["Ms"], [("diag", [.member, .p 1, .p 2])]⟩
  | "diag", .bdiag => some ⟨["Ms", "multiplicities"], [("diag", [.member, .p 1, .p 2])]⟩
  | "diag", .kron => some ⟨["Ms"], [("diag", [.member, .p 1, .p 2])]⟩
  | "diag", .kronsum => some ⟨["Ms"], [("diag", [.member, .p 1, .p 2])]⟩
  | "trace", .kron => some ⟨["Ms"], [("trace", [.member, .p 1])]⟩
  -- unary.py
  | "apply_unary", .diagonal => some ⟨["diag"], []⟩
  | "apply_unary", .eye => some ⟨["scalarMul"], []⟩
  | "apply_unary", .scalar => some ⟨["I_like", "c"], []⟩
  | "apply_unary", .bdiag => some ⟨["Ms", "multiplicities"], [("apply_unary", [.p 0, .member, .p 2])]⟩
  | "exp", .kronsum => some ⟨["Ms"], [("exp", [.member, .p 1])]⟩
  | "pow", .kron => some ⟨["Ms"], [("pow", [.member, .p 1, .p 2])]⟩
  -- decompositions.py
  | "cholesky", .eye => some ⟨["self"], []⟩
  | "cholesky", .diagonal => some ⟨[], [("sqrt", [.whole, .c "cola.linalg.algorithm_base.Auto"])]⟩
  | "cholesky", .scalar => some ⟨[], [("sqrt", [.whole, .c "cola.linalg.algorithm_base.Auto"])]⟩
  | "cholesky", .kron => some ⟨["Ms"], [("cholesky", [.member])]⟩
  | "cholesky", .bdiag => some ⟨["Ms", "multiplicities"], [("cholesky", [.member])]⟩
  | "plu", .eye => some ⟨["self"], []⟩
  | "plu", .diagonal => some ⟨["I_like", "self"], []⟩
  | "plu", .scalar => some ⟨["I_like", "self"], []⟩
  | "plu", .kron => some ⟨["Ms"], [("plu", [.member])]⟩
  | "plu", .bdiag => some ⟨["Ms", "multiplicities"], [("plu", [.member])]⟩
  | _, _ => none

/-- the rule for `LinearOperator` of the functions whose base rule is ONE algorithm-generic signature
    that hands the operator on (`inv`, `slogdet`, `diag`, `apply_unary`, `cholesky`, `plu` have base
    rules per algorithm class that end in dense / iterative code: none) -/
def baseRule : String → Option HShape
  | "trace" => some ⟨[], [("diag", [.whole, .c "int", .p 1])]⟩
  | "exp" => some ⟨[], [("apply_unary", [.c "numpy.ufunc", .whole, .p 1])]⟩
  | "log" => some ⟨[], [("apply_unary", [.c "numpy.ufunc", .whole, .p 1])]⟩
  | "pow" => some ⟨["I_like", "lazyPower"],
      [("inv", [.whole, .alts [.cls "cola.linalg.inverse.cg.CG", .cls "cola.linalg.inverse.gmres.GMRES",
                               .cls "cola.linalg.decompositions.decompositions.Cholesky",
                               .cls "cola.linalg.decompositions.decompositions.LU", .param 2]]),
       ("apply_unary", [.c "function", .whole, .p 2])]⟩
  | "sqrt" => some ⟨[], [("pow", [.whole, .c "float", .p 1])]⟩
  | "isqrt" => some ⟨[], [("pow", [.whole, .c "float", .p 1])]⟩
  | _ => none

def Fn.ofPy : String → Option Fn
  | "inv" => some .inv | "slogdet" => some .slogdet | "diag" => some .diag | "trace" => some .trace
  | "apply_unary" => some .unary | "log" => some .unary | "exp" => some .exp
  | "pow" => some .pow | "sqrt" => some .pow | "isqrt" => some .pow
  | "cholesky" => some .chol | "plu" => some .plu
  | _ => none

def HShape.memberCalls (h : HShape) : List String :=
  (h.calls.filter (fun c => c.2.contains .member)).map (·.1)
def HShape.wholeCalls (h : HShape) : List String :=
  (h.calls.filter (fun c => c.2.contains .whole)).map (·.1)

/-- what a call `n(A)` on kind `k` does with the operator, DERIVED from the per-rule structure: a rule of
    its own that calls `g` on the members → `members g`; that hands the operator on → follow the LAST
    such call (the general branch: `pow` → `apply_unary`; the shortcut branch `pow → inv` is checked
    separately by `forwardsStructural`); that does neither → `leaf`; no rule of its own → the base
    rule, followed the same way; neither → `self`. -/
def actOf : Nat → String → Kind → Act
  | 0, _, _ => .self
  | fuel + 1, n, k =>
    let follow (h : HShape) : Act :=
      match h.memberCalls.head? with
      | some g => (match Fn.ofPy g with | some f => .members f | none => .self)
      | none =>
        match h.wholeCalls.getLast? with
        | some g => actOf fuel g k
        | none => .leaf
    match kindRule n k with
    | some h => follow h
    | none =>
      match baseRule n with
      | some h => if h.wholeCalls.isEmpty then .self else follow h
      | none => .self

/-- every function a rule hands the whole operator to is itself structural on the kind -/
def forwardsStructural (fuel : Nat) (n : String) (k : Kind) : Bool :=
  let h? := match kindRule n k with | some h => some h | none => baseRule n
  match h? with
  | some h => h.wholeCalls.all fun g => actOf fuel g k != .self
  | none => true

/-- the dispatched functions whose rules `act f` describes (`log` shares the table of
`apply_unary`, `sqrt` / `isqrt` that of `pow` with a non-integer exponent) -/
def Fn.pyNames : Fn → List String
  | .inv => ["inv"] | .slogdet => ["slogdet"] | .diag => ["diag"] | .trace => ["trace"]
  | .unary => ["apply_unary", "log"] | .exp => ["exp"] | .pow => ["pow", "sqrt", "isqrt"]
  | .chol => ["cholesky"] | .plu => ["plu"]

def Fn.all : List Fn := [.inv, .slogdet, .diag, .trace, .unary, .exp, .pow, .chol, .plu]

/-- the structured kinds and the names of their Python classes -/
def Kind.structured : List (Kind × String) :=
  [(.kron, "Kronecker"), (.kronsum, "KronSum"), (.bdiag, "BlockDiag"), (.diagonal, "Diagonal"),
   (.eye, "Identity"), (.scalar, "ScalarMul"), (.prod, "Product"), (.sum, "Sum")]

/-- does the `Product` rule of `f` carry the condition "every member is square"? -/
def prodNeedsSquare : Fn → Bool
  | .inv => true | .slogdet => true | _ => false

def allSquare (Ms : List (Op R)) : Bool := (Ms.map (fun M => M.rows == M.cols)).all id

/-- the operators that end in a generic rule during `f(A)` -/
def dens : Fn → Op R → List (Op R)
  | f, annot _ A => dens f A          -- declaration wrappers do not change the class
  | f, kron Ms =>
      match act f .kron with
      | .leaf => [] | .self => [kron Ms]
      | .members g => (Ms.map (fun M => dens g M)).flatten
  | f, kronsum Ms =>
      match act f .kronsum with
      | .leaf => [] | .self => [kronsum Ms]
      | .members g => (Ms.map (fun M => dens g M)).flatten
  | f, bdiag Ms mults =>
      match act f .bdiag with
      | .leaf => [] | .self => [bdiag Ms mults]
      | .members g => (Ms.map (fun M => dens g M)).flatten
  | f, prod Ms =>
      match act f .prod with
      | .leaf => [] | .self => [prod Ms]
      | .members g =>
          if !prodNeedsSquare f || allSquare Ms then (Ms.map (fun M => dens g M)).flatten else [prod Ms]
  | f, sum Ms =>
      match act f .sum with
      | .leaf => [] | .self => [sum Ms]
      | .members g => (Ms.map (fun M => dens g M)).flatten
  | f, transpose A =>
      match act f .transpose with
      | .leaf => [] | .self => [transpose A] | .members g => dens g A
  | f, adjoint A =>
      match act f .adjoint with
      | .leaf => [] | .self => [adjoint A] | .members g => dens g A
  | f, eye dt n => match act f .eye with | .leaf => [] | _ => [eye dt n]
  | f, scalar dt s n => match act f .scalar with | .leaf => [] | _ => [scalar dt s n]
  | f, diag dt n d => match act f .diagonal with | .leaf => [] | _ => [diag dt n d]
  | f, dense dt r c a => match act f .dense with | .leaf => [] | _ => [dense dt r c a]
  | f, tri dt r c l a => match act f .tri with | .leaf => [] | _ => [tri dt r c l a]
  | f, perm dt p => match act f .perm with | .leaf => [] | _ => [perm dt p]
  | _, sparse dt r c e => [sparse dt r c e]
  | _, tridiag dt n al be ga => [tridiag dt n al be ga]
  | _, sliced A s0 s1 => [sliced A s0 s1]
  | _, concat ax Ms => [concat ax Ms]
  | _, house dt n v beta => [house dt n v beta]
  | _, generic A => [generic A]

/-- all proper sub-terms -/
def subterms : Op R → List (Op R)
  | prod Ms => Ms ++ (Ms.map (fun M => M.subterms)).flatten
  | sum Ms => Ms ++ (Ms.map (fun M => M.subterms)).flatten
  | kron Ms => Ms ++ (Ms.map (fun M => M.subterms)).flatten
  | kronsum Ms => Ms ++ (Ms.map (fun M => M.subterms)).flatten
  | bdiag Ms _ => Ms ++ (Ms.map (fun M => M.subterms)).flatten
  | concat _ Ms => Ms ++ (Ms.map (fun M => M.subterms)).flatten
  | transpose A => A :: A.subterms
  | adjoint A => A :: A.subterms
  | sliced A _ _ => A :: A.subterms
  | generic A => A :: A.subterms
  | annot _ A => A :: A.subterms
  | _ => []

/-- the kind of the class of the operator (annotation wrappers stripped) -/
def kindOf : Op R → Kind
  | annot _ A => kindOf A
  | kron _ => .kron | kronsum _ => .kronsum | bdiag _ _ => .bdiag | prod _ => .prod | sum _ => .sum
  | eye _ _ => .eye | scalar _ _ _ => .scalar | diag _ _ _ => .diagonal | dense .. => .dense
  | tri .. => .tri | perm _ _ => .perm | transpose _ => .transpose | adjoint _ => .adjoint
  | _ => .other

/-- the members the `Product` condition looks at -/
def prodSquareOK : Fn → Op R → Bool
  | f, annot _ A => prodSquareOK f A
  | f, prod Ms => !prodNeedsSquare f || allSquare Ms
  | _, _ => true

/-- `f` has a structural rule that applies to `A` -/
def hasRule (f : Fn) (A : Op R) : Bool := act f (kindOf A) != .self && prodSquareOK f A

/-! ## what `f(A)` ALLOCATES when the rules are followed (round 2)

`ruleCost f A` = entries allocated while the (lazy) result of `f(A)` is built, by the same recursion as
`dens`: a structural rule costs what it allocates ITSELF (`ownCost`) plus the cost of the calls on the
members; a generic rule on a sub-operator `D` costs `cf f` dense copies of `D` (`genCost`).

Constants, derived from the source of the rules (cola/linalg/…):
* `ownW` — operand-sized VECTORS a structural rule allocates per member: `slogdet(Diagonal)` =
  `abs`, `phase`, `log` (3); `diag(Kronecker | KronSum)` = the partial outer products, `diag(Sum)` the
  partial sums, `diag(BlockDiag)` the concatenation, `diag(ScalarMul)` = ones and the product (all
  ≤ one vector of the linear size per member, +1); `inv(Diagonal)`, `apply_unary(f, Diagonal)`,
  `cholesky(Diagonal)` = one new diagonal; `plu`, the Kronecker / BlockDiag / Product rules of inv,
  apply_unary, exp, pow, cholesky allocate containers only.  Scalars are covered by the `+ 4`.
* `cf` — dense `m × m` arrays the generic rule allocates on an `m × m` factor: `inv` / `slogdet`
  (`Auto` → LU: `to_dense` of a non-Dense factor, `L`, `U`, the permuted copy inside `scipy.linalg.lu`;
  Cholesky: 2) = 5; `apply_unary` / `exp` / `pow` (`Eig`: `to_dense`, eigenvectors real and `astype(complex)`,
  then `inv(V)` = LU of `V`: `L`, `U`, copy) = 7, (`Eigh`: `to_dense`, `V`) ≤ 7; `cholesky` = 2; `plu` = 4;
  `diag` / `trace` (`Exact`: `A @ I` in blocks, the block of `I` and the product) = 3. -/

/-- number of members of a node -/
def arity : Op R → Nat
  | prod Ms => Ms.length | sum Ms => Ms.length | kron Ms => Ms.length | kronsum Ms => Ms.length
  | bdiag Ms _ => Ms.length | concat _ Ms => Ms.length
  | annot _ A => arity A
  | _ => 1

def ownW : Fn → Nat
  | .slogdet => 3 | _ => 1

def cf : Fn → Nat
  | .inv => 5 | .slogdet => 5 | .diag => 3 | .trace => 3 | .unary => 7 | .exp => 7 | .pow => 7
  | .chol => 2 | .plu => 4

/-- uniform bounds of the two constants -/
def OW : Nat := 3
def CF : Nat := 7

/-- what the structural rule of `f` allocates itself at the node `A` -/
def ownCost (f : Fn) (A : Op R) : Nat := ownW f * ((arity A + 1) * (A.vol + 4))

/-- the generic (dense) rule of `f` on the whole of `D` -/
def genCost (f : Fn) (D : Op R) : Nat := cf f * (D.rows * D.cols)

/-- entries allocated while `f(A)` is built -/
def ruleCost : Fn → Op R → Nat
  | f, annot _ A => ruleCost f A
  | f, kron Ms =>
      match act f .kron with
      | .leaf => ownCost f (kron Ms) | .self => genCost f (kron Ms)
      | .members g => ownCost f (kron Ms) + (Ms.map (fun M => ruleCost g M)).sum
  | f, kronsum Ms =>
      match act f .kronsum with
      | .leaf => ownCost f (kronsum Ms) | .self => genCost f (kronsum Ms)
      | .members g => ownCost f (kronsum Ms) + (Ms.map (fun M => ruleCost g M)).sum
  | f, bdiag Ms mults =>
      match act f .bdiag with
      | .leaf => ownCost f (bdiag Ms mults) | .self => genCost f (bdiag Ms mults)
      | .members g => ownCost f (bdiag Ms mults) + (Ms.map (fun M => ruleCost g M)).sum
  | f, prod Ms =>
      match act f .prod with
      | .leaf => ownCost f (prod Ms) | .self => genCost f (prod Ms)
      | .members g =>
          if !prodNeedsSquare f || allSquare Ms then ownCost f (prod Ms) + (Ms.map (fun M => ruleCost g M)).sum
          else genCost f (prod Ms)
  | f, sum Ms =>
      match act f .sum with
      | .leaf => ownCost f (sum Ms) | .self => genCost f (sum Ms)
      | .members g => ownCost f (sum Ms) + (Ms.map (fun M => ruleCost g M)).sum
  | f, transpose A =>
      match act f .transpose with
      | .leaf => ownCost f (transpose A) | .self => genCost f (transpose A)
      | .members g => ownCost f (transpose A) + ruleCost g A
  | f, adjoint A =>
      match act f .adjoint with
      | .leaf => ownCost f (adjoint A) | .self => genCost f (adjoint A)
      | .members g => ownCost f (adjoint A) + ruleCost g A
  | f, A@(eye _ _) => match act f .eye with | .leaf => ownCost f A | _ => genCost f A
  | f, A@(scalar _ _ _) => match act f .scalar with | .leaf => ownCost f A | _ => genCost f A
  | f, A@(diag _ _ _) => match act f .diagonal with | .leaf => ownCost f A | _ => genCost f A
  | f, A@(dense _ _ _ _) => match act f .dense with | .leaf => ownCost f A | _ => genCost f A
  | f, A@(tri _ _ _ _ _) => match act f .tri with | .leaf => ownCost f A | _ => genCost f A
  | f, A@(perm _ _) => match act f .perm with | .leaf => ownCost f A | _ => genCost f A
  | f, A@(sparse _ _ _ _) => genCost f A
  | f, A@(tridiag _ _ _ _ _) => genCost f A
  | f, A@(sliced _ _ _) => genCost f A
  | f, A@(concat _ _) => genCost f A
  | f, A@(house _ _ _ _) => genCost f A
  | f, A@(generic _) => genCost f A

/-- Σ over the FACTORS (the leaves of the structured part of the tree) of the dense size `rows · cols` of a Dense /
    Triangular factor and of the STORAGE of a structured leaf (Diagonal n, Identity / ScalarMul 1, Permutation n,
    Sparse nnz, Tridiagonal 3n, Householder n): "the sizes of the individual factors" of the statement.  (The value on a sliced / concatenated /
    `no_dispatch` node — its full `rows · cols` — is never used by `C19_rule_cost`: `deepRule` is false there.) -/
def factorDense : Op R → Nat
  | annot _ A => factorDense A
  | kron Ms => (Ms.map (fun M => factorDense M)).sum
  | kronsum Ms => (Ms.map (fun M => factorDense M)).sum
  | bdiag Ms _ => (Ms.map (fun M => factorDense M)).sum
  | prod Ms => (Ms.map (fun M => factorDense M)).sum
  | sum Ms => (Ms.map (fun M => factorDense M)).sum
  | transpose A => factorDense A
  | adjoint A => factorDense A
  -- round 3: a structured leaf counts with what it STORES, not with its dense size — a full-size Diagonal / Identity /
  -- ScalarMul member of a Sum or Product does not put n² into the bound of `C19_rule_cost`
  | eye _ _ => 1
  | scalar _ _ _ => 1
  | diag _ n _ => n
  | A@(dense _ _ _ _) => A.rows * A.cols
  | A@(tri _ _ _ _ _) => A.rows * A.cols
  | perm _ p => p.length
  | sparse _ _ _ ents => ents.length
  | tridiag _ n _ _ _ => 3 * n
  | A@(sliced _ _ _) => A.rows * A.cols
  | A@(concat _ _) => A.rows * A.cols
  | house _ n _ _ => n
  | A@(generic _) => A.rows * A.cols

/-- Σ over the nodes of the structured part of the tree of `(arity + 1) · (linear size + 4)`: sums of
    LINEAR sizes — no product of a row count with a column count occurs in it -/
def linSize : Op R → Nat
  | annot _ A => linSize A
  | kron Ms => (Ms.length + 1) * ((kron Ms).vol + 4) + (Ms.map (fun M => linSize M)).sum
  | kronsum Ms => (Ms.length + 1) * ((kronsum Ms).vol + 4) + (Ms.map (fun M => linSize M)).sum
  | bdiag Ms mu => (Ms.length + 1) * ((bdiag Ms mu).vol + 4) + (Ms.map (fun M => linSize M)).sum
  | prod Ms => (Ms.length + 1) * ((prod Ms).vol + 4) + (Ms.map (fun M => linSize M)).sum
  | sum Ms => (Ms.length + 1) * ((sum Ms).vol + 4) + (Ms.map (fun M => linSize M)).sum
  | transpose A => 2 * ((transpose A).vol + 4) + linSize A
  | adjoint A => 2 * ((adjoint A).vol + 4) + linSize A
  | A@(eye _ _) => 2 * (A.vol + 4)
  | A@(scalar _ _ _) => 2 * (A.vol + 4)
  | A@(diag _ _ _) => 2 * (A.vol + 4)
  | A@(dense _ _ _ _) => 2 * (A.vol + 4)
  | A@(tri _ _ _ _ _) => 2 * (A.vol + 4)
  | A@(perm _ _) => 2 * (A.vol + 4)
  | A@(sparse _ _ _ _) => 2 * (A.vol + 4)
  | A@(tridiag _ _ _ _ _) => 2 * (A.vol + 4)
  | A@(sliced _ _ _) => 2 * (A.vol + 4)
  | A@(concat _ Ms) => (Ms.length + 1) * (A.vol + 4)
  | A@(house _ _ _ _) => 2 * (A.vol + 4)
  | A@(generic _) => 2 * (A.vol + 4)

/-- the rules reach down to the factors: every composite node met along the recursion of `f(A)` has a
    structural rule (so that `dens f A` consists of factors only), and every node the recursion ends in is a
    LEAF kind (Dense, Triangular, Sparse, Diagonal, Identity, ScalarMul, Tridiagonal, Permutation, Householder) —
    never a sliced / concatenated / `no_dispatch`-wrapped operator (round 3: those returned `true` before, so
    the bound of `C19_rule_cost` contained their full `rows · cols`) -/
def deepRule : Fn → Op R → Bool
  | f, annot _ A => deepRule f A
  | f, kron Ms =>
      match act f .kron with
      | .leaf => true | .self => false | .members g => (Ms.map (fun M => deepRule g M)).all id
  | f, kronsum Ms =>
      match act f .kronsum with
      | .leaf => true | .self => false | .members g => (Ms.map (fun M => deepRule g M)).all id
  | f, bdiag Ms _ =>
      match act f .bdiag with
      | .leaf => true | .self => false | .members g => (Ms.map (fun M => deepRule g M)).all id
  | f, prod Ms =>
      match act f .prod with
      | .leaf => true | .self => false
      | .members g => (!prodNeedsSquare f || allSquare Ms) && (Ms.map (fun M => deepRule g M)).all id
  | f, sum Ms =>
      match act f .sum with
      | .leaf => true | .self => false | .members g => (Ms.map (fun M => deepRule g M)).all id
  | f, transpose A =>
      match act f .transpose with
      | .leaf => true | .self => false | .members g => deepRule g A
  | f, adjoint A =>
      match act f .adjoint with
      | .leaf => true | .self => false | .members g => deepRule g A
  -- FACTORS: leaf kinds; `factorDense` holds their own dense size `rows · cols`
  | _, dense _ _ _ _ => true
  | _, tri _ _ _ _ _ => true
  -- round 3: a structured leaf is a factor only where `f` has a structural rule for it (then `f` allocates vectors of its
  -- linear size); where `f` falls back to the generic rule the leaf is densified (`genCost = cf · n²`) and the tree is not
  -- covered — Sparse, Tridiagonal and Householder have no rule in any family
  | f, eye _ _ => match act f .eye with | .leaf => true | _ => false
  | f, scalar _ _ _ => match act f .scalar with | .leaf => true | _ => false
  | f, diag _ _ _ => match act f .diagonal with | .leaf => true | _ => false
  | f, perm _ _ => match act f .perm with | .leaf => true | _ => false
  | _, sparse _ _ _ _ => false
  | _, tridiag _ _ _ _ _ => false
  | _, house _ _ _ _ => false
  -- round 3: COMPOSITE / OPAQUE kinds without any structural rule (a slice of an operator, a concatenation, a
  -- `no_dispatch` wrapper) are NOT factors: the generic rule takes the whole node, whose dense size may be the n²
  -- of a structured operator inside it.  `C19_rule_cost` does not apply to a tree in which the recursion meets one.
  | _, sliced _ _ _ => false
  | _, concat _ _ => false
  | _, generic _ => false

end Op
