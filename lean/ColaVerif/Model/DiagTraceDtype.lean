import ColaVerif.Model.DiagTrace
import ColaVerif.Model.Dtype

/-!
# Result dtype of `cola.linalg.diag` / `cola.linalg.trace` (C08) — code model

For every rule of `cola/linalg/trace/diag_trace.py` and for `exact_diag`
(`cola/linalg/trace/diagonal_estimation.py`): which arrays are created with which dtype and what
NumPy does with them (`np.diag` keeps the dtype, `xnp.ones/zeros(…, A.dtype)`, promotion in
`a + b`, `a * b`, `np.concatenate`, NEP-50 weak Python scalars `0` / `0.`).

`PyDt = Option DType`: `some dt` = a NumPy array / NumPy scalar of floating dtype `dt`;
`none` = there is no such array (the weak Python `0` an empty `sum(...)` returns, or the call raises:
`reduce` / `concatenate` of nothing).  The functions say which dtype the returned array has WHENEVER
the call returns one; the refusals (`assert k == 0`, …) are in `diagCode` / `traceCode`.

The SPECIFICATION is `Op.dtypeSpec` (Model/Dtype.lean): the NumPy promotion of the dtypes of the
payload-carrying leaves, stated on the lattice (complex iff some leaf is, double iff some leaf is).
-/

namespace Op
variable {R : Type}

abbrev PyDt := Option DType

/-- `x + a` / `x * a` for a floating array `a` of dtype `d`: a weak Python `int` / `float` scalar
(`none`) adopts the array's dtype (NEP 50), two arrays promote -/
def binDt : PyDt → DType → PyDt
  | none, d => some d
  | some a, d => some (DType.promote a d)

/-- Python `sum(ds)` = `(((0 + d₁) + d₂) + …)`; `sum([])` is the Python int `0` -/
def pySumDt (ds : List DType) : PyDt := ds.foldl binDt none

/-- `functools.reduce(lambda a, b: a * b, ds)` (`product` of diag_trace.py); raises on `[]` -/
def reduceMulDt : List DType → PyDt
  | [] => none
  | d :: ds => some (ds.foldl DType.promote d)

/-- `np.concatenate(parts)`: `result_type` of all parts; raises on `[]` -/
def concatDt : List DType → PyDt
  | [] => none
  | d :: ds => some (ds.foldl DType.promote d)

/-- all members are arrays -/
def seqO {α : Type} : List (Option α) → Option (List α)
  | [] => some []
  | r :: rs => do
      let a ← r
      let as ← seqO rs
      pure (a :: as)

/-- dtype of `I_like(A)[:, a:b].to_dense()` for `I_like(A) = Identity(dtype = dt)`:
`Sliced(Identity).to_dense()` is `self @ xnp.eye(…, dtype=self.dtype)` -/
def idColsDt (dt : DType) (n a b : Nat) : DType :=
  let S : Op R := sliced (eye dt n) fullSlice (.slice (some (a : Int)) (some (b : Int)) none)
  S.mmDtype S.dtype

/-- dtype of `exact_diag(A, k, bs)`:
`chunk = I_like(A)[:, i:stop].to_dense()`; `shifted_chunk` is `chunk` itself for `k = 0`, else
`xnp.zeros(…, dtype=A.dtype)` (updated in place: the dtype stays); `(A @ chunk) * shifted_chunk`
promotes; `.sum(-1)` keeps the dtype; `diag_sum = 0.; diag_sum += …` — the weak Python float adopts it;
every pass of the loop produces the same dtype; slicing keeps it. -/
def exactDiagDt (A : Op R) (k : Int) : PyDt :=
  let chunk : DType := idColsDt (R := R) A.dtype A.rows 0 A.rows
  let shifted : DType := if k = 0 then chunk else A.dtype
  let y : DType := A.mmDtype chunk
  binDt none (DType.promote y shifted)

/-- dtype of the array `diag(A, k, alg)` returns (when it returns one); the same for `alg` omitted,
`Auto()` (at the exact side of its decision) and `Exact()` -/
def diagDt : Op R → Int → PyDt
  | dense dt _ _ _, _ => some dt                       -- xnp.diag(A.A, diagonal=k)
  | tri dt _ _ _ _, _ => some dt                       -- Triangular ≤ Dense
  | eye dt _, _ => some dt                             -- xnp.ones / xnp.zeros(…, A.dtype)
  | diag dt _ _, _ => some dt                          -- A.diag (k = 0) / xnp.zeros(…, A.dtype)
  | scalar dt _ _, _ => some (DType.promote dt dt)     -- A.c (array of dtype A.dtype) * diag(I_like(A))
  | sum Ms, k => do
      let ds ← seqO (Ms.map (fun M => diagDt M k))
      pySumDt ds
  | bdiag Ms mults, k => do
      let ds ← seqO (Ms.map (fun M => diagDt M k))
      concatDt ((ds.zip mults).flatMap (fun p => List.replicate p.2 p.1))
  | kron Ms, k => do
      let ds ← seqO (Ms.map (fun M => diagDt M k))
      reduceMulDt ds
  | kronsum Ms, k => do
      let ds ← seqO (Ms.map (fun M => diagDt M k))
      pySumDt ds
  | annot _ A, k => diagDt A k
  | A, k => exactDiagDt A k

/-- dtype of the NumPy scalar `trace(A, alg)` returns: `prod(trace(M))` for a Kronecker product,
else `diag(A, 0, alg).sum()` (`sum` keeps the dtype) -/
def traceDt : Op R → PyDt
  | kron Ms => do
      let ts ← seqO (Ms.map (fun M => traceDt M))
      reduceMulDt ts
  | annot _ A => traceDt A
  | A => diagDt A 0

/-- clause `bdiag-zero-multiplicity`: on the path of the structural rules (Sum / BlockDiag /
Kronecker / KronSum members, declaration wrappers) some `BlockDiag` node has a block with
multiplicity `0` — the block is absent from the matrix and from the result of the rule, but its
dtype is part of `A.dtype` -/
def ruleZeroMult : Op R → Bool
  | sum Ms => (Ms.map (·.ruleZeroMult)).any id
  | kron Ms => (Ms.map (·.ruleZeroMult)).any id
  | kronsum Ms => (Ms.map (·.ruleZeroMult)).any id
  | bdiag Ms mults => (Ms.map (·.ruleZeroMult)).any id || mults.any (· == 0)
  | annot _ A => A.ruleZeroMult
  | _ => false

end Op
