import ColaVerif.Model.Matmat

/-!
# Well-formedness (the constructor preconditions) and the named clauses

`wf A` = the preconditions cola's constructors check or assume: compatible shapes, square
members where the kind needs them, indices in range.  `clauses A` lists, by name, the modelled
defects the tree runs into (each name is a clause of the hypothesis of a `…_partial` theorem and
a key of /verif/known_findings.json).
-/

namespace Op
variable {R : Type}

def chainOk : List (Nat × Nat) → Bool
  | [] => true
  | [_] => true
  | a :: b :: rest => a.2 == b.1 && chainOk (b :: rest)

def wf : Op R → Bool
  | dense .. => true
  | tri .. => true
  | sparse _ r c ents =>
      ents.all (fun e => e.1 < r && e.2.1 < c) && (ents.map (fun e => (e.1, e.2.1))).Nodup
  | scalar .. => true
  | eye .. => true
  | prod Ms => !Ms.isEmpty && (Ms.map (·.wf)).all id && chainOk (Ms.map (fun M => (M.rows, M.cols)))
  | sum Ms => !Ms.isEmpty && (Ms.map (·.wf)).all id &&
      (Ms.map (fun M => (M.rows, M.cols))).all (fun s => s == ((Ms.map (fun M => (M.rows, M.cols))).head?.getD (0, 0)))
  | kron Ms => !Ms.isEmpty && (Ms.map (·.wf)).all id
  | kronsum Ms => !Ms.isEmpty && (Ms.map (·.wf)).all id && (Ms.map (fun M => (M.rows, M.cols))).all (fun s => s.1 == s.2)
  | bdiag Ms mults => !Ms.isEmpty && (Ms.map (·.wf)).all id && Ms.length == mults.length
  | diag .. => true
  | tridiag _ n _ _ _ => 0 < n
  | transpose A => A.wf
  | adjoint A => A.wf
  | sliced A s0 s1 => A.wf && (Ix.resolve A.rows s0).isSome && (Ix.resolve A.cols s1).isSome
  | perm _ p => p.all (· < p.length) && p.Nodup
  | concat ax Ms => !Ms.isEmpty && (Ms.map (·.wf)).all id &&
      (if ax then (Ms.map (·.rows)).all (· == (Ms.map (·.rows)).head?.getD 0)
       else (Ms.map (·.cols)).all (· == (Ms.map (·.cols)).head?.getD 0))
  | house .. => true
  | generic A => A.wf
  | annot _ A => A.wf

/-- some `Sliced` node of the tree uses an integer index array with a repeated entry -/
def dupSlice : Op R → Bool
  | prod Ms => (Ms.map (·.dupSlice)).any id
  | sum Ms => (Ms.map (·.dupSlice)).any id
  | kron Ms => (Ms.map (·.dupSlice)).any id
  | kronsum Ms => (Ms.map (·.dupSlice)).any id
  | bdiag Ms _ => (Ms.map (·.dupSlice)).any id
  | concat _ Ms => (Ms.map (·.dupSlice)).any id
  | transpose A => A.dupSlice
  | adjoint A => A.dupSlice
  | generic A => A.dupSlice
  | annot _ A => A.dupSlice
  | sliced A s0 s1 =>
      A.dupSlice || !((Ix.resolve A.rows s0).getD []).Nodup || !((Ix.resolve A.cols s1).getD []).Nodup
  | _ => false

/-- some `Product` node multiplies exactly one annotated non-scalar member by `ScalarMul`
members: the inference passes the member's annotations through whatever the scalar is -/
def scalarTimesAnn [DecidableEq R] : Op R → Bool
  | prod Ms =>
      (Ms.map (·.scalarTimesAnn)).any id ||
        ((Ms.map (fun M => (isScalarMul M, !M.anns.isEmpty))).any (·.1) &&
          (match (Ms.map (fun M => (isScalarMul M, !M.anns.isEmpty))).filter (fun p => !p.1) with
           | [p] => p.2
           | _ => false))
  | sum Ms => (Ms.map (·.scalarTimesAnn)).any id
  | kron Ms => (Ms.map (·.scalarTimesAnn)).any id
  | kronsum Ms => (Ms.map (·.scalarTimesAnn)).any id
  | bdiag Ms _ => (Ms.map (·.scalarTimesAnn)).any id
  | concat _ Ms => (Ms.map (·.scalarTimesAnn)).any id
  | transpose A => A.scalarTimesAnn
  | adjoint A => A.scalarTimesAnn
  | sliced A _ _ => A.scalarTimesAnn
  | generic A => A.scalarTimesAnn
  | annot _ A => A.scalarTimesAnn
  | _ => false

def clauses [DecidableEq R] (A : Op R) : List String :=
  (if A.dupSlice then ["sliced-repeated-index"] else []) ++
  (if A.scalarTimesAnn then ["scalar-times-annotated"] else [])

end Op
