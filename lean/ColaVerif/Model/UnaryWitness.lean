import ColaVerif.Lemmas.UnaryEig
import ColaVerif.Lemmas.UnaryGood

/-!
# C09 (round 5) — witnesses for the `.inv` and `.product` clauses of `UnOp.SoundE`

Helper definitions and lemmas for `Properties/C09/SoundEWitness.lean` (owned by C09; round-5 file list `Model/Unary*.lean`).

* `.product`: `SoundE` at a `.product A k B` node asks `Op.Good A` and `HermNode` of EVERY operator `reduce(dot, [A] * j)`
  builds (all `j`).  For the unannotated Dense `exA = [[2,1],[1,2]]`: `exA_powProduct_form` (each of them is `exA` or a
  `Product` of copies of `exA`), `prod_anns_nil` (such a product reports no annotation), hence `exA_hermNode`;
  `exA_product_soundE`: the plan of `pow(exA, 2, alg)` is `.product exA 2 (Product [exA, exA])` and it is `SoundE`, for every
  oracle and `alg`.
* `.inv`: `exInvM = [[2/3, -1/3], [-1/3, 2/3]]` is a left inverse of `exA` (`exInvM_left`), `exInvOracle` returns it;
  `exA_inv_soundE`: the plan of `pow(exA, -1, alg)` is `.inv exA (invAlgOf alg)` and it is `SoundE`.
-/

set_option linter.unusedSectionVars false

open Matrix MatFun

namespace Unary

/-- a product of operators without annotations, none of them a Transpose / Adjoint, reports no annotation -/
theorem prod_anns_nil {𝕜 : Type} [Field 𝕜] [StarRing 𝕜] [DecidableEq 𝕜] (Ms : List (Op 𝕜))
    (h : ∀ M ∈ Ms, M.anns = [] ∧ Op.isTA M = false) : (Op.prod Ms).anns = [] := by
  have hall : ∀ s ∈ Ms.map (·.anns), s = [] := by
    intro s hs
    obtain ⟨M, hM, rfl⟩ := List.mem_map.mp hs
    exact (h M hM).1
  have hnil := interAll_of_all_nil _ hall
  have tail : ∀ gram : Bool, gram = false →
      (if gram = true then
        ((AnnSet.interAll (List.map (fun x => x.anns) Ms)).inter [Ann.unitary, Ann.stiefel]).union [Ann.psd]
      else
        match List.filter (fun p => !p.1.isScalarMul) (Ms.zip (List.map (fun x => x.anns) Ms)) with
        | [p] => p.2
        | _ => (AnnSet.interAll (List.map (fun x => x.anns) Ms)).inter [Ann.unitary, Ann.stiefel]) = [] := by
    intro gram hg
    rw [hg]
    simp only [Bool.false_eq_true, if_false]
    split
    · rename_i p hp
      have hmem : p ∈ (Ms.zip (Ms.map (·.anns))).filter (fun p => !Op.isScalarMul p.1) := by
        rw [hp]; simp
      have := (List.of_mem_zip (List.mem_filter.mp hmem).1).2
      exact hall _ this
    · rw [hnil]; rfl
  by_cases h2 : ∃ A1 A2, Ms = [A1, A2]
  · obtain ⟨A1, A2, rfl⟩ := h2
    rw [Op.anns]
    apply tail
    simp [(h A1 (by simp)).2, (h A2 (by simp)).2]
  · rw [Op.anns]
    · exact tail false rfl
    · intro A1 A2 e
      exact h2 ⟨A1, A2, e⟩

theorem exA_core : exA.core = exA := by simp only [exA, Op.core]

/-- every operator `reduce(dot, [exA] * j)` builds is `exA` itself or a `Product` of copies of `exA` -/
theorem exA_powProduct_form : ∀ (j : Nat) (B : Op ℝ), powProduct exA j = .ok B →
    B = exA ∨ ∃ Ms, B = .prod Ms ∧ ∀ M ∈ Ms, M = exA
  | 0, B, h => by simp [powProduct] at h
  | 1, B, h => by
    simp only [powProduct] at h
    injection h with h
    exact Or.inl h.symm
  | j + 2, B, h => by
    simp only [powProduct] at h
    cases hP : powProduct exA (j + 1) with
    | error e => rw [hP] at h; simp [bind, Except.bind] at h
    | ok Pk =>
      rw [hP] at h
      simp only [bind, Except.bind] at h
      cases hv : Ex.dotRule Pk exA with
      | error e => rw [hv] at h; simp at h
      | ok v =>
        rw [hv] at h
        simp only at h
        right
        rcases exA_powProduct_form (j + 1) Pk hP with rfl | ⟨Ms, rfl, hMs⟩
        · refine ⟨[exA, exA], ?_, by simp⟩
          simp [Ex.dotRule, Ex.isIdentity, Ex.prodMembers, Op.core, exA, Ex.mkProd] at hv
          split_ifs at hv
          cases hv
          simp only [Except.ok.injEq] at h
          rw [← h]; simp only [exA]
        · refine ⟨Ms ++ [exA], ?_, ?_⟩
          · simp [Ex.dotRule, Ex.isIdentity, Ex.prodMembers, Op.core, exA, Ex.mkProd] at hv
            split_ifs at hv
            cases hv
            simp only [Except.ok.injEq] at h
            rw [← h]; simp only [exA]
          · intro M hM
            rcases List.mem_append.mp hM with hM | hM
            · exact hMs M hM
            · simpa using hM

/-- `x ↦ x ^ α` on the reals (`Real.rpow`), the scalar function of `pow` -/
noncomputable def rpw : Rat → ℝ → ℝ := fun α a => a ^ (α : ℝ)

/-- the hypotheses `h1`, `hf1`, `hSmul`, `hmul` of `C09_pow` / `C09_pow_eig` for `rpw α` on the positive reals -/
theorem rpw_hyps (α : ℚ) :
    (1 : ℝ) ∈ Set.Ioi (0 : ℝ) ∧ rpw α 1 = 1 ∧ (∀ a ∈ Set.Ioi (0 : ℝ), ∀ b ∈ Set.Ioi (0 : ℝ), a * b ∈ Set.Ioi (0 : ℝ)) ∧
    ∀ a ∈ Set.Ioi (0 : ℝ), ∀ b ∈ Set.Ioi (0 : ℝ), rpw α (a * b) = rpw α a * rpw α b := by
  refine ⟨by simp, by simp [rpw], fun a ha b hb => Set.mem_Ioi.mpr (mul_pos ha hb), fun a ha b hb => ?_⟩
  simp only [rpw]
  exact Real.mul_rpow (le_of_lt ha) (le_of_lt hb)

theorem exA_anns : exA.anns = [] := by simp only [exA, Op.anns]
theorem exA_isTA : Op.isTA exA = false := by simp [Op.isTA, exA, Op.core]

/-- every product `pow` builds from `exA` reports no annotation, so it is `HermNode` -/
theorem exA_hermNode (j : Nat) (B : Op ℝ) (h : powProduct exA j = .ok B) : Op.HermNode B := by
  rcases exA_powProduct_form j B h with rfl | ⟨Ms, rfl, hMs⟩
  · exact hermNode_of_anns_nil exA_anns
  · exact hermNode_of_anns_nil
      (prod_anns_nil Ms (fun M hM => by rw [hMs M hM]; exact ⟨exA_anns, exA_isTA⟩))

theorem exA_powProduct_two : powProduct exA 2 = .ok (.prod [exA, exA]) := by
  simp [powProduct, Ex.dotRule, Ex.isIdentity, Ex.prodMembers, Op.core, exA, Ex.mkProd, Op.chainOk, Op.rows,
    Op.cols, bind, Except.bind]

theorem exA_diagonalisable : DiagonalisableOn (Set.Ioi (0 : ℝ)) (mat exA) :=
  (exEig_ok.matFun id).diagonalisable

/-- **the `.product` clause of `SoundE` is witnessed**: `pow([[2,1],[1,2]], 2, alg)` plans `.product exA 2 (Product [exA, exA])`
and the plan is `SoundE`, for every oracle and every `alg` -/
theorem exA_product_soundE (E : EigOracle ℝ) (alg : Alg) :
    powRule rpw 2 alg exA = .product exA 2 (.prod [exA, exA]) ∧
    (powRule rpw 2 alg exA).SoundE E (Set.Ioi 0) (rpw 2) := by
  have hplan : powRule rpw 2 alg exA = .product exA 2 (.prod [exA, exA]) := by
    have h1 : powRule rpw 2 alg exA = powBase rpw 2 alg exA := by
      simp only [powRule, exA, powGo]
    rw [h1]
    simp only [powBase, powPlan_two, exA_powProduct_two]
  refine ⟨hplan, ?_⟩
  rw [hplan]
  simp only [UnOp.SoundE]
  refine ⟨by simp [exA, Op.rows, Op.cols], exA_diagonalisable, ?_, ?_, by norm_num, exA_powProduct_two,
    exA_hermNode⟩
  · intro a _
    simp only [rpw]
    rw [show ((2 : ℚ) : ℝ) = ((2 : ℕ) : ℝ) by norm_num, Real.rpow_natCast]
  · unfold exA
    exact ExprSound.good_dense _ _ _ _

/-- `inv([[2,1],[1,2]]) = [[2/3, -1/3], [-1/3, 2/3]]` -/
noncomputable def exInvM : MatF ℝ := fun i j => if i = j then 2 / 3 else -1 / 3

theorem exInvM_left : MatF.toMatrix exA.rows exA.rows exInvM * mat exA = 1 := by
  have hr := exA_rows
  rw [← MatF.toMatrix_mmul, ← MatF.toMatrix_eyeM]
  apply MatF.toMatrix_congr
  intro i j hi hj
  rw [hr] at hi hj ⊢
  interval_cases i <;> interval_cases j <;> simp [mmul, sumTo, exInvM, exA, Op.den, eyeM] <;> norm_num

/-- an oracle whose `inv` returns the inverse of `[[2,1],[1,2]]` -/
noncomputable def exInvOracle : EigOracle ℝ := ⟨fun _ _ => exEig, fun _ _ _ => zeroM, fun _ _ => exInvM⟩

/-- **the `.inv` clause of `SoundE` is witnessed**: `pow([[2,1],[1,2]], -1, alg)` plans `inv(A, mapped algorithm)` and the plan
is `SoundE` with `exInvOracle`, for every `alg` -/
theorem exA_inv_soundE (alg : Alg) :
    powRule rpw (-1) alg exA = .inv exA (invAlgOf alg) ∧
    (powRule rpw (-1) alg exA).SoundE exInvOracle (Set.Ioi 0) (rpw (-1)) := by
  have hplan : powRule rpw (-1) alg exA = .inv exA (invAlgOf alg) := by
    simp only [powRule, exA, powGo, powBase, powPlan_neg_one]
  refine ⟨hplan, ?_⟩
  rw [hplan]
  simp only [UnOp.SoundE, exInvOracle]
  refine ⟨by simp [exA, Op.rows, Op.cols], exA_diagonalisable, by simp, ?_, exInvM_left⟩
  intro a ha
  simp only [rpw]
  rw [show ((-1 : ℚ) : ℝ) = -1 by norm_num, Real.rpow_neg_one]

end Unary
