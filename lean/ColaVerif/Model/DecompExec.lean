import ColaVerif.Basic.GRat
import ColaVerif.Model.Decomp

/-!
# Exact Gaussian-rational instance of the numerical parameters of `cholesky` / `plu`

What the driver runs in place of `x ** 0.5`, LAPACK `potrf` and `scipy.linalg.lu`:

* `gsqrt` — the principal square root of a Gaussian rational when it is again a Gaussian rational
  (perfect squares); a negative real under a real dtype is `.error "nan"` (NumPy returns NaN);
  anything whose root is not rational is `.error "inexact"` (the streams never generate it).
* `gcholDense` — textbook Cholesky–Banachiewicz on the lower triangle (pivots must be squares of
  rationals); `none` when a pivot is not a positive real (= `LinAlgError`).
* `gluDense` — textbook LU with partial pivoting (largest squared modulus, first maximum).  Its
  pivot order need not be LAPACK's: dense factors are compared through their defining properties.

Every result is CHECKED before it is returned (`s * s = x`; `L Lᴴ` = the Hermitian completion of
the lower triangle; `P L U = A`, `p` a permutation) and the triangular masks are built in, so the
contracts hold by construction (`Lemmas/DecompExecSound.lean`).
-/

namespace GDecomp

/-- exact square root of a non-negative rational, if rational -/
def ratSqrt? (q : Rat) : Option Rat :=
  if q < 0 then none else
    let s : Rat := mkRat (Nat.sqrt q.num.toNat) (Nat.sqrt q.den)
    if s * s = q then some s else none

/-- candidate for `x ** 0.5` (principal branch) -/
def gsqrtCand (dt : DType) (x : GRat) : Except String GRat :=
  if !dt.isComplex then
    if x.im ≠ 0 then .error "model:complex-payload-under-real-dtype"
    else if x.re < 0 then .error "nan"
    else match ratSqrt? x.re with
      | some s => .ok ⟨s, 0⟩
      | none => .error "inexact"
  else
    match ratSqrt? (x.re * x.re + x.im * x.im) with
    | none => .error "inexact"
    | some m =>
      match ratSqrt? ((m + x.re) / 2), ratSqrt? ((m - x.re) / 2) with
      | some a, some b => .ok ⟨a, if x.im < 0 then -b else b⟩
      | _, _ => .error "inexact"

/-- `x ** 0.5`, checked -/
def gsqrt (dt : DType) (x : GRat) : Except String GRat :=
  match gsqrtCand dt x with
  | .ok s => if s * s = x then .ok s else .error "inexact"
  | .error e => .error e

abbrev Mat := Array (Array GRat)

def get (m : Mat) (i j : Nat) : GRat := (m.getD i #[]).getD j 0
def set (m : Mat) (i j : Nat) (v : GRat) : Mat := m.modify i (fun row => row.setIfInBounds j v)
def ofFn (n : Nat) (a : MatF GRat) : Mat :=
  Array.ofFn (n := n) fun i => Array.ofFn (n := n) fun j => a i.val j.val

def absSq (z : GRat) : Rat := z.re * z.re + z.im * z.im

/-- Cholesky–Banachiewicz on the lower triangle of `a` -/
def cholLoop (n : Nat) (a : MatF GRat) : Option Mat := Id.run do
  let mut L : Mat := Array.replicate n (Array.replicate n 0)
  for i in [0:n] do
    for j in [0:i + 1] do
      let mut s : GRat := a i j
      for k in [0:j] do
        s := s - get L i k * star (get L j k)
      if i == j then
        if s.im ≠ 0 ∨ s.re ≤ 0 then return none
        match ratSqrt? s.re with
        | some d => L := set L i j ⟨d, 0⟩
        | none => return none
      else
        L := set L i j (s * GRat.inv (get L j j))
  return some L

def maskLower (m : Mat) : MatF GRat := fun i j => if j ≤ i then get m i j else 0
def maskUpper (m : Mat) : MatF GRat := fun i j => if i ≤ j then get m i j else 0
/-- unit lower triangular part -/
def maskUnitLower (m : Mat) : MatF GRat := fun i j => if j < i then get m i j else if i = j then 1 else 0

def hermLowerG (A : MatF GRat) : MatF GRat := fun i j => if j ≤ i then A i j else star (A j i)

/-- `np.linalg.cholesky`, checked -/
def gcholDense (n : Nat) (a : MatF GRat) : Option (MatF GRat) :=
  match cholLoop n a with
  | none => none
  | some m =>
    let L := maskLower m
    if Op.winEq n n (mmul n L (conjM (transposeM L))) (hermLowerG a) then some L else none

structure LUState where
  w : Mat
  perm : Array Nat

/-- LU with partial pivoting; `w` holds `L` (strictly below the diagonal) and `U` -/
def luLoop (n : Nat) (a : MatF GRat) : LUState := Id.run do
  let mut st : LUState := ⟨ofFn n a, Array.range n⟩
  for k in [0:n] do
    -- pivot: first row of largest squared modulus in column k
    let mut r := k
    let mut best := absSq (get st.w k k)
    for i in [k + 1:n] do
      let v := absSq (get st.w i k)
      if v > best then
        r := i
        best := v
    if r ≠ k then
      let rowk := st.w.getD k #[]
      let rowr := st.w.getD r #[]
      st := ⟨(st.w.setIfInBounds k rowr).setIfInBounds r rowk,
             (st.perm.setIfInBounds k (st.perm.getD r 0)).setIfInBounds r (st.perm.getD k 0)⟩
    let piv := get st.w k k
    if piv ≠ 0 then
      let pinv := GRat.inv piv
      for i in [k + 1:n] do
        let l := get st.w i k * pinv
        let mut row := st.w.getD i #[]
        row := row.setIfInBounds k l
        for j in [k + 1:n] do
          row := row.setIfInBounds j (row.getD j 0 - l * get st.w k j)
        st := ⟨st.w.setIfInBounds i row, st.perm⟩
  return st

/-- inverse of a permutation given as an array -/
def invPerm (n : Nat) (perm : Array Nat) : List Nat :=
  let inv := (List.range n).foldl (fun (acc : Array Nat) i => acc.setIfInBounds (perm.getD i 0) i)
    (Array.replicate n 0)
  inv.toList

/-- `scipy.linalg.lu(a, p_indices=True)`, checked: `a = L[p, :] @ U` -/
def gluDense (n : Nat) (a : MatF GRat) : Option (List Nat × MatF GRat × MatF GRat) :=
  let st := luLoop n a
  let p := invPerm n st.perm
  let L := maskUnitLower st.w
  let U := maskUpper st.w
  if p.length = n ∧ (∀ t ∈ p, t < n) ∧ p.Nodup ∧
      Op.winEq n n (mmul n (permDen p) (mmul n L U)) a = true then some (p, L, U) else none

def params : Op.DecompParams GRat := ⟨gsqrt, gcholDense, gluDense⟩

end GDecomp
