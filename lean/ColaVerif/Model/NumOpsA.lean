/-!
# Law-free numeric operations for the Krylov loop models (Arnoldi, GMRES)

Two sorts: scalars `α` (`Arnoldi.Num`) and vectors `V` (`Arnoldi.VecOps`).  The classes carry **no
laws**: the code models in `Model/Arnoldi.lean`, `Model/GMRES.lean` are ordinary programs over
them.  Instances:

* executable: `Float` / `Array Float` (real dtype) and `CF` (pairs of `Float`) / `Array CF`
  (complex dtype) — used only by `DriverArnoldi.lean` for the correspondence with the NumPy code;
* exact: any `RCLike 𝕜` with any `InnerProductSpace 𝕜 E` (in `Lemmas/ArnoldiInst.lean`) — the
  instance the theorems are about (exact real / complex arithmetic, rounding outside the model).

Real-valued quantities (norms, tolerances, thresholds) are scalars of the same type `α` whose
imaginary part is zero; comparisons (`lt`) look at real parts only, as NumPy does after `.real`.
-/

namespace Arnoldi

/-- scalar operations (no laws) -/
class Num (α : Type) where
  zero : α
  one : α
  add : α → α → α
  sub : α → α → α
  mul : α → α → α
  div : α → α → α
  /-- complex conjugate -/
  conj : α → α
  /-- real part, as a scalar -/
  re : α → α
  /-- square root of the real part, as a scalar -/
  sqrt : α → α
  /-- modulus, as a scalar -/
  abs : α → α
  /-- `re a < re b` -/
  lt : α → α → Bool

namespace Num
variable {α : Type} [Num α]

def two : α := add (one : α) one
def ten : α := add (mul (two : α) (mul two two)) two
/-- `np.maximum` on real scalars (`np.clip(x, a_min = b)`) -/
def max (a b : α) : α := if lt a b then b else a
def ofBool (b : Bool) : α := if b then one else zero

end Num

/-- vector operations (no laws).  `dotc q w` is `sum(conj(q) * w)`. -/
class VecOps (α : Type) (V : Type) where
  zeroLike : V → V
  add : V → V → V
  sub : V → V → V
  /-- `c * v` -/
  smul : α → V → V
  /-- `v / c` -/
  divs : V → α → V
  dotc : V → V → α
  norm : V → α

/-! ## executable instances -/

instance : Num Float where
  zero := 0.0
  one := 1.0
  add := (· + ·)
  sub := (· - ·)
  mul := (· * ·)
  div := (· / ·)
  conj := id
  re := id
  sqrt := Float.sqrt
  abs := Float.abs
  lt := fun a b => a < b

/-- complex double as a pair -/
structure CF where
  re : Float
  im : Float
deriving Inhabited

namespace CF
def ofReal (x : Float) : CF := ⟨x, 0.0⟩
def add (a b : CF) : CF := ⟨a.re + b.re, a.im + b.im⟩
def sub (a b : CF) : CF := ⟨a.re - b.re, a.im - b.im⟩
def mul (a b : CF) : CF := ⟨a.re * b.re - a.im * b.im, a.re * b.im + a.im * b.re⟩
/-- division; by a real divisor it is component-wise (what NumPy does for `complex / float`) -/
def div (a b : CF) : CF :=
  if b.im == 0.0 then ⟨a.re / b.re, a.im / b.re⟩
  else
    let d := b.re * b.re + b.im * b.im
    ⟨(a.re * b.re + a.im * b.im) / d, (a.im * b.re - a.re * b.im) / d⟩
def conj (a : CF) : CF := ⟨a.re, 0.0 - a.im⟩
def abs (a : CF) : Float := Float.sqrt (a.re * a.re + a.im * a.im)
end CF

instance : Num CF where
  zero := ⟨0.0, 0.0⟩
  one := ⟨1.0, 0.0⟩
  add := CF.add
  sub := CF.sub
  mul := CF.mul
  div := CF.div
  conj := CF.conj
  re := fun a => ⟨a.re, 0.0⟩
  sqrt := fun a => ⟨Float.sqrt a.re, 0.0⟩
  abs := fun a => ⟨CF.abs a, 0.0⟩
  lt := fun a b => a.re < b.re

/-- arrays of scalars as vectors (NumPy 1-d arrays) -/
instance arrayVecOps {α : Type} [Num α] : VecOps α (Array α) where
  zeroLike := fun v => Array.replicate v.size Num.zero
  add := fun a b => Array.zipWith Num.add a b
  sub := fun a b => Array.zipWith Num.sub a b
  smul := fun c v => v.map (Num.mul c)
  divs := fun v c => v.map (fun x => Num.div x c)
  dotc := fun q w => (Array.zipWith (fun a b => Num.mul (Num.conj a) b) q w).foldl Num.add Num.zero
  norm := fun w => Num.sqrt ((w.map (fun x => Num.re (Num.mul (Num.conj x) x))).foldl Num.add Num.zero)

/-- dense matrix (array of rows) times vector -/
def matVec {α : Type} [Num α] (A : Array (Array α)) (x : Array α) : Array α :=
  A.map (fun row => (Array.zipWith Num.mul row x).foldl Num.add Num.zero)

end Arnoldi
