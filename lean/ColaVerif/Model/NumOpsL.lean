/-!
# Law-free numeric operations for the Lanczos code model

Two sorts: scalars `K` (`Lanczos.Num`) and vectors `V` (`Lanczos.VecOps`).  The classes carry **no
laws**: `Model/Lanczos.lean` is an ordinary program over them.  Instances:

* executable: `Float` with `Array Float` (float64 input) and `CF` (a pair of `Float`s) with
  `Array CF` (complex128 input) — used only by `DriverLanczos.lean` for the correspondence with the
  NumPy execution of `cola/linalg/decompositions/lanczos.py`;
* exact: every `RCLike 𝕜` with every `InnerProductSpace 𝕜 E` (`Lemmas/LanczosExact.lean`) — the
  instance the theorems are about (exact real / complex arithmetic; IEEE rounding is outside).

Real quantities of the code (norms, the tolerance, `.real` parts) are scalars of the same type `K`
with zero imaginary part; comparisons (`lt`) look at real parts only, which is what the code does
(`subdiag[..., i - 1].real > tol * subdiag[..., 1].real`).
-/

namespace Lanczos

/-- scalar operations (no laws) -/
class Num (K : Type) where
  zero : K
  one : K
  add : K → K → K
  sub : K → K → K
  mul : K → K → K
  div : K → K → K
  /-- complex conjugate -/
  conj : K → K
  /-- real part, as a scalar (`x.real`) -/
  re : K → K
  /-- square root of the real part, as a scalar -/
  sqrt : K → K
  /-- `re a < re b` -/
  lt : K → K → Bool
  /-- the constant `1e-30` of `lanczos_fact.error` -/
  tiny : K

namespace Num
variable {K : Type} [Num K]
/-- `np.maximum` of two real scalars -/
def max (a b : K) : K := if lt a b then b else a
/-- `(i <= 1) * 1.` -/
def ofBool (b : Bool) : K := if b then one else zero
end Num

/-- vector operations (no laws) -/
class VecOps (K : Type) (V : Type) where
  add : V → V → V
  sub : V → V → V
  /-- `c[..., None] * v` (scalar times column) -/
  smul : K → V → V
  /-- `v / c` (column divided by a real scalar: `V[..., i] / update`, `rhs / norm`) -/
  divs : V → K → V
  /-- `sum(conj(x) * y, axis=-1)` -/
  dotc : V → V → K
  /-- `xnp.norm(v, axis=-1)` (a real scalar) -/
  norm : V → K

/-! ## executable instances -/

instance : Num Float where
  zero := 0.0
  one := 1.0
  add := (· + ·)
  sub := (· - ·)
  mul := (· * ·)
  div := (· / ·)
  conj := id
  re := id
  sqrt := Float.sqrt
  lt := fun a b => a < b
  tiny := 1e-30

/-- complex double as a pair of doubles -/
structure CF where
  re : Float
  im : Float
deriving Inhabited

namespace CF
def add (a b : CF) : CF := ⟨a.re + b.re, a.im + b.im⟩
def sub (a b : CF) : CF := ⟨a.re - b.re, a.im - b.im⟩
def mul (a b : CF) : CF := ⟨a.re * b.re - a.im * b.im, a.re * b.im + a.im * b.re⟩
/-- division; by a divisor with zero imaginary part it is component-wise (NumPy `complex / float`) -/
def div (a b : CF) : CF :=
  if b.im == 0.0 then ⟨a.re / b.re, a.im / b.re⟩
  else
    let d := b.re * b.re + b.im * b.im
    ⟨(a.re * b.re + a.im * b.im) / d, (a.im * b.re - a.re * b.im) / d⟩
def conj (a : CF) : CF := ⟨a.re, 0.0 - a.im⟩
end CF

instance : Num CF where
  zero := ⟨0.0, 0.0⟩
  one := ⟨1.0, 0.0⟩
  add := CF.add
  sub := CF.sub
  mul := CF.mul
  div := CF.div
  conj := CF.conj
  re := fun a => ⟨a.re, 0.0⟩
  sqrt := fun a => ⟨Float.sqrt a.re, 0.0⟩
  lt := fun a b => a.re < b.re
  tiny := ⟨1e-30, 0.0⟩

/-- NumPy 1-d arrays of scalars as columns -/
instance arrayVecOps {K : Type} [Num K] : VecOps K (Array K) where
  add := fun a b => Array.zipWith Num.add a b
  sub := fun a b => Array.zipWith Num.sub a b
  smul := fun c v => v.map (Num.mul c)
  divs := fun v c => v.map (fun x => Num.div x c)
  dotc := fun x y => (Array.zipWith (fun a b => Num.mul (Num.conj a) b) x y).foldl Num.add Num.zero
  norm := fun w =>
    Num.sqrt ((w.map (fun x => Num.re (Num.mul (Num.conj x) x))).foldl Num.add Num.zero)

/-- dense matrix (array of rows) times column: `A @ x` -/
def matVec {K : Type} [Num K] (A : Array (Array K)) (x : Array K) : Array K :=
  A.map (fun row => (Array.zipWith Num.mul row x).foldl Num.add Num.zero)

end Lanczos
