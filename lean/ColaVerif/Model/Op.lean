import ColaVerif.Model.Kernels
import ColaVerif.Basic.PySlice

/-!
# Operator expression trees, their shapes, dtypes, and the matrix they represent (`den`)

`Op R` mirrors the constructors of `cola/ops/operators.py` (one constructor per operator kind).
`den` is the *specification*: the represented matrix, written without reference to how cola
multiplies.  Out-of-range entries of `den` are unspecified; all statements are about the
`rows × cols` window (`EqOn`).
-/

inductive DType | f32 | f64 | c64 | c128
deriving DecidableEq, Repr, Inhabited

namespace DType
def isComplex : DType → Bool | c64 | c128 => true | _ => false
def isDouble : DType → Bool | f64 | c128 => true | _ => false
def mk (cplx dbl : Bool) : DType :=
  match cplx, dbl with
  | false, false => f32 | false, true => f64 | true, false => c64 | true, true => c128
/-- `numpy.promote_types` on the four floating dtypes -/
def promote (a b : DType) : DType := mk (a.isComplex || b.isComplex) (a.isDouble || b.isDouble)
def toString : DType → String | f32 => "f32" | f64 => "f64" | c64 => "c64" | c128 => "c128"
end DType

inductive Ann | selfAdjoint | psd | stiefel | unitary
deriving DecidableEq, Repr, Inhabited

inductive Op (R : Type) : Type where
  | dense (dt : DType) (r c : Nat) (a : MatF R)
  | tri (dt : DType) (r c : Nat) (lower : Bool) (a : MatF R)
  | sparse (dt : DType) (r c : Nat) (ents : List (Nat × Nat × R))
  | scalar (dt : DType) (s : R) (n : Nat)
  | eye (dt : DType) (n : Nat)
  | prod (Ms : List (Op R))
  | sum (Ms : List (Op R))
  | kron (Ms : List (Op R))
  | kronsum (Ms : List (Op R))
  | bdiag (Ms : List (Op R)) (mults : List Nat)
  | diag (dt : DType) (n : Nat) (d : Nat → R)
  | tridiag (dt : DType) (n : Nat) (al be ga : Nat → R)
  | transpose (A : Op R)
  | adjoint (A : Op R)
  | sliced (A : Op R) (s0 s1 : Ix)
  | perm (dt : DType) (p : List Nat)
  | concat (axis1 : Bool) (Ms : List (Op R))
  | house (dt : DType) (n : Nat) (v : Nat → R) (beta : R)
  | generic (A : Op R)
  | annot (a : Ann) (A : Op R)

namespace Op
variable {R : Type}

def dotSum (l1 l2 : List Nat) : Nat := ((l1.zip l2).map (fun p => p.1 * p.2)).sum

mutual
def rows : Op R → Nat
  | dense _ r _ _ => r
  | tri _ r _ _ _ => r
  | sparse _ r _ _ => r
  | scalar _ _ n => n
  | eye _ n => n
  | prod Ms => (Ms.map (·.rows)).head?.getD 0
  | sum Ms => (Ms.map (·.rows)).head?.getD 0
  | kron Ms => (Ms.map (·.rows)).prod
  | kronsum Ms => (Ms.map (·.rows)).prod
  | bdiag Ms mults => dotSum (Ms.map (·.rows)) mults
  | diag _ n _ => n
  | tridiag _ n _ _ _ => n
  | transpose A => A.cols
  | adjoint A => A.cols
  | sliced A s0 _ => ((Ix.resolve A.rows s0).getD []).length
  | perm _ p => p.length
  | concat ax Ms => if ax then (Ms.map (·.rows)).head?.getD 0 else (Ms.map (·.rows)).sum
  | house _ n _ _ => n
  | generic A => A.rows
  | annot _ A => A.rows
def cols : Op R → Nat
  | dense _ _ c _ => c
  | tri _ _ c _ _ => c
  | sparse _ _ c _ => c
  | scalar _ _ n => n
  | eye _ n => n
  | prod Ms => (Ms.map (·.cols)).getLast?.getD 0
  | sum Ms => (Ms.map (·.cols)).head?.getD 0
  | kron Ms => (Ms.map (·.cols)).prod
  | kronsum Ms => (Ms.map (·.cols)).prod
  | bdiag Ms mults => dotSum (Ms.map (·.cols)) mults
  | diag _ n _ => n
  | tridiag _ n _ _ _ => n
  | transpose A => A.rows
  | adjoint A => A.rows
  | sliced A _ s1 => ((Ix.resolve A.cols s1).getD []).length
  | perm _ p => p.length
  | concat ax Ms => if ax then (Ms.map (·.cols)).sum else (Ms.map (·.cols)).head?.getD 0
  | house _ n _ _ => n
  | generic A => A.cols
  | annot _ A => A.cols
end

/-- the dtype the constructor computes (operators.py: `reduce(promote_types, …)` for Product,
Kronecker, KronSum, BlockDiag, Sum, Concatenated; parent for wrappers) -/
def dtype : Op R → DType
  | dense dt _ _ _ => dt
  | tri dt _ _ _ _ => dt
  | sparse dt _ _ _ => dt
  | scalar dt _ _ => dt
  | eye dt _ => dt
  | prod Ms => (Ms.map (·.dtype)).foldl DType.promote .f32
  | sum Ms => (Ms.map (·.dtype)).foldl DType.promote .f32
  | kron Ms => (Ms.map (·.dtype)).foldl DType.promote .f32
  | kronsum Ms => (Ms.map (·.dtype)).foldl DType.promote .f32
  | bdiag Ms _ => (Ms.map (·.dtype)).foldl DType.promote .f32
  | diag dt _ _ => dt
  | tridiag dt _ _ _ _ => dt
  | transpose A => A.dtype
  | adjoint A => A.dtype
  | sliced A _ _ => A.dtype
  | perm dt _ => dt
  | concat _ Ms => (Ms.map (·.dtype)).foldl DType.promote .f32
  | house dt _ _ _ => dt
  | generic A => A.dtype
  | annot _ A => A.dtype

variable [CommRing R] [StarRing R]

/-- the represented matrix (a `MatV`; `forceV` is the identity, see `forceV_f`) -/
def den : Op R → MatV R
  | dense _ _ _ a => MatV.of (a)
  | tri _ _ _ _ a => MatV.of (a)
  | sparse _ r c ents => forceV r c (sparseDen ents)
  | scalar _ s _ => MatV.of (fun i j => if i = j then s else 0)
  | eye _ _ => MatV.of (eyeM)
  | prod Ms =>
      forceV ((Ms.map (·.rows)).head?.getD 0) ((Ms.map (·.cols)).getLast?.getD 0)
        ((Ms.map (fun M => (M.cols, M.den.f))).foldr (fun p acc => mmul p.1 p.2 acc) eyeM)
  | sum Ms =>
      forceV ((Ms.map (·.rows)).head?.getD 0) ((Ms.map (·.cols)).head?.getD 0)
        ((Ms.map (·.den.f)).foldr addM zeroM)
  | kron Ms =>
      forceV ((Ms.map (·.rows)).prod) ((Ms.map (·.cols)).prod)
        (kronDen (Ms.map (fun M => (⟨M.rows, M.cols, M.den.f, fun _ m => MatV.of m⟩ : FacAct R))))
  | kronsum Ms =>
      forceV ((Ms.map (·.rows)).prod) ((Ms.map (·.cols)).prod)
        (kronSumDen (Ms.map (fun M => (⟨M.rows, M.cols, M.den.f, fun _ m => MatV.of m⟩ : FacAct R))))
  | bdiag Ms mults =>
      forceV (dotSum (Ms.map (·.rows)) mults) (dotSum (Ms.map (·.cols)) mults)
        (bdiagDen ((Ms.map (fun M => (⟨M.rows, M.cols, M.den.f, fun _ m => MatV.of m⟩ : FacAct R))).zip mults))
  | diag _ _ d => MatV.of (diagM d)
  | tridiag _ _ al be ga => MatV.of (tridiagDen al be ga)
  | transpose A => MatV.of (transposeM A.den.f)
  | adjoint A => MatV.of (conjM (transposeM A.den.f))
  | sliced A s0 s1 =>
      MatV.of (slicedDen A.den.f ((Ix.resolve A.rows s0).getD []) ((Ix.resolve A.cols s1).getD []))
  | perm _ p => MatV.of (permDen p)
  | concat ax Ms =>
      if ax then MatV.of (hstack (Ms.map (fun M => (M.cols, M.den.f))))
      else MatV.of (vstack (Ms.map (fun M => (M.rows, M.den.f))))
  | house _ _ v beta => MatV.of (houseDen v beta)
  | generic A => A.den
  | annot _ A => A.den

end Op
