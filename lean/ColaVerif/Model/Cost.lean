import ColaVerif.Model.Wf

/-!
# C19, cost level: the arrays `A @ X` allocates

`allocs A b` lists the sizes (in entries) of every array that `A._matmat(X)` allocates for an
operand `X` with `b` columns, mirroring cola/ops/operators.py line by line with the NumPy
semantics of the primitives (a `reshape` of a `moveaxis`/transposed view copies, `astype` copies,
`moveaxis`, basic slicing and `.T` are views, `+=` is in place).  The recursion is the one of
`Op.mm` (Model/Matmat.lean): a Kronecker factor `Mᵢ` is applied to a matrix with
`(∏_{j<i} rows Mⱼ)·(∏_{j>i} cols Mⱼ)·b` columns, a block of a block-diagonal operator to one with
`b·multiplicity` columns, the members of sums and products to `b` columns.

`leafStorage A` = Σ of the dense sizes of the leaves ("the dense sizes of the individual factors").
`vol A`        = the *linear* size of the operator: `max rows cols` at a leaf, the product over
                 Kronecker factors, the multiplicity-weighted sum over blocks, the maximum over the
                 members of sums and products.  For a tree with square leaves `vol A = rows A = n`.

The theorem (Lemmas/Cost.lean, Properties/C19.lean): every entry of `allocs A b` is at most
`vol A · b + leafStorage A` — no `n × n` term.
-/

namespace Op
variable {R : Type}

/-- a member as the cost loops see it: shape and the allocations of `M @ ·` on `b'` columns -/
structure FacCost where
  r : Nat
  c : Nat
  cost : Nat → List Nat

/-- `Kronecker._matmat` (operators.py:216-223), loop body for the factor at the head; `pre` =
product of the ROW counts of the factors already applied:
```
ev_front = moveaxis(ev, i, 0)                                   # view
Mev_front = (M @ ev_front.reshape(M.shape[-1], -1))             # reshape of a moved view: COPY, pre·c·rest·b
              .reshape(shape)                                   #   M @ ·  on  pre·rest·b  columns; reshape: view
ev = moveaxis(Mev_front, 0, i)                                  # view
``` -/
def kronCostLoop (b : Nat) : Nat → List FacCost → List Nat
  | _, [] => []
  | pre, M :: Ms =>
      (pre * M.c * (Ms.map (·.c)).prod * b) ::
        (M.cost (pre * (Ms.map (·.c)).prod * b) ++ kronCostLoop b (pre * M.r) Ms)

/-- … and the final `ev.reshape(rows, b)` (a copy when the last `moveaxis` was not trivial) -/
def kronCost (Ms : List FacCost) (b : Nat) : List Nat :=
  kronCostLoop b 1 Ms ++ [(Ms.map (·.r)).prod * b]

/-- `KronSum._matmat` (operators.py:259-268): `ev` keeps the column shape throughout, every step
copies the moved view and multiplies; `out += …` is in place -/
def kronSumCostLoop (b : Nat) : Nat → List FacCost → List Nat
  | _, [] => []
  | pre, M :: Ms =>
      (pre * M.c * (Ms.map (·.c)).prod * b) ::
        (M.cost (pre * (Ms.map (·.c)).prod * b) ++ kronSumCostLoop b (pre * M.c) Ms)

/-- `ev = cast(v, dtype).reshape(…)` (copy), `out = 0 * ev`, the loop, the final reshape -/
def kronSumCost (Ms : List FacCost) (b : Nat) : List Nat :=
  [(Ms.map (·.c)).prod * b, (Ms.map (·.c)).prod * b] ++ kronSumCostLoop b 1 Ms ++ [(Ms.map (·.r)).prod * b]

/-- `BlockDiag._matmat` (operators.py:302-311), per block:
`v[i:i_end].T.reshape(k*mult, c).T` (copy mult·c·k), `M @ ·` on `k·mult` columns,
`elems.T.reshape(k, mult*r).T` (copy mult·r·k) -/
def bdiagCostLoop (b : Nat) : List (FacCost × Nat) → List Nat
  | [] => []
  | (M, mult) :: rest =>
      (mult * M.c * b) :: (M.cost (b * mult) ++ (mult * M.r * b) :: bdiagCostLoop b rest)

/-- sizes of the arrays allocated by `A._matmat(X)`, `X : cols × b` -/
def allocs : Op R → Nat → List Nat
  -- Dense._matmat: cast(self.A, dtype) @ cast(X, dtype): two `astype` copies and the product
  | dense _ r c _, b => [r * c, c * b, r * b]
  | tri _ r c _ _, b => [r * c, c * b, r * b]
  -- Sparse._matmat: scipy CSR @ dense: scipy's contiguous copy of the operand and the result (round 3: the copy was
  -- missing here although `peakMM` counted it — invisible below the allowance until the zoo was scaled: Sp36702 @ x)
  | sparse _ r c _, b => [c * b, r * b]
  -- ScalarMul: c * v ; Identity: X or cast(X) ; Diagonal: diag[:, None] * X
  | scalar _ _ n, b => [n * b]
  | eye _ n, b => [n * b]
  | diag _ n _, b => [n * b]
  -- Tridiagonal._matmat: beta*X, zeros, gamma*X[1:], concat, zeros, alpha*X[:-1], concat, two sums
  | tridiag _ n _ _ _, b => [n * b, b, (n - 1) * b, n * b, b, (n - 1) * b, n * b, n * b, n * b]
  -- Permutation: v[perm] (fancy index: copy) and possibly a cast
  | perm _ p, b => [p.length * b, p.length * b]
  -- Product: v = M @ v, last factor first
  | prod Ms, b => (Ms.map (fun M => M.allocs b)).flatten
  -- Sum: `sum(M @ v for M in Ms)`: every term and every partial sum
  | sum Ms, b => (Ms.map (fun M => M.allocs b ++ [M.rows * b])).flatten
  | kron Ms, b => kronCost (Ms.map (fun M => (⟨M.rows, M.cols, fun b' => M.allocs b'⟩ : FacCost))) b
  | kronsum Ms, b => kronSumCost (Ms.map (fun M => (⟨M.rows, M.cols, fun b' => M.allocs b'⟩ : FacCost))) b
  | bdiag Ms mults, b =>
      bdiagCostLoop b ((Ms.map (fun M => (⟨M.rows, M.cols, fun b' => M.allocs b'⟩ : FacCost))).zip mults)
        ++ [dotSum (Ms.map (·.rows)) mults * b]        -- xnp.concat(y, axis=0)
  | generic A, b => A.allocs b
  | annot _ A, b => A.allocs b
  -- outside the statement of C19 (see `inScope`)
  | transpose _, _ => []
  | adjoint _, _ => []
  | sliced _ _ _, _ => []
  | concat _ _, _ => []
  -- Householder._matmat (operators.py:622-626): conj(vec), X * ·, the column sums `angle`, beta * angle,
  -- · * vec, X - ·
  | house _ n _ _, b => [n, n * b, b, b, n * b, n * b]

/-- Σ dense sizes of the leaves (a Householder reflector stores its vector) -/
def leafStorage : Op R → Nat
  | dense _ r c _ => r * c
  | tri _ r c _ _ => r * c
  | sparse _ _ _ ents => ents.length
  | prod Ms => (Ms.map (·.leafStorage)).sum
  | sum Ms => (Ms.map (·.leafStorage)).sum
  | kron Ms => (Ms.map (·.leafStorage)).sum
  | kronsum Ms => (Ms.map (·.leafStorage)).sum
  | bdiag Ms _ => (Ms.map (·.leafStorage)).sum
  | concat _ Ms => (Ms.map (·.leafStorage)).sum
  | transpose A => A.leafStorage
  | adjoint A => A.leafStorage
  | sliced A _ _ => A.leafStorage
  | generic A => A.leafStorage
  | annot _ A => A.leafStorage
  | house _ n _ _ => n
  | _ => 0

def maxL (l : List Nat) : Nat := l.foldr max 0

/-- the linear size of the operator -/
def vol : Op R → Nat
  | dense _ r c _ => max r c
  | tri _ r c _ _ => max r c
  | sparse _ r c _ => max r c
  | scalar _ _ n => n
  | eye _ n => n
  | diag _ n _ => n
  | tridiag _ n _ _ _ => n
  | perm _ p => p.length
  | prod Ms => maxL (Ms.map (·.vol))
  | sum Ms => maxL (Ms.map (·.vol))
  | kron Ms => (Ms.map (·.vol)).prod
  | kronsum Ms => (Ms.map (·.vol)).prod
  | bdiag Ms mults => dotSum (Ms.map (·.vol)) mults
  | generic A => A.vol
  | annot _ A => A.vol
  | house _ n _ _ => n
  | _ => 0

/-- the operator kinds of the statement of C19 (and the transparent wrappers) -/
def inScope : Op R → Bool
  | dense .. => true
  | tri .. => true
  | sparse .. => true
  | scalar .. => true
  | eye .. => true
  | diag .. => true
  | tridiag .. => true
  | perm .. => true
  | prod Ms => (Ms.map (·.inScope)).all id
  | sum Ms => (Ms.map (·.inScope)).all id
  | kron Ms => (Ms.map (·.inScope)).all id
  | kronsum Ms => (Ms.map (·.inScope)).all id
  | bdiag Ms _ => (Ms.map (·.inScope)).all id
  | generic A => A.inScope
  | annot _ A => A.inScope
  | house _ n _ _ => decide (1 ≤ n)
  | _ => false

/-- every leaf matrix is square -/
def squareLeaves : Op R → Bool
  | dense _ r c _ => r == c
  | tri _ r c _ _ => r == c
  | sparse _ r c _ => r == c
  | prod Ms => (Ms.map (·.squareLeaves)).all id
  | sum Ms => (Ms.map (·.squareLeaves)).all id
  | kron Ms => (Ms.map (·.squareLeaves)).all id
  | kronsum Ms => (Ms.map (·.squareLeaves)).all id
  | bdiag Ms _ => (Ms.map (·.squareLeaves)).all id
  | generic A => A.squareLeaves
  | annot _ A => A.squareLeaves
  | _ => true

/-! ## peak: the entries LIVE at the same time during `A @ X` (round 2)

`peakMM A b` bounds the number of entries held simultaneously by arrays that `A._matmat(X)` allocated
(the operand `X` itself is the caller's and is not counted, the result is), following the same source
lines as `allocs` and CPython's reference counting (an array is released when its last name is
re-bound; the elements of a list live until the list does):

* `Dense`: the two `astype` copies and the product are alive together: `r·c + c·b + r·b`
  (`Triangular`, which multiplies `self.A @ V` directly, and `Sparse` are given the same / the operand
  copy + result: upper bounds);
* `Product`: while `M @ v` runs its operand `v` (the previous result, `cols M · b`) is alive;
* `Sum` (`sum(M @ v for M in Ms)`): the accumulator is alive while the next term is computed, and
  `acc + term` allocates a third array: `2·rows·b + max peak`;
* `Kronecker`: per factor the old `ev`, its reshaped copy (both `pre·cᵢ·rest·b`) and whatever `Mᵢ @ ·`
  holds; at the end `ev` and its final reshaped copy;
* `KronSum`: `ev`, `out`, the reshaped copy AND the previous iteration's `Mev_front` (still bound while the
  next product runs; found by the measured tie) — `∏ cⱼ · b` each — plus whatever `Mᵢ @ ·` holds;
* `BlockDiag`: the list `y` of finished blocks (at most `rows·b`), the final concatenation (`rows·b`),
  and per block the gathered copy, whatever `M @ ·` holds and the scattered copy;
* `Tridiagonal`: all nine temporaries (no liveness analysis); `Permutation`: gather + cast.

`lvl A` is the resulting multiple of the operand size: **`peakMM A b ≤ lvl A · (vol A · b) + leafStorage A`**
(Lemmas/CostPeak.lean) — `2` at a dense leaf, `+1` per Product, `+2` per Sum / Kronecker, `+4` per
KronSum, `+4` per BlockDiag level: it depends on the nesting of the tree only, never on the sizes.
props/c19.py judges the measured `tracemalloc` peak against `peakMM` itself (computed by the driver). -/

structure FacPeak where
  r : Nat
  c : Nat
  peak : Nat → Nat

def kronPeakLoop (b : Nat) : Nat → List FacPeak → Nat
  | _, [] => 0
  | pre, M :: Ms =>
      max (2 * (pre * M.c * (Ms.map (·.c)).prod * b) + M.peak (pre * (Ms.map (·.c)).prod * b))
          (kronPeakLoop b (pre * M.r) Ms)

def kronSumPeakMax (b : Nat) : Nat → List FacPeak → Nat
  | _, [] => 0
  | pre, M :: Ms => max (M.peak (pre * (Ms.map (·.c)).prod * b)) (kronSumPeakMax b (pre * M.c) Ms)

def bdiagPeakMax (b : Nat) : List (FacPeak × Nat) → Nat
  | [] => 0
  | (M, mult) :: rest => max (mult * M.c * b + M.peak (b * mult) + mult * M.r * b) (bdiagPeakMax b rest)

/-- entries alive at the same time during `A._matmat(X)`, `X : cols × b` -/
def peakMM : Op R → Nat → Nat
  | dense _ r c _, b => r * c + c * b + r * b
  | tri _ r c _ _, b => r * c + c * b + r * b
  | sparse _ r c _, b => c * b + r * b
  | scalar _ _ n, b => n * b
  | eye _ n, b => n * b
  | diag _ n _, b => n * b
  | tridiag _ n _ _ _, b => 5 * (n * b) + 2 * b + 2 * ((n - 1) * b)
  | perm _ p, b => 2 * (p.length * b)
  | prod Ms, b => maxL (Ms.map (fun M => M.cols * b + M.peakMM b))
  | sum Ms, b => 2 * ((Ms.map (·.rows)).head?.getD 0 * b) + maxL (Ms.map (fun M => M.peakMM b))
  | kron Ms, b =>
      max (kronPeakLoop b 1 (Ms.map (fun M => (⟨M.rows, M.cols, fun b' => M.peakMM b'⟩ : FacPeak))))
          (2 * ((Ms.map (·.rows)).prod * b))
  | kronsum Ms, b =>
      4 * ((Ms.map (·.cols)).prod * b) +
        kronSumPeakMax b 1 (Ms.map (fun M => (⟨M.rows, M.cols, fun b' => M.peakMM b'⟩ : FacPeak)))
  | bdiag Ms mults, b =>
      2 * (dotSum (Ms.map (·.rows)) mults * b) +
        bdiagPeakMax b ((Ms.map (fun M => (⟨M.rows, M.cols, fun b' => M.peakMM b'⟩ : FacPeak))).zip mults)
  | generic A, b => A.peakMM b
  | annot _ A, b => A.peakMM b
  | transpose _, _ => 0
  | adjoint _, _ => 0
  | sliced _ _ _, _ => 0
  | concat _ _, _ => 0
  -- conj(vec) and X * conj(vec) die when `angle` exists; then beta * angle, · * vec and the difference
  | house _ n _ _, b => n + 2 * (n * b) + 2 * b

/-- how many operand-sized arrays are alive at once: a function of the NESTING of the tree only -/
def lvl : Op R → Nat
  | dense .. => 2
  | tri .. => 2
  | sparse .. => 2
  | scalar .. => 1
  | eye .. => 1
  | diag .. => 1
  | tridiag .. => 9
  | perm .. => 2
  | prod Ms => maxL (Ms.map (·.lvl)) + 1
  | sum Ms => maxL (Ms.map (·.lvl)) + 2
  | kron Ms => maxL (Ms.map (·.lvl)) + 2
  | kronsum Ms => maxL (Ms.map (·.lvl)) + 4
  | bdiag Ms _ => maxL (Ms.map (·.lvl)) + 4
  | generic A => A.lvl
  | annot _ A => A.lvl
  | house .. => 4
  | _ => 0

end Op
