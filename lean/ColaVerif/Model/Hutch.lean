import ColaVerif.Basic.Mat
import ColaVerif.Basic.PySlice

/-!
# C17 — model of one evaluation of the loop body of `hutchinson_diag_estimate`

```
z  = xnp.randn(n, bs, key=key)           # probe block (here: a parameter)
z  = xnp.sign(z)                         # rademacher only (here: the parameter already)
z2 = xnp.roll(z, -k, 0)
z2 = xnp.update_array(z2, 0, slice(0, abs(k)) if k <= 0 else slice(-abs(k), None))
slc = slice(abs(k), None) if -k > 0 else slice(None, -abs(k) or None)
estimator = ((A @ z) * z2)[slc]
diag_sum += estimator.sum(-1);  diag_sumsq += (estimator**2).sum(-1)
```
The slices are resolved by the model of CPython's `slice.indices` (`Basic/PySlice.lean`), `np.roll`
by Python's modulo; nothing is pre-simplified.  `Lemmas/RngHutch.lean` proves the closed form.
-/

namespace ColaVerif.Hutch

variable {R : Type}

/-- Python `a % n` for `n > 0` (result in `[0, n)`) -/
def pmod (a : Int) (n : Nat) : Nat := (a % (n : Int)).toNat

/-- `np.roll(z, s, 0)`: row `i` of the result is row `(i - s) mod n` of `z` -/
def roll (n : Nat) (z : MatF R) (s : Int) : MatF R := fun i c => z (pmod ((i : Int) - s) n) c

/-- rows a slice selects among `n` -/
def rowsOf (n : Nat) (ix : Ix) : List Nat := (Ix.resolve n ix).getD []

/-- `xnp.update_array(z2, 0, slc)`, i.e. `z2[slc] = 0` -/
def zeroRows [Zero R] (n : Nat) (z2 : MatF R) (ix : Ix) : MatF R :=
  fun i c => if i ∈ rowsOf n ix then 0 else z2 i c

/-- `abs(k)` -/
def absI (k : Int) : Int := (k.natAbs : Int)

/-- `slice(0, abs(k)) if k <= 0 else slice(-abs(k), None)` -/
def maskIx (k : Int) : Ix :=
  if k ≤ 0 then .slice (some 0) (some (absI k)) none else .slice (some (-(absI k))) none none

/-- `slice(abs(k), None) if -k > 0 else slice(None, -abs(k) or None)` (`0 or None` is `None`) -/
def outIx (k : Int) : Ix :=
  if -k > 0 then .slice (some (absI k)) none none
  else .slice none (if -(absI k) = 0 then none else some (-(absI k))) none

/-- `z2` after roll and masking -/
def z2Of [Zero R] (n : Nat) (z : MatF R) (k : Int) : MatF R :=
  zeroRows n (roll n z (-k)) (maskIx k)

/-- number of rows of `estimator` -/
def estRows (n : Nat) (k : Int) : Nat := (rowsOf n (outIx k)).length

/-- `estimator[t, c]` -/
def est [NonUnitalNonAssocSemiring R] (n : Nat) (A z : MatF R) (k : Int) : MatF R :=
  fun t c => match (rowsOf n (outIx k))[t]? with
    | some r => mmul n A z r c * z2Of n z k r c
    | none => 0

/-- `estimator.sum(-1)[t]` over `bs` probe columns -/
def estSum [NonUnitalNonAssocSemiring R] (n bs : Nat) (A z : MatF R) (k : Int) (t : Nat) : R :=
  sumTo bs (fun c => est n A z k t c)

/-- `(estimator**2).sum(-1)[t]` -/
def estSumSq [NonUnitalNonAssocSemiring R] (n bs : Nat) (A z : MatF R) (k : Int) (t : Nat) : R :=
  sumTo bs (fun c => est n A z k t c * est n A z k t c)

/-- SPEC: `np.diag(⟦A⟧, k)[t] = A[t + max(0,-k), t + max(0,k)]` -/
def diagK (A : MatF R) (k : Int) (t : Nat) : R := A (t + (-k).toNat) (t + k.toNat)

end ColaVerif.Hutch
