import ColaVerif.Model.Algebra

/-!
# `LinearOperator.__getitem__` (cola/ops/operator_base.py:159-189) — C20

The `match` of `__getitem__` case by case in source order.  Results are scalars, 1-D vectors,
lazy `Sliced` operators, or an error class.  `npIndex` is the specification: NumPy indexing of
the represented matrix.
-/

inductive GIx where
  | int (i : Int)
  | ix (s : Ix)
  | list (l : List Int)
deriving Repr, Inhabited

inductive GRes (R : Type) where
  | scalar (z : R)
  | vec (n : Nat) (v : Nat → R)
  | op (A : Op R)
  | err (kind : String)

namespace GRes
variable {R : Type}
/-- positions selected from a 1-D array of length `n` by an index object; `none` = IndexError -/
def wrap (n : Nat) (i : Int) : Option Nat :=
  if -(n : Int) ≤ i ∧ i < n then some (if i < 0 then i + (n : Int) else i).toNat else none

def wrapAll (n : Nat) (l : List Int) : Option (List Nat) := l.mapM (wrap n)

/-- numpy `v[b]` on a 1-D array -/
def indexVec (n : Nat) (v : Nat → R) : GIx → GRes R
  | .int i => match wrap n i with
      | some p => .scalar (v p)
      | none => .err "index-error"
  | .ix s => match Ix.resolve n s with
      | some l => .vec l.length (fun t => v (l.getD t 0))
      | none => .err "index-error"
  | .list l => match wrapAll n l with
      | some ps => .vec ps.length (fun t => v (ps.getD t 0))
      | none => .err "index-error"
end GRes

namespace Op
variable {R : Type} [CommRing R] [StarRing R] [DecidableEq R]

def canonical (p : Nat) : MatF R := fun i _ => if i = p then 1 else 0

/-- `(self @ e_j)` as a 1-D vector (column j) -/
def colVec (A : Op R) (p : Nat) : Nat → R :=
  let r := A.mm 1 (canonical p)
  fun i => r.f i 0

/-- `(self.T @ e_i)` as a 1-D vector (row i) -/
def rowVec (A : Op R) (p : Nat) : Nat → R :=
  let r := A.transposeRule.mm 1 (canonical p)
  fun i => r.f i 0

def fullSlice : Ix := .slice none none none

/-- NumPy broadcasting of two 1-D integer index sequences: equal lengths pair up, a sequence of
length 1 is repeated along the other one, anything else is a shape mismatch (`IndexError`) -/
def bcastIdx (l0 l1 : List Int) : Option (List Int × List Int) :=
  if l0.length = l1.length then some (l0, l1)
  else if l0.length = 1 then some (List.replicate l1.length (l0.headD 0), l1)
  else if l1.length = 1 then some (l0, List.replicate l0.length (l1.headD 0))
  else none

/-- the list preparation of `__getitem__` (`case list(li), list(lj)`, /repo dd36003), as written there:
`len(li) != len(lj) and 1 not in (len(li), len(lj))` is an IndexError, otherwise the shorter list is
repeated (`li * len(lj)`: Python list repetition) -/
def listBcast (li lj : List Int) : Option (List Int × List Int) :=
  if li.length != lj.length && !(li.length == 1 || lj.length == 1) then none
  else if li.length != lj.length then
    if li.length == 1 then some ((List.replicate lj.length li).flatten, lj)
    else some (li, (List.replicate li.length lj).flatten)
  else some (li, lj)

/-- `A[ids]` -/
def getitem (A : Op R) : List GIx → GRes R
  | [.int i] =>
      match GRes.wrap A.rows i with
      | some p => .vec A.cols (A.rowVec p)
      | none => .err "index-error"
  | [.ix s] => if (Ix.resolve A.rows s).isSome then .op (sliced A s fullSlice) else .err "index-error"
  | [b, .int j] =>
      match GRes.wrap A.cols j with
      | some p => GRes.indexVec A.rows (A.colVec p) b
      | none => .err "index-error"
  | [.int i, b] =>
      match GRes.wrap A.rows i with
      | some p => GRes.indexVec A.cols (A.rowVec p) b
      | none => .err "index-error"
  | [.ix s0, .ix s1] =>
      if (Ix.resolve A.rows s0).isSome && (Ix.resolve A.cols s1).isSome then .op (sliced A s0 s1)
      else .err "index-error"
  | [.list li, .list lj] =>
      -- /repo dd36003: the two lists are broadcast like NumPy (a single index pairs with every index of
      -- the other list), lists that cannot be broadcast raise IndexError, empty lists give an empty vector
      match listBcast li lj with
      | none => .err "index-error"
      | some (a, b) =>
        if a.isEmpty then .vec 0 (fun _ => 0)
        else
          match (a.zip b).mapM (fun p => do
              let c ← GRes.wrap A.cols p.2
              let r ← GRes.wrap A.rows p.1
              pure (r, c)) with
          | some ps =>
              let vals := ps.map (fun p => A.colVec p.2 p.1)
              .vec vals.length (fun t => vals.getD t 0)
          | none => .err "index-error"
  | _ => .err "not-implemented"

/-- NumPy's paired ("fancy") selection `D[l0, l1]` of an `r × c` matrix by two integer sequences -/
def npPaired (r c : Nat) (D : MatF R) (l0 l1 : List Int) : GRes R :=
  match bcastIdx l0 l1 with
  | some (a, b) =>
    match GRes.wrapAll r a, GRes.wrapAll c b with
    | some rs, some cs => .vec rs.length (fun t => D (rs.getD t 0) (cs.getD t 0))
    | _, _ => .err "index-error"
  | none => .err "index-error"

/-- NumPy indexing of the represented `r × c` matrix `D` -/
def npIndex (r c : Nat) (D : MatF R) : List GIx → GRes R
  | [.int i] =>
      match GRes.wrap r i with
      | some p => .vec c (fun j => D p j)
      | none => .err "index-error"
  | [b, .int j] =>
      match GRes.wrap c j with
      | some p => GRes.indexVec r (fun i => D i p) b
      | none => .err "index-error"
  | [.int i, b] =>
      match GRes.wrap r i with
      | some p => GRes.indexVec c (fun j => D p j) b
      | none => .err "index-error"
  | [.ix s] =>
      match Ix.resolve r s with
      | some rs => .op (dense .f64 rs.length c (fun i j => D (rs.getD i 0) j))
      | none => .err "index-error"
  | [.ix (.arr l0), .ix (.arr l1)] =>
      -- NumPy pairs two integer index arrays (pointwise, with broadcasting of a length-1 array),
      -- it does not take the outer selection
      npPaired r c D l0 l1
  | [.ix s0, .ix s1] =>
      match Ix.resolve r s0, Ix.resolve c s1 with
      | some rs, some cs => .op (dense .f64 rs.length cs.length (fun i j => D (rs.getD i 0) (cs.getD j 0)))
      | _, _ => .err "index-error"
  | [.list li, .list lj] => npPaired r c D li lj
  | _ => .err "not-implemented"

end Op
