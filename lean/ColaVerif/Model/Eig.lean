import ColaVerif.Model.Annot
import Mathlib.Algebra.Field.Defs

/-!
# Code model of `cola/linalg/eig/eigs.py`, `get_slice` and `cola/linalg/eig/power_iteration.py`

What the code DOES (NumPy backend; state of /repo with the five C10 fixes landed — `9624153` selection by magnitude,
`bb973bc` / `d3bb5ef` Triangular rule, `3dd8195` / `1c54ca4` power iteration; the one recorded finding left is
`lobpcg-drops-smallest`):

* `get_slice(k, which)` (`decompositions.py`): `'SM'` ↦ `slice(0, k)`, `'LM'` ↦ `slice(-k, None)` — POSITIONAL
  (`getSlice`).  `-0 = 0`, so `k = 0` with `'LM'` selects everything (documented quirk, outside `1 ≤ k`).
* `select_by_magnitude(xnp, eig_vals, k, which) = argsort(abs(eig_vals))[get_slice(k, which)]`: every
  algorithm rule (Eig, Eigh, Lanczos, Arnoldi, LOBPCG) returns `eig_vals[sel], eig_vecs[:, sel]`.
  `xs[argsort(key(xs))]` is modelled as the stable sort of `xs` by `key` (`sortByKey`; the positions are the
  same sort of the indices, `argsort`).  numpy's `argsort` is NOT stable: the order among members of
  exactly equal magnitude (complex-conjugate pairs) is unspecified and not modelled.
* dispatch (`route`): the structural rules (`Identity`, `Triangular`, `Diagonal`; precedence 0) win over
  every algorithm rule (precedence -1) whatever `alg` is; otherwise the rule of the algorithm class;
  `Auto` (`autoChoice`): power iteration for `k = 1 ∧ which = 'LM'`, else `Eigh` / `Eig` when
  `prod(shape) ≤ 10⁶`, `Lanczos` / `Arnoldi` above, by `A.isa(SelfAdjoint)`.  `Lanczos` and `LOBPCG`
  assert `A.isa(SelfAdjoint)`; `PowerIteration` asserts `k = 1 ∧ which = 'LM'`; `Eigh` asserts nothing
  (documented: on a non-Hermitian operator LAPACK silently reads the lower triangle).
  `Auto(max_iters=…)` with `k = 1, 'LM'` raises `TypeError` (the field of `PowerIteration` is `max_iter`);
  documented, not modelled.
* `routineOrder`: the order the ROUTINE of a path delivers its spectrum in (`eigh`, `lanczos_eigs`, LOBPCG
  ascending by value; `xnp.eig`, `arnoldi_eigs` unspecified); `ordering`: the order the rule presents to
  `get_slice` — ascending by MAGNITUDE for every rule that sorts.
* LAPACK (`eigh`, `eig`) and the Krylov routines (`lanczos_eigs` — property C14, `arnoldi_eigs` — C15)
  are PARAMETERS: a computed `Spectrum` (values and vectors in computed order) enters `selectPath`.
  The contract of LAPACK is the structure `DenseContract` (`Lemmas/EigDense.lean`: `A P = P diag Λ`, non-zero
  columns) — hypothesis of `C10_dense_eig` / `C10_dense_eigh`; the Krylov routines are the loop models of C14 / C15
  (`Lanczos.lanczosExact` + `lanczosEigs`, `Arnoldi.runE` + `eigsMatrix`), composed in `Lemmas/EigKrylov.lean`.
* `LOBPCG` rule: `lobpcg(A, max_iters)` computes only the `min(n - 1, max_iters)` algebraically LARGEST eigenpairs
  (`lobpcgComputed`), `select_by_magnitude` then selects among those (`lobpcgRule`): the algebraically smallest
  eigenvalue can never be returned (finding `lobpcg-drops-smallest`; `C10_lobpcg_partial`, `C10_lobpcg_clause_needed`).
* `Identity`: ones and the identity matrix, sliced.  `Diagonal`: `argsort(abs(A.diag))`, permuted identity
  columns.  `Triangular`: `argsort(abs(diag(A)))`; data whose strictly upper part vanishes (whatever
  `A.lower` says) is reversed in rows and columns (`J L J` is upper triangular), solved, and reversed back;
  `compute_upper_triangular_eigvecs` solves `(L[:i,:i] - L[i,i] I) x = -L[:i,i]` into a buffer of the
  matrix dtype.  `np.linalg.solve` on a non-singular triangular system is modelled by substitution
  (`solveTri`; the exact solution).
* power iteration: state `(i, v, vprev, eig, eigprev)`, body `p = A v; eig, eigprev = conj(v) @ p, eig;
  v, vprev = p / ‖p‖, v`, test `i < max_iter ∧ |eigprev - eig| / |eig| > tol`, start `(0, v₀, v₀, 10, 1)`.
  The returned value is one step behind the returned vector (documented).  The model is an ordinary
  program over law-free operations (`PIOps`); the driver runs it on IEEE doubles, the theorems hold for
  every instance.
-/

namespace Eig

/-! ## `get_slice` -/

inductive Which | LM | SM
deriving DecidableEq, Repr, Inhabited

/-- `xs[get_slice(k, which)]` -/
def getSlice {α : Type} (k : Nat) : Which → List α → List α
  | .SM, l => l.take k
  | .LM, l => if k = 0 then l else l.drop (l.length - k)

/-- the positions `np.arange(m)[get_slice(k, which)]` -/
def slicePos (m k : Nat) (w : Which) : List Nat := getSlice k w (List.range m)

/-- the same positions through the model of CPython's `slice.indices` (`Basic/PySlice.lean`);
the driver cross-checks it against `slicePos` on every case -/
def slicePosPy (m k : Nat) (w : Which) : List Nat :=
  match w with
  | .SM => (Ix.resolve m (.slice (some 0) (some (k : Int)) none)).getD []
  | .LM => (Ix.resolve m (.slice (some (-(k : Int))) none none)).getD []

/-! ## dispatch -/

/-- the algorithm classes `eig` has rules for -/
inductive Alg | auto | eig | eigh | lanczos | arnoldi | lobpcg | power
deriving DecidableEq, Repr, Inhabited

/-- the Python class of the operator as far as `eig`'s structural rules distinguish it -/
inductive Kind | identity | diagonal | triangular | other
deriving DecidableEq, Repr, Inhabited

inductive Path
  | identity | diagonal | triangular | denseEig | denseEigh | lanczos | arnoldi | lobpcg | power
  | assertionError
deriving DecidableEq, Repr, Inhabited

def Path.toString : Path → String
  | .identity => "identity" | .diagonal => "diagonal" | .triangular => "triangular"
  | .denseEig => "eig" | .denseEigh => "eigh" | .lanczos => "lanczos" | .arnoldi => "arnoldi"
  | .lobpcg => "lobpcg" | .power => "power" | .assertionError => "AssertionError"

/-- the order a path computes its spectrum in, before `get_slice` is applied by position -/
inductive Order | ascendingByMagnitude | ascendingByValue | unspecified | constant | single
deriving DecidableEq, Repr, Inhabited

def Order.toString : Order → String
  | .ascendingByMagnitude => "ascending-by-magnitude"
  | .ascendingByValue => "ascending-by-value" | .unspecified => "unspecified"
  | .constant => "constant" | .single => "single"

/-- the order the routine behind a path delivers its spectrum in -/
def routineOrder : Path → Order
  | .identity => .constant
  | .diagonal => .unspecified
  | .triangular => .unspecified
  | .denseEigh => .ascendingByValue
  | .lanczos => .ascendingByValue
  | .lobpcg => .ascendingByValue
  | .denseEig => .unspecified
  | .arnoldi => .unspecified
  | .power => .single
  | .assertionError => .single

/-- the order the rule presents to `get_slice` (after `argsort(abs(·))` where the rule sorts) -/
def ordering : Path → Order
  | .identity => .constant
  | .power => .single
  | .assertionError => .single
  | _ => .ascendingByMagnitude

/-- the `Auto` rule (`eigs.py:76-96`) -/
def autoChoice (selfAdjoint : Bool) (rows cols k : Nat) (w : Which) : Alg :=
  let small := decide (rows * cols ≤ 1000000)
  if k = 1 ∧ w = .LM then .power
  else if selfAdjoint && small then .eigh
  else if !selfAdjoint && small then .eig
  else if selfAdjoint then .lanczos
  else .arnoldi

/-- the rule of an explicit algorithm on an operator without structural rule -/
def baseRule (selfAdjoint : Bool) (k : Nat) (w : Which) : Alg → Path
  | .auto => .assertionError   -- not reached: `route` resolves `auto` first
  | .eig => .denseEig
  | .eigh => .denseEigh
  | .lanczos => if selfAdjoint then .lanczos else .assertionError
  | .lobpcg => if selfAdjoint then .lobpcg else .assertionError
  | .arnoldi => .arnoldi
  | .power => if k = 1 ∧ w = .LM then .power else .assertionError

/-- which rule `eig(A, k, which, alg)` ends in -/
def route (kind : Kind) (selfAdjoint : Bool) (rows cols k : Nat) (w : Which) (alg : Alg) : Path :=
  match kind with
  | .identity => .identity
  | .diagonal => .diagonal
  | .triangular => .triangular
  | .other =>
    match alg with
    | .auto => baseRule selfAdjoint k w (autoChoice selfAdjoint rows cols k w)
    | a => baseRule selfAdjoint k w a

def kindOf {R : Type} (A : Op R) : Kind :=
  match A.core with
  | .eye _ _ => .identity
  | .diag _ _ _ => .diagonal
  | .tri _ _ _ _ _ => .triangular
  | _ => .other

/-- `route` on an operator tree (`isa` through the inferred and declared annotations) -/
def routeOp {R : Type} [DecidableEq R] (A : Op R) (k : Nat) (w : Which) (alg : Alg) : Path :=
  route (kindOf A) (A.isa .selfAdjoint) A.rows A.cols k w alg

/-! ## the algorithm rules: slice a computed spectrum -/

/-- values and vectors (columns, as lists of entries), in the order a routine computed them -/
structure Spectrum (R : Type) where
  vals : List R
  vecs : List (List R)
deriving Repr, Inhabited

/-- `xs[argsort(key(xs))]`: the stable sort of `xs` by `key` under the total preorder `le` -/
def sortByKey {α κ : Type} (le : κ → κ → Bool) (key : α → κ) (xs : List α) : List α :=
  xs.mergeSort (fun a b => le (key a) (key b))

/-- every algorithm rule: `sel = argsort(abs(eig_vals))[get_slice(k, which)]`, then
`eig_vals[sel], eig_vecs[:, sel]` — the pairs sorted by the magnitude `key` of the value, sliced -/
def selectPath {R κ : Type} (le : κ → κ → Bool) (key : R → κ) (k : Nat) (w : Which) (s : Spectrum R) :
    Spectrum R :=
  let sel := getSlice k w (sortByKey le (fun p : R × List R => key p.1) (s.vals.zip s.vecs))
  { vals := sel.map (·.1), vecs := sel.map (·.2) }

/-- the same selection on (value, vector) pairs whose vectors live in any type `V` (the Krylov rules return
the columns of the LAZY product `Q @ Y`: vectors of the operator's space); `selectPath` is this function on the
zipped spectrum (`Lemmas/EigKrylov.lean: selectPath_eq_selectPairs`, by `rfl`) -/
def selectPairs {R V κ : Type} (le : κ → κ → Bool) (key : R → κ) (k : Nat) (w : Which) (pairs : List (R × V)) :
    List (R × V) :=
  getSlice k w (sortByKey le (fun p : R × V => key p.1) pairs)

/-- the positions `select_by_magnitude` returns for a computed spectrum with the magnitude keys `keys` -/
def selectPos {κ : Type} [Inhabited κ] (le : κ → κ → Bool) (keys : List κ) (k : Nat) (w : Which) : List Nat :=
  getSlice k w (sortByKey le (fun i => keys.getD i default) (List.range keys.length))

/-- `lobpcg(A, max_iters)` (`cola/linalg/eig/lobpcg.py`): scipy's `lobpcg(…, largest=True)` is started with a
block of `min(n - 1, max_iters)` columns, so only that many ALGEBRAICALLY largest eigenpairs are computed (returned
ascending by value).  `s`: the full spectrum of the operator listed ascending by value (the contract of the
routine); the result: its last `min(n - 1, max_iters)` entries.  The algebraically smallest eigenpair is NEVER
computed (recorded finding `lobpcg-drops-smallest`). -/
def lobpcgComputed {R : Type} (maxIters : Nat) (s : Spectrum R) : Spectrum R :=
  let m := min (s.vals.length - 1) maxIters
  { vals := s.vals.drop (s.vals.length - m), vecs := s.vecs.drop (s.vecs.length - m) }

/-- `eig(A, k, which, LOBPCG(max_iters))`: `select_by_magnitude` among what `lobpcg` computed -/
def lobpcgRule {R κ : Type} (le : κ → κ → Bool) (key : R → κ) (k : Nat) (w : Which) (maxIters : Nat)
    (s : Spectrum R) : Spectrum R :=
  selectPath le key k w (lobpcgComputed maxIters s)

/-- `eigmax` / `eigmin`: `es[0]` of `eig(A, k=1, which='LM' / 'SM')` -/
def firstVal {R : Type} (s : Spectrum R) : Option R := s.vals.head?

/-! ## structural rules -/

section structural
variable {R : Type}

/-- `np.argsort` of `d[0..n)` under the total preorder `le` (stable; numpy's default sort is not,
which is immaterial for the distinct magnitudes of a well-separated spectrum) -/
def argsort (le : R → R → Bool) (n : Nat) (d : Nat → R) : List Nat :=
  (List.range n).mergeSort (fun a b => le (d a) (d b))

variable [Field R]

/-- column `p` of the `n × n` identity -/
def unitCol (n p : Nat) : List R := (List.range n).map (fun i => if i = p then 1 else 0)

/-- `eig(A: Identity, …)` -/
def identityRule (n k : Nat) (w : Which) : Spectrum R :=
  { vals := getSlice k w (List.replicate n 1),
    vecs := getSlice k w ((List.range n).map (unitCol n)) }

/-- `eig(A: Diagonal, …)`; `le a b`: `abs(a) ≤ abs(b)` -/
def diagonalRule (le : R → R → Bool) (n : Nat) (d : Nat → R) (k : Nat) (w : Which) : Spectrum R :=
  let idx := argsort le n d
  { vals := getSlice k w (idx.map d), vecs := getSlice k w (idx.map (unitCol n)) }

/-- back substitution on the leading `i × i` block: `[x₀, …, x_{i-1}]` with
`M r r * x_r + Σ_{r < c < i} M r c * x_c = b r`; `backSubAux M b i m = [x_{i-m}, …, x_{i-1}]` -/
def backSubAux (M : MatF R) (b : Nat → R) (i : Nat) : Nat → List R
  | 0 => []
  | m + 1 =>
    let acc := backSubAux M b i m
    let r := i - (m + 1)
    ((b r - sumTo m (fun t => M r (r + 1 + t) * acc.getD t 0)) / M r r) :: acc

def backSub (M : MatF R) (b : Nat → R) (i : Nat) : List R := backSubAux M b i i

/-- forward substitution: `M r r * x_r + Σ_{c < r} M r c * x_c = b r` -/
def fwdSubAux (M : MatF R) (b : Nat → R) : Nat → Array R
  | 0 => #[]
  | r + 1 =>
    let acc := fwdSubAux M b r
    acc.push ((b r - sumTo r (fun c => M r c * acc.getD c 0)) / M r r)

def fwdSub (M : MatF R) (b : Nat → R) (i : Nat) : List R := (fwdSubAux M b i).toList

variable [DecidableEq R]

/-- the strictly lower part of the leading `i × i` block vanishes -/
def isUpperBlock (M : MatF R) (i : Nat) : Bool :=
  (List.range i).all fun r => (List.range r).all fun c => M r c = 0

def isLowerBlock (M : MatF R) (i : Nat) : Bool :=
  (List.range i).all fun c => (List.range c).all fun r => M r c = 0

/-- `np.linalg.solve(M[:i,:i], b[:i])` on a triangular system (`none`: the block is not triangular —
outside the model — or singular — `LinAlgError`) -/
def solveTri (M : MatF R) (b : Nat → R) (i : Nat) : Option (List R) :=
  if (List.range i).any (fun r => M r r = 0) then none
  else if isUpperBlock M i then some (backSub M b i)
  else if isLowerBlock M i then some (fwdSub M b i)
  else none

/-- column `i` of `compute_upper_triangular_eigvecs(L)` (length `n`): the solution of
`(L[:i,:i] - L[i,i] I) x = -L[:i,i]`, then `1`, then zeros -/
def triCol (L : MatF R) (n i : Nat) : Option (List R) :=
  (solveTri (fun r c => L r c - (if r = c then L i i else 0)) (fun r => -L r i) i).map
    (fun x => x ++ 1 :: List.replicate (n - i - 1) 0)

def triEigvecs (L : MatF R) (n : Nat) : Option (List (List R)) :=
  (List.range n).mapM (triCol L n)

/-- `M[::-1, ::-1]` on the `n × n` window -/
def revM (n : Nat) (L : MatF R) : MatF R := fun r c => L (n - 1 - r) (n - 1 - c)

/-- `not np.any(np.triu(M, 1))`: the strictly upper part of the window vanishes -/
def strictUpperZero (L : MatF R) (n : Nat) : Bool :=
  (List.range n).all fun c => (List.range c).all fun r => L r c = 0

/-- the eigenvector matrix (list of columns) of the `Triangular` rule: lower triangular DATA is
reversed in rows and columns, solved as upper triangular, and reversed back -/
def triVecs (L : MatF R) (n : Nat) : Option (List (List R)) :=
  if strictUpperZero L n then
    (triEigvecs (revM n L) n).map (fun cols => (cols.map List.reverse).reverse)
  else triEigvecs L n

/-- `eig(A: Triangular, …)`; `A.lower` is not consulted; `le`: the order of `argsort(abs(·))` -/
def triangularRule (le : R → R → Bool) (n : Nat) (L : MatF R) (k : Nat) (w : Which) :
    Option (Spectrum R) :=
  (triVecs L n).map fun cols =>
    let idx := argsort le n (fun p => L p p)
    { vals := getSlice k w (idx.map (fun p => L p p)),
      vecs := getSlice k w (idx.map (fun p => cols.getD p [])) }

/-- the structural rule of an operator tree, if it has one (`le a b`: `abs(a) ≤ abs(b)`) -/
def structuralRule [StarRing R] (le : R → R → Bool) (A : Op R) (k : Nat) (w : Which) :
    Option (Spectrum R) :=
  match A.core with
  | .eye _ n => some (identityRule n k w)
  | .diag _ n d => some (diagonalRule le n d k w)
  | .tri _ n _ _ L => triangularRule le n L k w
  | _ => none

end structural

/-! ## executable specification helpers (used by the driver) -/

/-- every selected magnitude dominates (`LM`) / is dominated by (`SM`) every unselected one -/
def extremeB (w : Which) (sel rest : List Nat) : Bool :=
  match w with
  | .LM => sel.all fun x => rest.all fun y => y ≤ x
  | .SM => sel.all fun x => rest.all fun y => x ≤ y

/-- weakly ascending -/
def ascendingB : List Nat → Bool
  | a :: b :: l => a ≤ b && ascendingB (b :: l)
  | _ => true

/-! ## power iteration -/

/-- law-free operations of `power_iteration` -/
structure PIOps (K V : Type) where
  /-- `A @ v` -/
  matvec : V → V
  /-- `conj(v) @ p` -/
  dot : V → V → K
  /-- `p / xnp.norm(p)` -/
  normalize : V → V
  /-- `abs(eigprev - eig) / abs(eig)`, arguments `eig eigprev` -/
  relerr : K → K → K
  /-- `err > tol` -/
  gt : K → K → Bool

structure PIState (K V : Type) where
  i : Nat
  v : V
  vprev : V
  eig : K
  eigprev : K

section power
variable {K V : Type}

def piBody (o : PIOps K V) (s : PIState K V) : PIState K V :=
  let p := o.matvec s.v
  { i := s.i + 1, v := o.normalize p, vprev := s.v, eig := o.dot s.v p, eigprev := s.eig }

def piCond (o : PIOps K V) (tol : K) (maxIter : Nat) (s : PIState K V) : Bool :=
  decide (s.i < maxIter) && o.gt (o.relerr s.eig s.eigprev) tol

/-- `while_loop(cond, body, state)` with fuel -/
def piLoop (o : PIOps K V) (tol : K) (maxIter : Nat) : Nat → PIState K V → PIState K V
  | 0, s => s
  | fuel + 1, s => if piCond o tol maxIter s then piLoop o tol maxIter fuel (piBody o s) else s

/-- `power_iteration(A, tol, max_iter)`: start `(0, v₀, v₀, eig₀ = 10, eigprev₀ = 1)`; `max_iter`
units of fuel are enough (`Lemmas/EigPower.lean`); returns the final state (`v`, `eig` are returned to
the caller, `i` is the number of products `A @ v`, `info['iterations'] = i + 1`) -/
def powerIteration (o : PIOps K V) (tol : K) (maxIter : Nat) (v0 : V) (eig0 eigprev0 : K) :
    PIState K V :=
  piLoop o tol maxIter maxIter { i := 0, v := v0, vprev := v0, eig := eig0, eigprev := eigprev0 }

/-- `eig(A, 1, 'LM', PowerIteration)`: `emax[None], v[:, None]` -/
def powerRule (s : PIState K V) : K × V := (s.eig, s.v)

end power

end Eig
