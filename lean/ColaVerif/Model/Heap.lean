/-
  C18 — buffer-event IR and heap semantics.

  A mini-IR of the events that matter for "does this function write into memory the caller owns":

    fresh x          x := a newly allocated buffer (zeros, copy, arithmetic result, literal, constructor)
    alias x y        x := y, or a view of y (subscript, reshape, .T, attribute): the SAME buffer
    mayAlias x ys    x := a new buffer OR the buffer of one of ys, chosen by the environment
                     (`A @ y` returns `y` itself when A is an Identity; several reaching definitions)
    write x          in-place store into the buffer x denotes (`+=`, `update_array`, `x[i] = v`,
                     `x.attr = v`, `x.pop()`)
    call ws x ys     call of another function that stores in place into the buffers of `ws` and whose
                     result x is a new buffer or one of ys (emitted by the scanner as the last instruction of
                     the CALLER-side slices of private helpers and of the backend primitive, see `Reason`)

  with a small-step semantics over abstract buffer ids, an allocation pointer and an OWNERSHIP map
  (caller-owned vs locally allocated), and the static discipline `writesOnlyFresh`: every written (or
  passed-for-writing) variable is, on every path, bound to a buffer allocated by the program itself.
  Soundness (`Lemmas/PersistHeap.lean`, `C18_safe`): a program that obeys the discipline leaves every
  caller-owned buffer unchanged, whatever the environment chooses.

  The programs are GENERATED from the AST of cola by harness/translators/scan_inplace_sites.py
  (`Gen/InplaceSites.lean`): for every in-place site the slice of its function that defines the
  written object, followed by the write.  Variables never defined in a program are bound at entry
  (function parameters, unknown objects): they are not local.
-/

namespace ColaVerif.Heap

abbrev Var := Nat
abbrev Buf := Nat

inductive Instr where
  | fresh (x : Var)
  | alias (x y : Var)
  | mayAlias (x : Var) (ys : List Var)
  | write (x : Var)
  | call (ws : List Var) (x : Var) (ys : List Var)
  deriving DecidableEq, Repr

abbrev Prog := List Instr

inductive Owner where
  | caller | localBuf
  deriving DecidableEq, Repr

/-- machine state: variable bindings, contents of every buffer (an abstract value), who owns it,
    and the allocation pointer (buffers `≥ next` have never been handed out). -/
structure St where
  env  : Var → Option Buf
  heap : Buf → Nat
  own  : Buf → Owner
  next : Buf

/-- caller-owned buffers were allocated before the program started -/
def St.WF (s : St) : Prop := ∀ b, s.own b = Owner.caller → b < s.next

def St.bind (s : St) (x : Var) (b : Buf) : St :=
  { s with env := fun y => if y = x then some b else s.env y }

/-- allocate buffer `s.next` with arbitrary initial contents `v`, locally owned, and bind x to it -/
def St.alloc (s : St) (x : Var) (v : Nat) : St :=
  { env := fun y => if y = x then some s.next else s.env y,
    heap := fun b => if b = s.next then v else s.heap b,
    own := fun b => if b = s.next then Owner.localBuf else s.own b,
    next := s.next + 1 }

/-- store an arbitrary value into buffer b -/
def St.store (s : St) (b : Buf) (v : Nat) : St :=
  { s with heap := fun c => if c = b then v else s.heap c }

/-- `s'` differs from `s` only in the contents of buffers bound to variables of `ws` -/
def WritesOnly (ws : List Var) (s s' : St) : Prop :=
  s'.env = s.env ∧ s'.own = s.own ∧ s'.next = s.next ∧
  ∀ b, (∀ w ∈ ws, s.env w ≠ some b) → s'.heap b = s.heap b

/-- one instruction; nondeterministic (stored values, choice of mayAlias) -/
inductive Step : Instr → St → St → Prop where
  | fresh (s x v) : Step (.fresh x) s (s.alloc x v)
  | alias (s x y b) : s.env y = some b → Step (.alias x y) s (s.bind x b)
  | mayNew (s x ys v) : Step (.mayAlias x ys) s (s.alloc x v)
  | mayOld (s x ys y b) : y ∈ ys → s.env y = some b → Step (.mayAlias x ys) s (s.bind x b)
  | write (s x b v) : s.env x = some b → Step (.write x) s (s.store b v)
  | callNew (s s' ws x ys v) : (∀ w ∈ ws, ∃ b, s.env w = some b) → WritesOnly ws s s' →
      Step (.call ws x ys) s (s'.alloc x v)
  | callOld (s s' ws x ys y b) : (∀ w ∈ ws, ∃ b, s.env w = some b) → WritesOnly ws s s' →
      y ∈ ys → s'.env y = some b → Step (.call ws x ys) s (s'.bind x b)

/-- execution of a straight-line program -/
inductive Exec : Prog → St → St → Prop where
  | nil (s) : Exec [] s s
  | cons (i p s s' s'') : Step i s s' → Exec p s' s'' → Exec (i :: p) s s''

/-! ### the static discipline -/

/-- abstract state: the variables KNOWN to be bound to a locally allocated buffer -/
abbrev Locals := List Var

def dropVar (L : Locals) (x : Var) : Locals := L.filter (fun y => y != x)

/-- abstract transfer; `none` = the discipline is violated -/
def absStep (i : Instr) (L : Locals) : Option Locals :=
  match i with
  | .fresh x => some (x :: L)
  | .alias x y => some (if L.contains y then x :: L else dropVar L x)
  | .mayAlias x ys => some (if ys.all L.contains then x :: L else dropVar L x)
  | .write x => if L.contains x then some L else none
  | .call ws x ys =>
      if ws.all L.contains then some (if ys.all L.contains then x :: L else dropVar L x) else none

def absRun : Prog → Locals → Option Locals
  | [], L => some L
  | i :: p, L => match absStep i L with
      | none => none
      | some L' => absRun p L'

/-- every write of the program goes to a buffer the program allocated itself (no variable is local
    at entry: parameters and anything unknown are caller-owned) -/
def writesOnlyFresh (p : Prog) : Bool := (absRun p []).isSome

/-! ### the generated site table -/

inductive SiteKind where
  | augAssign | updateArray | subscriptStore | method | attrStore
  deriving DecidableEq, Repr

/-- where the module lives: `library` = imported by `import cola` and used on the NumPy backend;
    `otherBackend` = torch_fns / jax_fns / jax_tqdm; `testUtil` = utils_for_tests; `plumbing` = package
    `__init__` import machinery and the torch/jax autograd adapter; `notImported` = package directories
    without `__init__.py` (linalg/tbd, linalg/preconditioning, linalg/svd) -/
inductive Scope where
  | library | otherBackend | testUtil | plumbing | notImported
  deriving DecidableEq, Repr

inductive ProvClass where
  | fresh | viewOfFresh | loopCarried | matmulResult | param | unknown
  deriving DecidableEq, Repr

/-- WHY a write whose own slice does not obey the discipline is nevertheless harmless — established by
    the scanner's interprocedural / field analysis and emitted as DATA that `Site.ok` checks (no prose):

    * `privateHelper callers` — the function is a helper that is not exported and is referenced in the
      package only as the callee of direct calls; `callers` = for EVERY call site the caller-side slice
      defining the actual argument, ending in the interprocedural edge `call [arg] r [arg]`
      (arguments that are parameters of a private helper are substituted through its callers);
    * `primitive callers` — the in-place backend primitive (`np_fns.update_array`): `callers` = the
      slices of all calls `….update_array(t, …)` of the library, ending in `call [t] r [t]`;
    * `ownedField defs` — the target is (the contents of) an attribute `self.F`; `defs` = for EVERY store
      to `F` (in the class, and through other receivers anywhere in the library) the slice defining the
      stored object followed by `write`;
    * `writeOnlyField reads` — the site re-binds an attribute outside the constructor; `reads` = number of
      library reads of that attribute (must be 0: no computation of cola depends on it);
    * `classLevel` — the target is reached through `__class__` (the registry of Model/Registry.lean);
    * `none` — nothing established. -/
inductive Reason where
  | none
  | privateHelper (callers : List Prog)
  | primitive (callers : List Prog)
  | ownedField (defs : List Prog)
  | writeOnlyField (reads : Nat)
  | classLevel
  deriving DecidableEq, Repr

structure Site where
  file : String
  func : String
  kind : SiteKind
  target : String
  line : Nat
  scope : Scope
  cls : ProvClass
  chain : String
  prog : Prog
  reason : Reason := .none
  reasonText : String := ""
  deriving Repr

end ColaVerif.Heap
