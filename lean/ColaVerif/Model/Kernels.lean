import ColaVerif.Model.KronKernel

/-!
# Per-kind product kernels of `cola/ops/operators.py`, on entry functions

Each definition mirrors one `_matmat`/`_rmatmat`/`to_dense` body line by line; the numpy
primitives it uses (`reshape`, `.T`, slicing, `concatenate`, fancy-index assignment, `np.kron`,
`block_diag`, `np.diag`) are the small definitions at the top (models of numpy, trusted base).
Composite kinds receive their members as `FacAct`s (dimension + action), because the code only
ever calls `M @ ·` on them.
-/

open Finset

variable {R : Type}

/-! ## numpy primitives -/

/-- C-order reshape of a 2-D array with `c0` columns to one with `c1` columns -/
def reshape2 (c0 c1 : Nat) (m : MatF R) : MatF R :=
  fun i j => m ((i * c1 + j) / c0) ((i * c1 + j) % c0)

/-- `np.kron(A, B)` for `B` of shape `rB × cB` -/
def kron2 [Mul R] (rB cB : Nat) (A B : MatF R) : MatF R :=
  fun i j => A (i / rB) (j / cB) * B (i % rB) (j % cB)

/-- `np.diag(d)` -/
def diagM [Zero R] (d : Nat → R) : MatF R := fun i j => if i = j then d i else 0

/-- rows `off ..` of an array (`v[off:…]`) -/
def rowsFrom (off : Nat) (v : MatF R) : MatF R := fun i j => v (off + i) j

/-- `np.concatenate(blocks, axis=0)` for blocks given with their row counts -/
def vstack [Zero R] : List (Nat × MatF R) → MatF R
  | [] => fun _ _ => 0
  | (r, m) :: rest => fun i j => if i < r then m i j else vstack rest (i - r) j

/-- `np.concatenate(blocks, axis=1)` for blocks given with their column counts -/
def hstack [Zero R] : List (Nat × MatF R) → MatF R
  | [] => fun _ _ => 0
  | (c, m) :: rest => fun i j => if j < c then m i j else hstack rest i (j - c)

/-- `scipy.linalg.block_diag` for blocks given with their shapes -/
def blockDiagM [Zero R] : List (Nat × Nat × MatF R) → MatF R
  | [] => fun _ _ => 0
  | (r, c, m) :: rest => fun i j =>
      if i < r then (if j < c then m i j else 0)
      else (if j < c then 0 else blockDiagM rest (i - r) (j - c))

/-- position of the last occurrence of `t` in `l` (numpy fancy-index assignment: last write wins) -/
def lastIdxOf (l : List Nat) (t : Nat) : Option Nat :=
  (l.zipIdx.foldl (fun acc p => if p.1 = t then some p.2 else acc) none)

/-- `Y = zeros(n, k); Y[idx] = X` (rows) -/
def scatterRows [Zero R] (idx : List Nat) (X : MatF R) : MatF R :=
  fun t j => match lastIdxOf idx t with | some p => X p j | none => 0

/-- `out[idx]` (rows) -/
def gatherRows (idx : List Nat) (m : MatF R) : MatF R := fun i j => m (idx.getD i 0) j

/-- COO triples summed (scipy `coo_array(...).tocsr()` sums duplicates) -/
def sparseDen [AddCommMonoid R] (ents : List (Nat × Nat × R)) : MatF R :=
  fun i j => (ents.map (fun e => if e.1 = i ∧ e.2.1 = j then e.2.2 else 0)).sum

/-! ## kernels -/

/-- `Sum._matmat`: Python `sum(M @ v for M in Ms)` (starts from the integer 0) -/
def sumMatmat [Zero R] [Add R] (acts : List (MatF R → MatV R)) (X : MatF R) : MatV R :=
  let vals := acts.map (fun f => f X)
  MatV.of ((vals.map (·.f)).foldl addM zeroM)

/-- `Concatenated._matmat`, axis = 1: `out = 0; for M: out = out + M @ V[i:i+c]; i += c` -/
def hcatTerms : Nat → List (Nat × (MatF R → MatV R)) → MatF R → List (MatV R)
  | _, [], _ => []
  | off, (c, act) :: rest, X => act (rowsFrom off X) :: hcatTerms (off + c) rest X

def hcatMatmat [Zero R] [Add R] (acts : List (Nat × (MatF R → MatV R))) (X : MatF R) : MatV R :=
  let vals := hcatTerms 0 acts X
  MatV.of ((vals.map (·.f)).foldl addM zeroM)

/-- `KronSum._matmat` loop: `out = 0 * ev; for i, M: out += moveaxis(M @ front, 0, i)` -/
def kronSumLoop [Zero R] [Add R] : Nat → List (FacAct R) → Tensor R → Tensor R → Tensor R
  | _, [], _, out => out
  | i, M :: Ms, ev, out =>
      let t := kronStep M ev i
      kronSumLoop (i + 1) Ms ev (forceT ⟨out.shape, fun idx => out.get idx + t.get idx⟩)

def kronSumMatmat [Zero R] [Add R] (Ms : List (FacAct R)) (b : Nat) (v : MatF R) : MatV R :=
  let ev := reshapeIn (Ms.map (·.c)) b v
  MatV.of (reshapeOut (Ms.map (·.r)) (kronSumLoop 0 Ms ev ⟨ev.shape, fun _ => 0⟩))

/-- multi-index entry of the Kronecker sum: `Σ_t M_t(i_t, j_t) · Π_{s ≠ t} δ(i_s, j_s)` -/
def kronSumEntry [Semiring R] : List (FacAct R) → List Nat → List Nat → R
  | [], _, _ => 0
  | M :: Ms, i :: is, j :: js =>
      M.a i j * (if is = js then 1 else 0) + (if i = j then 1 else 0) * kronSumEntry Ms is js
  | _ :: _, _, _ => 0

def kronSumDen [Semiring R] (Ms : List (FacAct R)) : MatF R :=
  fun I J => kronSumEntry Ms (unravel (Ms.map (·.r)) I) (unravel (Ms.map (·.c)) J)

/-- one block of `BlockDiag._matmat`:
`elems = M @ v[i:i_end].T.reshape(k*mult, c).T ; elems.T.reshape(k, mult*r).T` -/
def bdiagBlock (M : FacAct R) (mult k off : Nat) (v : MatF R) : MatV R :=
  let sl := rowsFrom off v                                   -- (mult*c, k)
  let a1 := transposeM (reshape2 (mult * M.c) M.c (transposeM sl))   -- (c, k*mult)
  let elems := M.act (k * mult) a1                           -- (r, k*mult)
  MatV.of (transposeM (reshape2 M.r (mult * M.r) (transposeM elems.f)))  -- (mult*r, k)

/-- `BlockDiag._matmat` -/
def bdiagBlocks (k : Nat) : Nat → List (FacAct R × Nat) → MatF R → List (Nat × MatF R)
  | _, [], _ => []
  | off, (M, mult) :: rest, v =>
      (mult * M.r, (bdiagBlock M mult k off v).f) :: bdiagBlocks k (off + mult * M.c) rest v

def bdiagMatmat [Zero R] (Ms : List (FacAct R × Nat)) (k : Nat) (v : MatF R) : MatV R :=
  MatV.of (vstack (bdiagBlocks k 0 Ms v))

/-- blocks repeated by multiplicity, as `BlockDiag.to_dense` builds them -/
def expandBlocks (Ms : List (FacAct R × Nat)) : List (Nat × Nat × MatF R) :=
  Ms.flatMap (fun p => List.replicate p.2 (p.1.r, p.1.c, p.1.a))

def bdiagDen [Zero R] (Ms : List (FacAct R × Nat)) : MatF R := blockDiagM (expandBlocks Ms)

/-- `Tridiagonal._matmat` -/
def tridiagMatmat [Zero R] [Add R] [Mul R] (n : Nat) (al be ga : Nat → R) (X : MatF R) : MatF R :=
  fun i j => be i * X i j + (if i = 0 then 0 else al (i - 1) * X (i - 1) j)
    + (if i + 1 = n then 0 else ga i * X (i + 1) j)

def tridiagDen [Zero R] (al be ga : Nat → R) : MatF R :=
  fun i j => if i = j then be i else if i = j + 1 then al j else if j = i + 1 then ga i else 0

/-- `Householder._matmat`: `X - beta * sum(X * conj(vec), axis=-2) * vec` -/
def houseMatmat [Ring R] [Star R] (n : Nat) (v : Nat → R) (beta : R) (X : MatF R) : MatF R :=
  fun i j => X i j - beta * (sumTo n fun t => X t j * star (v t)) * v i

def houseDen [Ring R] [Star R] (v : Nat → R) (beta : R) : MatF R :=
  fun i j => (if i = j then 1 else 0) - beta * v i * star (v j)

/-- `Sliced._matmat`: zero buffer, scatter rows, product with the parent, gather rows -/
def slicedMatmat [Zero R] (act : MatF R → MatV R) (rs cs : List Nat) (X : MatF R) : MatV R :=
  let out := act (scatterRows cs X)
  MatV.of (gatherRows rs out.f)

/-- `Sliced._rmatmat` (the same on the transposed side) -/
def slicedRmatmat [Zero R] (ract : MatF R → MatV R) (rs cs : List Nat) (X : MatF R) : MatV R :=
  let out := ract (transposeM (scatterRows rs (transposeM X)))
  MatV.of (transposeM (gatherRows cs (transposeM out.f)))

def slicedDen (A : MatF R) (rs cs : List Nat) : MatF R :=
  fun i j => A (rs.getD i 0) (cs.getD j 0)

/-- `Permutation._matmat`: `v[perm]` -/
def permMatmat (p : List Nat) (X : MatF R) : MatF R := gatherRows p X
def permDen [Zero R] [One R] (p : List Nat) : MatF R :=
  fun i j => if p.getD i 0 = j then 1 else 0

/-- `Kronecker.to_dense`: `reduce(np.kron, dense factors)` (left fold) -/
def kronDense [Mul R] : Nat → Nat → MatF R → List (FacAct R) → MatF R
  | _, _, acc, [] => acc
  | r, c, acc, M :: Ms => kronDense (r * M.r) (c * M.c) (kron2 M.r M.c acc M.a) Ms

/-- `KronSum.to_dense`: `reduce(kronsum, …)`, `kronsum(A,B) = kron(A, I_B) + kron(I_A, B)` with
both identities square of the *row* extent (as in the code) -/
def kronSumDense [Semiring R] : Nat → MatF R → List (FacAct R) → MatF R
  | _, acc, [] => acc
  | r, acc, M :: Ms =>
      kronSumDense (r * M.r) (addM (kron2 M.r M.r acc eyeM) (kron2 M.r M.c eyeM M.a)) Ms
