import ColaVerif.Lemmas.UnaryKrylov
import ColaVerif.Lemmas.ArnoldiKrylov
import ColaVerif.Lemmas.ArnoldiWitness

/-!
# C09 (round 5) — `ArnoldiUnary` as a matrix-valued MODEL on the loop model of C15, and `KrylovOK` derived for it

The Lanczos counterpart is `Lemmas/KrylovInst.lean` + `Lemmas/UnaryKrylov.lean` (`lanczosUnaryVec`, `lanczosK`,
`krylovOK_of_lanczos`).  This file (owned by C09; it holds the model definitions AND their lemmas, because C09's round-5
file list is `Model/Unary*.lean`) does the same for `ArnoldiUnary._matmat` (cola/linalg/unary/unary.py l.78-97):

* `EigS`, `SmallDiag`, `EigContract`, `eigChoice` — `xnp.eig` + `xnp.solve` on the small Hessenberg block as a PARAMETER
  `eig : EigS 𝕜` (returns `P`, `P⁻¹`, `θ`) with the LAPACK contract "on a diagonalisable input: `Pi P = 1`, `H P = P diag θ`";
  the contract is satisfiable for every size (`eigChoice_contract`);
* `aSteps`, `aCol` — executed steps and buffers of `Arnoldi.run` (the code model of C15) on one start vector;
* `arnoldiUnaryVec eig M max_iters tol g v` — what `ArnoldiUnary(A, g) @ v` returns: `Q P (g(θ) ⊙ P⁻¹ (‖v‖ e₁))` on the buffers
  trimmed to the executed steps; `arnoldiUnaryMat` = its outputs on the identity columns; `Unary.arnoldiK` = the same as a
  `MatF` for an operator `A : Op 𝕜`;
* `arnoldi_factorisation` — what the run provides under C15's clauses `noClip`, `stopExact`: `A Q = Q H`, `v = ‖v‖ Q e₁`,
  `Qᴴ Q = 1`;
* `arnoldiUnaryVec_eq` — `KrylovCompose.arnoldi_unary_exact` (= `C09_arnoldi_path`) APPLIED to the model: the vector is `g(M) v`;
* `arnoldi_full` — a run to the full dimension: `stopExact` is automatic (`Inv.cap_column_zero`, C15 `dimension cap`) and the
  Hessenberg matrix `H = Qᴴ M Q` is diagonalisable because `M` is (`smallDiag_of_full`) — what remains is `noClip`;
* `Unary.krylovOK_of_arnoldi`, `Unary.krylovOK_of_arnoldi_full` — the contract `KrylovOK` of `UnOp.SoundE` at an Arnoldi node,
  DERIVED for the model;
* `Arnoldi.two_step_full`, `exN2 …`, `Unary.exN`, `Unary.exN_arnoldi_soundE` — the witness: the non-symmetric
  `[[3,1],[2,2]] = V diag(4,1) V⁻¹`, `Arnoldi(max_iters = 5, tol = 1/10)`: both identity columns run 2 = n steps, `β₀ = 2` resp. `1`
  (no clip), so `SoundE` holds at the Arnoldi base node for every `f`.

`tol > 0` throughout: the theorems of C15 about `Arnoldi.run` (`inv_colAfter`, `run_spec_exact`) need it (the clipped
normalisation divides by `max(norm, tol/2)`).
-/

set_option linter.unusedSectionVars false

open Matrix KrylovPoly MatFun
open scoped InnerProductSpace

namespace KrylovCompose

section arnoldiModel
open Arnoldi
variable {𝕜 : Type} [RCLike 𝕜] {n : ℕ}

/-- what `xnp.eig` followed by `xnp.solve(P, I)` returns for a `m × m` matrix: `P`, `P⁻¹`, eigenvalues -/
abbrev EigS (𝕜 : Type) :=
  ∀ m : ℕ, Matrix (Fin m) (Fin m) 𝕜 → Matrix (Fin m) (Fin m) 𝕜 × Matrix (Fin m) (Fin m) 𝕜 × (Fin m → 𝕜)

/-- the small matrix has an eigendecomposition -/
def SmallDiag {m : ℕ} (H : Matrix (Fin m) (Fin m) 𝕜) : Prop :=
  ∃ (P Pi : Matrix (Fin m) (Fin m) 𝕜) (θ : Fin m → 𝕜), Pi * P = 1 ∧ H * P = P * Matrix.diagonal θ

/-- **the LAPACK contract of `eig` + `solve`** on a diagonalisable input -/
def EigContract (eig : EigS 𝕜) : Prop :=
  ∀ (m : ℕ) (H : Matrix (Fin m) (Fin m) 𝕜), SmallDiag H →
    (eig m H).2.1 * (eig m H).1 = 1 ∧ H * (eig m H).1 = (eig m H).1 * Matrix.diagonal (eig m H).2.2

/-- the contract is satisfiable for every size -/
noncomputable def eigChoice : EigS 𝕜 := fun _ H =>
  open Classical in
  if h : SmallDiag H then (h.choose, h.choose_spec.choose, h.choose_spec.choose_spec.choose) else (1, 1, fun _ => 0)

theorem eigChoice_contract : EigContract (eigChoice (𝕜 := 𝕜)) := by
  intro m H h
  unfold eigChoice
  rw [dif_pos h]
  exact h.choose_spec.choose_spec.choose_spec

/-- executed steps of `Arnoldi.run` (`info['iterations'] - 1`) on the start vector `v` -/
noncomputable def aSteps (Mx : Matrix (Fin n) (Fin n) 𝕜) (max_iters : ℕ) (tol : ℝ)
    (v : EuclideanSpace 𝕜 (Fin n)) : ℕ :=
  (runE (Matrix.toEuclideanLin Mx) n max_iters tol [v]).idx

/-- the buffers `Q`, `H` of that run -/
noncomputable def aCol (Mx : Matrix (Fin n) (Fin n) 𝕜) (max_iters : ℕ) (tol : ℝ)
    (v : EuclideanSpace 𝕜 (Fin n)) : Col 𝕜 (EuclideanSpace 𝕜 (Fin n)) :=
  colAt (Matrix.toEuclideanLin Mx) max_iters tol v (aSteps Mx max_iters tol v)

/-- **`ArnoldiUnary(A, g) @ v`** on the loop model of C15: `Q P (g(θ) ⊙ P⁻¹ (‖v‖ e₁))`, buffers trimmed to the executed steps -/
noncomputable def arnoldiUnaryVec (eig : EigS 𝕜) (Mx : Matrix (Fin n) (Fin n) 𝕜) (max_iters : ℕ) (tol : ℝ)
    (g : 𝕜 → 𝕜) (v : EuclideanSpace 𝕜 (Fin n)) : Fin n → 𝕜 :=
  krylovVec (colMat (aCol Mx max_iters tol v).q (aSteps Mx max_iters tol v))
    (eig _ (blockMat (aCol Mx max_iters tol v).h (aSteps Mx max_iters tol v))).1
    (eig _ (blockMat (aCol Mx max_iters tol v).h (aSteps Mx max_iters tol v))).2.1
    (eig _ (blockMat (aCol Mx max_iters tol v).h (aSteps Mx max_iters tol v))).2.2 g
    (((‖v‖ : ℝ) : 𝕜) • e0 (aSteps Mx max_iters tol v))

/-- the matrix of `ArnoldiUnary(A, g)`: its outputs on the identity columns -/
noncomputable def arnoldiUnaryMat (eig : EigS 𝕜) (Mx : Matrix (Fin n) (Fin n) 𝕜) (max_iters : ℕ) (tol : ℝ)
    (g : 𝕜 → 𝕜) : Matrix (Fin n) (Fin n) 𝕜 :=
  fun a i => arnoldiUnaryVec eig Mx max_iters tol g (EuclideanSpace.single i 1) a

theorem aInv (Mx : Matrix (Fin n) (Fin n) 𝕜) (max_iters : ℕ) (tol : ℝ) (tolPos : 0 < tol)
    (v : EuclideanSpace 𝕜 (Fin n)) (hv : v ≠ 0) :
    aSteps Mx max_iters tol v ≤ min max_iters n ∧
    Inv (Matrix.toEuclideanLin Mx) max_iters v tol (aSteps Mx max_iters tol v) (aCol Mx max_iters tol v) := by
  obtain ⟨h1, _, _, h4⟩ := run_spec_exact (Matrix.toEuclideanLin Mx) n max_iters tol tolPos [v] (by simpa using hv)
  exact ⟨h1, (h4 v List.mem_cons_self).1⟩

/-- what a run provides under the clauses of C15, for buffers `c` satisfying the invariant after `s` steps -/
theorem arnoldi_fact_core (Mx : Matrix (Fin n) (Fin n) 𝕜) (M s : ℕ) (tol : ℝ) (tolPos : 0 < tol)
    (v : EuclideanSpace 𝕜 (Fin n)) (hv : v ≠ 0) (c : Col 𝕜 (EuclideanSpace 𝕜 (Fin n)))
    (hinv : Inv (Matrix.toEuclideanLin Mx) M v tol s c) (hs : 0 < s)
    (noClip : ∀ i, i + 1 < s → tol / 2 ≤ c.beta i) (stop : c.beta (s - 1) = 0) :
    Mx * colMat c.q s = colMat c.q s * blockMat c.h s ∧
    v.ofLp = ((‖v‖ : ℝ) : 𝕜) • colMat c.q s *ᵥ e0 s ∧
    (colMat c.q s)ᴴ * colMat c.q s = 1 := by
  have hnc : NoClip tol s c := by
    intro i hi
    by_cases h : i + 1 < s
    · right; exact noClip i h
    · left
      have : i = s - 1 := by omega
      rw [this]; exact stop
  refine ⟨?_, ?_, ?_⟩
  · exact mul_eq_of_column_relation (k := s) Mx c.q c.h
      (fun i hi => hinv.invariant_relation tolPos hnc s hs (le_refl _) stop i hi)
  · rw [e0_eq_single hs]
    exact start_of_first _ s hs v hv hinv.q0
  · exact colMat_orthonormal c.q (hinv.orth noClip).1

/-- **the factorisation of the actual run** under `noClip`, `stopExact` (the clauses of `C09_arnoldi_path`) -/
theorem arnoldi_factorisation (Mx : Matrix (Fin n) (Fin n) 𝕜) (max_iters : ℕ) (tol : ℝ) (tolPos : 0 < tol)
    (v : EuclideanSpace 𝕜 (Fin n)) (startNonzero : v ≠ 0)
    (noClip : ∀ i, i + 1 < aSteps Mx max_iters tol v → tol / 2 ≤ (aCol Mx max_iters tol v).beta i)
    (stopExact : 0 < aSteps Mx max_iters tol v ∧
      (aCol Mx max_iters tol v).beta (aSteps Mx max_iters tol v - 1) = 0) :
    Mx * colMat (aCol Mx max_iters tol v).q (aSteps Mx max_iters tol v)
      = colMat (aCol Mx max_iters tol v).q (aSteps Mx max_iters tol v) *
        blockMat (aCol Mx max_iters tol v).h (aSteps Mx max_iters tol v) ∧
    v.ofLp = ((‖v‖ : ℝ) : 𝕜) • colMat (aCol Mx max_iters tol v).q (aSteps Mx max_iters tol v) *ᵥ
      e0 (aSteps Mx max_iters tol v) ∧
    (colMat (aCol Mx max_iters tol v).q (aSteps Mx max_iters tol v))ᴴ *
      colMat (aCol Mx max_iters tol v).q (aSteps Mx max_iters tol v) = 1 :=
  arnoldi_fact_core Mx max_iters _ tol tolPos v startNonzero _ (aInv Mx max_iters tol tolPos v startNonzero).2
    stopExact.1 noClip stopExact.2

/-- **`C09_arnoldi_path` (`arnoldi_unary_exact`) applied to the model**: under the contract of `eig`, the clauses
`noClip` / `stopExact` of C15 and a diagonalisable small matrix, the model's vector is `g(M) v`, for every `g` -/
theorem arnoldiUnaryVec_eq (eig : EigS 𝕜) (contract : EigContract eig) (Mx : Matrix (Fin n) (Fin n) 𝕜)
    (max_iters : ℕ) (tol : ℝ) (tolPos : 0 < tol) (v : EuclideanSpace 𝕜 (Fin n)) (startNonzero : v ≠ 0)
    (noClip : ∀ i, i + 1 < aSteps Mx max_iters tol v → tol / 2 ≤ (aCol Mx max_iters tol v).beta i)
    (stopExact : 0 < aSteps Mx max_iters tol v ∧
      (aCol Mx max_iters tol v).beta (aSteps Mx max_iters tol v - 1) = 0)
    (smallDiag : SmallDiag (blockMat (aCol Mx max_iters tol v).h (aSteps Mx max_iters tol v)))
    {V Vi : Matrix (Fin n) (Fin n) 𝕜} {d : Fin n → 𝕜} (hV : Vi * V = 1)
    (hA : Mx = V * Matrix.diagonal d * Vi) (g : 𝕜 → 𝕜) :
    arnoldiUnaryVec eig Mx max_iters tol g v = (V * Matrix.diagonal (fun i => g (d i)) * Vi) *ᵥ v.ofLp := by
  obtain ⟨hP, hT⟩ := contract _ _ smallDiag
  have h := arnoldi_unary_exact Mx n max_iters tol tolPos v startNonzero noClip stopExact hV hA hP hT g
  unfold arnoldiUnaryVec
  rw [e0_eq_single stopExact.1]
  exact h

/-- at full dimension the Hessenberg matrix `H = Qᴴ M Q` inherits an eigendecomposition from `M` -/
theorem smallDiag_of_full {S : Set 𝕜} (Mx : Matrix (Fin n) (Fin n) 𝕜) (q : ℕ → EuclideanSpace 𝕜 (Fin n))
    (h : ℕ → ℕ → 𝕜) (s : ℕ) (hs : s = n) (hfac : Mx * colMat q s = colMat q s * blockMat h s)
    (hQ : (colMat q s)ᴴ * colMat q s = 1) (hd : DiagonalisableOn S Mx) : SmallDiag (blockMat h s) := by
  subst hs
  obtain ⟨V, Vi, d, hV, _, hA⟩ := hd
  have hQ' : colMat q s * (colMat q s)ᴴ = 1 := mul_eq_one_comm.mp hQ
  have hAV : Mx * V = V * Matrix.diagonal d := by
    rw [hA, Matrix.mul_assoc, hV, Matrix.mul_one]
  have hH : blockMat h s = (colMat q s)ᴴ * Mx * colMat q s := by
    rw [Matrix.mul_assoc, hfac, ← Matrix.mul_assoc, hQ, Matrix.one_mul]
  refine ⟨(colMat q s)ᴴ * V, Vi * colMat q s, d, ?_, ?_⟩
  · calc Vi * colMat q s * ((colMat q s)ᴴ * V) = Vi * (colMat q s * (colMat q s)ᴴ) * V := by
          simp only [Matrix.mul_assoc]
      _ = 1 := by rw [hQ', Matrix.mul_one, hV]
  · calc blockMat h s * ((colMat q s)ᴴ * V)
          = (colMat q s)ᴴ * Mx * (colMat q s * (colMat q s)ᴴ) * V := by
          rw [hH]; simp only [Matrix.mul_assoc]
      _ = (colMat q s)ᴴ * (Mx * V) := by rw [hQ', Matrix.mul_one, Matrix.mul_assoc]
      _ = (colMat q s)ᴴ * V * Matrix.diagonal d := by rw [hAV, Matrix.mul_assoc]

/-- **a run to the full dimension**: `stopExact` holds by the dimension cap of C15 and the small matrix is diagonalisable;
the only clause left is `noClip` -/
theorem arnoldi_full {S : Set 𝕜} (Mx : Matrix (Fin n) (Fin n) 𝕜) (max_iters : ℕ) (tol : ℝ) (tolPos : 0 < tol)
    (v : EuclideanSpace 𝕜 (Fin n)) (startNonzero : v ≠ 0) (hn : 0 < n)
    (ranToDim : aSteps Mx max_iters tol v = n)
    (noClip : ∀ i, i + 1 < aSteps Mx max_iters tol v → tol / 2 ≤ (aCol Mx max_iters tol v).beta i)
    (hdiag : DiagonalisableOn S Mx) :
    (0 < aSteps Mx max_iters tol v ∧ (aCol Mx max_iters tol v).beta (aSteps Mx max_iters tol v - 1) = 0) ∧
    SmallDiag (blockMat (aCol Mx max_iters tol v).h (aSteps Mx max_iters tol v)) := by
  have hinv := (aInv Mx max_iters tol tolPos v startNonzero).2
  have hdim : Module.finrank 𝕜 (EuclideanSpace 𝕜 (Fin n)) = aSteps Mx max_iters tol v := by
    rw [ranToDim, finrank_euclideanSpace_fin]
  have hpos : 0 < aSteps Mx max_iters tol v := by rw [ranToDim]; exact hn
  have hcap := hinv.cap_column_zero hdim hpos noClip
  have hstop : 0 < aSteps Mx max_iters tol v ∧
      (aCol Mx max_iters tol v).beta (aSteps Mx max_iters tol v - 1) = 0 := ⟨hpos, hcap.2⟩
  obtain ⟨hfac, _, hQ⟩ := arnoldi_factorisation Mx max_iters tol tolPos v startNonzero noClip hstop
  exact ⟨hstop, smallDiag_of_full Mx _ _ _ ranToDim hfac hQ hdiag⟩

end arnoldiModel

end KrylovCompose

/-! ## the contract `KrylovOK` at an Arnoldi node, derived for the model -/

namespace Unary

open KrylovCompose

section arnoldiOp
open Arnoldi
variable {𝕜 : Type} [RCLike 𝕜] [DecidableEq 𝕜]

/-- the matrix of `ArnoldiUnary(A, g)` as a `MatF`: the model `KrylovCompose.arnoldiUnaryMat` of the represented matrix -/
noncomputable def arnoldiK (eig : EigS 𝕜) (max_iters : ℕ) (tol : ℝ) (g : 𝕜 → 𝕜) (A : Op 𝕜) : MatF 𝕜 :=
  fun a i => if h : a < A.rows ∧ i < A.rows then
    arnoldiUnaryMat eig (mat A) max_iters tol g ⟨a, h.1⟩ ⟨i, h.2⟩ else 0

/-- **`KrylovOK` DERIVED from the loop model of C15**: for a diagonalisable operand whose runs on the identity columns meet
C15's clauses `noClip` / `stopExact` and end with a diagonalisable Hessenberg block, the model's matrix satisfies the
contract; what remains assumed is `EigContract` (LAPACK `eig` + `solve` on the small matrix). -/
theorem krylovOK_of_arnoldi (eig : EigS 𝕜) (contract : EigContract eig) (S : Set 𝕜) (g : 𝕜 → 𝕜) (A : Op 𝕜)
    (sq : A.cols = A.rows) (hdiag : DiagonalisableOn S (mat A)) (max_iters : ℕ) (tol : ℝ) (tolPos : 0 < tol)
    (noClip : ∀ i : Fin A.rows, ∀ j, j + 1 < aSteps (mat A) max_iters tol (EuclideanSpace.single i (1 : 𝕜)) →
      tol / 2 ≤ (aCol (mat A) max_iters tol (EuclideanSpace.single i (1 : 𝕜))).beta j)
    (stopExact : ∀ i : Fin A.rows, 0 < aSteps (mat A) max_iters tol (EuclideanSpace.single i (1 : 𝕜)) ∧
      (aCol (mat A) max_iters tol (EuclideanSpace.single i (1 : 𝕜))).beta
        (aSteps (mat A) max_iters tol (EuclideanSpace.single i (1 : 𝕜)) - 1) = 0)
    (smallDiag : ∀ i : Fin A.rows, SmallDiag (blockMat (aCol (mat A) max_iters tol (EuclideanSpace.single i (1 : 𝕜))).h
      (aSteps (mat A) max_iters tol (EuclideanSpace.single i (1 : 𝕜))))) :
    KrylovOK S g A (arnoldiK eig max_iters tol g A) := by
  refine ⟨sq, hdiag, fun i => ?_⟩
  obtain ⟨hfac, hv, _⟩ := arnoldi_factorisation (mat A) max_iters tol tolPos
    (EuclideanSpace.single i (1 : 𝕜)) (single_ne_zero i) (noClip i) (stopExact i)
  obtain ⟨hP, hT⟩ := contract _ _ (smallDiag i)
  refine ⟨_, _, _, _, _, _, e0 _, ((‖(EuclideanSpace.single i (1 : 𝕜))‖ : ℝ) : 𝕜), hfac, hP, hT, ?_, ?_⟩
  · rw [← hv]; simp
  · funext a
    simp only [arnoldiK, a.isLt, i.isLt, and_self, dite_true, Fin.eta]
    rfl

/-- … and for runs to the FULL dimension only `noClip` is left: `stopExact` is the dimension cap of C15 and the Hessenberg
matrix is diagonalisable because the operand is -/
theorem krylovOK_of_arnoldi_full (eig : EigS 𝕜) (contract : EigContract eig) (S : Set 𝕜) (g : 𝕜 → 𝕜) (A : Op 𝕜)
    (sq : A.cols = A.rows) (hdiag : DiagonalisableOn S (mat A)) (max_iters : ℕ) (tol : ℝ) (tolPos : 0 < tol)
    (hn : 0 < A.rows)
    (ranToDim : ∀ i : Fin A.rows, aSteps (mat A) max_iters tol (EuclideanSpace.single i (1 : 𝕜)) = A.rows)
    (noClip : ∀ i : Fin A.rows, ∀ j, j + 1 < aSteps (mat A) max_iters tol (EuclideanSpace.single i (1 : 𝕜)) →
      tol / 2 ≤ (aCol (mat A) max_iters tol (EuclideanSpace.single i (1 : 𝕜))).beta j) :
    KrylovOK S g A (arnoldiK eig max_iters tol g A) :=
  krylovOK_of_arnoldi eig contract S g A sq hdiag max_iters tol tolPos noClip
    (fun i => (arnoldi_full (mat A) max_iters tol tolPos _ (single_ne_zero i) hn (ranToDim i) (noClip i) hdiag).1)
    (fun i => (arnoldi_full (mat A) max_iters tol tolPos _ (single_ne_zero i) hn (ranToDim i) (noClip i) hdiag).2)

end arnoldiOp

end Unary

/-! ## witness: a run to the full dimension on the non-symmetric `[[3,1],[2,2]]` -/

namespace Arnoldi
variable {𝕜 E : Type} [RCLike 𝕜] [NormedAddCommGroup E] [InnerProductSpace 𝕜 E]

theorem beta0_eq (A : E →ₗ[𝕜] E) (M : Nat) (tol : ℝ) (htol : 0 < tol) (v : E) (hv : v ≠ 0) (k : Nat) (hk : 1 ≤ k)
    (hkM : k ≤ M) : (colAt A M tol v k).beta 0 = ‖w1 A v‖ := by
  rw [beta_frozen A M tol v htol hv 1 k hk hkM 0 (by omega)]
  unfold Col.beta
  rw [colAt_one_h _ _ _ _ (by omega), if_pos rfl, if_pos rfl]
  simp

theorem two_step_full (A : E →ₗ[𝕜] E) (M : Nat) (hM : 2 ≤ M) (tol : ℝ) (htol : 0 < tol) (htol1 : tol < 1)
    (v : E) (hv : v ≠ 0) (hw : tol / 2 ≤ ‖w1 A v‖) :
    (runE A 2 M tol [v]).idx = 2 ∧ ∀ j, j + 1 < 2 → tol / 2 ≤ (colAt A M tol v 2).beta j := by
  have hw0 : 0 < ‖w1 A v‖ := lt_of_lt_of_le (by linarith) hw
  constructor
  · rw [run_idx_eq_cap_of_large A M tol v 2 htol hv]
    · exact min_eq_right hM
    · intro k hk1 hk
      have hk2 : k < 2 := lt_of_lt_of_le hk (min_le_right _ _)
      have : k = 1 := by omega
      subst this
      rw [beta0_eq A M tol htol v hv 1 (le_refl _) (by omega)]
      nlinarith
  · intro j hj
    have : j = 0 := by omega
    subst this
    rw [beta0_eq A M tol htol v hv 2 (by omega) hM]
    exact hw

end Arnoldi

namespace KrylovCompose
open Arnoldi Lanczos WithLp

/-- the non-symmetric `[[3, 1], [2, 2]] = V diag(4, 1) V⁻¹`, `V = [[1, 1], [1, -2]]` -/
def exN2 : Matrix (Fin 2) (Fin 2) ℝ := !![3, 1; 2, 2]

theorem exN2_apply (a b : ℝ) :
    Matrix.toEuclideanLin exN2 !₂[a, b] = !₂[3 * a + b, 2 * a + 2 * b] := by
  apply ofLp_injective 2
  funext i
  fin_cases i <;> simp [exN2, Matrix.toLpLin_apply] <;> ring

theorem single2_0 : (EuclideanSpace.single (0 : Fin 2) (1 : ℝ)) = !₂[1, 0] := by
  apply ofLp_injective 2; funext i; fin_cases i <;> simp
theorem single2_1 : (EuclideanSpace.single (1 : Fin 2) (1 : ℝ)) = !₂[0, 1] := by
  apply ofLp_injective 2; funext i; fin_cases i <;> simp

theorem exN2_w1_0 : w1 (𝕜 := ℝ) (Matrix.toEuclideanLin exN2) !₂[1, 0] = !₂[0, 2] := by
  unfold w1
  have hn : ‖(!₂[(1 : ℝ), 0] : EuclideanSpace ℝ (Fin 2))‖ = 1 := by rw [norm2]; norm_num
  rw [hn]
  simp only [RCLike.ofReal_one, inv_one, one_smul]
  rw [exN2_apply, inner2, smul2, sub2]
  norm_num

theorem exN2_w1_1 : w1 (𝕜 := ℝ) (Matrix.toEuclideanLin exN2) !₂[0, 1] = !₂[1, 0] := by
  unfold w1
  have hn : ‖(!₂[(0 : ℝ), 1] : EuclideanSpace ℝ (Fin 2))‖ = 1 := by rw [norm2]; norm_num
  rw [hn]
  simp only [RCLike.ofReal_one, inv_one, one_smul]
  rw [exN2_apply, inner2, smul2, sub2]
  norm_num

/-- both identity columns of `[[3,1],[2,2]]` run `2 = n` Arnoldi steps without clipping (`β₀ = 2` resp. `1`), cap `5`, `tol = 1/10` -/
theorem exN2_runs (i : Fin 2) :
    aSteps exN2 5 (1 / 10) (EuclideanSpace.single i (1 : ℝ)) = 2 ∧
    ∀ j, j + 1 < aSteps exN2 5 (1 / 10) (EuclideanSpace.single i (1 : ℝ)) →
      (1 / 10 : ℝ) / 2 ≤ (aCol exN2 5 (1 / 10) (EuclideanSpace.single i (1 : ℝ))).beta j := by
  have key : ∀ v : EuclideanSpace ℝ (Fin 2), v ≠ 0 →
      (1 / 10 : ℝ) / 2 ≤ ‖w1 (𝕜 := ℝ) (Matrix.toEuclideanLin exN2) v‖ →
      aSteps exN2 5 (1 / 10) v = 2 ∧
      ∀ j, j + 1 < aSteps exN2 5 (1 / 10) v → (1 / 10 : ℝ) / 2 ≤ (aCol exN2 5 (1 / 10) v).beta j := by
    intro v hv hw
    obtain ⟨h1, h2⟩ := two_step_full (Matrix.toEuclideanLin exN2) 5 (by norm_num) (1 / 10) (by norm_num)
      (by norm_num) v hv hw
    have hs : aSteps exN2 5 (1 / 10) v = 2 := h1
    refine ⟨hs, ?_⟩
    unfold aCol
    rw [hs]
    exact h2
  fin_cases i
  · apply key _ (single_ne_zero _)
    show _ ≤ ‖w1 (𝕜 := ℝ) (Matrix.toEuclideanLin exN2) (EuclideanSpace.single (0 : Fin 2) (1 : ℝ))‖
    rw [single2_0, exN2_w1_0, norm2]
    apply Real.le_sqrt_of_sq_le
    norm_num
  · apply key _ (single_ne_zero _)
    show _ ≤ ‖w1 (𝕜 := ℝ) (Matrix.toEuclideanLin exN2) (EuclideanSpace.single (1 : Fin 2) (1 : ℝ))‖
    rw [single2_1, exN2_w1_1, norm2]
    norm_num

end KrylovCompose

namespace Unary
open KrylovCompose Arnoldi

/-- the runs of `exN2_runs`, transported to any index type `Fin m` with `m = 2` (for `m = A.rows` of an operator) -/
theorem exN2_runs_transport (m : ℕ) (hm : m = 2) (Mx : Matrix (Fin m) (Fin m) ℝ)
    (hMx : ∀ a b, Mx a b = exN2 (Fin.cast hm a) (Fin.cast hm b)) (i : Fin m) :
    aSteps Mx 5 (1 / 10) (EuclideanSpace.single i (1 : ℝ)) = m ∧
    ∀ j, j + 1 < aSteps Mx 5 (1 / 10) (EuclideanSpace.single i (1 : ℝ)) →
      (1 / 10 : ℝ) / 2 ≤ (aCol Mx 5 (1 / 10) (EuclideanSpace.single i (1 : ℝ))).beta j := by
  subst hm
  have : Mx = exN2 := by
    ext a b
    simpa using hMx a b
  subst this
  exact exN2_runs i

/-- `A = [[3, 1], [2, 2]]` (non-symmetric) as a Dense operator over `ℝ` -/
noncomputable def exN : Op ℝ := .dense .f64 2 2 (fun i j => if i = 0 then (if j = 0 then 3 else 1) else 2)

/-- `V = [[1, 1], [1, -2]]`, `inv(V) = [[2/3, 1/3], [1/3, -1/3]]`, eigenvalues `4, 1` -/
noncomputable def exNEig : EigData ℝ :=
  ⟨fun i j => if i = 1 ∧ j = 1 then -2 else 1,
    fun i j => if i = 0 then (if j = 0 then 2 / 3 else 1 / 3) else (if j = 0 then 1 / 3 else -1 / 3),
    fun i => if i = 0 then 4 else 1⟩

theorem exN_rows : exN.rows = 2 := by simp [exN, Op.rows]

theorem exNEig_ok : EigOK (Set.Ioi (0 : ℝ)) false exN exNEig := by
  have hr := exN_rows
  refine ⟨by simp [exN, Op.rows, Op.cols], ?_, by simp, ?_, ?_⟩
  · rw [← MatF.toMatrix_mmul, ← MatF.toMatrix_eyeM]
    apply MatF.toMatrix_congr
    intro i j hi hj
    rw [hr] at hi hj ⊢
    interval_cases i <;> interval_cases j <;> simp [mmul, sumTo, exNEig, eyeM] <;> norm_num
  · have hd : Matrix.diagonal (fun i : Fin exN.rows => exNEig.d i.val)
        = MatF.toMatrix exN.rows exN.rows (diagM exNEig.d) := (toMatrix_diagM_unary _ _).symm
    rw [hd, ← MatF.toMatrix_mmul, ← MatF.toMatrix_mmul]
    apply MatF.toMatrix_congr
    intro i j hi hj
    rw [hr] at hi hj ⊢
    interval_cases i <;> interval_cases j <;> simp [mmul, sumTo, exNEig, exN, Op.den, diagM] <;> norm_num
  · intro i hi
    rw [hr] at hi
    interval_cases i <;> simp [exNEig]

theorem exN_mat (a b : Fin exN.rows) : mat exN a b = exN2 (Fin.cast exN_rows a) (Fin.cast exN_rows b) := by
  obtain ⟨a, ha⟩ := a
  obtain ⟨b, hb⟩ := b
  have ha' : a < 2 := exN_rows ▸ ha
  have hb' : b < 2 := exN_rows ▸ hb
  interval_cases a <;> interval_cases b <;> simp [mat, MatF.toMatrix_apply, exN, Op.den, exN2] <;> rfl

/-- an oracle whose Krylov operators are the Arnoldi MODEL (`arnoldiK`, cap `5`, `tol = 1/10`, `eigChoice` as `eig`) -/
noncomputable def exArnoldiOracle : EigOracle ℝ :=
  ⟨fun _ _ => exNEig, fun _ g A => arnoldiK eigChoice 5 (1 / 10) g A, fun _ _ => zeroM⟩

theorem exN_krylovOK (f : ℝ → ℝ) : KrylovOK (Set.Ioi 0) f exN (arnoldiK eigChoice 5 (1 / 10) f exN) :=
  krylovOK_of_arnoldi_full eigChoice eigChoice_contract _ f exN (by simp [exN, Op.rows, Op.cols])
    (exNEig_ok.matFun id).diagonalisable 5 (1 / 10) (by norm_num) (by rw [exN_rows]; norm_num)
    (fun i => (exN2_runs_transport _ exN_rows (mat exN) exN_mat i).1)
    (fun i => (exN2_runs_transport _ exN_rows (mat exN) exN_mat i).2)

/-- **`KrylovOK` is witnessed at an ARNOLDI node**: the plan of `apply_unary(f, Dense [[3,1],[2,2]], Arnoldi())` is the Arnoldi
base node and it is `SoundE` for every `f`, with the Krylov oracle the model run of C15 -/
theorem exN_arnoldi_soundE (f : ℝ → ℝ) :
    applyUnary f .arnoldi exN = .base .arnoldi f exN ∧
    (applyUnary f .arnoldi exN).SoundE exArnoldiOracle (Set.Ioi 0) f := by
  have hplan : applyUnary f .arnoldi exN = .base .arnoldi f exN := by
    simp [applyUnary, exN, applyGo, baseRule]
  refine ⟨hplan, ?_⟩
  rw [hplan]
  simp only [UnOp.SoundE, exArnoldiOracle]
  exact exN_krylovOK f

end Unary

namespace KrylovCompose
open Arnoldi

def exNV : Matrix (Fin 2) (Fin 2) ℝ := !![1, 1; 1, -2]
noncomputable def exNVi : Matrix (Fin 2) (Fin 2) ℝ := !![2/3, 1/3; 1/3, -1/3]
def exNd : Fin 2 → ℝ := ![4, 1]

theorem exNd_map (g : ℝ → ℝ) : (fun i => g (exNd i)) = ![g 4, g 1] := by
  funext i
  fin_cases i <;> simp [exNd]

theorem exNVi_mul : exNVi * exNV = 1 := by
  ext i j
  fin_cases i <;> fin_cases j <;> simp [exNVi, exNV, Matrix.mul_apply, Fin.sum_univ_two] <;> norm_num

theorem exN2_eq : exN2 = exNV * Matrix.diagonal exNd * exNVi := by
  unfold exNd
  rw [diag2]
  ext i j
  fin_cases i <;> fin_cases j <;>
    simp [exN2, exNVi, exNV, Matrix.mul_apply, Fin.sum_univ_two] <;> norm_num

theorem exN2_diagonalisable : DiagonalisableOn (Set.Ioi (0 : ℝ)) exN2 :=
  ⟨exNV, exNVi, exNd, exNVi_mul, fun i => by fin_cases i <;> simp [exNd], exN2_eq⟩

/-- **`C09_arnoldi_path` instantiated, closed statement, every `g`, every `eig` that meets the contract**: the model of
`ArnoldiUnary([[3,1],[2,2]], g) @ e₀` (cap `5 > n`, `tol = 1/10`) returns `g(A) e₀ = ((2 g 4 + g 1)/3, (2 g 4 - 2 g 1)/3)` -/
theorem arnoldi_exN2_closed (eig : EigS ℝ) (contract : EigContract eig) (g : ℝ → ℝ) :
    arnoldiUnaryVec eig exN2 5 (1 / 10) g (EuclideanSpace.single (0 : Fin 2) (1 : ℝ))
      = ![(2 * g 4 + g 1) / 3, (2 * g 4 - 2 * g 1) / 3] := by
  obtain ⟨hstop, hsmall⟩ := arnoldi_full exN2 5 (1 / 10) (by norm_num) _ (single_ne_zero (0 : Fin 2)) (by norm_num)
    (exN2_runs 0).1 (exN2_runs 0).2 exN2_diagonalisable
  rw [arnoldiUnaryVec_eq eig contract exN2 5 (1 / 10) (by norm_num) _ (single_ne_zero (0 : Fin 2))
    (exN2_runs 0).2 hstop hsmall exNVi_mul exN2_eq g]
  rw [exNd_map, diag2]
  funext i
  fin_cases i <;>
    simp [exNVi, exNV, Matrix.mul_apply, Matrix.mulVec, dotProduct, Fin.sum_univ_two] <;> ring

end KrylovCompose
