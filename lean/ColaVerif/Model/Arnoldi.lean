import ColaVerif.Model.NumOpsA

/-!
# Code model of `cola/linalg/decompositions/arnoldi.py`

`arnoldi` (non-Householder path) = `init_arnoldi` + `arnoldi_fact` + `while_loop_winfo`
(`cola/utils/torch_tqdm.py`), and `arnoldi_eigs`.  The model mirrors what the code **does**:

* buffers sized by the *requested* cap `M = max_iters`: `Q` has `M+1` columns, `H` is
  `(M+1) × M` (stored by columns, because the code writes whole columns `H[..., idx] = h_vec`);
* the loop is capped by `min(max_iters, n)`;
* modified Gram–Schmidt sweep `for jdx in range(0, idx+1)`, `norm`, the clipped normalisation
  `new_vec /= clip(norm, tol/2)`, `h_vec[idx+1] = norm`;
* stopping test `idx < cap & any((norm > tol * H[:,1,0].real) | (idx <= 0))`;
* batched start vectors = a list of per-start-vector buffers that all take the same number of
  steps: the only coupling between them is the `any` in the stopping test;
* `while_loop_winfo` bookkeeping: `iterations` = number of evaluations of the stopping test,
  `errors` = tracked value (`norm` of start vector 0) at every evaluation plus the final one,
  first two entries dropped;
* `arnoldi_eigs` hands `Q[:, :k]`, `H[:k, :k]`, `k` = executed steps, to `xnp.eig` (since the repair of
  defect (a); the old variant — the square part of the whole buffer — is `trim = false`).

Everything is generic over the law-free classes `Num α`, `VecOps α V`; the operator is its
matrix–vector product `A : V → V`.
-/

namespace Arnoldi

variable {α V : Type}

/-- `zeros(k)` of scalars -/
def zerosS [Num α] (k : Nat) : Array α := Array.replicate k Num.zero

/-- buffers of one start vector -/
structure Col (α V : Type) where
  /-- `Q[c, :, l]`, `l = 0..M` -/
  Q : Array V
  /-- `H[c, :, i]`, `i = 0..M-1`, each of length `M+1` -/
  H : Array (Array α)
  /-- the `norm` entry of the loop state -/
  norm : α
  /-- zero vector of the right length (`zeros_like(rhs)`), used for buffer initialisation and as
  the value of out-of-range reads -/
  z : V

namespace Col
variable [Num α]
/-- `Q[c, :, l]` -/
def q (c : Col α V) (l : Nat) : V := c.Q.getD l c.z
/-- `H[c, l, i]` -/
def h (c : Col α V) (l i : Nat) : α := (c.H.getD i #[]).getD l Num.zero
end Col

/-- loop state of `arnoldi_fact` plus the bookkeeping of `while_loop_winfo` -/
structure State (α V : Type) where
  cols : List (Col α V)
  idx : Nat
  /-- `info['errors']` before the final append and the `[2:]` -/
  errs : Array α
  /-- `info['iterations']` -/
  evals : Nat

section
variable [Num α] [VecOps α V]

/-- `init_arnoldi` for one start vector: `norm = ‖rhs‖`, `Q[..., 0] = rhs / norm`, rest zero -/
def initCol (M : Nat) (rhs : V) : Col α V :=
  let z := VecOps.zeroLike α rhs
  let nrm : α := VecOps.norm rhs
  { Q := (Array.replicate (M + 1) z).setIfInBounds 0 (VecOps.divs rhs nrm)
    H := Array.replicate M (zerosS (M + 1))
    norm := nrm
    z := z }

/-- the inner loop `for jdx in range(0, k)`: `angle = sum(conj(Q[jdx]) * new_vec)`,
`h_vec[jdx] = angle`, `new_vec -= h_vec[jdx] * Q[jdx]` (the value read back from `h_vec` is the
one just written) -/
def sweep (c : Col α V) : Nat → V × Array α → V × Array α
  | 0, r => r
  | k + 1, r =>
    let r' := sweep c k r
    let angle : α := VecOps.dotc (c.q k) r'.1
    (VecOps.sub α r'.1 (VecOps.smul angle (c.q k)), r'.2.setIfInBounds k angle)

/-- `body_fun` of `arnoldi_fact` for one start vector at loop index `idx` -/
def stepCol (A : V → V) (tol : α) (idx : Nat) (c : Col α V) : Col α V :=
  let w0 := A (c.q idx)
  let r := sweep c (idx + 1) (w0, zerosS c.Q.size)
  let nrm : α := VecOps.norm r.1
  let qnew := VecOps.divs r.1 (Num.max nrm (Num.div tol Num.two))
  let hvec := r.2.setIfInBounds (idx + 1) nrm
  { c with Q := c.Q.setIfInBounds (idx + 1) qnew
           H := c.H.setIfInBounds idx hvec
           norm := nrm }

/-- `is_large` for one start vector: `(norm > tol * H[c,1,0].real) | (idx <= 0)` -/
def isLarge (tol : α) (idx : Nat) (c : Col α V) : Bool :=
  Num.lt (Num.mul tol (Num.re (c.h 1 0))) c.norm || idx == 0

/-- `cond_fun` of `arnoldi_fact` -/
def cond (tol : α) (cap : Nat) (s : State α V) : Bool :=
  decide (s.idx < cap) && s.cols.any (isLarge tol s.idx)

/-- `body_fun` of `arnoldi_fact`: every start vector takes the step -/
def body (A : V → V) (tol : α) (s : State α V) : State α V :=
  { s with cols := s.cols.map (stepCol A tol s.idx), idx := s.idx + 1 }

/-- `errorfn = lambda s: s[-1][0]`: the `norm` of start vector 0 -/
def errOf (s : State α V) : α :=
  match s.cols with
  | [] => Num.zero
  | c :: _ => c.norm

/-- the `while` loop, with `newcond`'s bookkeeping.  Fuel `cap + 1` always suffices because the
stopping test contains `idx < cap` and every body evaluation increments `idx`. -/
def loop (A : V → V) (tol : α) (cap : Nat) : Nat → State α V → State α V
  | 0, s => s
  | f + 1, s =>
    let s := { s with errs := s.errs.push (errOf s), evals := s.evals + 1 }
    if cond tol cap s then loop A tol cap f (body A tol s) else s

/-- `arnoldi_fact` after `init_arnoldi`: `n` is `A.shape[0]`, `M` the requested `max_iters` -/
def run (A : V → V) (n M : Nat) (tol : α) (rhs : List V) : State α V :=
  let cap := min M n
  loop A tol cap (cap + 1) { cols := rhs.map (initCol M), idx := 0, errs := #[], evals := 0 }

/-- `info['errors']` as returned: final value appended, first two dropped -/
def infoErrors (s : State α V) : Array α := (s.errs.push (errOf s)).extract 2 (s.errs.size + 1)

/-! ### `arnoldi_eigs` -/

/-- Switch for (former) defect (a).  `true` mirrors /repo since commit 0459ce4 ("arnoldi_eigs uses only
the executed Arnoldi steps"): `k = info['iterations'] - 1; Q, H = Q[:, :k], H[:k, :k]` — the leading
block of the executed steps goes to `eig`.  `false` is the old behaviour (`Q, H = Q[:, :-1], H[:-1]`:
the square part of the whole zero-padded buffer, `max_iters` columns whatever the number of executed
steps), kept as a variant for the regression lemma `C15_untrimmed_eigs_spurious_zero`. -/
def trimPaddingInEigs : Bool := true  -- mirrors /repo: cola/linalg/decompositions/arnoldi.py `k = info['iterations'] - 1; Q, H = Q[:, :k], H[:k, :k]`

/-- number of rows/columns of the matrix given to `xnp.eig` -/
def eigsSize (trim : Bool) (M steps : Nat) : Nat := if trim then steps else M

/-- the dense matrix given to `xnp.eig` (array of rows) -/
def eigsMatrix (trim : Bool) (M steps : Nat) (c : Col α V) : Array (Array α) :=
  let k := eigsSize trim M steps
  Array.ofFn (n := k) fun r => Array.ofFn (n := k) fun i => c.h r.val i.val

/-- `Q[:, :k] @ vs`: column `j` is `Σ_l vs[l][j] * Q[:, l]` (`vs` as an array of rows) -/
def ritzVectors (k : Nat) (c : Col α V) (vs : Array (Array α)) : Array V :=
  Array.ofFn (n := k) fun j =>
    (List.range k).foldl (fun acc l => VecOps.add α acc (VecOps.smul ((vs.getD l #[]).getD j.val Num.zero) (c.q l))) c.z

/-- `arnoldi_eigs` for one start vector; `eig` is the backend's `xnp.eig` (a parameter: LAPACK) -/
def arnoldiEigs (eig : Array (Array α) → Array α × Array (Array α)) (trim : Bool)
    (A : V → V) (n M : Nat) (tol : α) (v : V) : Array α × Array V × State α V :=
  let s := run A n M tol [v]
  match s.cols with
  | [] => (#[], #[], s)
  | c :: _ =>
    let Hm := eigsMatrix trim M s.idx c
    let (ev, vs) := eig Hm
    (ev, ritzVectors (eigsSize trim M s.idx) c vs, s)

end

end Arnoldi
