import ColaVerif.Model.Expr
import Mathlib.Data.Rat.Floor

/-!
# Matrix functions (C09): the rule model of `cola/linalg/unary/unary.py`

`applyUnary f alg A`, `expRule`, `logRule`, `powRule`, `sqrtRule`, `isqrtRule` return a *plan*
(`UnOp`): how the operator cola returns is built.

* structural rules of `apply_unary` (class of the operand = `Op.core`): `Diagonal → Diagonal(f(diag))`,
  `BlockDiag → BlockDiag(recursive results, same multiplicities)`, `Identity → f(1) * A`,
  `ScalarMul → f(c) * I_like(A)`, `Transpose → Transpose(recursive)`, `Adjoint → Adjoint(recursive)`;
* base rules (everything else): `Auto` chooses `Eigh`/`Lanczos` when `A.isa(PSD)` and `Eig`/`Arnoldi`
  otherwise, the dense ones when `rows · cols ≤ 10⁶`; `Eigh` and `Lanczos` assert `A.isa(SelfAdjoint)`;
* `exp(KronSum) = Kronecker(exp of the members)`, `pow(Kronecker, α) = Kronecker(pow of the members)`;
* `pow`'s shortcuts as a pure decision function `powPlan` (`np.isclose(α, k := int(np.round(α)))`:
  `k = 0 → I_like(A)`, `0 < k < 10 → A @ … @ A`, `k = −1 → inv(A, mapped algorithm)`: `invAlgOf`);
  `sqrt = pow(·, 1/2)`, `isqrt = pow(·, −1/2)`.

The base cases and `inv` are *parameters* (`Params`): the plan names them, `UnOp.toOp` plugs in the
matrices an oracle supplies (LAPACK's `eigh`/`eig`, the Krylov factorisations, `inv` = C06), and the
theorems state the contracts under which they are right.  One level lower (`Lemmas/UnaryEig.lean`,
`EigOracle`): the oracle supplies only the eigendecomposition `V, d, Vi`, the matrix is BUILT as the code
builds it (`V @ Diagonal(f(d)) @ Vi`), and `UnOp.SoundE` states contracts only.

The Krylov operators (`LanczosUnary._matmat`, `ArnoldiUnary._matmat`, /repo 25c506e): `lanczos` / `arnoldi`
on the operand, buffers trimmed to the executed steps `k = max(iterations - 1, 1)`, `eigh(T[:k,:k])` resp.
`eig(H[:k,:k])`, weights `w = conj(P)[0, :] ‖v‖` resp. `solve(P, e₀) ‖v‖`, result
`Q P where(w == 0, 0, f(θ) * w)` (`_weighted`: a Ritz pair of zero weight is skipped whatever `f` is there).
Formal counterparts: `KrylovPoly.krylovVec` (the formula), `KrylovPoly.weighted` / `krylovW_end_to_end` (the
guard, with a partial `f`), `KrylovCompose.{lanczos,arnoldi}_unary_exact` (on the loop models of C14 / C15),
`Model/KrylovExact.lean` (executable, exact, for polynomial `f`).
-/

namespace Unary

/-- the class of the algorithm object passed to the call (parameters do not matter for the rule
selection) -/
inductive Alg | auto | eigh | eig | lanczos | arnoldi
deriving DecidableEq, Repr, Inhabited

/-- what `pow(·, −1, alg)` hands to `inv` -/
inductive InvAlg | auto | cholesky | lu | cg | gmres
deriving DecidableEq, Repr, Inhabited

inductive BaseKind | eigh | eig | lanczos | arnoldi
deriving DecidableEq, Repr, Inhabited

def Alg.toString : Alg → String
  | .auto => "auto" | .eigh => "eigh" | .eig => "eig" | .lanczos => "lanczos" | .arnoldi => "arnoldi"
def InvAlg.toString : InvAlg → String
  | .auto => "auto" | .cholesky => "cholesky" | .lu => "lu" | .cg => "cg" | .gmres => "gmres"
def BaseKind.toString : BaseKind → String
  | .eigh => "eigh" | .eig => "eig" | .lanczos => "lanczos" | .arnoldi => "arnoldi"

/-- the plan of the returned operator -/
inductive UnOp (R : Type) : Type where
  /-- `Diagonal(f(A.diag))` -/
  | diagF (dt : DType) (n : Nat) (f : R → R) (d : Nat → R)
  /-- `f(c) * I` (`ScalarMul` rule; `Identity` rule with `c = 1`): `Product[ScalarMul, Identity]` -/
  | scaledEye (dt : DType) (n : Nat) (f : R → R) (c : R)
  /-- `I_like(A)` (`pow`, `k = 0`) -/
  | eyeLike (A : Op R)
  /-- `A @ … @ A` with `k` members (`pow`, `0 < k < 10`); `B` = the operator `cola.fns.dot` builds -/
  | product (A : Op R) (k : Nat) (B : Op R)
  | bdiag (Us : List (UnOp R)) (mults : List Nat)
  | kron (Us : List (UnOp R))
  | transpose (U : UnOp R)
  | adjoint (U : UnOp R)
  /-- `inv(A, alg)` -/
  | inv (A : Op R) (alg : InvAlg)
  /-- a base case: `V f(D) Vᴴ`, `V f(D) V⁻¹`, `LanczosUnary(A, f)`, `ArnoldiUnary(A, f)` -/
  | base (k : BaseKind) (f : R → R) (A : Op R)
  /-- the call raises (class of the exception) -/
  | raise (e : String)

/-! ## `pow`'s integer shortcuts -/

inductive PowPlan
  | identity            -- k = 0: I_like(A)
  | product (k : Nat)   -- 0 < k < 10: A @ … @ A (k members)
  | inverse             -- k = −1
  | generic             -- apply_unary(x ↦ x ** α)
deriving DecidableEq, Repr, Inhabited

/-- `np.round` (round half to even) -/
def roundHalfEven (q : Rat) : Int :=
  let fl : Int := ⌊q⌋
  let r := q - fl
  if r < 1 / 2 then fl else if 1 / 2 < r then fl + 1 else if fl % 2 = 0 then fl else fl + 1

/-- `np.isclose(a, b)` with its default tolerances: `|a − b| ≤ 1e-8 + 1e-5 · |b|` -/
def isclose (a b : Rat) : Bool := decide (|a - b| ≤ 1 / 100000000 + 1 / 100000 * |b|)

def powPlan (α : Rat) : PowPlan :=
  let k := roundHalfEven α
  if isclose α k then
    if k = 0 then .identity
    else if 0 < k ∧ k < 10 then .product k.toNat
    else if k = -1 then .inverse
    else .generic
  else .generic

/-- the `match alg` of `pow`'s `k = −1` branch: `Lanczos → CG(tol, max_iters, pbar)`,
`Arnoldi → GMRES(tol, max_iters, pbar)`, `Eigh → Cholesky()`, `Eig → LU()`, anything else unchanged -/
def invAlgOf : Alg → InvAlg
  | .auto => .auto
  | .eigh => .cholesky
  | .eig => .lu
  | .lanczos => .cg
  | .arnoldi => .gmres

variable {R : Type} [CommRing R] [StarRing R] [DecidableEq R]

/-! ## base rules -/

/-- `np.prod(A.shape) <= 1e6` -/
def small (A : Op R) : Bool := A.rows * A.cols ≤ 1000000

/-- `assert A.isa(SelfAdjoint)` of the `Eigh` and `Lanczos` rules -/
def guardSA (k : BaseKind) (f : R → R) (A : Op R) : UnOp R :=
  if A.isa .selfAdjoint then .base k f A else .raise "error:AssertionError"

/-- the generic rules of `apply_unary` (precedence −1) -/
def baseRule (f : R → R) (alg : Alg) (A : Op R) : UnOp R :=
  match alg with
  | .auto =>
      if A.isa .psd then (if small A then guardSA .eigh f A else guardSA .lanczos f A)
      else (if small A then .base .eig f A else .base .arnoldi f A)
  | .eigh => guardSA .eigh f A
  | .eig => .base .eig f A
  | .lanczos => guardSA .lanczos f A
  | .arnoldi => .base .arnoldi f A

/-! ## `apply_unary` -/

/-- `go whole X`: `X` is `whole` with some declaration wrappers stripped (the class of the Python
object is the class of `whole.core`) -/
def applyGo (f : R → R) (alg : Alg) : Op R → Op R → UnOp R
  | whole, .annot _ A => applyGo f alg whole A
  | _, .diag dt n d => .diagF dt n f d
  | _, .bdiag Ms mults => .bdiag (Ms.map (fun M => applyGo f alg M M)) mults
  | _, .eye dt n => .scaledEye dt n f 1
  | _, .scalar dt c n => .scaledEye dt n f c
  | _, .transpose B => .transpose (applyGo f alg B B)
  | _, .adjoint B => .adjoint (applyGo f alg B B)
  | whole, _ => baseRule f alg whole
termination_by _ X => sizeOf X

/-- `cola.linalg.apply_unary(f, A, alg)` -/
def applyUnary (f : R → R) (alg : Alg) (A : Op R) : UnOp R := applyGo f alg A A

/-! ## `exp`, `log` -/

def expGo (e : R → R) (alg : Alg) : Op R → Op R → UnOp R
  | whole, .annot _ A => expGo e alg whole A
  | _, .kronsum Ms => .kron (Ms.map (fun M => expGo e alg M M))
  | whole, _ => applyUnary e alg whole
termination_by _ X => sizeOf X

/-- `cola.linalg.exp(A, alg)`; `e` = the scalar exponential -/
def expRule (e : R → R) (alg : Alg) (A : Op R) : UnOp R := expGo e alg A A

/-- `cola.linalg.log(A, alg)`; `l` = the scalar logarithm -/
def logRule (l : R → R) (alg : Alg) (A : Op R) : UnOp R := applyUnary l alg A

/-! ## `pow`, `sqrt`, `isqrt` -/

/-- `reduce(lambda x, y: x @ y, [A] * k)` through the rewriting rules of `cola.fns.dot` -/
def powProduct (A : Op R) : Nat → Except String (Op R)
  | 0 => .error "error:TypeError"      -- reduce of an empty list (not reachable: k > 0)
  | 1 => .ok A
  | k + 2 => do
      let P ← powProduct A (k + 1)
      match ← Ex.dotRule P A with
      | .op B => .ok B
      | .arr .. => .error "unsupported"

/-- the generic `pow` rule: the shortcuts, else `apply_unary(x ↦ x ** α)` -/
def powBase (pw : Rat → R → R) (α : Rat) (alg : Alg) (A : Op R) : UnOp R :=
  match powPlan α with
  | .identity => .eyeLike A
  | .product k =>
      match powProduct A k with
      | .ok B => .product A k B
      | .error e => .raise e
  | .inverse => .inv A (invAlgOf alg)
  | .generic => applyUnary (pw α) alg A

def powGo (pw : Rat → R → R) (α : Rat) (alg : Alg) : Op R → Op R → UnOp R
  | whole, .annot _ A => powGo pw α alg whole A
  | _, .kron Ms => .kron (Ms.map (fun M => powGo pw α alg M M))
  | whole, _ => powBase pw α alg whole
termination_by _ X => sizeOf X

/-- `cola.linalg.pow(A, α, alg)`; `pw α` = the scalar function `x ↦ x ** α` -/
def powRule (pw : Rat → R → R) (α : Rat) (alg : Alg) (A : Op R) : UnOp R := powGo pw α alg A A

def sqrtRule (pw : Rat → R → R) (alg : Alg) (A : Op R) : UnOp R := powRule pw (1 / 2) alg A
def isqrtRule (pw : Rat → R → R) (alg : Alg) (A : Op R) : UnOp R := powRule pw (-1 / 2) alg A

/-! ## from the plan to the operator -/

/-- the oracle: the matrix a base-case operator acts as, and the matrix of `inv(A, alg)` -/
structure Params (R : Type) where
  base : BaseKind → (R → R) → Op R → MatF R
  inv : Op R → InvAlg → MatF R

namespace UnOp

/-- no node of the plan raises -/
def ok : UnOp R → Bool
  | diagF .. => true
  | scaledEye .. => true
  | eyeLike .. => true
  | product .. => true
  | bdiag Us _ => (Us.map (·.ok)).all id
  | kron Us => (Us.map (·.ok)).all id
  | transpose U => U.ok
  | adjoint U => U.ok
  | inv .. => true
  | base .. => true
  | raise _ => false

/-- the exception class of the first raising node (`none` if the plan is executable) -/
def firstRaise : UnOp R → Option String
  | diagF .. => none
  | scaledEye .. => none
  | eyeLike .. => none
  | product .. => none
  | bdiag Us _ => (Us.map (·.firstRaise)).findSome? id
  | kron Us => (Us.map (·.firstRaise)).findSome? id
  | transpose U => U.firstRaise
  | adjoint U => U.firstRaise
  | inv .. => none
  | base .. => none
  | raise e => some e

/-- the returned operator, with the oracle's matrices at the base cases -/
def toOp (P : Params R) : UnOp R → Op R
  | diagF dt n f d => .diag dt n (fun i => f (d i))
  | scaledEye dt n f c => .prod [.scalar dt (f c) n, .eye dt n]
  | eyeLike A => .eye A.dtype A.rows
  | product _ _ B => B
  | bdiag Us mults => .bdiag (Us.map (·.toOp P)) mults
  | kron Us => .kron (Us.map (·.toOp P))
  | transpose U => .transpose (U.toOp P)
  | adjoint U => .adjoint (U.toOp P)
  | inv A alg => .dense A.dtype A.rows A.cols (P.inv A alg)
  | base k f A => .dense A.dtype A.rows A.cols (P.base k f A)
  | raise _ => .dense .f32 0 0 (fun _ _ => 0)

/-- does the plan contain a base case / an `inv` node (then its value needs the oracle)? -/
def needsOracle : UnOp R → Bool
  | diagF .. => false
  | scaledEye .. => false
  | eyeLike .. => false
  | product .. => false
  | bdiag Us _ => (Us.map (·.needsOracle)).any id
  | kron Us => (Us.map (·.needsOracle)).any id
  | transpose U => U.needsOracle
  | adjoint U => U.needsOracle
  | inv .. => true
  | base .. => true
  | raise _ => false

/-- the arguments the scalar function is applied to by the structural rules of the plan -/
def fArgs : UnOp R → List R
  | diagF _ n _ d => (List.range n).map d
  | scaledEye _ _ _ c => [c]
  | eyeLike .. => []
  | product .. => []
  | bdiag Us _ => (Us.map (·.fArgs)).flatten
  | kron Us => (Us.map (·.fArgs)).flatten
  | transpose U => U.fArgs
  | adjoint U => U.fArgs
  | inv .. => []
  | base .. => []
  | raise _ => []

/-! ## the clause `krylov-zero-column` as a decidable predicate on (plan, operand)

`Kronecker._matmat` reshapes the operand to `(n₁, …, n_k, cols)` and applies member `j` to the fibres along axis `j`, in the
order `j = 0, 1, …`.  A Krylov member (`LanczosUnary` / `ArnoldiUnary`) normalises every fibre it is handed: an exactly
zero fibre is `0 / 0`.  The predicate tracks which entries are CERTAINLY exactly zero: initially the exact zeros of the
operand; after a `Diagonal(f(d))` member an entry is zero if it was, or if `d` vanishes at its index (`f(0) = 0` for a
positive power; `f(0) * 0` is not finite for a negative one); after any other member exactly the entries of zero fibres. -/

/-- is this member a Krylov operator? -/
def isKrylovBase : UnOp R → Bool
  | base .lanczos _ _ => true
  | base .arnoldi _ _ => true
  | _ => false

/-- the diagonal a `Diagonal` member multiplies with vanishes at index `t` -/
def diagZeroAt : UnOp R → Nat → Option Bool
  | diagF _ _ _ d, t => some (d t = 0)
  | scaledEye _ _ _ c, _ => some (c = 0)     -- `f(c) * I`: entrywise, vanishing iff `c = 0` (powers)
  | eyeLike _, _ => some false               -- `I_like(A)`
  | _, _ => none

/-- **`krylov-zero-column`**: some Krylov member of the Kronecker plan `Us` (member sizes `sizes`) receives an exactly
zero fibre of the operand `X` (`N × ncols`, `N = ∏ sizes`) -/
def zeroFibreClause (Us : List (UnOp R)) (sizes : List Nat) (ncols : Nat) (X : Nat → Nat → R) : Bool := Id.run do
  let N := sizes.foldl (· * ·) 1
  let mut mask : Array Bool := Array.ofFn (n := N * ncols) fun i => X (i.val / ncols) (i.val % ncols) = 0
  let mut j := 0
  for U in Us do
    let nj := sizes.getD j 1
    let stride := (sizes.drop (j + 1)).foldl (· * ·) 1
    let fibreZero (m : Array Bool) (r c : Nat) : Bool :=
      (List.range nj).all fun t => m.getD ((r + t * stride) * ncols + c) false
    let old := mask
    let mut hit := false
    for r in [0:N] do
      if (r / stride) % nj == 0 then
        for c in [0:ncols] do
          let fz := fibreZero old r c
          if fz && U.isKrylovBase then hit := true
          for t in [0:nj] do
            let pos := (r + t * stride) * ncols + c
            let v := match U.diagZeroAt t with
              | some z => old.getD pos false || z
              | none => fz
            mask := mask.setIfInBounds pos v
    if hit then return true
    j := j + 1
  return false

end UnOp

end Unary
