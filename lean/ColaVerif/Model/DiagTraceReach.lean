import ColaVerif.Model.DiagTrace

/-!
# C08: where the model of `diag` / `trace` stops — the decidable input predicate `hutchReach`

`genericDiag` (Model/DiagTrace.lean) answers with the escape value `unmodelled:hutch` where the real
`diag(A: LinearOperator, k, alg: Auto)` leaves the exact algorithm: `tol < 1/sqrt(10·numel)` is false at
the default tolerance `1e-6`, i.e. the operator object handed to the generic rule has at least `10¹¹`
entries, and a stochastic Hutchinson estimate is returned.  `A.hutchReach` says, on the INPUT tree alone,
whether the rule recursion of `diag` / `trace` (Sum / BlockDiag / Kronecker / KronSum members, declaration
wrappers) can hand such an operator to the generic rule.  (It is a property of the nodes the recursion
reaches, not of the root's size: a block of multiplicity 0 or a factor next to a 0 × 0 factor may be
larger than the whole operator.)  `Lemmas/DiagTraceRefuse.lean` proves that where it is `false` — or
`alg = Exact()` — every refusal of the model is a predicted exception class, never an escape value.
-/

namespace Op
variable {R : Type}

/-- some operator object the rules of `diag` / `trace` hand to the generic `LinearOperator` rule has
`numel ≥ 10¹¹` (`Auto()` at the default tolerance then chooses Hutchinson) -/
def hutchReach : Op R → Bool
  | dense .. => false
  | tri .. => false
  | eye .. => false
  | diag .. => false
  | scalar .. => false
  | sum Ms => (Ms.map (·.hutchReach)).any id
  | kron Ms => (Ms.map (·.hutchReach)).any id
  | kronsum Ms => (Ms.map (·.hutchReach)).any id
  | bdiag Ms _ => (Ms.map (·.hutchReach)).any id
  | annot _ A => A.hutchReach
  | A => !autoExact 1 1000000 (A.rows * A.cols)

end Op
