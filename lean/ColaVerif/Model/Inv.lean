import ColaVerif.Model.Algebra

/-!
# `cola.linalg.inv` / `cola.linalg.solve` (C06): rule selection and the operators it builds

`invRule E alg A` mirrors the dispatch table of `cola/linalg/inverse/inv.py`:

* class-specific rules (Identity, ScalarMul, Permutation, Product — conditional on all factors
  being square —, BlockDiag, Kronecker, Diagonal, Triangular; precedence 0) win against the
  algorithm rules (`precedence=-1`); declaration wrappers (`cola.PSD(A)` …) do not change the class;
* otherwise the algorithm decides: `Auto(**d)` → the decision table `autoChoice d (A.isa PSD) (rows·cols)`
  (`Cholesky()` / `CG(**d)` / `LU()` / `GMRES(**d)`), `Cholesky` → `inv(L.H) @ inv(L)`,
  `LU` → `inv(U) @ inv(L) @ inv(P)`, `CG` / `GMRES` → `IterativeOperatorWInfo(A, alg)` with the
  algorithm OBJECT, i.e. its `tol` / `max_iters` (`Alg.cg o`, `Alg.gmres o`);
* the conditional rule `inv(A: LinearOperator, alg: Algorithm) if A.isa(Unitary) → Unitary(A.H)` is more
  general than every rule above, so the resolver only ever selects it for an algorithm object
  that has no rule of its own (`Alg.other`).

The dense factorisations (`xnp.cholesky`, `xnp.lu` = LAPACK), the iterative solvers and the
reciprocal of the scalar type are PARAMETERS (`Ext`); their contracts are hypotheses of the
theorems (`Lemmas/InvSound.lean`).  The library-internal result kinds (`TriangularInv`,
`IterativeOperatorWInfo`) and the composites built from them live in `InvOp`.
-/

namespace Inv

/-- the modelled entries of the `__dict__` of an `Auto(**kwargs)` object (`Auto` is an open
`SimpleNamespace`): the requested tolerance and iteration bound; `none` = the key is absent.
(`pbar`, `x0`, `P` are not modelled.) -/
structure Opts where
  tol : Option Rat := none
  maxIters : Option Nat := none
deriving DecidableEq, Repr, Inhabited

/-- the modelled fields of a `CG` / `GMRES` object (cg.py:29-30, gmres.py:29-30) -/
structure KOpts where
  tol : Rat
  maxIters : Nat
deriving DecidableEq, Repr, Inhabited

/-- the class defaults `tol = 1e-6`, `max_iters = 1000` -/
def KOpts.default : KOpts := ⟨mkRat 1 1000000, 1000⟩

/-- `CG(**d)` / `GMRES(**d)`: a keyword that is present overrides the class default -/
def KOpts.ofDict (d : Opts) : KOpts :=
  ⟨d.tol.getD KOpts.default.tol, d.maxIters.getD KOpts.default.maxIters⟩

/-- the algorithm argument of `inv` / `solve` WITH the options the object carries (`auto {}` also
models the omitted argument; `other` = an `Algorithm` object without an `inv` rule of its own;
`LU()` / `Cholesky()` have no fields) -/
inductive Alg | auto (d : Opts) | lu | chol | cg (o : KOpts) | gmres (o : KOpts) | other
deriving DecidableEq, Repr, Inhabited

def Alg.toString : Alg → String
  | .auto _ => "Auto" | .lu => "LU" | .chol => "Cholesky" | .cg _ => "CG" | .gmres _ => "GMRES"
  | .other => "Other"

/-- the tolerance / iteration bound an algorithm object hands to a Krylov solver: its own fields
for `CG` / `GMRES`; for `Auto(**d)` what `CG(**d)` / `GMRES(**d)` make of `d` -/
def Alg.requested : Alg → Option KOpts
  | .auto d => some (.ofDict d) | .cg o => some o | .gmres o => some o | _ => none

/-- the options of a solver object (`none` for the direct algorithms) -/
def Alg.kopts : Alg → Option KOpts
  | .cg o => some o | .gmres o => some o | _ => none

def Alg.isAuto : Alg → Bool | .auto _ => true | _ => false
def Alg.isCG : Alg → Bool | .cg _ => true | _ => false
def Alg.isGMRES : Alg → Bool | .gmres _ => true | _ => false

/-- the decision table of `inv(A, Auto(**d))`: `match (A.isa(PSD), bool(np.prod(A.shape) <= 1e6))`;
the large branches build `CG(**alg.__dict__)` / `GMRES(**alg.__dict__)` (inv.py:85, 89) -/
def autoChoice (d : Opts) (isPSD : Bool) (entries : Nat) : Alg :=
  match isPSD, decide (entries ≤ 1000000) with
  | true, true => .chol
  | true, false => .cg (.ofDict d)
  | false, true => .lu
  | false, false => .gmres (.ofDict d)

/-- which algorithm rule finally runs, with which options -/
def effAlg (alg : Alg) (isPSD : Bool) (entries : Nat) : Alg :=
  match alg with
  | .auto d => autoChoice d isPSD entries
  | .lu => .lu | .chol => .chol | .cg o => .cg o | .gmres o => .gmres o | .other => .other

variable {R : Type}

/-- external parameters: reciprocal of the scalar type, dense Cholesky (`n`, matrix ↦ `L`),
dense LU with partial pivoting (`n`, matrix ↦ `(p, L, U)` with `A = P L U`, `P = Permutation(p)`),
and the iterative solvers (`alg(A, X)` for an operand with `b` columns). -/
structure Ext (R : Type) where
  recip : R → R
  chol : Nat → MatF R → MatV R
  lu : Nat → MatF R → List Nat × MatV R × MatV R
  solve : Alg → Op R → Nat → MatF R → MatV R

/-! ## `solve_triangular` -/

section tri
variable [CommRing R]

/-- forward substitution for one right-hand side: the list `[x₀, …, x_{k-1}]` -/
def fwdList (recip : R → R) (a : MatF R) (rhs : Nat → R) : Nat → List R
  | 0 => []
  | k + 1 =>
    let xs := fwdList recip a rhs k
    xs ++ [(rhs k - sumTo k (fun j => a k j * xs.getD j 0)) * recip (a k k)]

/-- `solve_triangular(a, X, lower=True)` (reads the lower triangle of `a` only) -/
def solveLower (recip : R → R) (n : Nat) (a : MatF R) (b : Nat) (X : MatF R) : MatV R :=
  let cols : List (List R) := (List.range b).map (fun j => fwdList recip a (fun i => X i j) n)
  forceV n b (fun i j => (cols.getD j []).getD i 0)

/-- `solve_triangular(a, X, lower=False)`: back substitution = forward substitution on the
index-reversed system -/
def solveUpper (recip : R → R) (n : Nat) (a : MatF R) (b : Nat) (X : MatF R) : MatV R :=
  let Y := solveLower recip n (fun i j => a (n - 1 - i) (n - 1 - j)) b (fun i j => X (n - 1 - i) j)
  forceV n b (fun i j => Y.f (n - 1 - i) j)

def solvetri (recip : R → R) (n : Nat) (lower : Bool) (a : MatF R) (b : Nat) (X : MatF R) : MatV R :=
  if lower then solveLower recip n a b X else solveUpper recip n a b X

end tri

/-- `np.argsort(p)` of a permutation: position of `i` in `p` -/
def argsort (p : List Nat) : List Nat := (List.range p.length).map (fun i => p.idxOf i)

/-! ## product kernels with a forced factor action

`Kronecker._matmat` and `BlockDiag._matmat` (Model/Kernels.lean, Basic/Tensor.lean) call the
factor's product once per step.  The variants below were introduced when the kernels there
still took the action as a function `Nat → MatF R → MatF R` (which the compiler eta-expands:
the factor's product was re-evaluated for every entry read); `FacAct.act` is now `MatV`-valued
as well, and the two families are definitionally the same functions
(`kronMatmatV_eq`, `bdiagMatmatV_eq` in Lemmas/InvKernels.lean). -/

/-- a factor with a `MatV`-valued action -/
structure FacV (R : Type) where
  r : Nat
  c : Nat
  a : MatF R
  actV : Nat → MatF R → MatV R

def FacV.toAct (F : FacV R) : FacAct R := ⟨F.r, F.c, F.a, fun b m => F.actV b m⟩

def kronStepV [Zero R] (F : FacV R) (ev : Tensor R) (i : Nat) : Tensor R :=
  let front := moveToFront ev i
  let mat := toMat front
  let prod := F.actV front.shape.tail.prod mat
  forceT (moveFromFront (ofMat F.r front.shape.tail prod.f) i)

def kronLoopV [Zero R] : Nat → List (FacV R) → Tensor R → Tensor R
  | _, [], ev => ev
  | i, M :: Ms, ev => kronLoopV (i+1) Ms (kronStepV M ev i)

def kronMatmatV [Zero R] (Ms : List (FacV R)) (b : Nat) (v : MatF R) : MatV R :=
  MatV.of (reshapeOut (Ms.map (·.r)) (kronLoopV 0 Ms (reshapeIn (Ms.map (·.c)) b v)))

def bdiagBlockV (F : FacV R) (mult k off : Nat) (v : MatF R) : MatV R :=
  let sl := rowsFrom off v
  let a1 := transposeM (reshape2 (mult * F.c) F.c (transposeM sl))
  let elems := F.actV (k * mult) a1
  MatV.of (transposeM (reshape2 F.r (mult * F.r) (transposeM elems.f)))

def bdiagBlocksV (k : Nat) : Nat → List (FacV R × Nat) → MatF R → List (Nat × MatF R)
  | _, [], _ => []
  | off, (M, mult) :: rest, v =>
      (mult * M.r, (bdiagBlockV M mult k off v).f) :: bdiagBlocksV k (off + mult * M.c) rest v

def bdiagMatmatV [Zero R] (Ms : List (FacV R × Nat)) (k : Nat) (v : MatF R) : MatV R :=
  MatV.of (vstack (bdiagBlocksV k 0 Ms v))

/-! ## the operators `inv` returns -/

/-- result kinds of `inv`: an ordinary operator, `TriangularInv(T)` (payload of the Triangular
operator), `IterativeOperatorWInfo(A, alg)` (`alg` = the solver OBJECT, with its options), and `Product` /
`Kronecker` / `BlockDiag` of results -/
inductive InvOp (R : Type) : Type where
  | op (A : Op R)
  | triInv (dt : DType) (n : Nat) (lower : Bool) (a : MatF R)
  | iterInv (A : Op R) (alg : Alg)
  | prod (Ms : List (InvOp R))
  | kron (Ms : List (InvOp R))
  | bdiag (Ms : List (InvOp R)) (mults : List Nat)

namespace InvOp

def rows : InvOp R → Nat
  | op A => A.rows
  | triInv _ n _ _ => n
  | iterInv A _ => A.rows
  | prod Ms => (Ms.map (·.rows)).head?.getD 0
  | kron Ms => (Ms.map (·.rows)).prod
  | bdiag Ms mults => Op.dotSum (Ms.map (·.rows)) mults

def cols : InvOp R → Nat
  | op A => A.cols
  | triInv _ n _ _ => n
  | iterInv A _ => A.cols
  | prod Ms => (Ms.map (·.cols)).getLast?.getD 0
  | kron Ms => (Ms.map (·.cols)).prod
  | bdiag Ms mults => Op.dotSum (Ms.map (·.cols)) mults

def dtype : InvOp R → DType
  | op A => A.dtype
  | triInv dt _ _ _ => dt
  | iterInv A _ => A.dtype
  | prod Ms => (Ms.map (·.dtype)).foldl DType.promote .f32
  | kron Ms => (Ms.map (·.dtype)).foldl DType.promote .f32
  | bdiag Ms _ => (Ms.map (·.dtype)).foldl DType.promote .f32

def isScalarMul : InvOp R → Bool
  | op A => A.isScalarMul
  | _ => false

/-- the solver objects (`IterativeOperatorWInfo.alg`) inside the result, left to right -/
def solvers : InvOp R → List Alg
  | op _ => []
  | triInv .. => []
  | iterInv _ alg => [alg]
  | prod Ms => (Ms.map (·.solvers)).flatten
  | kron Ms => (Ms.map (·.solvers)).flatten
  | bdiag Ms _ => (Ms.map (·.solvers)).flatten

section anns
variable [DecidableEq R]

/-- the `annotations` attribute (`get_annotations` of annotations.py; `TriangularInv` and
`IterativeOperatorWInfo` have no rule → empty; a `Product` of inverse-rule results is never of
the Gram form `A.H @ A` because every member except an Identity is a fresh object) -/
def anns : InvOp R → AnnSet
  | op A => A.anns
  | triInv .. => []
  | iterInv .. => []
  | prod Ms =>
      let as := Ms.map (·.anns)
      let nc := (Ms.zip as).filter (fun p => !isScalarMul p.1)
      match nc with
      | [p] => p.2
      | _ => AnnSet.inter (AnnSet.interAll as) [.unitary, .stiefel]
  | kron Ms => AnnSet.interAll (Ms.map (·.anns))
  | bdiag Ms _ => AnnSet.interAll (Ms.map (·.anns))

def isa (B : InvOp R) (a : Ann) : Bool := AnnSet.isa B.anns a

/-- the recorded defect `scalar-times-annotated` (C05) inside the result: some `Product` node
multiplies exactly one annotated non-scalar member by `ScalarMul` members and inherits the
member's annotations whatever the scalar is (e.g. `inv(Product(I, c·I)) = Product(c⁻¹·I, I)`
reports PSD and Unitary) -/
def scalarTimesAnn : InvOp R → Bool
  | op A => A.scalarTimesAnn
  | triInv .. => false
  | iterInv .. => false
  | prod Ms =>
      (Ms.map (·.scalarTimesAnn)).any id ||
        ((Ms.map (fun M => (isScalarMul M, !M.anns.isEmpty))).any (·.1) &&
          (match (Ms.map (fun M => (isScalarMul M, !M.anns.isEmpty))).filter (fun p => !p.1) with
           | [p] => p.2
           | _ => false))
  | kron Ms => (Ms.map (·.scalarTimesAnn)).any id
  | bdiag Ms _ => (Ms.map (·.scalarTimesAnn)).any id

end anns

variable [CommRing R] [StarRing R] [DecidableEq R]

/-- the represented matrix.  For the two library-internal leaf kinds it is *defined* as what the
operator does to the identity (`TriangularInv`: the substitution; `IterativeOperatorWInfo`: the
solver) — that it is the inverse is the content of C06, not of this definition. -/
def den (E : Ext R) : InvOp R → MatV R
  | op A => A.den
  | triInv _ n lower a => solvetri E.recip n lower a n eyeM
  | iterInv A alg => E.solve alg A A.cols eyeM
  | prod Ms =>
      forceV ((Ms.map (·.rows)).head?.getD 0) ((Ms.map (·.cols)).getLast?.getD 0)
        ((Ms.map (fun M => (M.cols, (M.den E).f))).foldr (fun p acc => mmul p.1 p.2 acc) eyeM)
  | kron Ms =>
      forceV ((Ms.map (·.rows)).prod) ((Ms.map (·.cols)).prod)
        (kronDen (Ms.map (fun M => (⟨M.rows, M.cols, (M.den E).f, fun _ m => MatV.of m⟩ : FacAct R))))
  | bdiag Ms mults =>
      forceV (Op.dotSum (Ms.map (·.rows)) mults) (Op.dotSum (Ms.map (·.cols)) mults)
        (bdiagDen ((Ms.map (fun M => (⟨M.rows, M.cols, (M.den E).f, fun _ m => MatV.of m⟩ : FacAct R))).zip mults))

/-- `B._matmat(X)` for an operand with `b` columns -/
def mm (E : Ext R) : InvOp R → Nat → MatF R → MatV R
  | op A, b, X => A.mm b X
  | triInv _ n lower a, b, X => solvetri E.recip n lower a b X
  | iterInv A alg, b, X => E.solve alg A b X
  | prod Ms, b, X => Ms.foldr (fun M acc => M.mm E b acc.f) (MatV.of X)
  | kron Ms, b, X =>
      let r := kronMatmatV
        (Ms.map (fun M => (⟨M.rows, M.cols, (M.den E).f, fun b' m => M.mm E b' m⟩ : FacV R))) b X
      forceV ((Ms.map (·.rows)).prod) b r.f
  | bdiag Ms mults, b, X =>
      let r := bdiagMatmatV
        ((Ms.map (fun M => (⟨M.rows, M.cols, (M.den E).f, fun b' m => M.mm E b' m⟩ : FacV R))).zip mults) b X
      forceV (Op.dotSum (Ms.map (·.rows)) mults) b r.f

/-- the default `_rmatmat` of operator_base.py for an operator with product function `act` -/
def defaultRmm (sa : Bool) (r c : Nat) (actV : Nat → MatF R → MatV R) (b : Nat) (X : MatF R) : MatV R :=
  if sa then
    let Y := actV b (conjM (transposeM X))
    forceV b c (conjM (transposeM Y.f))
  else
    let AI := actV c eyeM
    forceV b c (transposeM (mmul r (transposeM AI.f) (transposeM X)))

/-- `B._rmatmat(X)` for an operand with `b` rows: explicit for `TriangularInv`
(`solvetri(A.T, X.T, lower=not lower).T`) and `Product`; the default for the rest -/
def rmm (E : Ext R) : InvOp R → Nat → MatF R → MatV R
  | op A, b, X => A.rmm b X
  | triInv _ n lower a, b, X =>
      let Y := solvetri E.recip n (!lower) (transposeM a) b (transposeM X)
      forceV b n (transposeM Y.f)
  | prod Ms, b, X => Ms.foldl (fun acc M => M.rmm E b acc.f) (MatV.of X)
  | iterInv A alg, b, X =>
      defaultRmm false A.rows A.cols (fun b' m => E.solve alg A b' m) b X
  | kron Ms, b, X =>
      defaultRmm ((kron Ms).isa .selfAdjoint) (kron Ms).rows (kron Ms).cols
        (fun b' m => (kron Ms).mm E b' m) b X
  | bdiag Ms mults, b, X =>
      defaultRmm ((bdiag Ms mults).isa .selfAdjoint) (bdiag Ms mults).rows (bdiag Ms mults).cols
        (fun b' m => (bdiag Ms mults).mm E b' m) b X

/-- the default `to_dense` of operator_base.py: `B @ I` (or `I @ B` for a wide operator) -/
def tdDefault (E : Ext R) (B : InvOp R) : MatV R :=
  if 8 * B.rows < B.cols then B.rmm E B.rows eyeM else B.mm E B.cols eyeM

/-- `B.to_dense()` (`Kronecker` / `BlockDiag` override it; the rest is the default) -/
def td (E : Ext R) : InvOp R → MatV R
  | op A => A.td
  | kron Ms =>
      match Ms.map (fun M => (⟨M.rows, M.cols, (M.td E).f, fun _ m => MatV.of m⟩ : FacAct R)) with
      | [] => MatV.of (eyeM)
      | F :: Fs => forceV ((F :: Fs).map (·.r)).prod ((F :: Fs).map (·.c)).prod (kronDense F.r F.c F.a Fs)
  | bdiag Ms mults =>
      forceV (Op.dotSum (Ms.map (·.rows)) mults) (Op.dotSum (Ms.map (·.cols)) mults)
        (bdiagDen ((Ms.map (fun M => (⟨M.rows, M.cols, (M.td E).f, fun _ m => MatV.of m⟩ : FacAct R))).zip mults))
  | triInv dt n lower a => tdDefault E (triInv dt n lower a)
  | iterInv A alg => tdDefault E (iterInv A alg)
  | prod Ms => tdDefault E (prod Ms)

/-- `B.T.to_dense()` for a library-internal / composite result: `cola.fns.transpose` returns `B`
itself when it reports `SelfAdjoint` and has a real dtype, else the lazy `Transpose(B)`, whose
product is `B._rmatmat(X.T).T` -/
def tdTDefault (E : Ext R) (B : InvOp R) : MatV R :=
  if B.isa .selfAdjoint && !B.dtype.isComplex then B.td E
  else forceV B.cols B.rows (transposeM (B.rmm E B.rows (transposeM eyeM)).f)

/-- `B.T.to_dense()` (for an ordinary operator the class rules of `cola.fns.transpose` apply) -/
def tdT (E : Ext R) : InvOp R → MatV R
  | op A => A.transposeRule.td
  | triInv dt n lower a => tdTDefault E (triInv dt n lower a)
  | iterInv A alg => tdTDefault E (iterInv A alg)
  | prod Ms => tdTDefault E (prod Ms)
  | kron Ms => tdTDefault E (kron Ms)
  | bdiag Ms mults => tdTDefault E (bdiag Ms mults)

end InvOp

/-! ## rule selection -/

variable [CommRing R] [StarRing R] [DecidableEq R]

/-- `[e₁, …] : List (Except)` → `Except (List)`, first error wins (Python evaluates the list
comprehension left to right) -/
def sequence {α : Type} : List (Except String α) → Except String (List α)
  | [] => .ok []
  | .ok a :: rest => (sequence rest).map (a :: ·)
  | .error e :: _ => .error e

def allSquare (Ms : List (Op R)) : Bool := (Ms.map (fun M => M.rows == M.cols)).all id

/-- the algorithm rules (`precedence=-1`), for an operator whose class has no rule of its own -/
def algRule (E : Ext R) (alg : Alg) (A : Op R) : Except String (InvOp R) :=
  match effAlg alg (A.isa .psd) (A.rows * A.cols) with
  | .gmres o => .ok (.iterInv A (.gmres o))
  | .cg o =>
      if A.isa .psd then .ok (.iterInv A (.cg o)) else .error "error:AssertionError"
  | .chol =>
      if A.isa .psd then
        -- L = Triangular(xnp.cholesky(A.to_dense()), lower=True);  inv(L.H) @ inv(L)
        let L := E.chol A.rows A.td.f
        .ok (.prod [.triInv A.dtype A.rows false (conjM (transposeM L.f)), .triInv A.dtype A.rows true L.f])
      else .error "error:AssertionError"
  | .lu =>
      -- p, L, U = xnp.lu(A.to_dense());  inv(U) @ inv(L) @ inv(Permutation(p))   (Permutation(p): float32)
      let plu := E.lu A.rows A.td.f
      .ok (.prod [.triInv A.dtype A.rows false plu.2.2.f, .triInv A.dtype A.rows true plu.2.1.f,
        .op (.perm .f32 (argsort plu.1))])
  | .other =>
      if A.isa .unitary then .ok (.op (.annot .unitary A.adjointRule)) else .error "not-found"
  | .auto _ => .error "unreachable"

/-- rule selection by the class of `cur` (`top` = the same operator with its declaration
wrappers: annotations are read from it and the Identity rule returns it) -/
def invAux (E : Ext R) (alg : Alg) (top : Op R) : Op R → Except String (InvOp R)
  | .annot _ A => invAux E alg top A
  | .eye _ _ => .ok (.op top)
  | .scalar dt s n => .ok (.op (.scalar dt (E.recip s) n))
  | .perm dt p => .ok (.op (.perm dt (argsort p)))
  | .prod Ms =>
      if allSquare Ms then
        (sequence (Ms.map (fun M => invAux E alg M M))).map (fun l => .prod l.reverse)
      else algRule E alg top
  | .bdiag Ms mults =>
      (sequence (Ms.map (fun M => invAux E alg M M))).map (fun l => .bdiag l mults)
  | .kron Ms => (sequence (Ms.map (fun M => invAux E alg M M))).map (fun l => .kron l)
  | .diag dt n d => .ok (.op (.diag dt n (fun i => E.recip (d i))))
  | .tri dt r _ lower a => .ok (.triInv dt r lower a)
  -- the classes without a rule of their own
  | .dense .. => algRule E alg top
  | .sparse .. => algRule E alg top
  | .sum _ => algRule E alg top
  | .kronsum _ => algRule E alg top
  | .tridiag .. => algRule E alg top
  | .transpose _ => algRule E alg top
  | .adjoint _ => algRule E alg top
  | .sliced .. => algRule E alg top
  | .concat .. => algRule E alg top
  | .house .. => algRule E alg top
  | .generic _ => algRule E alg top

/-- `cola.linalg.inv(A, alg)` -/
def invRule (E : Ext R) (alg : Alg) (A : Op R) : Except String (InvOp R) := invAux E alg A A

/-- `cola.linalg.solve(A, b, alg)` = `inv(A, alg) @ b` -/
def solveRule (E : Ext R) (alg : Alg) (A : Op R) (b : Nat) (X : MatF R) : Except String (MatV R) :=
  (invRule E alg A).map (fun B => B.mm E b X)

/-- does the class of the operator have an `inv` rule of its own that applies? -/
def hasStructRule (A : Op R) : Bool :=
  match A.core with
  | .eye .. => true | .scalar .. => true | .perm .. => true | .bdiag .. => true | .kron .. => true
  | .diag .. => true | .tri .. => true
  | .prod Ms => allSquare Ms
  | _ => false

/-- is the result computed by field operations only (no LAPACK factorisation, no iterative
solver)?  Used by the correspondence harness to decide where to compare exactly. -/
def InvOp.direct : InvOp R → Bool
  | .op _ => true
  | .triInv .. => true
  | .iterInv .. => false
  | .prod Ms => (Ms.map (·.direct)).all id
  | .kron Ms => (Ms.map (·.direct)).all id
  | .bdiag Ms _ => (Ms.map (·.direct)).all id

end Inv
