/-
  C19, dispatch level: "a call on a structured operator kind ends in a rule that works on the
  factors".

  For every dispatched function `f` of the linear-algebra family the generated module
  `Gen/StructuralRules.lean` (harness/translators/dump_structural.py, regenerated on every run)
  holds one `Entry`:

  * `table`, `impls`        — the live signature table (the same objects as `Gen/RuleTable.lean`);
  * `opPos`                 — position of the operator argument;
  * `structural`            — indices of the rules whose SOURCE (read by AST) is written for a
                              structured kind and touches the operator only through its factors
                              (`A.Ms`, `A.diag`, `A.c`, `A.multiplicities`, shape/dtype/xnp/device,
                              `I_like(A)`, or returns `A` itself): such a rule can densify a factor
                              but never the composite;
  * `fwds`                  — rules whose body hands the operator argument as a whole to another
                              dispatched function (`trace → diag`, `sqrt → pow`, `exp → apply_unary`,
                              `cholesky(Diagonal | ScalarMul) → sqrt`, …) together with the classes of
                              the forwarded arguments, also read off the AST;
  * everything else is a *generic* rule (dense fallback or iterative algorithm on the composite).

  `reach` follows the resolver model (`Dispatch.resolve`) through forwarding rules until a
  structural rule is selected; `expects` says that somewhere along every forwarding path the
  function has a rule written for the kind (`hasRuleFor`).  The property theorems
  (Properties/C19.lean) are `expects → reach` on every lattice tuple, by kernel evaluation.

  Core Lean only (no Mathlib).
-/
import ColaVerif.Model.Dispatch

namespace ColaVerif.Structural
open ColaVerif.Dispatch

/-- where one forwarded argument comes from -/
inductive Alt where
  /-- the `k`-th positional of the current call; when the current call was shorter (the rule was
      entered through a default-expanded signature) the class `dflt` of the declared default -/
  | param (k : Nat) (dflt : Nat)
  /-- an expression whose class is known statically (literal, `Auto()`, `lambda`, `xnp.exp`) -/
  | const (cls : Nat)
  /-- anything else: the forward is not followed (neither expected nor reached) -/
  | unknown
deriving Repr, DecidableEq

/-- a call `target(arg₀, arg₁, …)` in the body of rule `sig` that passes the operator argument as a
    whole; every argument is a list of alternatives (a local variable assigned in several branches) -/
structure Fwd where
  sig : Nat
  target : String
  args : List (List Alt)
deriving Repr

/-- where an argument of a call of a dispatched function inside a rule body comes from (read off the
    AST): the operator parameter as a whole, a MEMBER of it (an element of `A.Ms`, or `A.A`),
    `I_like(A)`, or an expression classified like the arguments of `Fwd` -/
inductive ArgSrc where
  | whole
  | member
  | ilike
  | alts (as : List Alt)
deriving Repr, DecidableEq

/-- the full per-rule structure the translator extracts (round 2; compared FIELD BY FIELD with the
    hand-written skeleton of Model/RuleSkeleton.lean by Lemmas/SkeletonTie.lean) -/
structure RuleShape where
  sig : Nat
  /-- 0 structural | 1 forwarder | 2 generic -/
  cls : Nat
  /-- what the body touches of the operator beyond shape / dtype / xnp / device / annotations:
      "Ms", "diag", "c", "multiplicities", "self" (returns the operator), "I_like", "scalarMul"
      (`scalar * A`), "lazyPower" (`product([A] * k)`), sorted -/
  touch : List String
  /-- every call of a function of the family in the body, with the source of each bound argument -/
  calls : List (String × List ArgSrc)
deriving Repr

structure Entry where
  name : String
  table : List Sig
  impls : List String
  opPos : Nat
  nconds : Nat
  structural : List Nat
  fwds : List Fwd

/-- one lattice element of C19: function × kind × algorithm presence, with the resolver-level tuple -/
structure Case where
  /-- class id of the operator argument -/
  kind : Nat
  /-- 0 = algorithm argument omitted, otherwise 1 + class id of the algorithm passed explicitly -/
  pres : Nat
  tup : Tup
deriving Repr

def lookup (fam : List Entry) (n : String) : Option Entry := fam.find? (·.name == n)

/-- the hint names structured kinds only (`S` = class ids of the structured kinds) -/
def hintStructured (S : List Nat) (h : Hint) : Bool := !h.isEmpty && h.all (S.contains ·)

/-- is signature `s` written for a structured kind (at the operator position)? -/
def isKindRule (S : List Nat) (opPos : Nat) (s : Sig) : Bool :=
  match s.tys[opPos]? with
  | some h => hintStructured S h
  | none => false

/-- `f` HAS A STRUCTURAL RULE for the kind of the operator argument of `t`: some registered
    signature is annotated with structured kinds only at the operator position, the operator
    argument is an instance of it, and its registration condition (if any) holds.  Arity and the
    algorithm argument are deliberately NOT looked at: a kind rule that is unreachable because
    the algorithm argument was omitted is exactly what the property excludes. -/
def hasRuleFor (H : Hier) (S : List Nat) (e : Entry) (t : Tup) : Bool :=
  match t.args[e.opPos]? with
  | none => false
  | some k => e.table.any fun s =>
      isKindRule S e.opPos s &&
      (match s.tys[e.opPos]? with | some h => isa (H.mask k) h | none => false) &&
      (match s.cond with | none => true | some i => t.conds.testBit i)

def Alt.eval (t : Tup) : Alt → Option Nat
  | .param k d => some (t.args.getD k d)
  | .const c => some c
  | .unknown => none

def optAll {α β : Type} (f : α → Option β) : List α → Option (List β)
  | [] => some []
  | x :: xs => match f x, optAll f xs with
    | some y, some ys => some (y :: ys)
    | _, _ => none

/-- cartesian product of the alternatives -/
def cart : List (List Nat) → List (List Nat)
  | [] => [[]]
  | alts :: rest => alts.flatMap fun a => (cart rest).map fun r => a :: r

/-- the argument-class tuples a forward can produce from the current tuple -/
def fwdTups (t : Tup) (fw : Fwd) : Option (List (List Nat)) :=
  (optAll (fun alts => optAll (Alt.eval t) alts) fw.args).map cart

/-- every forward of rule `i` (there must be one) satisfies `k` on every tuple it can produce and
    every truth value of the callee's conditions -/
def allFwds (fam : List Entry) (e : Entry) (i : Nat) (t : Tup) (k : String → Tup → Bool) : Bool :=
  let fs := e.fwds.filter (·.sig == i)
  !fs.isEmpty && fs.all fun fw =>
    match lookup fam fw.target, fwdTups t fw with
    | some g, some tups => tups.all fun as => (List.range (2 ^ g.nconds)).all fun c => k fw.target ⟨as, c⟩
    | _, _ => false

/-- the call `name(t)` ends, through forwarding rules only, in a structural rule -/
def reach (H : Hier) (fam : List Entry) : Nat → String → Tup → Bool
  | 0, _, _ => false
  | fuel + 1, n, t =>
    match lookup fam n with
    | none => false
    | some e =>
      match resolve H e.table t with
      | .unique i => e.structural.contains i || allFwds fam e i t (reach H fam fuel)
      | _ => false

/-- the call `name(t)` is one for which a structural rule exists: the function has a rule for the
    kind, or the selected rule forwards and every callee has -/
def expects (H : Hier) (S : List Nat) (fam : List Entry) : Nat → String → Tup → Bool
  | 0, _, _ => false
  | fuel + 1, n, t =>
    match lookup fam n with
    | none => false
    | some e =>
      hasRuleFor H S e t ||
      (match resolve H e.table t with
       | .unique i => allFwds fam e i t (expects H S fam fuel)
       | _ => false)

/-- the check on one lattice element -/
def okCase (H : Hier) (S : List Nat) (fam : List Entry) (fuel : Nat) (n : String) (t : Tup) : Bool :=
  !(expects H S fam fuel n t) || reach H fam fuel n t

/-- the selected rule is one written for a structured kind (never the `LinearOperator` base rule) -/
def selectsKindRule (H : Hier) (S : List Nat) (e : Entry) (t : Tup) : Bool :=
  match resolve H e.table t with
  | .unique i => (match e.table[i]? with | some s => isKindRule S e.opPos s | none => false)
  | _ => false

def directCase (H : Hier) (S : List Nat) (e : Entry) (t : Tup) : Bool :=
  !(hasRuleFor H S e t) || selectsKindRule H S e t

/-- some call of `name` on the kind `kindHint` with the algorithm argument omitted is expected and
    ends in a structural rule (used to compare the hand-written rule skeleton of
    Model/RuleSkeleton.lean with the generated classification) -/
def kindOK (H : Hier) (S : List Nat) (fam : List Entry) (fuel : Nat) (n : String) (cases : List Case)
    (kindHint : Nat) : Bool :=
  cases.any fun c => c.pres == 0 && H.sub c.kind kindHint &&
    expects H S fam fuel n c.tup && reach H fam fuel n c.tup

/-! ### reading the Boolean checks -/

theorem reach_succ_unique {H : Hier} {fam : List Entry} {fuel : Nat} {n : String} {t : Tup}
    (h : reach H fam (fuel + 1) n t = true) :
    ∃ e i, lookup fam n = some e ∧ resolve H e.table t = .unique i ∧
      (e.structural.contains i = true ∨ allFwds fam e i t (reach H fam fuel) = true) := by
  unfold reach at h
  split at h
  · cases h
  · rename_i e he
    split at h
    · rename_i i hi
      refine ⟨e, i, he, hi, ?_⟩
      simpa [Bool.or_eq_true] using h
    · cases h

/-- a reached call never raises a lookup error and never selects a generic rule: the selected
    rule is structural or a forwarder -/
theorem reach_selected {H : Hier} {fam : List Entry} {fuel : Nat} {n : String} {t : Tup}
    (h : reach H fam (fuel + 1) n t = true) :
    ∃ e i, lookup fam n = some e ∧ resolve H e.table t = .unique i ∧
      (i ∈ e.structural ∨ ∃ fw ∈ e.fwds, fw.sig = i) := by
  obtain ⟨e, i, he, hi, hor⟩ := reach_succ_unique h
  refine ⟨e, i, he, hi, ?_⟩
  rcases hor with hs | hf
  · exact Or.inl (by simpa using hs)
  · right
    unfold allFwds at hf
    simp only [Bool.and_eq_true, Bool.not_eq_true'] at hf
    have hne : e.fwds.filter (·.sig == i) ≠ [] := by
      intro hnil
      rw [hnil] at hf
      simp at hf
    obtain ⟨fw, hfw⟩ := List.exists_mem_of_ne_nil _ hne
    simp only [List.mem_filter, beq_iff_eq] at hfw
    exact ⟨fw, hfw.1, hfw.2⟩

end ColaVerif.Structural
