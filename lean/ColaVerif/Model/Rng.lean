/-!
# C17 — model of the random-number plumbing of the NumPy backend

The process-wide NumPy generator is ONE mutable cell: `World.globalState : S` (the type `S` of
generator states is abstract, as is the type `Z` of drawn arrays).  Everything cola does with
randomness goes through four primitives (`Prim`):

* `keyedNormal key shape`  — `np_fns.randn(*shape, key=key)`: `old = get_state(); seed(key);
  z = randn(*shape); set_state(old)`.  The body is modelled STATEMENT BY STATEMENT (`Step`,
  `randnRun`): the generated table `Gen/RngSites.lean` contains the statement list the AST scan
  found in `/repo`, and `Properties/C17.lean` proves that it is the list modelled here.
* `unkeyedNormalFallbackKey0 shape` — the same call without `key=`: `key = PRNGKey(0)` first.
* `globalDraw shape` — `np.random.randn(*shape)` and friends: reads AND advances the world.
* `localGenerator seed shape` — `np.random.default_rng(seed).normal(size=shape)`: an own generator
  object, the world is not involved.

`PRNGKey` / `next_key` are one abstract function `Gen.hash` (sha256 chain).

A routine is a program `Prog Z α` over these primitives (free monad: a draw followed by a
continuation that may do arbitrary PURE computation with the sample), with semantics
`Prog.run : Prog Z α → World S → α × World S`.
-/

namespace ColaVerif.Rng

/-! ## vocabulary of the generated table -/

/-- primitive kinds of a random-draw site -/
inductive PrimKind where
  | keyedNormal | unkeyedNormalFallbackKey0 | globalDraw | localGenerator
deriving DecidableEq, Repr, Inhabited

/-- where the key of a keyed draw (the seed of a local generator) comes from -/
inductive KeySrc where
  | param          -- the routine's `key` parameter (through PRNGKey / next_key / threaded loop state)
  | const          -- a literal (through PRNGKey / next_key)
  | paramOrConst   -- `PRNGKey(42) if key is None else key`
  | opaque         -- anything else (time, a global draw, an unseeded generator …)
deriving DecidableEq, Repr, Inhabited

inductive Scope where
  | library            -- reachable by a user of the NumPy backend
  | backendPrimitive   -- cola/backends/np_fns.py: the primitives themselves (modelled by `Step`)
  | otherBackend       -- jax_fns.py / torch_fns.py
  | testUtil           -- cola/utils/utils_for_tests.py
deriving DecidableEq, Repr, Inhabited

/-- one statement of `np_fns.randn` as the scanner abstracts it -/
inductive Step where
  | fallbackConst   -- `if key is None: (warn); key = PRNGKey(<literal>)`
  | saveState       -- `old_state = np.random.get_state()`
  | seedKey         -- `np.random.seed(key)`
  | draw            -- `z = np.random.randn(*shape).astype(dtype)`
  | restoreState    -- `np.random.set_state(old_state)`
  | «return»        -- `return z`
  | otherGlobal     -- any other statement that touches `np.random`
  | other           -- anything else
  | missing         -- `randn` not found
deriving DecidableEq, Repr, Inhabited

structure Site where
  label : String
  prim : PrimKind
  keySrc : KeySrc
  loc : String
  inLoop : Bool
  what : String
deriving Repr, Inhabited

structure Routine where
  name : String
  loc : String
  scope : Scope
  hasKeyParam : Bool
  sites : List Site
deriving Repr, Inhabited

/-! ## the world and the generator -/

/-- the process-wide NumPy random state -/
structure World (S : Type) where
  globalState : S

theorem World.ext' {S : Type} {a b : World S} (h : a.globalState = b.globalState) : a = b := by
  cases a; cases b; simp_all

/-- the (abstract) generator: what `np.random.seed`, `np.random.randn`, a local `default_rng(seed)`
and the sha256 chain compute -/
structure Gen (S Z : Type) where
  /-- `np.random.seed(key)`: the state afterwards depends on the key alone -/
  seed : Nat → S
  /-- `np.random.randn(*shape)`: sample and advanced state, both functions of the state before -/
  draw : S → List Nat → Z × S
  /-- `np.random.default_rng(seed).normal(size=shape)` -/
  localDraw : Nat → List Nat → Z
  /-- `sha_hash`: `PRNGKey(x) = hash x`, `next_key(k) = hash k` -/
  hash : Nat → Nat

variable {S Z : Type}

/-! ## `np_fns.randn`, statement by statement -/

/-- registers of one execution of `randn`: the argument `key` (`none` = not given), the local
variables `old_state` and `z` -/
structure Regs (S Z : Type) where
  key : Option Nat
  saved : Option S := none
  out : Option Z := none
  returned : Option Z := none

/-- effect of one statement on registers and world -/
def stepRun (G : Gen S Z) (shape : List Nat) : Step → Regs S Z × World S → Regs S Z × World S
  | .fallbackConst, (r, w) => ({ r with key := some (r.key.getD (G.hash 0)) }, w)
  | .saveState, (r, w) => ({ r with saved := some w.globalState }, w)
  | .seedKey, (r, _) => (r, ⟨G.seed (r.key.getD 0)⟩)
  | .draw, (r, w) => ({ r with out := some (G.draw w.globalState shape).1 }, ⟨(G.draw w.globalState shape).2⟩)
  | .restoreState, (r, w) => (r, ⟨r.saved.getD w.globalState⟩)
  | .return, (r, w) => ({ r with returned := r.out }, w)
  | .otherGlobal, x => x
  | .other, x => x
  | .missing, x => x

/-- run a statement list -/
def randnRun (G : Gen S Z) (shape : List Nat) (body : List Step) (key : Option Nat) (w : World S) :
    Option Z × World S :=
  let fin := body.foldl (fun st s => stepRun G shape s st) (({ key := key } : Regs S Z), w)
  (fin.1.returned, fin.2)

/-- the statement list of `np_fns.randn` this model is about (the generated table must equal it) -/
def canonicalRandnBody : List Step :=
  [.fallbackConst, .saveState, .seedKey, .draw, .restoreState, .return]

/-- `randn(*shape, key=key)`: the drawn array is `draw (seed key)`, the world is put back -/
def keyedNormal (G : Gen S Z) (key : Nat) (shape : List Nat) (w : World S) : Z × World S :=
  ((G.draw (G.seed key) shape).1, w)

/-- `randn(*shape)` -/
def unkeyedNormal (G : Gen S Z) (shape : List Nat) (w : World S) : Z × World S :=
  keyedNormal G (G.hash 0) shape w

/-- `np.random.randn(*shape)` -/
def globalDraw (G : Gen S Z) (shape : List Nat) (w : World S) : Z × World S :=
  ((G.draw w.globalState shape).1, ⟨(G.draw w.globalState shape).2⟩)

/-! ## programs -/

inductive Prim where
  | keyedNormal (key : Nat) (shape : List Nat)
  | unkeyedNormalFallbackKey0 (shape : List Nat)
  | globalDraw (shape : List Nat)
  | localGenerator (seed : Nat) (shape : List Nat)
deriving DecidableEq, Repr, Inhabited

def Prim.kind : Prim → PrimKind
  | .keyedNormal .. => .keyedNormal
  | .unkeyedNormalFallbackKey0 .. => .unkeyedNormalFallbackKey0
  | .globalDraw .. => .globalDraw
  | .localGenerator .. => .localGenerator

def Prim.run (G : Gen S Z) : Prim → World S → Z × World S
  | .keyedNormal key shape, w => Rng.keyedNormal G key shape w
  | .unkeyedNormalFallbackKey0 shape, w => Rng.unkeyedNormal G shape w
  | .globalDraw shape, w => Rng.globalDraw G shape w
  | .localGenerator seed shape, w => (G.localDraw seed shape, w)

/-- a routine: draws interleaved with pure computation (the continuations) -/
inductive Prog (Z : Type) (α : Type) where
  | ret : α → Prog Z α
  | draw : Prim → (Z → Prog Z α) → Prog Z α

namespace Prog

variable {α β : Type}

def bind : Prog Z α → (α → Prog Z β) → Prog Z β
  | .ret a, f => f a
  | .draw p k, f => .draw p (fun z => bind (k z) f)

instance : Monad (Prog Z) where
  pure := .ret
  bind := bind

/-- one primitive draw as a program -/
def prim (p : Prim) : Prog Z Z := .draw p .ret

def run (G : Gen S Z) : Prog Z α → World S → α × World S
  | .ret a, w => (a, w)
  | .draw p k, w => run G (k (p.run G w).1) (p.run G w).2

/-- the program performs no `globalDraw` on any path -/
inductive UsesOnlyKeyed : Prog Z α → Prop where
  | ret (a : α) : UsesOnlyKeyed (.ret a)
  | draw (p : Prim) (k : Z → Prog Z α) : p.kind ≠ .globalDraw → (∀ z, UsesOnlyKeyed (k z)) →
      UsesOnlyKeyed (.draw p k)

/-- every draw of the program is of one of the listed kinds -/
inductive Conforms (kinds : List PrimKind) : Prog Z α → Prop where
  | ret (a : α) : Conforms kinds (.ret a)
  | draw (p : Prim) (k : Z → Prog Z α) : p.kind ∈ kinds → (∀ z, Conforms kinds (k z)) →
      Conforms kinds (.draw p k)

end Prog

/-! ## from the generated table to programs -/

/-- a site is admissible: no global draw, and its key / seed has a known provenance -/
def Site.ok (s : Site) : Bool :=
  decide (s.prim ≠ .globalDraw) && decide (s.keySrc ≠ .opaque)

/-- a site honours the caller's key -/
def Site.keyHonoured (s : Site) : Bool :=
  decide (s.prim = .keyedNormal) && (decide (s.keySrc = .param) || decide (s.keySrc = .paramOrConst))

/-- the primitive a site performs when the routine is called with `key` (sites of opaque provenance
are modelled conservatively as global draws: their result is not a function of the key) -/
def Site.toPrim (hash : Nat → Nat) (key : Nat) (s : Site) : Prim :=
  if s.keySrc = .opaque then .globalDraw [] else
  match s.prim with
  | .keyedNormal => .keyedNormal (match s.keySrc with | .const => hash 42 | _ => key) []
  | .unkeyedNormalFallbackKey0 => .unkeyedNormalFallbackKey0 []
  | .globalDraw => .globalDraw []
  | .localGenerator => .localGenerator 42 []

/-- straight-line representative of a routine: every site once, in source order, returning all samples -/
def progOfSites (hash : Nat → Nat) (key : Nat) : List Site → Prog Z (List Z)
  | [] => .ret []
  | s :: rest => .draw (s.toPrim hash key) (fun z => Prog.bind (progOfSites hash key rest) (fun zs => .ret (z :: zs)))

def prog (hash : Nat → Nat) (key : Nat) (r : Routine) : Prog Z (List Z) := progOfSites hash key r.sites

/-- kinds a routine may draw with -/
def Routine.kinds (r : Routine) : List PrimKind :=
  r.sites.map (fun s => if s.keySrc = .opaque then .globalDraw else s.prim)

/-! ## the Hutchinson loop as a program

`while (i == 0) | ((i < max_iters) & (err(state) > tol)): key = next_key(key); z = randn(n, bs, key=key); …`
The running sums are pure functions of the probes drawn so far (`acc`); the stopping rule is an
arbitrary predicate `goOn i acc` (`err(state) > tol`).  `fuel` bounds the unrolling. -/

structure HState (Z : Type) where
  i : Nat
  key : Nat
  acc : List Z

/-- the loop condition of `hutchinson_diag_estimate` -/
def hutchCond (maxIters : Nat) (goOn : Nat → List Z → Bool) (s : HState Z) : Bool :=
  s.i == 0 || (decide (s.i < maxIters) && goOn s.i s.acc)

def hutchLoop (hash : Nat → Nat) (shape : List Nat) (maxIters : Nat) (goOn : Nat → List Z → Bool) :
    Nat → HState Z → Prog Z (HState Z)
  | 0, s => .ret s
  | fuel + 1, s =>
    if hutchCond maxIters goOn s then
      .draw (.keyedNormal (hash s.key) shape)
        (fun z => hutchLoop hash shape maxIters goOn fuel ⟨s.i + 1, hash s.key, z :: s.acc⟩)
    else .ret s

/-- `hutchinson_diag_estimate(..., key=key)`: `key = PRNGKey(42) if key is None else key`, then the loop -/
def hutchProg (hash : Nat → Nat) (shape : List Nat) (maxIters : Nat) (goOn : Nat → List Z → Bool)
    (key : Option Nat) : Prog Z (HState Z) :=
  hutchLoop hash shape maxIters goOn (max 1 maxIters + 1) ⟨0, key.getD (hash 42), []⟩

end ColaVerif.Rng
