import ColaVerif.Lemmas.LogDetRel
import ColaVerif.Lemmas.LogDetDet

/-!
# C07, singular inputs: what the rules of logdet.py return when the determinant is 0 (round 5, item viii)

The rules work with `(sign, logabs) = (z / |z|, log |z|)`.  In IEEE arithmetic a ZERO entry gives
`(0/0, log 0) = (nan, -inf)`; products of signs keep the `nan`, sums of logs keep the `-inf` (all other
logs are finite), natural powers `s ** k`, `l * k` with `k ≥ 1` keep both.  So the structural rules never
raise on a singular operator: they return `(nan, -inf)` — `logabs` is the correct `log |0|`, `sign` is
`nan` (NumPy's own `slogdet` returns `sign = 0` there).  `k = 0` (a BlockDiag multiplicity 0, a 0 × 0
ScalarMul) gives `nan ** 0 = 1`, `-inf * 0 = nan`: neither finite nor the singular pair.

This file is a THIRD instance of the rule model `slogdetG` (after `detOps` and `slOps`): `ieeeOps`, over the
three-valued outcome `IEEEOut`
* `fin`  — a finite pair (finite non-zero sign, finite logabs),
* `sing` — the pair `(nan, -inf)`,
* `junk` — anything else (some `nan` that is not the singular pair),
with the Krylov trace represented as in `detOps` by `exp` of it (`0` ↦ `junk`: the real Krylov path returns
`(nan, nan)` on a singular operator, observed, not compared).  Because it is an instance of the SAME recursion,
rule selection and error propagation are the code model's (`slogdetG_rel`).

Lemmas (property statements: `Properties/C07/Singular.lean`):
* `ieee_opsRel` — operation by operation `detOps` and `ieeeOps` are related by
  `SingRel d o := (o = sing → d = 0) ∧ (o = fin → d ≠ 0)` over a domain;
* `slogdetAt_structural` — on a tree that reaches no base case (`structuralOnly`: structural rules only, positive
  multiplicities, non-empty ScalarMul / Kronecker members) the result is `.ok o` with `o ≠ junk`, for ANY kernels.
-/

set_option linter.unusedSectionVars false

namespace Op

/-- abstraction of an IEEE `(sign, logabs)` pair -/
inductive IEEEOut | fin | sing | junk
deriving DecidableEq, Repr, Inhabited

namespace IEEEOut

/-- `(s * s', l + l')`: `nan` signs and `-inf` logs are absorbing among finite partners -/
def mul : IEEEOut → IEEEOut → IEEEOut
  | junk, _ => junk
  | _, junk => junk
  | sing, _ => sing
  | _, sing => sing
  | fin, fin => fin

/-- `(s ** k, l * k)`: `nan ** 0 = 1`, `-inf * 0 = nan` -/
def pow : IEEEOut → Nat → IEEEOut
  | fin, _ => fin
  | junk, _ => junk
  | sing, 0 => junk
  | sing, _ + 1 => sing

def toString : IEEEOut → String
  | fin => "fin" | sing => "sing" | junk => "junk"

end IEEEOut

/-- the IEEE outcome instance of the rule model -/
def ieeeOps {R : Type} [Zero R] [DecidableEq R] : SLOps R R IEEEOut where
  one := .fin
  entry := fun z => if z = 0 then .sing else .fin
  mul := IEEEOut.mul
  pow := IEEEOut.pow
  scalarPow := fun c n => IEEEOut.pow (if c = 0 then .sing else .fin) n
  parity := fun _ => .fin
  cholComb := id
  ofTrLog := fun d => if d = 0 then .junk else .fin

/-- `d` = the number the exact instance computes, `o` = the IEEE outcome -/
def SingRel {R : Type} [Zero R] (d : R) (o : IEEEOut) : Prop := (o = .sing → d = 0) ∧ (o = .fin → d ≠ 0)

section rel
variable {R : Type} [CommRing R] [StarRing R] [DecidableEq R] [IsDomain R]

theorem ieee_opsRel : OpsRel (detOps : SLOps R R R) (ieeeOps : SLOps R R IEEEOut) SingRel Eq where
  one := by simp [detOps, ieeeOps, SingRel]
  entry := fun z => by
    by_cases hz : z = 0 <;> simp [detOps, ieeeOps, SingRel, hz]
  mul := fun a o b p ⟨ha1, ha2⟩ ⟨hb1, hb2⟩ => by
    cases o <;> cases p <;> simp_all [detOps, ieeeOps, SingRel, IEEEOut.mul]
  pow := fun a o k ⟨h1, h2⟩ => by
    cases o <;> cases k <;> simp_all [detOps, ieeeOps, SingRel, IEEEOut.pow]
  scalarPow := fun c n => by
    by_cases hc : c = 0 <;> cases n <;> simp [detOps, ieeeOps, SingRel, IEEEOut.pow, hc]
  parity := fun b => by
    cases b <;> simp [detOps, ieeeOps, SingRel]
  cholComb := fun a o ⟨h1, h2⟩ => by
    cases o <;> simp_all [detOps, ieeeOps, SingRel]
  ofTrLog := fun t t' h => by
    subst h
    by_cases ht : t = 0 <;> simp [detOps, ieeeOps, SingRel, ht]

theorem exRel_eq_refl {α : Type} (x : Except String α) : ExRel Eq x x := by
  cases x <;> simp [ExRel]

theorem kernRel_refl (K : DetKernels R R) : KernRel K K Eq :=
  ⟨rfl, rfl, fun _ _ _ => exRel_eq_refl _⟩

/-- the exact instance and the IEEE instance walk the same rules, fail together, and succeed with `SingRel` -/
theorem ieee_rel (K : DetKernels R R) (la : LogAlg) (ta : TraceAlg) (A : Op R) :
    ExRel SingRel (claimedDet K la ta A) (slogdetG ieeeOps K la ta A) :=
  slogdetG_rel ieee_opsRel (kernRel_refl K) la ta A

end rel

/-! ## no base case is reached: the structural rules answer, and never with `junk` -/

section total
variable {R : Type} [CommRing R] [StarRing R] [DecidableEq R]

/-- only structural rules fire (Product of square factors, Identity, ScalarMul, Diagonal, Kronecker, BlockDiag,
Triangular, Permutation; declaration wrappers peeled), every multiplicity is positive, no ScalarMul is 0 × 0 and no
Kronecker member has 0 columns -/
def structuralOnly : Op R → Bool
  | annot _ A => A.structuralOnly
  | prod Ms => (Ms.map (fun M => M.rows == M.cols)).all id && (Ms.map (·.structuralOnly)).all id
  | eye _ _ => true
  | scalar _ _ n => n != 0
  | diag _ _ _ => true
  | kron Ms => (Ms.map (fun M => M.cols != 0)).all id && (Ms.map (·.structuralOnly)).all id
  | bdiag Ms mults => mults.all (· != 0) && (Ms.map (·.structuralOnly)).all id
  | tri _ _ _ _ _ => true
  | perm _ _ => true
  | _ => false

theorem IEEEOut.mul_ne_junk {a b : IEEEOut} (ha : a ≠ .junk) (hb : b ≠ .junk) : IEEEOut.mul a b ≠ .junk := by
  cases a <;> cases b <;> simp_all [IEEEOut.mul]

theorem IEEEOut.pow_ne_junk {a : IEEEOut} {k : Nat} (ha : a ≠ .junk) (hk : k ≠ 0) : IEEEOut.pow a k ≠ .junk := by
  cases a <;> cases k <;> simp_all [IEEEOut.pow]

theorem foldl_ne_junk : ∀ (vs : List IEEEOut) (a : IEEEOut), a ≠ .junk → (∀ v ∈ vs, v ≠ .junk) →
    vs.foldl IEEEOut.mul a ≠ .junk
  | [], _, ha, _ => ha
  | v :: vs, a, ha, h => by
    simp only [List.foldl_cons]
    exact foldl_ne_junk vs _ (IEEEOut.mul_ne_junk ha (h v List.mem_cons_self))
      (fun w hw => h w (List.mem_cons_of_mem _ hw))

theorem mulAll_ne_junk {vs : List IEEEOut} (h : ∀ v ∈ vs, v ≠ .junk) :
    (ieeeOps : SLOps R R IEEEOut).mulAll vs ≠ .junk := by
  unfold SLOps.mulAll
  exact foldl_ne_junk vs _ (by simp [ieeeOps]) h

theorem diagFold_ne_junk (n : Nat) (d : Nat → R) : (ieeeOps : SLOps R R IEEEOut).diagFold n d ≠ .junk := by
  unfold SLOps.diagFold
  apply mulAll_ne_junk
  intro v hv
  obtain ⟨i, _, rfl⟩ := List.mem_map.mp hv
  by_cases hz : d i = 0 <;> simp [ieeeOps, hz]

theorem zipWith_pow_ne_junk (e : Nat → Nat) : ∀ (vs : List IEEEOut) (ss : List Nat),
    (∀ v ∈ vs, v ≠ .junk) → (∀ s ∈ ss, e s ≠ 0) →
    ∀ x ∈ List.zipWith (fun v s => (ieeeOps : SLOps R R IEEEOut).pow v (e s)) vs ss, x ≠ .junk
  | [], _, _, _ => by simp
  | _ :: _, [], _, _ => by simp
  | v :: vs, s :: ss, hv, hs => by
    intro x hx
    simp only [List.zipWith_cons_cons, List.mem_cons] at hx
    rcases hx with rfl | hx
    · exact IEEEOut.pow_ne_junk (hv v List.mem_cons_self) (hs s List.mem_cons_self)
    · exact zipWith_pow_ne_junk e vs ss (fun w hw => hv w (List.mem_cons_of_mem _ hw))
        (fun t ht => hs t (List.mem_cons_of_mem _ ht)) x hx

theorem allOk_of_forall {α V : Type} (P : V → Prop) : ∀ (L : List α) (f : α → Except String V),
    (∀ x ∈ L, ∃ v, f x = .ok v ∧ P v) → ∃ vs, allOk (L.map f) = .ok vs ∧ ∀ v ∈ vs, P v
  | [], _, _ => ⟨[], by simp [allOk], by simp⟩
  | x :: L, f, h => by
    obtain ⟨v, hv, hP⟩ := h x List.mem_cons_self
    obtain ⟨vs, hvs, hPs⟩ := allOk_of_forall P L f (fun y hy => h y (List.mem_cons_of_mem _ hy))
    refine ⟨v :: vs, ?_, ?_⟩
    · simp [allOk, hv, hvs, Except.map]
    · intro w hw
      rcases List.mem_cons.mp hw with rfl | hw
      · exact hP
      · exact hPs w hw

theorem div_ne_zero_of_mem {l : List Nat} (hl : ∀ s ∈ l, s ≠ 0) {s : Nat} (hs : s ∈ l) : l.prod / s ≠ 0 := by
  have hpos : 0 < l.prod := List.prod_pos (fun a ha => Nat.pos_of_ne_zero (hl a ha))
  have hle : s ≤ l.prod := Nat.le_of_dvd hpos (List.dvd_prod hs)
  exact Nat.ne_of_gt (Nat.div_pos hle (Nat.pos_of_ne_zero (hl s hs)))

/-- a tree on which only structural rules fire is answered (no exception, whatever the kernels) by a finite pair or by
the singular pair `(nan, -inf)` -/
theorem slogdetAt_structural (K : DetKernels R R) (la : LogAlg) (ta : TraceAlg) : ∀ (X top : Op R),
    X.structuralOnly = true → ∃ o, slogdetAt ieeeOps K la ta top X = .ok o ∧ o ≠ .junk
  | annot a A, top, h => by
    rw [slogdetAt]
    simp only [structuralOnly] at h
    exact slogdetAt_structural K la ta A top h
  | prod Ms, top, h => by
    simp only [structuralOnly, Bool.and_eq_true] at h
    rw [slogdetAt, if_pos h.1]
    obtain ⟨vs, hvs, hP⟩ := allOk_of_forall (· ≠ IEEEOut.junk) Ms (fun M => slogdetAt ieeeOps K la ta M M)
      (fun M hM => slogdetAt_structural K la ta M M (all_members h.2 M hM))
    exact ⟨_, by rw [hvs]; rfl, mulAll_ne_junk hP⟩
  | kron Ms, top, h => by
    simp only [structuralOnly, Bool.and_eq_true] at h
    rw [slogdetAt]
    obtain ⟨vs, hvs, hP⟩ := allOk_of_forall (· ≠ IEEEOut.junk) Ms (fun M => slogdetAt ieeeOps K la ta M M)
      (fun M hM => slogdetAt_structural K la ta M M (all_members h.2 M hM))
    have hnz : ∀ s ∈ Ms.map (·.cols), s ≠ 0 := by
      intro s hs
      obtain ⟨M, hM, rfl⟩ := List.mem_map.mp hs
      simpa using all_members h.1 M hM
    have hno : (Ms.map (fun M => M.cols == 0)).any id = false := by
      rw [Bool.eq_false_iff]
      intro hany
      simp only [List.any_map, List.any_eq_true, Function.comp_apply, id_eq, beq_iff_eq] at hany
      obtain ⟨M, hM, h0⟩ := hany
      exact hnz _ (List.mem_map_of_mem hM) h0
    rw [hvs]
    simp only [hno, Bool.false_eq_true, if_false]
    refine ⟨_, rfl, mulAll_ne_junk ?_⟩
    exact zipWith_pow_ne_junk (fun s => (Ms.map (·.cols)).prod / s) vs _ hP
      (fun s hs => div_ne_zero_of_mem hnz hs)
  | bdiag Ms mults, top, h => by
    simp only [structuralOnly, Bool.and_eq_true] at h
    rw [slogdetAt]
    obtain ⟨vs, hvs, hP⟩ := allOk_of_forall (· ≠ IEEEOut.junk) Ms (fun M => slogdetAt ieeeOps K la ta M M)
      (fun M hM => slogdetAt_structural K la ta M M (all_members h.2 M hM))
    rw [hvs]
    refine ⟨_, rfl, mulAll_ne_junk ?_⟩
    have hm : ∀ s ∈ mults, id s ≠ 0 := by
      intro s hs
      have := List.all_eq_true.mp h.1 s hs
      simpa using this
    exact zipWith_pow_ne_junk id vs mults hP hm
  | eye dt n, top, _ => by rw [slogdetAt]; exact ⟨_, rfl, by simp [ieeeOps]⟩
  | scalar dt c n, top, h => by
    rw [slogdetAt]
    simp only [structuralOnly, bne_iff_ne] at h
    refine ⟨_, rfl, ?_⟩
    by_cases hc : c = 0 <;> simp only [ieeeOps, hc, if_true, if_false] <;>
      exact IEEEOut.pow_ne_junk (by simp) h
  | diag dt n d, top, _ => by rw [slogdetAt]; exact ⟨_, rfl, diagFold_ne_junk n d⟩
  | tri dt r c l a, top, _ => by rw [slogdetAt]; exact ⟨_, rfl, diagFold_ne_junk _ _⟩
  | perm dt p, top, _ => by rw [slogdetAt]; exact ⟨_, rfl, by simp [ieeeOps]⟩
  | dense dt r c a, top, h => by simp [structuralOnly] at h
  | sparse dt r c e, top, h => by simp [structuralOnly] at h
  | sum Ms, top, h => by simp [structuralOnly] at h
  | kronsum Ms, top, h => by simp [structuralOnly] at h
  | tridiag dt n al be ga, top, h => by simp [structuralOnly] at h
  | transpose A, top, h => by simp [structuralOnly] at h
  | adjoint A, top, h => by simp [structuralOnly] at h
  | sliced A s0 s1, top, h => by simp [structuralOnly] at h
  | concat ax Ms, top, h => by simp [structuralOnly] at h
  | house dt n v beta, top, h => by simp [structuralOnly] at h
  | generic A, top, h => by simp [structuralOnly] at h
termination_by X => sizeOf X

end total

end Op
