import ColaVerif.Model.Matmat
import ColaVerif.Model.Dtype

/-!
# The dtype part of the code model of `A @ X` and `X @ A`

`Op.mmDt A x` / `Op.rmmDt A x` — the dtype of the array `A._matmat(X)` / `A._rmatmat(X)` returns
for an operand of dtype `x`, computed by recursion over the tree from what each class of
`cola/ops/operators.py` DOES with dtypes (casts, buffers it allocates, NumPy binary operations,
concatenations, in-place accumulation), in the same case structure as the value model
`Op.mm` / `Op.rmm` of `Model/Matmat.lean`.  Nothing here mentions `A.dtype` except where the
Python reads `self.dtype` (Dense, Identity, Permutation, KronSum, Sliced).

The places where the Python used to return a different dtype (and the tree then disagreed with
`promote_types(self.dtype, X.dtype)`): `Identity._matmat` returned `X` unchanged and
`Permutation._matmat` returned `v[perm]` (/repo af6a04b), `Sliced` allocated its scatter buffer in
`X.dtype` (/repo 8df0c99), `KronSum` accumulated into `0 * ev` of `v.dtype` (/repo 921f4c4), `Sum`
took the dtype of its first term (/repo 6113092).

`Lemmas/OpMatmatDtype.lean` proves `A.mmDt x = A.rmmDt x = promote A.dtype x` for every tree the
constructors accept (`A.wf`); with `Op.dtype_eq_dtypeSpec` that is the join of the leaf dtypes and
the operand's dtype.
-/

namespace DType

/-- dtype of a NumPy binary operation (`@`, `*`, `+`, `-`) of two ARRAYS (`numpy.result_type`;
a 0-d array counts as an array under NumPy ≥ 2) -/
def npBin (a b : DType) : DType := promote a b

/-- `X if X.dtype == dt else xnp.cast(X, dt)` -/
def castTo (x dt : DType) : DType := if x = dt then x else dt

/-- dtype of `xnp.concat([…])` and of Python's `sum(…)` / `out = 0; out = out + …` over a non-empty
list of arrays (the Python integer `0` is weakly typed: neutral for promotion) -/
def npJoin (l : List DType) : DType := l.foldl promote .f32

end DType

namespace Op
variable {R : Type} [CommRing R] [StarRing R] [DecidableEq R]

open DType in
mutual
/-- dtype of `A._matmat(X)` for `X.dtype = x` -/
def mmDt : Op R → DType → DType
  -- Dense: `dtype = promote_types(self.dtype, X.dtype); cast(self.A, dtype) @ cast(X, dtype)`
  | dense dt _ _ _, x => npBin (promote dt x) (promote dt x)
  | tri dt _ _ _ _, x => npBin (promote dt x) (promote dt x)
  -- Sparse: `self.A @ V` (scipy CSR product)
  | sparse dt _ _ _, x => npBin dt x
  -- ScalarMul: `self.c * v`, `self.c` a 0-d array of the operator's dtype
  | scalar dt _ _, x => npBin dt x
  -- Identity: `X if X.dtype == dtype else cast(X, dtype)`, `dtype = promote_types(self.dtype, X.dtype)`
  | eye dt _, x => castTo x (promote dt x)
  -- Product: `for M in self.Ms[::-1]: v = M @ v`
  | prod Ms, x => Ms.foldr (fun M acc => M.mmDt acc) x
  -- Sum: `sum(M @ v for M in self.Ms)`
  | sum Ms, x => npJoin (Ms.map (fun M => M.mmDt x))
  -- Kronecker: `ev = v.reshape(…)`, then for each factor in order `ev = moveaxis(M @ ev_front…)`
  | kron Ms, x => Ms.foldl (fun acc M => M.mmDt acc) x
  -- KronSum: `dtype = promote_types(self.dtype, v.dtype); ev = cast(v, dtype); out = 0 * ev;
  -- out += …` — the in-place additions keep the accumulator's dtype
  | kronsum Ms, x => npBin (promote ((Ms.map (·.dtype)).foldl promote .f32) x) (promote ((Ms.map (·.dtype)).foldl promote .f32) x)
  -- BlockDiag: `y.append(M @ v[i:i_end]…)` over `zip(self.Ms, self.multiplicities)`, `concat(y)`
  | bdiag Ms mults, x => npJoin (((Ms.map (fun M => M.mmDt x)).zip mults).map (·.1))
  -- Diagonal: `self.diag[:, None] * X`
  | diag dt _ _, x => npBin dt x
  -- Tridiagonal: `output = beta * X`; `aux_gamma = concat([gamma * X[1:], zeros(X.dtype)])`;
  -- `aux_alpha = concat([zeros(X.dtype), alpha * X[:-1]])`; `output + aux_alpha + aux_gamma`
  | tridiag dt _ _ _ _, x =>
      npBin (npBin (npBin dt x) (npJoin [x, npBin dt x])) (npJoin [npBin dt x, x])
  -- Transpose: `self.A._rmatmat(x.T).T`; Adjoint: `conj(self.A._rmatmat(conj(x).T)).T`
  | transpose A, x => A.rmmDt x
  | adjoint A, x => A.rmmDt x
  -- Sliced: `Y = zeros(dtype=promote_types(self.dtype, X.dtype)); Y[idx] = X; (self.A @ Y)[idx]`
  | sliced A _ _, x => A.mmDt (promote A.dtype x)
  -- Permutation: `out = v[self.perm]; out if out.dtype == dtype else cast(out, dtype)`
  | perm dt _, x => castTo x (promote dt x)
  -- Concatenated: axis 0 `concat([M @ V …])`; axis 1 `out = 0; out = out + M @ V[rows]`
  | concat _ Ms, x => npJoin (Ms.map (fun M => M.mmDt x))
  -- Householder: `angle = sum(X * conj(vec))`; `X - beta * angle * vec` (beta has the dtype of vec)
  | house dt _ _ _, x => npBin x (npBin (npBin dt (npBin x dt)) dt)
  -- `no_dispatch(A)` = `LinearOperator(…, matmat=A._matmat)`; declarations keep the object's class
  | generic A, x => A.mmDt x
  | annot _ A, x => A.mmDt x
termination_by A => (sizeOf A, 0)

/-- dtype of `A._rmatmat(X)` for `X.dtype = x`.  Default of `operator_base.py`: for a
SelfAdjoint-reporting operator `conj(self._matmat(conj(X.T)).T)`; else the shim's
`linear_transpose`: `dt = promote_types(primals.dtype, duals.dtype)` (both `X.dtype`),
`M = self._matmat(eye(d, dtype=dt))`, `M.T @ duals`. -/
def rmmDt : Op R → DType → DType
  | dense dt _ _ _, x => npBin (promote dt x) (promote dt x)
  | tri dt _ _ _ _, x => npBin (promote dt x) (promote dt x)
  -- Sparse: `(self.T @ V.T).T`, `self.T` the Sparse operator of the swapped coordinates
  | sparse dt _ _ _, x => npBin dt x
  -- Product: `for M in self.Ms: v = v @ M`
  | prod Ms, x => Ms.foldl (fun acc M => M.rmmDt acc) x
  | sum Ms, x => npJoin (Ms.map (fun M => M.rmmDt x))
  | diag dt _ _, x => npBin dt x
  | transpose A, x => A.mmDt x
  | adjoint A, x => A.mmDt x
  | sliced A _ _, x => A.rmmDt (promote A.dtype x)
  | annot a A, x =>
      if A.hasExplicitRmm then A.rmmDt x
      else if (annot a A).isa .selfAdjoint then A.mmDt x
      else npBin (A.mmDt (promote x x)) x
  | A, x =>
      if A.isa .selfAdjoint then A.mmDt x
      else npBin (A.mmDt (promote x x)) x
termination_by A => (sizeOf A, 1)
end

end Op
