import ColaVerif.Basic.Mat

/-!
# `cola.ops.FFT` (cola/ops/operators.py): the unitary discrete Fourier transform

```
class FFT(LinearOperator):
    def __init__(self, n, dtype=None):
        super().__init__(shape=(n, n), dtype=dtype, annotations={cola.Unitary})
    def _matmat(self, X):   return self.xnp.fft(X, axis=0, norm='ortho')
    def _rmatmat(self, X):  return self.xnp.ifft(X.conj(), axis=1, norm='ortho').conj()
```
A stand-alone kernel like `Kernel` (Model/KernelOp.lean), not an `Op` constructor: the entries of
the represented matrix are not rational.  The model is therefore written over an abstract
commutative ring `K` with star and two parameters

* `ω` — the root of unity `np.fft.fft` uses, `ω = e^{-2πi/n}` (the FORWARD transform has the minus
  sign; `np.fft.ifft` uses `e^{+2πi/n} = conj ω`, which the model writes `star ω`),
* `s` — the `norm='ortho'` scale `1/√n` (both directions scale their OUTPUT by it).

`np.fft.fft(X, axis=a)` is, by NumPy's documented definition, the sum
`out[k] = Σ_j X[j] · e^{-2πi jk/n}` along axis `a` (NumPy evaluates it by a fast algorithm; that the
fast algorithm returns this sum is what the correspondence stream observes, exactly for
`n ∈ {1, 4}` where `ω, s ∈ ℚ[i]`).
-/

variable {K : Type}

/-- the matrix `FFT(n)` represents: entry `(j, k)` is `s · ω^(j·k)` (the extent `n` is carried for
uniformity with the other `…Den`; the entry formula does not need it) -/
def fftDen [Monoid K] (_n : Nat) (ω s : K) : MatF K := fun j k => s * ω ^ (j * k)

/-- `norm='ortho'` DFT along axis 0 with root `w`: `out[k, c] = s · Σ_j X[j, c] · w^(j·k)`,
the scale applied to the finished sum -/
def dftAxis0 [Semiring K] (n : Nat) (w s : K) (X : MatF K) : MatF K :=
  fun k c => s * sumTo n (fun j => X j c * w ^ (j * k))

/-- `norm='ortho'` DFT along axis 1 with root `w`: `out[r, k] = s · Σ_j X[r, j] · w^(j·k)` -/
def dftAxis1 [Semiring K] (n : Nat) (w s : K) (X : MatF K) : MatF K :=
  fun r k => s * sumTo n (fun j => X r j * w ^ (j * k))

/-- `FFT._matmat`: `fft(X, axis=0, norm='ortho')` (`r = n` rows, `b` columns materialised) -/
def fftMatmat [Semiring K] (n : Nat) (ω s : K) (b : Nat) (X : MatF K) : MatV K :=
  forceV n b (dftAxis0 n ω s X)

/-- `FFT._rmatmat`: `ifft(X.conj(), axis=1, norm='ortho').conj()` — the inverse transform runs
with the conjugate root `star ω` (`b` rows, `n` columns materialised) -/
def fftRmatmat [Semiring K] [Star K] (n : Nat) (ω s : K) (b : Nat) (X : MatF K) : MatV K :=
  forceV b n (conjM (dftAxis1 n (star ω) s (conjM X)))

/-- `Transpose(FFT(n))._matmat`: `A._rmatmat(X.T).T` (`X : n × b`) -/
def fftTMatmat [Semiring K] [Star K] (n : Nat) (ω s : K) (b : Nat) (X : MatF K) : MatV K :=
  forceV n b (transposeM (fftRmatmat n ω s b (transposeM X)).f)

/-- `Transpose(FFT(n))._rmatmat`: `A._matmat(X.T).T` (`X : b × n`) -/
def fftTRmatmat [Semiring K] (n : Nat) (ω s : K) (b : Nat) (X : MatF K) : MatV K :=
  forceV b n (transposeM (fftMatmat n ω s b (transposeM X)).f)

/-- `Adjoint(FFT(n))._matmat`: `conj(A._rmatmat(conj(X).T)).T` (`X : n × b`) -/
def fftHMatmat [Semiring K] [Star K] (n : Nat) (ω s : K) (b : Nat) (X : MatF K) : MatV K :=
  forceV n b (transposeM (conjM (fftRmatmat n ω s b (transposeM (conjM X))).f))

/-- `Adjoint(FFT(n))._rmatmat`: `conj(A._matmat(conj(X).T)).T` (`X : b × n`) -/
def fftHRmatmat [Semiring K] [Star K] (n : Nat) (ω s : K) (b : Nat) (X : MatF K) : MatV K :=
  forceV b n (transposeM (conjM (fftMatmat n ω s b (transposeM (conjM X))).f))

/-- `to_dense` (`LinearOperator.to_dense`, square case): `A @ eye(n)` -/
def fftToDense [Semiring K] (n : Nat) (ω s : K) : MatV K :=
  fftMatmat n ω s n eyeM
