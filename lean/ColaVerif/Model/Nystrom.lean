import ColaVerif.Model.CG

/-!
# Code model of `cola/linalg/preconditioning/preconditioners.py` (Nyström preconditioner)

Mirrors the NumPy-backend execution of

* `NystromPrecond._create_approx` after `get_nys_approx` returned `(Lambda, U)`:
  `amu = mu * max(Lambda)` (`adjust_mu`) or `mu`, `subspace_num = min(Lambda) + amu` (a 0-d scalar),
  `subspace_denom = Lambda + amu` (length `r`), `preconditioned_eigmax = min(Lambda) + amu`,
  `preconditioned_eigmin = amu`;
* `NystromPrecond._matmat` = `NystromPrecondLazy._matmat` = `AdaNysPrecond._matmat`:
  `U @ (subspace_scaling * (conj(U).T @ V)) + V` with `subspace_scaling = (num / denom - 1)[:, None]`
  (the conjugate transpose since /repo 67a8740; before, `U.T` without conjugation — defect `nystrom-real-U`,
  regression witness `C12_nystrom_transpose_regression`);
* the dispatch rules `inverse` (swap `subspace_num` and `subspace_denom`: after the swap the numerator is
  the length-`r` vector and the denominator the scalar — NumPy broadcasting, type `Bc`) and `sqrt`
  (element-wise square roots of both), which return a `NystromPrecondLazy` with a copy of `U`.

`get_nys_approx` itself (QR, Cholesky, triangular solve, SVD: LAPACK) is NOT modelled: its contract
(`Uᴴ U = I`, `Lambda ≥ 0`) is a hypothesis of the theorems (`Lemmas/Nystrom.lean`) and is checked
numerically on every object the stream builds.

Generic over the law-free class `CG.NumOps K` (instances `Float`, `CFloat`, and `rcOps 𝕜` = exact
arithmetic), same array layout as `Model/CG.lean`: a matrix is the array of its rows, a block `V` the
array of its columns.
-/

namespace Nys

open CG CG.NumOps

/-- `subspace_num` / `subspace_denom`: a 0-d scalar or a length-`r` vector (NumPy broadcasting) -/
inductive Bc (K : Type) where
  | s (a : K)
  | v (a : Array K)

section
variable {K : Type} [NumOps K]

/-- entry `i` after broadcasting to length `r` -/
def Bc.get (b : Bc K) (i : Nat) : K :=
  match b with
  | .s a => a
  | .v a => a.getD i zero

/-- element-wise function (`xnp.sqrt`) -/
def Bc.map (f : K → K) : Bc K → Bc K
  | .s a => .s (f a)
  | .v a => .v (a.map f)

/-- the fields of `NystromPrecond` / `NystromPrecondLazy` that `_matmat`, `inverse`, `sqrt` read -/
structure Precond (K : Type) where
  /-- rank = number of columns of `U` -/
  r : Nat
  /-- `U`, `n` rows of length `r` -/
  U : Mat K
  num : Bc K
  denom : Bc K

/-- `subspace_num / subspace_denom - 1`, broadcast to length `r` -/
def scaling (P : Precond K) : Vec K :=
  Array.ofFn (fun i : Fin P.r => sub (div (P.num.get i) (P.denom.get i)) one)

/-- `conj(U).T` as an array of rows -/
def conjTransposeU (r : Nat) (U : Mat K) : Mat K :=
  Array.ofFn (fun j : Fin r => U.map (fun row => conj (row.getD j zero)))

/-- `_matmat`, one column: `U @ (subspace_scaling * (conj(U).T @ v)) + v` -/
def applyCol (P : Precond K) (v : Vec K) : Vec K :=
  vadd (matVec P.U (Array.zipWith mul (scaling P) (matVec (conjTransposeU P.r P.U) v))) v

/-- `_matmat` on a block of columns -/
def matmat (P : Precond K) (V : Array (Vec K)) : Array (Vec K) := V.map (applyCol P)

/-- `xnp.max` / `xnp.min` of a non-empty 1-d array -/
def vmax (v : Vec K) : K := v.foldl (fun a b => if lt a b then b else a) (v.getD 0 zero)
def vmin (v : Vec K) : K := v.foldl (fun a b => if lt b a then b else a) (v.getD 0 zero)

/-- what `_create_approx` stores -/
structure Approx (K : Type) where
  P : Precond K
  amu : K
  eigmax : K
  eigmin : K

/-- `_create_approx` after `get_nys_approx` returned `(Lambda, U)` -/
def createApprox (Lam : Vec K) (U : Mat K) (mu : K) (adjustMu : Bool) : Approx K :=
  let amu := if adjustMu then mul mu (vmax Lam) else mu
  let num := add (vmin Lam) amu
  { P := { r := Lam.size, U := U, num := .s num, denom := .v (Lam.map (fun l => add l amu)) },
    amu := amu, eigmax := add (vmin Lam) amu, eigmin := amu }

/-- the rule `inverse`: numerator and denominator swapped, `U` copied -/
def inverse (P : Precond K) : Precond K := { P with num := P.denom, denom := P.num }

/-- the rule `sqrt`: element-wise square roots of numerator and denominator, `U` copied -/
def sqrtP (P : Precond K) : Precond K :=
  { P with num := P.num.map NumOps.sqrt, denom := P.denom.map NumOps.sqrt }

end

end Nys
