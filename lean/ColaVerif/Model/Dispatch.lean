/-
  Executable model of cola's multiple dispatch (the vendored fork of `plum`):
  `plum/resolver.py  Resolver.resolve`, `plum/signature.py  Signature.match / __le__ /
  expand_varargs`, `plum/util.py  Comparable`, and the cola-specific `cond=` keyword of
  `@dispatch` (a rule with a condition only matches when the condition holds on the actual
  arguments; in the final precedence tie-break a conditional rule gets a bonus of 0.5).

  Core Lean only (no Mathlib): the property theorems are closed by `decide +kernel`.

  Classes are numbered; class 0 is `typing.Any`.  The reflexive-transitive subclass relation
  is a table of bit masks (`Hier.anc`): bit `j` of `anc[i]` is set iff class `i` ≤ class `j`.
  A type hint is a list of class ids (a union; `[0]` is `Any`).
-/
namespace ColaVerif.Dispatch

/-- class hierarchy: `anc[i]` = bit mask of all classes `j` with `i ≤ j` (incl. `i` and `Any` = 0).
    `packed` is the same table as one number (`width` bits per class, class 0 lowest), which the
    kernel can index in O(1); `Hier.wf` ties the two together. -/
structure Hier where
  anc : List Nat
  width : Nat
  packed : Nat

def packMasks (width : Nat) : List Nat → Nat
  | [] => 0
  | m :: ms => m % 2 ^ width + 2 ^ width * packMasks width ms

/-- the packed table is the readable one -/
def Hier.wf (H : Hier) : Bool := H.packed == packMasks H.width H.anc && H.anc.all (· < 2 ^ H.width)

def Hier.mask (H : Hier) (a : Nat) : Nat := (H.packed >>> (a * H.width)) % 2 ^ H.width

/-- `issubclass(a, b)` -/
def Hier.sub (H : Hier) (a b : Nat) : Bool := (H.mask a).testBit b

/-- a type hint: union of classes -/
abbrev Hint := List Nat

/-- `beartype.door.TypeHint(h) <= TypeHint(g)` for unions of classes / `Any` -/
def hintLe (H : Hier) (h g : Hint) : Bool := h.all fun a => g.any fun b => H.sub a b

/-- `is_bearable(v, h)` for a value whose class has ancestor mask `m` -/
def isa (m : Nat) (h : Hint) : Bool := h.any fun b => m.testBit b

/-- one registered signature (after default-argument expansion) -/
structure Sig where
  tys : List Hint
  /-- type of `*args`, if any -/
  va : Option Hint
  prec : Int
  /-- index of the condition bit, if the rule was registered with `cond=` -/
  cond : Option Nat
deriving Repr

/-- `Signature.expand_varargs(n)` -/
def Sig.expand (s : Sig) (n : Nat) : List Hint :=
  match s.va with
  | some v => s.tys ++ List.replicate (n - s.tys.length) v
  | none => s.tys

/-- `Signature.__le__` -/
def sigLe (H : Hier) (s t : Sig) : Bool :=
  if s.va.isSome && !t.va.isSome then false
  else if (match s.va, t.va with
           | some v, some w => !(hintLe H v w)
           | _, _ => false) then false
  else if !(s.tys.length == t.tys.length
            || (s.tys.length > t.tys.length && t.va.isSome)
            || (s.tys.length < t.tys.length && s.va.isSome)) then false
  else ((s.expand t.tys.length).zip (t.expand s.tys.length)).all fun p => hintLe H p.1 p.2

/-- a lattice element: classes of the actual arguments and the truth values of the
    conditions (bit `i` = value of condition `i` on these arguments) -/
structure Tup where
  args : List Nat
  conds : Nat
deriving Repr, DecidableEq

/-- `Signature.match(values)`; `ms` are the ancestor masks of the argument classes -/
def sigMatch (s : Sig) (ms : List Nat) (conds : Nat) : Bool :=
  if !(s.tys.length == ms.length || (s.tys.length < ms.length && s.va.isSome)) then false
  else (ms.zip (s.expand ms.length)).all (fun p => isa p.1 p.2)
       && (match s.cond with
           | none => true
           | some i => conds.testBit i)

/-! ### the order-dependent candidate loop of `Resolver.resolve`, generic in the order -/

section Loop
variable {α : Type}

/-- `Comparable.is_comparable`: `a < b or a == b or a > b`, i.e. `a ≤ b or b ≤ a` -/
def cmpb (le : α → α → Bool) (a b : α) : Bool := le a b || le b a
/-- `Comparable.__lt__`: `a <= b and not (a <= b <= a)` -/
def ltb (le : α → α → Bool) (a b : α) : Bool := le a b && !(le b a)

/-- one iteration of the loop body -/
def candStep (le : α → α → Bool) (cands : List α) (s : α) : List α :=
  if !(cands.any fun c => cmpb le c s) then cands ++ [s]
  else
    let newc := cands.filter fun c => !(ltb le s c)
    if cands.any (fun c => le s c) then newc ++ [s] else newc

def candLoop (le : α → α → Bool) (xs : List α) : List α := xs.foldl (candStep le) []

end Loop

/-- outcome of a resolution: index of the selected signature in the table -/
inductive Res where
  | notFound
  | unique (i : Nat)
  | ambiguous
deriving DecidableEq, Repr

def Res.isUnique : Res → Bool
  | .unique _ => true
  | _ => false

/-- `precedence + (0.5 if condition is not None else 0)`, doubled -/
def Sig.score (s : Sig) : Int := 2 * s.prec + (if s.cond.isSome then 1 else 0)

def enumFrom {α : Type} : Nat → List α → List (Nat × α)
  | _, [] => []
  | n, x :: xs => (n, x) :: enumFrom (n + 1) xs

/-- the matching signatures, in registration order, with their indices -/
def matching (H : Hier) (table : List Sig) (t : Tup) : List (Nat × Sig) :=
  let ms := t.args.map H.mask
  (enumFrom 0 table).filter fun p => sigMatch p.2 ms t.conds

def candidates (H : Hier) (table : List Sig) (t : Tup) : List (Nat × Sig) :=
  candLoop (fun a b => sigLe H a.2 b.2) (matching H table t)

def maxScore : List (Nat × Sig) → Int
  | [] => 0
  | c :: cs => cs.foldl (fun m d => max m d.2.score) c.2.score

/-- the precedence tie-break at the end of `Resolver.resolve` -/
def pick (cs : List (Nat × Sig)) : Res :=
  match cs with
  | [] => .notFound
  | [c] => .unique c.1
  | _ =>
    match cs.filter (fun c => c.2.score == maxScore cs) with
    | [c] => .unique c.1
    | _ => .ambiguous

/-- `Resolver.resolve(args)` -/
def resolve (H : Hier) (table : List Sig) (t : Tup) : Res := pick (candidates H table t)

/-! ### clause classes (named sets of tuples excluded from a property statement) -/

/-- per argument position a list of classes (`[]` = any class); a tuple is in the clause when
    every argument is a subclass of one of the listed classes at its position -/
structure Clause where
  name : String
  pats : List (List Nat)

def Clause.has (H : Hier) (c : Clause) (t : Tup) : Bool :=
  c.pats.length ≤ t.args.length &&
  (t.args.zip c.pats).all fun p => p.2.isEmpty || p.2.any fun b => H.sub p.1 b

def excluded (H : Hier) (cs : List Clause) (t : Tup) : Bool := cs.any fun c => c.has H t

/-- the check performed on one lattice element -/
def okOn (H : Hier) (table : List Sig) (cs : List Clause) (t : Tup) : Bool :=
  excluded H cs t || (resolve H table t).isUnique

/-! ### soundness of the model's resolver, independent of any table -/

section Sound
variable {α : Type}

theorem mem_candStep {le : α → α → Bool} {cands : List α} {s x : α}
    (h : x ∈ candStep le cands s) : x ∈ cands ∨ x = s := by
  unfold candStep at h
  split at h
  · simp only [List.mem_append, List.mem_singleton] at h; exact h
  · simp only at h
    split at h
    · simp only [List.mem_append, List.mem_filter, List.mem_singleton] at h
      rcases h with h | h
      · exact Or.inl h.1
      · exact Or.inr h
    · simp only [List.mem_filter] at h
      exact Or.inl h.1

theorem mem_foldl_candStep {le : α → α → Bool} (xs : List α) :
    ∀ (acc : List α) {x : α}, x ∈ xs.foldl (candStep le) acc → x ∈ acc ∨ x ∈ xs := by
  induction xs with
  | nil => intro acc x h; exact Or.inl h
  | cons y ys ih =>
    intro acc x h
    simp only [List.foldl_cons] at h
    rcases ih _ h with h | h
    · rcases mem_candStep h with h | h
      · exact Or.inl h
      · exact Or.inr (by simp [h])
    · exact Or.inr (List.mem_cons_of_mem _ h)

/-- every candidate is one of the inputs -/
theorem mem_candLoop {le : α → α → Bool} {xs : List α} {x : α} (h : x ∈ candLoop le xs) : x ∈ xs := by
  rcases mem_foldl_candStep xs [] h with h | h
  · simp at h
  · exact h

/-- invariants of the loop when `le` is a preorder on the elements satisfying `P`: the candidates
    form an antichain for the strict order, and every processed element is dominated by a candidate -/
structure LoopInv (le : α → α → Bool) (seen cands : List α) : Prop where
  sub : ∀ c ∈ cands, c ∈ seen
  anti : ∀ c ∈ cands, ∀ d ∈ cands, ltb le c d = false
  dom : ∀ m ∈ seen, ∃ c ∈ cands, le c m = true

theorem ltb_trans_left {le : α → α → Bool} {a b c : α}
    (htr1 : le a b = true → le b c = true → le a c = true)
    (htr2 : le c a = true → le a b = true → le c b = true)
    (h1 : le a b = true) (h2 : ltb le b c = true) : ltb le a c = true := by
  simp only [ltb, Bool.and_eq_true, Bool.not_eq_true'] at *
  refine ⟨htr1 h1 h2.1, ?_⟩
  cases h : le c a with
  | false => rfl
  | true =>
    have := htr2 h h1
    rw [h2.2] at this; exact absurd this (by simp)

theorem ltb_trans_right {le : α → α → Bool} {a b c : α}
    (htr1 : le a b = true → le b c = true → le a c = true)
    (htr2 : le b c = true → le c a = true → le b a = true)
    (h1 : ltb le a b = true) (h2 : le b c = true) : ltb le a c = true := by
  simp only [ltb, Bool.and_eq_true, Bool.not_eq_true'] at *
  refine ⟨htr1 h1.1 h2, ?_⟩
  cases h : le c a with
  | false => rfl
  | true =>
    have := htr2 h2 h
    rw [h1.2] at this; exact absurd this (by simp)

theorem loopInv_step {le : α → α → Bool} {P : α → Prop}
    (hrefl : ∀ a, P a → le a a = true)
    (htr : ∀ a b c, P a → P b → P c → le a b = true → le b c = true → le a c = true)
    {seen cands : List α} (s : α) (hP : ∀ m ∈ seen, P m) (hs : P s) (inv : LoopInv le seen cands) :
    LoopInv le (seen ++ [s]) (candStep le cands s) := by
  have hPc : ∀ c ∈ cands, P c := fun c hc => hP c (inv.sub c hc)
  have ltb_irrefl : ∀ a, P a → ltb le a a = false := by intro a ha; simp [ltb, hrefl a ha]
  unfold candStep
  split
  · -- `s` is comparable with no candidate
    rename_i hnc
    have hnc' : ∀ c ∈ cands, le c s = false ∧ le s c = false := by
      intro c hc
      have : (cands.any fun c => cmpb le c s) = false := by simpa using hnc
      have h := (List.any_eq_false.mp this) c hc
      simp only [cmpb, Bool.or_eq_true, not_or, Bool.not_eq_true] at h
      exact h
    refine ⟨?_, ?_, ?_⟩
    · intro c hc
      simp only [List.mem_append, List.mem_singleton] at hc ⊢
      rcases hc with hc | hc
      · exact Or.inl (inv.sub c hc)
      · exact Or.inr hc
    · intro c hc d hd
      simp only [List.mem_append, List.mem_singleton] at hc hd
      rcases hc with hc | hc <;> rcases hd with hd | hd
      · exact inv.anti c hc d hd
      · subst hd; simp [ltb, (hnc' c hc).1]
      · subst hc; simp [ltb, (hnc' d hd).2]
      · subst hc; subst hd; exact ltb_irrefl _ hs
    · intro m hm
      simp only [List.mem_append, List.mem_singleton] at hm
      rcases hm with hm | hm
      · obtain ⟨c, hc, hle⟩ := inv.dom m hm
        exact ⟨c, by simp [hc], hle⟩
      · subst hm; exact ⟨m, by simp, hrefl m hs⟩
  · rename_i hcmp
    simp only
    split
    · -- `s` is added, strictly more general candidates are dropped
      rename_i hadd
      obtain ⟨c', hc', hsc'⟩ := List.any_eq_true.mp hadd
      refine ⟨?_, ?_, ?_⟩
      · intro c hc
        simp only [List.mem_append, List.mem_filter, List.mem_singleton] at hc ⊢
        rcases hc with hc | hc
        · exact Or.inl (inv.sub c hc.1)
        · exact Or.inr hc
      · intro c hc d hd
        simp only [List.mem_append, List.mem_filter, List.mem_singleton, Bool.not_eq_true'] at hc hd
        rcases hc with hc | hc <;> rcases hd with hd | hd
        · exact inv.anti c hc.1 d hd.1
        · -- c < s would give c < c' among the old candidates
          subst hd
          cases h : ltb le c d with
          | false => rfl
          | true =>
            have := ltb_trans_right (htr _ _ _ (hPc c hc.1) hs (hPc c' hc'))
              (htr _ _ _ hs (hPc c' hc') (hPc c hc.1)) h hsc'
            rw [inv.anti c hc.1 c' hc'] at this; exact absurd this (by simp)
        · subst hc; exact hd.2
        · subst hc; subst hd; exact ltb_irrefl _ hs
      · intro m hm
        simp only [List.mem_append, List.mem_singleton] at hm
        rcases hm with hm | hm
        · obtain ⟨c, hc, hle⟩ := inv.dom m hm
          cases h : ltb le s c with
          | false =>
            exact ⟨c, by simp [hc, h], hle⟩
          | true =>
            simp only [ltb, Bool.and_eq_true] at h
            exact ⟨s, by simp, htr _ _ _ hs (hPc c hc) (hP m hm) h.1 hle⟩
        · subst hm; exact ⟨m, by simp, hrefl m hs⟩
    · -- `s` is not added
      rename_i hnadd
      have hnle : ∀ c ∈ cands, le s c = false := by
        intro c hc
        have : (cands.any fun c => le s c) = false := by simpa using hnadd
        simpa using (List.any_eq_false.mp this) c hc
      have hfilter : ∀ c ∈ cands, ltb le s c = false := by
        intro c hc; simp [ltb, hnle c hc]
      refine ⟨?_, ?_, ?_⟩
      · intro c hc
        simp only [List.mem_filter] at hc
        simp only [List.mem_append, List.mem_singleton]
        exact Or.inl (inv.sub c hc.1)
      · intro c hc d hd
        simp only [List.mem_filter] at hc hd
        exact inv.anti c hc.1 d hd.1
      · intro m hm
        simp only [List.mem_append, List.mem_singleton] at hm
        rcases hm with hm | hm
        · obtain ⟨c, hc, hle⟩ := inv.dom m hm
          exact ⟨c, by simp [hc, hfilter c hc], hle⟩
        · subst hm
          have : (cands.any fun c => cmpb le c m) = true := by simpa using hcmp
          obtain ⟨c, hc, hcm⟩ := List.any_eq_true.mp this
          simp only [cmpb, Bool.or_eq_true] at hcm
          rcases hcm with hcm | hcm
          · exact ⟨c, by simp [hc, hfilter c hc], hcm⟩
          · rw [hnle c hc] at hcm; exact absurd hcm (by simp)

theorem loopInv_foldl {le : α → α → Bool} {P : α → Prop}
    (hrefl : ∀ a, P a → le a a = true)
    (htr : ∀ a b c, P a → P b → P c → le a b = true → le b c = true → le a c = true)
    (xs : List α) : ∀ (seen cands : List α), (∀ m ∈ seen, P m) → (∀ m ∈ xs, P m) → LoopInv le seen cands →
      LoopInv le (seen ++ xs) (xs.foldl (candStep le) cands) := by
  induction xs with
  | nil => intro seen cands _ _ inv; simpa using inv
  | cons y ys ih =>
    intro seen cands hseen hxs inv
    have hy : P y := hxs y (by simp)
    have hseen' : ∀ m ∈ seen ++ [y], P m := by
      intro m hm
      simp only [List.mem_append, List.mem_singleton] at hm
      rcases hm with hm | hm
      · exact hseen m hm
      · subst hm; exact hy
    have := ih (seen ++ [y]) _ hseen' (fun m hm => hxs m (List.mem_cons_of_mem _ hm))
      (loopInv_step hrefl htr y hseen hy inv)
    simpa [List.append_assoc] using this

theorem loopInv_candLoop {le : α → α → Bool} {P : α → Prop}
    (hrefl : ∀ a, P a → le a a = true)
    (htr : ∀ a b c, P a → P b → P c → le a b = true → le b c = true → le a c = true)
    (xs : List α) (hxs : ∀ m ∈ xs, P m) : LoopInv le xs (candLoop le xs) := by
  have := loopInv_foldl hrefl htr xs [] [] (by simp) hxs ⟨by simp, by simp, by simp⟩
  simpa [candLoop] using this

/-- for a preorder (on the inputs), no input is strictly below a surviving candidate -/
theorem candLoop_minimal {le : α → α → Bool} {P : α → Prop}
    (hrefl : ∀ a, P a → le a a = true)
    (htr : ∀ a b c, P a → P b → P c → le a b = true → le b c = true → le a c = true)
    {xs : List α} (hxs : ∀ m ∈ xs, P m) {c m : α} (hc : c ∈ candLoop le xs) (hm : m ∈ xs) :
    ltb le m c = false := by
  have inv := loopInv_candLoop hrefl htr xs hxs
  obtain ⟨d, hd, hdm⟩ := inv.dom m hm
  have hPd := hxs d (inv.sub d hd)
  have hPc := hxs c (inv.sub c hc)
  have hPm := hxs m hm
  cases h : ltb le m c with
  | false => rfl
  | true =>
    have := ltb_trans_left (htr _ _ _ hPd hPm hPc) (htr _ _ _ hPc hPd hPm) hdm h
    rw [inv.anti d hd c hc] at this; exact absurd this (by simp)

end Sound

theorem mem_enumFrom {α : Type} {xs : List α} : ∀ {n i : Nat} {x : α},
    (i, x) ∈ enumFrom n xs → n ≤ i ∧ xs[i - n]? = some x := by
  induction xs with
  | nil => intro n i x h; simp [enumFrom] at h
  | cons y ys ih =>
    intro n i x h
    simp only [enumFrom, List.mem_cons, Prod.mk.injEq] at h
    rcases h with ⟨rfl, rfl⟩ | h
    · simp
    · obtain ⟨h1, h2⟩ := ih h
      refine ⟨by omega, ?_⟩
      have : i - n = (i - (n + 1)) + 1 := by omega
      rw [this]; simpa using h2

theorem pick_mem {cs : List (Nat × Sig)} {i : Nat} (h : pick cs = .unique i) :
    ∃ s, (i, s) ∈ cs ∧ ∀ d ∈ cs, d.2.score ≤ s.score ∨ cs.length = 1 := by
  unfold pick at h
  split at h
  · cases h
  · rename_i c
    simp only [Res.unique.injEq] at h
    subst h
    exact ⟨c.2, by simp, fun d _ => Or.inr (by simp)⟩
  · split at h
    · rename_i c hf
      simp only [Res.unique.injEq] at h
      subst h
      have hc : c ∈ cs.filter (fun c => c.2.score == maxScore cs) := by rw [hf]; simp
      simp only [List.mem_filter, beq_iff_eq] at hc
      refine ⟨c.2, hc.1, fun d hd => Or.inl ?_⟩
      rw [hc.2]
      -- every score is ≤ the maximum
      have key : ∀ (l : List (Nat × Sig)) (a : Int), (∀ d ∈ l, d.2.score ≤ l.foldl (fun m d => max m d.2.score) a)
          ∧ a ≤ l.foldl (fun m d => max m d.2.score) a := by
        intro l
        induction l with
        | nil => intro a; simp
        | cons y ys ih =>
          intro a
          simp only [List.foldl_cons, List.mem_cons]
          have h1 := (ih (max a y.2.score)).1
          have h2 := (ih (max a y.2.score)).2
          refine ⟨?_, by omega⟩
          intro d hd
          rcases hd with rfl | hd
          · omega
          · exact h1 d hd
      cases cs with
      | nil => simp at hd
      | cons y ys =>
        simp only [maxScore]
        simp only [List.mem_cons] at hd
        rcases hd with rfl | hd
        · exact (key ys _).2
        · exact (key ys _).1 d hd
    · cases h

/-- **Soundness of the model's resolver.**  If `resolve` selects signature `i`, then `i` is an
    entry of the table, it matches the arguments (arity, every argument an instance of its hint,
    condition true) and it is one of the surviving candidates with maximal score
    `2·precedence + [conditional]` among them. -/
theorem resolve_sound (H : Hier) (table : List Sig) (t : Tup) (i : Nat)
    (h : resolve H table t = .unique i) :
    ∃ s, table[i]? = some s ∧ sigMatch s (t.args.map H.mask) t.conds = true
      ∧ (i, s) ∈ candidates H table t
      ∧ ∀ d ∈ candidates H table t, d.2.score ≤ s.score ∨ (candidates H table t).length = 1 := by
  obtain ⟨s, hs, hmax⟩ := pick_mem h
  have hm : (i, s) ∈ matching H table t := mem_candLoop hs
  simp only [matching, List.mem_filter] at hm
  obtain ⟨hm1, hm2⟩ := hm
  obtain ⟨_, hget⟩ := mem_enumFrom hm1
  exact ⟨s, by simpa using hget, hm2, hs, hmax⟩

theorem mem_enumFrom_of_getElem? {α : Type} {xs : List α} : ∀ {n j : Nat} {x : α},
    xs[j]? = some x → (n + j, x) ∈ enumFrom n xs := by
  induction xs with
  | nil => intro n j x h; simp at h
  | cons y ys ih =>
    intro n j x h
    cases j with
    | zero => simp at h; subst h; simp [enumFrom]
    | succ k =>
      simp only [List.getElem?_cons_succ] at h
      have := ih (n := n + 1) h
      simp only [enumFrom, List.mem_cons]
      right
      have e : n + (k + 1) = n + 1 + k := by omega
      rw [e]; exact this

/-- `≤` restricted to the signatures of a table is reflexive and transitive -/
def preorderOn (H : Hier) (table : List Sig) : Bool :=
  table.all (fun a => sigLe H a a) &&
  table.all fun a => table.all fun b => table.all fun c => !(sigLe H a b && sigLe H b c) || sigLe H a c

/-- **Minimality.**  When `≤` on the signatures of the table is a preorder (checked per table by
    `decide`, see `preorderOn`), no matching signature is strictly more specific than the
    selected one — whatever the precedences are: precedence only decides between the
    *incomparable or equivalent* candidates that survive the loop. -/
theorem resolve_minimal (H : Hier) (table : List Sig) (t : Tup) (i : Nat)
    (hpre : preorderOn H table = true)
    (h : resolve H table t = .unique i) :
    ∃ s, table[i]? = some s ∧
      ∀ (j : Nat) (sj : Sig), table[j]? = some sj → sigMatch sj (t.args.map H.mask) t.conds = true →
        ¬ (sigLe H sj s = true ∧ sigLe H s sj = false) := by
  simp only [preorderOn, Bool.and_eq_true, List.all_eq_true, Bool.or_eq_true, Bool.not_eq_true',
    Bool.and_eq_false_iff] at hpre
  obtain ⟨hr, ht⟩ := hpre
  let P : Nat × Sig → Prop := fun p => p.2 ∈ table
  have hrefl : ∀ a : Nat × Sig, P a → sigLe H a.2 a.2 = true := fun a ha => hr a.2 ha
  have htr : ∀ a b c : Nat × Sig, P a → P b → P c →
      sigLe H a.2 b.2 = true → sigLe H b.2 c.2 = true → sigLe H a.2 c.2 = true := by
    intro a b c ha hb hc h1 h2
    rcases ht a.2 ha b.2 hb c.2 hc with h' | h'
    · rcases h' with h' | h'
      · rw [h1] at h'; exact absurd h' (by simp)
      · rw [h2] at h'; exact absurd h' (by simp)
    · exact h'
  have hxs : ∀ m ∈ matching H table t, P m := by
    intro m hm
    simp only [matching, List.mem_filter] at hm
    obtain ⟨_, hget⟩ := mem_enumFrom (i := m.1) (x := m.2) hm.1
    exact List.mem_of_getElem? hget
  obtain ⟨s, hs, _⟩ := pick_mem h
  have hm : (i, s) ∈ matching H table t := mem_candLoop hs
  have hget : table[i]? = some s := by
    simp only [matching, List.mem_filter] at hm
    simpa using (mem_enumFrom hm.1).2
  refine ⟨s, hget, fun j sj hj hmatch hlt => ?_⟩
  have hmem : (j, sj) ∈ matching H table t := by
    simp only [matching, List.mem_filter]
    refine ⟨?_, hmatch⟩
    have := mem_enumFrom_of_getElem? (n := 0) hj
    simpa using this
  have := candLoop_minimal (le := fun a b : Nat × Sig => sigLe H a.2 b.2) hrefl htr hxs hs hmem
  simp only [ltb, hlt.1, hlt.2, Bool.not_false, Bool.and_self] at this
  exact absurd this (by simp)

/-! ### reading `okOn` when no clause is recorded -/

/-- `Res.isUnique` says that the outcome is `.unique i` for some `i` -/
theorem Res.isUnique_iff (r : Res) : r.isUnique = true ↔ ∃ i, r = .unique i := by
  cases r <;> simp [Res.isUnique]

/-- without recorded clauses nothing is excluded: the per-tuple check IS "the resolver returns a unique rule" -/
theorem okOn_nil (H : Hier) (table : List Sig) (t : Tup) :
    okOn H table [] t = (resolve H table t).isUnique := by
  simp [okOn, excluded]

end ColaVerif.Dispatch
