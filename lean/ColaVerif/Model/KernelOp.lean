import ColaVerif.Model.Kernels

/-!
# `Kernel._matmat` (cola/ops/operators.py): the blocked on-the-fly kernel product

```
out = zeros((n, k))
for idx in range(iters1):                      # iters1 = max(1, n // bs1)
    loc1 = slice(idx*bs1, None if idx+1 == iters1 else (idx+1)*bs1)
    update = zeros((len(x1[loc1]), k))
    for jdx in range(iters2):                  # iters2 = max(1, m // bs2)
        loc2 = slice(jdx*bs2, None if jdx+1 == iters2 else (jdx+1)*bs2)
        update += fn(x1[loc1], x2[loc2]) @ V[loc2]
    out[loc1] = update
```
`K i j = fn(x1_i, x2_j)` is the kernel matrix (the harness evaluates `fn` and hands the entries
to the driver); the model mirrors the two block loops, with the last block extending to the end.
-/

open Finset

variable {R : Type}

/-- the blocks `[lo, hi)` the loops visit for extent `n` and block size `bs` -/
def blockRanges (n bs : Nat) : List (Nat × Nat) :=
  let iters := max 1 (n / bs)
  (List.range iters).map fun idx => (idx * bs, if idx + 1 = iters then n else (idx + 1) * bs)

/-- `update` for the row block starting at `lo1` (rows relative to `lo1`) -/
def kernelUpdate [Semiring R] (K : MatF R) (lo1 : Nat) (colBlocks : List (Nat × Nat)) (V : MatF R) : MatF R :=
  fun i j => (colBlocks.map fun p => sumTo (p.2 - p.1) (fun q => K (lo1 + i) (p.1 + q) * V (p.1 + q) j)).sum

/-- `Kernel._matmat` -/
def kernelMatmat [Semiring R] (K : MatF R) (n m bs1 bs2 : Nat) (V : MatF R) : MatV R :=
  let cb := blockRanges m bs2
  MatV.of (vstack ((blockRanges n bs1).map fun p => (p.2 - p.1, kernelUpdate K p.1 cb V)))
