import ColaVerif.Model.NumOpsL

/-!
# Code model of `cola/linalg/decompositions/lanczos.py`
(`lanczos`, `init_lanczos`, `lanczos_fact`, `do_double_gram`, `do_gram`, `lanczos_eigs`) and of
`while_loop_winfo` (`cola/utils/torch_tqdm.py`), NumPy-backend execution.

The model mirrors what the code DOES:

* per start vector (batch member) the buffers `V` (`max_iters + 2` columns: guard column `0`, the
  basis in columns `1 … max_iters`, guard column `max_iters + 1`), `diag` (`max_iters` entries) and
  `subdiag` (`max_iters + 1` entries), with `max_iters := min(max_iters, n)`;
* the loop index starts at `1`; the body normalises column `i` by its recomputed norm, applies `A`,
  stores `sum(conj(A q) * q)` in `diag[i-1]`, subtracts `diag[i-1] * V[i] + subdiag[i-1] * V[i-1]`,
  runs TWO classical Gram–Schmidt passes against the WHOLE buffer (guard columns and the
  not-yet-written zero columns included), writes column `i+1` and `subdiag[i] = ‖V[i+1]‖`;
* the stopping test `i <= max_iters  &  any_b (subdiag[b,i-1].real > tol * subdiag[b,1].real | i <= 1)`
  — the batch members are coupled only through this `any` and through the common trimming length;
* `while_loop_winfo`: `iterations` = number of evaluations of the test, `errors` = tracked value at
  every evaluation plus once more at the end, first two dropped;
* the trimming `alpha[..., 1:-1][..., :iters-1]`, `beta[..., :iters]`, `Q[..., 1:-1][..., :iters]` with
  `iters = i - 1` (non-jax backends), `Tridiagonal(alpha, beta, alpha)`;
* `lanczos_eigs`: `eigh(T)` (a PARAMETER of the model — LAPACK is not modelled), `argsort`
  (modelled by a stable insertion sort of the indices), `Q @ eigvecs[:, idx]`.

A 1-d start vector takes the same path as a batch of one (`rhs = start_vector[:, None]`) and the
result is un-batched by `[0]`; a 2-d start block is `n × b` (one start vector per COLUMN; the
docstring's `(b, n)` is not what the code reads).

Every array access of the code is in bounds for `1 ≤ i ≤ max_iters`; the model uses total accessors
(`getD`, `setIfInBounds`), whose out-of-bounds branches are never taken.
-/

namespace Lanczos

open Num VecOps

/-- the buffers of one batch member -/
structure Mem (K V : Type) where
  V : Array V
  diag : Array K
  subdiag : Array K

/-- loop state: the members and the shared index `i` -/
structure State (K V : Type) where
  mems : Array (Mem K V)
  i : Nat

/-- what `while_loop_winfo` records -/
structure Info (K : Type) where
  iterations : Nat
  errors : Array K

section model
variable {K V : Type} [Num K] [VecOps K V]

/-- column `c` of a buffer (total: a zero column outside) -/
def col (z : V) (buf : Array V) (c : Nat) : V := buf.getD c z

/-- `init_lanczos` for one start vector (`z` is the zero column of `xnp.zeros`) -/
def initMem (z : V) (m : Nat) (rhs : V) : Mem K V :=
  let nrm : K := norm rhs
  let q : V := divs rhs nrm
  { V := (Array.replicate (m + 2) z).setIfInBounds 1 q
    diag := Array.replicate m (zero : K)
    subdiag := Array.replicate (m + 1) (zero : K) }

/-- `do_gram`: one classical Gram–Schmidt pass against every column of the buffer -/
def gram (z : V) (buf : Array V) (w : V) : V :=
  let acc : V := buf.foldl (fun acc c => add (K := K) acc (smul (dotc c w : K) c)) z
  sub (K := K) w acc

/-- `do_double_gram` -/
def doubleGram (z : V) (buf : Array V) (w : V) : V :=
  gram (K := K) z buf (gram (K := K) z buf w)

/-- `lanczos_fact.body_fun` on one batch member (`z`: the zero column) -/
def bodyMem (A : V → V) (z : V) (i : Nat) (s : Mem K V) : Mem K V :=
  let vi := col z s.V i
  let upd : K := norm vi
  let V1 := s.V.setIfInBounds i (divs vi upd)
  let qi := col z V1 i
  let nv := A qi
  let a : K := dotc nv qi
  let diag1 := s.diag.setIfInBounds (i - 1) a
  let aux : V := add (K := K) (smul (diag1.getD (i - 1) zero) qi)
    (smul (s.subdiag.getD (i - 1) zero) (col z V1 (i - 1)))
  let nv1 : V := sub (K := K) nv aux
  let nv2 : V := doubleGram (K := K) z V1 nv1
  let V2 := V1.setIfInBounds (i + 1) nv2
  let sub1 := s.subdiag.setIfInBounds i (norm (col z V2 (i + 1)))
  { V := V2, diag := diag1, subdiag := sub1 }

def body (A : V → V) (z : V) (st : State K V) : State K V :=
  { mems := st.mems.map (bodyMem A z st.i), i := st.i + 1 }

/-- `(subdiag[i-1].real > tol * subdiag[1].real) | (i <= 1)` for one member -/
def isLarge (tol : K) (i : Nat) (s : Mem K V) : Bool :=
  lt (mul tol (re (s.subdiag.getD 1 zero))) (re (s.subdiag.getD (i - 1) zero)) || decide (i ≤ 1)

/-- `lanczos_fact.cond_fun` -/
def cond (tol : K) (m : Nat) (st : State K V) : Bool :=
  decide (st.i ≤ m) && st.mems.any (isLarge tol st.i)

/-- `lanczos_fact.error` (only recorded in `info['errors']`) -/
def errorFn (st : State K V) : K :=
  let rel : Array K := st.mems.map (fun s =>
    div (re (s.subdiag.getD (st.i - 1) zero)) (Num.max (re (s.subdiag.getD 1 zero)) tiny))
  let mx : K := rel.foldl Num.max (rel.getD 0 zero)
  add mx (mul (ofBool (decide (st.i ≤ 1))) one)

/-- `while_loop` under `while_loop_winfo`'s `newcond` (fuel: the test can hold at most `m` times) -/
def whileLoop (A : V → V) (z : V) (tol : K) (m : Nat) : Nat → State K V → Info K → State K V × Info K
  | 0, st, info => (st, info)
  | fuel + 1, st, info =>
    let info' : Info K := { iterations := info.iterations + 1, errors := info.errors.push (errorFn st) }
    if cond tol m st then whileLoop A z tol m fuel (body A z st) info' else (st, info')

/-- `lanczos_fact` (with the bookkeeping of `while_loop_winfo` after the loop) -/
def lanczosFact (A : V → V) (z : V) (tol : K) (m : Nat) (init : State K V) : State K V × Info K :=
  let r := whileLoop A z tol m (m + 1) init { iterations := 0, errors := #[] }
  let errs := r.2.errors.push (errorFn r.1)
  (r.1, { iterations := r.2.iterations, errors := errs.extract 2 errs.size })

/-- the result of `lanczos` -/
structure Out (K V : Type) where
  /-- per member: the returned columns of `Q` -/
  Q : Array (Array V)
  /-- per member: the returned off-diagonal (`alpha` of the code, length `iters - 1`) -/
  alpha : Array (Array K)
  /-- per member: the returned diagonal (`beta` of the code, length `iters`) -/
  beta : Array (Array K)
  iters : Nat
  info : Info K
  /-- the untrimmed final state (diagnostics of the driver) -/
  final : State K V

/-- `Q[..., 1:-1][..., :iters]` etc.: the trimming of one member -/
def trimQ (s : Mem K V) (iters : Nat) : Array V :=
  (s.V.extract 1 (s.V.size - 1)).extract 0 iters
/-- `alpha[..., 1:-1][..., :iters-1]` (`alpha` of `lanczos` is `subdiag`) -/
def trimAlpha (s : Mem K V) (iters : Nat) : Array K :=
  (s.subdiag.extract 1 (s.subdiag.size - 1)).extract 0 (iters - 1)
/-- `beta[..., :iters]` (`beta` of `lanczos` is `diag`) -/
def trimBeta (s : Mem K V) (iters : Nat) : Array K :=
  s.diag.extract 0 iters

/-- `lanczos(A, start_vector, max_iters, tol)`; `n` is `A.shape[0]`, `z` the zero column
(`xnp.zeros`), `starts` the columns of `rhs` -/
def lanczos (A : V → V) (n : Nat) (z : V) (starts : Array V) (maxIters : Nat) (tol : K) : Out K V :=
  let m := min maxIters n
  let init : State K V := { mems := starts.map (initMem z m), i := 1 }
  let r := lanczosFact A z tol m init
  let iters := r.1.i - 1
  { Q := r.1.mems.map (fun s => trimQ s iters)
    alpha := r.1.mems.map (fun s => trimAlpha s iters)
    beta := r.1.mems.map (fun s => trimBeta s iters)
    iters := iters
    info := r.2
    final := r.1 }

/-- entry `(r, c)` of `Tridiagonal(alpha, beta, alpha).to_dense()`:
row `r` of `T @ X` is `beta[r] * X[r] + alpha[r-1] * X[r-1] + alpha[r] * X[r+1]` -/
def tridiagEntry (alpha beta : Array K) (r c : Nat) : K :=
  if r = c then beta.getD r zero
  else if r = c + 1 then alpha.getD c zero
  else if c = r + 1 then alpha.getD r zero
  else zero

/-- `T.to_dense()` as an array of rows -/
def tridiagDense (alpha beta : Array K) : Array (Array K) :=
  (Array.range beta.size).map (fun r => (Array.range beta.size).map (fun c => tridiagEntry alpha beta r c))

/-- insertion of an index into a list of indices sorted by key (stable) -/
def insertIdx (key : Nat → K) (j : Nat) : List Nat → List Nat
  | [] => [j]
  | k :: ks => if lt (key j) (key k) then j :: k :: ks else k :: insertIdx key j ks

/-- `argsort(eigvals)` (stable insertion sort on the real parts) -/
def argsort (vals : Array K) : List Nat :=
  (List.range vals.size).foldr (fun j acc => insertIdx (fun t => vals.getD t zero) j acc) []

/-- `Q @ y` for a coefficient column `y` -/
def combine (z : V) (Q : Array V) (y : Array K) : V :=
  (List.range Q.size).foldl (fun acc c => add (K := K) acc (smul (y.getD c zero) (col z Q c))) z

/-- `lanczos_eigs` (1-d start vector): `eigh` is a parameter returning the eigenvalues and the
array of eigenvector COLUMNS of a dense matrix -/
def lanczosEigs (eigh : Array (Array K) → Array K × Array (Array K))
    (A : V → V) (n : Nat) (z : V) (start : V) (maxIters : Nat) (tol : K) : Array K × Array V :=
  let o := lanczos A n z #[start] maxIters tol
  let Q := o.Q.getD 0 #[]
  let e := eigh (tridiagDense (o.alpha.getD 0 #[]) (o.beta.getD 0 #[]))
  let idx := argsort e.1
  ((idx.map (fun j => e.1.getD j zero)).toArray,
   (idx.map (fun j => combine z Q (e.2.getD j #[]))).toArray)

end model
end Lanczos
