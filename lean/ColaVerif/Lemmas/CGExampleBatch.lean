import ColaVerif.Lemmas.CGResidual

/-!
# A two-column batch on which one column converges (exactly) before the loop ends

`exA3 = tridiag(-1, 2, -1)`, batch `B = [(1, 0, -1), e₀]`, `x0 = 0`, `max_iters = 2`, `tol = 1/10`, no preconditioner.
Column 0 is an eigenvector (`A b = 2 b`): textbook CG solves it in ONE step, `r₁ = 0 < 1e-40 ‖b‖`; column 1 (`e₀`)
has relative residuals `1, 1/2 > 1/5 = tol (1 + 1)` and keeps the loop running to the cap: `k = 2`.
So for column 0 the `k'` of `xOut_final` / `C12_optimal_any` is `1 < k = 2` (`exB_kprime`).
-/

namespace CG
open scoped InnerProductSpace ComplexConjugate ComplexOrder
open WithLp

attribute [local instance] rcOps

local notation "A3" => Matrix.toEuclideanLin exA3
local notation "Mi" => precLin (none : Option (Matrix (Fin 3) (Fin 3) ℝ))

noncomputable def exbE : EuclideanSpace ℝ (Fin 3) := !₂[1, 0, -1]
noncomputable def exB2 : Fin 2 → EuclideanSpace ℝ (Fin 3) := ![exbE, exb3]
noncomputable def exZ2 : Fin 2 → EuclideanSpace ℝ (Fin 3) := fun _ => exz3

theorem exB2_zero : exB2 0 = exbE := rfl
theorem exB2_one : exB2 1 = exb3 := rfl
theorem exZ2_apply (j : Fin 2) : exZ2 j = exz3 := rfl

theorem exE0 : cgSeq A3 Mi exbE exz3 0 = ⟨!₂[0, 0, 0], !₂[1, 0, -1], !₂[1, 0, -1], 2⟩ := by
  show cgInit A3 Mi exbE exz3 = _
  simp only [cgInit, exbE, exz3, Mi_apply, exA3_apply, inner3, sub3]
  norm_num

theorem exE1 : cgSeq A3 Mi exbE exz3 1 = ⟨!₂[1 / 2, 0, -1 / 2], !₂[0, 0, 0], !₂[0, 0, 0], 0⟩ := by
  show cgStep A3 Mi (cgSeq A3 Mi exbE exz3 0) = _
  rw [exE0]
  simp only [cgStep, cgAlpha, Mi_apply, exA3_apply, inner3, sub3, add3, smul3]
  norm_num

theorem exbE_norm_pos : 0 < ‖exbE‖ := by
  unfold exbE; rw [norm3]; apply Real.sqrt_pos.mpr; norm_num

theorem exbE_ne : exbE ≠ 0 := norm_pos_iff.mp exbE_norm_pos

theorem exbE_solves : A3 !₂[1 / 2, 0, -1 / 2] = exbE := by
  simp only [exA3_apply, exbE]; norm_num

/-- guards of column 1 (`e₀`) during its first three steps, from the single-column run -/
theorem exB_guards1 : GuardsOffN A3 Mi smallR exb3 exz3 3 := by
  have h := ex3_guards 5
  rw [ex3_steps] at h
  exact h

/-- the shared loop makes exactly `2 = max_iters` steps: column 1 is above its tolerance `1/5` at `i = 0, 1` -/
theorem exB_steps :
    runSteps (matArr exA3) ((none : Option (Matrix (Fin 3) (Fin 3) ℝ)).map matArr)
      (colsArr exB2) (colsArr exZ2) 2 (RCLike.ofReal (1 / 10 : ℝ)) = 2 := by
  obtain ⟨h1, -⟩ := run_stop_exact exA3 none exB2 exZ2 2 (1 / 10)
  obtain ⟨t, ht⟩ : ∃ t, t = runSteps (matArr exA3) ((none : Option (Matrix (Fin 3) (Fin 3) ℝ)).map matArr)
      (colsArr exB2) (colsArr exZ2) 2 (RCLike.ofReal (1 / 10 : ℝ)) := ⟨_, rfl⟩
  simp only [← ht] at h1 ⊢
  have hcore : ∀ i ≤ 2, (colState exA3 none exB2 exZ2 1 i).r = (cgSeq A3 Mi exb3 exz3 i).r := by
    intro i hi
    have h := gSeq_core (A := A3) (M := Mi) smallR_pos i
      (fun j hj => exB_guards1 j (by omega))
    unfold colState
    rw [exB2_one, exZ2_apply, show normDen exb3 = ((‖exb3‖ : ℝ) : ℝ) from nscale_of_ne exb3_ne]
    have e : ((gStep A3 Mi smallR)^[i] (gInit A3 Mi ((((‖exb3‖ : ℝ) : ℝ))⁻¹ • exb3)
        ((((‖exb3‖ : ℝ) : ℝ))⁻¹ • exz3))).r =
        (cgSeq A3 Mi ((((‖exb3‖ : ℝ) : ℝ))⁻¹ • exb3) ((((‖exb3‖ : ℝ) : ℝ))⁻¹ • exz3) i).r := by
      have := congrArg CGState.r h
      exact this
    rw [e, ex3_nb, ex3_nz]
  have htol : tolEffR exA3 none exB2 exZ2 (1 / 10) 1 = 1 / 5 := by
    unfold tolEffR
    rw [hcore 0 (Nat.zero_le _), exS0, norm3]
    norm_num
  rcases h1 with h | h
  · exact h
  · have hle : t ≤ 2 := by
      rw [ht, ← run_k]; exact run_cap _ _ _ _ _ _
    by_contra hc
    have h0 := h 1
    rw [htol, hcore t hle] at h0
    have ht3 : t = 0 ∨ t = 1 := by omega
    rcases ht3 with e | e <;> subst e
    · rw [exS0, norm3] at h0; norm_num at h0
    · rw [exS1, norm3, show (0 : ℝ) ^ 2 + (1 / 2) ^ 2 + 0 ^ 2 = (1 / 2) ^ 2 by norm_num,
        Real.sqrt_sq (by norm_num)] at h0
      norm_num at h0

/-- **column 0 is frozen after ONE step while the loop makes TWO**: the `k'` of `xOut_final` is `1 < 2 = k`, the
column's residual is (exactly zero, hence) below `1e-40 ‖b‖`, and the returned column is the exact solution -/
theorem exB_kprime :
    ∃ k', k' = 1 ∧
      k' < runSteps (matArr exA3) ((none : Option (Matrix (Fin 3) (Fin 3) ℝ)).map matArr)
        (colsArr exB2) (colsArr exZ2) 2 (RCLike.ofReal (1 / 10 : ℝ)) ∧
      MaskOffN A3 Mi smallR (exB2 0) (exZ2 0) k' ∧
      ‖(cgSeq A3 Mi (exB2 0) (exZ2 0) k').r‖ < smallR * ‖exB2 0‖ ∧
      xOut exA3 none exB2 exZ2 2 (RCLike.ofReal (1 / 10 : ℝ)) 0 = (cgSeq A3 Mi (exB2 0) (exZ2 0) k').x ∧
      xOut exA3 none exB2 exZ2 2 (RCLike.ofReal (1 / 10 : ℝ)) 0 = !₂[1 / 2, 0, -1 / 2] := by
  obtain ⟨k', hk', hmask, hor, hx⟩ := xOut_final exA3_posDef ex3_noprec exB2 exZ2 2
    (RCLike.ofReal (1 / 10 : ℝ)) 0 (by rw [exB2_zero]; exact exbE_ne)
  rw [exB_steps] at hk' hor
  rw [exB2_zero, exZ2_apply] at hmask hor hx
  have hpos : 0 < smallR * ‖exbE‖ := mul_pos smallR_pos exbE_norm_pos
  have hk1 : k' = 1 := by
    have hle1 : k' ≤ 1 := by
      by_contra hc
      have := hmask 1 (by omega)
      rw [exE1, norm3] at this
      norm_num at this
      linarith
    have hge1 : 1 ≤ k' := by
      by_contra hc
      have hk0 : k' = 0 := by omega
      subst hk0
      rcases hor with h | h
      · omega
      · rw [exE0] at h
        have hb : (!₂[1, 0, -1] : EuclideanSpace ℝ (Fin 3)) = exbE := rfl
        rw [hb] at h
        have hs : smallR ≤ 1 := by unfold smallR; norm_num
        nlinarith [exbE_norm_pos]
    omega
  subst hk1
  refine ⟨1, rfl, by rw [exB_steps]; norm_num, by rw [exB2_zero, exZ2_apply]; exact hmask, ?_, ?_, ?_⟩
  · rw [exB2_zero, exZ2_apply, exE1, norm3]; norm_num; exact hpos
  · rw [exB2_zero, exZ2_apply]; exact hx
  · rw [hx, exE1]

end CG
