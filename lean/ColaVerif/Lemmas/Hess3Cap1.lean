import ColaVerif.Lemmas.GMRESBatch

/-!
# The 3 × 3 system of `Hess3` with `max_iters = 1` (second cap for the witness of `C13_monotone`)
-/

open scoped InnerProductSpace
open Finset Arnoldi

namespace Hess3

/-- one step with `max_iters = 1`: `H[:, 0] = (1, 2)` -/
theorem h1_entries (tol : ℝ) (htol : 0 < tol) (htol4 : tol ≤ 4) (l i : Nat) :
    (colAt A 1 tol (e 0) 1).h l i = if i = 0 then (if l = 1 then 2 else if l = 0 then 1 else 0) else 0 := by
  by_cases hi : i = 0
  · subst hi
    have h := colAt_of_presentation A 1 tol (e 0) htol e0_ne e aH bt 1 (le_refl _)
      (by rw [norm_e0]; simp) (fun x hx y hy => e_ON x (by omega) y (by omega))
      (by
        intro i hi
        have : i = 0 := by omega
        subst this
        rw [A_e0]; simp [aH, bt, mat])
      (by
        intro i hi
        unfold bt
        split <;> linarith) 1 (le_refl _)
    rw [h.2 0 (by norm_num) l, if_pos rfl]
    by_cases hl1 : l = 1
    · subst hl1; simp [bt]
    · by_cases hl0 : l = 0
      · subst hl0; simp [aH, mat]
      · have : ¬ l < 0 + 1 := by omega
        simp [hl1, hl0, this]
  · rw [if_neg hi]
    exact (inv_colAfter A 1 (e 0) tol e0_ne htol 1 (le_refl _)).hZeroCol i (by omega) l

theorem beta1 (tol : ℝ) (htol : 0 < tol) (htol4 : tol ≤ 4) : (colAt A 1 tol (e 0) 1).beta 0 = 2 := by
  unfold Col.beta
  rw [h1_entries tol htol htol4]
  simp

/-- with `max_iters = 1` the loop makes one step -/
theorem idx_cap1 (tol : ℝ) (htol : 0 < tol) : (runE A 3 1 tol [e 0]).idx = 1 := by
  obtain ⟨h1, h2, _⟩ := steps_char A 1 tol (e 0) 3 htol e0_ne
  have hm : min 1 3 = 1 := rfl
  rw [hm] at h1 h2
  rcases h2 with h2 | h2
  · exact h2
  · have := h2.1
    omega

/-- clause `maskExact` holds after the one step of `max_iters = 1`, `tol = 1/100` -/
theorem mask1 : GMRES.MaskExact false 1 (1 / 100) 1 (colAt A 1 (1 / 100) (e 0) 1) := by
  have hinv := inv_colAfter A 1 (e 0) (1 / 100) e0_ne (by norm_num) 1 (le_refl _)
  apply GMRES.maskExact_of_entries hinv (by norm_num) (by norm_num) (le_refl _) 3 (by norm_num)
  · intro r j
    rw [h1_entries (1 / 100) (by norm_num) (by norm_num)]
    split
    · split
      · norm_num
      · split <;> norm_num
    · simp
  · intro j hj
    have : j = 0 := by omega
    subst this
    refine ⟨1, by omega, ?_⟩
    rw [h1_entries (1 / 100) (by norm_num) (by norm_num)]
    norm_num

end Hess3
