import ColaVerif.Model.RuleSkeleton
import Mathlib.Tactic.Ring
import Mathlib.Tactic.Linarith

/-!
# C19, rule level: what `f(A)` allocates is linear in the factors

`Op.ruleCost_le`: when the rules of `f` reach down to the factors of `A` (`deepRule`),
`ruleCost f A ≤ CF · factorDense A + OW · linSize A` — `CF = 7` dense copies of each FACTOR, plus
`OW = 3` vectors of the linear size per member of every node.  No term is a product of the extents
of a composite node.
-/

namespace Op
variable {R : Type}

theorem ownW_le (f : Fn) : ownW f ≤ OW := by cases f <;> decide
theorem cf_le (f : Fn) : cf f ≤ CF := by cases f <;> decide

theorem sum_map_le_sum_map {α : Type} (L : List α) (f g : α → Nat) (h : ∀ M ∈ L, f M ≤ g M) :
    (L.map f).sum ≤ (L.map g).sum := by
  induction L with
  | nil => simp
  | cons M L ih =>
    simp only [List.map_cons, List.sum_cons]
    have := h M (by simp)
    have := ih (fun N hN => h N (by simp [hN]))
    omega

theorem sum_map_lin {α : Type} (L : List α) (a b : Nat) (x y : α → Nat) :
    (L.map (fun M => a * x M + b * y M)).sum = a * (L.map x).sum + b * (L.map y).sum := by
  induction L with
  | nil => simp
  | cons M L ih =>
    simp only [List.map_cons, List.sum_cons, ih]
    ring

theorem all_members_cost {Ms : List (Op R)} {p : Op R → Bool} (h : (Ms.map (fun M => p M)).all id = true) :
    ∀ M ∈ Ms, p M = true := by
  intro M hM
  rw [List.all_eq_true] at h
  exact h _ (List.mem_map.mpr ⟨M, hM, rfl⟩)

/-- the shared step of the composite kinds: own cost of the node plus the members -/
theorem members_step (f g : Fn) (A : Op R) (Ms : List (Op R)) (k : Nat)
    (hk : ownCost f A ≤ OW * k)
    (ih : ∀ M ∈ Ms, ruleCost g M ≤ CF * factorDense M + OW * linSize M) :
    ownCost f A + (Ms.map (fun M => ruleCost g M)).sum ≤
      CF * (Ms.map (fun M => M.factorDense)).sum + OW * (k + (Ms.map (fun M => M.linSize)).sum) := by
  have h1 := sum_map_le_sum_map Ms (fun M => ruleCost g M) (fun M => CF * M.factorDense + OW * M.linSize) ih
  rw [sum_map_lin Ms CF OW (fun M => M.factorDense) (fun M => M.linSize)] at h1
  have : OW * (k + (Ms.map (fun M => M.linSize)).sum) = OW * k + OW * (Ms.map (fun M => M.linSize)).sum := by ring
  omega

theorem own_step (x c k t : Nat) (h : x ≤ OW * k) : x ≤ CF * c + OW * (k + t) := by
  rw [Nat.mul_add]; omega

theorem ownCost_le (f : Fn) (A : Op R) (n v : Nat) (ha : arity A = n) (hv : A.vol = v) :
    ownCost f A ≤ OW * ((n + 1) * (v + 4)) := by
  unfold ownCost
  rw [ha, hv]
  exact Nat.mul_le_mul_right _ (ownW_le f)

theorem genCost_le (f : Fn) (A : Op R) : genCost f A ≤ CF * (A.rows * A.cols) := by
  unfold genCost
  exact Nat.mul_le_mul_right _ (cf_le f)

theorem leaf_case (f : Fn) (A : Op R) (c : Nat) (hfd : factorDense A = A.rows * A.cols)
    (hls : linSize A = 2 * (A.vol + 4)) (har : arity A = 1)
    (hc : c = ownCost f A ∨ c = genCost f A) :
    c ≤ CF * factorDense A + OW * linSize A := by
  rw [hfd, hls]
  rcases hc with rfl | rfl
  · have := ownCost_le f A 1 A.vol har rfl
    have e : (1 + 1) * (A.vol + 4) = 2 * (A.vol + 4) := by ring
    rw [e] at this
    omega
  · have := genCost_le f A
    omega

/-- **what `f(A)` allocates is linear in the factors** -/
theorem ruleCost_le : ∀ (A : Op R) (f : Fn), deepRule f A = true →
    ruleCost f A ≤ CF * factorDense A + OW * linSize A
  | annot a A, f, h => by
    rw [deepRule] at h
    rw [ruleCost, factorDense, linSize]
    exact ruleCost_le A f h
  | kron Ms, f, h => by
    rw [deepRule] at h
    rw [ruleCost, factorDense, linSize]
    split at h
    · exact own_step _ _ _ _ (ownCost_le f (kron Ms) Ms.length (kron Ms).vol (by simp [arity]) rfl)
    · cases h
    · rename_i g he
      exact members_step f g _ Ms _ (ownCost_le f (kron Ms) Ms.length _ (by simp [arity]) rfl)
        (fun M hM => ruleCost_le M g (all_members_cost h M hM))
  | kronsum Ms, f, h => by
    rw [deepRule] at h
    rw [ruleCost, factorDense, linSize]
    split at h
    · exact own_step _ _ _ _ (ownCost_le f (kronsum Ms) Ms.length (kronsum Ms).vol (by simp [arity]) rfl)
    · cases h
    · rename_i g he
      exact members_step f g _ Ms _ (ownCost_le f (kronsum Ms) Ms.length _ (by simp [arity]) rfl)
        (fun M hM => ruleCost_le M g (all_members_cost h M hM))
  | bdiag Ms mults, f, h => by
    rw [deepRule] at h
    rw [ruleCost, factorDense, linSize]
    split at h
    · exact own_step _ _ _ _ (ownCost_le f (bdiag Ms mults) Ms.length (bdiag Ms mults).vol (by simp [arity]) rfl)
    · cases h
    · rename_i g he
      exact members_step f g _ Ms _ (ownCost_le f (bdiag Ms mults) Ms.length _ (by simp [arity]) rfl)
        (fun M hM => ruleCost_le M g (all_members_cost h M hM))
  | prod Ms, f, h => by
    rw [deepRule] at h
    rw [ruleCost, factorDense, linSize]
    split at h
    · exact own_step _ _ _ _ (ownCost_le f (prod Ms) Ms.length (prod Ms).vol (by simp [arity]) rfl)
    · cases h
    · rename_i g he
      simp only [Bool.and_eq_true] at h
      rw [if_pos h.1]
      exact members_step f g _ Ms _ (ownCost_le f (prod Ms) Ms.length _ (by simp [arity]) rfl)
        (fun M hM => ruleCost_le M g (all_members_cost h.2 M hM))
  | sum Ms, f, h => by
    rw [deepRule] at h
    rw [ruleCost, factorDense, linSize]
    split at h
    · exact own_step _ _ _ _ (ownCost_le f (sum Ms) Ms.length (sum Ms).vol (by simp [arity]) rfl)
    · cases h
    · rename_i g he
      exact members_step f g _ Ms _ (ownCost_le f (sum Ms) Ms.length _ (by simp [arity]) rfl)
        (fun M hM => ruleCost_le M g (all_members_cost h M hM))
  | transpose A, f, h => by
    rw [deepRule] at h
    rw [ruleCost, factorDense, linSize]
    have ho := ownCost_le f (transpose A) 1 (transpose A).vol (by simp [arity]) rfl
    have e : (1 + 1) * ((transpose A).vol + 4) = 2 * ((transpose A).vol + 4) := by ring
    rw [e] at ho
    split at h
    · exact own_step _ _ _ _ ho
    · cases h
    · rename_i g he
      have := ruleCost_le A g h
      rw [Nat.mul_add]
      omega
  | adjoint A, f, h => by
    rw [deepRule] at h
    rw [ruleCost, factorDense, linSize]
    have ho := ownCost_le f (adjoint A) 1 (adjoint A).vol (by simp [arity]) rfl
    have e : (1 + 1) * ((adjoint A).vol + 4) = 2 * ((adjoint A).vol + 4) := by ring
    rw [e] at ho
    split at h
    · exact own_step _ _ _ _ ho
    · cases h
    · rename_i g he
      have := ruleCost_le A g h
      rw [Nat.mul_add]
      omega
  | eye dt n, f, h => by
    rw [deepRule] at h
    rw [ruleCost, linSize]
    split at h
    · exact own_step _ _ _ 0 (ownCost_le f _ 1 _ (by simp [arity]) rfl)
    · cases h
  | scalar dt s n, f, h => by
    rw [deepRule] at h
    rw [ruleCost, linSize]
    split at h
    · exact own_step _ _ _ 0 (ownCost_le f _ 1 _ (by simp [arity]) rfl)
    · cases h
  | diag dt n d, f, h => by
    rw [deepRule] at h
    rw [ruleCost, linSize]
    split at h
    · exact own_step _ _ _ 0 (ownCost_le f _ 1 _ (by simp [arity]) rfl)
    · cases h
  | dense dt r c a, f, _ => by
    rw [ruleCost]
    refine leaf_case f _ _ (by rw [factorDense]) (by rw [linSize]) (by simp [arity]) ?_
    split <;> simp
  | tri dt r c l a, f, _ => by
    rw [ruleCost]
    refine leaf_case f _ _ (by rw [factorDense]) (by rw [linSize]) (by simp [arity]) ?_
    split <;> simp
  | perm dt p, f, h => by
    rw [deepRule] at h
    rw [ruleCost, linSize]
    split at h
    · exact own_step _ _ _ 0 (ownCost_le f _ 1 _ (by simp [arity]) rfl)
    · cases h
  | sparse dt r c e, f, h => by
    rw [deepRule] at h
    cases h
  | tridiag dt n al be ga, f, h => by
    rw [deepRule] at h
    cases h
  | sliced A s0 s1, f, h => by
    rw [deepRule] at h
    cases h
  | concat ax Ms, f, h => by
    rw [deepRule] at h
    cases h
  | house dt n v beta, f, h => by
    rw [deepRule] at h
    cases h
  | generic A, f, h => by
    rw [deepRule] at h
    cases h
termination_by A => sizeOf A
decreasing_by
  all_goals simp_wf
  all_goals first
    | omega
    | (rename_i hM; have := List.sizeOf_lt_of_mem hM; omega)

end Op
