import ColaVerif.Lemmas.InvLeft

/-!
# The returned operator satisfies the side conditions of its product code (C06)

`invRule_well`: from the hypotheses on the INPUT (`InvHyp`, `Good A`, `A.RealTyped`), the
compatibility of the reciprocal with conjugation, and — the one condition on the result —
that its composite nodes which REPORT SelfAdjoint are Hermitian (`NodesOK`), the returned operator
satisfies `WellI`; hence (`wellI_ok`) its left product, `to_dense` and `.T` are those of the
inverse.
-/

namespace Inv
variable {R : Type} [CommRing R] [StarRing R] [DecidableEq R]

/-- the reciprocal commutes with conjugation (true of `x⁻¹` in a field with a star ring
structure, and of `GRat.inv`) -/
def RecipStar (E : Ext R) : Prop := ∀ x, star (E.recip x) = E.recip (star x)

/-- the composite nodes of the result that report SelfAdjoint are Hermitian -/
def NodesOK (E : Ext R) : InvOp R → Prop
  | .op _ => True
  | .triInv .. => True
  | .iterInv .. => True
  | .prod Ms => NodeHypI E (.prod Ms) ∧ ∀ M ∈ Ms, NodesOK E M
  | .kron Ms => NodeHypI E (.kron Ms) ∧ ∀ M ∈ Ms, NodesOK E M
  | .bdiag Ms mults => NodeHypI E (.bdiag Ms mults) ∧ ∀ M ∈ Ms, NodesOK E M

/-- what is carried along the declaration wrappers -/
structure Side (top cur : Op R) : Prop where
  same : SameMat top cur
  gtop : Op.Good top
  rtop : top.RealTyped
  gcur : Op.Good cur
  rcur : cur.RealTyped

theorem Side.refl {A : Op R} (hg : Op.Good A) (hr : A.RealTyped) : Side A A :=
  ⟨SameMat.refl A, hg, hr, hg, hr⟩

theorem Side.annot {top : Op R} {a : Ann} {A : Op R} (h : Side top (.annot a A)) : Side top A :=
  ⟨h.same.annot, h.gtop, h.rtop, h.gcur.annot_child, by have := h.rcur; rw [Op.RealTyped] at this; exact this⟩

theorem hermNode_of_not_isa (A : Op R) (h : A.isa .selfAdjoint = false) : Op.HermNode A := by
  intro hsa
  rw [h] at hsa
  cases hsa

theorem good_perm (dt : DType) (p : List Nat) (hlt : ∀ t ∈ p, t < p.length) (hnd : p.Nodup) :
    Op.Good (Op.perm dt p : Op R) := by
  refine ⟨?_, by simp [Op.dupSlice], ?_⟩
  · simp only [Op.wf, Bool.and_eq_true, List.all_eq_true, decide_eq_true_eq]
    exact ⟨hlt, hnd⟩
  · simp only [Op.HermOK]
    apply hermNode_of_not_isa
    simp [Op.isa, Op.anns, AnnSet.isa, Ann.sub]

theorem wellI_perm (E : Ext R) (dt : DType) (p : List Nat) (hlt : ∀ t ∈ p, t < p.length)
    (hnd : p.Nodup) : WellI E (.op (.perm dt (argsort p))) := by
  rw [WellI]
  have hwf := argsort_wf p hlt hnd
  exact ⟨good_perm dt _ hwf.1 hwf.2, by simp [Op.RealTyped]⟩

theorem algRule_well (E : Ext R) (alg : Alg) (A : Op R) (h : AlgHyp E alg A)
    (B : InvOp R) (hB : algRule E alg A = .ok B) (hn : NodesOK E B) : WellI E B := by
  obtain ⟨hsq, hg, hc⟩ := h
  unfold algRule at hB
  generalize hea : effAlg alg (A.isa .psd) (A.rows * A.cols) = ea at hB hc
  cases ea with
  | auto => exact absurd hc id
  | gmres =>
    simp only at hB hc
    cases hB
    rw [WellI]
    exact ⟨hsq, hc⟩
  | cg =>
    simp only at hB hc
    split at hB
    · cases hB
      rw [WellI]
      exact ⟨hsq, hc⟩
    · cases hB
  | other =>
    simp only at hB hc
    split at hB
    · cases hB
      rw [WellI]
      have sp := Op.adjointRule_spec A hg hc.2
      refine ⟨⟨by simp only [Op.wf]; exact sp.wf, by simp only [Op.dupSlice]; exact sp.nd, ?_⟩,
        by simp only [Op.RealTyped]; exact sp.real⟩
      simp only [Op.HermOK]
      refine ⟨?_, sp.herm⟩
      intro hsa
      have hsa' : A.adjointRule.isa .selfAdjoint = true := by
        simp only [Op.isa, Op.anns, AnnSet.isa, AnnSet.union, List.any_append, Bool.or_eq_true,
          List.any_eq_true] at hsa ⊢
        rcases hsa with hsa | ⟨x, hx, hxs⟩
        · exact hsa
        · simp only [List.mem_filter, List.mem_singleton] at hx
          rw [hx.1] at hxs
          simp [Ann.sub] at hxs
      have := sp.herm.node hsa'
      simp only [Op.rows, Op.cols, Op.den]
      exact this
    · cases hB
  | lu =>
    simp only at hB hc
    cases hB
    obtain ⟨hlt, hnd, hlen, hL, hU, hdL, hdU, _⟩ := hc
    rw [NodesOK] at hn
    rw [WellI]
    refine ⟨hn.1, by simp, ⟨A.rows, ?_⟩, ?_⟩
    · intro M hM
      simp only [List.mem_cons, List.not_mem_nil, or_false] at hM
      rcases hM with rfl | rfl | rfl
      · exact ⟨by simp only [InvOp.rows], by simp only [InvOp.cols]⟩
      · exact ⟨by simp only [InvOp.rows], by simp only [InvOp.cols]⟩
      · exact ⟨by simp only [InvOp.rows, Op.rows, argsort_length, hlen],
          by simp only [InvOp.cols, Op.cols, argsort_length, hlen]⟩
    · intro M hM
      simp only [List.mem_cons, List.not_mem_nil, or_false] at hM
      rcases hM with rfl | rfl | rfl
      · rw [WellI]; exact ⟨by simpa using hU, hdU⟩
      · rw [WellI]; exact ⟨by simpa using hL, hdL⟩
      · exact wellI_perm E _ _ hlt hnd
  | chol =>
    simp only at hB hc
    split at hB
    · cases hB
      obtain ⟨hL, hdL, hdLH, _⟩ := hc
      have hUH : UpperTri A.rows (conjM (transposeM (E.chol A.rows A.td.f).f)) := by
        intro i j hi hj hij
        simp only [conjM, transposeM]
        rw [hL j i hj hi hij, star_zero]
      rw [NodesOK] at hn
      rw [WellI]
      refine ⟨hn.1, by simp, ⟨A.rows, ?_⟩, ?_⟩
      · intro M hM
        simp only [List.mem_cons, List.not_mem_nil, or_false] at hM
        rcases hM with rfl | rfl
        · exact ⟨by simp only [InvOp.rows], by simp only [InvOp.cols]⟩
        · exact ⟨by simp only [InvOp.rows], by simp only [InvOp.cols]⟩
      · intro M hM
        simp only [List.mem_cons, List.not_mem_nil, or_false] at hM
        rcases hM with rfl | rfl
        · rw [WellI]; exact ⟨by simpa using hUH, hdLH⟩
        · rw [WellI]; exact ⟨by simpa using hL, hdL⟩
    · cases hB

theorem good_noann_leaf (X : Op R) (hwf : X.wf = true) (hnd : X.dupSlice = false)
    (hh : X.HermOK) : Op.Good X := ⟨hwf, hnd, hh⟩

theorem invAux_well (E : Ext R) (alg : Alg) (hstar : RecipStar E) : ∀ (cur top : Op R),
    Side top cur → HypAux E alg top cur → ∀ B, invAux E alg top cur = .ok B → NodesOK E B →
    WellI E B
  | .annot a A, top, hs, hh, B, hB, hn => by
    rw [invAux] at hB
    rw [HypAux] at hh
    exact invAux_well E alg hstar A top hs.annot hh B hB hn
  | .eye dt n, top, hs, _, B, hB, _ => by
    rw [invAux] at hB
    cases hB
    rw [WellI]
    exact ⟨hs.gtop, hs.rtop⟩
  | .scalar dt s n, top, hs, _, B, hB, _ => by
    rw [invAux] at hB
    cases hB
    rw [WellI]
    refine ⟨⟨by simp [Op.wf], by simp [Op.dupSlice], ?_⟩, ?_⟩
    · simp only [Op.HermOK]
      exact Op.hermNode_of_no_anns _ (by simp [Op.anns])
    · have := hs.rcur
      simp only [Op.RealTyped] at this ⊢
      intro hd
      rw [hstar, this hd]
  | .perm dt p, top, _, hh, B, hB, _ => by
    rw [invAux] at hB
    cases hB
    rw [HypAux] at hh
    exact wellI_perm E dt p hh.1 hh.2
  | .diag dt n d, top, hs, _, B, hB, _ => by
    rw [invAux] at hB
    cases hB
    rw [WellI]
    refine ⟨⟨by simp [Op.wf], by simp [Op.dupSlice], ?_⟩, ?_⟩
    · simp only [Op.HermOK]
      exact Op.hermNode_of_no_anns _ (by simp [Op.anns])
    · have := hs.rcur
      simp only [Op.RealTyped] at this ⊢
      intro hd i hi
      rw [hstar, this hd i hi]
  | .tri dt r c lower a, top, _, hh, B, hB, _ => by
    rw [invAux] at hB
    cases hB
    rw [HypAux] at hh
    rw [WellI]
    exact ⟨hh.2.1, hh.2.2⟩
  | .prod Ms, top, hs, hh, B, hB, hn => by
    rw [invAux] at hB
    rw [HypAux] at hh
    by_cases hsq : allSquare Ms = true
    · rw [if_pos hsq] at hB hh
      obtain ⟨hne, hch, hmem⟩ := hh
      cases hseq : sequence (Ms.map (fun M => invAux E alg M M)) with
      | error e => rw [hseq] at hB; simp [Except.map] at hB
      | ok l =>
        rw [hseq] at hB
        simp only [Except.map] at hB
        cases hB
        rw [NodesOK] at hn
        have hf := forall₂_with_mem (sequence_ok (fun M => invAux E alg M M) Ms l hseq)
        have hgm := hs.gcur.prod_mem
        have hrm : ∀ M ∈ Ms, M.RealTyped := by
          have := hs.rcur; rw [Op.RealTyped] at this; exact this
        obtain ⟨n, hsh⟩ : ∃ n, ∀ M ∈ Ms, M.rows = n ∧ M.cols = n := by
          cases Ms with
          | nil => exact absurd rfl hne
          | cons M0 Ms' => exact ⟨M0.rows, square_chain Ms' M0 hsq hch⟩
        have hlne : l ≠ [] := by
          intro hl
          rw [hl] at hf
          cases hf
          exact hne rfl
        rw [WellI]
        refine ⟨hn.1, by simpa using hlne, ⟨n, ?_⟩, ?_⟩
        · intro B hB
          obtain ⟨M, hM, hMB⟩ := forall₂_exists_left hf B (List.mem_reverse.mp hB)
          have s := invAux_sound E alg M M (SameMat.refl M) (hmem M hM) B hMB.1
          exact ⟨by rw [s.rows, (hsh M hM).1], by rw [s.cols, (hsh M hM).1]⟩
        · intro B hB
          obtain ⟨M, hM, hMB⟩ := forall₂_exists_left hf B (List.mem_reverse.mp hB)
          exact invAux_well E alg hstar M M (Side.refl (hgm M hM) (hrm M hM)) (hmem M hM) B hMB.1
            (hn.2 B hB)
    · rw [if_neg hsq] at hB hh
      exact algRule_well E alg top hh B hB hn
  | .kron Ms, top, hs, hh, B, hB, hn => by
    rw [invAux] at hB
    rw [HypAux] at hh
    cases hseq : sequence (Ms.map (fun M => invAux E alg M M)) with
    | error e => rw [hseq] at hB; simp [Except.map] at hB
    | ok l =>
      rw [hseq] at hB
      simp only [Except.map] at hB
      cases hB
      rw [NodesOK] at hn
      have hf := forall₂_with_mem (sequence_ok (fun M => invAux E alg M M) Ms l hseq)
      have hgm := hs.gcur.kron_mem
      have hrm : ∀ M ∈ Ms, M.RealTyped := by
        have := hs.rcur; rw [Op.RealTyped] at this; exact this
      rw [WellI]
      refine ⟨hn.1, ?_⟩
      intro B hB
      obtain ⟨M, hM, hMB⟩ := forall₂_exists_left hf B hB
      exact invAux_well E alg hstar M M (Side.refl (hgm M hM) (hrm M hM)) (hh M hM) B hMB.1
        (hn.2 B hB)
  | .bdiag Ms mults, top, hs, hh, B, hB, hn => by
    rw [invAux] at hB
    rw [HypAux] at hh
    cases hseq : sequence (Ms.map (fun M => invAux E alg M M)) with
    | error e => rw [hseq] at hB; simp [Except.map] at hB
    | ok l =>
      rw [hseq] at hB
      simp only [Except.map] at hB
      cases hB
      rw [NodesOK] at hn
      have hf := forall₂_with_mem (sequence_ok (fun M => invAux E alg M M) Ms l hseq)
      have hgm := hs.gcur.bdiag_mem
      have hrm : ∀ M ∈ Ms, M.RealTyped := by
        have := hs.rcur; rw [Op.RealTyped] at this; exact this
      rw [WellI]
      refine ⟨hn.1, ?_⟩
      intro B hB
      obtain ⟨M, hM, hMB⟩ := forall₂_exists_left hf B hB
      exact invAux_well E alg hstar M M (Side.refl (hgm M hM) (hrm M hM)) (hh M hM) B hMB.1
        (hn.2 B hB)
  | .dense .., top, hs, hh, B, hB, hn => by
    rw [invAux] at hB; rw [HypAux] at hh; exact algRule_well E alg top hh B hB hn
  | .sparse .., top, hs, hh, B, hB, hn => by
    rw [invAux] at hB; rw [HypAux] at hh; exact algRule_well E alg top hh B hB hn
  | .sum _, top, hs, hh, B, hB, hn => by
    rw [invAux] at hB; rw [HypAux] at hh; exact algRule_well E alg top hh B hB hn
  | .kronsum _, top, hs, hh, B, hB, hn => by
    rw [invAux] at hB; rw [HypAux] at hh; exact algRule_well E alg top hh B hB hn
  | .tridiag .., top, hs, hh, B, hB, hn => by
    rw [invAux] at hB; rw [HypAux] at hh; exact algRule_well E alg top hh B hB hn
  | .transpose _, top, hs, hh, B, hB, hn => by
    rw [invAux] at hB; rw [HypAux] at hh; exact algRule_well E alg top hh B hB hn
  | .adjoint _, top, hs, hh, B, hB, hn => by
    rw [invAux] at hB; rw [HypAux] at hh; exact algRule_well E alg top hh B hB hn
  | .sliced .., top, hs, hh, B, hB, hn => by
    rw [invAux] at hB; rw [HypAux] at hh; exact algRule_well E alg top hh B hB hn
  | .concat .., top, hs, hh, B, hB, hn => by
    rw [invAux] at hB; rw [HypAux] at hh; exact algRule_well E alg top hh B hB hn
  | .house .., top, hs, hh, B, hB, hn => by
    rw [invAux] at hB; rw [HypAux] at hh; exact algRule_well E alg top hh B hB hn
  | .generic _, top, hs, hh, B, hB, hn => by
    rw [invAux] at hB; rw [HypAux] at hh; exact algRule_well E alg top hh B hB hn
termination_by cur => sizeOf cur
decreasing_by
  all_goals simp_wf
  all_goals first
    | omega
    | (have := List.sizeOf_lt_of_mem hM; omega)

/-- from hypotheses on the input (and `NodesOK` of the result) to `WellI` of the result -/
theorem invRule_well (E : Ext R) (alg : Alg) (hstar : RecipStar E) (A : Op R) (h : InvHyp E alg A)
    (hg : Op.Good A) (hr : A.RealTyped) (B : InvOp R) (hB : invRule E alg A = .ok B)
    (hn : NodesOK E B) : WellI E B :=
  invAux_well E alg hstar A A (Side.refl hg hr) h B hB hn

end Inv
