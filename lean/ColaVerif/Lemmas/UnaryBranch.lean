import ColaVerif.Lemmas.UnaryMatFun
import Mathlib.Analysis.SpecialFunctions.Pow.Complex
import Mathlib.Analysis.SpecialFunctions.Complex.Log
import Mathlib.Analysis.SpecialFunctions.Complex.Arg

/-!
# C09 over `ℂ`: the principal branches and the DOMAINS of the structural rules

The rules of `unary.py` are stated in `Lemmas/UnaryMatFun.lean` for an abstract scalar function with
named functional equations.  Here the scalar functions are the ones numpy evaluates — `Complex.exp`,
`Complex.log`, `z ↦ z ^ α` (`Complex.cpow`, `exp (α log z)`, principal branch) — and every functional
equation is either PROVED, or proved on an explicit domain together with a counter-example outside:

| rule | equation | domain |
|---|---|---|
| `exp(KronSum) = ⊗ exp` | `exp (a + b) = exp a * exp b` | all of `ℂ` (`kronSum_exp`) |
| `pow(Kronecker, α) = ⊗ pow` | `(a b) ^ α = a ^ α b ^ α` | `ArgSumOK S T` : `arg a + arg b ∈ (-π, π]` (`cpow_mul_of_argSum`, `kronecker_cpow`); witness: both spectra in the open right half plane (`argSumOK_rhp`); integer `α`: everywhere (`kronecker_zpow`); OUTSIDE: `kronecker_sqrt_counterexample` |
| `f(Aᴴ) = f(A)ᴴ` | `f (conj z) = conj (f z)` | `exp`: all of `ℂ`; `log`, `z ^ α` (real `α`): `OffCut S` : `arg z ≠ π`; OUTSIDE: `adjoint_log_counterexample` |
| `f(Aᵀ) = f(A)ᵀ` | — | everywhere (`IsMatFunOn.transpose`) |
-/

open Matrix MatFun Complex
open scoped Kronecker

namespace MatFun

/-- `x ** α` for a rational exponent: numpy's principal power of a complex number -/
noncomputable def cpowQ (α : ℚ) (z : ℂ) : ℂ := z ^ ((α : ℂ))

/-- the domain of the Kronecker rule for a non-integer power: arguments of the two spectra add
inside `(-π, π]` (no wrap around the branch cut) -/
def ArgSumOK (S T : Set ℂ) : Prop :=
  ∀ a ∈ S, ∀ b ∈ T, a ≠ 0 → b ≠ 0 → a.arg + b.arg ∈ Set.Ioc (-Real.pi) Real.pi

/-- the domain of the Adjoint rule for `log` / non-integer powers: no eigenvalue on the cut -/
def OffCut (S : Set ℂ) : Prop := ∀ z ∈ S, z.arg ≠ Real.pi

theorem cpow_mul_of_argSum (α : ℂ) {a b : ℂ} (ha : a ≠ 0) (hb : b ≠ 0)
    (h : a.arg + b.arg ∈ Set.Ioc (-Real.pi) Real.pi) : (a * b) ^ α = a ^ α * b ^ α := by
  rw [cpow_def_of_ne_zero (mul_ne_zero ha hb), cpow_def_of_ne_zero ha, cpow_def_of_ne_zero hb,
    (log_mul_eq_add_log_iff ha hb).mpr h, add_mul, Complex.exp_add]

/-- witness of the domain: two spectra in the open right half plane -/
theorem argSumOK_rhp : ArgSumOK {z : ℂ | 0 < z.re} {z : ℂ | 0 < z.re} := by
  intro a ha b hb _ _
  have h1 : |a.arg| < Real.pi / 2 := abs_arg_lt_pi_div_two_iff.mpr (Or.inl ha)
  have h2 : |b.arg| < Real.pi / 2 := abs_arg_lt_pi_div_two_iff.mpr (Or.inl hb)
  rw [abs_lt] at h1 h2
  constructor <;> linarith [h1.1, h1.2, h2.1, h2.2]

/-- the products then lie off the cut (so a further `log` / power is continuous there) -/
theorem rhp_mul_offCut {a b : ℂ} (ha : 0 < a.re) (hb : 0 < b.re) : (a * b).arg ≠ Real.pi := by
  have ha0 : a ≠ 0 := fun h => by rw [h] at ha; simp at ha
  have hb0 : b ≠ 0 := fun h => by rw [h] at hb; simp at hb
  have hs := argSumOK_rhp a ha b hb ha0 hb0
  have h1 : |a.arg| < Real.pi / 2 := abs_arg_lt_pi_div_two_iff.mpr (Or.inl ha)
  have h2 : |b.arg| < Real.pi / 2 := abs_arg_lt_pi_div_two_iff.mpr (Or.inl hb)
  rw [abs_lt] at h1 h2
  rw [(arg_mul_eq_add_arg_iff ha0 hb0).mpr hs]
  linarith [h1.2, h2.2]

variable {ι κ : Type} [Fintype ι] [DecidableEq ι] [Fintype κ] [DecidableEq κ]

/-- **`pow(A ⊗ B, α) = pow(A, α) ⊗ pow(B, α)` for the principal power, on the domain `ArgSumOK`**
(non-singular factors) -/
theorem kronecker_cpow {S T : Set ℂ} (α : ℚ) {A F : Matrix ι ι ℂ} {B G : Matrix κ κ ℂ}
    (hA : IsMatFunOn S (cpowQ α) A F) (hB : IsMatFunOn T (cpowQ α) B G)
    (hS0 : (0 : ℂ) ∉ S) (hT0 : (0 : ℂ) ∉ T) (hdom : ArgSumOK S T) :
    IsMatFunOn {c | ∃ a ∈ S, ∃ b ∈ T, c = a * b} (cpowQ α) (A ⊗ₖ B) (F ⊗ₖ G) := by
  refine hA.kronecker hB (fun a ha b hb => ⟨a, ha, b, hb, rfl⟩) (fun a ha b hb => ?_)
  have ha0 : a ≠ 0 := fun h => hS0 (h ▸ ha)
  have hb0 : b ≠ 0 := fun h => hT0 (h ▸ hb)
  exact cpow_mul_of_argSum _ ha0 hb0 (hdom a ha b hb ha0 hb0)

/-- integer exponents: the Kronecker rule holds for all spectra -/
theorem kronecker_zpow {S T : Set ℂ} (k : ℤ) {A F : Matrix ι ι ℂ} {B G : Matrix κ κ ℂ}
    (hA : IsMatFunOn S (fun z => z ^ k) A F) (hB : IsMatFunOn T (fun z => z ^ k) B G) :
    IsMatFunOn Set.univ (fun z => z ^ k) (A ⊗ₖ B) (F ⊗ₖ G) :=
  hA.kronecker hB (fun _ _ _ _ => Set.mem_univ _) (fun a _ b _ => mul_zpow a b k)

/-- `exp(A ⊕ B) = exp A ⊗ exp B` for the complex exponential: no domain restriction -/
theorem kronSum_exp {S T : Set ℂ} {A F : Matrix ι ι ℂ} {B G : Matrix κ κ ℂ}
    (hA : IsMatFunOn S Complex.exp A F) (hB : IsMatFunOn T Complex.exp B G) :
    IsMatFunOn Set.univ Complex.exp (A ⊗ₖ (1 : Matrix κ κ ℂ) + (1 : Matrix ι ι ℂ) ⊗ₖ B) (F ⊗ₖ G) :=
  hA.kronSum hB (fun _ _ _ _ => Set.mem_univ _) (fun a _ b _ => Complex.exp_add a b)

/-! ### the Adjoint rule -/

theorem adjoint_exp {S : Set ℂ} {A F : Matrix ι ι ℂ} (h : IsMatFunOn S Complex.exp A F) :
    IsMatFunOn Set.univ Complex.exp Aᴴ Fᴴ :=
  h.conjTranspose (fun _ _ => Set.mem_univ _) (fun z _ => by
    show Complex.exp ((starRingEnd ℂ) z) = (starRingEnd ℂ) (Complex.exp z)
    rw [Complex.exp_conj])

theorem adjoint_log {S : Set ℂ} {A F : Matrix ι ι ℂ} (h : IsMatFunOn S Complex.log A F)
    (hcut : OffCut S) : IsMatFunOn Set.univ Complex.log Aᴴ Fᴴ :=
  h.conjTranspose (fun _ _ => Set.mem_univ _) (fun z hz => Complex.log_conj z (hcut z hz))

theorem adjoint_cpow {S : Set ℂ} (α : ℚ) {A F : Matrix ι ι ℂ} (h : IsMatFunOn S (cpowQ α) A F)
    (hcut : OffCut S) : IsMatFunOn Set.univ (cpowQ α) Aᴴ Fᴴ :=
  h.conjTranspose (fun _ _ => Set.mem_univ _) (fun z hz => by
    show (starRingEnd ℂ) z ^ ((α : ℂ)) = (starRingEnd ℂ) (z ^ ((α : ℂ)))
    rw [Complex.conj_cpow z _ (hcut z hz)]
    congr 2
    simp)

/-- OUTSIDE the domain of the Adjoint rule: for the `1 × 1` … and every `n × n` scalar matrix `-1`,
`log(Aᴴ) = iπ` but `log(A)ᴴ = -iπ` -/
theorem adjoint_log_counterexample :
    Complex.log ((starRingEnd ℂ) (-1)) ≠ (starRingEnd ℂ) (Complex.log (-1)) ∧ (-1 : ℂ).arg = Real.pi := by
  refine ⟨?_, by simp⟩
  simp only [map_neg, map_one, Complex.log_neg_one, map_mul, Complex.conj_ofReal, Complex.conj_I]
  intro h
  have := congrArg Complex.im h
  simp at this
  linarith [Real.pi_pos]

/-! ### outside the domain of the Kronecker rule -/

theorem cpowQ_half_one : cpowQ (1 / 2) 1 = 1 := by simp [cpowQ]

theorem cpowQ_half_neg_one : cpowQ (1 / 2) (-1) = Complex.I := by
  unfold cpowQ
  rw [cpow_def_of_ne_zero (by norm_num), Complex.log_neg_one]
  have : (Real.pi : ℂ) * Complex.I * ((1 / 2 : ℚ) : ℂ) = ((Real.pi / 2 : ℝ) : ℂ) * Complex.I := by
    push_cast; ring
  rw [this, Complex.exp_mul_I, ← Complex.ofReal_cos, ← Complex.ofReal_sin, Real.cos_pi_div_two,
    Real.sin_pi_div_two]
  simp

/-- generic form: any scalar function with `s 1 = 1`, `s (-1) = i` -/
theorem kronecker_counter_generic (s : ℂ → ℂ) (h1 : s 1 = 1) (hm : s (-1) = Complex.I) :
    ∃ (A F : Matrix (Fin 2) (Fin 2) ℂ) (H : Matrix (Fin 2 × Fin 2) (Fin 2 × Fin 2) ℂ),
      IsMatFun s A F ∧ IsMatFun s (A ⊗ₖ A) H ∧ H ≠ F ⊗ₖ F ∧ (F ⊗ₖ F) * (F ⊗ₖ F) = A ⊗ₖ A := by
  let d : Fin 2 → ℂ := ![-1, 1]
  refine ⟨Matrix.diagonal d, Matrix.diagonal (fun i => s (d i)),
    Matrix.diagonal (fun p : Fin 2 × Fin 2 => s (d p.1 * d p.2)),
    IsMatFunOn.diagonal _ d (fun _ => Set.mem_univ _), ?_, ?_, ?_⟩
  · rw [diagonal_kronecker_diagonal]
    exact IsMatFunOn.diagonal _ _ (fun _ => Set.mem_univ _)
  · intro h
    have h0 := congrFun (congrFun h (0, 0)) (0, 0)
    simp [d, Matrix.kroneckerMap_apply, h1, hm] at h0
    norm_num at h0
  · rw [diagonal_kronecker_diagonal, diagonal_kronecker_diagonal, diagonal_mul_diagonal]
    congr 1
    funext p
    have hsq : ∀ i : Fin 2, s (d i) * s (d i) = d i := by
      intro i
      fin_cases i
      · simp [d, hm]
      · simp [d, h1]
    calc s (d p.1) * s (d p.2) * (s (d p.1) * s (d p.2))
        = (s (d p.1) * s (d p.1)) * (s (d p.2) * s (d p.2)) := by ring
      _ = d p.1 * d p.2 := by rw [hsq, hsq]

/-- **OUTSIDE the domain**: `A = B = diag(-1, 1)` (arguments `π + π`): the principal square root of
`A ⊗ B = diag(1, -1, -1, 1)` has the entry `1` at position `((0,0),(0,0))`, while
`sqrt(A) ⊗ sqrt(B) = diag(i, 1) ⊗ diag(i, 1)` has `i · i = -1` there: the Kronecker product of the
principal roots is a square root of `A ⊗ B`, but NOT the principal one. -/
theorem kronecker_sqrt_counterexample :
    (∃ (A F : Matrix (Fin 2) (Fin 2) ℂ) (H : Matrix (Fin 2 × Fin 2) (Fin 2 × Fin 2) ℂ),
      IsMatFun (cpowQ (1 / 2)) A F ∧ IsMatFun (cpowQ (1 / 2)) (A ⊗ₖ A) H ∧ H ≠ F ⊗ₖ F ∧
      (F ⊗ₖ F) * (F ⊗ₖ F) = A ⊗ₖ A) ∧ ¬ ArgSumOK {z | z = -1 ∨ z = 1} {z | z = -1 ∨ z = 1} := by
  refine ⟨kronecker_counter_generic _ cpowQ_half_one cpowQ_half_neg_one, ?_⟩
  intro h
  have := h (-1) (Or.inl rfl) (-1) (Or.inl rfl) (by norm_num) (by norm_num)
  simp only [Complex.arg_neg_one, Set.mem_Ioc] at this
  linarith [this.2, Real.pi_pos]

end MatFun
