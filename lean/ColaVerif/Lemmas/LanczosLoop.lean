import ColaVerif.Lemmas.LanczosInv

/-!
# The loop of the Lanczos code model (exact arithmetic)

* `whileLoop_iter`: the fuelled `whileLoop` of the model really is the `while` of the code: started
  with enough fuel (`lanczosFact` gives `m + 1`) it returns `body^[k] init` for the FIRST `k` at
  which the stopping test fails, the test holds at every earlier iterate, `k ≤ m` (the cap), and
  `info['iterations'] = k + 1`.
* `good_iter`: along the trajectory every member satisfies the invariant `Inv`, provided the
  pending column of every member was non-zero whenever the body ran (`AllPending`).
* `pending_single`: for ONE start vector `v ≠ 0` and `tol ≥ 0` the stopping test itself guarantees
  that (the body runs only while `β_{i-1} > tol β_1 ≥ 0`).
* `sb_iter_frame`: entries of `subdiag` are written once (frame property), so for a batch the
  condition can be read off the RETURNED off-diagonals (`pending_of_offdiag`).
-/

open scoped InnerProductSpace

namespace Lanczos

variable {𝕜 E : Type} [RCLike 𝕜] [NormedAddCommGroup E] [InnerProductSpace 𝕜 E]

attribute [local instance] exactNum exactVec

section loop
variable (A : E →ₗ[𝕜] E) (tol : ℝ) (m : ℕ) (vs : Array E)

/-- the state `init_lanczos` builds -/
noncomputable def initState : State 𝕜 E := { mems := vs.map (initMem (K := 𝕜) 0 m), i := 1 }

/-- the state after `t` executions of the body -/
noncomputable def iter (t : ℕ) : State 𝕜 E := (body (K := 𝕜) (⇑A) 0)^[t] (initState m vs)

theorem iter_succ (t : ℕ) : iter A m vs (t + 1) = body (K := 𝕜) (⇑A) 0 (iter A m vs t) := by
  simp only [iter, Function.iterate_succ_apply']

theorem iter_i (t : ℕ) : (iter A m vs t).i = t + 1 := by
  induction t with
  | zero => simp [iter, initState]
  | succ t ih => rw [iter_succ]; simp [body, ih]

theorem iter_size (t : ℕ) : (iter A m vs t).mems.size = vs.size := by
  induction t with
  | zero => simp [iter, initState]
  | succ t ih => rw [iter_succ]; simp [body, ih]

theorem iter_mem_succ (t b : ℕ) :
    (iter A m vs (t + 1)).mems[b]? =
      ((iter A m vs t).mems[b]?).map (bodyMem (K := 𝕜) (⇑A) 0 (t + 1)) := by
  rw [iter_succ]
  simp [body, iter_i]

omit [NormedAddCommGroup E] [InnerProductSpace 𝕜 E] in
theorem cond_le (st : State 𝕜 E) (h : cond (K := 𝕜) (tol : 𝕜) m st = true) : st.i ≤ m := by
  simp only [cond, Bool.and_eq_true, decide_eq_true_eq] at h
  exact h.1

/-- the fuelled loop is the `while` loop -/
theorem whileLoop_iter (fuel : ℕ) : ∀ (t : ℕ) (info : Info 𝕜), m + 1 ≤ fuel + t → 1 ≤ fuel → t ≤ m →
    ∃ k, t ≤ k ∧ k ≤ m ∧
      (whileLoop (K := 𝕜) (⇑A) 0 (tol : 𝕜) m fuel (iter A m vs t) info).1 = iter A m vs k ∧
      (∀ t', t ≤ t' → t' < k → cond (K := 𝕜) (tol : 𝕜) m (iter A m vs t') = true) ∧
      cond (K := 𝕜) (tol : 𝕜) m (iter A m vs k) = false ∧
      (whileLoop (K := 𝕜) (⇑A) 0 (tol : 𝕜) m fuel (iter A m vs t) info).2.iterations =
        info.iterations + (k - t) + 1 := by
  induction fuel with
  | zero => intro t info _ h _; omega
  | succ fuel ih =>
    intro t info hf _ htm
    by_cases hc : cond (K := 𝕜) (tol : 𝕜) m (iter A m vs t) = true
    · have hle := cond_le tol m _ hc
      rw [iter_i] at hle
      have hfuel1 : 1 ≤ fuel := by omega
      obtain ⟨k, hk1, hk2, hk3, hk4, hk5, hk6⟩ :=
        ih (t + 1) { iterations := info.iterations + 1,
                     errors := info.errors.push (errorFn (K := 𝕜) (iter A m vs t)) } (by omega) hfuel1 hle
      refine ⟨k, by omega, hk2, ?_, ?_, hk5, ?_⟩
      · simp only [whileLoop, hc, if_true]
        rw [← iter_succ]; exact hk3
      · intro t' h1 h2
        rcases Nat.eq_or_lt_of_le h1 with rfl | hlt
        · exact hc
        · exact hk4 t' (by omega) h2
      · simp only [whileLoop, hc, if_true]
        rw [← iter_succ, hk6]
        simp only
        omega
    · have hc' : cond (K := 𝕜) (tol : 𝕜) m (iter A m vs t) = false := by
        simpa using hc
      refine ⟨t, le_refl _, htm, ?_, ?_, hc', ?_⟩
      · simp [whileLoop, hc']
      · intro t' h1 h2; omega
      · simp [whileLoop, hc']

/-- every member satisfies the invariant after `j` executions of the body -/
@[reducible] def GoodAll (j : ℕ) (st : State 𝕜 E) : Prop :=
  ∀ (b : ℕ) (s : Mem 𝕜 E), st.mems[b]? = some s → Inv A m (vs.getD b 0) j s

/-- whenever the body ran at the `t`-th iterate, the pending column of every member was non-zero -/
@[reducible] def AllPending (t : ℕ) : Prop :=
  ∀ (b : ℕ) (s : Mem 𝕜 E), (iter A m vs t).mems[b]? = some s → qc s (t + 1) ≠ 0

theorem good_iter (hA : A.IsSymmetric) : ∀ t, t ≤ m → (∀ t', t' < t → AllPending A m vs t') →
    GoodAll A m vs t (iter A m vs t) := by
  intro t
  induction t with
  | zero =>
    intro _ _ b s hs
    simp only [iter, Function.iterate_zero, id, initState, Array.getElem?_map] at hs
    cases hv : vs[b]? with
    | none => rw [hv] at hs; simp at hs
    | some v =>
      rw [hv] at hs
      simp only [Option.map_some, Option.some.injEq] at hs
      subst hs
      have : vs.getD b 0 = v := by simp [Array.getD_eq_getD_getElem?, hv]
      rw [this]
      exact inv_init A m v
  | succ t ih =>
    intro htm hp b s hs
    rw [iter_mem_succ] at hs
    cases hprev : (iter A m vs t).mems[b]? with
    | none => rw [hprev] at hs; simp at hs
    | some s0 =>
      rw [hprev] at hs
      simp only [Option.map_some, Option.some.injEq] at hs
      subst hs
      have hinv := ih (by omega) (fun t' ht' => hp t' (by omega)) b s0 hprev
      exact inv_step hinv hA (by omega) (hp t (by omega) b s0 hprev)

/-- a member for which the stopping test says "large" has a non-zero pending column -/
theorem pending_of_isLarge (htol : 0 ≤ tol) (t : ℕ) (s : Mem 𝕜 E) (v : E) (hv : v ≠ 0)
    (hinv : Inv A m v t s) (hl : isLarge (K := 𝕜) (tol : 𝕜) (t + 1) s = true) :
    qc s (t + 1) ≠ 0 := by
  rcases Nat.eq_zero_or_pos t with rfl | ht
  · rw [hinv.first]
    have : ((‖v‖ : ℝ) : 𝕜) ≠ 0 := by exact_mod_cast norm_ne_zero_iff.mpr hv
    exact smul_ne_zero (inv_ne_zero this) hv
  · have hnot : ¬ (t + 1 ≤ 1) := by omega
    simp only [isLarge, Bool.or_eq_true, decide_eq_true_eq, hnot, or_false] at hl
    obtain ⟨r1, hr1, h1⟩ := hinv.subReal 1
    obtain ⟨rt, _, h2⟩ := hinv.subReal t
    have e1 : s.subdiag.getD 1 (Num.zero : 𝕜) = (r1 : 𝕜) := h1
    have e2 : s.subdiag.getD (t + 1 - 1) (Num.zero : 𝕜) = (rt : 𝕜) := by
      have : t + 1 - 1 = t := by omega
      rw [this]; exact h2
    rw [e1, e2] at hl
    simp only [Num.lt, Num.mul, Num.re, decide_eq_true_eq, RCLike.ofReal_re, RCLike.re_ofReal_mul] at hl
    have hpos : 0 < rt := lt_of_le_of_lt (mul_nonneg htol hr1) hl
    intro hz
    have h3 := hinv.subLast ht
    rw [h2, hz, norm_zero] at h3
    have : rt = 0 := by exact_mod_cast h3
    linarith

/-- one start vector: the test itself keeps the pending column non-zero -/
theorem pending_single (htol : 0 ≤ tol) (v : E) (hv : v ≠ 0) (hA : A.IsSymmetric) :
    ∀ t, (∀ t', t' ≤ t → cond (K := 𝕜) (tol : 𝕜) m (iter A m #[v] t') = true) →
      ∀ t', t' ≤ t → AllPending A m #[v] t' := by
  intro t
  induction t with
  | zero =>
    intro hc t' ht' b s hs
    have : t' = 0 := by omega
    subst this
    have hg := good_iter A m #[v] hA 0 (Nat.zero_le _) (fun t' h => by omega) b s hs
    have hb : b = 0 := by
      have := Array.getElem?_eq_some_iff.mp hs
      obtain ⟨hlt, _⟩ := this
      rw [iter_size] at hlt; simpa using hlt
    subst hb
    have hg' : Inv A m v 0 s := by simpa using hg
    rw [hg'.first]
    have : ((‖v‖ : ℝ) : 𝕜) ≠ 0 := by exact_mod_cast norm_ne_zero_iff.mpr hv
    exact smul_ne_zero (inv_ne_zero this) hv
  | succ t ih =>
    intro hc t' ht'
    rcases Nat.lt_or_ge t' (t + 1) with hlt | hge
    · exact ih (fun t'' h => hc t'' (by omega)) t' (by omega)
    · have : t' = t + 1 := by omega
      subst this
      intro b s hs
      have hprev := ih (fun t'' h => hc t'' (by omega))
      have hle : t + 1 ≤ m := by
        have := cond_le tol m _ (hc (t + 1) (le_refl _))
        rw [iter_i] at this; omega
      have hg := good_iter A m #[v] hA (t + 1) hle (fun t' h => hprev t' (by omega)) b s hs
      have hb : b = 0 := by
        obtain ⟨hlt, _⟩ := Array.getElem?_eq_some_iff.mp hs
        rw [iter_size] at hlt; simpa using hlt
      subst hb
      have hg' : Inv A m v (t + 1) s := by simpa using hg
      have hcond := hc (t + 1) (le_refl _)
      simp only [cond, Bool.and_eq_true, Array.any_eq_true] at hcond
      obtain ⟨_, i, hi, hl⟩ := hcond
      have hi0 : i = 0 := by rw [iter_size] at hi; simpa using hi
      subst hi0
      have hs' : (iter A m #[v] (t + 1)).mems[0] = s := by
        have := Array.getElem?_eq_some_iff.mp hs
        exact this.2
      rw [hs', iter_i] at hl
      exact pending_of_isLarge A tol m htol (t + 1) s v hv hg' hl

/-! ### frame property of `subdiag` -/

theorem sb_bodyMem_frame (f : E → E) (i c : ℕ) (s : Mem 𝕜 E) (h : c ≠ i) :
    sb (bodyMem (K := 𝕜) f 0 i s) c = sb s c := by
  simp only [sb, bodyMem]
  rw [getD_setIfInBounds]
  have : ¬ i = c := fun h' => h h'.symm
  simp [this]

theorem sb_iter_frame (t : ℕ) : ∀ (d b : ℕ) (s s' : Mem 𝕜 E), (iter A m vs t).mems[b]? = some s →
    (iter A m vs (t + d)).mems[b]? = some s' → ∀ c, c ≤ t → sb s' c = sb s c := by
  intro d
  induction d with
  | zero =>
    intro b s s' h1 h2 c _
    rw [Nat.add_zero, h1] at h2
    simp only [Option.some.injEq] at h2
    rw [h2]
  | succ d ih =>
    intro b s s' h1 h2 c hc
    rw [← Nat.add_assoc, iter_mem_succ] at h2
    cases hprev : (iter A m vs (t + d)).mems[b]? with
    | none => rw [hprev] at h2; simp at h2
    | some s0 =>
      rw [hprev] at h2
      simp only [Option.map_some, Option.some.injEq] at h2
      subst h2
      rw [sb_bodyMem_frame _ _ _ _ (by omega)]
      exact ih b s s0 h1 hprev c hc

/-- batch: if no returned off-diagonal entry (of any member) is zero and no start vector is zero,
the pending column of every member was non-zero whenever the body ran -/
theorem pending_of_offdiag (hA : A.IsSymmetric) (k : ℕ) (hk : k ≤ m)
    (hv : ∀ (b : ℕ) (v : E), vs[b]? = some v → v ≠ 0)
    (hoff : ∀ (b : ℕ) (s : Mem 𝕜 E), (iter A m vs k).mems[b]? = some s →
      ∀ c, 1 ≤ c → c < k → sb s c ≠ 0) :
    ∀ t, t < k → AllPending A m vs t := by
  intro t
  induction t using Nat.strong_induction_on with
  | _ t ih =>
    intro htk b s hs
    have hg := good_iter A m vs hA t (by omega) (fun t' h => ih t' h (by omega)) b s hs
    obtain ⟨hb0, _⟩ := Array.getElem?_eq_some_iff.mp hs
    have hb : b < vs.size := by rw [iter_size] at hb0; exact hb0
    rcases Nat.eq_zero_or_pos t with rfl | ht
    · rw [hg.first]
      have hvb : vs[b]? = some (vs.getD b 0) := by
        rw [Array.getD_eq_getD_getElem?, Array.getElem?_eq_getElem hb]; rfl
      have hv0 := hv b _ hvb
      have : ((‖vs.getD b 0‖ : ℝ) : 𝕜) ≠ 0 := by exact_mod_cast norm_ne_zero_iff.mpr hv0
      exact smul_ne_zero (inv_ne_zero this) hv0
    · have hbk : b < (iter A m vs k).mems.size := by rw [iter_size]; exact hb
      have hs' : (iter A m vs k).mems[b]? = some ((iter A m vs k).mems[b]) := by
        simp [hbk]
      have hkk : k = t + (k - t) := by omega
      have hfr := sb_iter_frame A m vs t (k - t) b s _ hs (by rw [← hkk]; exact hs') t (le_refl _)
      have hne := hoff b _ hs' t ht htk
      rw [hfr, hg.subLast ht] at hne
      intro hz
      apply hne
      rw [hz, norm_zero]; simp

end loop

end Lanczos
