import ColaVerif.Lemmas.ExprSound
import ColaVerif.Lemmas.AnnotReal

/-!
# C03 ⟸ C05: the hypothesis `Ex.HermClosed` follows from leaf-level hypotheses

`Ex.HermClosed re e` (hypothesis of `C03_sound_partial`) says that every `Product` node which
`mul` / `dot` build while `e` is evaluated is Hermitian *if it reports* `SelfAdjoint`.  Here it is
derived, over ℝ and ℂ (`[RCLike 𝕜]`), from C05's annotation soundness (`Op.anns_sound`):

* `Op.LR A` — the leaf-level hypotheses of C05 that are properties of the payload:
  `A.LeavesTrue` (the user's declarations are true) and `A.RealTyped` (C02's typing hypothesis;
  it gives C05's `GramTransposeReal`);
* `Val.Typed` — the same for values; a plain array of real dtype has `star`-fixed entries;
* one lemma per rewriting rule: the rule's result is `LR` again (`mulRule_lr`, `dotRule_lr`,
  `addV_typed`, `matmulV_typed`, `kronRule_lr`, `kronsumRule_lr`, …);
* `ExprHerm.full_all` — the recursion over the expression, jointly with `ExprSound.Sound`;
* the named clause `Ex.NoScalarTimesAnnotated re` — C05's recorded defect
  `scalar-times-annotated`, on the operators produced during the evaluation.
-/

open scoped ComplexOrder

set_option linter.unusedSectionVars false

variable {𝕜 : Type} [RCLike 𝕜] [DecidableEq 𝕜]

namespace Op

/-- C05's leaf hypotheses on the payload: true declarations, real-dtype payloads are real -/
def LR (A : Op 𝕜) : Prop := A.LeavesTrue ∧ A.RealTyped

theorem leavesTrue_core : ∀ (A : Op 𝕜), A.LeavesTrue → A.core.LeavesTrue
  | annot a A, h => by
    simp only [LeavesTrue] at h
    simp only [core]
    exact leavesTrue_core A h.2
  | dense .., h => h | tri .., h => h | sparse .., h => h | scalar .., h => h | eye .., h => h
  | prod .., h => h | sum .., h => h | kron .., h => h | kronsum .., h => h | bdiag .., h => h
  | diag .., h => h | tridiag .., h => h | transpose .., h => h | adjoint .., h => h
  | sliced .., h => h | perm .., h => h | concat .., h => h | house .., h => h | generic .., h => h

theorem LR.core {A : Op 𝕜} (h : LR A) : LR A.core := ⟨leavesTrue_core A h.1, (coreRel A).real h.2⟩

/-- C05 applies: a well-formed `LR` operator outside the clause `scalar-times-annotated` satisfies
the hypotheses of `Op.anns_sound` -/
theorem LR.soundHyp {A : Op 𝕜} (h : LR A) (hw : A.wf = true)
    (hs : A.scalarTimesAnnotated = false) : SoundHyp A :=
  ⟨hw, h.1, hs, gramTransposeReal_of_realTyped A h.2 hw⟩

/-- … hence its top node, if it reports `SelfAdjoint`, is Hermitian (C05) -/
theorem LR.hermNode {A : Op 𝕜} (h : LR A) (hw : A.wf = true)
    (hs : A.scalarTimesAnnotated = false) : HermNode A :=
  hermNode_of_annsTrue A (anns_sound A (h.soundHyp hw hs))

/-- … and every node of it (C05): the side conditions of C01 hold -/
theorem LR.good {A : Op 𝕜} (h : LR A) (hw : A.wf = true) (hn : A.dupSlice = false)
    (hs : A.scalarTimesAnnotated = false) : Good A :=
  ⟨hw, hn, hermOK_of_soundHyp A (h.soundHyp hw hs)⟩

theorem lr_prod {L : List (Op 𝕜)} : LR (prod L) ↔ ∀ M ∈ L, LR M := by
  simp only [LR, LeavesTrue, RealTyped]
  exact ⟨fun h M hM => ⟨h.1 M hM, h.2 M hM⟩, fun h => ⟨fun M hM => (h M hM).1, fun M hM => (h M hM).2⟩⟩
theorem lr_sum {L : List (Op 𝕜)} : LR (sum L) ↔ ∀ M ∈ L, LR M := by
  simp only [LR, LeavesTrue, RealTyped]
  exact ⟨fun h M hM => ⟨h.1 M hM, h.2 M hM⟩, fun h => ⟨fun M hM => (h M hM).1, fun M hM => (h M hM).2⟩⟩
theorem lr_kron {L : List (Op 𝕜)} : LR (kron L) ↔ ∀ M ∈ L, LR M := by
  simp only [LR, LeavesTrue, RealTyped]
  exact ⟨fun h M hM => ⟨h.1 M hM, h.2 M hM⟩, fun h => ⟨fun M hM => (h M hM).1, fun M hM => (h M hM).2⟩⟩
theorem lr_kronsum {L : List (Op 𝕜)} : LR (kronsum L) ↔ ∀ M ∈ L, LR M := by
  simp only [LR, LeavesTrue, RealTyped]
  exact ⟨fun h M hM => ⟨h.1 M hM, h.2 M hM⟩, fun h => ⟨fun M hM => (h M hM).1, fun M hM => (h M hM).2⟩⟩
theorem lr_bdiag {L : List (Op 𝕜)} {m : List Nat} : LR (bdiag L m) ↔ ∀ M ∈ L, LR M := by
  simp only [LR, LeavesTrue, RealTyped]
  exact ⟨fun h M hM => ⟨h.1 M hM, h.2 M hM⟩, fun h => ⟨fun M hM => (h M hM).1, fun M hM => (h M hM).2⟩⟩
theorem lr_generic {A : Op 𝕜} : LR (generic A) ↔ LR A := by
  simp only [LR, LeavesTrue, RealTyped]
theorem lr_eye (dt : DType) (n : Nat) : LR (eye dt n : Op 𝕜) := by
  simp only [LR, LeavesTrue, RealTyped, and_self]
theorem lr_dense {dt : DType} {r c : Nat} {a : MatF 𝕜} :
    LR (dense dt r c a) ↔ (dt.isComplex = false → SF r c a) := by
  simp only [LR, LeavesTrue, RealTyped, true_and, SF]
theorem lr_scalar {dt : DType} {s : 𝕜} {n : Nat} :
    LR (scalar dt s n) ↔ (dt.isComplex = false → star s = s) := by
  simp only [LR, LeavesTrue, RealTyped, true_and]
theorem lr_diag {dt : DType} {n : Nat} {d : Nat → 𝕜} :
    LR (diag dt n d) ↔ (dt.isComplex = false → ∀ i, i < n → star (d i) = d i) := by
  simp only [LR, LeavesTrue, RealTyped, true_and]

end Op

namespace Val

/-- C05's payload hypotheses for a value: `LR` for an operator; a plain array of real dtype has
`star`-fixed entries (what a NumPy float array is) -/
def Typed : Val 𝕜 → Prop
  | .op A => Op.LR A
  | .arr dt r c a => dt.isComplex = false → SF r c a

end Val

/-- a scalar literal of a real type: not flagged complex, or written as a Python `int` / `float` -/
def Scal.IsReal (s : Scal 𝕜) : Prop := s.cplx = false ∨ s.kind = .pyint ∨ s.kind = .pyfloat

/-- typing of a scalar literal: if it has a real type (a Python `int` / `float`, a NumPy float
scalar or 0-d float array), its value and the reciprocal supplied with it are real -/
def Scal.Typed (s : Scal 𝕜) : Prop := s.IsReal → star s.v = s.v ∧ star s.inv = s.inv

namespace ExprHerm
open Op Ex ExprSound

omit [DecidableEq 𝕜] in
theorem SF.congr {r c : Nat} {X Y : MatF 𝕜} (h : EqOn r c X Y) (hY : SF r c Y) : SF r c X := by
  intro i j hi hj
  rw [h i j hi hj]
  exact hY i j hi hj

theorem lazifyV_lr {v : Val 𝕜} (h : v.Typed) : LR (lazifyV v) := by
  cases v with
  | op A => exact h
  | arr dt r c a => exact lr_dense.mpr h

/-! ## the parts `add` / `dot` / `kron` / `kronsum` flatten -/

theorem sumParts_lr (A : Op 𝕜) (h : LR A) : ∀ M ∈ sumParts A, LR M := by
  have hc := h.core
  unfold sumParts sumMembers
  split
  · rename_i Ms heq
    rw [heq] at hc
    simp only [Option.getD_some]
    exact lr_sum.mp hc
  · simp only [Option.getD_none, List.mem_singleton, forall_eq]
    exact h

theorem prodParts_lr (A : Op 𝕜) (h : LR A) : ∀ M ∈ prodParts A, LR M := by
  have hc := h.core
  unfold prodParts prodMembers
  split
  · rename_i Ms heq
    rw [heq] at hc
    simp only [Option.getD_some]
    exact lr_prod.mp hc
  · simp only [Option.getD_none, List.mem_singleton, forall_eq]
    exact h

theorem kronParts_lr (A : Op 𝕜) (h : LR A) : ∀ M ∈ kronParts A, LR M := by
  have hc := h.core
  unfold kronParts kronMembers
  split
  · rename_i Ms heq
    rw [heq] at hc
    simp only [Option.getD_some]
    exact lr_kron.mp hc
  · simp only [Option.getD_none, List.mem_singleton, forall_eq]
    exact h

theorem kronsumParts_lr (A : Op 𝕜) (h : LR A) : ∀ M ∈ kronsumParts A, LR M := by
  have hc := h.core
  unfold kronsumParts kronsumMembers
  split
  · rename_i Ms heq
    rw [heq] at hc
    simp only [Option.getD_some]
    exact lr_kronsum.mp hc
  · simp only [Option.getD_none, List.mem_singleton, forall_eq]
    exact h

theorem lr_append {L1 L2 : List (Op 𝕜)} (h1 : ∀ M ∈ L1, LR M) (h2 : ∀ M ∈ L2, LR M) :
    ∀ M ∈ L1 ++ L2, LR M := by
  intro M hM
  rcases List.mem_append.mp hM with h | h
  · exact h1 M h
  · exact h2 M h

/-! ## `mul` -/

/-- **rule `mul`** keeps `LR`: the `ScalarMul` it builds carries a real scalar whenever the
operator's dtype is real (a complex one is cut to its real part — the recorded clause
`complex-scalar-real-operator` — or was real to begin with) -/
theorem mulRule_lr (re : 𝕜 → 𝕜) (hre : ∀ x, star (re x) = re x) (A : Op 𝕜) (s : Scal 𝕜)
    (hs : s.Typed) (v : Val 𝕜) (hA : LR A) (h : mulRule re A s = .ok v) : v.Typed := by
  have hc := hA.core
  have hdt := core_dtype A
  simp only [mulRule] at h
  split at h
  · rename_i dt s0 n heq
    rw [heq] at hc hdt
    simp only [Op.dtype] at hdt
    injection h with h
    subst h
    show LR _
    refine lr_scalar.mpr (fun hr => ?_)
    have h0 : star s0 = s0 := (lr_scalar.mp hc) hr
    rw [← hdt, hr]
    cases hcx : s.cplx with
    | true => simp only [Bool.not_false, Bool.and_self, if_true]; exact hre _
    | false =>
      simp only [Bool.false_and, Bool.false_eq_true, if_false]
      rw [star_mul', h0, (hs (Or.inl hcx)).1]
  · split at h
    · cases h
    · injection h with h
      subst h
      show LR _
      refine lr_prod.mpr ?_
      intro M hM
      simp only [List.mem_cons, List.not_mem_nil, or_false] at hM
      rcases hM with rfl | rfl
      · refine lr_scalar.mpr (fun hr => ?_)
        rw [hr]
        cases hcx : s.cplx with
        | true => simp only [Bool.not_false, Bool.and_self, if_true]; exact hre _
        | false =>
          simp only [Bool.false_and, Bool.false_eq_true, if_false]
          exact (hs (Or.inl hcx)).1
      · exact hA

theorem negOne_typed : (⟨-1, -1, .pyint, false⟩ : Scal 𝕜).Typed := by
  intro _
  simp

theorem negV_typed (re : 𝕜 → 𝕜) (hre : ∀ x, star (re x) = re x) (x v : Val 𝕜) (hx : x.Typed)
    (h : negV re x = .ok v) : v.Typed := by
  cases x with
  | op A => exact mulRule_lr re hre A _ negOne_typed v hx h
  | arr dt r c a =>
    simp only [negV, negArr] at h
    injection h with h
    subst h
    intro hr i j hi hj
    simp only [star_neg]
    rw [hx hr i j hi hj]

/-! ## `add` -/

theorem mkSum_lr (L : List (Op 𝕜)) (hL : ∀ M ∈ L, LR M) (v : Val 𝕜) (h : mkSum L = .ok v) :
    v.Typed := by
  simp only [mkSum] at h
  split at h
  · cases h
  · split at h
    · injection h with h; subst h; exact lr_sum.mpr hL
    · cases h

theorem addRule_lr (A B : Op 𝕜) (hA : LR A) (hB : LR B) (v : Val 𝕜) (h : addRule A B = .ok v) :
    v.Typed := by
  rw [addRule_eq] at h
  exact mkSum_lr _ (lr_append (sumParts_lr A hA) (sumParts_lr B hB)) v h

theorem addV_typed (x y v : Val 𝕜) (hx : x.Typed) (hy : y.Typed) (h : addV x y = .ok v) :
    v.Typed := by
  cases x with
  | op A =>
    simp only [addV] at h
    exact addRule_lr A _ hx (lazifyV_lr hy) v h
  | arr dx rx cx a =>
    cases y with
    | op B =>
      simp only [addV] at h
      exact addRule_lr B _ hy (lr_dense.mpr hx) v h
    | arr dy ry cy b =>
      simp only [addV] at h
      split at h
      · rename_i hdim
        simp only [Bool.and_eq_true, beq_iff_eq] at hdim
        obtain ⟨rfl, rfl⟩ := hdim
        injection h with h
        subst h
        intro hr i j hi hj
        rw [DType.promote_isComplex, Bool.or_eq_false_iff] at hr
        simp only [addM, star_add]
        rw [hx hr.1 i j hi hj, hy hr.2 i j hi hj]
      · split at h <;> cases h

/-! ## `dot` and `@` -/

theorem mkProd_lr (L : List (Op 𝕜)) (hL : ∀ M ∈ L, LR M) (v : Val 𝕜) (h : mkProd L = .ok v) :
    v.Typed := by
  simp only [mkProd] at h
  split at h
  · injection h with h; subst h; exact lr_prod.mpr hL
  · cases h

theorem dotRule_lr (A B : Op 𝕜) (hA : LR A) (hB : LR B) (v : Val 𝕜) (h : dotRule A B = .ok v) :
    v.Typed := by
  have pair : ∀ M ∈ [A, B], LR M := by
    intro M hM
    simp only [List.mem_cons, List.not_mem_nil, or_false] at hM
    rcases hM with rfl | rfl
    · exact hA
    · exact hB
  rw [dotRule_eq] at h
  split at h
  · cases h
  split at h
  · split at h
    · split at h
      · injection h with h; subst h; exact hB
      · injection h with h; subst h; exact lr_eye _ _
    · split at h
      · injection h with h; subst h; exact hB
      · exact mkProd_lr _ pair v h
  split at h
  · split at h
    · injection h with h; subst h; exact hA
    · exact mkProd_lr _ pair v h
  exact mkProd_lr _ (lr_append (prodParts_lr A hA) (prodParts_lr B hB)) v h

/-- a `Good`, `RealTyped` operator of real dtype represents a real matrix -/
theorem denSF_of_lr (A : Op 𝕜) (hA : LR A) (hw : A.wf = true) (hd : A.dtype.isComplex = false) :
    SF A.rows A.cols A.den.f :=
  den_star_fixed A hA.2 hw (by simp [hd])

theorem matmulV_typed (x y v : Val 𝕜) (hx : x.Typed) (hy : y.Typed) (gx : x.Good) (gy : y.Good)
    (h : matmulV x y = .ok v) : v.Typed := by
  cases x with
  | op A =>
    have hgA := Val.good_op.mp gx
    cases y with
    | op B =>
      simp only [matmulV] at h
      exact dotRule_lr A B hx hy v h
    | arr dy ry cy b =>
      simp only [matmulV] at h
      split at h
      · cases h
      rename_i hdim
      have hdim : A.cols = ry := by simpa using hdim
      injection h with h
      subst h
      intro hr
      rw [DType.promote_isComplex, Bool.or_eq_false_iff] at hr
      refine SF.congr (Op.mm_eq A hgA.wf hgA.nd hgA.herm cy b) ?_
      refine SF.mmul (denSF_of_lr A hx hgA.wf hr.1) ?_
      rw [hdim]
      exact hy hr.2
  | arr dx rx cx a =>
    cases y with
    | op B =>
      have hgB := Val.good_op.mp gy
      simp only [matmulV] at h
      split at h
      · cases h
      rename_i hdim
      have hdim : cx = B.rows := by simpa using hdim
      injection h with h
      subst h
      intro hr
      rw [DType.promote_isComplex, Bool.or_eq_false_iff] at hr
      refine SF.congr (Op.rmm_eq B hgB.wf hgB.nd hgB.herm rx a) ?_
      refine SF.mmul ?_ (denSF_of_lr B hy hgB.wf hr.2)
      rw [← hdim]
      exact hx hr.1
    | arr dy ry cy b =>
      simp only [matmulV] at h
      split at h
      · rename_i hdim
        have hdim : cx = ry := by simpa using hdim
        injection h with h
        subst h
        intro hr
        rw [DType.promote_isComplex, Bool.or_eq_false_iff] at hr
        rw [forceV_f]
        refine SF.mmul (hx hr.1) ?_
        rw [hdim]
        exact hy hr.2
      · cases h

/-! ## `kron`, `kronsum` -/

theorem diagOf_lr (A : Op 𝕜) (hA : LR A) {dt : DType} {n : Nat} {d : Nat → 𝕜}
    (h : diagOf A = some (dt, n, d)) : dt.isComplex = false → ∀ i, i < n → star (d i) = d i := by
  have hc := hA.core
  unfold diagOf at h
  split at h
  · rename_i dt' n' d' heq
    rw [heq] at hc
    simp only [Option.some.injEq, Prod.mk.injEq] at h
    obtain ⟨rfl, rfl, rfl⟩ := h
    exact lr_diag.mp hc
  · cases h

theorem kronRule_lr (A B : Op 𝕜) (hA : LR A) (hB : LR B) (v : Val 𝕜) (h : kronRule A B = .ok v) :
    v.Typed := by
  rw [kronRule_eq] at h
  split at h
  · rename_i dt n d dt' m e hdA hdB
    injection h with h
    subst h
    show LR _
    refine lr_diag.mpr (fun hr i hi => ?_)
    rw [DType.promote_isComplex, Bool.or_eq_false_iff] at hr
    have hB' : dt'.isComplex = false := by rw [← diagOf_dtype B hdB]; exact hr.2
    have hm : 0 < m := by
      rcases Nat.eq_zero_or_pos m with h0 | h0
      · subst h0; simp at hi
      · exact h0
    rw [star_mul', diagOf_lr A hA hdA hr.1 _ ((Nat.div_lt_iff_lt_mul hm).mpr hi),
      diagOf_lr B hB hdB hB' _ (Nat.mod_lt _ hm)]
  · injection h with h
    subst h
    exact lr_kron.mpr (lr_append (kronParts_lr A hA) (kronParts_lr B hB))

theorem kronsumRule_lr (A B : Op 𝕜) (hA : LR A) (hB : LR B) (v : Val 𝕜)
    (h : kronsumRule A B = .ok v) : v.Typed := by
  rw [kronsumRule_eq] at h
  simp only [mkKronSum] at h
  split at h
  · injection h with h
    subst h
    exact lr_kronsum.mpr (lr_append (kronsumParts_lr A hA) (kronsumParts_lr B hB))
  · cases h

/-! ## lists of operands -/

theorem foldlM_addV_typed : ∀ (rest : List (Val 𝕜)) (acc v : Val 𝕜), acc.Typed →
    (∀ w ∈ rest, w.Typed) → rest.foldlM (fun acc w => addV acc w) acc = .ok v → v.Typed
  | [], acc, v, ha, _, h => by
    simp only [List.foldlM_nil, pure, Except.pure] at h
    injection h with h
    subst h
    exact ha
  | w :: rest, acc, v, ha, hr, h => by
    rw [List.foldlM_cons] at h
    obtain ⟨acc', h1, h2⟩ := bind_ok h
    exact foldlM_addV_typed rest acc' v
      (addV_typed acc w acc' ha (hr w List.mem_cons_self) h1)
      (fun w' hw' => hr w' (List.mem_cons_of_mem _ hw')) h2

end ExprHerm

/-! ## hypotheses on the expression (leaf level) -/

namespace Ex

/-- node condition of `LeavesSound`: an operator leaf satisfies the constructor preconditions, has
no repeated `Sliced` index, its declarations are true and its real-dtype payloads are real (the
hypotheses of `C05_sound_realTyped`); a plain-array leaf of real dtype has real entries -/
def locLeavesLR : Ex 𝕜 → Prop
  | op A => A.wf = true ∧ A.dupSlice = false ∧ Op.LR A
  | arr dt r c a => dt.isComplex = false → SF r c a
  | _ => True

/-- node condition of `ScalarsTyped` -/
def locScalTyped : Ex 𝕜 → Prop
  | smul c _ => c.Typed
  | muls _ c => c.Typed
  | divs _ c => c.Typed
  | sdiv c _ => c.Typed
  | _ => True

/-- node condition of the clause `scalar-times-annotated` (C05's recorded defect, decidable):
the operator this node evaluates to — and, for `x - y`, the intermediate `-y` — contains no
`Product` of `ScalarMul` members with exactly one annotated non-scalar member -/
def locNoSTA (re : 𝕜 → 𝕜) : Ex 𝕜 → Prop
  | sub x y =>
      (∀ vy A, eval re y = .ok vy → negV re vy = .ok (.op A) → A.scalarTimesAnnotated = false) ∧
      (∀ A, eval re (sub x y) = .ok (.op A) → A.scalarTimesAnnotated = false)
  | e => ∀ A, eval re e = .ok (.op A) → A.scalarTimesAnnotated = false

/-- every operator leaf satisfies C05's hypotheses (`wf`, true declarations, `RealTyped`) and
has no repeated `Sliced` index; plain-array leaves of real dtype are real -/
def LeavesSound (e : Ex 𝕜) : Prop := e.All locLeavesLR

/-- scalar literals that are not flagged complex are real -/
def ScalarsTyped (e : Ex 𝕜) : Prop := e.All locScalTyped

/-- **clause** (recorded finding `scalar-times-annotated` of C05): no operator produced while the
expression is evaluated contains a `Product` that passes the annotations of its only non-scalar
member through `ScalarMul` factors (`c * A`, `-A`, `x - A`, `ScalarMul @ A` for annotated `A`) -/
def NoScalarTimesAnnotated (re : 𝕜 → 𝕜) (e : Ex 𝕜) : Prop := e.All (locNoSTA re)

/-- the leaf-level node conditions together -/
def LocL (re : 𝕜 → 𝕜) (e : Ex 𝕜) : Prop :=
  locLeavesLR e ∧ locNoSdiv e ∧ locNoLossy re e ∧ locScalTyped e ∧ locNoSTA re e

mutual
theorem all_imp {P Q : Ex 𝕜 → Prop} (hPQ : ∀ e, P e → Q e) : ∀ (e : Ex 𝕜), All P e → All Q e
  | op A, h => by simp only [All] at *; exact hPQ _ h
  | arr .., h => by simp only [All] at *; exact hPQ _ h
  | add x y, h => by
    simp only [All] at *; exact ⟨hPQ _ h.1, all_imp hPQ x h.2.1, all_imp hPQ y h.2.2⟩
  | sub x y, h => by
    simp only [All] at *; exact ⟨hPQ _ h.1, all_imp hPQ x h.2.1, all_imp hPQ y h.2.2⟩
  | matmul x y, h => by
    simp only [All] at *; exact ⟨hPQ _ h.1, all_imp hPQ x h.2.1, all_imp hPQ y h.2.2⟩
  | kron x y, h => by
    simp only [All] at *; exact ⟨hPQ _ h.1, all_imp hPQ x h.2.1, all_imp hPQ y h.2.2⟩
  | kronsum x y, h => by
    simp only [All] at *; exact ⟨hPQ _ h.1, all_imp hPQ x h.2.1, all_imp hPQ y h.2.2⟩
  | neg x, h => by simp only [All] at *; exact ⟨hPQ _ h.1, all_imp hPQ x h.2⟩
  | smul c x, h => by simp only [All] at *; exact ⟨hPQ _ h.1, all_imp hPQ x h.2⟩
  | muls x c, h => by simp only [All] at *; exact ⟨hPQ _ h.1, all_imp hPQ x h.2⟩
  | divs x c, h => by simp only [All] at *; exact ⟨hPQ _ h.1, all_imp hPQ x h.2⟩
  | sdiv c x, h => by simp only [All] at *; exact ⟨hPQ _ h.1, all_imp hPQ x h.2⟩
  | addz x, h => by simp only [All] at *; exact ⟨hPQ _ h.1, all_imp hPQ x h.2⟩
  | lazify x, h => by simp only [All] at *; exact ⟨hPQ _ h.1, all_imp hPQ x h.2⟩
  | densify x, h => by simp only [All] at *; exact ⟨hPQ _ h.1, all_imp hPQ x h.2⟩
  | nodispatch x, h => by simp only [All] at *; exact ⟨hPQ _ h.1, all_imp hPQ x h.2⟩
  | bdiag xs, h => by simp only [All] at *; exact ⟨hPQ _ h.1, allL_imp hPQ xs h.2⟩
  | sumList xs, h => by simp only [All] at *; exact ⟨hPQ _ h.1, allL_imp hPQ xs h.2⟩
theorem allL_imp {P Q : Ex 𝕜 → Prop} (hPQ : ∀ e, P e → Q e) :
    ∀ (xs : List (Ex 𝕜)), AllL P xs → AllL Q xs
  | [], _ => by simp only [AllL]
  | x :: xs, h => by
    simp only [AllL] at *
    exact ⟨all_imp hPQ x h.1, allL_imp hPQ xs h.2⟩
end

theorem all_locL (re : 𝕜 → 𝕜) (e : Ex 𝕜) (h1 : e.LeavesSound) (h2 : e.NoScalarOverOp)
    (h3 : e.NoLossyComplex re) (h4 : e.ScalarsTyped) (h5 : e.NoScalarTimesAnnotated re) :
    e.All (LocL re) :=
  all_and _ _ e h1 (all_and _ _ e h2 (all_and _ _ e h3 (all_and _ _ e h4 h5)))

end Ex

namespace ExprHerm
open Op Ex ExprSound

/-! ## the recursion over the expression -/

/-- every value the expression evaluates to satisfies C05's payload hypotheses -/
def TypedOK (re : 𝕜 → 𝕜) (e : Ex 𝕜) : Prop := ∀ v, eval re e = .ok v → v.Typed

/-- soundness, typing and the Hermitian-node conditions of one expression -/
def Full (re : 𝕜 → 𝕜) (e : Ex 𝕜) : Prop := Sound re e ∧ TypedOK re e ∧ e.All (locHerm re)

def FullL (re : 𝕜 → 𝕜) (xs : List (Ex 𝕜)) : Prop :=
  SoundL re xs ∧ (∀ vs, xs.mapM (eval re) = .ok vs → ∀ v ∈ vs, v.Typed) ∧ AllL (locHerm re) xs

/-- C05 at the top node of a value -/
theorem hermTop_of (v : Val 𝕜) (ht : v.Typed) (hw : ∀ B, v = .op B → B.wf = true)
    (hs : ∀ B, v = .op B → B.scalarTimesAnnotated = false) : v.HermTop := by
  cases v with
  | op B => exact Op.LR.hermNode ht (hw B rfl) (hs B rfl)
  | arr dt r c a => trivial

/-- the value of `mul(A, c)` / `-x` on an evaluated operand: typed, and Hermitian at the top -/
theorem mul_node (re : 𝕜 → 𝕜) (hre : ∀ x, star (re x) = re x) (s : Scal 𝕜) (hs : s.Typed)
    (A : Op 𝕜) (hA : LR A) (gA : Op.Good A) (hl : s.cplx = false ∨ A.dtype.isComplex = true)
    (v : Val 𝕜) (h : mulRule re A s = .ok v)
    (hsta : ∀ B, v = .op B → B.scalarTimesAnnotated = false) : v.Typed ∧ v.HermTop := by
  have ht := mulRule_lr re hre A s hs v hA h
  obtain ⟨B, rfl, _, hw, _, _⟩ := mulRule_build re A s v gA hl h
  exact ⟨ht, hermTop_of _ ht (fun B' e => by cases e; exact hw) hsta⟩

theorem neg_node (re : 𝕜 → 𝕜) (hre : ∀ x, star (re x) = re x) (x v : Val 𝕜) (hx : x.Typed)
    (gx : x.Good) (h : negV re x = .ok v)
    (hsta : ∀ B, v = .op B → B.scalarTimesAnnotated = false) : v.Typed ∧ v.HermTop := by
  cases x with
  | op A =>
    exact mul_node re hre _ negOne_typed A hx (Val.good_op.mp gx) (Or.inl rfl) v h hsta
  | arr dt r c a =>
    refine ⟨negV_typed re hre _ v hx h, ?_⟩
    simp only [negV, negArr] at h
    injection h with h
    subst h
    trivial

/-- a real result dtype of `array * scalar` forces a real array and a scalar of a real type -/
theorem arrScalDtype_real (dt : DType) (c : Scal 𝕜) (h : (arrScalDtype dt c).isComplex = false) :
    dt.isComplex = false ∧ c.IsReal := by
  simp only [arrScalDtype] at h
  cases hk : c.kind <;> simp only [hk] at h
  · exact ⟨h, Or.inr (Or.inl hk)⟩
  · exact ⟨h, Or.inr (Or.inr hk)⟩
  · cases hd : dt.isDouble <;> simp [DType.mk, DType.isComplex, hd] at h
  · rw [DType.promote_isComplex, Bool.or_eq_false_iff] at h
    refine ⟨h.1, Or.inl ?_⟩
    cases hc : c.cplx
    · rfl
    · simp [hc, DType.isComplex] at h
  · rw [DType.promote_isComplex, Bool.or_eq_false_iff] at h
    refine ⟨h.1, Or.inl ?_⟩
    cases hc : c.cplx
    · rfl
    · simp [hc, DType.isComplex] at h

/-- a scalar-multiple node (`c * x`, `x * c`, `x / c`) -/
theorem scal_node (re : 𝕜 → 𝕜) (hre : ∀ x, star (re x) = re x) (s c : Scal 𝕜) (hs : s.Typed)
    (t : 𝕜) (ht : c.IsReal → star t = t)
    (vx v : Val 𝕜) (hx : vx.Typed) (gx : vx.Good)
    (hl : ∀ A, vx = .op A → s.cplx = false ∨ A.dtype.isComplex = true)
    (h : (match vx with
      | .op A => mulRule re A s
      | .arr dt r cc a => .ok (.arr (arrScalDtype dt c) r cc (smulM t a))) = .ok v)
    (hsta : ∀ B, v = .op B → B.scalarTimesAnnotated = false) : v.Typed ∧ v.HermTop := by
  cases vx with
  | op A =>
    simp only at h
    exact mul_node re hre s hs A hx (Val.good_op.mp gx) (hl A rfl) v h hsta
  | arr dt r cc a =>
    simp only at h
    injection h with h
    subst h
    refine ⟨?_, trivial⟩
    intro hr i j hi hj
    obtain ⟨h1, h2⟩ := arrScalDtype_real dt c hr
    simp only [smulM, star_mul']
    rw [ht h2, hx h1 i j hi hj]

/-! ### the nodes -/

theorem full_op (re : 𝕜 → 𝕜) (A : Op 𝕜) (h : LocL re (op A)) : Full re (op A) := by
  obtain ⟨⟨hw, hn, hlr⟩, _, _, _, hsta⟩ := h
  have hs : A.scalarTimesAnnotated = false := hsta A (by rw [Ex.eval])
  have hg := hlr.good hw hn hs
  refine ⟨sound_op re A ⟨hg.wf, hg.nd, hg.herm⟩, ?_, by simp only [All, locHerm]⟩
  intro v hv
  rw [Ex.eval] at hv
  injection hv with hv
  subst hv
  exact hlr

theorem full_arr (re : 𝕜 → 𝕜) (dt : DType) (r c : Nat) (a : MatF 𝕜)
    (h : LocL re (arr dt r c a)) : Full re (arr dt r c a) := by
  refine ⟨sound_arr re dt r c a, ?_, by simp only [All, locHerm]⟩
  intro v hv
  rw [Ex.eval] at hv
  injection hv with hv
  subst hv
  exact h.1

theorem full_add (re : 𝕜 → 𝕜) (x y : Ex 𝕜) (ihx : Full re x) (ihy : Full re y) :
    Full re (add x y) := by
  refine ⟨sound_add re x y ihx.1 ihy.1, ?_, by simp only [All, locHerm]; exact ⟨trivial, ihx.2.2, ihy.2.2⟩⟩
  intro v h
  rw [Ex.eval] at h
  obtain ⟨vx, hx, h⟩ := bind_ok h
  obtain ⟨vy, hy, h⟩ := bind_ok h
  exact addV_typed vx vy v (ihx.2.1 vx hx) (ihy.2.1 vy hy) h

theorem full_sub (re : 𝕜 → 𝕜) (hre : ∀ x, star (re x) = re x) (x y : Ex 𝕜) (ihx : Full re x)
    (ihy : Full re y) (hsta : locNoSTA re (sub x y)) : Full re (sub x y) := by
  simp only [locNoSTA] at hsta
  -- the intermediate `-y`
  have hneg : ∀ vy v, eval re y = .ok vy → negV re vy = .ok v → v.Typed ∧ v.HermTop := by
    intro vy v hy hn
    obtain ⟨_, _, _, _, _, gy⟩ := ihy.1 vy hy
    exact neg_node re hre vy v (ihy.2.1 vy hy) gy hn (fun B e => hsta.1 vy B hy (by rw [hn, e]))
  have hH : locHerm re (sub x y) := by
    simp only [locHerm]
    exact fun vy v hy hn => (hneg vy v hy hn).2
  refine ⟨sound_sub re x y ihx.1 ihy.1 hH, ?_, by simp only [All]; exact ⟨hH, ihx.2.2, ihy.2.2⟩⟩
  intro v h
  rw [Ex.eval] at h
  obtain ⟨vx, hx, h⟩ := bind_ok h
  obtain ⟨vy, hy, h⟩ := bind_ok h
  have tx := ihx.2.1 vx hx
  have ty := ihy.2.1 vy hy
  cases vx with
  | op A =>
    simp only at h
    obtain ⟨nv, hn, h⟩ := bind_ok h
    exact addV_typed _ nv v tx (hneg vy nv hy hn).1 h
  | arr dx rx' cx a =>
    cases vy with
    | op B =>
      simp only at h
      obtain ⟨nv, hn, h⟩ := bind_ok h
      exact addV_typed nv _ v (hneg _ nv hy hn).1 tx h
    | arr dy ry' cy b =>
      simp only at h
      exact addV_typed _ _ v tx (negV_typed re hre _ _ ty rfl) h

theorem full_neg (re : 𝕜 → 𝕜) (hre : ∀ x, star (re x) = re x) (x : Ex 𝕜) (ihx : Full re x)
    (hsta : locNoSTA re (neg x)) : Full re (neg x) := by
  simp only [locNoSTA] at hsta
  have key : ∀ v, eval re (neg x) = .ok v → v.Typed ∧ v.HermTop := by
    intro v h0
    have h := h0
    rw [Ex.eval] at h
    obtain ⟨vx, hx, h⟩ := bind_ok h
    obtain ⟨_, _, _, _, _, gx⟩ := ihx.1 vx hx
    exact neg_node re hre vx v (ihx.2.1 vx hx) gx h (fun B e => hsta B (by rw [h0, e]))
  have hH : locHerm re (neg x) := by
    simp only [locHerm]
    exact fun v h => (key v h).2
  exact ⟨sound_neg re x ihx.1 hH, fun v h => (key v h).1, by simp only [All]; exact ⟨hH, ihx.2.2⟩⟩

theorem divScal_typed (c : Scal 𝕜) (hc : c.Typed) :
    (⟨c.inv, c.v, if c.kind == .pyint then .pyfloat else c.kind, c.cplx⟩ : Scal 𝕜).Typed := by
  intro hr
  have : c.IsReal := by
    rcases hr with h | h | h
    · exact Or.inl h
    · simp only at h
      split at h
      · cases h
      · exact Or.inr (Or.inl h)
    · simp only at h
      split at h
      · rename_i hk
        exact Or.inr (Or.inl (by simpa using hk))
      · exact Or.inr (Or.inr h)
  exact ⟨(hc this).2, (hc this).1⟩

theorem full_smul (re : 𝕜 → 𝕜) (hre : ∀ x, star (re x) = re x) (c : Scal 𝕜) (x : Ex 𝕜)
    (ihx : Full re x) (hl : locNoLossy re (smul c x)) (hc : locScalTyped (smul c x))
    (hsta : locNoSTA re (smul c x)) : Full re (smul c x) := by
  simp only [locNoSTA] at hsta
  simp only [locScalTyped] at hc
  have hl' := hl
  simp only [locNoLossy] at hl'
  have key : ∀ v, eval re (smul c x) = .ok v → v.Typed ∧ v.HermTop := by
    intro v h0
    have h := h0
    rw [Ex.eval] at h
    obtain ⟨vx, hx, h⟩ := bind_ok h
    obtain ⟨_, _, _, _, _, gx⟩ := ihx.1 vx hx
    exact scal_node re hre c c hc c.v (fun hr => (hc hr).1) vx v (ihx.2.1 vx hx) gx
      (fun A e => hl' A (by rw [hx, e])) h (fun B e => hsta B (by rw [h0, e]))
  have hH : locHerm re (smul c x) := by
    simp only [locHerm]
    exact fun v h => (key v h).2
  exact ⟨sound_smul re c x ihx.1 hl hH, fun v h => (key v h).1,
    by simp only [All]; exact ⟨hH, ihx.2.2⟩⟩

theorem full_muls (re : 𝕜 → 𝕜) (hre : ∀ x, star (re x) = re x) (x : Ex 𝕜) (c : Scal 𝕜)
    (ihx : Full re x) (hl : locNoLossy re (muls x c)) (hc : locScalTyped (muls x c))
    (hsta : locNoSTA re (muls x c)) : Full re (muls x c) := by
  simp only [locNoSTA] at hsta
  simp only [locScalTyped] at hc
  have hl' := hl
  simp only [locNoLossy] at hl'
  have key : ∀ v, eval re (muls x c) = .ok v → v.Typed ∧ v.HermTop := by
    intro v h0
    have h := h0
    rw [Ex.eval] at h
    obtain ⟨vx, hx, h⟩ := bind_ok h
    obtain ⟨_, _, _, _, _, gx⟩ := ihx.1 vx hx
    exact scal_node re hre c c hc c.v (fun hr => (hc hr).1) vx v (ihx.2.1 vx hx) gx
      (fun A e => hl' A (by rw [hx, e])) h (fun B e => hsta B (by rw [h0, e]))
  have hH : locHerm re (muls x c) := by
    simp only [locHerm]
    exact fun v h => (key v h).2
  exact ⟨sound_muls re x c ihx.1 hl hH, fun v h => (key v h).1,
    by simp only [All]; exact ⟨hH, ihx.2.2⟩⟩

theorem full_divs (re : 𝕜 → 𝕜) (hre : ∀ x, star (re x) = re x) (x : Ex 𝕜) (c : Scal 𝕜)
    (ihx : Full re x) (hl : locNoLossy re (divs x c)) (hc : locScalTyped (divs x c))
    (hsta : locNoSTA re (divs x c)) : Full re (divs x c) := by
  simp only [locNoSTA] at hsta
  simp only [locScalTyped] at hc
  have hl' := hl
  simp only [locNoLossy] at hl'
  have key : ∀ v, eval re (divs x c) = .ok v → v.Typed ∧ v.HermTop := by
    intro v h0
    have h := h0
    rw [Ex.eval] at h
    obtain ⟨vx, hx, h⟩ := bind_ok h
    obtain ⟨_, _, _, _, _, gx⟩ := ihx.1 vx hx
    exact scal_node re hre _ c (divScal_typed c hc) c.inv (fun hr => (hc hr).2) vx v
      (ihx.2.1 vx hx) gx (fun A e => hl' A (by rw [hx, e])) h (fun B e => hsta B (by rw [h0, e]))
  have hH : locHerm re (divs x c) := by
    simp only [locHerm]
    exact fun v h => (key v h).2
  exact ⟨sound_divs re x c ihx.1 hl hH, fun v h => (key v h).1,
    by simp only [All]; exact ⟨hH, ihx.2.2⟩⟩

theorem full_addz (re : 𝕜 → 𝕜) (x : Ex 𝕜) (ihx : Full re x) : Full re (addz x) := by
  refine ⟨sound_addz re x ihx.1, ?_, by simp only [All, locHerm]; exact ⟨trivial, ihx.2.2⟩⟩
  intro v h
  rw [Ex.eval] at h
  exact ihx.2.1 v h

theorem full_matmul (re : 𝕜 → 𝕜) (x y : Ex 𝕜) (ihx : Full re x) (ihy : Full re y)
    (hsta : locNoSTA re (matmul x y)) : Full re (matmul x y) := by
  simp only [locNoSTA] at hsta
  have key : ∀ v, eval re (matmul x y) = .ok v → v.Typed ∧ v.HermTop := by
    intro v h0
    have h := h0
    rw [Ex.eval] at h
    obtain ⟨vx, hx, h⟩ := bind_ok h
    obtain ⟨vy, hy, h⟩ := bind_ok h
    obtain ⟨_, _, _, _, _, gx⟩ := ihx.1 vx hx
    obtain ⟨_, _, _, _, _, gy⟩ := ihy.1 vy hy
    have ht := matmulV_typed vx vy v (ihx.2.1 vx hx) (ihy.2.1 vy hy) gx gy h
    refine ⟨ht, hermTop_of v ht ?_ (fun B e => hsta B (by rw [h0, e]))⟩
    intro P e
    subst e
    cases vx with
    | op A =>
      cases vy with
      | op B =>
        simp only [matmulV] at h
        obtain ⟨_, P', hP', _, hw, _, _⟩ :=
          dotRule_build A B _ (Val.good_op.mp gx) (Val.good_op.mp gy) h
        injection hP' with hP'
        subst hP'
        exact hw
      | arr dy ry cy b =>
        simp only [matmulV] at h
        split at h
        · cases h
        · cases h
    | arr dx rx cx a =>
      cases vy with
      | op B =>
        simp only [matmulV] at h
        split at h
        · cases h
        · cases h
      | arr dy ry cy b =>
        simp only [matmulV] at h
        split at h
        · cases h
        · cases h
  have hH : locHerm re (matmul x y) := by
    simp only [locHerm]
    exact fun v h => (key v h).2
  exact ⟨sound_matmul re x y ihx.1 ihy.1 hH, fun v h => (key v h).1,
    by simp only [All]; exact ⟨hH, ihx.2.2, ihy.2.2⟩⟩

theorem full_kron (re : 𝕜 → 𝕜) (x y : Ex 𝕜) (ihx : Full re x) (ihy : Full re y) :
    Full re (Ex.kron x y) := by
  refine ⟨sound_kron re x y ihx.1 ihy.1, ?_, by simp only [All, locHerm]; exact ⟨trivial, ihx.2.2, ihy.2.2⟩⟩
  intro v h
  rw [Ex.eval] at h
  obtain ⟨vx, hx, h⟩ := bind_ok h
  obtain ⟨vy, hy, h⟩ := bind_ok h
  exact kronRule_lr _ _ (lazifyV_lr (ihx.2.1 vx hx)) (lazifyV_lr (ihy.2.1 vy hy)) v h

theorem full_kronsum (re : 𝕜 → 𝕜) (x y : Ex 𝕜) (ihx : Full re x) (ihy : Full re y) :
    Full re (Ex.kronsum x y) := by
  refine ⟨sound_kronsum re x y ihx.1 ihy.1, ?_, by simp only [All, locHerm]; exact ⟨trivial, ihx.2.2, ihy.2.2⟩⟩
  intro v h
  rw [Ex.eval] at h
  obtain ⟨vx, hx, h⟩ := bind_ok h
  obtain ⟨vy, hy, h⟩ := bind_ok h
  exact kronsumRule_lr _ _ (lazifyV_lr (ihx.2.1 vx hx)) (lazifyV_lr (ihy.2.1 vy hy)) v h

theorem full_bdiag (re : 𝕜 → 𝕜) (xs : List (Ex 𝕜)) (ih : FullL re xs) : Full re (Ex.bdiag xs) := by
  refine ⟨sound_bdiag re xs ih.1, ?_, by simp only [All, locHerm]; exact ⟨trivial, ih.2.2⟩⟩
  intro v h
  rw [Ex.eval] at h
  obtain ⟨vs, hvs, h⟩ := bind_ok h
  split at h
  · cases h
  injection h with h
  subst h
  refine lr_bdiag.mpr ?_
  intro M hM
  obtain ⟨w, hw, rfl⟩ := List.mem_map.mp hM
  exact lazifyV_lr (ih.2.1 vs hvs w hw)

theorem full_sumList (re : 𝕜 → 𝕜) (xs : List (Ex 𝕜)) (ih : FullL re xs) :
    Full re (sumList xs) := by
  refine ⟨sound_sumList re xs ih.1, ?_, by simp only [All, locHerm]; exact ⟨trivial, ih.2.2⟩⟩
  intro v h
  rw [Ex.eval] at h
  obtain ⟨vs, hvs, h⟩ := bind_ok h
  have ht := ih.2.1 vs hvs
  cases vs with
  | nil => cases h
  | cons v0 rest =>
    simp only at h
    exact foldlM_addV_typed rest v0 v (ht v0 List.mem_cons_self)
      (fun w hw => ht w (List.mem_cons_of_mem _ hw)) h

theorem full_lazify (re : 𝕜 → 𝕜) (x : Ex 𝕜) (ihx : Full re x) : Full re (lazify x) := by
  refine ⟨sound_lazify re x ihx.1, ?_, by simp only [All, locHerm]; exact ⟨trivial, ihx.2.2⟩⟩
  intro v h
  rw [Ex.eval] at h
  obtain ⟨vx, hx, h⟩ := bind_ok h
  injection h with h
  subst h
  exact lazifyV_lr (ihx.2.1 vx hx)

theorem full_densify (re : 𝕜 → 𝕜) (x : Ex 𝕜) (ihx : Full re x) : Full re (densify x) := by
  refine ⟨sound_densify re x ihx.1, ?_, by simp only [All, locHerm]; exact ⟨trivial, ihx.2.2⟩⟩
  intro v h
  rw [Ex.eval] at h
  obtain ⟨vx, hx, h⟩ := bind_ok h
  obtain ⟨_, _, _, _, _, gx⟩ := ihx.1 vx hx
  have tx := ihx.2.1 vx hx
  cases vx with
  | op A =>
    simp only at h
    injection h with h
    subst h
    have hg := Val.good_op.mp gx
    intro hr
    exact SF.congr (Op.td_eq A hg.wf hg.nd hg.herm) (denSF_of_lr A tx hg.wf hr)
  | arr dt r c a =>
    simp only at h
    injection h with h
    subst h
    exact tx

theorem full_nodispatch (re : 𝕜 → 𝕜) (x : Ex 𝕜) (ihx : Full re x) : Full re (nodispatch x) := by
  refine ⟨sound_nodispatch re x ihx.1, ?_, by simp only [All, locHerm]; exact ⟨trivial, ihx.2.2⟩⟩
  intro v h
  rw [Ex.eval] at h
  obtain ⟨vx, hx, h⟩ := bind_ok h
  have tx := ihx.2.1 vx hx
  cases vx with
  | op A =>
    simp only at h
    injection h with h
    subst h
    exact lr_generic.mpr tx
  | arr dt r c a => simp only at h; cases h

theorem fullL_nil (re : 𝕜 → 𝕜) : FullL re ([] : List (Ex 𝕜)) := by
  refine ⟨soundL_nil re, ?_, by simp only [AllL]⟩
  intro vs h
  rw [List.mapM_nil] at h
  injection h with h
  subst h
  intro v hv
  cases hv

theorem fullL_cons (re : 𝕜 → 𝕜) (x : Ex 𝕜) (xs : List (Ex 𝕜)) (ihx : Full re x)
    (ih : FullL re xs) : FullL re (x :: xs) := by
  refine ⟨soundL_cons re x xs ihx.1 ih.1, ?_, by simp only [AllL]; exact ⟨ihx.2.2, ih.2.2⟩⟩
  intro vs h
  rw [List.mapM_cons] at h
  obtain ⟨v, hv, h⟩ := bind_ok h
  obtain ⟨vs', hvs, h⟩ := bind_ok h
  injection h with h
  subst h
  intro w hw
  rcases List.mem_cons.mp hw with rfl | hw
  · exact ihx.2.1 _ hv
  · exact ih.2.1 vs' hvs w hw

/-- C01's hypotheses on the operator leaves follow from C05's (outside the clause) -/
theorem leavesGood_of_locL (re : 𝕜 → 𝕜) (e : Ex 𝕜) (h : e.All (LocL re)) : e.LeavesGood := by
  refine all_imp (fun e' he' => ?_) e h
  cases e' with
  | op A =>
    obtain ⟨⟨hw, hn, hlr⟩, _, _, _, hsta⟩ := he'
    have hs : A.scalarTimesAnnotated = false := hsta A (by rw [Ex.eval])
    have hg := hlr.good hw hn hs
    exact ⟨hg.wf, hg.nd, hg.herm⟩
  | _ => trivial

mutual
/-- **soundness, typing and the Hermitian-node conditions from leaf-level hypotheses** -/
theorem full_all (re : 𝕜 → 𝕜) (hre : ∀ x, star (re x) = re x) :
    ∀ (e : Ex 𝕜), e.All (LocL re) → Full re e
  | Ex.op A, h => by simp only [All] at h; exact full_op re A h
  | Ex.arr dt r c a, h => by simp only [All] at h; exact full_arr re dt r c a h
  | Ex.add x y, h => by
    simp only [All] at h
    exact full_add re x y (full_all re hre x h.2.1) (full_all re hre y h.2.2)
  | Ex.sub x y, h => by
    simp only [All] at h
    exact full_sub re hre x y (full_all re hre x h.2.1) (full_all re hre y h.2.2) h.1.2.2.2.2
  | Ex.neg x, h => by
    simp only [All] at h
    exact full_neg re hre x (full_all re hre x h.2) h.1.2.2.2.2
  | Ex.smul c x, h => by
    simp only [All] at h
    exact full_smul re hre c x (full_all re hre x h.2) h.1.2.2.1 h.1.2.2.2.1 h.1.2.2.2.2
  | Ex.muls x c, h => by
    simp only [All] at h
    exact full_muls re hre x c (full_all re hre x h.2) h.1.2.2.1 h.1.2.2.2.1 h.1.2.2.2.2
  | Ex.divs x c, h => by
    simp only [All] at h
    exact full_divs re hre x c (full_all re hre x h.2) h.1.2.2.1 h.1.2.2.2.1 h.1.2.2.2.2
  | Ex.sdiv c x, h => by
    simp only [All] at h
    exact absurd h.1.2.1 (by simp only [locNoSdiv, not_false_eq_true])
  | Ex.addz x, h => by
    simp only [All] at h
    exact full_addz re x (full_all re hre x h.2)
  | Ex.matmul x y, h => by
    simp only [All] at h
    exact full_matmul re x y (full_all re hre x h.2.1) (full_all re hre y h.2.2) h.1.2.2.2.2
  | Ex.kron x y, h => by
    simp only [All] at h
    exact full_kron re x y (full_all re hre x h.2.1) (full_all re hre y h.2.2)
  | Ex.kronsum x y, h => by
    simp only [All] at h
    exact full_kronsum re x y (full_all re hre x h.2.1) (full_all re hre y h.2.2)
  | Ex.bdiag xs, h => by
    simp only [All] at h
    exact full_bdiag re xs (fullL_all re hre xs h.2)
  | Ex.sumList xs, h => by
    simp only [All] at h
    exact full_sumList re xs (fullL_all re hre xs h.2)
  | Ex.lazify x, h => by
    simp only [All] at h
    exact full_lazify re x (full_all re hre x h.2)
  | Ex.densify x, h => by
    simp only [All] at h
    exact full_densify re x (full_all re hre x h.2)
  | Ex.nodispatch x, h => by
    simp only [All] at h
    exact full_nodispatch re x (full_all re hre x h.2)
theorem fullL_all (re : 𝕜 → 𝕜) (hre : ∀ x, star (re x) = re x) :
    ∀ (xs : List (Ex 𝕜)), AllL (LocL re) xs → FullL re xs
  | [], _ => fullL_nil re
  | x :: xs, h => by
    simp only [AllL] at h
    exact fullL_cons re x xs (full_all re hre x h.1) (fullL_all re hre xs h.2)
end

end ExprHerm

#print axioms ExprHerm.full_all
