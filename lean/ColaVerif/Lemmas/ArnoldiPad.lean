import ColaVerif.Lemmas.ArnoldiSpec

/-!
# Asking for more than `n` steps gives the `n`-step factorisation, zero-padded

The loop cap is `min max_iters n`; only the *buffer sizes* depend on `max_iters`.  Two runs whose
buffers have different caps `M`, `M'` compute the same entries as long as both are in bounds.
-/

open scoped InnerProductSpace
open Finset

namespace Arnoldi

variable {𝕜 E : Type} [RCLike 𝕜] [NormedAddCommGroup E] [InnerProductSpace 𝕜 E]

/-- same entries (out-of-range reads are zero), same `norm` -/
def SameView (c c' : Col 𝕜 E) : Prop :=
  (∀ l, c.q l = c'.q l) ∧ (∀ l i, c.h l i = c'.h l i) ∧ c.norm = c'.norm

theorem swVec_congr (c c' : Col 𝕜 E) (h : ∀ l, c.q l = c'.q l) (w0 : E) (K K' : Nat) (k : Nat) :
    swVec c w0 K k = swVec c' w0 K' k := by
  induction k with
  | zero => rfl
  | succ k ih => rw [swVec_succ, swVec_succ, swCoef, swCoef, ih, h k]

theorem swCoef_congr (c c' : Col 𝕜 E) (h : ∀ l, c.q l = c'.q l) (w0 : E) (K K' : Nat) (k : Nat) :
    swCoef c w0 K k = swCoef c' w0 K' k := by
  rw [swCoef, swCoef, swVec_congr c c' h w0 K K' k, h k]

variable (A : E →ₗ[𝕜] E) (tol : ℝ)

theorem stepCol_norm (j : Nat) (c : Col 𝕜 E) :
    (stepCol (⇑A) ((tol : ℝ) : 𝕜) j c).norm = ((‖stepW A j c‖ : ℝ) : 𝕜) := rfl

theorem step_sameView (j : Nat) (c c' : Col 𝕜 E) (h : SameView c c')
    (hQ : j + 1 < c.Q.size) (hQ' : j + 1 < c'.Q.size) (hH : j < c.H.size) (hH' : j < c'.H.size) :
    SameView (stepCol (⇑A) ((tol : ℝ) : 𝕜) j c) (stepCol (⇑A) ((tol : ℝ) : 𝕜) j c') := by
  obtain ⟨h1, h2, _⟩ := h
  have hw : stepW A j c = stepW A j c' := by
    unfold stepW
    rw [h1 j]
    exact swVec_congr c c' h1 _ _ _ _
  refine ⟨?_, ?_, ?_⟩
  · intro l
    rw [stepCol_q A tol j c hQ, stepCol_q A tol j c' hQ', hw, h1 l]
  · intro l i
    rw [stepCol_h A tol j c hH hQ, stepCol_h A tol j c' hH' hQ', hw, h2 l i, h1 j,
      swCoef_congr c c' h1 _ c.Q.size c'.Q.size l]
  · rw [stepCol_norm, stepCol_norm, hw]

theorem init_sameView (M M' : Nat) (v : E) :
    SameView (initCol (α := 𝕜) M v) (initCol (α := 𝕜) M' v) :=
  ⟨fun l => by rw [initCol_q, initCol_q], fun l i => by rw [initCol_h, initCol_h], rfl⟩

theorem colAt_sameView (htol : 0 < tol) (M M' : Nat) (v : E) (hv : v ≠ 0) :
    ∀ j, j ≤ M → j ≤ M' → SameView (colAt A M tol v j) (colAt A M' tol v j) := by
  intro j
  induction j with
  | zero => intro _ _; exact init_sameView M M' v
  | succ j ih =>
    intro hM hM'
    have i1 := inv_colAfter A M v tol hv htol j (by omega)
    have i2 := inv_colAfter A M' v tol hv htol j (by omega)
    exact step_sameView A tol j _ _ (ih (by omega) (by omega))
      (by rw [i1.sizeQ]; omega) (by rw [i2.sizeQ]; omega) (by rw [i1.sizeH]; omega)
      (by rw [i2.sizeH]; omega)

omit [NormedAddCommGroup E] [InnerProductSpace 𝕜 E] in
theorem isLarge_sameView (idx : Nat) (c c' : Col 𝕜 E) (h1 : c.h 1 0 = c'.h 1 0)
    (h2 : c.norm = c'.norm) :
    isLarge ((tol : ℝ) : 𝕜) idx c = isLarge ((tol : ℝ) : 𝕜) idx c' := by
  unfold isLarge
  rw [h1, h2]

theorem any_congr_mem {β : Type} (l : List β) (f g : β → Bool) (h : ∀ x ∈ l, f x = g x) :
    l.any f = l.any g := by
  induction l with
  | nil => rfl
  | cons a t ih =>
    rw [List.any_cons, List.any_cons, h a List.mem_cons_self,
      ih (fun x hx => h x (List.mem_cons_of_mem _ hx))]

/-- **padding**: for `max_iters = M ≥ n` the loop takes the same number of steps as for
`max_iters = n`, and computes the same entries -/
theorem run_padding (htol : 0 < tol) (n M : Nat) (hM : n ≤ M) (vs : List E) (hvs : ∀ v ∈ vs, v ≠ 0) :
    (run (⇑A) n M ((tol : ℝ) : 𝕜) vs).idx = (run (⇑A) n n ((tol : ℝ) : 𝕜) vs).idx ∧
    ∀ v ∈ vs, SameView (colAt A M tol v (run (⇑A) n M ((tol : ℝ) : 𝕜) vs).idx)
      (colAt A n tol v (run (⇑A) n n ((tol : ℝ) : 𝕜) vs).idx) := by
  obtain ⟨a1, a2, _, a4, a5⟩ := run_spec (⇑A) n M ((tol : ℝ) : 𝕜) vs
  obtain ⟨b1, b2, _, b4, b5⟩ := run_spec (⇑A) n n ((tol : ℝ) : 𝕜) vs
  rw [a1] at a4
  rw [b1] at b4
  have hcapM : min M n = n := min_eq_right hM
  have hcapn : min n n = n := min_self n
  rw [hcapM] at a2 a4
  rw [hcapn] at b2 b4
  -- the stopping predicates of the two runs coincide up to step n
  have hP : ∀ k, k ≤ n →
      (vs.map (fun v => colAfter (⇑A) ((tol : ℝ) : 𝕜) k (initCol (α := 𝕜) M v))).any
        (isLarge ((tol : ℝ) : 𝕜) k) =
      (vs.map (fun v => colAfter (⇑A) ((tol : ℝ) : 𝕜) k (initCol (α := 𝕜) n v))).any
        (isLarge ((tol : ℝ) : 𝕜) k) := by
    intro k hk
    rw [List.any_map, List.any_map]
    apply any_congr_mem
    intro v hv
    show isLarge _ k (colAt A M tol v k) = isLarge _ k (colAt A n tol v k)
    have hs := colAt_sameView A tol htol M n v (hvs v hv) k (by omega) hk
    exact isLarge_sameView tol k _ _ (hs.2.1 1 0) hs.2.2
  have hidx : (run (⇑A) n M ((tol : ℝ) : 𝕜) vs).idx = (run (⇑A) n n ((tol : ℝ) : 𝕜) vs).idx := by
    rcases Nat.lt_trichotomy (run (⇑A) n M ((tol : ℝ) : 𝕜) vs).idx
      (run (⇑A) n n ((tol : ℝ) : 𝕜) vs).idx with h | h | h
    · exfalso
      have t := b5 _ h
      rw [← hP _ a2] at t
      rcases a4 with a4 | a4
      · omega
      · rw [a4] at t; exact Bool.false_ne_true t
    · exact h
    · exfalso
      have t := a5 _ h
      rw [hP _ b2] at t
      rcases b4 with b4 | b4
      · omega
      · rw [b4] at t; exact Bool.false_ne_true t
  refine ⟨hidx, fun v hv => ?_⟩
  rw [hidx]
  exact colAt_sameView A tol htol M n v (hvs v hv) _ (by omega) b2

/-- **a larger `max_iters` never executes fewer steps**: the stopping predicates of the two runs coincide
on the common range (the buffers have the same entries), so the run with the smaller cap stops first -/
theorem run_idx_mono (htol : 0 < tol) (n M M' : Nat) (hM : M ≤ M') (vs : List E) (hvs : ∀ v ∈ vs, v ≠ 0) :
    (run (⇑A) n M ((tol : ℝ) : 𝕜) vs).idx ≤ (run (⇑A) n M' ((tol : ℝ) : 𝕜) vs).idx := by
  obtain ⟨_, a2, _, _, a5⟩ := run_spec (⇑A) n M ((tol : ℝ) : 𝕜) vs
  obtain ⟨b1, b2, _, b4, _⟩ := run_spec (⇑A) n M' ((tol : ℝ) : 𝕜) vs
  rw [b1] at b4
  by_contra hlt
  push Not at hlt
  have hk : (run (⇑A) n M' ((tol : ℝ) : 𝕜) vs).idx < min M n := lt_of_lt_of_le hlt a2
  have hkM : (run (⇑A) n M' ((tol : ℝ) : 𝕜) vs).idx ≤ M := le_trans (le_of_lt hk) (min_le_left _ _)
  have t := a5 _ hlt
  have hP : (vs.map (fun v => colAfter (⇑A) ((tol : ℝ) : 𝕜) (run (⇑A) n M' ((tol : ℝ) : 𝕜) vs).idx
        (initCol (α := 𝕜) M v))).any (isLarge ((tol : ℝ) : 𝕜) (run (⇑A) n M' ((tol : ℝ) : 𝕜) vs).idx) =
      (vs.map (fun v => colAfter (⇑A) ((tol : ℝ) : 𝕜) (run (⇑A) n M' ((tol : ℝ) : 𝕜) vs).idx
        (initCol (α := 𝕜) M' v))).any (isLarge ((tol : ℝ) : 𝕜) (run (⇑A) n M' ((tol : ℝ) : 𝕜) vs).idx) := by
    rw [List.any_map, List.any_map]
    apply any_congr_mem
    intro v hv
    have hs := colAt_sameView A tol htol M M' v (hvs v hv) _ hkM (by omega)
    exact isLarge_sameView tol _ _ _ (hs.2.1 1 0) hs.2.2
  rw [hP] at t
  rcases b4 with b4 | b4
  · have : min M n ≤ min M' n := min_le_min_right n hM
    omega
  · rw [b4] at t; exact Bool.false_ne_true t

end Arnoldi
