import Mathlib.Analysis.InnerProductSpace.Basic
import Mathlib.Analysis.InnerProductSpace.Symmetric
import ColaVerif.Model.Lanczos

/-!
# The Lanczos code model at exact arithmetic

`Lanczos.exactNum`, `Lanczos.exactVec`: the instance of the law-free operation classes induced by an
`RCLike` field `𝕜` and an inner product space `E` over it (`dotc x y = ⟪x, y⟫`, Mathlib's inner
product is conjugate-linear in the first argument, exactly `sum(conj(x) * y)`).

Gram–Schmidt lemmas (`gram`, `doubleGram` of the model):

* `gram_eq_sub_proj`: one pass subtracts `Σ_c ⟪c, w⟫ • c` over all columns of the buffer;
* `gram_orth`: against a pairwise orthogonal family of unit-or-zero columns (an orthonormal family
  plus guard / not-yet-written zero columns) the result is orthogonal to every column;
* `gram_of_orth`: a vector orthogonal to every column is returned unchanged;
* `doubleGram_eq_gram`: hence the second pass changes nothing (exact arithmetic);
* `doubleGram_of_orth`.

Functional view of `bodyMem` (`bodyMem_col`, `bodyMem_diag`, `bodyMem_sub`): which entries one
execution of the loop body writes.
-/

open scoped InnerProductSpace

namespace Lanczos

variable {𝕜 E : Type} [RCLike 𝕜] [NormedAddCommGroup E] [InnerProductSpace 𝕜 E]

/-- exact scalar operations -/
@[reducible] noncomputable def exactNum (𝕜 : Type) [RCLike 𝕜] : Num 𝕜 where
  zero := 0
  one := 1
  add := (· + ·)
  sub := (· - ·)
  mul := (· * ·)
  div := (· / ·)
  conj := starRingEnd 𝕜
  re := fun a => ((RCLike.re a : ℝ) : 𝕜)
  sqrt := fun a => ((Real.sqrt (RCLike.re a) : ℝ) : 𝕜)
  lt := fun a b => @decide (RCLike.re a < RCLike.re b) (Classical.propDecidable _)
  tiny := (((1e-30 : ℝ)) : 𝕜)

/-- exact vector operations -/
@[reducible] noncomputable def exactVec (𝕜 E : Type) [RCLike 𝕜] [NormedAddCommGroup E]
    [InnerProductSpace 𝕜 E] : VecOps 𝕜 E where
  add := (· + ·)
  sub := (· - ·)
  smul := fun c v => c • v
  divs := fun v c => c⁻¹ • v
  dotc := fun x y => ⟪x, y⟫_𝕜
  norm := fun v => ((‖v‖ : ℝ) : 𝕜)

attribute [local instance] exactNum exactVec

/-! ## Gram–Schmidt passes -/

/-- `Σ_c ⟪c, w⟫ • c` accumulated left to right -/
noncomputable def proj (L : List E) (w : E) : E :=
  L.foldl (fun acc c => acc + ⟪c, w⟫_𝕜 • c) 0

theorem foldl_proj_acc (L : List E) (w a : E) :
    L.foldl (fun acc c => acc + ⟪c, w⟫_𝕜 • c) a = a + proj (𝕜 := 𝕜) L w := by
  induction L generalizing a with
  | nil => simp [proj]
  | cons h t ih =>
    simp only [proj, List.foldl_cons]
    rw [ih, ih (0 + _)]
    simp [proj, add_assoc]

theorem proj_cons (h : E) (t : List E) (w : E) :
    proj (𝕜 := 𝕜) (h :: t) w = ⟪h, w⟫_𝕜 • h + proj (𝕜 := 𝕜) t w := by
  simp only [proj, List.foldl_cons]
  rw [foldl_proj_acc]; simp [proj]

theorem gram_eq_sub_proj (buf : Array E) (w : E) :
    gram (K := 𝕜) 0 buf w = w - proj (𝕜 := 𝕜) buf.toList w := by
  simp only [gram, proj]
  rw [← Array.foldl_toList]
  rfl

theorem proj_of_orth (L : List E) (w : E) (h : ∀ c ∈ L, ⟪c, w⟫_𝕜 = 0) : proj (𝕜 := 𝕜) L w = 0 := by
  induction L with
  | nil => simp [proj]
  | cons a t ih =>
    rw [proj_cons, h a List.mem_cons_self, zero_smul, zero_add]
    exact ih (fun c hc => h c (List.mem_cons_of_mem _ hc))

/-- a vector orthogonal to every column of the buffer passes unchanged -/
theorem gram_of_orth (buf : Array E) (w : E) (h : ∀ c ∈ buf.toList, ⟪c, w⟫_𝕜 = 0) :
    gram (K := 𝕜) 0 buf w = w := by
  rw [gram_eq_sub_proj, proj_of_orth _ _ h, sub_zero]

theorem inner_proj (L : List E) (w u : E) (hu : ∀ c ∈ L, ⟪u, c⟫_𝕜 = 0) :
    ⟪u, proj (𝕜 := 𝕜) L w⟫_𝕜 = 0 := by
  induction L with
  | nil => simp [proj]
  | cons a t ih =>
    rw [proj_cons, inner_add_right, inner_smul_right, hu a List.mem_cons_self, mul_zero, zero_add]
    exact ih (fun c hc => hu c (List.mem_cons_of_mem _ hc))

/-- the family the buffer holds: pairwise orthogonal columns, each of unit length or zero -/
def OrthoOrZero (L : List E) : Prop :=
  L.Pairwise (fun a b => ⟪a, b⟫_𝕜 = 0) ∧ ∀ c ∈ L, c = 0 ∨ ⟪c, c⟫_𝕜 = 1

theorem inner_proj_of_mem (L : List E) (w u : E) (hL : OrthoOrZero (𝕜 := 𝕜) L) (hu : u ∈ L) :
    ⟪u, proj (𝕜 := 𝕜) L w⟫_𝕜 = ⟪u, w⟫_𝕜 := by
  induction L with
  | nil => simp at hu
  | cons a t ih =>
    obtain ⟨hp, hn⟩ := hL
    rw [List.pairwise_cons] at hp
    have hLt : OrthoOrZero (𝕜 := 𝕜) t := ⟨hp.2, fun c hc => hn c (List.mem_cons_of_mem _ hc)⟩
    rw [proj_cons, inner_add_right, inner_smul_right]
    rcases List.mem_cons.mp hu with rfl | hut
    · rw [inner_proj t w u (fun c hc => hp.1 c hc), add_zero]
      rcases hn u List.mem_cons_self with h0 | h1
      · simp [h0]
      · rw [h1, mul_one]
    · have hau : ⟪u, a⟫_𝕜 = 0 := by
        rw [← inner_conj_symm, hp.1 u hut, map_zero]
      rw [hau, mul_zero, zero_add]
      exact ih hLt hut

/-- one pass against an orthonormal family (plus zero columns) makes the vector orthogonal to every
column of the buffer -/
theorem gram_orth (buf : Array E) (w : E) (hL : OrthoOrZero (𝕜 := 𝕜) buf.toList) :
    ∀ c ∈ buf.toList, ⟪c, gram (K := 𝕜) 0 buf w⟫_𝕜 = 0 := by
  intro c hc
  rw [gram_eq_sub_proj, inner_sub_right, inner_proj_of_mem _ _ _ hL hc, sub_self]

/-- … so the second pass changes nothing: in exact arithmetic `do_double_gram` is `do_gram` -/
theorem doubleGram_eq_gram (buf : Array E) (w : E) (hL : OrthoOrZero (𝕜 := 𝕜) buf.toList) :
    doubleGram (K := 𝕜) 0 buf w = gram (K := 𝕜) 0 buf w := by
  unfold doubleGram
  exact gram_of_orth _ _ (gram_orth buf w hL)

/-- a vector orthogonal to the whole buffer passes both passes unchanged -/
theorem doubleGram_of_orth (buf : Array E) (w : E) (h : ∀ c ∈ buf.toList, ⟪c, w⟫_𝕜 = 0) :
    doubleGram (K := 𝕜) 0 buf w = w := by
  unfold doubleGram
  rw [gram_of_orth buf w h, gram_of_orth buf w h]

/-! ## accessors and the functional view of the loop body -/

/-- column `c` of the member's buffer (zero outside) -/
noncomputable def qc (s : Mem 𝕜 E) (c : Nat) : E := col 0 s.V c
/-- `diag[c]` -/
noncomputable def dg (s : Mem 𝕜 E) (c : Nat) : 𝕜 := s.diag.getD c 0
/-- `subdiag[c]` -/
noncomputable def sb (s : Mem 𝕜 E) (c : Nat) : 𝕜 := s.subdiag.getD c 0

theorem getD_setIfInBounds {α : Type} (a : Array α) (i j : Nat) (x d : α) :
    (a.setIfInBounds i x).getD j d = if i = j ∧ i < a.size then x else a.getD j d := by
  simp only [Array.getD_eq_getD_getElem?, Array.getElem?_setIfInBounds]
  by_cases h : i = j
  · subst h
    by_cases h2 : i < a.size
    · simp [h2]
    · simp [h2]
  · simp [h]

theorem mem_toList_iff_getD (buf : Array E) (x : E) (hx : x ∈ buf.toList) :
    ∃ c, x = col 0 buf c := by
  rw [Array.mem_toList_iff, Array.mem_iff_getElem] at hx
  obtain ⟨i, hi, rfl⟩ := hx
  exact ⟨i, by simp [col, Array.getD_eq_getD_getElem?, hi]⟩

section body
variable (A : E → E) (i : Nat) (s : Mem 𝕜 E)

/-- the normalised column `i` -/
noncomputable def qi' : E := ((‖qc s i‖ : ℝ) : 𝕜)⁻¹ • qc s i
/-- `diag[i-1]` as computed by the body: `sum(conj(A q) * q)` -/
noncomputable def ai' : 𝕜 := ⟪A (qi' (𝕜 := 𝕜) i s), qi' (𝕜 := 𝕜) i s⟫_𝕜
/-- the vector after the three-term subtraction -/
noncomputable def u0' : E :=
  A (qi' (𝕜 := 𝕜) i s) - (ai' A i s • qi' (𝕜 := 𝕜) i s + sb s (i - 1) • qc s (i - 1))
/-- the buffer after the normalisation of column `i` -/
noncomputable def V1' : Array E := s.V.setIfInBounds i (qi' (𝕜 := 𝕜) i s)
/-- the vector written to column `i + 1` -/
noncomputable def u' : E := doubleGram (K := 𝕜) 0 (V1' (𝕜 := 𝕜) i s) (u0' A i s)

variable (hi1 : 1 ≤ i)
include hi1

theorem col_V1' (hV : i < s.V.size) (c : Nat) :
    col 0 (V1' (𝕜 := 𝕜) i s) c = if c = i then qi' (𝕜 := 𝕜) i s else qc s c := by
  unfold V1' col
  rw [getD_setIfInBounds]
  by_cases h : c = i
  · subst h; simp [hV]
  · have : ¬ i = c := fun h' => h h'.symm
    simp [h, this, qc, col]

theorem bodyMem_eq (hV : i < s.V.size) (hD : i - 1 < s.diag.size) :
    bodyMem (K := 𝕜) A 0 i s =
      { V := (V1' (𝕜 := 𝕜) i s).setIfInBounds (i + 1) (u' A i s)
        diag := s.diag.setIfInBounds (i - 1) (ai' A i s)
        subdiag := s.subdiag.setIfInBounds i
          ((‖col 0 ((V1' (𝕜 := 𝕜) i s).setIfInBounds (i + 1) (u' A i s)) (i + 1)‖ : ℝ) : 𝕜) } := by
  have hci : col 0 (V1' (𝕜 := 𝕜) i s) i = qi' (𝕜 := 𝕜) i s := by
    rw [col_V1' i s hi1 hV]; simp
  have hcp : col 0 (V1' (𝕜 := 𝕜) i s) (i - 1) = qc s (i - 1) := by
    rw [col_V1' i s hi1 hV]
    have : i - 1 ≠ i := by omega
    simp [this]
  have hd : (s.diag.setIfInBounds (i - 1) (ai' A i s)).getD (i - 1) 0 = ai' A i s := by
    rw [getD_setIfInBounds]; simp [hD]
  have e1 : s.V.setIfInBounds i ((((‖col 0 s.V i‖ : ℝ) : 𝕜))⁻¹ • col 0 s.V i) = V1' (𝕜 := 𝕜) i s := rfl
  unfold bodyMem
  simp only [VecOps.norm, VecOps.divs, VecOps.dotc, VecOps.add, VecOps.sub, VecOps.smul, Num.zero]
  rw [e1]
  simp only [hci, hcp]
  have e2 : ⟪A (qi' (𝕜 := 𝕜) i s), qi' (𝕜 := 𝕜) i s⟫_𝕜 = ai' A i s := rfl
  rw [e2, hd]
  rfl

theorem bodyMem_col (hV : i + 1 < s.V.size) (hD : i - 1 < s.diag.size) (c : Nat) :
    qc (bodyMem (K := 𝕜) A 0 i s) c =
      if c = i + 1 then u' A i s else if c = i then qi' (𝕜 := 𝕜) i s else qc s c := by
  rw [bodyMem_eq A i s hi1 (by omega) hD]
  simp only [qc]
  unfold col
  rw [getD_setIfInBounds]
  have hs : (V1' (𝕜 := 𝕜) i s).size = s.V.size := by simp [V1']
  by_cases h : c = i + 1
  · subst h; simp [hs, hV]
  · have : ¬ i + 1 = c := fun h' => h h'.symm
    simp only [this, false_and, if_false, h]
    exact col_V1' i s hi1 (by omega) c

theorem bodyMem_diag (hV : i < s.V.size) (hD : i - 1 < s.diag.size) (c : Nat) :
    dg (bodyMem (K := 𝕜) A 0 i s) c = if c = i - 1 then ai' A i s else dg s c := by
  rw [bodyMem_eq A i s hi1 hV hD]
  simp only [dg]
  rw [getD_setIfInBounds]
  by_cases h : c = i - 1
  · subst h; simp [hD]
  · have : ¬ i - 1 = c := fun h' => h h'.symm
    simp [h, this]

theorem bodyMem_sub (hV : i + 1 < s.V.size) (hD : i - 1 < s.diag.size) (hS : i < s.subdiag.size)
    (c : Nat) :
    sb (bodyMem (K := 𝕜) A 0 i s) c = if c = i then ((‖u' A i s‖ : ℝ) : 𝕜) else sb s c := by
  rw [bodyMem_eq A i s hi1 (by omega) hD]
  simp only [sb]
  rw [getD_setIfInBounds]
  have hs : (V1' (𝕜 := 𝕜) i s).size = s.V.size := by simp [V1']
  have hu : col 0 ((V1' (𝕜 := 𝕜) i s).setIfInBounds (i + 1) (u' A i s)) (i + 1) = u' A i s := by
    unfold col; rw [getD_setIfInBounds]; simp [hs, hV]
  by_cases h : c = i
  · subst h; simp [hS, hu]
  · have : ¬ i = c := fun h' => h h'.symm
    simp [h, this]

omit hi1 in
theorem bodyMem_sizes :
    (bodyMem (K := 𝕜) A 0 i s).V.size = s.V.size ∧
    (bodyMem (K := 𝕜) A 0 i s).diag.size = s.diag.size ∧
    (bodyMem (K := 𝕜) A 0 i s).subdiag.size = s.subdiag.size := by
  unfold bodyMem
  simp

end body

end Lanczos
