import ColaVerif.Lemmas.ArnoldiFact

/-!
# Ritz values: what `arnoldi_eigs` hands to `xnp.eig`

* `ritz_pair`: if `A Q_k = Q_k H_k` with orthonormal `Q_k`, every eigenpair `(μ, y)` of `H_k`
  lifts to the eigenpair `(μ, Q_k y)` of `A` — no spurious eigenvalues when the matrix is trimmed
  to an invariant leading block;
* `Inv.invariant_relation`: the leading `k × k` block is invariant when step `k-1` broke down
  exactly (`β_{k-1} = 0`; automatic for `k = dim E`);
* `padded_has_zero_eigenvalue`: the square part of the *whole buffer* (`max_iters` columns) has the
  eigenvalue `0` whenever fewer than `max_iters` steps were executed — defect (a).
-/

open scoped InnerProductSpace
open Finset

namespace Arnoldi

variable {𝕜 E : Type} [RCLike 𝕜] [NormedAddCommGroup E] [InnerProductSpace 𝕜 E]
variable {A : E →ₗ[𝕜] E} {M : Nat} {v : E} {tol : ℝ}

/-- eigenpairs of `H_k` lift to eigenpairs of `A` -/
theorem ritz_pair (q : Nat → E) (h : Nat → Nat → 𝕜) (k : Nat)
    (hON : ∀ a, a < k → ∀ b, b < k → ⟪q a, q b⟫_𝕜 = if a = b then 1 else 0)
    (hrel : ∀ i, i < k → A (q i) = ∑ l ∈ range k, h l i • q l)
    (μ : 𝕜) (y : Nat → 𝕜) (hy : ∃ a, a < k ∧ y a ≠ 0)
    (heig : ∀ l, l < k → ∑ i ∈ range k, h l i * y i = μ * y l) :
    A (∑ i ∈ range k, y i • q i) = μ • ∑ i ∈ range k, y i • q i ∧
      (∑ i ∈ range k, y i • q i) ≠ 0 := by
  constructor
  · rw [map_sum]
    calc ∑ i ∈ range k, A (y i • q i)
        = ∑ i ∈ range k, ∑ l ∈ range k, (h l i * y i) • q l := by
          apply sum_congr rfl
          intro i hi
          rw [map_smul, hrel i (mem_range.mp hi), smul_sum]
          apply sum_congr rfl
          intro l _
          rw [smul_smul, mul_comm]
      _ = ∑ l ∈ range k, ∑ i ∈ range k, (h l i * y i) • q l := sum_comm
      _ = ∑ l ∈ range k, (μ * y l) • q l := by
          apply sum_congr rfl
          intro l hl
          rw [← sum_smul, heig l (mem_range.mp hl)]
      _ = μ • ∑ i ∈ range k, y i • q i := by
          rw [smul_sum]
          apply sum_congr rfl
          intro l _
          rw [smul_smul]
  · obtain ⟨a, ha, hya⟩ := hy
    intro hz
    have : ⟪q a, ∑ i ∈ range k, y i • q i⟫_𝕜 = y a := by
      rw [inner_sum]
      rw [sum_eq_single a]
      · rw [inner_smul_right, hON a ha a ha, if_pos rfl, mul_one]
      · intro b hb hba
        rw [inner_smul_right, hON a ha b (mem_range.mp hb), if_neg (Ne.symm hba), mul_zero]
      · intro hna; exact absurd (mem_range.mpr ha) hna
    rw [hz, inner_zero_right] at this
    exact hya this.symm

/-- the leading `k` columns span an invariant subspace when step `k-1` broke down exactly -/
theorem Inv.invariant_relation (htol : 0 < tol) {j : Nat} {c : Col 𝕜 E}
    (hc : Inv A M v tol j c) (hnc : NoClip tol j c) (k : Nat) (hk0 : 0 < k) (hk : k ≤ j)
    (hβ : c.beta (k - 1) = 0) (i : Nat) (hi : i < k) :
    A (c.q i) = ∑ l ∈ range k, c.h l i • c.q l := by
  rw [hc.relation htol hnc i (by omega)]
  by_cases h : i + 2 ≤ k
  · apply sum_subset
    · intro l hl; rw [mem_range] at hl ⊢; omega
    · intro l _ hl
      rw [mem_range] at hl
      rw [hc.hHess i l (by omega), zero_smul]
  · have hik : i + 1 = k := by omega
    rw [sum_range_succ, hik]
    have hq : c.q k = 0 := by
      have := hc.next_zero_of_beta_zero htol (k - 1) (by omega) hβ
      rwa [Nat.sub_add_cancel hk0] at this
    rw [hq, smul_zero, add_zero]

/-- defect (a): with fewer executed steps than `max_iters`, the last column of the square part
of the buffer is zero, so `0` is an eigenvalue of the matrix `arnoldi_eigs` gives to `eig` -/
theorem Inv.padded_has_zero_eigenvalue {j : Nat} {c : Col 𝕜 E} (hc : Inv A M v tol j c)
    (hjM : j < M) :
    ∃ y : Nat → 𝕜, (∃ a, a < M ∧ y a ≠ 0) ∧
      ∀ l, l < M → ∑ i ∈ range M, c.h l i * y i = 0 * y l := by
  refine ⟨fun i => if i = M - 1 then 1 else 0, ⟨M - 1, by omega, by simp⟩, ?_⟩
  intro l _
  rw [zero_mul]
  apply sum_eq_zero
  intro i _
  by_cases h : i = M - 1
  · rw [h, hc.hZeroCol (M - 1) (by omega) l, zero_mul]
  · show c.h l i * (if i = M - 1 then 1 else 0) = 0
    rw [if_neg h, mul_zero]

omit [NormedAddCommGroup E] [InnerProductSpace 𝕜 E] in
/-- the entries of the matrix handed to `xnp.eig` -/
theorem eigsMatrix_get (trim : Bool) (steps : Nat) (c : Col 𝕜 E) (r i : Nat)
    (hr : r < eigsSize trim M steps) (hi : i < eigsSize trim M steps) :
    ((eigsMatrix trim M steps c).getD r #[]).getD i 0 = c.h r i := by
  unfold eigsMatrix
  simp only
  rw [getD_ofFn, dif_pos hr, getD_ofFn, dif_pos hi]

/-- expansion in an orthonormal family of `n = dim E` vectors -/
theorem expand_of_card [FiniteDimensional 𝕜 E] (n : Nat) (hn0 : 0 < n)
    (hn : Module.finrank 𝕜 E = n) (q : Nat → E)
    (hON : ∀ a, a < n → ∀ b, b < n → ⟪q a, q b⟫_𝕜 = if a = b then 1 else 0) (x : E) :
    x = ∑ i ∈ range n, ⟪q i, x⟫_𝕜 • q i := by
  have h0 : x - ∑ i ∈ range n, ⟪q i, x⟫_𝕜 • q i = 0 := by
    apply eq_zero_of_orthogonal_of_card n hn0 hn q hON
    intro a ha
    rw [inner_sub_right, inner_sum, sum_eq_single a]
    · rw [inner_smul_right, hON a ha a ha, if_pos rfl, mul_one, sub_self]
    · intro b hb hba
      rw [inner_smul_right, hON a ha b (mem_range.mp hb), if_neg (Ne.symm hba), mul_zero]
    · intro hna; exact absurd (mem_range.mpr ha) hna
  exact sub_eq_zero.mp h0

/-- **completeness at full dimension**: if `A Q_n = Q_n H_n` with `n = dim E` orthonormal columns,
every eigenpair `(μ, x)` of `A` gives the eigenpair `(μ, Q_nᴴ x)` of `H_n` -/
theorem ritz_complete [FiniteDimensional 𝕜 E] (n : Nat) (hn0 : 0 < n)
    (hn : Module.finrank 𝕜 E = n) (q : Nat → E) (h : Nat → Nat → 𝕜)
    (hON : ∀ a, a < n → ∀ b, b < n → ⟪q a, q b⟫_𝕜 = if a = b then 1 else 0)
    (hrel : ∀ i, i < n → A (q i) = ∑ l ∈ range n, h l i • q l)
    (μ : 𝕜) (x : E) (hx : x ≠ 0) (heig : A x = μ • x) :
    (∃ a, a < n ∧ ⟪q a, x⟫_𝕜 ≠ 0) ∧
      ∀ l, l < n → ∑ i ∈ range n, h l i * ⟪q i, x⟫_𝕜 = μ * ⟪q l, x⟫_𝕜 := by
  have hexp := expand_of_card n hn0 hn q hON x
  constructor
  · by_contra hcon
    push Not at hcon
    apply hx
    rw [hexp]
    apply sum_eq_zero
    intro i hi
    rw [hcon i (mem_range.mp hi), zero_smul]
  · intro l hl
    have hAx : A x = ∑ l' ∈ range n, (∑ i ∈ range n, h l' i * ⟪q i, x⟫_𝕜) • q l' := by
      conv_lhs => rw [hexp]
      rw [map_sum]
      calc ∑ i ∈ range n, A (⟪q i, x⟫_𝕜 • q i)
          = ∑ i ∈ range n, ∑ l' ∈ range n, (h l' i * ⟪q i, x⟫_𝕜) • q l' := by
            apply sum_congr rfl
            intro i hi
            rw [map_smul, hrel i (mem_range.mp hi), smul_sum]
            apply sum_congr rfl
            intro l' _
            rw [smul_smul, mul_comm]
        _ = ∑ l' ∈ range n, ∑ i ∈ range n, (h l' i * ⟪q i, x⟫_𝕜) • q l' := sum_comm
        _ = _ := by
            apply sum_congr rfl
            intro l' _
            rw [sum_smul]
    have h1 : ⟪q l, A x⟫_𝕜 = ∑ i ∈ range n, h l i * ⟪q i, x⟫_𝕜 := by
      rw [hAx, inner_sum, sum_eq_single l]
      · rw [inner_smul_right, hON l hl l hl, if_pos rfl, mul_one]
      · intro b hb hbl
        rw [inner_smul_right, hON l hl b (mem_range.mp hb), if_neg (Ne.symm hbl), mul_zero]
      · intro hnl; exact absurd (mem_range.mpr hl) hnl
    rw [← h1, heig, inner_smul_right]

end Arnoldi
