import ColaVerif.Lemmas.EigKrylov
import Mathlib.Tactic.NormNum

/-!
# A Lanczos run with as many columns as the dimension: the Ritz values are the spectrum of the matrix

`C10_lanczos_path` / `C10_lanczos_full` prove extremeness of the selection only AMONG THE RITZ VALUES.  When the run
makes `n = dim` steps (the start vector has grade `n`: cited `C14_grade`, `C14_grade_exists`) the relation
`M Q = Q T` of `C14_relation_matrix` has a SQUARE unitary `Q`, so `charpoly M = charpoly T`
(`charpoly_eq_of_square_relation`), and an `eigh` that returns an invertible eigenvector matrix of `T` (contract)
diagonalises `T` (`roots_charpoly_of_diagonalised`): the values `lanczos_eigs` returns are, with multiplicities, the
roots of the characteristic polynomial of `M` (`lanczos_full_spectrum`).

Second part: the `2 × 2` example `[[2,1],[1,2]]`, `v = e₀` of `Lemmas/LanczosExample.lean` satisfies every hypothesis
(`ex2_*`), used by the witnesses in `Properties/C10.lean`.
-/

open scoped InnerProductSpace
open Finset Matrix Polynomial

namespace Eig

section general
variable {R : Type} [Field R]

/-- `M Q = Q T` with `Q` square (`k = n` columns) and left-invertible: `M` and `T` are similar, equal characteristic
polynomials -/
theorem charpoly_eq_of_square_relation {n k : ℕ} (hk : k = n) (M : Matrix (Fin n) (Fin n) R)
    (Q : Matrix (Fin n) (Fin k) R) (Qi : Matrix (Fin k) (Fin n) R) (T : Matrix (Fin k) (Fin k) R)
    (hrel : M * Q = Q * T) (hinv : Qi * Q = 1) : M.charpoly = T.charpoly := by
  subst hk
  exact charpoly_of_relation k M Q T
    ((Matrix.isUnit_iff_isUnit_det _).mpr (Matrix.isUnit_det_of_left_inverse hinv)) hrel

/-- `T Y = Y diag(d)` with `Y` invertible: the `d_c` are the roots of the characteristic polynomial of `T`, with
multiplicities -/
theorem roots_charpoly_of_diagonalised (k : ℕ) (T Y : Matrix (Fin k) (Fin k) R) (d : ℕ → R) (hY : IsUnit Y)
    (hrel : T * Y = Y * diagonal (fun c : Fin k => d c.val)) :
    T.charpoly.roots = (((List.range k).map d : List R) : Multiset R) := by
  rw [charpoly_of_relation k T Y _ hY hrel, roots_charpoly_diagonal, ofFn_eq_map_range k d]

end general

section lanczos
open Lanczos
variable {𝕜 : Type} [RCLike 𝕜]
attribute [local instance] exactNum exactVec

/-- the eigenvector matrix `eigh` returns for the `k × k` tridiagonal matrix (columns = the returned arrays) -/
def eighVecs (k : ℕ) (vecs : Array (Array 𝕜)) : Matrix (Fin k) (Fin k) 𝕜 :=
  fun a c => (vecs.getD c.val #[]).getD a.val 0

/-- the values `lanczos_eigs` returns are, as a multiset, the values `eigh` returned (it only sorts them) -/
theorem lanczosEigs_vals_multiset {E : Type} [NormedAddCommGroup E] [InnerProductSpace 𝕜 E]
    (eigh : Array (Array 𝕜) → Array 𝕜 × Array (Array 𝕜)) (A : E →ₗ[𝕜] E) (n max_iters : ℕ) (v : E) (tol : ℝ)
    (eigh_size : (eigh (tridiagDense (K := 𝕜) ((lanczosExact A n #[v] max_iters tol).alpha.getD 0 #[])
        ((lanczosExact A n #[v] max_iters tol).beta.getD 0 #[]))).1.size =
        (lanczosExact A n #[v] max_iters tol).iters) :
    ((lanczosEigs (K := 𝕜) eigh (⇑A) n 0 v max_iters (tol : 𝕜)).1.toList : Multiset 𝕜) =
      (((List.range (lanczosExact A n #[v] max_iters tol).iters).map (fun j =>
        (eigh (tridiagDense (K := 𝕜) ((lanczosExact A n #[v] max_iters tol).alpha.getD 0 #[])
          ((lanczosExact A n #[v] max_iters tol).beta.getD 0 #[]))).1.getD j 0) : List 𝕜) : Multiset 𝕜) := by
  set o := lanczosExact A n #[v] max_iters tol with ho
  set e := eigh (tridiagDense (K := 𝕜) (o.alpha.getD 0 #[]) (o.beta.getD 0 #[])) with he
  have h1 : (lanczosEigs (K := 𝕜) eigh (⇑A) n 0 v max_iters (tol : 𝕜)).1.toList =
      (Lanczos.argsort (K := 𝕜) e.1).map (fun j => e.1.getD j 0) := by
    simp only [lanczosEigs]
    rfl
  rw [h1, Multiset.coe_eq_coe]
  have hp := Lanczos.argsort_perm (𝕜 := 𝕜) e.1
  rw [eigh_size] at hp
  exact hp.map _

/-- **a Lanczos run with as many columns as the dimension: the Ritz values ARE the spectrum of the matrix.**
`M Q = Q T` with `Q` square unitary (cited: `C14_relation_matrix`; the grade of the start vector is `n`: cited
`C14_grade`, `C14_grade_exists`), so `charpoly M = charpoly T`; `eigh` (contract `eigh_contract` of C14 plus an
invertible eigenvector matrix) diagonalises `T`. -/
theorem lanczos_full_spectrum {n : ℕ} (eigh : Array (Array 𝕜) → Array 𝕜 × Array (Array 𝕜))
    (M : Matrix (Fin n) (Fin n) 𝕜) (M_hermitian : M.IsHermitian)
    (max_iters : ℕ) (v : EuclideanSpace 𝕜 (Fin n)) (tol : ℝ) (start_nonzero : v ≠ 0)
    (tol_nonneg : 0 ≤ tol) (cap_pos : 1 ≤ min max_iters n)
    (eigh_contract :
      let o := lanczosExact (Matrix.toEuclideanLin M) n #[v] max_iters tol
      let e := eigh (tridiagDense (K := 𝕜) (o.alpha.getD 0 #[]) (o.beta.getD 0 #[]))
      e.1.size = o.iters ∧
      ∀ j a, j < o.iters → a < o.iters →
        ∑ c ∈ range o.iters, o.T 0 a c * (e.2.getD j #[]).getD c 0 =
          e.1.getD j 0 * (e.2.getD j #[]).getD a 0)
    (eigh_independent :
      let o := lanczosExact (Matrix.toEuclideanLin M) n #[v] max_iters tol
      IsUnit (eighVecs o.iters
        (eigh (tridiagDense (K := 𝕜) (o.alpha.getD 0 #[]) (o.beta.getD 0 #[]))).2))
    (ran_n_steps : (lanczosExact (Matrix.toEuclideanLin M) n #[v] max_iters tol).iters = n) :
    IsGrade (Matrix.toEuclideanLin M) v n ∧
    ((lanczosEigs (K := 𝕜) eigh (⇑(Matrix.toEuclideanLin M)) n 0 v max_iters (tol : 𝕜)).1.toList : Multiset 𝕜) =
      M.charpoly.roots := by
  have hsym : (Matrix.toEuclideanLin M).IsSymmetric :=
    Matrix.isSymmetric_toEuclideanLin_iff.mpr M_hermitian
  set o := lanczosExact (Matrix.toEuclideanLin M) n #[v] max_iters tol with ho
  set e := eigh (tridiagDense (K := 𝕜) (o.alpha.getD 0 #[]) (o.beta.getD 0 #[])) with he
  -- the grade of the start vector is `n`
  obtain ⟨hg, hgle, _⟩ := C14_grade_exists (Matrix.toEuclideanLin M) v
  obtain ⟨hle, _, _, _⟩ := C14_grade (Matrix.toEuclideanLin M) hsym n max_iters v tol start_nonzero tol_nonneg
    cap_pos hg
  have hgn : grade (Matrix.toEuclideanLin M) v = n := by
    rw [finrank_euclideanSpace_fin] at hgle
    have : o.iters ≤ grade (Matrix.toEuclideanLin M) v := le_trans hle (min_le_right _ _)
    omega
  have hgrade : IsGrade (Matrix.toEuclideanLin M) v o.iters := by
    rw [show o.iters = grade (Matrix.toEuclideanLin M) v from ran_n_steps.trans hgn.symm]; exact hg
  refine ⟨by have h := hg; rwa [hgn] at h, ?_⟩
  -- `M Q = Q T`, `Qᴴ Q = 1`
  obtain ⟨_, horth, _, _, hrel⟩ :=
    C14_relation_matrix M M_hermitian max_iters v tol start_nonzero tol_nonneg cap_pos
  have hMT : M.charpoly = (tMat (o.T 0) o.iters).charpoly :=
    charpoly_eq_of_square_relation ran_n_steps M _ _ _ (hrel hgrade) horth
  -- `T Y = Y diag(θ)`
  have hTY : tMat (o.T 0) o.iters * eighVecs o.iters e.2 =
      eighVecs o.iters e.2 * diagonal (fun c : Fin o.iters => e.1.getD c.val 0) := by
    ext a c
    rw [Matrix.mul_diagonal, Matrix.mul_apply]
    simp only [tMat, eighVecs]
    rw [Fin.sum_univ_eq_sum_range (fun i => o.T 0 a.val i * (e.2.getD c.val #[]).getD i 0) o.iters,
      eigh_contract.2 c.val a.val c.isLt a.isLt, mul_comm]
  rw [lanczosEigs_vals_multiset eigh (Matrix.toEuclideanLin M) n max_iters v tol eigh_contract.1, hMT]
  exact (roots_charpoly_of_diagonalised o.iters _ _ (fun j => e.1.getD j 0) eigh_independent hTY).symm

end lanczos

/-! ## selection of one member; the `2 × 2` example -/

section one
variable {α β : Type}

/-- a selection of ONE extreme member: it is a member whose magnitude bounds all others -/
theorem IsExtreme.one [Preorder β] {w : Which} {mag : α → β} {l s : List α} (h : IsExtreme w mag 1 l s)
    (hl : l ≠ []) :
    ∃ x, s = [x] ∧ x ∈ l ∧ ∀ y ∈ l, match (generalizing := false) w with
      | .LM => mag y ≤ mag x
      | .SM => mag x ≤ mag y := by
  obtain ⟨rest, hperm, hlen, hdom⟩ := h
  have h1 : s.length = 1 := by
    have : 0 < l.length := List.length_pos_iff.mpr hl
    omega
  obtain ⟨x, rfl⟩ := List.length_eq_one_iff.mp h1
  refine ⟨x, rfl, hperm.subset (by simp), fun y hy => ?_⟩
  rcases List.mem_append.mp (hperm.mem_iff.mpr hy) with hy' | hy'
  · rw [List.mem_singleton] at hy'
    subst hy'
    cases w <;> exact le_refl _
  · exact hdom x (by simp) y hy'

end one

section ex2
open Lanczos
attribute [local instance] exactNum exactVec

/-- `[[2, 1], [1, 2]]` as an entry function (the `MatF` form of `Lanczos.exM2`) -/
def exA2 : MatF ℝ := fun r c => if r = c then 2 else 1

theorem exA2_toMatrix : MatF.toMatrix 2 2 exA2 = exM2 := by
  ext i j
  fin_cases i <;> fin_cases j <;> simp [exA2, exM2]

/-- what the exact eigensolver `eigh2` returns on the run `([[2,1],[1,2]], e₀)`: values `1, 3`, columns `(1,-1)`, `(1,1)` -/
theorem ex2_eigh_value :
    eigh2 (tridiagDense (K := ℝ) ((lanczosExact (Matrix.toEuclideanLin exM2) 2 #[exv2] 5 0).alpha.getD 0 #[])
      ((lanczosExact (Matrix.toEuclideanLin exM2) 2 #[exv2] 5 0).beta.getD 0 #[])) =
      (#[1, 3], #[#[1, -1], #[1, 1]]) := by
  obtain ⟨_, hbs, _, _, h00, _, h01, _, _⟩ := ex2_run
  set o := lanczosExact (Matrix.toEuclideanLin exM2) 2 #[exv2] 5 0
  obtain ⟨d0, d1⟩ := tridiagDense_two (o.alpha.getD 0 #[]) (o.beta.getD 0 #[]) hbs
  unfold eigh2
  simp only [d0, d1]
  have a0 : tridiagEntry (K := ℝ) (o.alpha.getD 0 #[]) (o.beta.getD 0 #[]) 0 0 = 2 := h00
  have a1 : tridiagEntry (K := ℝ) (o.alpha.getD 0 #[]) (o.beta.getD 0 #[]) 0 1 = 1 := h01
  rw [a0, a1]; norm_num

theorem isUnit_of_two (k : ℕ) (hk : k = 2) (Y : Matrix (Fin k) (Fin k) ℝ)
    (hdet : Y ⟨0, by omega⟩ ⟨0, by omega⟩ * Y ⟨1, by omega⟩ ⟨1, by omega⟩ -
      Y ⟨0, by omega⟩ ⟨1, by omega⟩ * Y ⟨1, by omega⟩ ⟨0, by omega⟩ ≠ 0) : IsUnit Y := by
  subst hk
  rw [Matrix.isUnit_iff_isUnit_det, Matrix.det_fin_two, isUnit_iff_ne_zero]
  exact hdet

/-- the eigenvector matrix `eigh2` returns on this run is invertible (`det [[1,1],[-1,1]] = 2`) -/
theorem ex2_eigh_independent :
    IsUnit (eighVecs (lanczosExact (Matrix.toEuclideanLin exM2) 2 #[exv2] 5 0).iters
      (eigh2 (tridiagDense (K := ℝ) ((lanczosExact (Matrix.toEuclideanLin exM2) 2 #[exv2] 5 0).alpha.getD 0 #[])
        ((lanczosExact (Matrix.toEuclideanLin exM2) 2 #[exv2] 5 0).beta.getD 0 #[]))).2) := by
  rw [ex2_eigh_value]
  apply isUnit_of_two _ ex2_run.1
  simp [eighVecs]

/-- an orthonormal eigenvector matrix of `T = [[2,1],[1,2]]`: columns `(1,-1)/√2`, `(1,1)/√2` (rows indexed by `Fin k`) -/
noncomputable def ex2Y (k : ℕ) : Matrix (Fin k) (Fin 2) ℝ :=
  fun a j => (Real.sqrt 2)⁻¹ * (if a.val = 1 ∧ j = 0 then -1 else 1)

theorem ex2Y_two : ex2Y 2 = (Real.sqrt 2)⁻¹ • !![1, 1; -1, 1] := by
  ext i j
  fin_cases i <;> fin_cases j <;> simp [ex2Y]

theorem ex2Y_pairs (k : ℕ) (hk : k = 2) (T : ℕ → ℕ → ℝ) (h00 : T 0 0 = 2) (h10 : T 1 0 = 1) (h01 : T 0 1 = 1)
    (h11 : T 1 1 = 2) : tMat T k * ex2Y k = ex2Y k * diagonal (![1, 3] : Fin 2 → ℝ) := by
  subst hk
  ext i j
  rw [Matrix.mul_diagonal, Matrix.mul_apply, Fin.sum_univ_two]
  fin_cases i <;> fin_cases j <;> simp [tMat, ex2Y, h00, h10, h01, h11] <;> ring

theorem ex2Y_orthonormal (k : ℕ) (hk : k = 2) : (ex2Y k)ᴴ * ex2Y k = 1 := by
  subst hk
  have h2 : (Real.sqrt 2)⁻¹ * (Real.sqrt 2)⁻¹ = 2⁻¹ := by
    rw [← mul_inv, Real.mul_self_sqrt (by norm_num)]
  ext i j
  rw [Matrix.mul_apply, Fin.sum_univ_two]
  fin_cases i <;> fin_cases j <;> simp [ex2Y, Matrix.conjTranspose_apply] <;> nlinarith [h2]

theorem ex2_QY (k : ℕ) (hk : k = 2) (q : ℕ → EuclideanSpace ℝ (Fin 2)) (h0 : q 0 = !₂[1, 0]) (h1 : q 1 = !₂[0, 1]) :
    qMat q k * ex2Y k = ex2Y 2 := by
  subst hk
  ext i j
  rw [Matrix.mul_apply, Fin.sum_univ_two]
  fin_cases i <;> fin_cases j <;> simp [qMat, ex2Y, h0, h1]

/-- every hypothesis of `C10_lanczos_spectrum_of_grade` on the example, for a matrix GIVEN as `M = exM2` (so that the
`MatF` form `MatF.toMatrix 2 2 exA2` can be substituted), and the values `lanczos_eigs` returns there -/
theorem ex2_bundle (M : Matrix (Fin 2) (Fin 2) ℝ) (hM : M = exM2) :
    M.IsHermitian ∧ IsGrade (Matrix.toEuclideanLin M) exv2 2 ∧
    (let o := lanczosExact (Matrix.toEuclideanLin M) 2 #[exv2] 5 0
     let e := eigh2 (tridiagDense (K := ℝ) (o.alpha.getD 0 #[]) (o.beta.getD 0 #[]))
     e.1.size = o.iters ∧
     ∀ j a, j < o.iters → a < o.iters →
       ∑ c ∈ range o.iters, o.T 0 a c * (e.2.getD j #[]).getD c 0 =
         e.1.getD j 0 * (e.2.getD j #[]).getD a 0) ∧
    IsUnit (eighVecs (lanczosExact (Matrix.toEuclideanLin M) 2 #[exv2] 5 0).iters
      (eigh2 (tridiagDense (K := ℝ) ((lanczosExact (Matrix.toEuclideanLin M) 2 #[exv2] 5 0).alpha.getD 0 #[])
        ((lanczosExact (Matrix.toEuclideanLin M) 2 #[exv2] 5 0).beta.getD 0 #[]))).2) ∧
    ((lanczosEigs (K := ℝ) eigh2 (⇑(Matrix.toEuclideanLin M)) 2 0 exv2 5 (RCLike.ofReal (0 : ℝ) : ℝ)).1.toList :
      Multiset ℝ) = (([1, 3] : List ℝ) : Multiset ℝ) := by
  subst hM
  obtain ⟨hsym, _, _, hgr, _⟩ := C14_grade_witness
  obtain ⟨_, _, _, _, hcontract, _⟩ := C14_eigh_contract_witness
  refine ⟨Matrix.isSymmetric_toEuclideanLin_iff.mp hsym, hgr, hcontract, ex2_eigh_independent, ?_⟩
  have := lanczosEigs_vals_multiset eigh2 (Matrix.toEuclideanLin exM2) 2 5 exv2 0 hcontract.1
  rw [ex2_eigh_value, show (lanczosExact (Matrix.toEuclideanLin exM2) 2 #[exv2] 5 0).iters = 2 from ex2_run.1] at this
  rw [this]
  simp [List.range_succ]

end ex2


end Eig
