import ColaVerif.Lemmas.DecompRules

/-!
# C11: when do the rules of `cholesky` / `plu` return at all?

The correctness theorems (`cholRule_ok`, `pluRule_ok`) speak about returned factors.  The rules
fail to return usable factors exactly where a numerical primitive does.  `plu` (after fix
7421396: a Diagonal / ScalarMul is its own upper factor) calls only the dense LU, so it is total
as soon as the dense LUs return (`pluRule_total`).  `cholesky` additionally takes element-wise
square roots: `Op.RootsDefined P A` = "every Diagonal / ScalarMul entry a structural rule reaches
has a square root under its dtype" — an input-domain condition (the entries of a
positive-definite diagonal are positive), `cholRule_total`.
-/

set_option linter.unusedSectionVars false

namespace Op
variable {R : Type}

theorem collectOk_total {α : Type} : ∀ {l : List (Except String α)},
    (∀ r ∈ l, ∃ x, r = .ok x) → ∃ xs, collectOk l = some xs
  | [], _ => ⟨[], rfl⟩
  | r :: rest, h => by
    obtain ⟨x, rfl⟩ := h r List.mem_cons_self
    obtain ⟨xs, hxs⟩ := collectOk_total (l := rest) (fun r' hr' => h r' (List.mem_cons_of_mem _ hr'))
    exact ⟨x :: xs, by simp [collectOk, hxs]⟩

theorem seqE_map_total {α β : Type} {f : α → Except String β} {l : List α}
    (h : ∀ a ∈ l, ∃ x, f a = .ok x) : ∃ xs, seqE (l.map f) = .ok xs := by
  obtain ⟨xs, hxs⟩ := collectOk_total (l := l.map f) (by
    intro r hr
    obtain ⟨a, ha, rfl⟩ := List.mem_map.mp hr
    exact h a ha)
  exact ⟨xs, by simp [seqE, hxs]⟩

theorem sqrtVec_total [Zero R] {P : DecompParams R} {dt : DType} {n : Nat} {d : Nat → R}
    (h : ∀ i, i < n → ∃ s, P.sqrtS dt (d i) = .ok s) : ∃ s, sqrtVec P dt n d = .ok s := by
  obtain ⟨xs, hxs⟩ := seqE_map_total (f := fun i => P.sqrtS dt (d i)) (l := List.range n)
    (fun i hi => h i (List.mem_range.mp hi))
  unfold sqrtVec
  rw [hxs]
  exact ⟨_, rfl⟩

variable [CommRing R] [StarRing R] [DecidableEq R]

/-- every Diagonal / ScalarMul entry reached by a structural rule of `cholesky` has a square
root under the operator's dtype — for a real dtype: no negative entry. -/
def RootsDefined (P : DecompParams R) : Op R → Prop
  | annot _ A => RootsDefined P A
  | diag dt n d => ∀ i, i < n → ∃ s, P.sqrtS dt (d i) = .ok s
  | scalar dt c _ => ∃ s, P.sqrtS dt c = .ok s
  | kron Ms => ∀ M ∈ Ms, RootsDefined P M
  | bdiag Ms _ => ∀ M ∈ Ms, RootsDefined P M
  | _ => True

/-- the dense LU of every fallback node returns (scipy's always does, for a square array) -/
def LuReturns (P : DecompParams R) : Op R → Prop
  | annot _ A => LuReturns P A
  | eye _ _ => True
  | diag _ _ _ => True
  | scalar _ _ _ => True
  | kron Ms => ∀ M ∈ Ms, LuReturns P M
  | bdiag Ms _ => ∀ M ∈ Ms, LuReturns P M
  | A => A.rows = A.cols ∧ ∃ r, P.luDense A.rows A.td.f = some r

/-- the dense Cholesky of every fallback node returns (LAPACK's does on a positive-definite
array) -/
def CholReturns (P : DecompParams R) : Op R → Prop
  | annot _ A => CholReturns P A
  | eye _ _ => True
  | diag _ _ _ => True
  | scalar _ _ _ => True
  | kron Ms => ∀ M ∈ Ms, CholReturns P M
  | bdiag Ms _ => ∀ M ∈ Ms, CholReturns P M
  | A => A.rows = A.cols ∧ ∃ L, P.cholDense A.rows A.td.f = some L

theorem pluFallback_total {P : DecompParams R} {A : Op R} (hsq : A.rows = A.cols)
    (h : ∃ r, P.luDense A.rows A.td.f = some r) : ∃ F, pluFallback P A = .ok F := by
  obtain ⟨⟨p, L, U⟩, hr⟩ := h
  unfold pluFallback
  rw [if_pos hsq, hr]
  exact ⟨_, rfl⟩

theorem cholFallback_total {P : DecompParams R} {A : Op R} (hsq : A.rows = A.cols)
    (h : ∃ L, P.cholDense A.rows A.td.f = some L) : ∃ L, cholFallback P A = .ok L := by
  obtain ⟨L, hr⟩ := h
  unfold cholFallback
  rw [if_pos hsq, hr]
  exact ⟨_, rfl⟩

/-- `plu` returns whenever the dense LUs return -/
theorem pluRule_total {P : DecompParams R} :
    ∀ (A : Op R), LuReturns P A → ∃ F, pluRule P A = .ok F
  | annot a A, h2 => by
    simp only [LuReturns] at h2
    simp only [pluRule]
    split
    · exact ⟨_, rfl⟩
    · exact ⟨_, rfl⟩
    · exact ⟨_, rfl⟩
    · exact pluRule_total A h2
  | eye dt n, _ => by simp only [pluRule]; exact ⟨_, rfl⟩
  | diag dt n d, _ => by simp only [pluRule]; exact ⟨_, rfl⟩
  | scalar dt c n, _ => by simp only [pluRule]; exact ⟨_, rfl⟩
  | kron Ms, h2 => by
    simp only [LuReturns] at h2
    obtain ⟨Fs, hFs⟩ := seqE_map_total (f := fun M => pluRule P M) (l := Ms)
      (fun M hM => pluRule_total M (h2 M hM))
    simp only [pluRule, hFs]; exact ⟨_, rfl⟩
  | bdiag Ms mults, h2 => by
    simp only [LuReturns] at h2
    obtain ⟨Fs, hFs⟩ := seqE_map_total (f := fun M => pluRule P M) (l := Ms)
      (fun M hM => pluRule_total M (h2 M hM))
    simp only [pluRule, hFs]; exact ⟨_, rfl⟩
  | dense .., h2 | tri .., h2 | sparse .., h2 | prod _, h2
  | sum _, h2 | kronsum _, h2 | tridiag .., h2 | transpose _, h2
  | adjoint _, h2 | sliced .., h2 | perm .., h2 | concat .., h2
  | house .., h2 | generic _, h2 => by
    simp only [LuReturns] at h2
    simp only [pluRule]
    exact pluFallback_total h2.1 h2.2
termination_by A => sizeOf A
decreasing_by
  all_goals simp_wf
  all_goals first
    | omega
    | (have := List.sizeOf_lt_of_mem hM; omega)

/-- `cholesky` returns whenever the roots are defined and the dense factorisations return -/
theorem cholRule_total {P : DecompParams R} :
    ∀ (A : Op R), RootsDefined P A → CholReturns P A → ∃ L, cholRule P A = .ok L
  | annot a A, h1, h2 => by
    simp only [RootsDefined] at h1
    simp only [CholReturns] at h2
    simp only [cholRule]
    split
    · exact ⟨_, rfl⟩
    · exact cholRule_total A h1 h2
  | eye dt n, _, _ => by simp only [cholRule]; exact ⟨_, rfl⟩
  | diag dt n d, h1, _ => by
    simp only [RootsDefined] at h1
    obtain ⟨s, hs⟩ := sqrtVec_total h1
    simp only [cholRule, hs]; exact ⟨_, rfl⟩
  | scalar dt c n, h1, _ => by
    simp only [RootsDefined] at h1
    obtain ⟨s, hs⟩ := h1
    simp only [cholRule, hs]; exact ⟨_, rfl⟩
  | kron Ms, h1, h2 => by
    simp only [RootsDefined] at h1
    simp only [CholReturns] at h2
    obtain ⟨Ls, hLs⟩ := seqE_map_total (f := fun M => cholRule P M) (l := Ms)
      (fun M hM => cholRule_total M (h1 M hM) (h2 M hM))
    simp only [cholRule, hLs]; exact ⟨_, rfl⟩
  | bdiag Ms mults, h1, h2 => by
    simp only [RootsDefined] at h1
    simp only [CholReturns] at h2
    obtain ⟨Ls, hLs⟩ := seqE_map_total (f := fun M => cholRule P M) (l := Ms)
      (fun M hM => cholRule_total M (h1 M hM) (h2 M hM))
    simp only [cholRule, hLs]; exact ⟨_, rfl⟩
  | dense .., _, h2 | tri .., _, h2 | sparse .., _, h2 | prod _, _, h2
  | sum _, _, h2 | kronsum _, _, h2 | tridiag .., _, h2 | transpose _, _, h2
  | adjoint _, _, h2 | sliced .., _, h2 | perm .., _, h2 | concat .., _, h2
  | house .., _, h2 | generic _, _, h2 => by
    simp only [CholReturns] at h2
    simp only [cholRule]
    exact cholFallback_total h2.1 h2.2
termination_by A => sizeOf A
decreasing_by
  all_goals simp_wf
  all_goals first
    | omega
    | (have := List.sizeOf_lt_of_mem hM; omega)

end Op
