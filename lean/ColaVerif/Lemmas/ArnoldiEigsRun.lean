import ColaVerif.Lemmas.ArnoldiKrylov

/-!
# `arnoldi_eigs` of the model: its actual output, with `xnp.eig` as a parameter under a contract

* `arnoldiEigs_single`: what `Arnoldi.arnoldiEigs` returns, in terms of the buffers of the run;
* `EigPairs` / `EigComplete`: the contract of `xnp.eig` on the one matrix it is given (sound / complete part);
* `ritz_of_eigPairs`: every returned pair `(ev[j], Q[:, :k] @ vs[:, j])` is an eigenpair of `A` after an exact breakdown;
* `complete_of_eigComplete`: at `steps = dim E` every eigenvalue of `A` is among the returned values.
-/

open scoped InnerProductSpace
open Finset

namespace Arnoldi

variable {𝕜 E : Type} [RCLike 𝕜] [NormedAddCommGroup E] [InnerProductSpace 𝕜 E]

/-- **contract of `xnp.eig` on one call** (LAPACK `geev`, exact arithmetic), sound part: column `j` of the returned
matrix `vs` (array of rows) is a non-zero eigenvector of the `k × k` matrix `Hm` for the returned value `ev[j]` -/
def EigPairs (k : Nat) (Hm : Array (Array 𝕜)) (ev : Array 𝕜) (vs : Array (Array 𝕜)) : Prop :=
  ∀ j, j < k → (∃ a, a < k ∧ (vs.getD a #[]).getD j 0 ≠ 0) ∧
    ∀ l, l < k → ∑ i ∈ range k, (Hm.getD l #[]).getD i 0 * (vs.getD i #[]).getD j 0 =
      ev.getD j 0 * (vs.getD l #[]).getD j 0

/-- complete part of the contract: every eigenvalue of `Hm` (over the scalar field of the model) is among the
returned values -/
def EigComplete (k : Nat) (Hm : Array (Array 𝕜)) (ev : Array 𝕜) : Prop :=
  ∀ (μ : 𝕜) (y : Nat → 𝕜), (∃ a, a < k ∧ y a ≠ 0) →
    (∀ l, l < k → ∑ i ∈ range k, (Hm.getD l #[]).getD i 0 * y i = μ * y l) → ∃ j, j < k ∧ ev.getD j 0 = μ

theorem ritzVectors_getD (k : Nat) (c : Col 𝕜 E) (hz : c.z = 0) (vs : Array (Array 𝕜)) (j : Nat)
    (hj : j < k) :
    (ritzVectors k c vs).getD j 0 = ∑ l ∈ range k, (vs.getD l #[]).getD j 0 • c.q l := by
  unfold ritzVectors
  rw [getD_ofFn, dif_pos hj]
  simp only
  generalize k = m
  induction m with
  | zero => simp [hz]
  | succ m ih =>
    rw [List.range_succ, List.foldl_append, ih, sum_range_succ]
    rfl

/-- `arnoldi_eigs` of the model for one start vector, in terms of the buffers of the run -/
theorem arnoldiEigs_single (eig : Array (Array 𝕜) → Array 𝕜 × Array (Array 𝕜)) (trim : Bool)
    (A : E →ₗ[𝕜] E) (n M : Nat) (tol : ℝ) (v : E) :
    arnoldiEigs eig trim (⇑A) n M ((tol : ℝ) : 𝕜) v =
      ((eig (eigsMatrix trim M (runE A n M tol [v]).idx (colAt A M tol v (runE A n M tol [v]).idx))).1,
       ritzVectors (eigsSize trim M (runE A n M tol [v]).idx) (colAt A M tol v (runE A n M tol [v]).idx)
         (eig (eigsMatrix trim M (runE A n M tol [v]).idx (colAt A M tol v (runE A n M tol [v]).idx))).2,
       runE A n M tol [v]) := by
  have hc := (run_spec (⇑A) n M ((tol : ℝ) : 𝕜) [v]).1
  simp only [List.map_cons, List.map_nil] at hc
  unfold arnoldiEigs
  simp only
  split
  · rename_i h
    rw [hc] at h
    cases h
  · rename_i c cs h
    rw [hc] at h
    injection h with h1 h2
    subst h1
    rfl

section eigs
variable {A : E →ₗ[𝕜] E} {M : Nat} {tol : ℝ} {v : E}

/-- every pair returned by `eig` on the trimmed matrix lifts to an eigenpair of `A` (buffers after `s`
steps, exact breakdown in step `s - 1`, no earlier clip) -/
theorem ritz_of_eigPairs (htol : 0 < tol) (hv : v ≠ 0) (s : Nat) (hs0 : 0 < s) (hsM : s ≤ M)
    (hun : ∀ i, i + 1 < s → tol / 2 ≤ (colAt A M tol v s).beta i)
    (hbreak : (colAt A M tol v s).beta (s - 1) = 0)
    (ev : Array 𝕜) (vs : Array (Array 𝕜))
    (heig : EigPairs s (eigsMatrix true M s (colAt A M tol v s)) ev vs) (j : Nat) (hj : j < s) :
    A ((ritzVectors s (colAt A M tol v s) vs).getD j 0) =
      ev.getD j 0 • (ritzVectors s (colAt A M tol v s) vs).getD j 0 ∧
    (ritzVectors s (colAt A M tol v s) vs).getD j 0 ≠ 0 := by
  have hinv := inv_colAfter A M v tol hv htol s hsM
  have hnc : NoClip tol s (colAt A M tol v s) := by
    intro i hi
    by_cases h : i + 1 < s
    · right; exact hun i h
    · left
      have : i = s - 1 := by omega
      rw [this]; exact hbreak
  rw [ritzVectors_getD s _ hinv.z0 vs j hj]
  obtain ⟨hne, hrow⟩ := heig j hj
  apply ritz_pair (A := A) (colAt A M tol v s).q (colAt A M tol v s).h s (hinv.orth hun).1
    (fun i hi => hinv.invariant_relation htol hnc s hs0 (le_refl _) hbreak i hi)
    (ev.getD j 0) (fun i => (vs.getD i #[]).getD j 0) hne
  intro l hl
  rw [← hrow l hl]
  apply sum_congr rfl
  intro i hi
  rw [eigsMatrix_get true s _ l i (show l < s from hl) (show i < s from mem_range.mp hi)]

/-- at full dimension every eigenvalue of `A` is returned, if `eig` returns every eigenvalue of the matrix
it is given -/
theorem complete_of_eigComplete [FiniteDimensional 𝕜 E] (htol : 0 < tol) (hv : v ≠ 0) (n : Nat)
    (dimE : Module.finrank 𝕜 E = n) (hn : 0 < n) (hnM : n ≤ M)
    (hun : ∀ i, i + 1 < n → tol / 2 ≤ (colAt A M tol v n).beta i) (ev : Array 𝕜)
    (hcomp : EigComplete n (eigsMatrix true M n (colAt A M tol v n)) ev)
    (μ : 𝕜) (x : E) (hx : x ≠ 0) (hAx : A x = μ • x) : ∃ j, j < n ∧ ev.getD j 0 = μ := by
  have hinv := inv_colAfter A M v tol hv htol n hnM
  have hcap := hinv.cap_column_zero dimE hn hun
  have hnc : NoClip tol n (colAt A M tol v n) := by
    intro i hi
    by_cases h : i + 1 < n
    · right; exact hun i h
    · left
      have : i = n - 1 := by omega
      rw [this]; exact hcap.2
  obtain ⟨h1, h2⟩ := ritz_complete (A := A) n hn dimE (colAt A M tol v n).q (colAt A M tol v n).h
    (hinv.orth hun).1
    (fun i hi => hinv.invariant_relation htol hnc n hn (le_refl _) hcap.2 i hi) μ x hx hAx
  apply hcomp μ (fun i => ⟪(colAt A M tol v n).q i, x⟫_𝕜) h1
  intro l hl
  rw [← h2 l hl]
  apply sum_congr rfl
  intro i hi
  rw [eigsMatrix_get true n _ l i (show l < n from hl) (show i < n from mem_range.mp hi)]

end eigs

end Arnoldi
