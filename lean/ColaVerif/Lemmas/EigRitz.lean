import Mathlib.Analysis.RCLike.Basic
import Mathlib.LinearAlgebra.Matrix.ToLin
import Mathlib.LinearAlgebra.Matrix.ConjTranspose
import Mathlib.LinearAlgebra.LinearIndependent.Basic

/-!
# Ritz pairs of a full Krylov run are eigenpairs

`eig(A, k, which, Lanczos / Arnoldi)` returns `Q y` for eigenpairs `(θ, y)` of the projected matrix
(`T` tridiagonal for Lanczos — property C14; `H` Hessenberg for Arnoldi — property C15).  C14 / C15
establish the relation `A Q = Q T` for a run whose Krylov space is exhausted (the residual column
vanishes; with at least `n` iterations on an `n × n` operator) and `Qᴴ Q = 1`.  Under that relation:
-/

open Matrix

namespace Eig

variable {𝕜 : Type} [RCLike 𝕜] {n m κ : Type} [Fintype n] [Fintype m] [Fintype κ]

/-- an eigenpair of the projected matrix maps to an eigenpair of `A` -/
theorem ritz_eigenpair (A : Matrix n n 𝕜) (Q : Matrix n m 𝕜) (T : Matrix m m 𝕜)
    (relation : A * Q = Q * T) (y : m → 𝕜) (θ : 𝕜) (hy : T *ᵥ y = θ • y) :
    A *ᵥ (Q *ᵥ y) = θ • (Q *ᵥ y) := by
  rw [mulVec_mulVec, relation, ← mulVec_mulVec, hy, mulVec_smul]

/-- orthonormal columns: `Q` is injective, so the Ritz vector of a non-zero `y` is non-zero -/
theorem ritz_ne_zero [DecidableEq m] (Q : Matrix n m 𝕜) (orthonormal : Qᴴ * Q = 1) (y : m → 𝕜)
    (hy : y ≠ 0) : Q *ᵥ y ≠ 0 := by
  intro h
  apply hy
  have : (Qᴴ * Q) *ᵥ y = 0 := by rw [← mulVec_mulVec, h, mulVec_zero]
  rwa [orthonormal, one_mulVec] at this

/-- all pairs at once: `T Y = Y diag(θ)` gives `A (Q Y) = (Q Y) diag(θ)` -/
theorem ritz_pairs [DecidableEq κ] (A : Matrix n n 𝕜) (Q : Matrix n m 𝕜) (T : Matrix m m 𝕜)
    (relation : A * Q = Q * T) (Y : Matrix m κ 𝕜) (θ : κ → 𝕜) (hY : T * Y = Y * diagonal θ) :
    A * (Q * Y) = (Q * Y) * diagonal θ := by
  rw [← Matrix.mul_assoc, relation, Matrix.mul_assoc, hY, Matrix.mul_assoc]

omit [Fintype κ] in
/-- orthonormal eigenvectors of the projected matrix give orthonormal Ritz vectors
(self-adjoint `A`: `eigh` of `T`) -/
theorem ritz_orthonormal [DecidableEq m] [DecidableEq κ] (Q : Matrix n m 𝕜) (orthonormal : Qᴴ * Q = 1)
    (Y : Matrix m κ 𝕜) (hY : Yᴴ * Y = 1) : (Q * Y)ᴴ * (Q * Y) = 1 := by
  rw [conjTranspose_mul, Matrix.mul_assoc, ← Matrix.mul_assoc Qᴴ, orthonormal, Matrix.one_mul, hY]

/-- linearly independent eigenvectors of the projected matrix give linearly independent Ritz
vectors (general `A`: `eig` of `H`) -/
theorem ritz_linearIndependent [DecidableEq m] (Q : Matrix n m 𝕜) (orthonormal : Qᴴ * Q = 1)
    {ι : Type} (ys : ι → m → 𝕜) (independent : LinearIndependent 𝕜 ys) :
    LinearIndependent 𝕜 (fun j => Q *ᵥ ys j) := by
  have hker : LinearMap.ker Q.mulVecLin = ⊥ := by
    rw [LinearMap.ker_eq_bot']
    intro y hy
    by_contra hne
    exact ritz_ne_zero Q orthonormal y hne hy
  exact independent.map' Q.mulVecLin hker

end Eig
