import ColaVerif.Lemmas.LogDetKrylov
import ColaVerif.Lemmas.KrylovInst

/-!
# C07: the Lanczos kernel of `slogdet` DEFINED from the loop model of C14 — `TrlogOfParts` is a theorem (round 3)

`Lemmas/LogDetKrylov.lean` states `TrlogOfParts K lg S` as the hypothesis on the Krylov kernel.  Here the kernel is a
DEFINITION on top of `KrylovCompose.lanczosUnaryMat` (Lemmas/KrylovInst.lean: `Lanczos.lanczosExact` of C14 on every
identity probe, `eigh` of the returned `T`, `Q P (log θ ⊙ Pᴴ e₁)`, then the exact trace), and

* `lanczosKernels_parts` — `TrlogOfParts (lanczosKernels eigh max_iters tol) Complex.log {z ≠ 0}` under the ONE remaining
  contract `EighContract eigh` (LAPACK `eigh` of the small tridiagonal matrix; satisfiable: `eighSpectral_contract`);
* `lanczosKernels_answers` — for `tol = 0`, cap `≥ n` the kernel answers on EVERY Hermitian non-singular operator
  (`C14_grade`: the runs stop at the grade with zero residual) and `exp` of the answer is the determinant;
* `hermitian_diagonalisable` — the diagonalisability hypothesis of C09's specification from the spectral theorem.
-/

set_option linter.unusedSectionVars false

open Matrix MatFun KrylovCompose

namespace Op

section lanczosKernel
open Lanczos
attribute [local instance] Lanczos.exactNum Lanczos.exactVec

/-- a non-singular Hermitian matrix is diagonalisable with spectrum off `0` (spectral theorem) -/
theorem hermitian_diagonalisable {n : ℕ} (M : Matrix (Fin n) (Fin n) ℂ) (h : M.IsHermitian) (hdet : M.det ≠ 0) :
    DiagonalisableOn {z : ℂ | z ≠ 0} M := by
  obtain ⟨hP, hT⟩ := eighSpectral_contract (𝕜 := ℂ) n M h
  generalize (eighSpectral n M).1 = P at hP hT
  generalize (eighSpectral n M).2 = θ at hT
  have hM : M = P * Matrix.diagonal θ * Pᴴ := KrylovPoly.eq_conj_of_eig hP hT
  refine ⟨P, Pᴴ, θ, hP, ?_, hM⟩
  intro i hi
  apply hdet
  rw [hM, Matrix.det_mul, Matrix.det_mul, mul_right_comm, ← Matrix.det_mul, mul_eq_one_comm.mp hP,
    Matrix.det_one, one_mul, Matrix.det_diagonal]
  exact Finset.prod_eq_zero (Finset.mem_univ i) hi

variable [DecidableEq ℂ]

/-- **the Lanczos kernel of `slogdet`, DEFINED from the loop model of C14**: `trace(log(A, Lanczos(max_iters, tol)), Exact())`
= the trace of the matrix whose `i`-th column is the model's `LanczosUnary(A, clog) @ e_i` (`KrylovCompose.lanczosUnaryMat`:
`Lanczos.lanczosExact` run on `e_i`, `eigh` of the returned `T`, `Q P (log θ ⊙ Pᴴ e₁)`).  It answers when the represented
matrix is Hermitian (the semantic content of `assert A.isa(SelfAdjoint)`), non-singular, and every probe's run is
exhausted.

WHAT THIS KERNEL MODELS, precisely — it is narrower than the real call:
* ONE PROBE AT A TIME.  The real `Exact()` trace multiplies `LanczosUnary` by blocks of up to 100 identity columns, and
  `lanczos_fact` runs the block as ONE batched loop with a shared stopping test.  Here each `e_i` is its own run
  (`#[single i 1]`, batch of one).  The batched loop is not modelled; where it differs from the one-by-one runs is the
  recorded clause `lanczos-batch-breakdown` (C14 `batch-member-breakdown`).
* IDENTITY PROBES = THE EXACT TRACE.  Only `trace(…, Exact())` is modelled (the sum of the diagonal entries
  `e_iᴴ log(A) e_i`); the stochastic estimators are not.
* THE ARGUMENTS `la` / `ta` OF THE KERNEL SLOT ARE IGNORED (`lanczosKernels` passes `fun _ _ A => …`): the options come
  from the parameters `max_iters`, `tol` of this definition, i.e. one fixed `Lanczos(max_iters, tol)` object whatever
  log-algorithm / trace-algorithm objects the rule hands down.
* RUN TO THE GRADE.  The kernel ERRORS unless every probe's residual is EXACTLY `0` at the step the run stops
  (`resid … 0 = 0`): the Krylov space of every `e_i` is exhausted, i.e. the run reaches the grade of `e_i`
  (`max_iters ≥` grade, and the relative test `tol` did not stop it earlier on a non-zero residual; with `tol = 0` the
  run stops exactly at the grade).  A truncated run (the usual floating-point situation, residual small but non-zero)
  gets `.error "lanczos"` here: NOTHING is claimed about it.  Convergence of truncated Lanczos quadrature is not part of C07.
So the theorems built on it (`lanczosKernels_parts`, `C07_lanczos_kernel_parts`, `C07_lanczos_kernel_answers`) say: in exact arithmetic, probe by probe, run to the
grade, the Lanczos path returns `tr log A`.  They say nothing about batching, truncation or rounding. -/
noncomputable def lanczosTrlog (eigh : Eigh ℂ) (max_iters : ℕ) (tol : ℝ) (A : Op ℂ) : Except String ℂ :=
  open Classical in
  if A.rows = A.cols ∧ (MatF.toMatrix A.rows A.rows A.den.f).IsHermitian ∧
      (MatF.toMatrix A.rows A.rows A.den.f).det ≠ 0 ∧ 0 ≤ tol ∧ 1 ≤ min max_iters A.rows ∧
      ∀ i : Fin A.rows, (lanczosExact (Matrix.toEuclideanLin (MatF.toMatrix A.rows A.rows A.den.f)) A.rows
        #[EuclideanSpace.single i (1 : ℂ)] max_iters tol).resid
          (Matrix.toEuclideanLin (MatF.toMatrix A.rows A.rows A.den.f)) 0 = 0
  then .ok (Matrix.trace (lanczosUnaryMat eigh (MatF.toMatrix A.rows A.rows A.den.f) max_iters tol Complex.log))
  else .error "lanczos"

/-- kernels whose Krylov part is the Lanczos model (no Cholesky / LU) -/
noncomputable def lanczosKernels (eigh : Eigh ℂ) (max_iters : ℕ) (tol : ℝ) : DetKernels ℂ ℂ :=
  ⟨fun _ _ => .error "none", fun _ _ => .error "none", fun _ _ A => lanczosTrlog eigh max_iters tol A⟩

/-- **`TrlogOfParts` is a THEOREM for the Lanczos kernel**: its result is the trace of a matrix that is `log` of the
represented matrix in the sense of C09 — from `KrylovCompose.lanczosUnaryMat_isMatFun` (= the path theorem
`lanczos_unary_exact` on every identity column, factorisation from C14's `single_out`).  Remaining contract:
`EighContract eigh` (LAPACK `eigh` on the small tridiagonal matrix). -/
theorem lanczosKernels_parts (eigh : Eigh ℂ) (contract : EighContract eigh) (max_iters : ℕ) (tol : ℝ) :
    TrlogOfParts (lanczosKernels eigh max_iters tol) Complex.log {z : ℂ | z ≠ 0} := by
  intro la ta A t h _ _
  simp only [lanczosKernels, lanczosTrlog] at h
  split at h
  · rename_i hc
    obtain ⟨_, hH, hdet, htol, hcap, hex⟩ := hc
    simp only [Except.ok.injEq] at h
    exact ⟨_, lanczosUnaryMat_isMatFun eigh contract _ hH (hermitian_diagonalisable _ hH hdet) max_iters tol
      htol hcap hex Complex.log, h.symm⟩
  · simp at h

/-- … and the kernel ANSWERS on every Hermitian non-singular operator when `tol = 0` and the cap is at least `n`
(the runs stop at the grade with zero residual: `C14_grade`), with `exp` of its answer the determinant -/
theorem lanczosKernels_answers (eigh : Eigh ℂ) (contract : EighContract eigh) (max_iters : ℕ) (la : LogAlg)
    (ta : TraceAlg) (A : Op ℂ) (sq : A.rows = A.cols)
    (herm : (MatF.toMatrix A.rows A.rows A.den.f).IsHermitian)
    (hdet : (MatF.toMatrix A.rows A.rows A.den.f).det ≠ 0) (hn : 1 ≤ A.rows) (hcap : A.rows ≤ max_iters) :
    ∃ t, (lanczosKernels eigh max_iters 0).trlog la ta A = .ok t ∧
      Complex.exp t = (MatF.toMatrix A.rows A.rows A.den.f).det := by
  have hsym := Matrix.isSymmetric_toEuclideanLin_iff.mpr herm
  have hex : ∀ i : Fin A.rows, (lanczosExact (Matrix.toEuclideanLin (MatF.toMatrix A.rows A.rows A.den.f)) A.rows
        #[EuclideanSpace.single i (1 : ℂ)] max_iters 0).resid
          (Matrix.toEuclideanLin (MatF.toMatrix A.rows A.rows A.den.f)) 0 = 0 :=
    fun i => lanczos_exhausted_of_cap _ hsym max_iters _ (single_ne_zero i) hn hcap
  refine ⟨Matrix.trace (lanczosUnaryMat eigh (MatF.toMatrix A.rows A.rows A.den.f) max_iters 0 Complex.log), ?_, ?_⟩
  · simp only [lanczosKernels, lanczosTrlog]
    rw [if_pos ⟨sq, herm, hdet, le_refl _, by simp; omega, hex⟩]
  · exact exp_trace_matFun Complex.log exp_clog
      (lanczosUnaryMat_isMatFun eigh contract _ herm (hermitian_diagonalisable _ herm hdet) max_iters 0
        (le_refl _) (by simp; omega) hex Complex.log)

end lanczosKernel

/-- `SelfAdjoint(Dense [[2,1],[1,2]])`, complex dtype (witness input of `C07_lanczos_kernel_witness`) -/
noncomputable def exH : Op ℂ := .annot .selfAdjoint (.dense .c128 2 2 (fun i j => if i = j then 2 else 1))

theorem det_toMatrix_two (n : ℕ) (hn : n = 2) (D : MatF ℂ) :
    (MatF.toMatrix n n D).det = D 0 0 * D 1 1 - D 0 1 * D 1 0 := by
  subst hn
  rw [Matrix.det_fin_two]
  rfl

end Op
