import ColaVerif.Lemmas.DecompExecSound

/-!
# Exact factorisations of concrete non-diagonal matrices (shared by C06 and C11)

The exact Gaussian-rational primitives `GDecomp.gcholDense` / `GDecomp.gluDense` (what the drivers
run in place of LAPACK `potrf` / `scipy.linalg.lu`) are EVALUATED (kernel computation) on

* `cholA2  = [[4, 2], [2, 5]]`        → `L = [[2, 0], [1, 2]]`,
* `cholA2c = [[4, 2i], [-2i, 5]]`     → `L = [[2, 0], [-i, 2]]` (Hermitian, non-real off-diagonal),
* `luA3    = [[0,1,1],[2,1,0],[2,2,3]]` → `p = [1,0,2]` (a row swap: the pivot of column 0 is in
  row 1), `L = [[1,0,0],[0,1,0],[1,1,1]]`, `U = [[2,1,0],[0,1,1],[0,0,2]]`.

These are the instances through which the factorisation contracts of C06 (`Inv.LUContract`,
`Inv.CholContract`) and of C11 (`Op.Contracts.chol` / `.lu` applied at a dense fallback node) are
shown to be satisfiable on non-trivial inputs.
-/

namespace ExactFactor
open GDecomp

def ofRows (t : List (List GRat)) : MatF GRat := fun i j => (t.getD i []).getD j 0

/-- `[[4, 2], [2, 5]]`: symmetric positive definite, not diagonal -/
def cholA2 : MatF GRat := ofRows [[4, 2], [2, 5]]
def cholW2 : GDecomp.Mat := #[#[2, 0], #[1, 2]]
/-- its Cholesky factor `[[2, 0], [1, 2]]` -/
def cholL2 : MatF GRat := maskLower cholW2

/-- `[[4, 2i], [-2i, 5]]`: Hermitian positive definite with non-real off-diagonal entries -/
def cholA2c : MatF GRat := ofRows [[4, ⟨0, 2⟩], [⟨0, -2⟩, 5]]
def cholW2c : GDecomp.Mat := #[#[2, 0], #[⟨0, -1⟩, 2]]
/-- its Cholesky factor `[[2, 0], [-i, 2]]` -/
def cholL2c : MatF GRat := maskLower cholW2c

/-- `[[0,1,1],[2,1,0],[2,2,3]]`: non-singular, the first pivot is 0, so partial pivoting swaps -/
def luA3 : MatF GRat := ofRows [[0, 1, 1], [2, 1, 0], [2, 2, 3]]
def luW3 : GDecomp.Mat := #[#[2, 1, 0], #[0, 1, 1], #[1, 1, 2]]
def luP3 : List Nat := [1, 0, 2]
/-- `[[1,0,0],[0,1,0],[1,1,1]]` -/
def luL3 : MatF GRat := maskUnitLower luW3
/-- `[[2,1,0],[0,1,1],[0,0,2]]` -/
def luU3 : MatF GRat := maskUpper luW3

theorem gchol_cholA2 : gcholDense 2 cholA2 = some cholL2 := by
  have h : cholLoop 2 cholA2 = some cholW2 := by decide +kernel
  have hw : Op.winEq 2 2 (mmul 2 (maskLower cholW2) (conjM (transposeM (maskLower cholW2))))
      (hermLowerG cholA2) = true := by decide +kernel
  simp only [gcholDense, h, hw, if_true, cholL2]

theorem gchol_cholA2c : gcholDense 2 cholA2c = some cholL2c := by
  have h : cholLoop 2 cholA2c = some cholW2c := by decide +kernel
  have hw : Op.winEq 2 2 (mmul 2 (maskLower cholW2c) (conjM (transposeM (maskLower cholW2c))))
      (hermLowerG cholA2c) = true := by decide +kernel
  simp only [gcholDense, h, hw, if_true, cholL2c]

theorem glu_luA3 : gluDense 3 luA3 = some (luP3, luL3, luU3) := by
  have hw : (luLoop 3 luA3).w = luW3 := by decide +kernel
  have hp : invPerm 3 (luLoop 3 luA3).perm = luP3 := by decide +kernel
  have hc : luP3.length = 3 ∧ (∀ t ∈ luP3, t < 3) ∧ luP3.Nodup ∧
      Op.winEq 3 3 (mmul 3 (permDen luP3) (mmul 3 (maskUnitLower luW3) (maskUpper luW3))) luA3 = true := by
    decide +kernel
  simp only [gluDense, hw, hp]
  rw [if_pos hc]
  rfl

/-- the factor entries, spelled out -/
theorem cholL2_entries : cholL2 0 0 = 2 ∧ cholL2 0 1 = 0 ∧ cholL2 1 0 = 1 ∧ cholL2 1 1 = 2 := by
  decide +kernel

theorem cholL2c_entries :
    cholL2c 0 0 = 2 ∧ cholL2c 0 1 = 0 ∧ cholL2c 1 0 = ⟨0, -1⟩ ∧ cholL2c 1 1 = 2 := by
  decide +kernel

theorem luL3_entries : EqOn 3 3 luL3 (ofRows [[1, 0, 0], [0, 1, 0], [1, 1, 1]]) :=
  Op.winEq_eqOn (by decide +kernel)

theorem luU3_entries : EqOn 3 3 luU3 (ofRows [[2, 1, 0], [0, 1, 1], [0, 0, 2]]) :=
  Op.winEq_eqOn (by decide +kernel)

/-- the inputs are not diagonal, and the LU really permutes -/
theorem nontrivial : cholA2 0 1 ≠ 0 ∧ cholA2c 0 1 ≠ star (cholA2c 0 1) ∧ luA3 0 0 = 0 ∧
    luP3 ≠ List.range 3 := by decide +kernel

end ExactFactor
