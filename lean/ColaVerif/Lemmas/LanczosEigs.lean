import Mathlib.Data.List.Perm.Basic
import ColaVerif.Lemmas.LanczosMain

/-!
# `lanczos_eigs` of the model at exact arithmetic

* `argsort_perm`, `argsort_sorted`: the model's `argsort` (stable insertion sort of the indices by
  the real part of the key) returns a permutation of `0 … size-1` along which the keys ascend;
* `combine_eq_sum`: `Q @ y` of the model is `Σ_c y_c • q_c`.
-/

open scoped InnerProductSpace
open Finset

namespace Lanczos

variable {𝕜 E : Type} [RCLike 𝕜] [NormedAddCommGroup E] [InnerProductSpace 𝕜 E]

attribute [local instance] exactNum exactVec

section sort
variable (key : ℕ → 𝕜)

theorem insertIdx_perm (j : ℕ) : ∀ l : List ℕ, (insertIdx (K := 𝕜) key j l).Perm (j :: l)
  | [] => by simp [insertIdx]
  | k :: ks => by
    unfold insertIdx
    split
    · exact List.Perm.refl _
    · exact ((insertIdx_perm j ks).cons k).trans (List.Perm.swap j k ks)

/-- ascending real parts -/
def KeyLe (a b : ℕ) : Prop := RCLike.re (key a) ≤ RCLike.re (key b)

theorem insertIdx_sorted (j : ℕ) : ∀ l : List ℕ, l.Pairwise (KeyLe key) →
    (insertIdx (K := 𝕜) key j l).Pairwise (KeyLe key)
  | [], _ => by simp [insertIdx]
  | k :: ks, h => by
    rw [List.pairwise_cons] at h
    unfold insertIdx
    split
    · rename_i hlt
      simp only [Num.lt, decide_eq_true_eq] at hlt
      rw [List.pairwise_cons]
      refine ⟨?_, List.pairwise_cons.mpr h⟩
      intro x hx
      rcases List.mem_cons.mp hx with rfl | hx'
      · exact le_of_lt hlt
      · exact le_trans (le_of_lt hlt) (h.1 x hx')
    · rename_i hnlt
      simp only [Num.lt, decide_eq_true_eq, not_lt] at hnlt
      rw [List.pairwise_cons]
      refine ⟨?_, insertIdx_sorted j ks h.2⟩
      intro x hx
      have := (insertIdx_perm key j ks).mem_iff.mp hx
      rcases List.mem_cons.mp this with rfl | hx'
      · exact hnlt
      · exact h.1 x hx'

end sort

theorem argsort_perm (vals : Array 𝕜) : (argsort (K := 𝕜) vals).Perm (List.range vals.size) := by
  unfold argsort
  generalize List.range vals.size = l
  induction l with
  | nil => simp
  | cons a t ih =>
    simp only [List.foldr_cons]
    exact (insertIdx_perm _ a _).trans (ih.cons a)

theorem argsort_sorted (vals : Array 𝕜) :
    (argsort (K := 𝕜) vals).Pairwise (KeyLe (fun t => vals.getD t (Num.zero : 𝕜))) := by
  unfold argsort
  generalize List.range vals.size = l
  induction l with
  | nil => simp
  | cons a t ih =>
    simp only [List.foldr_cons]
    exact insertIdx_sorted _ a _ ih

theorem foldl_range_eq_sum (f : ℕ → E) (n : ℕ) :
    (List.range n).foldl (fun acc c => acc + f c) 0 = ∑ c ∈ range n, f c := by
  induction n with
  | zero => simp
  | succ n ih =>
    rw [List.range_succ, List.foldl_append, ih, Finset.sum_range_succ]
    simp

/-- `Q @ y` -/
theorem combine_eq_sum (Q : Array E) (y : Array 𝕜) :
    combine (K := 𝕜) 0 Q y = ∑ c ∈ range Q.size, y.getD c 0 • col 0 Q c := by
  unfold combine
  exact foldl_range_eq_sum (fun c => y.getD c 0 • col 0 Q c) Q.size

end Lanczos
