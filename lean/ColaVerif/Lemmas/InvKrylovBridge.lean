import ColaVerif.Lemmas.InvSound
import Mathlib.Analysis.InnerProductSpace.PiL2

/-!
# Vectors and linear maps of `𝕜ⁿ` for the operators of C06

Glue between the entry-function world of C06 (`MatF`, `Op.den`) and the inner-product-space world in
which the iterative solvers are modelled (C12: CG, C13: GMRES): column `j` of a block as a vector of
`EuclideanSpace 𝕜 (Fin n)`, the linear map `v ↦ den(A) v`, and its entries.
-/

open Finset WithLp Matrix

namespace Inv
variable {𝕜 : Type} [RCLike 𝕜]

/-- column `j` of the `n`-row window of `X`, as a vector of `𝕜ⁿ` -/
noncomputable def colVec (n : ℕ) (X : MatF 𝕜) (j : ℕ) : EuclideanSpace 𝕜 (Fin n) :=
  toLp 2 (fun i : Fin n => X i.val j)

/-- the linear map `v ↦ den(A) · v` on `𝕜ⁿ` (`n` = the extent of `A`) -/
noncomputable def denLin (n : ℕ) (A : Op 𝕜) : EuclideanSpace 𝕜 (Fin n) →ₗ[𝕜] EuclideanSpace 𝕜 (Fin n) :=
  Matrix.toEuclideanLin (MatF.toMatrix n n A.den.f)

theorem denLin_apply (n : ℕ) (A : Op 𝕜) (v : EuclideanSpace 𝕜 (Fin n)) (i : Fin n) :
    ofLp (denLin n A v) i
      = ∑ q ∈ range n, A.den.f i.val q * (if h : q < n then ofLp v ⟨q, h⟩ else 0) := by
  show (MatF.toMatrix n n A.den.f *ᵥ ofLp v) i = _
  rw [Matrix.mulVec, dotProduct, ← Fin.sum_univ_eq_sum_range
    (fun q => A.den.f i.val q * (if h : q < n then ofLp v ⟨q, h⟩ else 0)) n]
  apply Finset.sum_congr rfl
  intro q _
  simp [MatF.toMatrix_apply]

/-- a one-column block built from a vector solves `A · Y = X` on the window iff the vector solves
the system of `denLin` -/
theorem eqOn_of_denLin_eq (n : ℕ) (A : Op 𝕜) (X : MatF 𝕜) (x : EuclideanSpace 𝕜 (Fin n))
    (hx : denLin n A x = colVec n X 0) (Y : MatF 𝕜)
    (hY : ∀ q (h : q < n), Y q 0 = ofLp x ⟨q, h⟩) : EqOn n 1 (mmul n A.den.f Y) X := by
  intro i j hi hj
  have hj0 : j = 0 := by omega
  subst hj0
  rw [mmul_apply]
  have hi' := congrArg (fun v : EuclideanSpace 𝕜 (Fin n) => ofLp v (⟨i, hi⟩ : Fin n)) hx
  simp only at hi'
  rw [denLin_apply] at hi'
  rw [show X i 0 = ofLp (colVec n X 0) ⟨i, hi⟩ from rfl, ← hi']
  apply Finset.sum_congr rfl
  intro q hq
  have hq' : q < n := Finset.mem_range.mp hq
  rw [hY q hq', dif_pos hq']

end Inv
