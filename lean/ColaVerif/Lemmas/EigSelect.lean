import ColaVerif.Model.Eig
import Mathlib.Algebra.Order.Group.Abs
import Mathlib.Algebra.Order.Group.Unbundled.Abs
import Mathlib.Data.List.Perm.Basic
import Mathlib.Tactic.Linarith

/-!
# `get_slice` selects by position: what that means for the selected values

`IsExtreme w mag k l s`: `s` consists of `min k |l|` members of `l` (as a multiset: `s ++ rest ~ l`)
and every member of `s` has magnitude at least (`LM`) / at most (`SM`) that of every other member.
-/

namespace Eig

variable {α β : Type}

/-- the specification of a selection -/
def IsExtreme [LE β] (w : Which) (mag : α → β) (k : Nat) (l s : List α) : Prop :=
  ∃ rest : List α, (s ++ rest).Perm l ∧ s.length = min k l.length ∧
    ∀ x ∈ s, ∀ y ∈ rest, match w with
      | .LM => mag y ≤ mag x
      | .SM => mag x ≤ mag y

theorem getSlice_length (k : Nat) (w : Which) (l : List α) (hk : 0 < k) :
    (getSlice k w l).length = min k l.length := by
  cases w with
  | SM => simp [getSlice]
  | LM =>
    have : k ≠ 0 := by omega
    simp only [getSlice, this, if_false, List.length_drop]
    omega

theorem getSlice_sublist (k : Nat) (w : Which) (l : List α) : (getSlice k w l).Sublist l := by
  cases w with
  | SM => exact List.take_sublist _ _
  | LM =>
    simp only [getSlice]
    split
    · exact List.Sublist.refl _
    · exact List.drop_sublist _ _

theorem getSlice_map {γ : Type} (f : α → γ) (k : Nat) (w : Which) (l : List α) :
    getSlice k w (l.map f) = (getSlice k w l).map f := by
  cases w with
  | SM => simp [getSlice, List.map_take]
  | LM =>
    simp only [getSlice, List.length_map]
    split
    · rfl
    · simp [List.map_drop]

theorem getSlice_zip {γ : Type} (k : Nat) (w : Which) (l : List α) (l' : List γ)
    (h : l.length = l'.length) :
    (getSlice k w l).zip (getSlice k w l') = getSlice k w (l.zip l') := by
  cases w with
  | SM => simp [getSlice, List.zip, List.take_zipWith]
  | LM =>
    simp only [getSlice, List.length_zip, h, Nat.min_self]
    split
    · rfl
    · simp [List.zip, List.drop_zipWith]

/-- asking for all `n` reproduces the whole computed spectrum, in computed order -/
theorem getSlice_all (w : Which) (l : List α) : getSlice l.length w l = l := by
  cases w with
  | SM => simp [getSlice]
  | LM =>
    simp only [getSlice]
    split
    · rfl
    · simp

/-- if the computed order is ascending in magnitude, the positional slice is the extreme selection -/
theorem select_sorted [Preorder β] (w : Which) (mag : α → β) (k : Nat) (l : List α) (hk : 0 < k)
    (sortedByMagnitude : l.Pairwise (fun a b => mag a ≤ mag b)) :
    IsExtreme w mag k l (getSlice k w l) := by
  cases w with
  | SM =>
    refine ⟨l.drop k, ?_, getSlice_length k .SM l hk, ?_⟩
    · simp [getSlice]
    · intro x hx y hy
      have h := sortedByMagnitude
      rw [← List.take_append_drop k l, List.pairwise_append] at h
      exact h.2.2 x hx y hy
  | LM =>
    have hk0 : k ≠ 0 := by omega
    refine ⟨l.take (l.length - k), ?_, getSlice_length k .LM l hk, ?_⟩
    · simp only [getSlice, hk0, if_false]
      exact List.perm_append_comm.trans (by simp)
    · intro x hx y hy
      simp only [getSlice, hk0, if_false] at hx
      have h := sortedByMagnitude
      rw [← List.take_append_drop (l.length - k) l, List.pairwise_append] at h
      exact h.2.2 y hy x hx

section abs
variable [AddCommGroup β] [LinearOrder β] [IsOrderedAddMonoid β]

/-- ascending by value and non-negative ⇒ ascending by magnitude -/
theorem sortedByMagnitude_of_nonneg (l : List β) (ascending : l.Pairwise (· ≤ ·))
    (spectrumNonneg : ∀ x ∈ l, 0 ≤ x) : l.Pairwise (fun a b => |a| ≤ |b|) := by
  induction l with
  | nil => exact List.Pairwise.nil
  | cons a t ih =>
    rw [List.pairwise_cons] at ascending ⊢
    refine ⟨?_, ih ascending.2 (fun x hx => spectrumNonneg x (List.mem_cons_of_mem _ hx))⟩
    intro b hb
    rw [abs_of_nonneg (spectrumNonneg a List.mem_cons_self),
      abs_of_nonneg (spectrumNonneg b (List.mem_cons_of_mem _ hb))]
    exact ascending.1 b hb

end abs

/-- a selection that misses a member of strictly larger magnitude than one it contains is not `LM` -/
theorem not_isExtreme_LM [LinearOrder β] [DecidableEq α] (mag : α → β) (k : Nat) (l s : List α)
    (x y : α) (hx : x ∈ s) (hy : s.count y < l.count y) (hlt : mag x < mag y) :
    ¬ IsExtreme .LM mag k l s := by
  rintro ⟨rest, hperm, _, hdom⟩
  have hc := hperm.count_eq y
  rw [List.count_append] at hc
  have hyr : y ∈ rest := by
    by_contra hn
    rw [List.count_eq_zero_of_not_mem hn] at hc
    omega
  exact absurd (hdom x hx y hyr) (not_le.mpr hlt)

theorem not_isExtreme_SM [LinearOrder β] [DecidableEq α] (mag : α → β) (k : Nat) (l s : List α)
    (x y : α) (hx : x ∈ s) (hy : s.count y < l.count y) (hlt : mag y < mag x) :
    ¬ IsExtreme .SM mag k l s := by
  rintro ⟨rest, hperm, _, hdom⟩
  have hc := hperm.count_eq y
  rw [List.count_append] at hc
  have hyr : y ∈ rest := by
    by_contra hn
    rw [List.count_eq_zero_of_not_mem hn] at hc
    omega
  exact absurd (hdom x hx y hyr) (not_le.mpr hlt)

/-- the specification does not depend on the order the spectrum is listed in -/
theorem IsExtreme.perm [LE β] {w : Which} {mag : α → β} {k : Nat} {l l' s : List α}
    (h : IsExtreme w mag k l s) (hp : l.Perm l') : IsExtreme w mag k l' s := by
  obtain ⟨rest, h1, h2, h3⟩ := h
  exact ⟨rest, h1.trans hp, by rw [h2, hp.length_eq], h3⟩

/-! ## `argsort(abs(·))` followed by the positional slice -/

theorem sortByKey_perm {κ : Type} (le : κ → κ → Bool) (key : α → κ) (xs : List α) :
    (sortByKey le key xs).Perm xs := List.mergeSort_perm _ _

/-- sorted by the key, for the order of a linear order -/
theorem sortByKey_sorted {κ : Type} [LinearOrder κ] (key : α → κ) (xs : List α) :
    (sortByKey (fun a b => decide (a ≤ b)) key xs).Pairwise (fun a b => key a ≤ key b) := by
  have h := List.pairwise_mergeSort (le := fun a b : α => decide (key a ≤ key b))
    (fun a b c h1 h2 => by
      simp only [decide_eq_true_eq] at *; exact le_trans h1 h2)
    (fun a b => by
      simp only [Bool.or_eq_true, decide_eq_true_eq]; exact le_total _ _) xs
  exact h.imp (fun h => by simpa using h)

/-- **whatever order the spectrum was computed in**, sorting by magnitude and slicing by position
yields the extreme-magnitude selection -/
theorem select_by_magnitude {κ : Type} [LinearOrder κ] (w : Which) (key : α → κ) (k : Nat) (l : List α)
    (hk : 0 < k) :
    IsExtreme w key k l (getSlice k w (sortByKey (fun a b => decide (a ≤ b)) key l)) :=
  (select_sorted w key k _ hk (sortByKey_sorted key l)).perm (sortByKey_perm _ key l)

/-! ## positions: `eig_vals[sel], eig_vecs[:, sel]` -/

theorem zip_eq_map_range {R : Type} (vals : List R) (vecs : List (List R)) (d : R)
    (h : vals.length = vecs.length) :
    vals.zip vecs = (List.range vals.length).map (fun i => (vals.getD i d, vecs.getD i [])) := by
  apply List.ext_getElem
  · simp [h]
  · intro i h1 h2
    simp only [List.length_zip, h, Nat.min_self] at h1
    simp [List.getD_eq_getElem?_getD, h1, h ▸ h1]

/-- `eig_vals[sel], eig_vecs[:, sel]` with `sel = select_by_magnitude(...)`: sorting the PAIRS by the
magnitude of the value and slicing (`selectPath`) is indexing values and columns by the positions
`selectPos` (the `argsort` of the magnitudes, sliced) -/
theorem selectPath_eq_selectPos {R κ : Type} [Inhabited κ] (le : κ → κ → Bool) (key : R → κ) (k : Nat)
    (w : Which) (s : Spectrum R) (d : R) (lengths : s.vals.length = s.vecs.length) :
    (selectPath le key k w s).vals =
      (selectPos le (s.vals.map key) k w).map (fun i => s.vals.getD i d) ∧
    (selectPath le key k w s).vecs =
      (selectPos le (s.vals.map key) k w).map (fun i => s.vecs.getD i []) := by
  have hsort : sortByKey le (fun p : R × List R => key p.1) (s.vals.zip s.vecs) =
      (sortByKey le (fun i => (s.vals.map key).getD i default) (List.range (s.vals.map key).length)).map
        (fun i => (s.vals.getD i d, s.vecs.getD i [])) := by
    rw [zip_eq_map_range s.vals s.vecs d lengths]
    unfold sortByKey
    rw [List.length_map]
    symm
    apply List.map_mergeSort
    intro a ha b hb
    have ha' : a < s.vals.length := List.mem_range.mp ha
    have hb' : b < s.vals.length := List.mem_range.mp hb
    simp [List.getD_eq_getElem?_getD, ha', hb']
  unfold selectPath selectPos
  simp only [hsort, ← getSlice_map, List.map_map]
  exact ⟨rfl, rfl⟩

end Eig
