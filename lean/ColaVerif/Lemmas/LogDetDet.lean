import ColaVerif.Lemmas.OpMatmat
import ColaVerif.Lemmas.LogDetPerm

/-!
# C07: the determinant the rules of logdet.py claim is the determinant of the represented matrix

`claimedDet_eq_det`: by recursion over the structural rules (Product of square factors,
Kronecker, BlockDiag with multiplicities, Identity, ScalarMul, Diagonal, Triangular,
Permutation), with the base cases (LU / Cholesky / Krylov) discharged from the contracts of the
numerical kernels (`KernelsOK`) and `Op.td_eq` (`to_dense()` is the represented matrix).
-/

set_option linter.unusedSectionVars false

namespace Op
variable {R : Type} [CommRing R] [StarRing R] [DecidableEq R]

/-! ## the exact instance computes products -/

theorem mulAll_detOps (vs : List R) : (detOps : SLOps R R R).mulAll vs = vs.prod := by
  unfold SLOps.mulAll detOps
  simp only
  rw [List.prod_eq_foldl]

theorem diagFold_detOps (n : Nat) (d : Nat → R) :
    (detOps : SLOps R R R).diagFold n d = ((List.range n).map d).prod := by
  unfold SLOps.diagFold
  rw [mulAll_detOps]
  rfl

theorem except_map_ok {α β : Type} {f : α → β} {x : Except String α} {d : β}
    (h : x.map f = .ok d) : ∃ a, x = .ok a ∧ f a = d := by
  cases x with
  | error e => simp [Except.map] at h
  | ok a => exact ⟨a, rfl, by simpa [Except.map] using h⟩

theorem allOk_map {α V : Type} (g : α → V) : ∀ (L : List α) (f : α → Except String V) (vs : List V),
    (∀ x ∈ L, ∀ v, f x = .ok v → v = g x) → allOk (L.map f) = .ok vs → vs = L.map g
  | [], _, vs, _, h => by
    simp only [List.map_nil, allOk, Except.ok.injEq] at h
    simp [← h]
  | x :: L, f, vs, hf, h => by
    rw [List.map_cons] at h
    cases hx : f x with
    | error e => rw [hx] at h; simp [allOk] at h
    | ok v =>
      rw [hx] at h
      simp only [allOk] at h
      obtain ⟨vs', hvs', rfl⟩ := except_map_ok h
      rw [allOk_map g L f vs' (fun y hy => hf y (List.mem_cons_of_mem _ hy)) hvs',
        hf x List.mem_cons_self v hx]
      rfl

/-! ## contracts of the numerical kernels (exact instance: `T = R`, the Krylov kernel is
represented by `exp` of its result) -/

structure KernelsOK (K : DetKernels R R) : Prop where
  /-- LAPACK `potrf` on a Hermitian input: if it succeeds, `L` is lower triangular and `L Lᴴ = M` -/
  chol : ∀ (n : Nat) (M L : MatF R), K.chol n M = .ok L →
    (∀ i j, i < n → j < n → M i j = star (M j i)) →
    (∀ i j, i < n → j < n → i < j → L i j = 0) ∧ EqOn n n (mmul n L (conjM (transposeM L))) M
  /-- scipy `lu(a, p_indices=True)`: `p` a permutation of `range n`, `L` lower, `U` upper,
  `M = L[p] @ U = P (L U)` -/
  lu : ∀ (n : Nat) (M : MatF R) (plu : List Nat × MatF R × MatF R), K.lu n M = .ok plu →
    plu.1.length = n ∧ (∀ t ∈ plu.1, t < plu.1.length) ∧ plu.1.Nodup ∧
    (∀ i j, i < n → j < n → i < j → plu.2.1 i j = 0) ∧
    (∀ i j, i < n → j < n → j < i → plu.2.2 i j = 0) ∧
    EqOn n n (mmul n (permDen plu.1) (mmul n plu.2.1 plu.2.2)) M
  /-- `exp(trace(log(A, Lanczos | Arnoldi), trace_alg))`, when the pipeline succeeds, is `det A` -/
  trlog : ∀ (la : LogAlg) (ta : TraceAlg) (A : Op R) (d : R), K.trlog la ta A = .ok d →
    Good A → A.rows = A.cols → d = detN A.rows A.den.f

/-! ## peeling declaration wrappers -/

inductive Peel : Op R → Op R → Prop
  | refl (A : Op R) : Peel A A
  | step {top : Op R} {a : Ann} {A : Op R} : Peel top (annot a A) → Peel top A

theorem Peel.den {top X : Op R} (h : Peel top X) : top.den = X.den := by
  induction h with
  | refl => rfl
  | step _ ih => rw [ih]; simp only [Op.den]

theorem Peel.rows {top X : Op R} (h : Peel top X) : top.rows = X.rows := by
  induction h with
  | refl => rfl
  | step _ ih => rw [ih]; simp only [Op.rows]

theorem Peel.cols {top X : Op R} (h : Peel top X) : top.cols = X.cols := by
  induction h with
  | refl => rfl
  | step _ ih => rw [ih]; simp only [Op.cols]

theorem Peel.good {top X : Op R} (h : Peel top X) (hg : Good top) : Good X := by
  induction h with
  | refl => exact hg
  | step _ ih => exact ih.annot_child

theorem Peel.triTrue {top X : Op R} (h : Peel top X) (hg : top.triTrue = true) :
    X.triTrue = true := by
  induction h with
  | refl => exact hg
  | step _ ih => simpa only [Op.triTrue] using ih

theorem Peel.sqMembers {top X : Op R} (h : Peel top X) (hg : top.sqMembers = true) :
    X.sqMembers = true := by
  induction h with
  | refl => exact hg
  | step _ ih => simpa only [Op.sqMembers] using ih

/-! ## members of the structural kinds -/

theorem all_members {Ms : List (Op R)} {f : Op R → Bool} (h : (Ms.map f).all id = true) :
    ∀ M ∈ Ms, f M = true := by
  intro M hM
  rw [List.all_eq_true] at h
  exact h _ (List.mem_map.mpr ⟨M, hM, rfl⟩)

theorem chain_sq_all : ∀ (rest : List (Nat × Nat)) (a : Nat × Nat), chainOk (a :: rest) = true →
    (∀ q ∈ a :: rest, q.1 = q.2) → ∀ q ∈ a :: rest, q.1 = a.1 ∧ q.2 = a.1
  | [], a, _, hsq => by
    intro q hq
    have : q = a := by simpa using hq
    subst this
    exact ⟨rfl, (hsq q List.mem_cons_self).symm⟩
  | b :: rest, a, hc, hsq => by
    simp only [chainOk, Bool.and_eq_true, beq_iff_eq] at hc
    have ha : a.1 = a.2 := hsq a List.mem_cons_self
    have ih := chain_sq_all rest b hc.2 (fun q hq => hsq q (List.mem_cons_of_mem _ hq))
    intro q hq
    rcases List.mem_cons.mp hq with rfl | hq
    · exact ⟨rfl, ha.symm⟩
    · have := ih q hq
      rw [← hc.1, ← ha] at this
      exact this

/-- a well-formed Product of square factors: all factors have the size of the product -/
theorem prod_sizes {Ms : List (Op R)} (hwf : (prod Ms).wf = true)
    (hsq : (Ms.map (fun M => M.rows == M.cols)).all id = true) :
    ∀ M ∈ Ms, M.rows = (prod Ms).rows ∧ M.cols = (prod Ms).rows := by
  simp only [Op.wf, Bool.and_eq_true] at hwf
  obtain ⟨⟨hne, _⟩, hch⟩ := hwf
  have hsq' : ∀ M ∈ Ms, M.rows = M.cols := fun M hM => by
    have := all_members hsq M hM
    simpa using this
  cases Ms with
  | nil => simp at hne
  | cons A rest =>
    simp only [Op.rows, List.map_cons, List.head?_cons, Option.getD_some]
    rw [List.map_cons] at hch
    have h := chain_sq_all (rest.map (fun M => (M.rows, M.cols))) (A.rows, A.cols) hch (by
      intro q hq
      rw [← List.map_cons (f := fun M : Op R => (M.rows, M.cols))] at hq
      obtain ⟨M, hM, rfl⟩ := List.mem_map.mp hq
      exact hsq' M hM)
    intro M hM
    have := h (M.rows, M.cols) (by
      rw [← List.map_cons (f := fun M : Op R => (M.rows, M.cols))]
      exact List.mem_map_of_mem hM)
    exact this

theorem detN_chain (n : Nat) : ∀ (Ms : List (Op R)), (∀ M ∈ Ms, M.rows = n ∧ M.cols = n) →
    detN n ((Ms.map (fun M => (M.cols, M.den.f))).foldr (fun p acc => mmul p.1 p.2 acc) eyeM)
      = (Ms.map (fun M => detN n M.den.f)).prod
  | [], _ => by simp [detN_eyeM]
  | M :: Ms, h => by
    simp only [List.map_cons, List.foldr_cons, List.prod_cons]
    rw [(h M List.mem_cons_self).2, detN_mmul,
      detN_chain n Ms (fun M' hM' => h M' (List.mem_cons_of_mem _ hM'))]

theorem det_prod {Ms : List (Op R)} (hwf : (prod Ms).wf = true)
    (hsq : (Ms.map (fun M => M.rows == M.cols)).all id = true) :
    detN (prod Ms).rows (prod Ms).den.f = (Ms.map (fun M => detN M.rows M.den.f)).prod := by
  have hs := prod_sizes hwf hsq
  rw [Op.den, forceV_f, detN_chain _ Ms hs]
  congr 1
  apply List.map_congr_left
  intro M hM
  rw [(hs M hM).1]

theorem det_kron {Ms : List (Op R)} (hsq : ∀ M ∈ Ms, M.rows = M.cols) (hpos : ∀ M ∈ Ms, 0 < M.cols) :
    detN (kron Ms).rows (kron Ms).den.f
      = (Ms.map (fun M => detN M.rows M.den.f ^ ((Ms.map (·.cols)).prod / M.cols))).prod := by
  rw [Op.den, forceV_f]
  simp only [Op.rows]
  have h := detN_kronDen (Ms.map (fun M => (⟨M.rows, M.cols, M.den.f, fun _ m => MatV.of m⟩ : FacAct R)))
    (by intro F hF; obtain ⟨M, hM, rfl⟩ := List.mem_map.mp hF; exact hsq M hM)
    (by intro F hF; obtain ⟨M, hM, rfl⟩ := List.mem_map.mp hF; exact hpos M hM)
  simp only [List.map_map, Function.comp_def] at h
  exact h

theorem bdiag_dims : ∀ (Ms : List (Op R)) (mults : List Nat),
    dotSum (Ms.map (·.rows)) mults
      = (((Ms.map (fun M => (⟨M.rows, M.cols, M.den.f, fun _ m => MatV.of m⟩ : FacAct R))).zip mults).map
          (fun q => q.2 * q.1.r)).sum
  | [], _ => by simp [dotSum]
  | _ :: _, [] => by simp [dotSum]
  | M :: Ms, k :: mults => by
    have ih := bdiag_dims Ms mults
    simp only [dotSum] at ih ⊢
    simp only [List.map_cons, List.zip_cons_cons, List.sum_cons, ih]
    rw [Nat.mul_comm]

theorem bdiag_pows (g : Op R → R) : ∀ (Ms : List (Op R)) (mults : List Nat),
    (((Ms.map (fun M => (⟨M.rows, M.cols, M.den.f, fun _ m => MatV.of m⟩ : FacAct R))).zip mults).map
        (fun q => detN q.1.r q.1.a ^ q.2))
      = List.zipWith (fun v m => v ^ m) (Ms.map (fun M => detN M.rows M.den.f)) mults
  | [], _ => by simp
  | _ :: _, [] => by simp
  | M :: Ms, k :: mults => by
    simp only [List.map_cons, List.zip_cons_cons, List.zipWith_cons_cons, bdiag_pows g Ms mults]

theorem det_bdiag {Ms : List (Op R)} {mults : List Nat} (hsq : ∀ M ∈ Ms, M.rows = M.cols) :
    detN (bdiag Ms mults).rows (bdiag Ms mults).den.f
      = (List.zipWith (fun v m => v ^ m) (Ms.map (fun M => detN M.rows M.den.f)) mults).prod := by
  rw [Op.den, forceV_f]
  simp only [Op.rows]
  rw [bdiag_dims, detN_bdiagDen, bdiag_pows (fun _ => 0)]
  intro q hq
  have := (List.of_mem_zip hq).1
  obtain ⟨M, hM, he⟩ := List.mem_map.mp this
  rw [← he]
  exact hsq M hM

/-! ## base cases -/

theorem isa_psd_selfAdjoint {A : Op R} (h : A.isa .psd = true) : A.isa .selfAdjoint = true := by
  unfold isa AnnSet.isa at *
  rw [List.any_eq_true] at h ⊢
  obtain ⟨x, hx, hs⟩ := h
  refine ⟨x, hx, ?_⟩
  cases x <;> simp [Ann.sub] at hs ⊢

/-- LU / Cholesky / Krylov base rules under the kernel contracts -/
theorem base_det (K : DetKernels R R) (hK : KernelsOK K) (la : LogAlg) (ta : TraceAlg) (A : Op R)
    (hg : Good A) (d : R) (h : slogdetBase detOps K la ta A = .ok d) :
    d = detN A.rows A.den.f := by
  unfold slogdetBase at h
  split at h
  · simp at h
  · rename_i hsq
    have hsq' : A.rows = A.cols := by simpa using hsq
    have htd : EqOn A.rows A.rows A.td.f A.den.f := by
      have := td_ok A hg
      rwa [← hsq'] at this
    split at h
    · -- Cholesky
      split at h
      · simp at h
      · rename_i hpsd
        have hpsd' : A.isa .psd = true := by simpa using hpsd
        obtain ⟨L, hL, hd⟩ := except_map_ok h
        have hherm : ∀ i j, i < A.rows → j < A.rows → A.td.f i j = star (A.td.f j i) := by
          intro i j hi hj
          rw [htd i j hi hj, htd j i hj hi]
          exact (hg.herm.node (isa_psd_selfAdjoint hpsd')).2 i j hi hj
        obtain ⟨hlow, hLL⟩ := hK.chol A.rows A.td.f L hL hherm
        rw [← detN_congr htd, ← detN_congr hLL, detN_mmul, detN_adjoint, detN_lower _ _ hlow, ← hd]
        change (detOps : SLOps R R R).diagFold A.rows (fun i => L i i)
          * star ((detOps : SLOps R R R).diagFold A.rows (fun i => L i i)) = _
        rw [diagFold_detOps]
    · -- LU
      obtain ⟨plu, hplu, hd⟩ := except_map_ok h
      obtain ⟨hlen, hlt, hnd, hL, hU, hPLU⟩ := hK.lu A.rows A.td.f plu hplu
      have hP : detN A.rows (permDen plu.1 : MatF R) = if permEven plu.1 then 1 else -1 := by
        rw [← hlen]; exact detN_permDen _ hlt hnd
      rw [← detN_congr htd, ← detN_congr hPLU, detN_mmul, detN_mmul, hP, detN_lower _ _ hL,
        detN_upper _ _ hU, ← hd, mulAll_detOps, diagFold_detOps, diagFold_detOps]
      simp only [List.prod_cons, List.prod_nil, mul_one]
      rfl
    · simp at h
    · -- Lanczos | Arnoldi
      obtain ⟨t, ht, hd⟩ := except_map_ok h
      rw [← hd]
      exact hK.trlog _ ta A t ht hg hsq'

/-! ## structural rules -/

theorem zipWith_map_map {α β γ δ : Type} (f : β → γ → δ) (g : α → β) (h : α → γ) (L : List α) :
    List.zipWith f (L.map g) (L.map h) = L.map (fun x => f (g x) (h x)) := by
  induction L with
  | nil => rfl
  | cons x L ih => simp [ih]

section
variable (K : DetKernels R R) (la : LogAlg) (ta : TraceAlg)

theorem members_ok {Ms : List (Op R)}
    (ih : ∀ M ∈ Ms, ∀ v, slogdetAt detOps K la ta M M = .ok v → v = detN M.rows M.den.f)
    {vs : List R} (h : allOk (Ms.map (fun M => slogdetAt detOps K la ta M M)) = .ok vs) :
    vs = Ms.map (fun M => detN M.rows M.den.f) :=
  allOk_map (fun M => detN M.rows M.den.f) Ms _ vs ih h

theorem prod_case {Ms : List (Op R)} (hwf : (prod Ms).wf = true)
    (hsq : (Ms.map (fun M => M.rows == M.cols)).all id = true)
    (ih : ∀ M ∈ Ms, ∀ v, slogdetAt detOps K la ta M M = .ok v → v = detN M.rows M.den.f)
    {d : R} (h : (allOk (Ms.map (fun M => slogdetAt detOps K la ta M M))).map
      (detOps : SLOps R R R).mulAll = .ok d) :
    d = detN (prod Ms).rows (prod Ms).den.f := by
  obtain ⟨vs, hvs, hd⟩ := except_map_ok h
  rw [← hd, mulAll_detOps, members_ok K la ta ih hvs, det_prod hwf hsq]

theorem kron_case {Ms : List (Op R)} (hsq : (Ms.map (fun M => M.rows == M.cols)).all id = true)
    (ih : ∀ M ∈ Ms, ∀ v, slogdetAt detOps K la ta M M = .ok v → v = detN M.rows M.den.f)
    {vs : List R} (hvs : allOk (Ms.map (fun M => slogdetAt detOps K la ta M M)) = .ok vs)
    (hz : (Ms.map (fun M => M.cols == 0)).any id = false) :
    (detOps : SLOps R R R).mulAll (List.zipWith (fun v s => (detOps : SLOps R R R).pow v
        ((Ms.map (·.cols)).prod / s)) vs (Ms.map (·.cols)))
      = detN (kron Ms).rows (kron Ms).den.f := by
  have hsq' : ∀ M ∈ Ms, M.rows = M.cols := fun M hM => by
    have := all_members hsq M hM
    simpa using this
  have hpos : ∀ M ∈ Ms, 0 < M.cols := by
    intro M hM
    rw [List.any_eq_false] at hz
    have := hz _ (List.mem_map.mpr ⟨M, hM, rfl⟩)
    simp only [id, beq_iff_eq] at this
    omega
  rw [mulAll_detOps, members_ok K la ta ih hvs, zipWith_map_map, det_kron hsq' hpos]
  rfl

theorem bdiag_case {Ms : List (Op R)} {mults : List Nat}
    (hsq : (Ms.map (fun M => M.rows == M.cols)).all id = true)
    (ih : ∀ M ∈ Ms, ∀ v, slogdetAt detOps K la ta M M = .ok v → v = detN M.rows M.den.f)
    {d : R} (h : (allOk (Ms.map (fun M => slogdetAt detOps K la ta M M))).map
      (fun vs => (detOps : SLOps R R R).mulAll (List.zipWith (detOps : SLOps R R R).pow vs mults))
        = .ok d) :
    d = detN (bdiag Ms mults).rows (bdiag Ms mults).den.f := by
  have hsq' : ∀ M ∈ Ms, M.rows = M.cols := fun M hM => by
    have := all_members hsq M hM
    simpa using this
  obtain ⟨vs, hvs, hd⟩ := except_map_ok h
  rw [← hd, mulAll_detOps, members_ok K la ta ih hvs, det_bdiag hsq']
  rfl

end

/-- **the rules of logdet.py claim the determinant of the represented matrix** (exact instance) -/
theorem slogdetAt_det (K : DetKernels R R) (hK : KernelsOK K) (la : LogAlg) (ta : TraceAlg) :
    ∀ (X top : Op R), Peel top X → Good top → top.triTrue = true → top.sqMembers = true →
      ∀ d, slogdetAt detOps K la ta top X = .ok d → d = detN top.rows top.den.f
  | annot a A, top, hp, hg, ht, hs, d, h => by
    rw [slogdetAt] at h
    exact slogdetAt_det K hK la ta A top hp.step hg ht hs d h
  | prod Ms, top, hp, hg, ht, hs, d, h => by
    rw [slogdetAt] at h
    split at h
    · rename_i hsq
      have hgX := hp.good hg
      have htX := hp.triTrue ht
      have hsX := hp.sqMembers hs
      simp only [Op.triTrue] at htX
      simp only [Op.sqMembers, hsq, if_true] at hsX
      rw [hp.rows, hp.den]
      exact prod_case K la ta hgX.wf hsq (fun M hM v hv =>
        slogdetAt_det K hK la ta M M (Peel.refl M) (hgX.prod_mem M hM) (all_members htX M hM)
          (all_members hsX M hM) v hv) h
    · exact base_det K hK la ta top hg d h
  | kron Ms, top, hp, hg, ht, hs, d, h => by
    rw [slogdetAt] at h
    have hgX := hp.good hg
    have htX := hp.triTrue ht
    have hsX := hp.sqMembers hs
    simp only [Op.triTrue] at htX
    simp only [Op.sqMembers, Bool.and_eq_true] at hsX
    split at h
    · simp at h
    · rename_i vs hvs
      split at h
      · simp at h
      · rename_i hz
        have hz' : (Ms.map (fun M => M.cols == 0)).any id = false := by simpa using hz
        simp only [Except.ok.injEq] at h
        rw [hp.rows, hp.den, ← h]
        exact kron_case K la ta hsX.1 (fun M hM v hv =>
          slogdetAt_det K hK la ta M M (Peel.refl M) (hgX.kron_mem M hM) (all_members htX M hM)
            (all_members hsX.2 M hM) v hv) hvs hz'
  | bdiag Ms mults, top, hp, hg, ht, hs, d, h => by
    rw [slogdetAt] at h
    have hgX := hp.good hg
    have htX := hp.triTrue ht
    have hsX := hp.sqMembers hs
    simp only [Op.triTrue] at htX
    simp only [Op.sqMembers, Bool.and_eq_true] at hsX
    rw [hp.rows, hp.den]
    exact bdiag_case K la ta hsX.1 (fun M hM v hv =>
      slogdetAt_det K hK la ta M M (Peel.refl M) (hgX.bdiag_mem M hM) (all_members htX M hM)
        (all_members hsX.2 M hM) v hv) h
  | eye dt n, top, hp, _, _, _, d, h => by
    rw [slogdetAt] at h
    simp only [Except.ok.injEq] at h
    rw [hp.rows, hp.den, ← h, Op.den]
    simp only [Op.rows, MatV.of_f]
    rw [detN_eyeM]; rfl
  | scalar dt c n, top, hp, _, _, _, d, h => by
    rw [slogdetAt] at h
    simp only [Except.ok.injEq] at h
    rw [hp.rows, hp.den, ← h, Op.den]
    simp only [Op.rows, MatV.of_f]
    rw [detN_scalar]; rfl
  | diag dt n dv, top, hp, _, _, _, d, h => by
    rw [slogdetAt] at h
    simp only [Except.ok.injEq] at h
    rw [hp.rows, hp.den, ← h, Op.den]
    simp only [Op.rows, MatV.of_f]
    rw [detN_diagM, diagFold_detOps]
  | tri dt r c lower a, top, hp, _, ht, hs, d, h => by
    rw [slogdetAt] at h
    simp only [Except.ok.injEq] at h
    have htX := hp.triTrue ht
    have hsX := hp.sqMembers hs
    simp only [Op.sqMembers, beq_iff_eq] at hsX
    subst hsX
    simp only [Op.triTrue, List.all_eq_true, List.mem_range] at htX
    rw [hp.rows, hp.den, ← h, Op.den, diagFold_detOps]
    simp only [Op.rows, MatV.of_f, Nat.min_self]
    cases lower with
    | true =>
      rw [detN_lower]
      intro i j hi hj hij
      have := htX i hi j hj
      simp only [if_true] at this
      exact of_decide_eq_true this hij
    | false =>
      rw [detN_upper]
      intro i j hi hj hij
      have := htX i hi j hj
      simp only [Bool.false_eq_true, if_false] at this
      exact of_decide_eq_true this hij
  | perm dt p, top, hp, hg, _, _, d, h => by
    rw [slogdetAt] at h
    simp only [Except.ok.injEq] at h
    have hw := (hp.good hg).wf
    simp only [Op.wf, Bool.and_eq_true, List.all_eq_true, decide_eq_true_eq] at hw
    rw [hp.rows, hp.den, ← h, Op.den]
    simp only [Op.rows, MatV.of_f]
    rw [detN_permDen p hw.1 (by simpa using hw.2)]
    rfl
  | dense dt r c a, top, _, hg, _, _, d, h => by
    simp only [slogdetAt] at h; exact base_det K hK la ta top hg d h
  | sparse dt r c e, top, _, hg, _, _, d, h => by
    simp only [slogdetAt] at h; exact base_det K hK la ta top hg d h
  | sum Ms, top, _, hg, _, _, d, h => by
    simp only [slogdetAt] at h; exact base_det K hK la ta top hg d h
  | kronsum Ms, top, _, hg, _, _, d, h => by
    simp only [slogdetAt] at h; exact base_det K hK la ta top hg d h
  | tridiag dt n al be ga, top, _, hg, _, _, d, h => by
    simp only [slogdetAt] at h; exact base_det K hK la ta top hg d h
  | transpose A, top, _, hg, _, _, d, h => by
    simp only [slogdetAt] at h; exact base_det K hK la ta top hg d h
  | adjoint A, top, _, hg, _, _, d, h => by
    simp only [slogdetAt] at h; exact base_det K hK la ta top hg d h
  | sliced A s0 s1, top, _, hg, _, _, d, h => by
    simp only [slogdetAt] at h; exact base_det K hK la ta top hg d h
  | concat ax Ms, top, _, hg, _, _, d, h => by
    simp only [slogdetAt] at h; exact base_det K hK la ta top hg d h
  | house dt n v beta, top, _, hg, _, _, d, h => by
    simp only [slogdetAt] at h; exact base_det K hK la ta top hg d h
  | generic A, top, _, hg, _, _, d, h => by
    simp only [slogdetAt] at h; exact base_det K hK la ta top hg d h
termination_by X => sizeOf X

theorem claimedDet_eq_det (K : DetKernels R R) (hK : KernelsOK K) (la : LogAlg) (ta : TraceAlg)
    (A : Op R) (hg : Good A) (ht : A.triTrue = true) (hs : A.sqMembers = true) (d : R)
    (h : claimedDet K la ta A = .ok d) : d = detN A.rows A.den.f :=
  slogdetAt_det K hK la ta A A (Peel.refl A) hg ht hs d h

end Op
