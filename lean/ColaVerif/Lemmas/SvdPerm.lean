import Mathlib.Data.List.Sort
import ColaVerif.Lemmas.Bridge
import ColaVerif.Lemmas.SvdSelect

/-!
# C16: `pinv(Permutation(p)) = Permutation(argsort(p))` is the inverse permutation matrix

`p` a permutation of `0 … n-1` (`p.Perm (List.range n)`: the well-formedness of `Permutation`).
* `argsort_inverse_left`  : `p[argsort(p)[i]] = i`;
* `argsort_inverse_right` : `argsort(p)[p[i]] = i`;
* `perm_argsort_mul`      : `permDen (argsort p) · permDen p = 1 = permDen p · permDen (argsort p)`.
-/

open Matrix

namespace Svd

theorem getD_eq (l : List Nat) (i : Nat) (h : i < l.length) : l.getD i 0 = l[i] :=
  (List.getElem_eq_getD (h := h) 0).symm

theorem argsortNat_eq (p : List Nat) :
    argsortNat p = argsort (ltOf (α := Nat)) p.length (fun t => p.getD t 0) := by
  unfold argsortNat ltOf
  rfl

theorem map_getD_range (p : List Nat) : (List.range p.length).map (fun t => p.getD t 0) = p := by
  apply List.ext_getElem
  · simp
  · intro i h1 h2
    simp only [List.getElem_map, List.getElem_range]
    exact (List.getElem_eq_getD (h := h2) 0).symm

variable (n : Nat) (p : List Nat) (hp : p.Perm (List.range n))
include hp

theorem perm_length : p.length = n := by rw [hp.length_eq, List.length_range]

theorem argsort_map_eq_range : (argsortNat p).map (fun t => p.getD t 0) = List.range n := by
  have hlen := perm_length n p hp
  rw [argsortNat_eq]
  have h1 : ((argsort (ltOf (α := Nat)) p.length (fun t => p.getD t 0)).map (fun t => p.getD t 0)).Perm
      (List.range n) := by
    have := (argsort_perm (ltOf (α := Nat)) (fun t => p.getD t 0) p.length).map (fun t => p.getD t 0)
    rw [map_getD_range] at this
    exact this.trans hp
  have h2 := argsort_values_ascend (fun t => p.getD t 0) p.length
  have h3 : (List.range n).Pairwise (· ≤ ·) := by
    have := List.pairwise_lt_range (n := n)
    exact this.imp (fun h => le_of_lt h)
  exact h1.eq_of_pairwise' h2 h3

theorem argsortNat_length : (argsortNat p).length = n := by
  rw [argsortNat_eq, argsort_length, perm_length n p hp]

theorem argsortNat_lt : ∀ t ∈ argsortNat p, t < n := by
  intro t ht
  rw [argsortNat_eq] at ht
  have := argsort_lt _ _ _ t ht
  rw [perm_length n p hp] at this
  exact this

theorem argsort_inverse_left (i : Nat) (hi : i < n) : p.getD ((argsortNat p).getD i 0) 0 = i := by
  have h := argsort_map_eq_range n p hp
  have hl := argsortNat_length n p hp
  have h1 : ((argsortNat p).map (fun t => p.getD t 0)).getD i 0 = (List.range n).getD i 0 := by rw [h]
  rw [getD_eq _ _ (by simp [hl, hi]), getD_eq _ _ (by simp [hi]),
    List.getElem_map, List.getElem_range] at h1
  rw [getD_eq (argsortNat p) i (by rw [hl]; exact hi)]
  exact h1

theorem perm_getD_lt (i : Nat) (hi : i < n) : p.getD i 0 < n := by
  have hlen := perm_length n p hp
  have : p.getD i 0 ∈ p := by
    rw [getD_eq _ _ (by rw [hlen]; exact hi)]
    exact List.getElem_mem _
  exact List.mem_range.mp (hp.mem_iff.mp this)

theorem perm_getD_inj (i j : Nat) (hi : i < n) (hj : j < n) (h : p.getD i 0 = p.getD j 0) : i = j := by
  have hlen := perm_length n p hp
  have hnd : p.Nodup := hp.nodup_iff.mpr List.nodup_range
  rw [getD_eq _ _ (by rw [hlen]; exact hi),
    getD_eq _ _ (by rw [hlen]; exact hj)] at h
  exact (List.Nodup.getElem_inj_iff hnd).mp h

theorem argsort_inverse_right (i : Nat) (hi : i < n) : (argsortNat p).getD (p.getD i 0) 0 = i := by
  have hpi := perm_getD_lt n p hp i hi
  have hl := argsortNat_length n p hp
  have hq : (argsortNat p).getD (p.getD i 0) 0 < n := by
    apply argsortNat_lt n p hp
    rw [getD_eq _ _ (by rw [hl]; exact hpi)]
    exact List.getElem_mem _
  apply perm_getD_inj n p hp _ _ hq hi
  exact argsort_inverse_left n p hp _ hpi

omit hp in
theorem permDen_mul {R : Type} [Semiring R] (q r : List Nat) (hq : ∀ i, i < n → q.getD i 0 < n) :
    MatF.toMatrix n n (permDen q : MatF R) * MatF.toMatrix n n (permDen r) =
      MatF.toMatrix n n (fun i j => if r.getD (q.getD i 0) 0 = j then (1 : R) else 0) := by
  ext i j
  simp only [Matrix.mul_apply, MatF.toMatrix_apply, permDen]
  rw [Finset.sum_eq_single ⟨q.getD i.val 0, hq i.val i.isLt⟩]
  · rw [if_pos rfl, one_mul]
  · intro b _ hb
    have : ¬ (q.getD i.val 0 = b.val) := by
      intro h
      apply hb
      exact Fin.ext h.symm
    rw [if_neg this, zero_mul]
  · intro h
    exact absurd (Finset.mem_univ _) h

omit hp in
theorem toMatrix_delta {R : Type} [Semiring R] (f : Nat → Nat) (hf : ∀ i, i < n → f i = i) :
    MatF.toMatrix n n (fun i j => if f i = j then (1 : R) else 0) = 1 := by
  ext i j
  simp only [MatF.toMatrix_apply, Matrix.one_apply, hf i.val i.isLt, Fin.ext_iff]

/-- `Permutation(argsort(p))` is the two-sided inverse of `Permutation(p)` -/
theorem perm_argsort_mul {R : Type} [Semiring R] :
    MatF.toMatrix n n (permDen (argsortNat p) : MatF R) * MatF.toMatrix n n (permDen p) = 1 ∧
    MatF.toMatrix n n (permDen p : MatF R) * MatF.toMatrix n n (permDen (argsortNat p)) = 1 := by
  constructor
  · rw [permDen_mul n (argsortNat p) p]
    · exact toMatrix_delta n _ (fun i hi => argsort_inverse_left n p hp i hi)
    · intro i hi
      apply argsortNat_lt n p hp
      rw [getD_eq _ _ (by rw [argsortNat_length n p hp]; exact hi)]
      exact List.getElem_mem _
  · rw [permDen_mul n p (argsortNat p)]
    · exact toMatrix_delta n _ (fun i hi => argsort_inverse_right n p hp i hi)
    · intro i hi
      exact perm_getD_lt n p hp i hi

end Svd
