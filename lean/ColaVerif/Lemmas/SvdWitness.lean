import ColaVerif.Lemmas.SvdSorted

/-!
# C16 (round 3): exact instances of the contracts (non-vacuity)

Over `ℝ` with rational data (all square roots are of perfect squares):
* `ritz_ok` — `ritz_contract` of `C16_krylov_tall_ritz`: one Ritz vector `v = (3/5, 4/5)` of the Gram matrix of
  `B = [[0, 2], [5, 0]]` (`k = 1 < n = 2`, a genuine partial run: `v` is NOT an eigenvector), Ritz value `289/25`,
  `σ = 17/5`;
* `lapack_sorted`, `dense_sound` — `lapack_contract` of `C16_svd_dense` (strengthened: descending values) on the
  `3 × 2` non-diagonal `A₃ = [[-12, 9], [12, 16], [0, 0]]` with an exact LAPACK table (`PL`), and DenseSVD through it;
* `x3_mp`, `lstsq3_ok` — `lstsq_contract` of `C16_pinv_lstsq`: `lstsq3` = multiplication by the exact
  pseudo-inverse of `A₃`;
* `eigsQY`, `largest_sound` — the strengthened eigensolver contract `EigsSorted` on `Witness.A` with the eigenvector
  operator in the REAL shape `Product(Orthonormal(Dense Q), Dense Y)`, `k = 1 < n = 2`, `'LM'`.
-/

open Matrix

namespace Svd.Witness
open Op

set_option linter.unusedSimpArgs false
set_option linter.unnecessarySeqFocus false
set_option linter.unusedVariables false

noncomputable section

/-! ## a genuine partial run: one Ritz vector of a `2 × 2` Gram matrix -/

/-- `B = [[0, 2], [5, 0]]`, `Bᴴ B = diag(25, 4)` -/
def b : MatF ℝ := fun i j => if i = 0 ∧ j = 1 then 2 else if i = 1 ∧ j = 0 then 5 else 0
/-- the unit vector `v = (3/5, 4/5)` (NOT an eigenvector of `Bᴴ B`): the one Lanczos vector of a run with
`max_iters = 1 < 2` -/
def v : MatF ℝ := fun i _ => if i = 0 then 3 / 5 else 4 / 5
/-- the Ritz value `vᴴ (Bᴴ B) v = 289 / 25` -/
def ritzLam : Nat → ℝ := fun _ => 289 / 25
def ritzSigma : Nat → ℝ := fun _ => 17 / 5
def ritzSinv : Nat → ℝ := fun _ => 5 / 17

theorem sqrt_ritz : Real.sqrt (289 / 25) = 17 / 5 := by
  rw [show (289 / 25 : ℝ) = (17 / 5) ^ 2 by norm_num]
  exact Real.sqrt_sq (by norm_num)

theorem ritz_ok :
    ((MatF.toMatrix 2 1 v)ᴴ * ((MatF.toMatrix 2 2 b)ᴴ * MatF.toMatrix 2 2 b) * MatF.toMatrix 2 1 v =
        diagonal (fun i : Fin 1 => ((ritzLam i.val : ℝ) : ℝ)) ∧
      ∀ i, i < 1 → 0 < ritzLam i) ∧
    (∀ i, i < 1 → ritzSigma i = Real.sqrt (ritzLam i)) ∧
    (∀ i, i < 1 → ritzSinv i = (((ritzSigma i)⁻¹ : ℝ) : ℝ)) ∧
    (MatF.toMatrix 2 1 v)ᴴ * MatF.toMatrix 2 1 v = 1 ∧
    (MatF.toMatrix 2 2 b)ᴴ * MatF.toMatrix 2 2 b * MatF.toMatrix 2 1 v ≠
      MatF.toMatrix 2 1 v * diagonal (fun i : Fin 1 => ((ritzLam i.val : ℝ) : ℝ)) := by
  refine ⟨⟨?_, ?_⟩, ?_, ?_, ?_, ?_⟩
  · ext i j
    fin_cases i; fin_cases j
    simp [Matrix.mul_apply, Fin.sum_univ_two, MatF.toMatrix_apply, b, v, ritzLam]
    norm_num
  · intro i _; simp only [ritzLam]; norm_num
  · intro i _; simp only [ritzSigma, ritzLam]; exact sqrt_ritz.symm
  · intro i _; simp only [ritzSinv, ritzSigma]; norm_num
  · ext i j
    fin_cases i; fin_cases j
    simp [Matrix.mul_apply, Fin.sum_univ_two, MatF.toMatrix_apply, v]
    norm_num
  · intro h
    have := congrFun (congrFun h 0) 0
    simp [Matrix.mul_apply, Fin.sum_univ_two, MatF.toMatrix_apply, b, v, ritzLam] at this
    norm_num at this


/-! ## LAPACK and `lstsq` on a `3 × 2` non-diagonal operand -/

/-- `A₃ = [[-12, 9], [12, 16], [0, 0]] = U₁ diag(20, 15) Vᵀ`, `U₁ = [e₁ e₀]`, `V = [[3/5, -4/5], [4/5, 3/5]]` -/
def a3 : MatF ℝ := fun i j =>
  if i = 0 ∧ j = 0 then -12 else if i = 0 ∧ j = 1 then 9 else
  if i = 1 ∧ j = 0 then 12 else if i = 1 ∧ j = 1 then 16 else 0
def A3 : Op ℝ := .dense .f64 3 2 a3

/-- the full `3 × 3` left factor LAPACK returns (`full_matrices=True`): a permutation -/
def u3 : MatF ℝ := fun i j =>
  if (i = 0 ∧ j = 1) ∨ (i = 1 ∧ j = 0) ∨ (i = 2 ∧ j = 2) then 1 else 0
/-- singular values, DESCENDING as `np.linalg.svd` returns them -/
def s3 : Nat → ℝ := fun i => if i = 0 then 20 else 15
def v3 : MatF ℝ := fun i j =>
  if i = 0 ∧ j = 0 then 3 / 5 else if i = 0 ∧ j = 1 then -4 / 5 else
  if i = 1 ∧ j = 0 then 4 / 5 else if i = 1 ∧ j = 1 then 3 / 5 else 0

/-- `Witness.P` with an exact LAPACK table for `A₃` -/
def PL : Params ℝ := { P with lapackSvd := fun _ _ _ => ⟨u3, s3, v3⟩ }

theorem A3_good : Op.Good A3 := good_dense' _ _ _ _
theorem A3_rows : A3.rows = 3 := by simp only [A3, Op.rows]
theorem A3_cols : A3.cols = 2 := by simp only [A3, Op.cols]

theorem A3_td : MatF.toMatrix 3 2 A3.td.f = MatF.toMatrix 3 2 a3 := by
  have h := Op.td_eq A3 A3_good.wf A3_good.nd A3_good.herm
  rw [A3_rows, A3_cols] at h
  rw [MatF.toMatrix_congr h]
  simp only [A3, den_dense_f]

/-- the strengthened LAPACK contract (thin SVD, real non-negative DESCENDING values) holds for the table -/
theorem lapack_sorted : LapackSorted 3 2 A3.td.f (PL.lapackSvd 3 2 A3.td.f) s3 := by
  refine ⟨?_, ?_, ?_, ?_, ?_⟩
  · intro i hi
    simp only [PL, s3]
    split <;> norm_num
  · ext i j
    fin_cases i <;> fin_cases j <;>
      simp [PL, Matrix.mul_apply, Fin.sum_univ_three, MatF.toMatrix_apply, u3]
  · ext i j
    fin_cases i <;> fin_cases j <;>
      simp [PL, Matrix.mul_apply, Fin.sum_univ_two, MatF.toMatrix_apply, v3] <;> norm_num
  · rw [A3_td]
    show MatF.toMatrix 3 2 u3 * diagonal (fun i : Fin 2 => s3 i.val) * (MatF.toMatrix 2 2 v3)ᴴ = _
    ext i j
    fin_cases i <;> fin_cases j <;>
      simp [Matrix.mul_apply, Fin.sum_univ_two, MatF.toMatrix_apply, u3, v3, s3, a3, Matrix.diagonal_apply] <;> norm_num
  · intro i j hij hj
    simp only [s3]
    have : j < 2 := hj
    interval_cases j <;> interval_cases i <;> norm_num


theorem lapack_sorted' :
    LapackSorted A3.rows A3.cols A3.td.f (PL.lapackSvd A3.rows A3.cols A3.td.f) s3 := by
  rw [A3_rows, A3_cols]; exact lapack_sorted

theorem lt_ok : ∀ a b : ℝ, PL.lt ((a : ℝ) : ℝ) ((b : ℝ) : ℝ) = decide (a < b) := fun _ _ => rfl

/-- DenseSVD on `A₃` through the contract -/
theorem dense_sound :
    let res := svdDense PL A3
    res.1.length = 2 ∧
    (MatF.toMatrix 3 2 res.2.U.den.f)ᴴ * MatF.toMatrix 3 2 res.2.U.den.f = 1 ∧
    (MatF.toMatrix 2 2 res.2.V.den.f)ᴴ * MatF.toMatrix 2 2 res.2.V.den.f = 1 ∧
    MatF.toMatrix 3 2 res.2.U.den.f * MatF.toMatrix 2 2 res.2.S.den.f *
      (MatF.toMatrix 2 2 res.2.V.den.f)ᴴ = MatF.toMatrix 3 2 a3 ∧
    (∀ i j, i ≤ j → j < res.1.length → s3 (res.1.getD i 0) ≤ s3 (res.1.getD j 0)) := by
  intro res
  have key := svdDense_spec PL A3 ⟨A3_good.wf, A3_good.nd, A3_good.herm⟩ s3 lapack_sorted'.old
  have hsorted := svdDense_sorted PL A3 s3 (fun i hi => (lapack_sorted'.real i hi).1) lt_ok
  obtain ⟨hk, _, _, _, _, _, hU, hV, _, _, hrec⟩ := key
  have hk2 : (svdDense PL A3).1.length = 2 := by rw [hk, A3_rows, A3_cols]; rfl
  rw [hk2, A3_rows] at hU
  rw [hk2, A3_cols] at hV
  rw [hk2, A3_rows, A3_cols] at hrec
  refine ⟨hk2, hU, hV, ?_, hsorted⟩
  rw [hrec]
  simp only [A3, den_dense_f]
/-- the exact pseudo-inverse of `A₃` (`= V diag(1/20, 1/15) U₁ᵀ = (A₃ᵀ A₃)⁻¹ A₃ᵀ`) -/
def x3 : MatF ℝ := fun i j =>
  if i = 0 ∧ j = 0 then -4 / 75 else if i = 0 ∧ j = 1 then 3 / 100 else
  if i = 1 ∧ j = 0 then 1 / 25 else if i = 1 ∧ j = 1 then 1 / 25 else 0

/-- a concrete `lstsq`: multiplication of the right-hand side by that pseudo-inverse -/
def lstsq3 : Nat → Nat → MatF ℝ → Nat → MatF ℝ → MatF ℝ := fun m _ _ _ B => mmul m x3 B

theorem x3_mp : IsMoorePenrose (MatF.toMatrix 3 2 a3) (MatF.toMatrix 2 3 x3) := by
  refine ⟨?_, ?_, ?_, ?_⟩
  · ext i j
    fin_cases i <;> fin_cases j <;>
      simp [Matrix.mul_apply, Fin.sum_univ_two, Fin.sum_univ_three, MatF.toMatrix_apply, a3, x3] <;> norm_num
  · ext i j
    fin_cases i <;> fin_cases j <;>
      simp [Matrix.mul_apply, Fin.sum_univ_two, Fin.sum_univ_three, MatF.toMatrix_apply, a3, x3] <;> norm_num
  · ext i j
    fin_cases i <;> fin_cases j <;>
      simp [Matrix.mul_apply, Fin.sum_univ_two, Fin.sum_univ_three, MatF.toMatrix_apply, a3, x3] <;> norm_num
  · ext i j
    fin_cases i <;> fin_cases j <;>
      simp [Matrix.mul_apply, Fin.sum_univ_two, Fin.sum_univ_three, MatF.toMatrix_apply, a3, x3] <;> norm_num

/-- `lstsq_contract` of `C16_pinv_lstsq` holds for `lstsq3` on `A₃`, every right-hand side -/
theorem lstsq3_ok (nb : Nat) (B : MatF ℝ) : ∀ j, j < nb →
    IsMinNormLsq (lin (MatF.toMatrix A3.rows A3.cols A3.td.f)) (colE A3.rows B j)
      (colE A3.cols (lstsq3 A3.rows A3.cols A3.td.f nb B) j) := by
  intro j _
  rw [A3_rows, A3_cols, A3_td]
  simp only [lstsq3]
  rw [colE_mmul]
  exact x3_mp.minNormLsq _

/-- the exchange matrix `[[0, 1], [1, 0]]` -/
def swapM : MatF ℝ := fun i j => if i + j = 1 then 1 else 0

/-- an exact `lanczos_eigs` for `Aᴴ A = diag(1, 4)` in the shape the real routine returns:
`Product(Orthonormal(Dense Q), Dense Y)` with the Lanczos basis `Q = [e₁ e₀]` (so `T = Qᴴ (Aᴴ A) Q = diag(4, 1)`)
and `Y = [[0, 1], [1, 0]]` the eigenvectors of `T` for the ASCENDING eigenvalues `1, 4` -/
def eigsQY : Op ℝ → Eigs ℝ := fun G =>
  ⟨fun t => if t = 0 then 1 else 4,
   .prod [orthonormal (.dense .f64 G.rows 2 swapM), .dense .f64 2 2 swapM]⟩

theorem eigsQY_shape (G : Op ℝ) : Op.Good (eigsQY G).W ∧ (eigsQY G).W.rows = G.rows := by
  refine ⟨good_lanczosW _ _ _ _ _ _ _, ?_⟩
  simp only [eigsQY, Op.rows, List.map_cons, List.map_nil, List.head?_cons, Option.getD_some]
  rw [orthonormal_rows]; simp only [Op.rows]

theorem eigsQY_cols (G : Op ℝ) : (eigsQY G).W.cols = 2 := by
  simp [eigsQY, Op.cols]

theorem eigsQY_den (G : Op ℝ) : MatF.toMatrix 2 2 (eigsQY G).W.den.f = 1 := by
  simp only [eigsQY]
  rw [Op.den]
  ext i j
  fin_cases i <;> fin_cases j <;>
    simp [MatF.toMatrix_apply, orthonormal_den, orthonormal_cols, Op.cols, den_dense_f, mmul_apply, swapM, eyeM]


/-- `k = 1 < n = 2`, `'LM'`: under the strengthened (sorted) contract the rule selects position `1` (the LARGEST
eigenvalue `4`), returns `Σ = [2]`, orthonormal `U`, `V`, the truncated-SVD identities, and the unselected
singular value `sqrt 1` is not larger than the selected one -/
theorem largest_sound : ∃ o, svdKrylov P eigsQY false A ((1 : Nat) : Int) .LM = .ok o ∧ o.tall = true ∧
    o.j = 2 ∧ o.pos = [1] ∧
    EigsSorted 2 2 o.G.den.f (eigsQY o.G).W.den.f (eigsQY o.G).vals lam ∧
    MatF.toMatrix 1 1 o.triple.S.den.f = diagonal (fun _ : Fin 1 => (2 : ℝ)) ∧
    (MatF.toMatrix 2 1 o.triple.U.den.f)ᴴ * MatF.toMatrix 2 1 o.triple.U.den.f = 1 ∧
    (MatF.toMatrix 2 1 o.triple.V.den.f)ᴴ * MatF.toMatrix 2 1 o.triple.V.den.f = 1 ∧
    MatF.toMatrix 2 1 o.triple.U.den.f * MatF.toMatrix 1 1 o.triple.S.den.f *
        (MatF.toMatrix 2 1 o.triple.V.den.f)ᴴ =
      MatF.toMatrix 2 2 A.den.f *
        (MatF.toMatrix 2 1 o.triple.V.den.f * (MatF.toMatrix 2 1 o.triple.V.den.f)ᴴ) ∧
    (∀ p ∈ o.pos, ∀ q, q < o.j → q ∉ o.pos → Real.sqrt (lam q) ≤ Real.sqrt (lam p)) := by
  obtain ⟨o, ho⟩ := svdKrylov_total P eigsQY false A 1 .LM (Or.inl rfl) A_good A_real eigsQY_shape
  have hspec := svdKrylov_spec P eigsQY false A ((1 : Nat) : Int) .LM o ho
  have htall : o.tall = true := by
    rw [hspec.2.1]; simp [A, Op.rows, Op.cols]
  have hj : o.j = 2 := by
    rw [svdKrylov_j P eigsQY false A _ .LM o ho]; exact eigsQY_cols _
  have hAr : A.rows = 2 := by simp only [A, Op.rows]
  have hAc : A.cols = 2 := by simp only [A, Op.cols]
  have hgram := gram_tall_den A o.G A_good A_real ((svdKrylov_gram P eigsQY false A _ .LM o ho).1 htall)
  have hG : MatF.toMatrix 2 2 o.G.den.f = diagonal (fun i : Fin 2 => lam i.val) := by
    have := hgram.2.2
    rw [hAc, hAr] at this
    rw [MatF.toMatrix_congr this]
    ext i j
    fin_cases i <;> fin_cases j <;>
      simp [MatF.toMatrix_apply, mmul_apply, Finset.sum_range_succ, conjM, transposeM, A, a, lam,
        den_dense_f] <;> norm_num
  have hsorted : EigsSorted 2 2 o.G.den.f (eigsQY o.G).W.den.f (eigsQY o.G).vals lam := by
    refine ⟨?_, ?_, ?_, ?_, ?_⟩
    · rw [eigsQY_den]; simp
    · rw [eigsQY_den, hG, Matrix.mul_one, Matrix.one_mul]; rfl
    · intro t ht; interval_cases t <;> simp [eigsQY, lam]
    · intro t ht; interval_cases t <;> simp [lam]
    · intro s t hst ht; interval_cases t <;> interval_cases s <;> simp [lam]
  have hsorted' : EigsSorted A.cols o.j o.G.den.f (eigsQY o.G).W.den.f (eigsQY o.G).vals lam := by
    rw [hAc, hj]; exact hsorted
  obtain ⟨hform, hlen, hsel, hlarge, _⟩ :=
    svdKrylov_select_sorted P eigsQY false A 1 .LM o ho A.cols lam hsorted' (by omega) (by omega)
  have hpos : o.pos = [1] := by
    rcases hform with ⟨_, hp⟩ | ⟨hw, _⟩
    · rw [hp, hj]; rfl
    · cases hw
  have key := svdKrylov_tall_sound P eigsQY false A 1 .LM o ho htall A_good A_real (eigsQY_shape o.G).1
    (fun t => lam (o.pos.getD t 0)) hsel (by intro t _; rfl) (by intro z; rfl)
  obtain ⟨_, hU, hV, hS, _, hrec, _, _, _⟩ := key
  have hlen1 : o.pos.length = 1 := by rw [hpos]; rfl
  rw [hlen1, hAr] at hU
  rw [hlen1, hAc] at hV
  rw [hlen1, hAr, hAc] at hrec
  rw [hlen1] at hS
  refine ⟨o, ho, htall, hj, hpos, hsorted, ?_, hU, hV, hrec, fun p hp q hq hnq => (hlarge rfl p hp q hq hnq).2⟩
  rw [hS]
  ext i j
  fin_cases i; fin_cases j
  simp only [hpos, lam, Matrix.diagonal_apply]
  simp
  rw [show (4 : ℝ) = 2 ^ 2 by norm_num]
  exact Real.sqrt_sq (by norm_num)
end

end Svd.Witness
