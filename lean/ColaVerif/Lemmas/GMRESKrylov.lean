import Mathlib.LinearAlgebra.Matrix.NonsingularInverse
import Mathlib.LinearAlgebra.Matrix.Invertible
import ColaVerif.Lemmas.GMRESWitness
import ColaVerif.Lemmas.ArnoldiKrylov

/-!
# GMRES and the Krylov space of the initial residual; the solver contract with a witness

* `Regular`, `SolverSound`: the uniform contract of the dense solver (on a nonsingular system the returned
  vector solves it) — `exists_solution_of_regular`, `exactSolve_sound`: it is satisfiable;
* `normalMatrix_regular`: the system `gmres_fwd` hands to the solver, `H̃ᴴ H̃ + diag(padding)`, IS nonsingular
  when the mask is exact and the executed block of `H̃` is injective (`hessenberg_injective`: positive
  sub-diagonal; `block_injective_of_injective`: injective `A`) — so the per-call hypothesis `SolvesSystem` of
  `kept_row_minimal` / `exact_at_breakdown` follows from `SolverSound` (`solves_of_sound`);
* `krylov_optimal`: the correction lies in `K_s(A, r₀)` and the iterate minimises `‖b − A x‖` over `x₀ + K_s(A, r₀)`;
* `exact_at_breakdown_sound`: residual `0` after an exact breakdown for an injective `A` (the former clause
  `krylovRegular` is proved: `conjTranspose_injective_of_injective`).
-/

open scoped InnerProductSpace
open Finset Arnoldi

namespace GMRES

variable {𝕜 E : Type} [RCLike 𝕜] [NormedAddCommGroup E] [InnerProductSpace 𝕜 E]

/-- nonsingular `M × M` system matrix (array of rows): the homogeneous system has only the trivial solution -/
def Regular (M : Nat) (G : Array (Array 𝕜)) : Prop :=
  ∀ z : Nat → 𝕜, (∀ a, a < M → ∑ b ∈ range M, (G.getD a #[]).getD b 0 * z b = 0) → ∀ b, b < M → z b = 0

/-- **contract of the dense solver** (`np.linalg.solve`, LAPACK `gesv`, exact arithmetic), uniform over its
calls: on a nonsingular system the returned vector solves it.  Nothing is assumed for singular systems
(the real routine raises `LinAlgError`). -/
def SolverSound (solve : Array (Array 𝕜) → Array 𝕜 → Array 𝕜) : Prop :=
  ∀ (M : Nat) (G : Array (Array 𝕜)) (r : Array 𝕜), G.size = M → Regular M G → SolvesSystem M G r (solve G r)

omit [NormedAddCommGroup E] [InnerProductSpace 𝕜 E] in
/-- a nonsingular system has a solution (finite-dimensional linear algebra through `Matrix`) -/
theorem exists_solution_of_regular (M : Nat) (G : Array (Array 𝕜)) (r : Array 𝕜) (h : Regular M G) :
    ∃ y : Array 𝕜, SolvesSystem M G r y := by
  classical
  let Gm : Matrix (Fin M) (Fin M) 𝕜 := fun a b => (G.getD a.val #[]).getD b.val 0
  have hinj : Function.Injective Gm.mulVec := by
    have hlin : Function.Injective (Matrix.mulVecLin Gm) := by
      rw [injective_iff_map_eq_zero]
      intro x hx
      let z : Nat → 𝕜 := fun b => if hb : b < M then x ⟨b, hb⟩ else 0
      have hz := h z (by
        intro a ha
        have := congrFun hx ⟨a, ha⟩
        simp only [Matrix.mulVecLin_apply, Matrix.mulVec, dotProduct, Pi.zero_apply] at this
        have e : ∑ b ∈ range M, (G.getD a #[]).getD b 0 * z b = ∑ b : Fin M, Gm ⟨a, ha⟩ b * x b := by
          rw [Finset.sum_range]
          apply Finset.sum_congr rfl
          intro b _
          simp [Gm, z]
        rw [e]; exact this)
      funext b
      have := hz b.val b.isLt
      simpa [z] using this
    exact hlin
  have hunit : IsUnit Gm := Matrix.mulVec_injective_iff_isUnit.mp hinj
  have hdet : IsUnit Gm.det := (Matrix.isUnit_iff_isUnit_det Gm).mp hunit
  let rv : Fin M → 𝕜 := fun a => r.getD a.val 0
  let yv : Fin M → 𝕜 := Gm⁻¹.mulVec rv
  have hy : Gm.mulVec yv = rv := by
    show Gm.mulVec (Gm⁻¹.mulVec rv) = rv
    rw [Matrix.mulVec_mulVec, Matrix.mul_nonsing_inv Gm hdet, Matrix.one_mulVec]
  refine ⟨Array.ofFn yv, ?_⟩
  intro a ha
  have := congrFun hy ⟨a, ha⟩
  simp only [Matrix.mulVec, dotProduct] at this
  have e : ∑ b ∈ range M, (G.getD a #[]).getD b 0 * (Array.ofFn yv).getD b 0 =
      ∑ b : Fin M, Gm ⟨a, ha⟩ b * yv b := by
    rw [Finset.sum_range]
    apply Finset.sum_congr rfl
    intro b _
    rw [getD_ofFn, dif_pos b.isLt]
  rw [e, this]

/-- the contract is satisfiable: a solver picked by choice meets it -/
noncomputable def exactSolve (G : Array (Array 𝕜)) (r : Array 𝕜) : Array 𝕜 := by
  classical
  exact if h : ∃ y, SolvesSystem G.size G r y then h.choose else #[]

omit [NormedAddCommGroup E] [InnerProductSpace 𝕜 E] in
theorem exactSolve_sound : SolverSound (exactSolve (𝕜 := 𝕜)) := by
  intro M G r hsize hreg
  subst hsize
  classical
  have hex : ∃ y, SolvesSystem G.size G r y := exists_solution_of_regular G.size G r hreg
  unfold exactSolve
  rw [dif_pos hex]
  exact hex.choose_spec

/-! ### the system `gmres_fwd` hands to the solver is nonsingular -/

section regular
variable {A : E →ₗ[𝕜] E} {M : Nat} {tol : ℝ} {r0 : E} {s : Nat} {drop : Bool}

/-- an upper Hessenberg `(s+1) × s` block with non-zero sub-diagonal is injective (back substitution from
the last row) -/
theorem hessenberg_injective {c : Col 𝕜 E} (hinv : Inv A M r0 tol s c)
    (hsub : ∀ i, i < s → c.h (i + 1) i ≠ 0) (z : Nat → 𝕜)
    (hz : ∀ r, r < s + 1 → ∑ i ∈ range s, c.h r i * z i = 0) : ∀ i, i < s → z i = 0 := by
  have key : ∀ k, k ≤ s → ∀ i, s - k ≤ i → i < s → z i = 0 := by
    intro k
    induction k with
    | zero => intro _ i h1 h2; omega
    | succ k ih =>
      intro hk i h1 h2
      by_cases hik : s - k ≤ i
      · exact ih (by omega) i hik h2
      · have hi : i = s - (k + 1) := by omega
        have hrow := hz (i + 1) (by omega)
        rw [sum_eq_single i] at hrow
        · exact (mul_eq_zero.mp hrow).resolve_left (hsub i h2)
        · intro b hb hbi
          have hbs := mem_range.mp hb
          by_cases hlt : b < i
          · rw [hinv.hHess b (i + 1) (by omega), zero_mul]
          · rw [ih (by omega) b (by omega) hbs, mul_zero]
        · intro hni; exact absurd (mem_range.mpr h2) hni
  intro i hi
  exact key s (le_refl _) i (by omega) hi

/-- if `A` is injective, `q₀ … q_{s-1}` orthonormal and `A q_i = Σ_{l ≤ s} h l i q_l`, the `(s+1) × s` block of
`H` is injective: `H̃ z = 0 ⟹ A (Σ z_i q_i) = 0 ⟹ z = 0` -/
theorem block_injective_of_injective (hA : Function.Injective A) (q : Nat → E) (h : Nat → Nat → 𝕜)
    (hON : ∀ a, a < s → ∀ b, b < s → ⟪q a, q b⟫_𝕜 = if a = b then 1 else 0)
    (hrel : ∀ i, i < s → A (q i) = ∑ l ∈ range (s + 1), h l i • q l) (z : Nat → 𝕜)
    (hz : ∀ r, r < s + 1 → ∑ i ∈ range s, h r i * z i = 0) : ∀ i, i < s → z i = 0 := by
  have hAz : A (∑ i ∈ range s, z i • q i) = 0 := by
    rw [map_sum]
    calc ∑ i ∈ range s, A (z i • q i)
        = ∑ i ∈ range s, ∑ l ∈ range (s + 1), (h l i * z i) • q l := by
          apply sum_congr rfl
          intro i hi
          rw [map_smul, hrel i (mem_range.mp hi), smul_sum]
          apply sum_congr rfl
          intro l _
          rw [smul_smul, mul_comm]
      _ = ∑ l ∈ range (s + 1), ∑ i ∈ range s, (h l i * z i) • q l := sum_comm
      _ = 0 := by
          apply sum_eq_zero
          intro l hl
          rw [← sum_smul, hz l (mem_range.mp hl), zero_smul]
  have hzq : ∑ i ∈ range s, z i • q i = 0 := hA (by rw [hAz, map_zero])
  intro a ha
  have : ⟪q a, ∑ i ∈ range s, z i • q i⟫_𝕜 = z a := by
    rw [inner_sum, sum_eq_single a]
    · rw [inner_smul_right, hON a ha a ha, if_pos rfl, mul_one]
    · intro b hb hba
      rw [inner_smul_right, hON a ha b (mem_range.mp hb), if_neg (Ne.symm hba), mul_zero]
    · intro hna; exact absurd (mem_range.mpr ha) hna
  rw [hzq, inner_zero_right] at this
  exact this.symm

/-- **the regularised normal matrix `H̃ᴴ H̃ + diag(padding)` is nonsingular** when the mask is exact and
the executed block of `H̃` is injective: `zᴴ G z = ‖H̃ z‖² + Σ_{a ≥ s} |z_a|²` -/
theorem normalMatrix_regular {c : Col 𝕜 E} (hinv : Inv A M r0 tol s c) (hsM : s ≤ M)
    (hmask : MaskExact drop M tol s c)
    (hinj : ∀ z : Nat → 𝕜, (∀ r, r < hRows drop M → ∑ i ∈ range s, c.h r i * z i = 0) →
      ∀ i, i < s → z i = 0) :
    Regular M (normalMatrix drop M (padding drop M ((tol : ℝ) : 𝕜) c) c) := by
  intro z hz
  set pad := padding drop M ((tol : ℝ) : 𝕜) c with hpad
  set R := hRows drop M with hR
  -- the quadratic form
  let Hz : Nat → 𝕜 := fun r => ∑ b ∈ range M, c.h r b * z b
  let p : Nat → 𝕜 := fun a => if pad.getD a false then 1 else 0
  have hquad : ∑ r ∈ range R, (starRingEnd 𝕜) (Hz r) * Hz r +
      ∑ a ∈ range M, p a * ((starRingEnd 𝕜) (z a) * z a) = 0 := by
    have h0 : ∑ a ∈ range M, (starRingEnd 𝕜) (z a) *
        ∑ b ∈ range M, ((normalMatrix drop M pad c).getD a #[]).getD b 0 * z b = 0 := by
      apply sum_eq_zero
      intro a ha
      rw [hz a (mem_range.mp ha), mul_zero]
    rw [← h0]
    have hexp : ∀ a, a ∈ range M → (starRingEnd 𝕜) (z a) *
        ∑ b ∈ range M, ((normalMatrix drop M pad c).getD a #[]).getD b 0 * z b =
        (∑ r ∈ range R, (starRingEnd 𝕜) (c.h r a * z a) * Hz r) + p a * ((starRingEnd 𝕜) (z a) * z a) := by
      intro a ha
      have haM := mem_range.mp ha
      have hrow : ∑ b ∈ range M, ((normalMatrix drop M pad c).getD a #[]).getD b 0 * z b =
          (∑ r ∈ range R, (starRingEnd 𝕜) (c.h r a) * Hz r) + p a * z a := by
        calc ∑ b ∈ range M, ((normalMatrix drop M pad c).getD a #[]).getD b 0 * z b
            = ∑ b ∈ range M, ((∑ r ∈ range R, (starRingEnd 𝕜) (c.h r a) * c.h r b) * z b +
                (if a = b then p a else 0) * z b) := by
              apply sum_congr rfl
              intro b hb
              rw [normalMatrix_get drop M pad c a b haM (mem_range.mp hb), add_mul]
          _ = (∑ b ∈ range M, (∑ r ∈ range R, (starRingEnd 𝕜) (c.h r a) * c.h r b) * z b) +
                ∑ b ∈ range M, (if a = b then p a else 0) * z b := sum_add_distrib
          _ = _ := by
              congr 1
              · calc ∑ b ∈ range M, (∑ r ∈ range R, (starRingEnd 𝕜) (c.h r a) * c.h r b) * z b
                    = ∑ b ∈ range M, ∑ r ∈ range R, (starRingEnd 𝕜) (c.h r a) * (c.h r b * z b) := by
                      apply sum_congr rfl
                      intro b _
                      rw [sum_mul]
                      apply sum_congr rfl
                      intro r _
                      ring
                  _ = ∑ r ∈ range R, ∑ b ∈ range M, (starRingEnd 𝕜) (c.h r a) * (c.h r b * z b) := sum_comm
                  _ = _ := by
                      apply sum_congr rfl
                      intro r _
                      rw [← mul_sum]
              · rw [sum_eq_single a]
                · rw [if_pos rfl]
                · intro b _ hba; rw [if_neg (Ne.symm hba), zero_mul]
                · intro hna; exact absurd ha hna
      rw [hrow, mul_add, mul_sum]
      congr 1
      · apply sum_congr rfl
        intro r _
        rw [map_mul]; ring
      · ring
    rw [sum_congr rfl hexp, sum_add_distrib]
    congr 1
    rw [sum_comm]
    apply sum_congr rfl
    intro r _
    rw [← sum_mul]
    congr 1
    rw [map_sum]
  -- both parts are sums of non-negative reals
  have hre1 : ∀ r, (starRingEnd 𝕜) (Hz r) * Hz r = (((‖Hz r‖ ^ 2 : ℝ)) : 𝕜) := by
    intro r; rw [RCLike.conj_mul]; push_cast; rfl
  have hre2 : ∀ a, p a * ((starRingEnd 𝕜) (z a) * z a) =
      ((((if pad.getD a false then 1 else 0) * ‖z a‖ ^ 2 : ℝ)) : 𝕜) := by
    intro a
    rw [RCLike.conj_mul]
    by_cases hp : pad.getD a false = true
    · have hpa : p a = 1 := if_pos hp
      rw [hpa, if_pos hp]; push_cast; ring
    · have hpa : p a = 0 := if_neg hp
      rw [hpa, if_neg hp]; push_cast; ring
  have hreal : (∑ r ∈ range R, ‖Hz r‖ ^ 2) +
      ∑ a ∈ range M, (if pad.getD a false then 1 else 0) * ‖z a‖ ^ 2 = (0 : ℝ) := by
    have : (((∑ r ∈ range R, ‖Hz r‖ ^ 2) +
        ∑ a ∈ range M, (if pad.getD a false then 1 else 0) * ‖z a‖ ^ 2 : ℝ) : 𝕜) = 0 := by
      rw [← hquad]
      push_cast
      congr 1
      · apply sum_congr rfl
        intro r _
        rw [hre1]; push_cast; rfl
      · apply sum_congr rfl
        intro a _
        rw [hre2]; push_cast; rfl
    exact_mod_cast this
  have hnn1 : 0 ≤ ∑ r ∈ range R, ‖Hz r‖ ^ 2 := sum_nonneg fun r _ => sq_nonneg _
  have hnn2 : 0 ≤ ∑ a ∈ range M, (if pad.getD a false then (1 : ℝ) else 0) * ‖z a‖ ^ 2 :=
    sum_nonneg fun a _ => mul_nonneg (by split <;> norm_num) (sq_nonneg _)
  have hz1 : ∑ r ∈ range R, ‖Hz r‖ ^ 2 = 0 := by linarith
  have hz2 : ∑ a ∈ range M, (if pad.getD a false then (1 : ℝ) else 0) * ‖z a‖ ^ 2 = 0 := by linarith
  have hHz : ∀ r, r < R → Hz r = 0 := by
    intro r hr
    have := (sum_eq_zero_iff_of_nonneg (fun r _ => sq_nonneg ‖Hz r‖)).mp hz1 r (mem_range.mpr hr)
    exact norm_eq_zero.mp ((pow_eq_zero_iff (two_ne_zero)).mp this)
  have hzpad : ∀ a, a < M → s ≤ a → z a = 0 := by
    intro a ha hsa
    have := (sum_eq_zero_iff_of_nonneg
      (fun a _ => mul_nonneg (by split <;> norm_num) (sq_nonneg ‖z a‖))).mp hz2 a (mem_range.mpr ha)
    rw [if_pos ((hmask a ha).mpr hsa), one_mul] at this
    exact norm_eq_zero.mp ((pow_eq_zero_iff (two_ne_zero)).mp this)
  intro b hb
  by_cases hbs : s ≤ b
  · exact hzpad b hb hbs
  · apply hinj z _ b (by omega)
    intro r hr
    have := hHz r hr
    show ∑ i ∈ range s, c.h r i * z i = 0
    rw [← this]
    show _ = ∑ b ∈ range M, c.h r b * z b
    apply sum_subset
    · intro l hl; rw [mem_range] at hl ⊢; omega
    · intro l _ hl
      rw [mem_range] at hl
      rw [hinv.hZeroCol l (by omega) r, zero_mul]

end regular

omit [NormedAddCommGroup E] [InnerProductSpace 𝕜 E] in
theorem normalMatrix_size (drop : Bool) (M : Nat) (pad : Array Bool) (c : Col 𝕜 E) :
    (normalMatrix drop M pad c).size = M := by
  unfold normalMatrix; simp

omit [NormedAddCommGroup E] [InnerProductSpace 𝕜 E] in
/-- a square block that is injective has an injective conjugate transpose -/
theorem conjTranspose_injective_of_injective (s : Nat) (h : Nat → Nat → 𝕜)
    (hinj : ∀ z : Nat → 𝕜, (∀ r, r < s → ∑ i ∈ range s, h r i * z i = 0) → ∀ i, i < s → z i = 0) :
    ∀ z : Nat → 𝕜, (∀ a, a < s → ∑ r ∈ range s, (starRingEnd 𝕜) (h r a) * z r = 0) →
      ∀ r, r < s → z r = 0 := by
  classical
  let Hm : Matrix (Fin s) (Fin s) 𝕜 := fun r i => h r.val i.val
  have hI : Function.Injective Hm.mulVec := by
    have hlin : Function.Injective (Matrix.mulVecLin Hm) := by
      rw [injective_iff_map_eq_zero]
      intro x hx
      let z : Nat → 𝕜 := fun b => if hb : b < s then x ⟨b, hb⟩ else 0
      have hz := hinj z (by
        intro r hr
        have := congrFun hx ⟨r, hr⟩
        simp only [Matrix.mulVecLin_apply, Matrix.mulVec, dotProduct, Pi.zero_apply] at this
        have e : ∑ i ∈ range s, h r i * z i = ∑ i : Fin s, Hm ⟨r, hr⟩ i * x i := by
          rw [Finset.sum_range]
          apply Finset.sum_congr rfl
          intro i _
          simp [Hm, z]
        rw [e]; exact this)
      funext b
      have := hz b.val b.isLt
      simpa [z] using this
    exact hlin
  have hU : IsUnit Hm := Matrix.mulVec_injective_iff_isUnit.mp hI
  have hUH : IsUnit Hm.conjTranspose := (Matrix.isUnit_conjTranspose (A := Hm)).mpr hU
  have hIH : Function.Injective Hm.conjTranspose.mulVec := Matrix.mulVec_injective_iff_isUnit.mpr hUH
  intro z hz r hr
  let x : Fin s → 𝕜 := fun i => z i.val
  have hx : Hm.conjTranspose.mulVec x = 0 := by
    funext a
    simp only [Matrix.mulVec, dotProduct, Pi.zero_apply]
    have := hz a.val a.isLt
    rw [Finset.sum_range] at this
    rw [← this]
    apply Finset.sum_congr rfl
    intro i _
    rw [Matrix.conjTranspose_apply]
    rfl
  have hx0 : x = 0 := hIH (by rw [hx, Matrix.mulVec_zero])
  exact congrFun hx0 ⟨r, hr⟩

section main
variable {A : E →ₗ[𝕜] E} {M : Nat} {tol : ℝ} {r0 : E} {s : Nat}
variable {solve : Array (Array 𝕜) → Array 𝕜 → Array 𝕜}

/-- the call of the solver made by `gmres_fwd` meets `SolvesSystem`, from the uniform contract `SolverSound`
(no breakdown in the executed steps) -/
theorem solves_of_sound (htol : 0 < tol) (hr0 : r0 ≠ 0) (hsM : s ≤ M)
    (hun : ∀ i, i < s → tol / 2 ≤ (colAt A M tol r0 s).beta i)
    (hmask : MaskExact false M tol s (colAt A M tol r0 s)) (hsound : SolverSound solve) :
    SolvesSystem M
      (normalMatrix false M (padding false M ((tol : ℝ) : 𝕜) (colAt A M tol r0 s)) (colAt A M tol r0 s))
      (normalRhs M (colAt A M tol r0 s))
      (solve (normalMatrix false M (padding false M ((tol : ℝ) : 𝕜) (colAt A M tol r0 s)) (colAt A M tol r0 s))
        (normalRhs M (colAt A M tol r0 s))) := by
  have hinv := inv_colAfter A M r0 tol hr0 htol s hsM
  apply hsound M _ _ (normalMatrix_size _ _ _ _)
  apply normalMatrix_regular hinv hsM hmask
  intro z hz
  apply hessenberg_injective hinv _ z (fun r hr => hz r (by unfold hRows; simp; omega))
  intro i hi
  rw [(hinv.beta_eq i hi).1]
  have : 0 < (colAt A M tol r0 s).beta i := lt_of_lt_of_le (by linarith) (hun i hi)
  exact_mod_cast (ne_of_gt this)

/-- **GMRES is the residual minimiser over `x₀ + K_s(A, r₀)`**: the correction lies in the Krylov space of
the initial residual and no other vector of `x₀ + K_s` has a smaller residual -/
theorem krylov_optimal (htol : 0 < tol) (hr0 : r0 ≠ 0) (hsM : s ≤ M)
    (hun : ∀ i, i < s → tol / 2 ≤ (colAt A M tol r0 s).beta i)
    (hmask : MaskExact false M tol s (colAt A M tol r0 s)) (hsound : SolverSound solve)
    (b x0 : E) (hb : b - A x0 = r0) :
    combine M (colAt A M tol r0 s)
        (coeffs solve false M ((tol : ℝ) : 𝕜) ((‖r0‖ : ℝ) : 𝕜) (colAt A M tol r0 s)) ∈ krylov A r0 s ∧
    ∀ z ∈ krylov A r0 s,
      ‖b - A (x0 + combine M (colAt A M tol r0 s)
        (coeffs solve false M ((tol : ℝ) : 𝕜) ((‖r0‖ : ℝ) : 𝕜) (colAt A M tol r0 s)))‖ ≤ ‖b - A (x0 + z)‖ := by
  have hinv := inv_colAfter A M r0 tol hr0 htol s hsM
  have hspan := colAt_qspan_eq_krylov A M tol r0 htol hr0 s s (le_refl _) hsM hun s (by omega)
  constructor
  · rw [combine_yOf hinv.z0 hmask hsM, ← hspan]
    exact sum_mem_qspan _ _ _
  · intro z hz
    rw [← hspan] at hz
    obtain ⟨y, rfl⟩ := (mem_qspan_iff _ _ _).mp hz
    exact kept_row_minimal (solve := solve) htol hr0 hsM hun hmask
      (solves_of_sound htol hr0 hsM hun hmask hsound) b x0 hb y

/-- **exact solution once the Krylov space is exhausted**, for an injective operator: no assumption on
`H_s` (its regularity follows from `A Q_s = Q_s H_s`) and only the uniform solver contract -/
theorem exact_at_breakdown_sound (htol : 0 < tol) (hr0 : r0 ≠ 0) (hsM : s ≤ M) (hs : 0 < s)
    (hun : ∀ i, i + 1 < s → tol / 2 ≤ (colAt A M tol r0 s).beta i)
    (hbreak : (colAt A M tol r0 s).beta (s - 1) = 0)
    (hmask : MaskExact false M tol s (colAt A M tol r0 s)) (hsound : SolverSound solve)
    (hA : Function.Injective A) (b x0 : E) (hb : b - A x0 = r0) :
    b - A (x0 + combine M (colAt A M tol r0 s)
        (coeffs solve false M ((tol : ℝ) : 𝕜) ((‖r0‖ : ℝ) : 𝕜) (colAt A M tol r0 s))) = 0 := by
  have hinv := inv_colAfter A M r0 tol hr0 htol s hsM
  set c := colAt A M tol r0 s with hc
  have hnc : NoClip tol s c := by
    intro i hi
    by_cases h : i + 1 < s
    · exact Or.inr (hun i h)
    · have : i = s - 1 := by omega
      rw [this]; exact Or.inl hbreak
  have hON := (hinv.orth hun).1
  have hblock : ∀ z : Nat → 𝕜, (∀ r, r < s + 1 → ∑ i ∈ range s, c.h r i * z i = 0) →
      ∀ i, i < s → z i = 0 :=
    block_injective_of_injective hA c.q c.h hON (relation_padded htol hinv hnc)
  -- row `s` of the executed block is zero
  have hrow_s : ∀ i, i < s → c.h s i = 0 := by
    intro i hi
    by_cases h : i + 1 < s
    · exact hinv.hHess i s h
    · have hi' : i = s - 1 := by omega
      have := (hinv.subdiag_nonneg (s - 1)).1
      rw [hbreak, Nat.sub_add_cancel hs] at this
      rw [hi', this]; simp
  have hsq : ∀ z : Nat → 𝕜, (∀ r, r < s → ∑ i ∈ range s, c.h r i * z i = 0) → ∀ i, i < s → z i = 0 := by
    intro z hz
    apply hblock z
    intro r hr
    by_cases hrs : r < s
    · exact hz r hrs
    · have : r = s := by omega
      rw [this]
      apply sum_eq_zero
      intro i hi
      rw [hrow_s i (mem_range.mp hi), zero_mul]
  have hsolve : SolvesSystem M (normalMatrix false M (padding false M ((tol : ℝ) : 𝕜) c) c)
      (normalRhs M c) (solve (normalMatrix false M (padding false M ((tol : ℝ) : 𝕜) c) c) (normalRhs M c)) := by
    apply hsound M _ _ (normalMatrix_size _ _ _ _)
    apply normalMatrix_regular hinv hsM hmask
    intro z hz
    exact hblock z (fun r hr => hz r (by unfold hRows; simp; omega))
  exact exact_at_breakdown (solve := solve) (drop := false) htol hr0 hsM hs hun hbreak hmask hsolve
    (conjTranspose_injective_of_injective s c.h hsq) b x0 hb

end main

end GMRES
