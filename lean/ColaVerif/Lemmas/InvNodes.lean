import ColaVerif.Lemmas.InvWell
import ColaVerif.Lemmas.AnnotSound

/-!
# `inv` succeeds, and the nodes of its result are sound, from conditions on the INPUT (C06)

* `invRule_ok_iff`: `inv(A, alg)` returns an operator (no exception) exactly when the declarations
  the selected rules assert are present (`Declared`: `isa PSD` where Cholesky / CG is requested
  explicitly, `isa Unitary` for a plain `Algorithm` object).
* `invRule_nodes`: `NodesOK E B` (every composite node of the result that REPORTS SelfAdjoint is
  Hermitian) follows from hypotheses on the input: `InvHyp`, `Good A`, `A.RealTyped`, `RecipStar`
  and `ScalarsOK` — at a Product with exactly one non-ScalarMul member the scalars are real
  (`star`-fixed), which excludes the recorded defect `scalar-times-annotated` at input level.
-/

set_option linter.unusedSectionVars false

open Finset

namespace Inv
variable {R : Type} [CommRing R] [StarRing R] [DecidableEq R]

/-! ## windows fixed by transpose-and-map -/

/-- the window of `D` is fixed by "transpose, then apply `φ` entrywise" (`φ = star`: Hermitian;
`φ = id`: symmetric) -/
def FixT (φ : R →+* R) (n : Nat) (D : MatF R) : Prop := ∀ i j, i < n → j < n → D i j = φ (D j i)

omit [StarRing R] [DecidableEq R] in
theorem FixT.congr {φ : R →+* R} {n : Nat} {D D' : MatF R} (h : FixT φ n D) (e : EqOn n n D' D) :
    FixT φ n D' := by
  intro i j hi hj
  rw [e i j hi hj, e j i hj hi]
  exact h i j hi hj

omit [StarRing R] [DecidableEq R] in
theorem fixT_eyeM (φ : R →+* R) (n : Nat) : FixT φ n (eyeM : MatF R) := by
  intro i j _ _
  simp only [eyeM]
  by_cases h : i = j
  · rw [if_pos h, if_pos h.symm, map_one]
  · rw [if_neg h, if_neg (Ne.symm h), map_zero]

omit [StarRing R] [DecidableEq R] in
theorem kronEntry_fixT (φ : R →+* R) :
    ∀ (L : List (FacAct R)) (is js : List Nat), (∀ F ∈ L, F.c = F.r ∧ FixT φ F.r F.a) →
      InB (L.map (·.r)) is → InB (L.map (·.r)) js →
      kronEntry L is js = φ (kronEntry L js is)
  | [], _, _, _, _, _ => by simp [kronEntry]
  | _ :: _, [], _, _, h1, _ => by simp [InB] at h1
  | _ :: _, _ :: _, [], _, _, h2 => by simp [InB] at h2
  | F :: L, i :: is, j :: js, h, h1, h2 => by
    simp only [List.map_cons, InB] at h1 h2
    simp only [kronEntry]
    rw [map_mul, ← (h F List.mem_cons_self).2 i j h1.1 h2.1,
      ← kronEntry_fixT φ L is js (fun G hG => h G (List.mem_cons_of_mem _ hG)) h1.2 h2.2]

omit [StarRing R] [DecidableEq R] in
theorem fixT_kronDen (φ : R →+* R) (L : List (FacAct R))
    (h : ∀ F ∈ L, F.c = F.r ∧ FixT φ F.r F.a) : FixT φ (L.map (·.r)).prod (kronDen L) := by
  have hc : L.map (·.c) = L.map (·.r) := List.map_congr_left (fun F hF => (h F hF).1)
  intro I J hI hJ
  simp only [kronDen]
  rw [hc]
  exact kronEntry_fixT φ L _ _ h (ravel_unravel _ I hI).2 (ravel_unravel _ J hJ).2

omit [StarRing R] [DecidableEq R] in
theorem fixT_blockDiagM (φ : R →+* R) (L : List (Nat × Nat × MatF R))
    (h : ∀ p ∈ L, p.2.1 = p.1 ∧ FixT φ p.1 p.2.2) :
    FixT φ (L.map (·.1)).sum (blockDiagM L) := by
  induction L with
  | nil => intro i j hi _; simp at hi
  | cons p L ih =>
    obtain ⟨r, c, m⟩ := p
    have hp := h (r, c, m) List.mem_cons_self
    simp only at hp
    obtain ⟨rfl, hm⟩ := hp
    have ih' := ih (fun q hq => h q (List.mem_cons_of_mem _ hq))
    intro i j hi hj
    simp only [List.map_cons, List.sum_cons] at hi hj
    simp only [blockDiagM]
    by_cases hi' : i < c <;> by_cases hj' : j < c <;>
      simp only [hi', hj', if_true, if_false, map_zero]
    · exact hm i j hi' hj'
    · exact ih' _ _ (by omega) (by omega)

omit [StarRing R] [DecidableEq R] in
theorem fixT_bdiagDen (φ : R →+* R) (Ms : List (FacAct R × Nat))
    (h : ∀ p ∈ Ms, p.1.c = p.1.r ∧ FixT φ p.1.r p.1.a) :
    FixT φ ((Ms.map (fun p => p.2 * p.1.r)).sum) (bdiagDen Ms) := by
  unfold bdiagDen
  have key := fixT_blockDiagM φ (expandBlocks Ms) (by
    intro q hq
    simp only [expandBlocks, List.mem_flatMap, List.mem_replicate] at hq
    obtain ⟨p, hp, _, rfl⟩ := hq
    exact h p hp)
  rw [expandBlocks_sum_r] at key
  exact key


omit [StarRing R] [DecidableEq R] in
theorem mmul_scal_left (n : Nat) (c : R) (S X : MatF R) (hS : EqOn n n S (diagM fun _ => c)) :
    EqOn n n (mmul n S X) (fun i j => c * X i j) := by
  intro i j hi hj
  rw [mmul_congr hS (EqOn.refl n n X) i j hi hj, mmul_apply, sum_diagM_mul n _ X i j hi]

omit [StarRing R] [DecidableEq R] in
theorem mmul_scal_right (n : Nat) (c : R) (S X : MatF R) (hS : EqOn n n S (diagM fun _ => c)) :
    EqOn n n (mmul n X S) (fun i j => X i j * c) := by
  intro i j hi hj
  rw [mmul_congr (EqOn.refl n n X) hS i j hi hj, mmul_apply, sum_mul_diagM n _ X i j hj]

omit [StarRing R] [DecidableEq R] in
/-- a chain of `n × n` factors in which every factor flagged `true` is a `φ`-fixed multiple of the
identity: without an unflagged factor the chain is such a multiple; with exactly one unflagged,
`φ`-transpose-fixed factor the chain is `φ`-transpose-fixed. -/
theorem chain_fixT (φ : R →+* R) (n : Nat) : ∀ (L : List (Bool × MatF R)),
    (∀ p ∈ L, p.1 = true → ∃ c, φ c = c ∧ EqOn n n p.2 (diagM fun _ => c)) →
    ((L.filter (fun p => !p.1)) = [] →
      ∃ c, φ c = c ∧ EqOn n n (chainM n (L.map (·.2))) (diagM fun _ => c)) ∧
    (∀ q, L.filter (fun p => !p.1) = [q] → FixT φ n q.2 → FixT φ n (chainM n (L.map (·.2))))
  | [], _ => by
    refine ⟨fun _ => ⟨1, map_one φ, ?_⟩, fun q hq => by simp at hq⟩
    intro i j _ _
    simp [chainM, eyeM, diagM]
  | p :: L, h => by
    obtain ⟨ihA, ihB⟩ := chain_fixT φ n L (fun p' hp' => h p' (List.mem_cons_of_mem _ hp'))
    have hch : chainM n ((p :: L).map (·.2)) = mmul n p.2 (chainM n (L.map (·.2))) := rfl
    rw [hch]
    cases hp : p.1 with
    | true =>
      obtain ⟨c, hc, hS⟩ := h p List.mem_cons_self hp
      have hf : (p :: L).filter (fun p => !p.1) = L.filter (fun p => !p.1) := by
        rw [List.filter_cons]; simp [hp]
      rw [hf]
      have hm := mmul_scal_left n c p.2 (chainM n (L.map (·.2))) hS
      refine ⟨fun h0 => ?_, fun q hq hfix => ?_⟩
      · obtain ⟨c', hc', hS'⟩ := ihA h0
        refine ⟨c * c', by rw [map_mul, hc, hc'], ?_⟩
        intro i j hi hj
        rw [hm i j hi hj]
        show c * chainM n (L.map (·.2)) i j = _
        rw [hS' i j hi hj]
        simp only [diagM]
        split <;> simp
      · have := ihB q hq hfix
        intro i j hi hj
        rw [hm i j hi hj, hm j i hj hi]
        show c * chainM n (L.map (·.2)) i j = φ (c * chainM n (L.map (·.2)) j i)
        rw [map_mul, hc, ← this i j hi hj]
    | false =>
      have hf : (p :: L).filter (fun p => !p.1) = p :: L.filter (fun p => !p.1) := by
        rw [List.filter_cons]; simp [hp]
      rw [hf]
      refine ⟨fun h0 => (by cases h0), fun q hq hfix => ?_⟩
      have hq1 : p = q := by injection hq
      have hq2 : L.filter (fun p => !p.1) = [] := by injection hq
      subst hq1
      obtain ⟨c', hc', hS'⟩ := ihA hq2
      have hm := mmul_scal_right n c' _ p.2 hS'
      intro i j hi hj
      rw [hm i j hi hj, hm j i hj hi]
      show p.2 i j * c' = φ (p.2 j i * c')
      rw [map_mul, hc', ← hfix i j hi hj]


/-! ## success of `inv` -/

/-- a condition required at every node of the input at which `invAux` selects a rule that can
fail or that builds a composite: `Palg` at a node that falls to the algorithm rules, `Pprod` at a
`Product` whose members are all square (the class rule), recursively in the members of
Product / Kronecker / BlockDiag -/
def AtRules (Palg : Op R → Prop) (Pprod : List (Op R) → Prop) (top : Op R) : Op R → Prop
  | .annot _ A => AtRules Palg Pprod top A
  | .eye _ _ => True
  | .scalar _ _ _ => True
  | .perm _ _ => True
  | .prod Ms =>
      if allSquare Ms then Pprod Ms ∧ ∀ M ∈ Ms, AtRules Palg Pprod M M else Palg top
  | .bdiag Ms _ => ∀ M ∈ Ms, AtRules Palg Pprod M M
  | .kron Ms => ∀ M ∈ Ms, AtRules Palg Pprod M M
  | .diag _ _ _ => True
  | .tri _ _ _ _ _ => True
  | .dense .. => Palg top
  | .sparse .. => Palg top
  | .sum _ => Palg top
  | .kronsum _ => Palg top
  | .tridiag .. => Palg top
  | .transpose _ => Palg top
  | .adjoint _ => Palg top
  | .sliced .. => Palg top
  | .concat .. => Palg top
  | .house .. => Palg top
  | .generic _ => Palg top

/-- what the selected algorithm rule asserts about the declarations of the operator: Cholesky
and CG `assert A.isa(PSD)`; the rule for a plain `Algorithm` object is conditional on
`A.isa(Unitary)`.  (Under `Auto` the table only selects Cholesky / CG for a declared-PSD
operator, so the condition is then automatic: `algDeclared_auto`.) -/
def AlgDeclared (alg : Alg) (A : Op R) : Prop :=
  match effAlg alg (A.isa .psd) (A.rows * A.cols) with
  | .cg _ => A.isa .psd = true
  | .chol => A.isa .psd = true
  | .other => A.isa .unitary = true
  | _ => True

/-- **input-level success condition of `inv(A, alg)`** -/
def Declared (alg : Alg) (A : Op R) : Prop := AtRules (AlgDeclared alg) (fun _ => True) A A

theorem effAlg_ne_auto (alg : Alg) (isPSD : Bool) (n : Nat) (d : Opts) :
    effAlg alg isPSD n ≠ .auto d := by
  unfold effAlg autoChoice
  cases alg <;> simp
  split <;> simp

theorem algDeclared_auto (d : Opts) (A : Op R) : AlgDeclared (.auto d) A := by
  unfold AlgDeclared effAlg autoChoice
  cases h : A.isa .psd <;> by_cases h2 : A.rows * A.cols ≤ 1000000 <;> simp [h2]

theorem algRule_ok_iff (E : Ext R) (alg : Alg) (A : Op R) :
    (∃ B, algRule E alg A = .ok B) ↔ AlgDeclared alg A := by
  unfold algRule AlgDeclared
  have hne := effAlg_ne_auto alg (A.isa .psd) (A.rows * A.cols)
  generalize effAlg alg (A.isa .psd) (A.rows * A.cols) = ea at hne
  cases ea with
  | auto d => exact absurd rfl (hne d)
  | gmres o => simp
  | lu => simp
  | cg o => simp only; split <;> simp_all
  | chol => simp only; split <;> simp_all
  | other => simp only; split <;> simp_all

theorem sequence_total {α β : Type} (f : α → Except String β) : ∀ (Ms : List α),
    (∀ M ∈ Ms, ∃ B, f M = .ok B) → ∃ l, sequence (Ms.map f) = .ok l
  | [], _ => ⟨[], rfl⟩
  | M :: Ms, h => by
    obtain ⟨B, hB⟩ := h M List.mem_cons_self
    obtain ⟨l, hl⟩ := sequence_total f Ms (fun M' hM' => h M' (List.mem_cons_of_mem _ hM'))
    exact ⟨B :: l, by simp only [List.map_cons, hB, sequence, hl, Except.map]⟩

theorem sequence_ok_mem {α β : Type} (f : α → Except String β) (Ms : List α) (l : List β)
    (h : sequence (Ms.map f) = .ok l) : ∀ M ∈ Ms, ∃ B, f M = .ok B := by
  have hf := sequence_ok f Ms l h
  intro M hM
  induction hf with
  | nil => cases hM
  | cons hd _ ih =>
    rcases List.mem_cons.mp hM with rfl | hM
    · exact ⟨_, hd⟩
    · exact ih (by
        simp only [List.map_cons] at h
        rw [hd] at h
        simp only [sequence] at h
        cases hs : sequence (List.map f _) with
        | error e => rw [hs] at h; simp [Except.map] at h
        | ok l' => rw [hs] at h; simp only [Except.map] at h; cases h; rfl) hM

theorem map_ok_iff {α β : Type} (g : α → β) (x : Except String α) :
    (∃ B, x.map g = .ok B) ↔ ∃ l, x = .ok l := by
  cases x with
  | error e => simp [Except.map]
  | ok a => simp [Except.map]

theorem invAux_ok_iff (E : Ext R) (alg : Alg) : ∀ (cur top : Op R),
    (∃ B, invAux E alg top cur = .ok B) ↔ AtRules (AlgDeclared alg) (fun _ => True) top cur
  | .annot a A, top => by rw [invAux, AtRules]; exact invAux_ok_iff E alg A top
  | .eye .., top => by rw [invAux, AtRules]; simp
  | .scalar .., top => by rw [invAux, AtRules]; simp
  | .perm .., top => by rw [invAux, AtRules]; simp
  | .diag .., top => by rw [invAux, AtRules]; simp
  | .tri .., top => by rw [invAux, AtRules]; simp
  | .prod Ms, top => by
    rw [invAux, AtRules]
    by_cases hsq : allSquare Ms = true
    · rw [if_pos hsq, if_pos hsq, map_ok_iff]
      constructor
      · rintro ⟨l, hl⟩
        refine ⟨trivial, fun M hM => ?_⟩
        exact (invAux_ok_iff E alg M M).mp (sequence_ok_mem _ Ms l hl M hM)
      · rintro ⟨_, h⟩
        exact sequence_total _ Ms (fun M hM => (invAux_ok_iff E alg M M).mpr (h M hM))
    · rw [if_neg hsq, if_neg hsq]; exact algRule_ok_iff E alg top
  | .kron Ms, top => by
    rw [invAux, AtRules, map_ok_iff]
    constructor
    · rintro ⟨l, hl⟩ M hM
      exact (invAux_ok_iff E alg M M).mp (sequence_ok_mem _ Ms l hl M hM)
    · intro h
      exact sequence_total _ Ms (fun M hM => (invAux_ok_iff E alg M M).mpr (h M hM))
  | .bdiag Ms mults, top => by
    rw [invAux, AtRules, map_ok_iff]
    constructor
    · rintro ⟨l, hl⟩ M hM
      exact (invAux_ok_iff E alg M M).mp (sequence_ok_mem _ Ms l hl M hM)
    · intro h
      exact sequence_total _ Ms (fun M hM => (invAux_ok_iff E alg M M).mpr (h M hM))
  | .dense .., top => by rw [invAux, AtRules]; exact algRule_ok_iff E alg top
  | .sparse .., top => by rw [invAux, AtRules]; exact algRule_ok_iff E alg top
  | .sum _, top => by rw [invAux, AtRules]; exact algRule_ok_iff E alg top
  | .kronsum _, top => by rw [invAux, AtRules]; exact algRule_ok_iff E alg top
  | .tridiag .., top => by rw [invAux, AtRules]; exact algRule_ok_iff E alg top
  | .transpose _, top => by rw [invAux, AtRules]; exact algRule_ok_iff E alg top
  | .adjoint _, top => by rw [invAux, AtRules]; exact algRule_ok_iff E alg top
  | .sliced .., top => by rw [invAux, AtRules]; exact algRule_ok_iff E alg top
  | .concat .., top => by rw [invAux, AtRules]; exact algRule_ok_iff E alg top
  | .house .., top => by rw [invAux, AtRules]; exact algRule_ok_iff E alg top
  | .generic _, top => by rw [invAux, AtRules]; exact algRule_ok_iff E alg top
termination_by cur => sizeOf cur
decreasing_by
  all_goals simp_wf
  all_goals first
    | omega
    | (have := List.sizeOf_lt_of_mem hM; omega)

/-- **`inv(A, alg)` succeeds exactly when the declarations the selected rules assert are
present** -/
theorem invRule_ok_iff (E : Ext R) (alg : Alg) (A : Op R) :
    (∃ B, invRule E alg A = .ok B) ↔ Declared alg A := invAux_ok_iff E alg A A


/-! ## the nodes of the result -/

/-- `B` is square and its window is `φ`-transpose-fixed -/
def FixI (φ : R →+* R) (E : Ext R) (B : InvOp R) : Prop :=
  B.rows = B.cols ∧ FixT φ B.rows (B.den E).f

theorem nodeHypI_of_fix (E : Ext R) (B : InvOp R)
    (h1 : B.isa .selfAdjoint = true → FixI (starRingEnd R) E B)
    (h2 : B.isa .selfAdjoint = true → B.dtype.isComplex = false → FixI (RingHom.id R) E B) :
    NodeHypI E B := by
  constructor
  · intro hs
    obtain ⟨hsq, hf⟩ := h1 hs
    exact ⟨hsq, fun i j hi hj => by rw [hf i j hi hj]; rfl⟩
  · intro hs
    simp only [Bool.and_eq_true, Bool.not_eq_true'] at hs
    obtain ⟨hsq, hf⟩ := h2 hs.1 hs.2
    intro i j hi hj
    rw [hf i j (by rw [hsq]; exact hi) hj]
    rfl

theorem NodeHypI.fixStar {E : Ext R} {B : InvOp R} (h : NodeHypI E B)
    (hs : B.isa .selfAdjoint = true) : FixI (starRingEnd R) E B := by
  obtain ⟨hsq, hf⟩ := h.1 hs
  exact ⟨hsq, fun i j hi hj => by rw [hf i j hi hj]; rfl⟩

theorem NodeHypI.fixId {E : Ext R} {B : InvOp R} (h : NodeHypI E B)
    (hs : B.isa .selfAdjoint = true) (hd : B.dtype.isComplex = false) :
    FixI (RingHom.id R) E B := by
  obtain ⟨hsq, _⟩ := h.1 hs
  have := h.2 (by simp [hs, hd])
  exact ⟨hsq, fun i j hi hj => by rw [this i j (by rw [← hsq]; exact hi) hj]; rfl⟩

theorem nodeHypI_of_not_sa (E : Ext R) (B : InvOp R) (h : B.isa .selfAdjoint = false) :
    NodeHypI E B := by
  constructor
  · intro hs; rw [h] at hs; cases hs
  · intro hs; rw [h] at hs; simp at hs

omit [CommRing R] [StarRing R] in
theorem isa_interAll_mem {α : Type} (l : List α) (f : α → AnnSet) (a : Ann)
    (h : AnnSet.isa (AnnSet.interAll (l.map f)) a = true) : ∀ B ∈ l, AnnSet.isa (f B) a = true := by
  intro B hB
  simp only [AnnSet.isa, List.any_eq_true] at h ⊢
  obtain ⟨x, hx, hxa⟩ := h
  exact ⟨x, AnnSet.mem_interAll_map hx B hB, hxa⟩

theorem fixI_kron (φ : R →+* R) (E : Ext R) (l : List (InvOp R)) (h : ∀ B ∈ l, FixI φ E B) :
    FixI φ E (.kron l) := by
  have hrc : l.map (·.cols) = l.map (·.rows) := List.map_congr_left (fun B hB => (h B hB).1.symm)
  refine ⟨by simp only [InvOp.rows, InvOp.cols, hrc], ?_⟩
  rw [InvOp.den]
  simp only [InvOp.rows, forceV_f]
  have key := fixT_kronDen φ
    (l.map (fun M => (⟨M.rows, M.cols, (M.den E).f, fun _ m => MatV.of m⟩ : FacAct R))) (by
      intro F hF
      obtain ⟨B, hB, rfl⟩ := List.mem_map.mp hF
      exact ⟨(h B hB).1.symm, (h B hB).2⟩)
  simp only [List.map_map, Function.comp_def] at key
  exact key

theorem fixI_bdiag (φ : R →+* R) (E : Ext R) (l : List (InvOp R)) (mults : List Nat)
    (h : ∀ B ∈ l, FixI φ E B) : FixI φ E (.bdiag l mults) := by
  have hrc : l.map (·.cols) = l.map (·.rows) := List.map_congr_left (fun B hB => (h B hB).1.symm)
  refine ⟨by simp only [InvOp.rows, InvOp.cols, hrc], ?_⟩
  rw [InvOp.den]
  simp only [InvOp.rows, forceV_f]
  have key := fixT_bdiagDen φ
    ((l.map (fun M => (⟨M.rows, M.cols, (M.den E).f, fun _ m => MatV.of m⟩ : FacAct R))).zip mults) (by
      intro p hp
      have hp1 := (List.of_mem_zip hp).1
      obtain ⟨B, hB, hBe⟩ := List.mem_map.mp hp1
      rw [← hBe]
      exact ⟨(h B hB).1.symm, (h B hB).2⟩)
  have r2 := dotSum_rows (R := R) (fun M : InvOp R => (⟨M.rows, M.cols, (M.den E).f, fun _ m => MatV.of m⟩ : FacAct R)) l mults
  simp only at r2
  rw [← r2] at key
  exact key

theorem fixI_prod (φ : R →+* R) (E : Ext R) (n : Nat) (Ms : List (InvOp R)) (hne : Ms ≠ [])
    (hsh : ∀ M ∈ Ms, M.rows = n ∧ M.cols = n)
    (hsc : ∀ M ∈ Ms, M.isScalarMul = true →
      ∃ c, φ c = c ∧ EqOn n n (M.den E).f (diagM fun _ => c))
    (p : InvOp R) (hp : Ms.filter (fun M => !M.isScalarMul) = [p]) (hfix : FixT φ n (p.den E).f) :
    FixI φ E (.prod Ms) := by
  have hr : (InvOp.prod Ms).rows = n := by
    simp only [InvOp.rows]
    exact head_getD_of_all _ n Ms hne (fun M hM => (hsh M hM).1)
  have hc : (InvOp.prod Ms).cols = n := by
    simp only [InvOp.cols]
    exact getLast_getD_of_all _ n Ms hne (fun M hM => (hsh M hM).2)
  refine ⟨by rw [hr, hc], ?_⟩
  rw [hr, InvOp.den]
  simp only [forceV_f]
  rw [foldr_chain n (fun B : InvOp R => B.cols) (fun B => (B.den E).f) Ms (fun B hB => (hsh B hB).2)]
  have key := (chain_fixT φ n (Ms.map (fun M => (M.isScalarMul, (M.den E).f))) (by
    intro q hq hq1
    obtain ⟨M, hM, rfl⟩ := List.mem_map.mp hq
    exact hsc M hM hq1)).2 (p.isScalarMul, (p.den E).f) (by
      rw [List.filter_map]
      have : ((fun p : Bool × MatF R => !p.1) ∘ fun M : InvOp R => (M.isScalarMul, (M.den E).f))
          = fun M => !M.isScalarMul := rfl
      rw [this, hp]
      rfl) hfix
  simp only [List.map_map, Function.comp_def] at key
  exact key

omit [CommRing R] [StarRing R] in
theorem isa_inter_us (s : AnnSet) : AnnSet.isa (AnnSet.inter s [.unitary, .stiefel]) .selfAdjoint = false := by
  rw [Bool.eq_false_iff]
  intro h
  simp only [AnnSet.isa, List.any_eq_true] at h
  obtain ⟨x, hx, hxa⟩ := h
  rw [AnnSet.mem_inter] at hx
  have := hx.2
  simp only [List.mem_cons, List.not_mem_nil, or_false] at this
  rcases this with rfl | rfl <;> simp [Ann.sub] at hxa

omit [CommRing R] [StarRing R] in
theorem prod_isa_sa (Ms : List (InvOp R)) (h : (InvOp.prod Ms).isa .selfAdjoint = true) :
    ∃ p, Ms.filter (fun M => !M.isScalarMul) = [p] ∧ p.isa .selfAdjoint = true := by
  simp only [InvOp.isa, InvOp.anns] at h
  rw [Op.zip_map_filter (fun M : InvOp R => M.anns) (fun M => !M.isScalarMul) Ms] at h
  cases hf : Ms.filter (fun M => !M.isScalarMul) with
  | nil => rw [hf] at h; simp only [List.map_nil] at h; rw [isa_inter_us] at h; cases h
  | cons p rest =>
    cases rest with
    | nil =>
      rw [hf] at h
      simp only [List.map_cons, List.map_nil] at h
      exact ⟨p, rfl, h⟩
    | cons q rest =>
      rw [hf] at h
      simp only [List.map_cons] at h
      rw [isa_inter_us] at h; cases h


/-! ## input-level condition for the nodes -/

/-- at a Product inverted member-wise: if exactly one member is not a `ScalarMul`, the scalars of
the `ScalarMul` members are real (`star`-fixed).  (The result `Product` then inherits the
annotations of the inverse of that one member — recorded defect `scalar-times-annotated` — and a
non-real scalar would make a reported SelfAdjoint false.) -/
def ProdScalarsReal (Ms : List (Op R)) : Prop :=
  (Ms.filter (fun M => !M.isScalarMul)).length = 1 →
    ∀ M ∈ Ms, ∀ dt s k, M.core = .scalar dt s k → star s = s

/-- at a node handled by the conditional Unitary rule (plain `Algorithm` object): the adjoint the
rule returns is not itself a `ScalarMul` -/
def AlgNoScalar (alg : Alg) (A : Op R) : Prop :=
  effAlg alg (A.isa .psd) (A.rows * A.cols) = .other → A.adjointRule.isScalarMul = false

/-- **input-level condition under which every node of `inv(A, alg)` that reports SelfAdjoint is
Hermitian** -/
def ScalarsOK (alg : Alg) (A : Op R) : Prop := AtRules (AlgNoScalar alg) ProdScalarsReal A A

/-- what the recursion carries for the result `B` of the input node `top` -/
structure NodeRes (E : Ext R) (top : Op R) (B : InvOp R) : Prop where
  hyp : NodeHypI E B
  nodes : NodesOK E B
  scal : B.isScalarMul = top.isScalarMul
  sden : B.isScalarMul = true → ∃ dt s k, top.core = .scalar dt s k ∧
    EqOn B.rows B.rows (B.den E).f (diagM fun _ => E.recip s)

theorem nodeRes_plain (E : Ext R) (top : Op R) (B : InvOp R) (ha : B.anns = [])
    (hn : NodesOK E B) (hb : B.isScalarMul = false) (ht : top.isScalarMul = false) :
    NodeRes E top B :=
  ⟨nodeHypI_of_no_anns E B ha, hn, by rw [hb, ht], fun h => by rw [hb] at h; cases h⟩

theorem algRule_nodes (E : Ext R) (alg : Alg) (A : Op R) (h : AlgHyp E alg A)
    (hns : AlgNoScalar alg A) (ht : A.isScalarMul = false) (B : InvOp R)
    (hB : algRule E alg A = .ok B) : NodeRes E A B := by
  obtain ⟨hsq, hg, hc⟩ := h
  unfold algRule at hB
  unfold AlgNoScalar at hns
  generalize hea : effAlg alg (A.isa .psd) (A.rows * A.cols) = ea at hB hc hns
  cases ea with
  | auto => exact absurd hc id
  | gmres =>
    simp only at hB
    cases hB
    exact nodeRes_plain E A _ (by simp [InvOp.anns]) (by simp [NodesOK]) (by simp [InvOp.isScalarMul]) ht
  | cg =>
    simp only at hB
    split at hB
    · cases hB
      exact nodeRes_plain E A _ (by simp [InvOp.anns]) (by simp [NodesOK]) (by simp [InvOp.isScalarMul]) ht
    · cases hB
  | lu =>
    simp only at hB
    cases hB
    have ha : (InvOp.prod [InvOp.triInv A.dtype A.rows false (E.lu A.rows A.td.f).2.2.f,
        InvOp.triInv A.dtype A.rows true (E.lu A.rows A.td.f).2.1.f,
        InvOp.op (Op.perm DType.f32 (argsort (E.lu A.rows A.td.f).1))]).anns = [] := by
      simp [InvOp.anns, InvOp.isScalarMul, Op.isScalarMul, Op.core, AnnSet.interAll, AnnSet.inter]
    refine nodeRes_plain E A _ ha ?_ (by simp [InvOp.isScalarMul]) ht
    rw [NodesOK]
    exact ⟨nodeHypI_of_no_anns E _ ha, by simp [NodesOK]⟩
  | chol =>
    simp only at hB
    split at hB
    · cases hB
      have ha : (InvOp.prod [InvOp.triInv A.dtype A.rows false (conjM (transposeM (E.chol A.rows A.td.f).f)),
          InvOp.triInv A.dtype A.rows true (E.chol A.rows A.td.f).f]).anns = [] := by
        simp [InvOp.anns, InvOp.isScalarMul, AnnSet.interAll, AnnSet.inter]
      refine nodeRes_plain E A _ ha ?_ (by simp [InvOp.isScalarMul]) ht
      rw [NodesOK]
      exact ⟨nodeHypI_of_no_anns E _ ha, by simp [NodesOK]⟩
    · cases hB
  | other =>
    simp only at hB hc
    split at hB
    · cases hB
      obtain ⟨_, hreal⟩ := hc
      have sp := Op.adjointRule_spec A hg hreal
      have hsa' : (InvOp.op (Op.annot .unitary A.adjointRule)).isa .selfAdjoint = true →
          A.adjointRule.isa .selfAdjoint = true := by
        intro hsa
        simp only [InvOp.isa, InvOp.anns, Op.isa, Op.anns, AnnSet.isa, AnnSet.union, List.any_append,
          Bool.or_eq_true, List.any_eq_true] at hsa ⊢
        rcases hsa with hsa | ⟨x, hx, hxs⟩
        · exact hsa
        · simp only [List.mem_filter, List.mem_singleton] at hx
          rw [hx.1] at hxs
          simp [Ann.sub] at hxs
      have hden : (InvOp.den E (InvOp.op (Op.annot .unitary A.adjointRule))) = A.adjointRule.den := by
        rw [InvOp.den]; simp only [Op.den]
      have hherm : (InvOp.op (Op.annot .unitary A.adjointRule)).isa .selfAdjoint = true →
          FixI (starRingEnd R) E (InvOp.op (Op.annot .unitary A.adjointRule)) := by
        intro hsa
        obtain ⟨h1, h2⟩ := sp.herm.node (hsa' hsa)
        refine ⟨by simp only [InvOp.rows, InvOp.cols, Op.rows, Op.cols]; exact h1, ?_⟩
        rw [hden]
        simp only [InvOp.rows, Op.rows]
        intro i j hi hj
        rw [h2 i j hi hj]; rfl
      refine ⟨nodeHypI_of_fix E _ hherm ?_, by simp [NodesOK], ?_, ?_⟩
      · intro hsa hd
        obtain ⟨h1, h2⟩ := hherm hsa
        refine ⟨h1, ?_⟩
        rw [hden] at h2 ⊢
        simp only [InvOp.rows, InvOp.cols, Op.rows, Op.cols] at h1 h2 ⊢
        simp only [InvOp.dtype, Op.dtype] at hd
        have hsf := Op.den_star_fixed A.adjointRule sp.real sp.wf (by rw [hd]; simp)
        intro i j hi hj
        rw [h2 i j hi hj]
        show (starRingEnd R) (A.adjointRule.den.f j i) = A.adjointRule.den.f j i
        rw [starRingEnd_apply]
        exact hsf j i hj (by rw [← h1]; exact hi)
      · have := hns rfl
        simp only [InvOp.isScalarMul]
        rw [ht]
        simp only [Op.isScalarMul, Op.core] at this ⊢
        exact this
      · intro hs
        have := hns rfl
        simp only [InvOp.isScalarMul, Op.isScalarMul, Op.core] at hs this
        rw [this] at hs
        cases hs
    · cases hB

omit [CommRing R] [StarRing R] in
theorem isScalarMul_of_core {top cur : Op R} (hcore : top.core = cur.core) :
    top.isScalarMul = cur.isScalarMul := by
  simp only [Op.isScalarMul, hcore]

theorem forall₂_filter_length {α β : Type} (p : α → Bool) (q : β → Bool) {L : List α} {L' : List β}
    (h : List.Forall₂ (fun a b => q b = p a) L L') :
    (L'.filter q).length = (L.filter p).length := by
  induction h with
  | nil => rfl
  | cons hd _ ih =>
    rw [List.filter_cons, List.filter_cons, hd]
    split <;> simp [ih]

theorem invAux_nodes (E : Ext R) (alg : Alg) (hstar : RecipStar E) : ∀ (cur top : Op R),
    Side top cur → top.core = cur.core → HypAux E alg top cur →
    AtRules (AlgNoScalar alg) ProdScalarsReal top cur → ∀ B, invAux E alg top cur = .ok B →
    NodeRes E top B
  | .annot a A, top, hs, hcore, hh, hsc, B, hB => by
    rw [invAux] at hB
    rw [HypAux] at hh
    rw [AtRules] at hsc
    exact invAux_nodes E alg hstar A top hs.annot (by rw [hcore, Op.core]) hh hsc B hB
  | .eye dt n, top, hs, hcore, _, _, B, hB => by
    rw [invAux] at hB
    cases hB
    have htop : top.isScalarMul = false := by
      rw [isScalarMul_of_core hcore]; simp [Op.isScalarMul, Op.core]
    have hr := hs.same.rows
    have hc := hs.same.cols
    have hd := hs.same.den
    simp only [Op.rows] at hr
    simp only [Op.cols] at hc
    simp only [Op.den] at hd
    have hfix : ∀ φ : R →+* R, FixI φ E (.op top) := by
      intro φ
      refine ⟨by simp only [InvOp.rows, InvOp.cols]; rw [← hr, ← hc], ?_⟩
      rw [InvOp.den, ← hd, MatV.of_f]
      exact fixT_eyeM φ _
    exact ⟨nodeHypI_of_fix E _ (fun _ => hfix _) (fun _ _ => hfix _), by simp [NodesOK],
      by simp only [InvOp.isScalarMul], fun h => by simp only [InvOp.isScalarMul] at h; rw [htop] at h; cases h⟩
  | .scalar dt s n, top, hs, hcore, _, _, B, hB => by
    rw [invAux] at hB
    cases hB
    have htop : top.isScalarMul = true := by
      rw [isScalarMul_of_core hcore]; simp [Op.isScalarMul, Op.core]
    refine ⟨nodeHypI_of_no_anns E _ (by simp [InvOp.anns, Op.anns]), by simp [NodesOK], ?_, ?_⟩
    · simp only [InvOp.isScalarMul]; rw [htop]; simp [Op.isScalarMul, Op.core]
    · intro _
      refine ⟨dt, s, n, by rw [hcore]; rfl, ?_⟩
      rw [InvOp.den, den_scalar_eq]
      exact EqOn.refl _ _ _
  | .perm dt p, top, hs, hcore, _, _, B, hB => by
    rw [invAux] at hB
    cases hB
    have htop : top.isScalarMul = false := by
      rw [isScalarMul_of_core hcore]; simp [Op.isScalarMul, Op.core]
    refine ⟨nodeHypI_of_not_sa E _ (by simp [InvOp.isa, InvOp.anns, Op.anns, AnnSet.isa, Ann.sub]),
      by simp [NodesOK], ?_, ?_⟩
    · simp only [InvOp.isScalarMul]; rw [htop]; simp [Op.isScalarMul, Op.core]
    · intro h; simp [InvOp.isScalarMul, Op.isScalarMul, Op.core] at h
  | .diag dt n d, top, hs, hcore, _, _, B, hB => by
    rw [invAux] at hB
    cases hB
    have htop : top.isScalarMul = false := by
      rw [isScalarMul_of_core hcore]; simp [Op.isScalarMul, Op.core]
    exact nodeRes_plain E top _ (by simp [InvOp.anns, Op.anns]) (by simp [NodesOK])
      (by simp [InvOp.isScalarMul, Op.isScalarMul, Op.core]) htop
  | .tri dt r c lower a, top, hs, hcore, _, _, B, hB => by
    rw [invAux] at hB
    cases hB
    have htop : top.isScalarMul = false := by
      rw [isScalarMul_of_core hcore]; simp [Op.isScalarMul, Op.core]
    exact nodeRes_plain E top _ (by simp [InvOp.anns]) (by simp [NodesOK])
      (by simp [InvOp.isScalarMul]) htop
  | .prod Ms, top, hs, hcore, hh, hsc, B, hB => by
    have htop : top.isScalarMul = false := by
      rw [isScalarMul_of_core hcore]; simp [Op.isScalarMul, Op.core]
    rw [invAux] at hB
    rw [HypAux] at hh
    rw [AtRules] at hsc
    by_cases hsq : allSquare Ms = true
    · rw [if_pos hsq] at hB hh hsc
      obtain ⟨hne, hch, hmem⟩ := hh
      obtain ⟨hreal, hscm⟩ := hsc
      cases hseq : sequence (Ms.map (fun M => invAux E alg M M)) with
      | error e => rw [hseq] at hB; simp [Except.map] at hB
      | ok l =>
        rw [hseq] at hB
        simp only [Except.map] at hB
        cases hB
        have hf := forall₂_with_mem (sequence_ok (fun M => invAux E alg M M) Ms l hseq)
        have hgm := hs.gcur.prod_mem
        have hrm : ∀ M ∈ Ms, M.RealTyped := by
          have := hs.rcur; rw [Op.RealTyped] at this; exact this
        obtain ⟨n, hsh⟩ : ∃ n, ∀ M ∈ Ms, M.rows = n ∧ M.cols = n := by
          cases Ms with
          | nil => exact absurd rfl hne
          | cons M0 Ms' => exact ⟨M0.rows, square_chain Ms' M0 hsq hch⟩
        have hlne : l ≠ [] := by
          intro hl
          rw [hl] at hf
          cases hf
          exact hne rfl
        have hrne : l.reverse ≠ [] := by simpa using hlne
        -- per member: soundness and the node facts
        have hall : List.Forall₂ (fun M B => (IsInverse E M B ∧ NodeRes E M B) ∧ M ∈ Ms) Ms l :=
          List.Forall₂.imp (fun M B (h : invAux E alg M M = .ok B ∧ M ∈ Ms) =>
            ⟨⟨invAux_sound E alg M M (SameMat.refl M) (hmem M h.2) B h.1,
              invAux_nodes E alg hstar M M (Side.refl (hgm M h.2) (hrm M h.2)) rfl (hmem M h.2)
                (hscm M h.2) B h.1⟩, h.2⟩) hf
        have hres : ∀ B ∈ l.reverse, ∃ M ∈ Ms, IsInverse E M B ∧ NodeRes E M B := by
          intro B hB
          obtain ⟨M, hM, hMB⟩ := forall₂_exists_left hall B (List.mem_reverse.mp hB)
          exact ⟨M, hM, hMB.1⟩
        have hrsh : ∀ B ∈ l.reverse, B.rows = n ∧ B.cols = n := by
          intro B hB
          obtain ⟨M, hM, hMB, _⟩ := hres B hB
          exact ⟨by rw [hMB.rows, (hsh M hM).1], by rw [hMB.cols, (hsh M hM).1]⟩
        have hcount : (l.reverse.filter (fun B => !B.isScalarMul)).length
            = (Ms.filter (fun M => !M.isScalarMul)).length := by
          rw [List.filter_reverse, List.length_reverse]
          apply forall₂_filter_length
          exact List.Forall₂.imp (fun M B h => by rw [h.1.2.scal]) hall
        -- the node itself
        have hfixφ : ∀ (φ : R →+* R), (∀ s : R, star s = s → φ (E.recip s) = E.recip s) →
            ∀ p, l.reverse.filter (fun M => !M.isScalarMul) = [p] → FixT φ n (p.den E).f →
            FixI φ E (.prod l.reverse) := by
          intro φ hφ p hp hfix
          have h1 : (Ms.filter (fun M => !M.isScalarMul)).length = 1 := by
            rw [← hcount, hp]; rfl
          refine fixI_prod φ E n l.reverse hrne hrsh ?_ p hp hfix
          intro B hB hBs
          obtain ⟨M, hM, hMB, hN⟩ := hres B hB
          obtain ⟨dt, s, k, hcoreM, hden⟩ := hN.sden hBs
          rw [(hrsh B hB).1] at hden
          exact ⟨E.recip s, hφ s (hreal h1 M hM dt s k hcoreM), hden⟩
        have hnode : NodeHypI E (.prod l.reverse) := by
          apply nodeHypI_of_fix
          · intro hsa
            obtain ⟨p, hp, hpsa⟩ := prod_isa_sa l.reverse hsa
            have hpm : p ∈ l.reverse := by
              have : p ∈ l.reverse.filter (fun M => !M.isScalarMul) := by rw [hp]; simp
              exact (List.mem_filter.mp this).1
            obtain ⟨M, hM, _, hN⟩ := hres p hpm
            have hfx := (hN.hyp.fixStar hpsa).2
            rw [(hrsh p hpm).1] at hfx
            refine hfixφ (starRingEnd R) ?_ p hp hfx
            intro s hs
            rw [starRingEnd_apply, hstar, hs]
          · intro hsa hd
            obtain ⟨p, hp, hpsa⟩ := prod_isa_sa l.reverse hsa
            have hpm : p ∈ l.reverse := by
              have : p ∈ l.reverse.filter (fun M => !M.isScalarMul) := by rw [hp]; simp
              exact (List.mem_filter.mp this).1
            obtain ⟨M, hM, _, hN⟩ := hres p hpm
            simp only [InvOp.dtype] at hd
            have hpd := DType.foldl_promote_real l.reverse (·.dtype) hd p hpm
            have hfx := (hN.hyp.fixId hpsa hpd).2
            rw [(hrsh p hpm).1] at hfx
            exact hfixφ (RingHom.id R) (fun _ _ => rfl) p hp hfx
        refine ⟨hnode, ?_, by simp only [InvOp.isScalarMul]; rw [htop],
          fun h => by simp [InvOp.isScalarMul] at h⟩
        rw [NodesOK]
        refine ⟨hnode, fun B hB => ?_⟩
        obtain ⟨M, _, _, hN⟩ := hres B hB
        exact hN.nodes
    · rw [if_neg hsq] at hB hh hsc
      exact algRule_nodes E alg top hh hsc htop B hB
  | .kron Ms, top, hs, hcore, hh, hsc, B, hB => by
    have htop : top.isScalarMul = false := by
      rw [isScalarMul_of_core hcore]; simp [Op.isScalarMul, Op.core]
    rw [invAux] at hB
    rw [HypAux] at hh
    rw [AtRules] at hsc
    cases hseq : sequence (Ms.map (fun M => invAux E alg M M)) with
    | error e => rw [hseq] at hB; simp [Except.map] at hB
    | ok l =>
      rw [hseq] at hB
      simp only [Except.map] at hB
      cases hB
      have hf := forall₂_with_mem (sequence_ok (fun M => invAux E alg M M) Ms l hseq)
      have hgm := hs.gcur.kron_mem
      have hrm : ∀ M ∈ Ms, M.RealTyped := by
        have := hs.rcur; rw [Op.RealTyped] at this; exact this
      have hres : ∀ B ∈ l, ∃ M ∈ Ms, NodeRes E M B := by
        intro B hB
        obtain ⟨M, hM, hMB⟩ := forall₂_exists_left hf B hB
        exact ⟨M, hM, invAux_nodes E alg hstar M M (Side.refl (hgm M hM) (hrm M hM)) rfl (hh M hM)
          (hsc M hM) B hMB.1⟩
      have hnode : NodeHypI E (.kron l) := by
        apply nodeHypI_of_fix
        · intro hsa
          apply fixI_kron
          intro B hB
          obtain ⟨M, _, hN⟩ := hres B hB
          exact hN.hyp.fixStar (isa_interAll_mem l (·.anns) _ (by simpa [InvOp.isa, InvOp.anns] using hsa) B hB)
        · intro hsa hd
          apply fixI_kron
          intro B hB
          obtain ⟨M, _, hN⟩ := hres B hB
          simp only [InvOp.dtype] at hd
          exact hN.hyp.fixId (isa_interAll_mem l (·.anns) _ (by simpa [InvOp.isa, InvOp.anns] using hsa) B hB)
            (DType.foldl_promote_real l (·.dtype) hd B hB)
      refine ⟨hnode, ?_, by simp only [InvOp.isScalarMul]; rw [htop],
        fun h => by simp [InvOp.isScalarMul] at h⟩
      rw [NodesOK]
      refine ⟨hnode, fun B hB => ?_⟩
      obtain ⟨M, _, hN⟩ := hres B hB
      exact hN.nodes
  | .bdiag Ms mults, top, hs, hcore, hh, hsc, B, hB => by
    have htop : top.isScalarMul = false := by
      rw [isScalarMul_of_core hcore]; simp [Op.isScalarMul, Op.core]
    rw [invAux] at hB
    rw [HypAux] at hh
    rw [AtRules] at hsc
    cases hseq : sequence (Ms.map (fun M => invAux E alg M M)) with
    | error e => rw [hseq] at hB; simp [Except.map] at hB
    | ok l =>
      rw [hseq] at hB
      simp only [Except.map] at hB
      cases hB
      have hf := forall₂_with_mem (sequence_ok (fun M => invAux E alg M M) Ms l hseq)
      have hgm := hs.gcur.bdiag_mem
      have hrm : ∀ M ∈ Ms, M.RealTyped := by
        have := hs.rcur; rw [Op.RealTyped] at this; exact this
      have hres : ∀ B ∈ l, ∃ M ∈ Ms, NodeRes E M B := by
        intro B hB
        obtain ⟨M, hM, hMB⟩ := forall₂_exists_left hf B hB
        exact ⟨M, hM, invAux_nodes E alg hstar M M (Side.refl (hgm M hM) (hrm M hM)) rfl (hh M hM)
          (hsc M hM) B hMB.1⟩
      have hnode : NodeHypI E (.bdiag l mults) := by
        apply nodeHypI_of_fix
        · intro hsa
          apply fixI_bdiag
          intro B hB
          obtain ⟨M, _, hN⟩ := hres B hB
          exact hN.hyp.fixStar (isa_interAll_mem l (·.anns) _ (by simpa [InvOp.isa, InvOp.anns] using hsa) B hB)
        · intro hsa hd
          apply fixI_bdiag
          intro B hB
          obtain ⟨M, _, hN⟩ := hres B hB
          simp only [InvOp.dtype] at hd
          exact hN.hyp.fixId (isa_interAll_mem l (·.anns) _ (by simpa [InvOp.isa, InvOp.anns] using hsa) B hB)
            (DType.foldl_promote_real l (·.dtype) hd B hB)
      refine ⟨hnode, ?_, by simp only [InvOp.isScalarMul]; rw [htop],
        fun h => by simp [InvOp.isScalarMul] at h⟩
      rw [NodesOK]
      refine ⟨hnode, fun B hB => ?_⟩
      obtain ⟨M, _, hN⟩ := hres B hB
      exact hN.nodes
  | .dense .., top, hs, hcore, hh, hsc, B, hB => by
    rw [invAux] at hB; rw [HypAux] at hh; rw [AtRules] at hsc
    exact algRule_nodes E alg top hh hsc (by rw [isScalarMul_of_core hcore]; simp [Op.isScalarMul, Op.core]) B hB
  | .sparse .., top, hs, hcore, hh, hsc, B, hB => by
    rw [invAux] at hB; rw [HypAux] at hh; rw [AtRules] at hsc
    exact algRule_nodes E alg top hh hsc (by rw [isScalarMul_of_core hcore]; simp [Op.isScalarMul, Op.core]) B hB
  | .sum _, top, hs, hcore, hh, hsc, B, hB => by
    rw [invAux] at hB; rw [HypAux] at hh; rw [AtRules] at hsc
    exact algRule_nodes E alg top hh hsc (by rw [isScalarMul_of_core hcore]; simp [Op.isScalarMul, Op.core]) B hB
  | .kronsum _, top, hs, hcore, hh, hsc, B, hB => by
    rw [invAux] at hB; rw [HypAux] at hh; rw [AtRules] at hsc
    exact algRule_nodes E alg top hh hsc (by rw [isScalarMul_of_core hcore]; simp [Op.isScalarMul, Op.core]) B hB
  | .tridiag .., top, hs, hcore, hh, hsc, B, hB => by
    rw [invAux] at hB; rw [HypAux] at hh; rw [AtRules] at hsc
    exact algRule_nodes E alg top hh hsc (by rw [isScalarMul_of_core hcore]; simp [Op.isScalarMul, Op.core]) B hB
  | .transpose _, top, hs, hcore, hh, hsc, B, hB => by
    rw [invAux] at hB; rw [HypAux] at hh; rw [AtRules] at hsc
    exact algRule_nodes E alg top hh hsc (by rw [isScalarMul_of_core hcore]; simp [Op.isScalarMul, Op.core]) B hB
  | .adjoint _, top, hs, hcore, hh, hsc, B, hB => by
    rw [invAux] at hB; rw [HypAux] at hh; rw [AtRules] at hsc
    exact algRule_nodes E alg top hh hsc (by rw [isScalarMul_of_core hcore]; simp [Op.isScalarMul, Op.core]) B hB
  | .sliced .., top, hs, hcore, hh, hsc, B, hB => by
    rw [invAux] at hB; rw [HypAux] at hh; rw [AtRules] at hsc
    exact algRule_nodes E alg top hh hsc (by rw [isScalarMul_of_core hcore]; simp [Op.isScalarMul, Op.core]) B hB
  | .concat .., top, hs, hcore, hh, hsc, B, hB => by
    rw [invAux] at hB; rw [HypAux] at hh; rw [AtRules] at hsc
    exact algRule_nodes E alg top hh hsc (by rw [isScalarMul_of_core hcore]; simp [Op.isScalarMul, Op.core]) B hB
  | .house .., top, hs, hcore, hh, hsc, B, hB => by
    rw [invAux] at hB; rw [HypAux] at hh; rw [AtRules] at hsc
    exact algRule_nodes E alg top hh hsc (by rw [isScalarMul_of_core hcore]; simp [Op.isScalarMul, Op.core]) B hB
  | .generic _, top, hs, hcore, hh, hsc, B, hB => by
    rw [invAux] at hB; rw [HypAux] at hh; rw [AtRules] at hsc
    exact algRule_nodes E alg top hh hsc (by rw [isScalarMul_of_core hcore]; simp [Op.isScalarMul, Op.core]) B hB
termination_by cur => sizeOf cur
decreasing_by
  all_goals simp_wf
  all_goals first
    | omega
    | (have := List.sizeOf_lt_of_mem h.2; omega)
    | (have := List.sizeOf_lt_of_mem hM; omega)

/-- **`NodesOK` of the result from hypotheses on the input** -/
theorem invRule_nodes (E : Ext R) (alg : Alg) (hstar : RecipStar E) (A : Op R) (h : InvHyp E alg A)
    (hg : Op.Good A) (hr : A.RealTyped) (hsc : ScalarsOK alg A) (B : InvOp R)
    (hB : invRule E alg A = .ok B) : NodesOK E B :=
  (invAux_nodes E alg hstar A A (Side.refl hg hr) rfl h hsc B hB).nodes

/-- … hence `WellI` of the result from hypotheses on the input only -/
theorem invRule_well_input (E : Ext R) (alg : Alg) (hstar : RecipStar E) (A : Op R)
    (h : InvHyp E alg A) (hg : Op.Good A) (hr : A.RealTyped) (hsc : ScalarsOK alg A) (B : InvOp R)
    (hB : invRule E alg A = .ok B) : WellI E B :=
  invRule_well E alg hstar A h hg hr B hB (invRule_nodes E alg hstar A h hg hr hsc B hB)

end Inv
