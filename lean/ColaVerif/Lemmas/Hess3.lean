import Mathlib.Analysis.InnerProductSpace.PiL2
import Mathlib.LinearAlgebra.Matrix.ToLin
import ColaVerif.Lemmas.ArnoldiPresent
import ColaVerif.Lemmas.GMRESMask

/-!
# A concrete 3 × 3 non-symmetric system: witnesses for the hypothesis bundles of C13 and C15

`E3 = ℝ³`, `A = [[1,1,0],[2,1,1],[0,3,1]]` (upper Hessenberg, `det = -4`, not symmetric, not normal),
start vector / right-hand side `e₀`, `x₀ = 0`.  By `Arnoldi.colAt_of_presentation` the code model returns
`Q = I`, `H̃ = [[1,1,0],[2,1,1],[0,3,1],[0,0,0]]`: `β₀ = 2`, `β₁ = 3`, `β₂ = 0` (the space is exhausted at step 3).
-/

open scoped InnerProductSpace
open Finset Arnoldi

namespace Hess3

/-- `ℝ³` -/
abbrev E3 := EuclideanSpace ℝ (Fin 3)

noncomputable def bs : OrthonormalBasis (Fin 3) ℝ E3 := EuclideanSpace.basisFun (Fin 3) ℝ

/-- the non-symmetric invertible matrix `[[1,1,0],[2,1,1],[0,3,1]]` (`det = -4`) -/
def mat : Matrix (Fin 3) (Fin 3) ℝ := !![1, 1, 0; 2, 1, 1; 0, 3, 1]

noncomputable def A : E3 →ₗ[ℝ] E3 := Matrix.toLin bs.toBasis bs.toBasis mat

/-- standard basis vectors, `0` beyond -/
noncomputable def e (l : ℕ) : E3 := if h : l < 3 then bs ⟨l, h⟩ else 0

theorem A_bs (j : Fin 3) : A (bs j) = ∑ i : Fin 3, mat i j • bs i := by
  have := Matrix.toLin_self bs.toBasis bs.toBasis mat j
  simpa [A, OrthonormalBasis.coe_toBasis] using this

theorem e0 : e 0 = bs 0 := by simp [e]
theorem e1 : e 1 = bs 1 := by simp [e]
theorem e2 : e 2 = bs 2 := by simp [e]

theorem A_e0 : A (e 0) = (1 : ℝ) • e 0 + (2 : ℝ) • e 1 := by
  rw [e0, e1, A_bs, Fin.sum_univ_three]
  simp [mat]

theorem A_e1 : A (e 1) = (1 : ℝ) • e 0 + (1 : ℝ) • e 1 + (3 : ℝ) • e 2 := by
  rw [e0, e1, e2, A_bs, Fin.sum_univ_three]
  simp [mat]

theorem A_e2 : A (e 2) = (0 : ℝ) • e 0 + (1 : ℝ) • e 1 + (1 : ℝ) • e 2 := by
  rw [e0, e1, e2, A_bs, Fin.sum_univ_three]
  simp [mat]

theorem e_ON : ∀ x, x ≤ 2 → ∀ y, y ≤ 2 → ⟪e x, e y⟫_ℝ = if x = y then 1 else 0 := by
  intro x hx y hy
  have hx3 : x < 3 := by omega
  have hy3 : y < 3 := by omega
  unfold e
  rw [dif_pos hx3, dif_pos hy3]
  have := bs.orthonormal
  rw [orthonormal_iff_ite] at this
  rw [this ⟨x, hx3⟩ ⟨y, hy3⟩]
  simp [Fin.ext_iff]

theorem norm_e0 : ‖e 0‖ = 1 := by
  rw [e0]; exact bs.orthonormal.1 0

/-! ### the Arnoldi run on `mat`, start vector `e₀` -/

/-- entries of `mat` on and above the diagonal, as a function on `ℕ × ℕ` -/
def aH (l i : ℕ) : ℝ := if h : l < 3 ∧ i < 3 then mat ⟨l, h.1⟩ ⟨i, h.2⟩ else 0
/-- the sub-diagonal `2, 3` -/
def bt (i : ℕ) : ℝ := if i = 0 then 2 else 3

theorem e0_ne : e 0 ≠ 0 := by
  intro h; have := norm_e0; rw [h, norm_zero] at this; norm_num at this

variable (M : Nat) (tol : ℝ)

/-- two steps: `q₀, q₁, q₂ = e₀, e₁, e₂`, `H[:, :2] = [[1,1],[2,1],[0,3]]` — for every `0 < tol ≤ 4` -/
theorem colAt2 (hM : 2 ≤ M) (htol : 0 < tol) (htol4 : tol ≤ 4) :
    (∀ l, l ≤ 2 → (colAt A M tol (e 0) 2).q l = e l) ∧
    (∀ i, i < 2 → ∀ l, (colAt A M tol (e 0) 2).h l i =
      if l = i + 1 then bt i else if l < i + 1 then aH l i else 0) := by
  have h := colAt_of_presentation A M tol (e 0) htol e0_ne e aH bt 2 hM
    (by rw [norm_e0]; simp) e_ON
    (by
      intro i hi
      have : i = 0 ∨ i = 1 := by omega
      rcases this with rfl | rfl
      · rw [A_e0]; simp [aH, bt, mat]
      · rw [A_e1]; simp [aH, bt, mat, sum_range_succ])
    (by
      intro i hi
      unfold bt
      split <;> linarith) 2 (le_refl _)
  refine ⟨h.1, fun i hi l => ?_⟩
  have := h.2 i hi l
  simpa using this

theorem beta2 (hM : 2 ≤ M) (htol : 0 < tol) (htol4 : tol ≤ 4) (i : Nat) (hi : i < 2) :
    (colAt A M tol (e 0) 2).beta i = bt i := by
  unfold Col.beta
  rw [(colAt2 M tol hM htol htol4).2 i hi (i + 1), if_pos rfl]
  simp

/-- sub-diagonal of the buffers after any number `1 ≤ J ≤ 3` of steps -/
theorem beta_any (J : Nat) (hJM : J ≤ M) (hM : 2 ≤ M) (htol : 0 < tol) (htol4 : tol ≤ 4) (i : Nat)
    (hi : i < 2) (hiJ : i < J) : (colAt A M tol (e 0) J).beta i = bt i := by
  by_cases hJ2 : J ≤ 2
  · rw [← beta_frozen A M tol (e 0) htol e0_ne J 2 hJ2 hM i hiJ]
    exact beta2 M tol hM htol htol4 i hi
  · rw [beta_frozen A M tol (e 0) htol e0_ne 2 J (by omega) hJM i hi]
    exact beta2 M tol hM htol htol4 i hi

/-- the third step closes the space: `q₃ = 0`, `H[:, 2] = (0, 1, 1, 0)`, `β₂ = 0` -/
theorem colAt3 (hM : 3 ≤ M) (htol : 0 < tol) (htol4 : tol ≤ 4) :
    (colAt A M tol (e 0) 3).q 3 = 0 ∧
    (∀ l, (colAt A M tol (e 0) 3).h l 2 = if l < 3 then aH l 2 else 0) ∧
    (colAt A M tol (e 0) 3).beta 2 = 0 := by
  have h2 := colAt2 M tol (by omega) htol htol4
  have := colAt_succ_of_invariant A M tol (e 0) htol e0_ne e (fun l => aH l 2) 2 hM h2.1 e_ON
    (by rw [A_e2]; simp [aH, mat, sum_range_succ])
  refine ⟨this.1, fun l => ?_, this.2.2⟩
  have := this.2.1 l
  simpa using this

/-- all entries of `H` after three steps -/
theorem h3 (hM : 3 ≤ M) (htol : 0 < tol) (htol4 : tol ≤ 4) (l i : Nat) :
    (colAt A M tol (e 0) 3).h l i =
      if i < 2 then (if l = i + 1 then bt i else if l < i + 1 then aH l i else 0)
      else if i = 2 then (if l < 3 then aH l 2 else 0) else 0 := by
  by_cases hi : i < 2
  · rw [if_pos hi, (colAfter_frozen (A := A) (M := M) (v := e 0) htol e0_ne 2 3 (by omega) hM).2 i hi l]
    exact (colAt2 M tol (by omega) htol htol4).2 i hi l
  · rw [if_neg hi]
    by_cases hi2 : i = 2
    · rw [if_pos hi2, hi2]; exact (colAt3 M tol hM htol htol4).2.1 l
    · rw [if_neg hi2]
      exact (inv_colAfter A M (e 0) tol e0_ne htol 3 hM).hZeroCol i (by omega) l

/-- the loop runs to the cap `min max_iters 3` for every `tol < 1` (`max_iters ≥ 2`) -/
theorem idx_eq_cap (hM : 2 ≤ M) (htol : 0 < tol) (htol1 : tol < 1) :
    (runE A 3 M tol [e 0]).idx = min M 3 := by
  apply run_idx_eq_cap_of_large A M tol (e 0) 3 htol e0_ne
  intro k hk1 hk
  have hk3 : k < 3 := lt_of_lt_of_le hk (min_le_right _ _)
  have hkM : k ≤ M := le_trans (le_of_lt hk) (min_le_left _ _)
  rw [beta_any M tol k hkM hM htol (by linarith) 0 (by omega) (by omega),
    beta_any M tol k hkM hM htol (by linarith) (k - 1) (by omega) (by omega)]
  have : k = 1 ∨ k = 2 := by omega
  rcases this with rfl | rfl <;> simp [bt] <;> linarith

theorem finrank_E3 : Module.finrank ℝ E3 = 3 := by simp

/-! ### hypotheses of the C13 theorems on this system -/

theorem aH_abs_le (l i : ℕ) : ‖aH l i‖ ≤ 3 := by
  unfold aH
  split
  · rename_i h
    obtain ⟨hl, hi⟩ := h
    interval_cases l <;> interval_cases i <;> (simp [mat]; try norm_num)
  · simp

theorem bt_abs_le (i : ℕ) : ‖bt i‖ ≤ 3 := by
  unfold bt; split <;> (simp; try norm_num)

theorem h2_entries (hM : 2 ≤ M) (htol : 0 < tol) (htol4 : tol ≤ 4) (l i : Nat) :
    (colAt A M tol (e 0) 2).h l i =
      if i < 2 then (if l = i + 1 then bt i else if l < i + 1 then aH l i else 0) else 0 := by
  by_cases hi : i < 2
  · rw [if_pos hi]; exact (colAt2 M tol hM htol htol4).2 i hi l
  · rw [if_neg hi]
    exact (inv_colAfter A M (e 0) tol e0_ne htol 2 hM).hZeroCol i (by omega) l

theorem h2_le (hM : 2 ≤ M) (htol : 0 < tol) (htol4 : tol ≤ 4) (l i : Nat) :
    ‖(colAt A M tol (e 0) 2).h l i‖ ≤ 3 := by
  rw [h2_entries M tol hM htol htol4]
  split
  · split
    · exact bt_abs_le i
    · split
      · exact aH_abs_le l i
      · simp
  · simp

theorem h3_le (hM : 3 ≤ M) (htol : 0 < tol) (htol4 : tol ≤ 4) (l i : Nat) :
    ‖(colAt A M tol (e 0) 3).h l i‖ ≤ 3 := by
  rw [h3 M tol hM htol htol4]
  split
  · split
    · exact bt_abs_le i
    · split
      · exact aH_abs_le l i
      · simp
  · split
    · split
      · exact aH_abs_le l 2
      · simp
    · simp

/-- clause `maskExact` holds after two steps (`max_iters = 2`), `tol = 1/100` -/
theorem mask2 : GMRES.MaskExact false 2 (1 / 100) 2 (colAt A 2 (1 / 100) (e 0) 2) := by
  have hinv := inv_colAfter A 2 (e 0) (1 / 100) e0_ne (by norm_num) 2 (le_refl _)
  apply GMRES.maskExact_of_entries hinv (by norm_num) (by norm_num) (le_refl _) 3 (by norm_num)
    (h2_le 2 (1 / 100) (le_refl _) (by norm_num) (by norm_num))
  intro j hj
  refine ⟨j + 1, by omega, ?_⟩
  rw [h2_entries 2 (1 / 100) (le_refl _) (by norm_num) (by norm_num), if_pos hj, if_pos rfl]
  have : j = 0 ∨ j = 1 := by omega
  rcases this with rfl | rfl <;> simp [bt] <;> norm_num

/-- clause `maskExact` holds after three steps (`max_iters = 3 = n`), `tol = 1/100` -/
theorem mask3 : GMRES.MaskExact false 3 (1 / 100) 3 (colAt A 3 (1 / 100) (e 0) 3) := by
  have hinv := inv_colAfter A 3 (e 0) (1 / 100) e0_ne (by norm_num) 3 (le_refl _)
  apply GMRES.maskExact_of_entries hinv (by norm_num) (by norm_num) (le_refl _) 3 (by norm_num)
    (h3_le 3 (1 / 100) (le_refl _) (by norm_num) (by norm_num))
  intro j hj
  have : j = 0 ∨ j = 1 ∨ j = 2 := by omega
  rcases this with rfl | rfl | rfl
  · refine ⟨1, by omega, ?_⟩
    rw [h3 3 (1 / 100) (le_refl _) (by norm_num) (by norm_num)]
    simp [bt]; norm_num
  · refine ⟨2, by omega, ?_⟩
    rw [h3 3 (1 / 100) (le_refl _) (by norm_num) (by norm_num)]
    simp [bt]; norm_num
  · refine ⟨1, by omega, ?_⟩
    rw [h3 3 (1 / 100) (le_refl _) (by norm_num) (by norm_num)]
    simp [aH, mat]; norm_num

/-- the inverse matrix -/
noncomputable def matInv : Matrix (Fin 3) (Fin 3) ℝ :=
  !![1 / 2, 1 / 4, -1 / 4; 1 / 2, -1 / 4, 1 / 4; -3 / 2, 3 / 4, 1 / 4]

theorem matInv_mul : matInv * mat = 1 := by
  ext i j
  fin_cases i <;> fin_cases j <;> simp [matInv, mat, Matrix.mul_apply, Fin.sum_univ_three] <;> norm_num

theorem A_injective : Function.Injective A := by
  have h : (Matrix.toLin bs.toBasis bs.toBasis matInv).comp A = LinearMap.id := by
    unfold A
    rw [← Matrix.toLin_mul, matInv_mul, Matrix.toLin_one]
  intro x y hxy
  have := congrArg (Matrix.toLin bs.toBasis bs.toBasis matInv) hxy
  rw [← LinearMap.comp_apply, ← LinearMap.comp_apply, h] at this
  simpa using this

end Hess3
