import Mathlib.Analysis.RCLike.Basic
import Mathlib.LinearAlgebra.Matrix.ConjTranspose
import Mathlib.Data.Matrix.Mul
import Mathlib.Data.Matrix.Diagonal

/-!
# C16: back-substitution of the Krylov `svd` rules, on Mathlib matrices over `RCLike 𝕜`

`A : m × n`.  Tall branch (`n ≤ m` in the code): `V : n × k` with orthonormal columns and
`Aᴴ A V = V Σ²`, `Σ = diag σ` real with non-zero entries; the code sets `U := A V Σ⁻¹`.  Then
* `backsubU_orthonormal` : `Uᴴ U = 1`;
* `backsubU_reconstruct` : `U Σ Vᴴ = A (V Vᴴ)` — `A` restricted to the selected right singular
  subspace; `backsubU_full` : `= A` when `V Vᴴ = 1` (all triplets, `V` square unitary);
* `backsubU_residual_right`, `backsubU_residual_left` : the remainder `R = A − U Σ Vᴴ` satisfies
  `R V = 0` and `Uᴴ R = 0`: `A = U Σ Vᴴ + R` is an orthogonal splitting, i.e. `U Σ Vᴴ` is the
  truncated SVD on the selected singular triplets and the singular triplets of `R` are the
  remaining ones (that this truncation is the BEST rank-`k` approximation when the selected values
  are the largest is the Eckart–Young theorem, which is not re-proved here);
* `proj_hermitian`, `proj_idempotent` : `V Vᴴ` is an orthogonal projection.
Wide branch (`A Aᴴ U = U Σ²`, `V := (Σ⁻¹ Uᴴ A)ᴴ`): `backsubV_*`, obtained from the tall branch
applied to `Aᴴ`.
-/

open Matrix

namespace Svd

set_option linter.unusedSectionVars false

variable {𝕜 : Type} [RCLike 𝕜]
variable {m n k : Type} [Fintype m] [Fintype n] [Fintype k] [DecidableEq m] [DecidableEq n]
  [DecidableEq k]

/-- a real diagonal matrix with entries in `𝕜` -/
def rdiag (σ : k → ℝ) : Matrix k k 𝕜 := diagonal (fun i => ((σ i : ℝ) : 𝕜))

theorem rdiag_conjTranspose (σ : k → ℝ) : (rdiag σ : Matrix k k 𝕜)ᴴ = rdiag σ := by
  unfold rdiag
  rw [diagonal_conjTranspose]
  congr 1
  funext i
  simp

theorem rdiag_mul_rdiag (σ τ : k → ℝ) :
    (rdiag σ : Matrix k k 𝕜) * rdiag τ = rdiag (fun i => σ i * τ i) := by
  unfold rdiag
  rw [diagonal_mul_diagonal]
  congr 1
  funext i
  push_cast
  rfl

theorem rdiag_one : (rdiag (fun _ => (1 : ℝ)) : Matrix k k 𝕜) = 1 := by
  unfold rdiag
  simp

theorem rdiag_inv_mul (σ : k → ℝ) (hσ : ∀ i, σ i ≠ 0) :
    (rdiag (fun i => (σ i)⁻¹) : Matrix k k 𝕜) * rdiag σ = 1 := by
  rw [rdiag_mul_rdiag]
  have : (fun i => (σ i)⁻¹ * σ i) = fun _ => (1 : ℝ) := by
    funext i
    exact inv_mul_cancel₀ (hσ i)
  rw [this, rdiag_one]

/-- `V Vᴴ` is Hermitian -/
theorem proj_hermitian (V : Matrix n k 𝕜) : (V * Vᴴ)ᴴ = V * Vᴴ := by
  rw [conjTranspose_mul, conjTranspose_conjTranspose]

/-- `V Vᴴ` is idempotent when `V` has orthonormal columns -/
theorem proj_idempotent (V : Matrix n k 𝕜) (hV : Vᴴ * V = 1) : (V * Vᴴ) * (V * Vᴴ) = V * Vᴴ := by
  calc (V * Vᴴ) * (V * Vᴴ) = V * (Vᴴ * V) * Vᴴ := by simp only [Matrix.mul_assoc]
    _ = V * Vᴴ := by rw [hV, Matrix.mul_one]

section tall
variable (A : Matrix m n 𝕜) (V : Matrix n k 𝕜) (σ : k → ℝ)

/-- `U = A V Σ⁻¹` -/
noncomputable def backU : Matrix m k 𝕜 := A * V * rdiag (fun i => (σ i)⁻¹)

theorem backsubU_orthonormal (hV : Vᴴ * V = 1)
    (hG : Aᴴ * A * V = V * rdiag (fun i => σ i ^ 2)) (hσ : ∀ i, σ i ≠ 0) :
    (backU A V σ)ᴴ * backU A V σ = 1 := by
  unfold backU
  rw [conjTranspose_mul, conjTranspose_mul, rdiag_conjTranspose]
  set Di : Matrix k k 𝕜 := rdiag (fun i => (σ i)⁻¹) with hDi
  have e1 : Di * (Vᴴ * Aᴴ) * (A * V * Di) = Di * (Vᴴ * (Aᴴ * A * V)) * Di := by
    simp only [Matrix.mul_assoc]
  have e2 : Vᴴ * (V * rdiag (fun i => σ i ^ 2)) = (rdiag (fun i => σ i ^ 2) : Matrix k k 𝕜) := by
    rw [← Matrix.mul_assoc, hV, Matrix.one_mul]
  rw [e1, hG, e2, hDi, rdiag_mul_rdiag, rdiag_mul_rdiag]
  have : (fun i => (σ i)⁻¹ * σ i ^ 2 * (σ i)⁻¹) = fun _ => (1 : ℝ) := by
    funext i
    have := hσ i
    field_simp
  rw [this, rdiag_one]

theorem backsubU_reconstruct (hσ : ∀ i, σ i ≠ 0) :
    backU A V σ * rdiag σ * Vᴴ = A * (V * Vᴴ) := by
  unfold backU
  have e1 : A * V * rdiag (fun i => (σ i)⁻¹) * rdiag σ * Vᴴ
      = A * V * ((rdiag (fun i => (σ i)⁻¹) : Matrix k k 𝕜) * rdiag σ) * Vᴴ := by
    simp only [Matrix.mul_assoc]
  rw [e1, rdiag_inv_mul σ hσ, Matrix.mul_one, Matrix.mul_assoc]

theorem backsubU_full (hσ : ∀ i, σ i ≠ 0) (hVV : V * Vᴴ = 1) :
    backU A V σ * rdiag σ * Vᴴ = A := by
  rw [backsubU_reconstruct A V σ hσ, hVV, Matrix.mul_one]

/-- the remainder annihilates the selected right singular vectors -/
theorem backsubU_residual_right (hV : Vᴴ * V = 1) (hσ : ∀ i, σ i ≠ 0) :
    (A - backU A V σ * rdiag σ * Vᴴ) * V = 0 := by
  rw [backsubU_reconstruct A V σ hσ, Matrix.sub_mul, Matrix.mul_assoc, Matrix.mul_assoc, hV,
    Matrix.mul_one, sub_self]

/-- the remainder is orthogonal to the selected left singular vectors -/
theorem backsubU_residual_left (hV : Vᴴ * V = 1)
    (hG : Aᴴ * A * V = V * rdiag (fun i => σ i ^ 2)) (hσ : ∀ i, σ i ≠ 0) :
    (backU A V σ)ᴴ * (A - backU A V σ * rdiag σ * Vᴴ) = 0 := by
  rw [backsubU_reconstruct A V σ hσ]
  unfold backU
  rw [conjTranspose_mul, conjTranspose_mul, rdiag_conjTranspose]
  -- Vᴴ Aᴴ A = Σ² Vᴴ
  have hG' : Vᴴ * (Aᴴ * A) = rdiag (fun i => σ i ^ 2) * Vᴴ := by
    have := congrArg conjTranspose hG
    rw [conjTranspose_mul, conjTranspose_mul, conjTranspose_mul, conjTranspose_conjTranspose,
      rdiag_conjTranspose] at this
    exact this
  set Di : Matrix k k 𝕜 := rdiag (fun i => (σ i)⁻¹) with hDi
  have e1 : Di * (Vᴴ * Aᴴ) * (A - A * (V * Vᴴ)) = Di * ((Vᴴ * (Aᴴ * A)) * (1 - V * Vᴴ)) := by
    simp only [Matrix.mul_sub, Matrix.mul_one, Matrix.mul_assoc]
  have e2 : Vᴴ * (1 - V * Vᴴ) = 0 := by
    rw [Matrix.mul_sub, Matrix.mul_one, ← Matrix.mul_assoc, hV, Matrix.one_mul, sub_self]
  rw [e1, hG', Matrix.mul_assoc, e2, Matrix.mul_zero, Matrix.mul_zero]

end tall

section wide
variable (A : Matrix m n 𝕜) (U : Matrix m k 𝕜) (σ : k → ℝ)

/-- `V = (Σ⁻¹ Uᴴ A)ᴴ` -/
noncomputable def backV : Matrix n k 𝕜 := (rdiag (fun i => (σ i)⁻¹) * Uᴴ * A)ᴴ

theorem backV_eq : backV A U σ = backU Aᴴ U σ := by
  unfold backV backU
  rw [conjTranspose_mul, conjTranspose_mul, conjTranspose_conjTranspose, rdiag_conjTranspose,
    Matrix.mul_assoc]

theorem backsubV_orthonormal (hU : Uᴴ * U = 1)
    (hG : A * Aᴴ * U = U * rdiag (fun i => σ i ^ 2)) (hσ : ∀ i, σ i ≠ 0) :
    (backV A U σ)ᴴ * backV A U σ = 1 := by
  rw [backV_eq]
  apply backsubU_orthonormal Aᴴ U σ hU _ hσ
  rw [conjTranspose_conjTranspose]
  exact hG

theorem backsubV_reconstruct (hσ : ∀ i, σ i ≠ 0) :
    U * rdiag σ * (backV A U σ)ᴴ = (U * Uᴴ) * A := by
  have h := backsubU_reconstruct Aᴴ U σ hσ
  have h2 := congrArg conjTranspose h
  rw [conjTranspose_mul, conjTranspose_mul, conjTranspose_conjTranspose, rdiag_conjTranspose,
    conjTranspose_mul, conjTranspose_conjTranspose, proj_hermitian] at h2
  rw [backV_eq, Matrix.mul_assoc]
  exact h2

theorem backsubV_full (hσ : ∀ i, σ i ≠ 0) (hUU : U * Uᴴ = 1) :
    U * rdiag σ * (backV A U σ)ᴴ = A := by
  rw [backsubV_reconstruct A U σ hσ, hUU, Matrix.one_mul]

theorem backsubV_residual_left (hU : Uᴴ * U = 1) (hσ : ∀ i, σ i ≠ 0) :
    Uᴴ * (A - U * rdiag σ * (backV A U σ)ᴴ) = 0 := by
  rw [backsubV_reconstruct A U σ hσ, Matrix.mul_sub, ← Matrix.mul_assoc, ← Matrix.mul_assoc, hU,
    Matrix.one_mul, sub_self]

theorem backsubV_residual_right (hU : Uᴴ * U = 1)
    (hG : A * Aᴴ * U = U * rdiag (fun i => σ i ^ 2)) (hσ : ∀ i, σ i ≠ 0) :
    (A - U * rdiag σ * (backV A U σ)ᴴ) * backV A U σ = 0 := by
  have hG' : Aᴴᴴ * Aᴴ * U = U * rdiag (fun i => σ i ^ 2) := by
    rw [conjTranspose_conjTranspose]; exact hG
  have h := backsubU_residual_left Aᴴ U σ hU hG' hσ
  have h2 := congrArg conjTranspose h
  rw [conjTranspose_mul, conjTranspose_conjTranspose, conjTranspose_sub, conjTranspose_conjTranspose,
    conjTranspose_zero, conjTranspose_mul, conjTranspose_mul, conjTranspose_conjTranspose,
    rdiag_conjTranspose, ← backV_eq, ← Matrix.mul_assoc] at h2
  exact h2

end wide

end Svd
