import Mathlib.LinearAlgebra.Complex.FiniteDimensional
import ColaVerif.Lemmas.ArnoldiPad

/-!
# Concrete witnesses for the clauses of C15

All witnesses live in `E = ℂ` as a real inner product space (`𝕜 = ℝ`, `n = 2`) with the operator
`rot c : z ↦ c · i · z` (the matrix `c·[[0,-1],[1,0]]`), start vector `1`, or in `E = ℝ` (`n = 1`).
The first Arnoldi step is computed symbolically: `q₀ = 1`, `A q₀ = c·i`, `h₀₀ = 0`, `w = c·i`,
`β₀ = |c|`.
-/

open scoped InnerProductSpace
open Finset

namespace Arnoldi

variable {𝕜 E : Type} [RCLike 𝕜] [NormedAddCommGroup E] [InnerProductSpace 𝕜 E]

section onestep
variable (A : E →ₗ[𝕜] E) (M : Nat) (tol : ℝ) (v : E)

/-- the un-normalised vector of the first step -/
noncomputable def w1 : E :=
  A ((((‖v‖ : ℝ) : 𝕜))⁻¹ • v) - ⟪(((‖v‖ : ℝ) : 𝕜))⁻¹ • v, A ((((‖v‖ : ℝ) : 𝕜))⁻¹ • v)⟫_𝕜 • ((((‖v‖ : ℝ) : 𝕜))⁻¹ • v)

theorem stepW_init : stepW A 0 (initCol (α := 𝕜) M v) = w1 A v := by
  unfold stepW w1
  rw [swVec_succ, swCoef, swVec_zero, initCol_q, if_pos rfl]

theorem colAt_one_q (hM : 1 ≤ M) (l : Nat) :
    (colAt A M tol v 1).q l =
      if l = 1 then (((max ‖w1 A v‖ (tol / 2) : ℝ)) : 𝕜)⁻¹ • w1 A v
      else if l = 0 then (((‖v‖ : ℝ) : 𝕜))⁻¹ • v else 0 := by
  show (stepCol (⇑A) ((tol : ℝ) : 𝕜) 0 (initCol (α := 𝕜) M v)).q l = _
  rw [stepCol_q A tol 0 _ (by simp [initCol]; omega), stepW_init, initCol_q]

theorem colAt_one_h (hM : 1 ≤ M) (l i : Nat) :
    (colAt A M tol v 1).h l i =
      if i = 0 then
        (if l = 1 then ((‖w1 A v‖ : ℝ) : 𝕜)
         else if l = 0 then ⟪(((‖v‖ : ℝ) : 𝕜))⁻¹ • v, A ((((‖v‖ : ℝ) : 𝕜))⁻¹ • v)⟫_𝕜 else 0)
      else 0 := by
  show (stepCol (⇑A) ((tol : ℝ) : 𝕜) 0 (initCol (α := 𝕜) M v)).h l i = _
  rw [stepCol_h A tol 0 _ (by simp [initCol]; omega) (by simp [initCol]; omega), stepW_init,
    initCol_h]
  by_cases hi : i = 0
  · rw [if_pos hi, if_pos hi]
    by_cases hl : l = 1
    · rw [if_pos hl, if_pos hl]
    · rw [if_neg hl, if_neg hl]
      by_cases hl0 : l = 0
      · subst hl0
        rw [if_pos (by omega), if_pos rfl, swCoef, swVec_zero, initCol_q, if_pos rfl]
      · rw [if_neg (by omega), if_neg hl0]
  · rw [if_neg hi, if_neg hi]

end onestep

/-! ### the rotation operator on `ℂ ≅ ℝ²` -/

/-- `z ↦ c · i · z`, i.e. the matrix `c·[[0,-1],[1,0]]` -/
noncomputable def rot (c : ℝ) : ℂ →ₗ[ℝ] ℂ := c • (LinearMap.mulLeft ℝ Complex.I : ℂ →ₗ[ℝ] ℂ)

theorem rot_apply (c : ℝ) (z : ℂ) : rot c z = (c : ℂ) * (Complex.I * z) := by
  simp [rot]

theorem w1_rot (c : ℝ) : w1 (𝕜 := ℝ) (rot c) (1 : ℂ) = (c : ℂ) * Complex.I := by
  unfold w1
  simp [rot_apply, Complex.inner]

theorem norm_w1_rot (c : ℝ) (hc : 0 ≤ c) : ‖w1 (𝕜 := ℝ) (rot c) (1 : ℂ)‖ = c := by
  rw [w1_rot]; simp [abs_of_nonneg hc]

/-- sub-diagonal entry of the first step -/
theorem beta0_rot (c : ℝ) (hc : 0 ≤ c) (M : Nat) (hM : 1 ≤ M) (tol : ℝ) :
    (colAt (rot c) M tol (1 : ℂ) 1).beta 0 = c := by
  unfold Col.beta
  rw [colAt_one_h _ _ _ _ hM, if_pos rfl, if_pos rfl, norm_w1_rot c hc]
  simp

/-- the clause `NoClip` is satisfiable non-trivially: the rotation of the plane, start vector `1`,
any `0 < tol ≤ 2`, cap `2`: `β₀ = 1`, `β₁ = 0` (dimension cap) -/
theorem noClip_rot (tol : ℝ) (htol : 0 < tol) (htol2 : tol ≤ 2) (j : Nat) (hj : j ≤ 2) :
    NoClip tol j (colAt (rot 1) 2 tol (1 : ℂ) j) := by
  have hv : (1 : ℂ) ≠ 0 := one_ne_zero
  have hb0 : ∀ j, 1 ≤ j → j ≤ 2 → (colAt (rot 1) 2 tol (1 : ℂ) j).beta 0 = 1 := by
    intro j h1 h2
    obtain ⟨_, f2⟩ := colAfter_frozen (A := rot 1) (M := 2) (v := (1 : ℂ)) htol hv 1 j h1 h2
    unfold Col.beta
    rw [f2 0 (by omega) 1]
    exact beta0_rot 1 (by norm_num) 2 (by norm_num) tol
  intro i hi
  have hi2 : i = 0 ∨ i = 1 := by omega
  rcases hi2 with rfl | rfl
  · right; rw [hb0 j (by omega) hj]; linarith
  · left
    have hj2 : j = 2 := by omega
    subst hj2
    have hinv := inv_colAfter (rot 1) 2 (1 : ℂ) tol hv htol 2 (le_refl _)
    have := hinv.cap_column_zero (n := 2) Complex.finrank_real_complex (by norm_num)
      (fun i hi => by
        have : i = 0 := by omega
        subst this
        rw [hb0 2 (by norm_num) (le_refl _)]; linarith)
    exact this.2

/-- a single start vector takes at least one step -/
theorem run_idx_pos (A : E →ₗ[𝕜] E) (n M : Nat) (hn : 1 ≤ n) (hM : 1 ≤ M) (tol : ℝ) (v : E) :
    0 < (runE A n M tol [v]).idx := by
  obtain ⟨h1, _⟩ := run_stop_exact A n M tol [v]
  obtain ⟨hc, _⟩ := run_spec (⇑A) n M ((tol : ℝ) : 𝕜) [v]
  rcases h1 with h1 | h1
  · rw [h1]; exact lt_min hM hn
  · rw [hc] at h1
    exact Nat.pos_of_ne_zero (h1 _ (List.mem_cons_self)).2

/-- with `tol = 1` a single start vector takes exactly one step (`norm > 1 * H[1,0]` fails
immediately) -/
theorem run_idx_tol_one (A : E →ₗ[𝕜] E) (n M : Nat) (hn : 1 ≤ n) (hM : 1 ≤ M) (v : E) (hv : v ≠ 0) :
    (runE A n M 1 [v]).idx = 1 := by
  have hpos := run_idx_pos A n M hn hM 1 v
  obtain ⟨_, h2⟩ := run_stop_exact A n M 1 [v]
  obtain ⟨_, hle, _⟩ := run_spec (⇑A) n M (((1 : ℝ) : ℝ) : 𝕜) [v]
  by_contra hne
  have h1lt : 1 < (runE A n M 1 [v]).idx := by omega
  rcases h2 1 h1lt with h | ⟨v', hv', hlt⟩
  · omega
  · rw [List.mem_singleton] at hv'
    subst hv'
    have hinv := inv_colAfter A M v' 1 hv (by norm_num) 1 hM
    have hn := hinv.normEq
    rw [if_neg (by omega)] at hn
    rw [one_mul] at hlt
    change RCLike.re ((colAt A M 1 v' 1).h 1 0) < RCLike.re (colAt A M 1 v' 1).norm at hlt
    rw [hn] at hlt
    exact lt_irrefl _ hlt

/-- witness for the clause `noClip`: `A = ¼·rot`, `tol = 1`: `0 < β₀ = ¼ < tol/2`, the first column
of the Arnoldi relation fails -/
theorem noClip_witness :
    0 < (runE (rot (1 / 4)) 2 2 1 [(1 : ℂ)]).idx ∧
    (rot (1 / 4)) ((colAt (rot (1 / 4)) 2 1 (1 : ℂ)
        (runE (rot (1 / 4)) 2 2 1 [(1 : ℂ)]).idx).q 0) ≠
      ∑ l ∈ range 2, (colAt (rot (1 / 4)) 2 1 (1 : ℂ)
          (runE (rot (1 / 4)) 2 2 1 [(1 : ℂ)]).idx).h l 0 •
        (colAt (rot (1 / 4)) 2 1 (1 : ℂ)
          (runE (rot (1 / 4)) 2 2 1 [(1 : ℂ)]).idx).q l := by
  have hv : (1 : ℂ) ≠ 0 := one_ne_zero
  have hpos := run_idx_pos (rot (1 / 4)) 2 2 (by norm_num) (by norm_num) 1 (1 : ℂ)
  obtain ⟨_, hle, _⟩ := run_spec (⇑(rot (1 / 4))) 2 2 (RCLike.ofReal (1 : ℝ) : ℝ) [(1 : ℂ)]
  have hle2 : (runE (rot (1 / 4)) 2 2 1 [(1 : ℂ)]).idx ≤ 2 := le_trans hle (by norm_num)
  refine ⟨hpos, ?_⟩
  have hinv := inv_colAfter (rot (1 / 4)) 2 (1 : ℂ) 1 hv (by norm_num) _ hle2
  have hb : (colAt (rot (1 / 4)) 2 1 (1 : ℂ)
      (runE (rot (1 / 4)) 2 2 1 [(1 : ℂ)]).idx).beta 0 = 1 / 4 := by
    obtain ⟨_, f2⟩ := colAfter_frozen (A := rot (1 / 4)) (M := 2) (v := (1 : ℂ)) (tol := 1)
      (by norm_num) hv 1 _ hpos hle2
    unfold Col.beta
    rw [f2 0 (by omega) 1]
    exact beta0_rot (1 / 4) (by norm_num) 2 (by norm_num) 1
  exact hinv.relation_fails_of_clip 0 hpos (by rw [hb]; norm_num) (by rw [hb]; norm_num)

/-- witness for the clause `stopExact`: `A = rot`, `tol = 1`, `max_iters = 2`: the loop stops after
one step with `β₀ = 1 > 0`; column 1 of `Q` is the unit vector `i` but column 1 of `H` is zero, so
`A Q[:, :2] = Q H` fails in column 1 -/
theorem stopExact_witness :
    (runE (rot 1) 2 2 1 [(1 : ℂ)]).idx = 1 ∧
    NoClip 1 1 (colAt (rot 1) 2 1 (1 : ℂ) 1) ∧
    (rot 1) ((colAt (rot 1) 2 1 (1 : ℂ) 1).q 1) ≠
      ∑ l ∈ range (2 + 1), (colAt (rot 1) 2 1 (1 : ℂ) 1).h l 1 • (colAt (rot 1) 2 1 (1 : ℂ) 1).q l := by
  have hv : (1 : ℂ) ≠ 0 := one_ne_zero
  refine ⟨run_idx_tol_one (rot 1) 2 2 (by norm_num) (by norm_num) 1 hv,
    noClip_rot 1 (by norm_num) (by norm_num) 1 (by norm_num), ?_⟩
  have hinv := inv_colAfter (rot 1) 2 (1 : ℂ) 1 hv (by norm_num) 1 (by norm_num)
  have hsum : ∑ l ∈ range (2 + 1), (colAt (rot 1) 2 1 (1 : ℂ) 1).h l 1 •
      (colAt (rot 1) 2 1 (1 : ℂ) 1).q l = 0 := by
    apply sum_eq_zero
    intro l _
    rw [hinv.hZeroCol 1 (le_refl _) l, zero_smul]
  rw [hsum, colAt_one_q _ _ _ _ (by norm_num), if_pos rfl, norm_w1_rot 1 (by norm_num), w1_rot,
    rot_apply]
  norm_num

/-- witness for the clause `noPaddingEigs`: `E = ℝ` (`n = 1`), `A = id`, `max_iters = 2`: the matrix
handed to `eig` by the untrimmed `arnoldi_eigs` has the eigenvalue `0`, which `A` has not -/
theorem noPaddingEigs_witness :
    (∃ y : Nat → ℝ, (∃ a, a < 2 ∧ y a ≠ 0) ∧ ∀ l, l < 2 →
      ∑ i ∈ range 2,
        ((eigsMatrix false 2 (runE (LinearMap.id : ℝ →ₗ[ℝ] ℝ) 1 2 (1 / 10) [(1 : ℝ)]).idx
          (colAt (LinearMap.id : ℝ →ₗ[ℝ] ℝ) 2 (1 / 10) (1 : ℝ)
            (runE (LinearMap.id : ℝ →ₗ[ℝ] ℝ) 1 2 (1 / 10) [(1 : ℝ)]).idx)).getD l #[]).getD i 0
          * y i = 0 * y l) ∧
    ∀ x : ℝ, (LinearMap.id : ℝ →ₗ[ℝ] ℝ) x = (0 : ℝ) • x → x = 0 := by
  constructor
  · obtain ⟨_, hle, _⟩ := run_spec (⇑(LinearMap.id : ℝ →ₗ[ℝ] ℝ)) 1 2 (RCLike.ofReal (1 / 10 : ℝ) : ℝ) [(1 : ℝ)]
    have hle1 : (runE (LinearMap.id : ℝ →ₗ[ℝ] ℝ) 1 2 (1 / 10) [(1 : ℝ)]).idx ≤ 1 :=
      le_trans hle (by norm_num)
    have hinv := inv_colAfter (LinearMap.id : ℝ →ₗ[ℝ] ℝ) 2 (1 : ℝ) (1 / 10) one_ne_zero
      (by norm_num) _ (le_trans hle1 (by norm_num))
    obtain ⟨y, hy, hz⟩ := hinv.padded_has_zero_eigenvalue (by omega)
    refine ⟨y, hy, fun l hl => ?_⟩
    rw [← hz l hl]
    apply sum_congr rfl
    intro i hi
    rw [eigsMatrix_get false _ _ l i (by simp [eigsSize]; omega)
      (by have := mem_range.mp hi; simp [eigsSize]; omega)]
  · intro x hx
    simpa using hx

end Arnoldi
