import ColaVerif.Lemmas.InvKernels
import ColaVerif.Lemmas.Bridge
import ColaVerif.Lemmas.OpMatmatAux
import ColaVerif.Lemmas.AnnotSoundAux
import Mathlib.LinearAlgebra.Matrix.NonsingularInverse
import Mathlib.LinearAlgebra.Matrix.Kronecker
import Mathlib.Data.Matrix.Block

/-!
# Inverses of the structured matrices (C06), on entry functions

`RInv n D E`: `E` is a right inverse of `D` on the `n × n` window (`D · E = 1`); for square
matrices over a commutative ring this is symmetric (`RInv.symm`, Mathlib `mul_eq_one_comm`).
One lemma per inverse rule of `cola/linalg/inverse/inv.py`: diagonal / scalar (reciprocals),
permutation (`argsort`), triangular (substitution), product (reversed), Kronecker and
block-diagonal (factor-wise), unitary (conjugate transpose).
-/

open Matrix Finset
open scoped Kronecker

namespace Inv
variable {R : Type} [CommRing R]

/-- `D · E = 1` on the `n × n` window -/
def RInv (n : Nat) (D E : MatF R) : Prop := EqOn n n (mmul n D E) eyeM

theorem rinv_iff {n : Nat} {D E : MatF R} :
    RInv n D E ↔ MatF.toMatrix n n D * MatF.toMatrix n n E = 1 := by
  unfold RInv
  rw [← MatF.toMatrix_mmul, ← MatF.toMatrix_eyeM, MatF.toMatrix_eq_iff]

theorem RInv.symm {n : Nat} {D E : MatF R} (h : RInv n D E) : RInv n E D := by
  rw [rinv_iff] at h ⊢
  exact mul_eq_one_comm.mp h

theorem RInv.congr {n : Nat} {D D' E E' : MatF R} (hD : EqOn n n D D') (hE : EqOn n n E E')
    (h : RInv n D E) : RInv n D' E' := by
  rw [rinv_iff] at h ⊢
  rw [← MatF.toMatrix_congr hD, ← MatF.toMatrix_congr hE]
  exact h

/-- a right inverse is the inverse: any solution of `D Y = X` is `E X` -/
theorem RInv.solve_unique {n b : Nat} {D E : MatF R} (h : RInv n D E) {X Y : MatF R}
    (hY : EqOn n b (mmul n D Y) X) : EqOn n b Y (mmul n E X) := by
  have h' := h.symm
  rw [rinv_iff] at h'
  rw [← MatF.toMatrix_eq_iff] at hY ⊢
  rw [MatF.toMatrix_mmul] at hY ⊢
  rw [← hY, ← Matrix.mul_assoc, h', Matrix.one_mul]

/-- and it does solve the system -/
theorem RInv.solves {n b : Nat} {D E : MatF R} (h : RInv n D E) (X : MatF R) :
    EqOn n b (mmul n D (mmul n E X)) X := by
  rw [rinv_iff] at h
  rw [← MatF.toMatrix_eq_iff, MatF.toMatrix_mmul, MatF.toMatrix_mmul, ← Matrix.mul_assoc, h,
    Matrix.one_mul]

theorem rinv_eye (n : Nat) : RInv n (eyeM : MatF R) eyeM := by
  rw [rinv_iff, MatF.toMatrix_eyeM, Matrix.one_mul]

/-- Diagonal / ScalarMul: entrywise reciprocals -/
theorem rinv_diag (n : Nat) (d e : Nat → R) (h : ∀ i, i < n → d i * e i = 1) :
    RInv n (diagM d) (diagM e) := by
  intro i j hi _
  rw [mmul_apply, sum_diagM_mul n d (diagM e) i j hi]
  unfold diagM eyeM
  by_cases hij : i = j
  · rw [if_pos hij, if_pos hij, h i hi]
  · rw [if_neg hij, if_neg hij, mul_zero]

/-- Permutation: `argsort` -/
theorem rinv_perm (p : List Nat) (hlt : ∀ t ∈ p, t < p.length) (hnd : p.Nodup) :
    RInv p.length (permDen p : MatF R) (permDen (argsort p)) := by
  intro i j hi _
  have hpi : p.getD i 0 < p.length := hlt _ (getD_mem_of_lt p i hi)
  rw [mmul_apply, ← permMatmat_eq p.length p (permDen (argsort p)) i j hpi]
  unfold permMatmat gatherRows permDen eyeM
  rw [argsort_getD p _ hpi, idxOf_getD_of_nodup p i hnd hi]

/-- Triangular: `TriangularInv` applied to the identity -/
theorem rinv_tri (recip : R → R) (n : Nat) (lower : Bool) (a : MatF R)
    (ht : if lower then LowerTri n a else UpperTri n a) (hd : DiagUnit recip n a) :
    RInv n a (solvetri recip n lower a n eyeM).f :=
  solvetri_spec recip n lower a ht hd n eyeM

/-! ## products -/

/-- `M₁ · (M₂ · (… · 1))` with inner dimensions `n` -/
def chainM (n : Nat) (L : List (MatF R)) : MatF R := L.foldr (fun D acc => mmul n D acc) eyeM

theorem toMatrix_chainM (n : Nat) : ∀ (L : List (MatF R)),
    MatF.toMatrix n n (chainM n L) = (L.map (MatF.toMatrix n n)).prod
  | [] => by simp [chainM, MatF.toMatrix_eyeM]
  | D :: L => by
    have ih := toMatrix_chainM n L
    simp only [chainM, List.foldr_cons, List.map_cons, List.prod_cons] at ih ⊢
    rw [MatF.toMatrix_mmul, ih]

/-- Product: the reversed product of the inverses -/
theorem rinv_chain (n : Nat) {L L' : List (MatF R)} (h : List.Forall₂ (RInv n) L L') :
    RInv n (chainM n L) (chainM n L'.reverse) := by
  rw [rinv_iff, toMatrix_chainM, toMatrix_chainM]
  induction h with
  | nil => simp
  | @cons D E l l' hd _ ih =>
    rw [rinv_iff] at hd
    simp only [List.map_cons, List.prod_cons, List.reverse_cons, List.map_append, List.map_nil,
      List.prod_append, List.prod_nil, mul_one]
    calc MatF.toMatrix n n D * (l.map (MatF.toMatrix n n)).prod
          * ((l'.reverse.map (MatF.toMatrix n n)).prod * MatF.toMatrix n n E)
        = MatF.toMatrix n n D * ((l.map (MatF.toMatrix n n)).prod
          * (l'.reverse.map (MatF.toMatrix n n)).prod) * MatF.toMatrix n n E := by
          simp only [Matrix.mul_assoc]
      _ = 1 := by rw [ih, Matrix.mul_one, hd]

/-! ## Kronecker -/

theorem kronDen_cons_kron2 (M : FacAct R) (Ms : List (FacAct R)) :
    kronDen (M :: Ms) = kron2 (Ms.map (·.r)).prod (Ms.map (·.c)).prod M.a (kronDen Ms) := by
  funext I J
  rw [kronDen_cons]
  rfl

theorem rinv_kron2 (n m : Nat) {A A' B B' : MatF R} (hA : RInv n A A') (hB : RInv m B B') :
    RInv (n * m) (kron2 m m A B) (kron2 m m A' B') := by
  rw [rinv_iff] at hA hB ⊢
  rw [MatF.toMatrix_kron2, MatF.toMatrix_kron2]
  simp only [reindex_apply]
  rw [submatrix_mul_equiv, ← mul_kronecker_mul, hA, hB, one_kronecker_one, submatrix_one_equiv]

/-- the pairing of a factor with its inverse factor -/
def FacInv (F G : FacAct R) : Prop := F.c = F.r ∧ G.r = F.r ∧ G.c = F.r ∧ RInv F.r F.a G.a

/-- Kronecker: factor-wise inverses -/
theorem rinv_kronDen : ∀ {L L' : List (FacAct R)}, List.Forall₂ FacInv L L' →
    (L.map (·.c)).prod = (L.map (·.r)).prod ∧ (L'.map (·.r)).prod = (L.map (·.r)).prod ∧
      (L'.map (·.c)).prod = (L.map (·.r)).prod ∧
      RInv (L.map (·.r)).prod (kronDen L) (kronDen L')
  | [], [], _ => by
    refine ⟨rfl, rfl, rfl, ?_⟩
    intro i j hi hj
    simp only [List.map_nil, List.prod_nil] at hi hj
    have hi0 : i = 0 := by omega
    have hj0 : j = 0 := by omega
    subst hi0 hj0
    simp [mmul_apply, kronDen, kronEntry, eyeM]
  | F :: L, G :: L', h => by
    cases h with
    | cons hd tl =>
      obtain ⟨h1, h2, h3, h4⟩ := hd
      obtain ⟨e1, e2, e3, ih⟩ := rinv_kronDen tl
      refine ⟨?_, ?_, ?_, ?_⟩
      · simp only [List.map_cons, List.prod_cons, h1, e1]
      · simp only [List.map_cons, List.prod_cons, h2, e2]
      · simp only [List.map_cons, List.prod_cons, h3, e3]
      · rw [kronDen_cons_kron2, kronDen_cons_kron2, e1, e2, e3]
        simp only [List.map_cons, List.prod_cons]
        exact rinv_kron2 F.r _ h4 ih

/-! ## block diagonal -/

theorem rinv_blockDiagM_cons (n N : Nat) {m m' : MatF R} {rest rest' : List (Nat × Nat × MatF R)}
    (h1 : RInv n m m') (h2 : RInv N (blockDiagM rest) (blockDiagM rest')) :
    RInv (n + N) (blockDiagM ((n, n, m) :: rest)) (blockDiagM ((n, n, m') :: rest')) := by
  rw [rinv_iff] at h1 h2 ⊢
  rw [MatF.toMatrix_blockDiagM_cons, MatF.toMatrix_blockDiagM_cons]
  simp only [reindex_apply]
  rw [submatrix_mul_equiv, fromBlocks_multiply]
  simp only [Matrix.mul_zero, Matrix.zero_mul, add_zero, zero_add, h1, h2, fromBlocks_one,
    submatrix_one_equiv]

/-- the pairing of a block with its inverse block -/
def BlkInv (p q : Nat × Nat × MatF R) : Prop := p.2.1 = p.1 ∧ q.1 = p.1 ∧ q.2.1 = p.1 ∧ RInv p.1 p.2.2 q.2.2

theorem rinv_blockDiagM : ∀ {L L' : List (Nat × Nat × MatF R)}, List.Forall₂ BlkInv L L' →
    (L.map (·.2.1)).sum = (L.map (·.1)).sum ∧ (L'.map (·.1)).sum = (L.map (·.1)).sum ∧
      (L'.map (·.2.1)).sum = (L.map (·.1)).sum ∧
      RInv (L.map (·.1)).sum (blockDiagM L) (blockDiagM L')
  | [], [], _ => by
    refine ⟨rfl, rfl, rfl, ?_⟩
    intro i j hi _
    simp only [List.map_nil, List.sum_nil] at hi
    omega
  | (r, c, m) :: L, (r', c', m') :: L', h => by
    cases h with
    | cons hd tl =>
      obtain ⟨h1, h2, h3, h4⟩ := hd
      simp only at h1 h2 h3 h4
      subst h1 h2 h3
      obtain ⟨e1, e2, e3, ih⟩ := rinv_blockDiagM tl
      refine ⟨?_, ?_, ?_, ?_⟩
      · simp only [List.map_cons, List.sum_cons, e1]
      · simp only [List.map_cons, List.sum_cons, e2]
      · simp only [List.map_cons, List.sum_cons, e3]
      · simp only [List.map_cons, List.sum_cons]
        exact rinv_blockDiagM_cons _ _ h4 ih

/-- repeating paired factors by the same multiplicities pairs the blocks -/
theorem forall₂_expandBlocks : ∀ {L L' : List (FacAct R)} (mults : List Nat),
    List.Forall₂ FacInv L L' →
    List.Forall₂ BlkInv (expandBlocks (L.zip mults)) (expandBlocks (L'.zip mults))
  | [], [], _, _ => by simp [expandBlocks]
  | _ :: _, _ :: _, [], _ => by simp [expandBlocks]
  | F :: L, G :: L', k :: ks, h => by
    cases h with
    | cons hd tl =>
      simp only [List.zip_cons_cons, expandBlocks_cons]
      apply List.rel_append
      · obtain ⟨h1, h2, h3, h4⟩ := hd
        induction k with
        | zero => simp
        | succ k ihk =>
          rw [List.replicate_succ, List.replicate_succ]
          exact List.Forall₂.cons ⟨h1, h2, h3, h4⟩ ihk
      · exact forall₂_expandBlocks ks tl

/-- BlockDiag with multiplicities: factor-wise inverses -/
theorem rinv_bdiagDen {L L' : List (FacAct R)} (mults : List Nat) (h : List.Forall₂ FacInv L L') :
    let N := ((L.zip mults).map (fun p => p.2 * p.1.r)).sum
    ((L.zip mults).map (fun p => p.2 * p.1.c)).sum = N ∧
      ((L'.zip mults).map (fun p => p.2 * p.1.r)).sum = N ∧
      ((L'.zip mults).map (fun p => p.2 * p.1.c)).sum = N ∧
      RInv N (bdiagDen (L.zip mults)) (bdiagDen (L'.zip mults)) := by
  have key := rinv_blockDiagM (forall₂_expandBlocks mults h)
  rw [expandBlocks_sum_c, expandBlocks_sum_r, expandBlocks_sum_r, expandBlocks_sum_c] at key
  exact key

/-! ## unitary -/

section unitary
variable [StarRing R]

/-- Unitary: the conjugate transpose (the hypothesis is the declaration `Unitary(A)`) -/
theorem rinv_unitary (n : Nat) (D : MatF R)
    (h : EqOn n n (mmul n D (conjM (transposeM D))) eyeM) : RInv n D (conjM (transposeM D)) := h

end unitary

end Inv
