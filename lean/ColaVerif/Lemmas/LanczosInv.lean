import ColaVerif.Lemmas.LanczosExact

/-!
# The Lanczos invariant of the code model (exact arithmetic)

`Inv A m v j s`: the buffers `s` of one batch member after `j` executions of the loop body
(`m = min(max_iters, n)` basis columns, start vector `v`):

* guard column `0` and the columns beyond `j + 1` are zero;
* columns `1 … j` are orthonormal, column `j + 1` (the not yet normalised residual) is orthogonal to
  them; column `1` is `v / ‖v‖`;
* `subdiag[0] = 0`, every `subdiag[c]` is a non-negative real, `subdiag[c] ≠ 0` for `1 ≤ c < j`,
  `subdiag[j] = ‖column j+1‖`; `diag[c-1] = ⟪q_c, A q_c⟫`;
* the three-term recurrence `A q_c = β_{c-1} q_{c-1} + α_c q_c + β_c q_{c+1}` for `c < j` and
  `A q_j = β_{j-1} q_{j-1} + α_j q_j + (column j+1)`.

`inv_init`: `init_lanczos` establishes `Inv … 0`.
`inv_step`: one execution of `body_fun` at index `i = j + 1 ≤ m` on a state whose pending column is
non-zero turns `Inv … j` into `Inv … (j+1)`; on the way `residual_orth` shows that the vector left by
the three-term subtraction is ALREADY orthogonal to the whole buffer (symmetry of `A` + the
recurrence), so the two Gram–Schmidt passes of the code return it unchanged
(`doubleGram_of_orth`): in exact arithmetic the code computes exactly the three-term Lanczos
recurrence.
-/

open scoped InnerProductSpace

namespace Lanczos

variable {𝕜 E : Type} [RCLike 𝕜] [NormedAddCommGroup E] [InnerProductSpace 𝕜 E]

attribute [local instance] exactNum exactVec

structure Inv (A : E →ₗ[𝕜] E) (m : ℕ) (v : E) (j : ℕ) (s : Mem 𝕜 E) : Prop where
  sizeV : s.V.size = m + 2
  sizeD : s.diag.size = m
  sizeS : s.subdiag.size = m + 1
  jle : j ≤ m
  col0 : qc s 0 = 0
  colHi : ∀ c, j + 1 < c → qc s c = 0
  unit : ∀ c, 1 ≤ c → c ≤ j → ‖qc s c‖ = 1
  orth : ∀ c c', 1 ≤ c → c < c' → c' ≤ j + 1 → ⟪qc s c, qc s c'⟫_𝕜 = 0
  first : qc s 1 = (((‖v‖ : ℝ) : 𝕜))⁻¹ • v
  sub0 : sb s 0 = 0
  subReal : ∀ c, ∃ r : ℝ, 0 ≤ r ∧ sb s c = (r : 𝕜)
  subPos : ∀ c, 1 ≤ c → c < j → sb s c ≠ 0
  subLast : 1 ≤ j → sb s j = ((‖qc s (j + 1)‖ : ℝ) : 𝕜)
  diagEq : ∀ c, 1 ≤ c → c ≤ j → dg s (c - 1) = ⟪qc s c, A (qc s c)⟫_𝕜
  recLt : ∀ c, 1 ≤ c → c < j →
    A (qc s c) = sb s (c - 1) • qc s (c - 1) + dg s (c - 1) • qc s c + sb s c • qc s (c + 1)
  recLast : 1 ≤ j →
    A (qc s j) = sb s (j - 1) • qc s (j - 1) + dg s (j - 1) • qc s j + qc s (j + 1)

/-! ### small facts -/

theorem norm_normalize (x : E) (hx : x ≠ 0) : ‖(((‖x‖ : ℝ) : 𝕜))⁻¹ • x‖ = 1 := by
  have : ‖x‖ ≠ 0 := norm_ne_zero_iff.mpr hx
  rw [norm_smul, norm_inv, RCLike.norm_ofReal, abs_norm, inv_mul_cancel₀ this]

theorem inner_self_of_norm_one (x : E) (hx : ‖x‖ = 1) : ⟪x, x⟫_𝕜 = 1 := by
  rw [inner_self_eq_norm_sq_to_K, hx]; simp

theorem norm_smul_normalize (x : E) (hx : x ≠ 0) :
    ((‖x‖ : ℝ) : 𝕜) • ((((‖x‖ : ℝ) : 𝕜))⁻¹ • x) = x := by
  have : ((‖x‖ : ℝ) : 𝕜) ≠ 0 := by exact_mod_cast norm_ne_zero_iff.mpr hx
  rw [smul_smul, mul_inv_cancel₀ this, one_smul]

theorem inner_swap_zero (x y : E) (h : ⟪x, y⟫_𝕜 = 0) : ⟪y, x⟫_𝕜 = 0 := by
  rw [← inner_conj_symm, h, map_zero]

/-! ### initial state -/

theorem inv_init (A : E →ₗ[𝕜] E) (m : ℕ) (v : E) :
    Inv A m v 0 (initMem (K := 𝕜) 0 m v) := by
  have hcol : ∀ c, qc (initMem (K := 𝕜) 0 m v) c =
      if c = 1 then (((‖v‖ : ℝ) : 𝕜))⁻¹ • v else 0 := by
    intro c
    simp only [qc, col, initMem, VecOps.divs, VecOps.norm]
    rw [getD_setIfInBounds]
    by_cases h : c = 1
    · subst h; simp
    · have : ¬ 1 = c := fun h' => h h'.symm
      simp only [this, false_and, if_false, h]
      simp only [Array.getD_eq_getD_getElem?, Array.getElem?_replicate]
      split <;> rfl
  have hsb : ∀ c, sb (initMem (K := 𝕜) 0 m v) c = 0 := by
    intro c
    simp only [sb, initMem, Array.getD_eq_getD_getElem?, Array.getElem?_replicate, Num.zero]
    split <;> rfl
  refine
    { sizeV := by simp [initMem]
      sizeD := by simp [initMem]
      sizeS := by simp [initMem]
      jle := Nat.zero_le _
      col0 := by rw [hcol]; simp
      colHi := fun c hc => by rw [hcol]; have : c ≠ 1 := by omega
                              simp [this]
      unit := fun c h1 h2 => by omega
      orth := fun c c' h1 h2 h3 => by omega
      first := by rw [hcol]; simp
      sub0 := hsb 0
      subReal := fun c => ⟨0, le_refl _, by rw [hsb]; simp⟩
      subPos := fun c h1 h2 => by omega
      subLast := fun h => by omega
      diagEq := fun c h1 h2 => by omega
      recLt := fun c h1 h2 => by omega
      recLast := fun h => by omega }

/-! ### one execution of the loop body -/

section step
variable {A : E →ₗ[𝕜] E} {m : ℕ} {v : E} {j : ℕ} {s : Mem 𝕜 E}

/-- every real `subdiag` entry is its own conjugate -/
theorem Inv.conj_sb (h : Inv A m v j s) (c : ℕ) : (starRingEnd 𝕜) (sb s c) = sb s c := by
  obtain ⟨r, _, hr⟩ := h.subReal c
  rw [hr, RCLike.conj_ofReal]

/-- columns `1 … j` against the normalised pending column -/
theorem Inv.orth_qi (h : Inv A m v j s) (c : ℕ) (h1 : 1 ≤ c) (h2 : c ≤ j) :
    ⟪qc s c, qi' (𝕜 := 𝕜) (j + 1) s⟫_𝕜 = 0 := by
  unfold qi'
  rw [inner_smul_right, h.orth c (j + 1) h1 (by omega) (le_refl _), mul_zero]

/-- also for the guard column `c = 0` -/
theorem Inv.orth_qi0 (h : Inv A m v j s) (c : ℕ) (h2 : c ≤ j) :
    ⟪qc s c, qi' (𝕜 := 𝕜) (j + 1) s⟫_𝕜 = 0 := by
  rcases Nat.eq_zero_or_pos c with rfl | hc
  · rw [h.col0, inner_zero_left]
  · exact h.orth_qi c hc h2

/-- the recurrence of column `j` with the pending column normalised -/
theorem Inv.rec_j (h : Inv A m v j s) (hj : 1 ≤ j) (hp : qc s (j + 1) ≠ 0) :
    A (qc s j) = sb s (j - 1) • qc s (j - 1) + dg s (j - 1) • qc s j +
      sb s j • qi' (𝕜 := 𝕜) (j + 1) s := by
  rw [h.recLast hj, h.subLast hj]
  unfold qi'
  rw [norm_smul_normalize _ hp]

/-- **the three-term residual is already orthogonal to the whole buffer** -/
theorem residual_orth (h : Inv A m v j s) (hA : A.IsSymmetric) (hp : qc s (j + 1) ≠ 0) (c : ℕ) :
    ⟪col 0 (V1' (𝕜 := 𝕜) (j + 1) s) c, u0' A (j + 1) s⟫_𝕜 = 0 := by
  have hV : j + 1 < s.V.size := by rw [h.sizeV]; have := h.jle; omega
  rw [col_V1' (j + 1) s (by omega) hV c]
  have hqi1 : ‖qi' (𝕜 := 𝕜) (j + 1) s‖ = 1 := norm_normalize _ hp
  have hqiqi : ⟪qi' (𝕜 := 𝕜) (j + 1) s, qi' (𝕜 := 𝕜) (j + 1) s⟫_𝕜 = 1 :=
    inner_self_of_norm_one _ hqi1
  have hjs : j + 1 - 1 = j := by omega
  unfold u0' ai'
  simp only [hjs]
  by_cases hc : c = j + 1
  · -- the normalised column itself
    simp only [hc, if_true]
    rw [inner_sub_right, inner_add_right, inner_smul_right, inner_smul_right, hqiqi,
      inner_swap_zero _ _ (h.orth_qi0 j (le_refl _)), mul_zero, add_zero, mul_one,
      hA (qi' (𝕜 := 𝕜) (j + 1) s) (qi' (𝕜 := 𝕜) (j + 1) s), sub_self]
  · simp only [hc, if_false]
    rcases Nat.lt_or_ge (j + 1) c with hgt | hle
    · rw [h.colHi c hgt, inner_zero_left]
    · have hcj : c ≤ j := by omega
      rcases Nat.eq_zero_or_pos c with rfl | hc1
      · rw [h.col0, inner_zero_left]
      · -- 1 ≤ c ≤ j
        rw [inner_sub_right, inner_add_right, inner_smul_right, inner_smul_right,
          h.orth_qi c hc1 hcj, mul_zero, zero_add,
          ← hA (qc s c) (qi' (𝕜 := 𝕜) (j + 1) s)]
        rcases Nat.lt_or_ge c j with hlt | hge
        · -- c < j : nothing reaches column j + 1
          rw [h.recLt c hc1 hlt, inner_add_left, inner_add_left, inner_smul_left, inner_smul_left,
            inner_smul_left, h.orth_qi0 (c - 1) (by omega), h.orth_qi c hc1 hcj,
            h.orth_qi (c + 1) (by omega) (by omega), h.orth c j hc1 hlt (by omega)]
          simp
        · -- c = j
          have hcj' : c = j := by omega
          subst hcj'
          rw [h.rec_j hc1 hp, inner_add_left, inner_add_left, inner_smul_left, inner_smul_left,
            inner_smul_left, h.orth_qi0 (c - 1) (by omega), h.orth_qi c hc1 hcj, hqiqi,
            inner_self_of_norm_one _ (h.unit c hc1 (le_refl _))]
          simp [h.conj_sb]

/-- the two Gram–Schmidt passes return the three-term residual unchanged -/
theorem u'_eq_u0' (h : Inv A m v j s) (hA : A.IsSymmetric) (hp : qc s (j + 1) ≠ 0) :
    u' A (j + 1) s = u0' A (j + 1) s := by
  unfold u'
  apply doubleGram_of_orth
  intro x hx
  obtain ⟨c, rfl⟩ := mem_toList_iff_getD _ x hx
  exact residual_orth h hA hp c

theorem inv_step (h : Inv A m v j s) (hA : A.IsSymmetric) (hjm : j < m)
    (hp : qc s (j + 1) ≠ 0) : Inv A m v (j + 1) (bodyMem (K := 𝕜) A 0 (j + 1) s) := by
  have hV : j + 1 + 1 < s.V.size := by rw [h.sizeV]; omega
  have hD : j + 1 - 1 < s.diag.size := by rw [h.sizeD]; omega
  have hS : j + 1 < s.subdiag.size := by rw [h.sizeS]; omega
  have hi1 : 1 ≤ j + 1 := by omega
  have hjs : j + 1 - 1 = j := by omega
  have hu : u' A (j + 1) s = u0' A (j + 1) s := u'_eq_u0' h hA hp
  have hcol := bodyMem_col (𝕜 := 𝕜) A (j + 1) s hi1 hV hD
  have hdg := bodyMem_diag (𝕜 := 𝕜) A (j + 1) s hi1 (by omega) hD
  have hsb := bodyMem_sub (𝕜 := 𝕜) A (j + 1) s hi1 hV hD hS
  have hsz := bodyMem_sizes (𝕜 := 𝕜) A (j + 1) s
  simp only [hjs] at hdg
  set s' := bodyMem (K := 𝕜) A 0 (j + 1) s with hs'
  set q := qi' (𝕜 := 𝕜) (j + 1) s with hq
  have hq1 : ‖q‖ = 1 := norm_normalize _ hp
  -- columns
  have cLow : ∀ c, c ≤ j → qc s' c = qc s c := by
    intro c hc
    rw [hcol]
    have h1 : c ≠ j + 1 + 1 := by omega
    have h2 : c ≠ j + 1 := by omega
    simp [h1, h2]
  have cMid : qc s' (j + 1) = q := by
    rw [hcol]; simp
  have cTop : qc s' (j + 1 + 1) = u0' A (j + 1) s := by
    rw [hcol, hu]; simp
  have dLow : ∀ c, c ≠ j → dg s' c = dg s c := by
    intro c hc; rw [hdg]; simp [hc]
  have dMid : dg s' j = ai' A (j + 1) s := by rw [hdg]; simp
  have sLow : ∀ c, c ≠ j + 1 → sb s' c = sb s c := by
    intro c hc; rw [hsb]; simp [hc]
  have sMid : sb s' (j + 1) = ((‖u0' A (j + 1) s‖ : ℝ) : 𝕜) := by rw [hsb, hu]; simp
  -- orthogonality of the residual against the new columns
  have hres : ∀ c, c ≤ j + 1 → ⟪qc s' c, u0' A (j + 1) s⟫_𝕜 = 0 := by
    intro c hc
    have := residual_orth h hA hp c
    rw [col_V1' (j + 1) s hi1 (by omega) c] at this
    rcases Nat.lt_or_ge c (j + 1) with hlt | hge
    · rw [cLow c (by omega)]
      have hne : c ≠ j + 1 := by omega
      simpa [hne] using this
    · have : c = j + 1 := by omega
      subst this
      rw [cMid]
      simpa using this
  refine
    { sizeV := by rw [hsz.1, h.sizeV]
      sizeD := by rw [hsz.2.1, h.sizeD]
      sizeS := by rw [hsz.2.2, h.sizeS]
      jle := hjm
      col0 := by rw [cLow 0 (Nat.zero_le _), h.col0]
      colHi := ?_
      unit := ?_
      orth := ?_
      first := ?_
      sub0 := by rw [sLow 0 (by omega), h.sub0]
      subReal := ?_
      subPos := ?_
      subLast := fun _ => by rw [sMid, cTop]
      diagEq := ?_
      recLt := ?_
      recLast := ?_ }
  · -- colHi
    intro c hc
    rw [hcol]
    have h1 : c ≠ j + 1 + 1 := by omega
    have h2 : c ≠ j + 1 := by omega
    simp only [h1, h2, if_false]
    exact h.colHi c (by omega)
  · -- unit
    intro c h1 h2
    rcases Nat.lt_or_ge c (j + 1) with hlt | hge
    · rw [cLow c (by omega)]; exact h.unit c h1 (by omega)
    · have : c = j + 1 := by omega
      subst this; rw [cMid]; exact hq1
  · -- orth
    intro c c' h1 h2 h3
    rcases Nat.lt_or_ge c' (j + 1 + 1) with hlt | hge
    · rw [cLow c (by omega)]
      rcases Nat.lt_or_ge c' (j + 1) with hlt' | hge'
      · rw [cLow c' (by omega)]; exact h.orth c c' h1 h2 (by omega)
      · have : c' = j + 1 := by omega
        subst this; rw [cMid]; exact h.orth_qi c h1 (by omega)
    · have : c' = j + 1 + 1 := by omega
      subst this
      rw [cTop]; exact hres c (by omega)
  · -- first
    rcases Nat.eq_zero_or_pos j with hj0 | hjpos
    · subst hj0
      rw [cMid, hq]
      unfold qi'
      rw [h.first]
      have hv1 : ‖(((‖v‖ : ℝ) : 𝕜))⁻¹ • v‖ = 1 := by
        have hv : v ≠ 0 := by
          intro hv0; apply hp; rw [h.first, hv0, smul_zero]
        exact norm_normalize v hv
      rw [hv1]; simp
    · rw [cLow 1 (by omega)]; exact h.first
  · -- subReal
    intro c
    by_cases hc : c = j + 1
    · subst hc; exact ⟨‖u0' A (j + 1) s‖, norm_nonneg _, sMid⟩
    · rw [sLow c hc]; exact h.subReal c
  · -- subPos
    intro c h1 h2
    rw [sLow c (by omega)]
    rcases Nat.lt_or_ge c j with hlt | hge
    · exact h.subPos c h1 hlt
    · have : c = j := by omega
      subst this
      rw [h.subLast h1]
      exact_mod_cast norm_ne_zero_iff.mpr hp
  · -- diagEq
    intro c h1 h2
    rcases Nat.lt_or_ge c (j + 1) with hlt | hge
    · rw [dLow (c - 1) (by omega), cLow c (by omega)]; exact h.diagEq c h1 (by omega)
    · have : c = j + 1 := by omega
      subst this
      rw [hjs, dMid, cMid]
      unfold ai'
      exact hA q q
  · -- recLt
    intro c h1 h2
    rw [cLow c (by omega), cLow (c - 1) (by omega), dLow (c - 1) (by omega), sLow (c - 1) (by omega),
      sLow c (by omega)]
    rcases Nat.lt_or_ge c j with hlt | hge
    · rw [cLow (c + 1) (by omega)]; exact h.recLt c h1 hlt
    · have : c = j := by omega
      subst this
      rw [cMid]; exact h.rec_j h1 hp
  · -- recLast
    intro _
    rw [hjs, cMid, cTop, cLow j (le_refl _), dMid, sLow j (by omega)]
    unfold u0'
    rw [hjs]
    abel

end step

end Lanczos
