import ColaVerif.Lemmas.UnaryEig
import ColaVerif.Lemmas.UnaryBranch

/-!
# C09 — `pow(Kronecker(A₁, …, A_m), α)` for ANY number of members, separate spectrum sets (round 3)

`powRule_kron2_ok` (Lemmas/UnaryEig.lean) covers exactly two members.  Here, by induction on the member list:

* `prodSet Ss` — the products `a₁ ⋯ a_m`, `aᵢ ∈ Sᵢ`; `MulChain f Ss` — `f (a b) = f a * f b` for `a` in a member's set
  and `b` a PARTIAL PRODUCT of the members after it; `matFunOK_kronN`, `powRule_kronN_ok`;
* over `ℂ`, numpy's principal power: `ArgChainOK Ss` — the arguments of a member's eigenvalues and of the partial products
  of the members after it add inside `(-π, π]`; `mulChain_of_argChain` (non-singular members);
* positive spectra (`posAxis`): `argChain_posAxis` — the condition holds for every list, i.e. the hypothesis `hmul` of
  `C09_pow` at `S = posAxis` is this theorem;
* instances: `cdiag_sqrt_ok` (complex Diagonal factors, `α = 1/2`), `argChain_rhp3` (three factors, two non-real).
-/

set_option linter.unusedSectionVars false

open Matrix MatFun

namespace Unary

section generic
variable {𝕜 : Type} [Field 𝕜] [StarRing 𝕜] [DecidableEq 𝕜]

/-- the set of products `a₁ ⋯ a_m`, `aᵢ ∈ Sᵢ` (spectrum of a Kronecker product); `{1}` for no member -/
def prodSet : List (Set 𝕜) → Set 𝕜
  | [] => {1}
  | S :: Ss => {c | ∃ a ∈ S, ∃ b ∈ prodSet Ss, c = a * b}

/-- `f` is multiplicative between every member's spectrum and the PARTIAL PRODUCTS of the members after it -/
def MulChain (f : 𝕜 → 𝕜) : List (Set 𝕜) → Prop
  | [] => True
  | S :: Ss => (∀ a ∈ S, ∀ b ∈ prodSet Ss, f (a * b) = f a * f b) ∧ MulChain f Ss

/-- **n-ary Kronecker rule with separate spectrum sets** (induction on the members) -/
theorem matFunOK_kronN {f : 𝕜 → 𝕜} (hf1 : f 1 = 1) (G : Op 𝕜 → Op 𝕜) :
    ∀ {Ms : List (Op 𝕜)} {Ss : List (Set 𝕜)},
      List.Forall₂ (fun M S => MatFunOK S f M (G M)) Ms Ss → MulChain f Ss →
      MatFunOK (prodSet Ss) f (.kron Ms) (.kron (Ms.map G))
  | _, _, .nil, _ => matFunOK_kron_nil hf1
  | _, _, .cons h t, hc =>
      matFunOK_kron_cons h (matFunOK_kronN hf1 G t hc.2) (fun a ha b hb => ⟨a, ha, b, hb, rfl⟩) hc.1

/-- **`pow(Kronecker(A₁, …, A_m), α)` on operator trees, separate spectra, any number of members** -/
theorem powRule_kronN_ok (P : Params 𝕜) (pw : Rat → 𝕜 → 𝕜) (α : Rat) (alg : Alg) (hf1 : pw α 1 = 1)
    {Ms : List (Op 𝕜)} {Ss : List (Set 𝕜)}
    (hM : List.Forall₂ (fun M S => MatFunOK S (pw α) M ((powRule pw α alg M).toOp P)) Ms Ss)
    (hc : MulChain (pw α) Ss) :
    powRule pw α alg (.kron Ms) = .kron (Ms.map (powRule pw α alg)) ∧
      MatFunOK (prodSet Ss) (pw α) (.kron Ms) ((powRule pw α alg (.kron Ms)).toOp P) := by
  have hplan : powRule pw α alg (.kron Ms) = .kron (Ms.map (powRule pw α alg)) := by
    simp only [powRule, powGo]
    rfl
  refine ⟨hplan, ?_⟩
  rw [hplan]
  simp only [UnOp.toOp, List.map_map]
  exact matFunOK_kronN hf1 (fun M => (powRule pw α alg M).toOp P) hM hc

end generic

/-! ## numpy's principal power over `ℂ` -/

/-- **the domain of the n-ary Kronecker rule for the principal power**: for every member, the arguments of its
eigenvalues and of the partial products of the members after it add inside `(-π, π]` -/
def ArgChainOK : List (Set ℂ) → Prop
  | [] => True
  | S :: Ss => ArgSumOK S (prodSet Ss) ∧ ArgChainOK Ss

theorem prodSet_nonzero : ∀ {Ss : List (Set ℂ)}, (∀ S ∈ Ss, (0 : ℂ) ∉ S) → (0 : ℂ) ∉ prodSet Ss
  | [], _ => by simp [prodSet]
  | S :: Ss, h => by
      rintro ⟨a, ha, b, hb, hab⟩
      have ha0 : a ≠ 0 := fun e => h S List.mem_cons_self (e ▸ ha)
      have hb0 : b ≠ 0 := fun e =>
        prodSet_nonzero (fun T hT => h T (List.mem_cons_of_mem _ hT)) (e ▸ hb)
      exact mul_ne_zero ha0 hb0 hab.symm

theorem mulChain_of_argChain (α : ℚ) : ∀ {Ss : List (Set ℂ)}, (∀ S ∈ Ss, (0 : ℂ) ∉ S) → ArgChainOK Ss →
    MulChain (cpowQ α) Ss
  | [], _, _ => trivial
  | S :: Ss, h0, hc => by
      refine ⟨fun a ha b hb => ?_, mulChain_of_argChain α (fun T hT => h0 T (List.mem_cons_of_mem _ hT)) hc.2⟩
      have ha0 : a ≠ 0 := fun e => h0 S List.mem_cons_self (e ▸ ha)
      have hb0 : b ≠ 0 := fun e =>
        prodSet_nonzero (fun T hT => h0 T (List.mem_cons_of_mem _ hT)) (e ▸ hb)
      exact cpow_mul_of_argSum _ ha0 hb0 (hc.1 a ha b hb ha0 hb0)

/-- the positive real axis -/
def posAxis : Set ℂ := {z | 0 < z.re ∧ z.im = 0}

theorem posAxis_arg {z : ℂ} (h : z ∈ posAxis) : z.arg = 0 := by
  have : z = ((z.re : ℝ) : ℂ) := Complex.ext rfl (by simp [h.2])
  rw [this]
  exact Complex.arg_ofReal_of_nonneg h.1.le

theorem posAxis_mul {a b : ℂ} (ha : a ∈ posAxis) (hb : b ∈ posAxis) : a * b ∈ posAxis := by
  refine ⟨?_, ?_⟩
  · rw [Complex.mul_re, ha.2, hb.2]; simp; exact mul_pos ha.1 hb.1
  · rw [Complex.mul_im, ha.2, hb.2]; simp

theorem prodSet_posAxis : ∀ {Ss : List (Set ℂ)}, (∀ S ∈ Ss, S ⊆ posAxis) → prodSet Ss ⊆ posAxis
  | [], _ => by
      intro z hz
      simp only [prodSet, Set.mem_singleton_iff] at hz
      subst hz
      exact ⟨by simp, by simp⟩
  | S :: Ss, h => by
      rintro z ⟨a, ha, b, hb, rfl⟩
      exact posAxis_mul (h S List.mem_cons_self ha)
        (prodSet_posAxis (fun T hT => h T (List.mem_cons_of_mem _ hT)) hb)

/-- positive spectra: the domain condition holds for any number of members (all arguments are `0`) -/
theorem argChain_posAxis : ∀ {Ss : List (Set ℂ)}, (∀ S ∈ Ss, S ⊆ posAxis) → ArgChainOK Ss
  | [], _ => trivial
  | S :: Ss, h => by
      refine ⟨fun a ha b hb _ _ => ?_, argChain_posAxis (fun T hT => h T (List.mem_cons_of_mem _ hT))⟩
      rw [posAxis_arg (h S List.mem_cons_self ha),
        posAxis_arg (prodSet_posAxis (fun T hT => h T (List.mem_cons_of_mem _ hT)) hb)]
      constructor <;> simp <;> linarith [Real.pi_pos]

/-! ## instances: two and three complex diagonal factors -/

/-- the open right half plane -/
def rhp : Set ℂ := {z : ℂ | 0 < z.re}

theorem _root_.MatFun.ArgSumOK.mono {S S' T T' : Set ℂ} (h : ArgSumOK S' T') (hS : S ⊆ S') (hT : T ⊆ T') : ArgSumOK S T :=
  fun a ha b hb => h a (hS ha) b (hT hb)

theorem rhp_zero : (0 : ℂ) ∉ rhp := by simp [rhp]
theorem posAxis_zero : (0 : ℂ) ∉ posAxis := by simp [posAxis]
theorem posAxis_sub_rhp : posAxis ⊆ rhp := fun _ h => h.1

theorem rhp_mul_posAxis {a b : ℂ} (ha : a ∈ rhp) (hb : b ∈ posAxis) : a * b ∈ rhp := by
  show 0 < (a * b).re
  rw [Complex.mul_re, hb.2]; simp; exact mul_pos ha hb.1

/-- a complex `Diagonal` operator -/
noncomputable def cdiag (a b : ℂ) : Op ℂ := .diag .c128 2 (fun i => if i = 0 then a else b)

/-- `pow(Diagonal, 1/2)` takes the Diagonal rule of `apply_unary` and represents the principal square root, on any
set that contains the two entries -/
theorem cdiag_sqrt_ok (P : Params ℂ) (alg : Alg) (a b : ℂ) {S : Set ℂ} (ha : a ∈ S) (hb : b ∈ S) :
    MatFunOK S (cpowQ (1 / 2)) (cdiag a b) ((powRule cpowQ (1 / 2) alg (cdiag a b)).toOp P) := by
  have hplan : powRule cpowQ (1 / 2) alg (cdiag a b) = applyUnary (cpowQ (1 / 2)) alg (cdiag a b) := by
    simp only [powRule, cdiag, powGo, powBase, powPlan_half]
  rw [hplan]
  apply applyUnary_ok
  simp only [applyUnary, cdiag, applyGo, UnOp.Sound]
  intro i hi
  interval_cases i <;> simp [ha, hb]

/-- three factors, two of them with non-real spectrum: `[rhp, rhp, posAxis]` satisfies the chain condition (the partial
product of the last two stays in the right half plane) -/
theorem argChain_rhp3 : ArgChainOK [rhp, rhp, posAxis] := by
  have h3 : prodSet [posAxis] ⊆ posAxis := prodSet_posAxis (fun S hS => by simp at hS; subst hS; exact subset_rfl)
  have h23 : prodSet [rhp, posAxis] ⊆ rhp := by
    rintro z ⟨a, ha, b, hb, rfl⟩
    exact rhp_mul_posAxis ha (h3 hb)
  refine ⟨argSumOK_rhp.mono subset_rfl h23, argSumOK_rhp.mono subset_rfl (h3.trans posAxis_sub_rhp), ?_, trivial⟩
  intro a ha b hb _ _
  simp only [prodSet, Set.mem_singleton_iff] at hb
  subst hb
  rw [posAxis_arg ha, Complex.arg_one]
  constructor <;> simp <;> linarith [Real.pi_pos]

end Unary
