import ColaVerif.Lemmas.OpMatmatAux

/-!
# C01: the code model of `A @ X`, `X @ A`, `A.to_dense()` agrees with the represented matrix

`Op.mm_eq`, `Op.rmm_eq`, `Op.td_eq`: for every well-formed operator tree without a repeated
index in a `Sliced` node, and whose nodes that report `SelfAdjoint` are Hermitian (`HermOK`),
the per-kind product code (`Op.mm`, `Op.rmm`, `Op.td`) computes `den A · X`, `X · den A`,
`den A` on the declared window.
-/

open Finset

namespace Op
variable {R : Type} [CommRing R] [StarRing R] [DecidableEq R]

/-! ## hypotheses -/

/-- the node itself: if it reports `SelfAdjoint`, it is square and Hermitian on its window -/
def HermNode (A : Op R) : Prop :=
  A.isa .selfAdjoint = true →
    A.rows = A.cols ∧ ∀ i j, i < A.rows → j < A.rows → A.den.f i j = star (A.den.f j i)

/-- every node of the tree that reports SelfAdjoint really is Hermitian on its window
(this is what C05 proves separately; here it is a hypothesis because the default left-product
of operator_base.py uses a conjugation shortcut for operators that are `isa SelfAdjoint`). -/
def HermOK : Op R → Prop
  | dense dt r c a => HermNode (dense dt r c a)
  | tri dt r c l a => HermNode (tri dt r c l a)
  | sparse dt r c e => HermNode (sparse dt r c e)
  | scalar dt s n => HermNode (scalar dt s n)
  | eye dt n => HermNode (eye dt n : Op R)
  | prod Ms => HermNode (prod Ms) ∧ ∀ M ∈ Ms, M.HermOK
  | sum Ms => HermNode (sum Ms) ∧ ∀ M ∈ Ms, M.HermOK
  | kron Ms => HermNode (kron Ms) ∧ ∀ M ∈ Ms, M.HermOK
  | kronsum Ms => HermNode (kronsum Ms) ∧ ∀ M ∈ Ms, M.HermOK
  | bdiag Ms mults => HermNode (bdiag Ms mults) ∧ ∀ M ∈ Ms, M.HermOK
  | diag dt n d => HermNode (diag dt n d)
  | tridiag dt n al be ga => HermNode (tridiag dt n al be ga)
  | transpose A => HermNode (transpose A) ∧ A.HermOK
  | adjoint A => HermNode (adjoint A) ∧ A.HermOK
  | sliced A s0 s1 => HermNode (sliced A s0 s1) ∧ A.HermOK
  | perm dt p => HermNode (perm dt p : Op R)
  | concat ax Ms => HermNode (concat ax Ms) ∧ ∀ M ∈ Ms, M.HermOK
  | house dt n v beta => HermNode (house dt n v beta)
  | generic A => HermNode (generic A) ∧ A.HermOK
  | annot a A => HermNode (annot a A) ∧ A.HermOK

theorem HermOK.node {A : Op R} (h : A.HermOK) : HermNode A := by
  cases A <;> simp only [HermOK] at h <;> first | exact h | exact h.1

/-- the three hypotheses of the theorems, bundled -/
structure Good (A : Op R) : Prop where
  wf : A.wf = true
  nd : A.dupSlice = false
  herm : A.HermOK

/-- `A._matmat` is multiplication by `den A` -/
def MmOK (A : Op R) : Prop :=
  ∀ (b : Nat) (X : MatF R), EqOn A.rows b (A.mm b X).f (mmul A.cols A.den.f X)

/-- `A._rmatmat` is right multiplication by `den A` -/
def RmmOK (A : Op R) : Prop :=
  ∀ (b : Nat) (X : MatF R), EqOn b A.cols (A.rmm b X).f (mmul A.rows X A.den.f)

omit [CommRing R] [StarRing R] [DecidableEq R] in
theorem wf_members {Ms : List (Op R)} (h : (Ms.map (·.wf)).all id = true) :
    ∀ M ∈ Ms, M.wf = true := by
  intro M hM
  rw [List.all_eq_true] at h
  exact h _ (List.mem_map.mpr ⟨M, hM, rfl⟩)

omit [CommRing R] [StarRing R] [DecidableEq R] in
theorem nd_members {Ms : List (Op R)} (h : (Ms.map (·.dupSlice)).any id = false) :
    ∀ M ∈ Ms, M.dupSlice = false := by
  intro M hM
  rw [List.any_eq_false] at h
  have := h _ (List.mem_map.mpr ⟨M, hM, rfl⟩)
  simpa using this

theorem Good.prod_mem {Ms : List (Op R)} (h : Good (prod Ms)) : ∀ M ∈ Ms, Good M := by
  obtain ⟨h1, h2, h3⟩ := h
  simp only [Op.wf, Bool.and_eq_true] at h1
  simp only [Op.dupSlice] at h2
  simp only [HermOK] at h3
  exact fun M hM => ⟨wf_members h1.1.2 M hM, nd_members h2 M hM, h3.2 M hM⟩

theorem Good.sum_mem {Ms : List (Op R)} (h : Good (sum Ms)) : ∀ M ∈ Ms, Good M := by
  obtain ⟨h1, h2, h3⟩ := h
  simp only [Op.wf, Bool.and_eq_true] at h1
  simp only [Op.dupSlice] at h2
  simp only [HermOK] at h3
  exact fun M hM => ⟨wf_members h1.1.2 M hM, nd_members h2 M hM, h3.2 M hM⟩

theorem Good.kron_mem {Ms : List (Op R)} (h : Good (kron Ms)) : ∀ M ∈ Ms, Good M := by
  obtain ⟨h1, h2, h3⟩ := h
  simp only [Op.wf, Bool.and_eq_true] at h1
  simp only [Op.dupSlice] at h2
  simp only [HermOK] at h3
  exact fun M hM => ⟨wf_members h1.2 M hM, nd_members h2 M hM, h3.2 M hM⟩

theorem Good.kronsum_mem {Ms : List (Op R)} (h : Good (kronsum Ms)) : ∀ M ∈ Ms, Good M := by
  obtain ⟨h1, h2, h3⟩ := h
  simp only [Op.wf, Bool.and_eq_true] at h1
  simp only [Op.dupSlice] at h2
  simp only [HermOK] at h3
  exact fun M hM => ⟨wf_members h1.1.2 M hM, nd_members h2 M hM, h3.2 M hM⟩

theorem Good.bdiag_mem {Ms : List (Op R)} {mults : List Nat} (h : Good (bdiag Ms mults)) :
    ∀ M ∈ Ms, Good M := by
  obtain ⟨h1, h2, h3⟩ := h
  simp only [Op.wf, Bool.and_eq_true] at h1
  simp only [Op.dupSlice] at h2
  simp only [HermOK] at h3
  exact fun M hM => ⟨wf_members h1.1.2 M hM, nd_members h2 M hM, h3.2 M hM⟩

theorem Good.concat_mem {ax : Bool} {Ms : List (Op R)} (h : Good (concat ax Ms)) :
    ∀ M ∈ Ms, Good M := by
  obtain ⟨h1, h2, h3⟩ := h
  simp only [Op.wf, Bool.and_eq_true] at h1
  simp only [Op.dupSlice] at h2
  simp only [HermOK] at h3
  exact fun M hM => ⟨wf_members h1.1.2 M hM, nd_members h2 M hM, h3.2 M hM⟩

theorem Good.transpose_child {A : Op R} (h : Good (transpose A)) : Good A := by
  obtain ⟨h1, h2, h3⟩ := h
  simp only [Op.wf] at h1
  simp only [Op.dupSlice] at h2
  simp only [HermOK] at h3
  exact ⟨h1, h2, h3.2⟩

theorem Good.adjoint_child {A : Op R} (h : Good (adjoint A)) : Good A := by
  obtain ⟨h1, h2, h3⟩ := h
  simp only [Op.wf] at h1
  simp only [Op.dupSlice] at h2
  simp only [HermOK] at h3
  exact ⟨h1, h2, h3.2⟩

theorem Good.generic_child {A : Op R} (h : Good (generic A)) : Good A := by
  obtain ⟨h1, h2, h3⟩ := h
  simp only [Op.wf] at h1
  simp only [Op.dupSlice] at h2
  simp only [HermOK] at h3
  exact ⟨h1, h2, h3.2⟩

theorem Good.annot_child {a : Ann} {A : Op R} (h : Good (annot a A)) : Good A := by
  obtain ⟨h1, h2, h3⟩ := h
  simp only [Op.wf] at h1
  simp only [Op.dupSlice] at h2
  simp only [HermOK] at h3
  exact ⟨h1, h2, h3.2⟩

theorem Good.sliced_child {A : Op R} {s0 s1 : Ix} (h : Good (sliced A s0 s1)) : Good A := by
  obtain ⟨h1, h2, h3⟩ := h
  simp only [Op.wf, Bool.and_eq_true] at h1
  simp only [Op.dupSlice, Bool.or_eq_false_iff] at h2
  simp only [HermOK] at h3
  exact ⟨h1.1.1, h2.1.1, h3.2⟩


/-! ## the default `_rmatmat` -/

theorem rmmOK_of_default (A : Op R)
    (hdef : ∀ b X, A.rmm b X =
      if A.isa .selfAdjoint = true then
        forceV b A.cols (conjM (transposeM (A.mm b (conjM (transposeM X))).f))
      else
        forceV b A.cols (transposeM (mmul A.rows (transposeM (A.mm A.cols eyeM).f) (transposeM X))))
    (hmm : MmOK A) (hh : HermNode A) : RmmOK A := by
  intro b X
  rw [hdef]
  by_cases hsa : A.isa .selfAdjoint = true
  · rw [if_pos hsa, forceV_f]
    obtain ⟨hsq, hH⟩ := hh hsa
    exact defaultRmm_sa A.rows A.cols A.den.f (fun b X => (A.mm b X).f) hmm hsq hH b X
  · rw [if_neg hsa, forceV_f]
    exact defaultRmm_lin A.rows A.cols A.den.f (fun b X => (A.mm b X).f) hmm b X

/-! ## leaves -/

theorem mmOK_dense (dt : DType) (r c : Nat) (a : MatF R) : MmOK (dense dt r c a) := by
  intro b X i j _ _
  simp only [Op.mm, forceV_f, Op.den, MatV.of_f, Op.cols]

theorem rmmOK_dense (dt : DType) (r c : Nat) (a : MatF R) : RmmOK (dense dt r c a) := by
  intro b X i j _ _
  simp only [Op.rmm, forceV_f, Op.den, MatV.of_f, Op.rows]

theorem mmOK_tri (dt : DType) (r c : Nat) (l : Bool) (a : MatF R) : MmOK (tri dt r c l a) := by
  intro b X i j _ _
  simp only [Op.mm, forceV_f, Op.den, MatV.of_f, Op.cols]

theorem rmmOK_tri (dt : DType) (r c : Nat) (l : Bool) (a : MatF R) : RmmOK (tri dt r c l a) := by
  intro b X i j _ _
  simp only [Op.rmm, forceV_f, Op.den, MatV.of_f, Op.rows]

theorem mmOK_sparse (dt : DType) (r c : Nat) (e : List (Nat × Nat × R)) :
    MmOK (sparse dt r c e) := by
  intro b X i j _ _
  simp only [Op.mm, forceV_f, Op.den, Op.cols]

theorem rmmOK_sparse (dt : DType) (r c : Nat) (e : List (Nat × Nat × R)) :
    RmmOK (sparse dt r c e) := by
  intro b X i j _ _
  simp only [Op.rmm, forceV_f, Op.den, Op.rows, transposeM, mmul_apply]
  apply Finset.sum_congr rfl
  intro q _
  rw [mul_comm]

theorem mmOK_scalar (dt : DType) (s : R) (n : Nat) : MmOK (scalar dt s n) := by
  intro b X i j hi _
  simp only [Op.rows] at hi
  simp only [Op.mm, Op.den, MatV.of_f, Op.cols, smulM, mmul_apply]
  exact (sum_scalar_mul n s X i j hi).symm

theorem mmOK_eye (dt : DType) (n : Nat) : MmOK (eye dt n : Op R) := by
  intro b X i j hi _
  simp only [Op.rows] at hi
  simp only [Op.mm, Op.den, MatV.of_f, Op.cols, mmul_apply]
  exact (sum_eyeM_mul n X i j hi).symm

theorem mmOK_diag (dt : DType) (n : Nat) (d : Nat → R) : MmOK (diag dt n d) := by
  intro b X i j hi _
  simp only [Op.rows] at hi
  simp only [Op.mm, Op.den, MatV.of_f, Op.cols, mmul_apply]
  exact (sum_diagM_mul n d X i j hi).symm

theorem rmmOK_diag (dt : DType) (n : Nat) (d : Nat → R) : RmmOK (diag dt n d) := by
  intro b X i j _ hj
  simp only [Op.cols] at hj
  simp only [Op.rmm, Op.den, MatV.of_f, Op.rows, mmul_apply]
  rw [sum_mul_diagM n d X i j hj, mul_comm]

theorem mmOK_tridiag (dt : DType) (n : Nat) (al be ga : Nat → R) :
    MmOK (tridiag dt n al be ga) := by
  intro b X i j hi _
  simp only [Op.rows] at hi
  simp only [Op.mm, Op.den, MatV.of_f, Op.cols, mmul_apply]
  exact tridiagMatmat_eq n al be ga X i j hi

theorem mmOK_perm (dt : DType) (p : List Nat) (hwf : (perm dt p : Op R).wf = true) :
    MmOK (perm dt p : Op R) := by
  intro b X i j hi _
  simp only [Op.rows] at hi
  simp only [Op.wf, Bool.and_eq_true, List.all_eq_true, decide_eq_true_eq] at hwf
  simp only [Op.mm, Op.den, MatV.of_f, Op.cols, mmul_apply]
  exact permMatmat_eq p.length p X i j (hwf.1 _ (getD_mem_of_lt p i hi))

theorem mmOK_house (dt : DType) (n : Nat) (v : Nat → R) (beta : R) :
    MmOK (house dt n v beta) := by
  intro b X i j hi _
  simp only [Op.rows] at hi
  simp only [Op.mm, forceV_f, Op.den, MatV.of_f, Op.cols, mmul_apply]
  exact houseMatmat_eq n v beta X i j hi

/-- the kinds without an explicit `_rmatmat` run the default of `operator_base.py` -/
theorem rmm_default (A : Op R) (h1 : A.hasExplicitRmm = false) (h2 : ∀ a B, A ≠ annot a B)
    (b : Nat) (X : MatF R) :
    A.rmm b X =
      if A.isa .selfAdjoint = true then
        forceV b A.cols (conjM (transposeM (A.mm b (conjM (transposeM X))).f))
      else
        forceV b A.cols (transposeM (mmul A.rows (transposeM (A.mm A.cols eyeM).f) (transposeM X))) := by
  cases A with
  | annot a B => exact absurd rfl (h2 a B)
  | dense => simp [hasExplicitRmm] at h1
  | tri => simp [hasExplicitRmm] at h1
  | sparse => simp [hasExplicitRmm] at h1
  | prod => simp [hasExplicitRmm] at h1
  | sum => simp [hasExplicitRmm] at h1
  | diag => simp [hasExplicitRmm] at h1
  | transpose => simp [hasExplicitRmm] at h1
  | adjoint => simp [hasExplicitRmm] at h1
  | sliced => simp [hasExplicitRmm] at h1
  | scalar => rw [Op.rmm] <;> intros <;> simp_all
  | eye => rw [Op.rmm] <;> intros <;> simp_all
  | kron => rw [Op.rmm] <;> intros <;> simp_all
  | kronsum => rw [Op.rmm] <;> intros <;> simp_all
  | bdiag => rw [Op.rmm] <;> intros <;> simp_all
  | tridiag => rw [Op.rmm] <;> intros <;> simp_all
  | perm => rw [Op.rmm] <;> intros <;> simp_all
  | concat => rw [Op.rmm] <;> intros <;> simp_all
  | house => rw [Op.rmm] <;> intros <;> simp_all
  | generic => rw [Op.rmm] <;> intros <;> simp_all

/-- default `_rmatmat`: correct as soon as `_matmat` is -/
theorem rmmOK_default (A : Op R) (h1 : A.hasExplicitRmm = false) (h2 : ∀ a B, A ≠ annot a B)
    (hmm : MmOK A) (hh : HermNode A) : RmmOK A :=
  rmmOK_of_default A (rmm_default A h1 h2) hmm hh

/-! ## wrappers -/

theorem mmOK_transpose (A : Op R) (h : RmmOK A) : MmOK (transpose A) := by
  intro b X i j hi hj
  simp only [Op.rows] at hi
  simp only [Op.mm, MatV.of_f, transposeM, Op.den, Op.cols]
  rw [h b _ j i hj hi, mmul_apply, mmul_apply]
  apply Finset.sum_congr rfl
  intro q _
  simp only [transposeM]
  rw [mul_comm]

theorem rmmOK_transpose (A : Op R) (h : MmOK A) : RmmOK (transpose A) := by
  intro b X i j hi hj
  simp only [Op.cols] at hj
  simp only [Op.rmm, MatV.of_f, transposeM, Op.den, Op.rows]
  rw [h b _ j i hj hi, mmul_apply, mmul_apply]
  apply Finset.sum_congr rfl
  intro q _
  simp only [transposeM]
  rw [mul_comm]

theorem mmOK_adjoint (A : Op R) (h : RmmOK A) : MmOK (adjoint A) := by
  intro b X i j hi hj
  simp only [Op.rows] at hi
  simp only [Op.mm, MatV.of_f, transposeM, conjM, Op.den, Op.cols]
  rw [h b _ j i hj hi, mmul_apply, mmul_apply, star_sum]
  apply Finset.sum_congr rfl
  intro q _
  simp only [transposeM, conjM]
  rw [star_mul', star_star, mul_comm]

theorem rmmOK_adjoint (A : Op R) (h : MmOK A) : RmmOK (adjoint A) := by
  intro b X i j hi hj
  simp only [Op.cols] at hj
  simp only [Op.rmm, MatV.of_f, transposeM, conjM, Op.den, Op.rows]
  rw [h b _ j i hj hi, mmul_apply, mmul_apply, star_sum]
  apply Finset.sum_congr rfl
  intro q _
  simp only [transposeM, conjM]
  rw [star_mul', star_star, mul_comm]

theorem mmOK_generic (A : Op R) (h : MmOK A) : MmOK (generic A) := by
  intro b X
  simp only [Op.mm, Op.rows, Op.cols, Op.den]
  exact h b X

theorem mmOK_annot (a : Ann) (A : Op R) (h : MmOK A) : MmOK (annot a A) := by
  intro b X
  simp only [Op.mm, Op.rows, Op.cols, Op.den]
  exact h b X

theorem rmmOK_annot (a : Ann) (A : Op R) (hmm : MmOK A) (hrmm : RmmOK A)
    (hh : HermNode (annot a A)) : RmmOK (annot a A) := by
  intro b X
  simp only [Op.rmm, Op.rows, Op.cols, Op.den]
  by_cases hex : A.hasExplicitRmm = true
  · rw [if_pos hex]
    exact hrmm b X
  · rw [if_neg hex]
    by_cases hsa : (annot a A).isa .selfAdjoint = true
    · rw [if_pos hsa, forceV_f]
      obtain ⟨hsq, hH⟩ := hh hsa
      simp only [Op.rows, Op.cols, Op.den] at hsq hH
      exact defaultRmm_sa A.rows A.cols A.den.f (fun b X => (A.mm b X).f) hmm hsq hH b X
    · rw [if_neg hsa, forceV_f]
      exact defaultRmm_lin A.rows A.cols A.den.f (fun b X => (A.mm b X).f) hmm b X

/-! ## Product -/

/-- the matrix `den (prod Ms)` before `forceV` -/
def denChain (Ms : List (Op R)) : MatF R :=
  (Ms.map (fun M => (M.cols, M.den.f))).foldr (fun p acc => mmul p.1 p.2 acc) eyeM

omit [DecidableEq R] in
theorem denChain_cons (M : Op R) (Ms : List (Op R)) :
    denChain (M :: Ms) = mmul M.cols M.den.f (denChain Ms) := rfl

theorem prod_mm_aux (b : Nat) : ∀ (Ms : List (Op R)) (M0 : Op R),
    (∀ M ∈ M0 :: Ms, MmOK M) →
    chainOk ((M0 :: Ms).map (fun M => (M.rows, M.cols))) = true →
    ∀ V : MatV R, EqOn M0.rows b ((M0 :: Ms).foldr (fun M acc => M.mm b acc.f) V).f
      (mmul (((M0 :: Ms).map (·.cols)).getLast?.getD 0) (denChain (M0 :: Ms)) V.f)
  | [], M0, h, _, V => by
    simp only [List.foldr_cons, List.foldr_nil, List.map_cons, List.map_nil,
      List.getLast?_singleton, Option.getD_some, denChain_cons]
    exact (h M0 List.mem_cons_self b V.f).trans
      (mmul_congr (eqOn_mmul_eyeM_right M0.rows M0.cols M0.den.f).symm (EqOn.refl _ _ _))
  | M1 :: Ms, M0, h, hc, V => by
    simp only [List.map_cons, chainOk, Bool.and_eq_true, beq_iff_eq] at hc
    have ih := prod_mm_aux b Ms M1 (fun M hM => h M (List.mem_cons_of_mem _ hM))
      (by simpa using hc.2) V
    rw [← hc.1] at ih
    simp only [List.foldr_cons, List.map_cons, List.getLast?_cons_cons, denChain_cons] at ih ⊢
    refine (h M0 List.mem_cons_self b _).trans ?_
    refine (mmul_congr (EqOn.refl M0.rows M0.cols _) ih).trans ?_
    intro i j _ _
    exact (mmul_assoc' _ _ _ _ _ i j).symm

theorem prod_rmm_aux (b : Nat) : ∀ (Ms : List (Op R)) (M0 : Op R),
    (∀ M ∈ M0 :: Ms, RmmOK M) →
    chainOk ((M0 :: Ms).map (fun M => (M.rows, M.cols))) = true →
    ∀ V : MatV R, EqOn b (((M0 :: Ms).map (·.cols)).getLast?.getD 0)
      ((M0 :: Ms).foldl (fun acc M => M.rmm b acc.f) V).f
      (mmul M0.rows V.f (denChain (M0 :: Ms)))
  | [], M0, h, _, V => by
    simp only [List.foldl_cons, List.foldl_nil, List.map_cons, List.map_nil,
      List.getLast?_singleton, Option.getD_some, denChain_cons]
    exact (h M0 List.mem_cons_self b V.f).trans
      (mmul_congr (EqOn.refl _ _ _) (eqOn_mmul_eyeM_right M0.rows M0.cols M0.den.f).symm)
  | M1 :: Ms, M0, h, hc, V => by
    simp only [List.map_cons, chainOk, Bool.and_eq_true, beq_iff_eq] at hc
    have ih := prod_rmm_aux b Ms M1 (fun M hM => h M (List.mem_cons_of_mem _ hM))
      (by simpa using hc.2) (M0.rmm b V.f)
    rw [← hc.1] at ih
    have h0 := h M0 List.mem_cons_self b V.f
    rw [List.foldl_cons, denChain_cons]
    simp only [List.map_cons, List.getLast?_cons_cons] at ih ⊢
    refine ih.trans ?_
    refine (mmul_congr h0 (EqOn.refl M0.cols _ _)).trans ?_
    intro i j _ _
    exact mmul_assoc' _ _ _ _ _ i j

theorem mmOK_prod (Ms : List (Op R)) (hwf : (prod Ms).wf = true) (h : ∀ M ∈ Ms, MmOK M) :
    MmOK (prod Ms) := by
  intro b X
  simp only [Op.wf, Bool.and_eq_true] at hwf
  cases Ms with
  | nil => simp at hwf
  | cons M0 Ms =>
    have := prod_mm_aux b Ms M0 h hwf.2 (MatV.of X)
    simp only [Op.mm, Op.rows, Op.cols, Op.den, forceV_f]
    exact this

theorem rmmOK_prod (Ms : List (Op R)) (hwf : (prod Ms).wf = true) (h : ∀ M ∈ Ms, RmmOK M) :
    RmmOK (prod Ms) := by
  intro b X
  simp only [Op.wf, Bool.and_eq_true] at hwf
  cases Ms with
  | nil => simp at hwf
  | cons M0 Ms =>
    have := prod_rmm_aux b Ms M0 h hwf.2 (MatV.of X)
    simp only [Op.rmm, Op.rows, Op.cols, Op.den, forceV_f]
    exact this

/-! ## Sum -/

omit [CommRing R] [StarRing R] [DecidableEq R] in
theorem sum_shapes (Ms : List (Op R)) (hwf : (sum Ms).wf = true) :
    ∀ M ∈ Ms, M.rows = (sum Ms).rows ∧ M.cols = (sum Ms).cols := by
  intro M hM
  simp only [Op.wf, Bool.and_eq_true] at hwf
  have h := List.all_eq_true.mp hwf.2 (M.rows, M.cols) (List.mem_map.mpr ⟨M, hM, rfl⟩)
  simp only [beq_iff_eq] at h
  cases Ms with
  | nil => cases hM
  | cons M0 Ms =>
    simp only [List.map_cons, List.head?_cons, Option.getD_some, Prod.mk.injEq] at h
    simp only [Op.rows, Op.cols, List.map_cons, List.head?_cons, Option.getD_some]
    exact h

theorem mmOK_sum (Ms : List (Op R)) (hwf : (sum Ms).wf = true) (h : ∀ M ∈ Ms, MmOK M) :
    MmOK (sum Ms) := by
  intro b X i j hi hj
  have hsh := sum_shapes Ms hwf
  have key := sumMatmat_eq_pairs (sum Ms).rows (sum Ms).cols b
    (Ms.map (fun M => ((fun Y => M.mm b Y), M.den.f))) (by
      intro t ht Y i j hi hj
      obtain ⟨M, hM, rfl⟩ := List.mem_map.mp ht
      simp only
      rw [← (hsh M hM).1] at hi
      rw [h M hM b Y i j hi hj, mmul_apply, (hsh M hM).2]) X i j hi hj
  simp only [List.map_map, Function.comp_def] at key
  rw [mmul_apply]
  simp only [Op.mm, forceV_f, Op.den]
  exact key

theorem rmmOK_sum (Ms : List (Op R)) (hwf : (sum Ms).wf = true) (h : ∀ M ∈ Ms, RmmOK M) :
    RmmOK (sum Ms) := by
  intro b X i j hi hj
  have hsh := sum_shapes Ms hwf
  have key := sumMatmat_right (sum Ms).rows b (sum Ms).cols Ms
    (fun M Y => M.rmm b Y) (fun M => M.den.f) (by
      intro M hM Y i j hi hj
      rw [← (hsh M hM).2] at hj
      rw [h M hM b Y i j hi hj, mmul_apply, (hsh M hM).1]) X i j hi hj
  rw [mmul_apply]
  simp only [Op.rmm, forceV_f, Op.den]
  exact key

/-! ## Kronecker, KronSum, BlockDiag -/

/-- a member as the composite kernels see it: shape, represented matrix, `_matmat` -/
def facMm (M : Op R) : FacAct R := ⟨M.rows, M.cols, M.den.f, fun b' m => M.mm b' m⟩
/-- a member as `den` of the composite kinds sees it -/
def facDen (M : Op R) : FacAct R := ⟨M.rows, M.cols, M.den.f, fun _ m => MatV.of m⟩
/-- a member as `to_dense` of the composite kinds sees it -/
def facTd (M : Op R) : FacAct R := ⟨M.rows, M.cols, M.td.f, fun _ m => MatV.of m⟩

theorem facMm_ok (M : Op R) (h : MmOK M) : (facMm M).Ok := by
  intro b m p f hp hf
  exact (h b m p f hp hf).trans (mmul_apply _ _ _ _ _)

theorem map_facMm_r (Ms : List (Op R)) : (Ms.map facMm).map (·.r) = Ms.map (·.rows) := by
  rw [List.map_map]; rfl
theorem map_facMm_c (Ms : List (Op R)) : (Ms.map facMm).map (·.c) = Ms.map (·.cols) := by
  rw [List.map_map]; rfl
theorem map_facTd_r (Ms : List (Op R)) : (Ms.map facTd).map (·.r) = Ms.map (·.rows) := by
  rw [List.map_map]; rfl
theorem map_facTd_c (Ms : List (Op R)) : (Ms.map facTd).map (·.c) = Ms.map (·.cols) := by
  rw [List.map_map]; rfl

theorem facEqOn_mm_den (Ms : List (Op R)) : FacEqOn Ms (facMm (R := R)) facDen :=
  fun _ _ => ⟨rfl, rfl, EqOn.refl _ _ _⟩

theorem mmOK_kron (Ms : List (Op R)) (h : ∀ M ∈ Ms, MmOK M) : MmOK (kron Ms) := by
  intro b X I col hI hcol
  simp only [Op.rows] at hI
  have hOk : ∀ F ∈ Ms.map facMm, F.Ok := by
    intro F hF
    obtain ⟨M, hM, rfl⟩ := List.mem_map.mp hF
    exact facMm_ok M (h M hM)
  have hI' : I < ((Ms.map facMm).map (·.r)).prod := by rw [map_facMm_r]; exact hI
  have key := kronMatmat_eq (Ms.map facMm) hOk b X I col hI' hcol
  rw [mmul_apply]
  simp only [Op.mm, forceV_f, Op.den, Op.cols]
  refine key.trans ?_
  rw [map_facMm_c]
  apply Finset.sum_congr rfl
  intro J hJ
  have hJ' : J < ((Ms.map facMm).map (·.c)).prod := by
    rw [map_facMm_c]; exact Finset.mem_range.mp hJ
  rw [kronDen_congr facMm facDen Ms (facEqOn_mm_den Ms) I J hI' hJ']
  rfl

omit [CommRing R] [StarRing R] [DecidableEq R] in
theorem kronsum_square (Ms : List (Op R)) (hwf : (kronsum Ms).wf = true) :
    ∀ M ∈ Ms, M.rows = M.cols := by
  intro M hM
  simp only [Op.wf, Bool.and_eq_true] at hwf
  have h := List.all_eq_true.mp hwf.2 (M.rows, M.cols) (List.mem_map.mpr ⟨M, hM, rfl⟩)
  simpa using h

theorem mmOK_kronsum (Ms : List (Op R)) (hwf : (kronsum Ms).wf = true)
    (h : ∀ M ∈ Ms, MmOK M) : MmOK (kronsum Ms) := by
  intro b X I col hI hcol
  simp only [Op.rows] at hI
  have hOk : ∀ F ∈ Ms.map facMm, F.Ok := by
    intro F hF
    obtain ⟨M, hM, rfl⟩ := List.mem_map.mp hF
    exact facMm_ok M (h M hM)
  have hsq : ∀ F ∈ Ms.map facMm, F.r = F.c := by
    intro F hF
    obtain ⟨M, hM, rfl⟩ := List.mem_map.mp hF
    exact kronsum_square Ms hwf M hM
  have hI' : I < ((Ms.map facMm).map (·.r)).prod := by rw [map_facMm_r]; exact hI
  have key := kronSumMatmat_eq (Ms.map facMm) hOk hsq b X I col hI' hcol
  rw [mmul_apply]
  simp only [Op.mm, forceV_f, Op.den, Op.cols]
  refine key.trans ?_
  rw [map_facMm_c]
  apply Finset.sum_congr rfl
  intro J hJ
  have hJ' : J < ((Ms.map facMm).map (·.c)).prod := by
    rw [map_facMm_c]; exact Finset.mem_range.mp hJ
  rw [kronSumDen_congr facMm facDen Ms (facEqOn_mm_den Ms) I J hI' hJ']
  rfl

theorem mmOK_bdiag (Ms : List (Op R)) (mults : List Nat) (h : ∀ M ∈ Ms, MmOK M) :
    MmOK (bdiag Ms mults) := by
  intro b X I col hI hcol
  simp only [Op.rows] at hI
  have hOk : ∀ p ∈ (Ms.map facMm).zip mults, p.1.Ok := by
    intro p hp
    have hF := (List.of_mem_zip (a := p.1) (b := p.2) hp).1
    obtain ⟨M, hM, hMe⟩ := List.mem_map.mp hF
    rw [← hMe]
    exact facMm_ok M (h M hM)
  have hI' : I < (((Ms.map facMm).zip mults).map (fun p => p.2 * p.1.r)).sum := by
    rw [← dotSum_rows facMm Ms mults]; exact hI
  have key := bdiagMatmat_eq ((Ms.map facMm).zip mults) hOk b X I col hI' hcol
  rw [mmul_apply]
  simp only [Op.mm, forceV_f, Op.den, Op.cols]
  refine key.trans ?_
  rw [← dotSum_cols facMm Ms mults]
  apply Finset.sum_congr rfl
  intro J _
  rw [bdiagDen_congr facMm facDen Ms mults (facEqOn_mm_den Ms) I J]
  rfl

/-! ## Sliced -/

theorem getD_resolve_lt (n : Nat) (ix : Ix) : ∀ t ∈ (Ix.resolve n ix).getD [], t < n := by
  cases h : Ix.resolve n ix with
  | none => simp
  | some l => simpa using Ix.resolve_lt n ix l h

omit [CommRing R] [StarRing R] [DecidableEq R] in
theorem sliced_nodup (A : Op R) (s0 s1 : Ix) (hnd : (sliced A s0 s1).dupSlice = false) :
    (idxR A s0).Nodup ∧ (idxC A s1).Nodup := by
  simp only [Op.dupSlice, Bool.or_eq_false_iff, Bool.not_eq_false', decide_eq_true_eq] at hnd
  exact ⟨hnd.1.2, hnd.2⟩

theorem mmOK_sliced (A : Op R) (s0 s1 : Ix) (hnd : (sliced A s0 s1).dupSlice = false)
    (h : MmOK A) : MmOK (sliced A s0 s1) := by
  intro b X i j hi hj
  simp only [Op.rows] at hi
  have key := slicedMatmat_eq (fun Y => A.mm b Y) A.den.f A.rows A.cols b
    (fun Y i j hi hj => (h b Y i j hi hj).trans (mmul_apply _ _ _ _ _))
    (idxR A s0) (idxC A s1) (getD_resolve_lt _ _) (getD_resolve_lt _ _)
    (sliced_nodup A s0 s1 hnd).2 X i j hi hj
  rw [mmul_apply]
  simp only [Op.mm, forceV_f, Op.den, Op.cols, MatV.of_f]
  exact key

theorem rmmOK_sliced (A : Op R) (s0 s1 : Ix) (hnd : (sliced A s0 s1).dupSlice = false)
    (h : RmmOK A) : RmmOK (sliced A s0 s1) := by
  intro b X i j hi hj
  simp only [Op.cols] at hj
  have key := slicedRmatmat_eq (fun Y => A.rmm b Y) A.den.f A.rows A.cols b
    (fun Y i j hi hj => (h b Y i j hi hj).trans (mmul_apply _ _ _ _ _))
    (idxR A s0) (idxC A s1) (getD_resolve_lt _ _) (getD_resolve_lt _ _)
    (sliced_nodup A s0 s1 hnd).1 X i j hi hj
  rw [mmul_apply]
  simp only [Op.rmm, forceV_f, Op.den, Op.rows, MatV.of_f]
  exact key

/-! ## Concatenated -/

omit [CommRing R] [StarRing R] [DecidableEq R] in
theorem concat_shapes_h (Ms : List (Op R)) (hwf : (concat true Ms).wf = true) :
    ∀ M ∈ Ms, M.rows = (concat true Ms).rows := by
  intro M hM
  simp only [Op.wf, Bool.and_eq_true, if_true] at hwf
  have h := List.all_eq_true.mp hwf.2 M.rows (List.mem_map.mpr ⟨M, hM, rfl⟩)
  simp only [beq_iff_eq] at h
  simp only [Op.rows, if_true]
  exact h

omit [CommRing R] [StarRing R] [DecidableEq R] in
theorem concat_shapes_v (Ms : List (Op R)) (hwf : (concat false Ms).wf = true) :
    ∀ M ∈ Ms, M.cols = (concat false Ms).cols := by
  intro M hM
  simp only [Op.wf, Bool.and_eq_true, Bool.false_eq_true, if_false] at hwf
  have h := List.all_eq_true.mp hwf.2 M.cols (List.mem_map.mpr ⟨M, hM, rfl⟩)
  simp only [beq_iff_eq] at h
  simp only [Op.cols, Bool.false_eq_true, if_false]
  exact h

theorem mmOK_concat_h (Ms : List (Op R)) (hwf : (concat true Ms).wf = true)
    (h : ∀ M ∈ Ms, MmOK M) : MmOK (concat true Ms) := by
  intro b X i j hi hj
  have hsh := concat_shapes_h Ms hwf
  have key := hcatMatmat_eq_triples (concat true Ms).rows b
    (Ms.map (fun M => (M.cols, (fun Y => M.mm b Y), M.den.f))) (by
      intro t ht Y i j hi hj
      obtain ⟨M, hM, rfl⟩ := List.mem_map.mp ht
      simp only
      rw [← hsh M hM] at hi
      rw [h M hM b Y i j hi hj, mmul_apply]) X i j hi hj
  simp only [List.map_map, Function.comp_def] at key
  rw [mmul_apply]
  simp only [Op.mm, Op.den, Op.cols, if_true, MatV.of_f]
  exact key

theorem mmOK_concat_v (Ms : List (Op R)) (hwf : (concat false Ms).wf = true)
    (h : ∀ M ∈ Ms, MmOK M) : MmOK (concat false Ms) := by
  intro b X i j _ hj
  have hsh := concat_shapes_v Ms hwf
  have hF : List.Forall₂ (fun (a : Nat × (MatF R → MatV R)) (A : MatF R) =>
      ∀ Y i j, i < a.1 → j < b → (a.2 Y).f i j = ∑ q ∈ range (concat false Ms).cols, A i q * Y q j)
      (Ms.map (fun M => (M.rows, fun Y => M.mm b Y))) (Ms.map (fun M => M.den.f)) := by
    rw [List.forall₂_map_left_iff, List.forall₂_map_right_iff, List.forall₂_same]
    intro M hM Y i j hi hj
    simp only at hi ⊢
    rw [h M hM b Y i j hi hj, mmul_apply, hsh M hM]
  have key := vstack_acts_eq (concat false Ms).cols b _ _ hF X i j hj
  simp only [List.map_map, Function.comp_def, List.zip_map'] at key
  rw [mmul_apply]
  simp only [Op.mm, Op.den, Bool.false_eq_true, if_false, MatV.of_f]
  exact key

/-! ## the recursion -/

theorem mm_rmm_ok : ∀ (A : Op R), Good A → MmOK A ∧ RmmOK A
  | dense dt r c a, _ => ⟨mmOK_dense dt r c a, rmmOK_dense dt r c a⟩
  | tri dt r c l a, _ => ⟨mmOK_tri dt r c l a, rmmOK_tri dt r c l a⟩
  | sparse dt r c e, _ => ⟨mmOK_sparse dt r c e, rmmOK_sparse dt r c e⟩
  | scalar dt s n, h =>
    have hm := mmOK_scalar dt s n
    ⟨hm, rmmOK_default _ (by simp [hasExplicitRmm]) (by intro a B e; cases e) hm h.herm.node⟩
  | eye dt n, h =>
    have hm := mmOK_eye (R := R) dt n
    ⟨hm, rmmOK_default _ (by simp [hasExplicitRmm]) (by intro a B e; cases e) hm h.herm.node⟩
  | prod Ms, h =>
    have ih : ∀ M ∈ Ms, MmOK M ∧ RmmOK M := fun M hM => mm_rmm_ok M (h.prod_mem M hM)
    ⟨mmOK_prod Ms h.wf (fun M hM => (ih M hM).1), rmmOK_prod Ms h.wf (fun M hM => (ih M hM).2)⟩
  | sum Ms, h =>
    have ih : ∀ M ∈ Ms, MmOK M ∧ RmmOK M := fun M hM => mm_rmm_ok M (h.sum_mem M hM)
    ⟨mmOK_sum Ms h.wf (fun M hM => (ih M hM).1), rmmOK_sum Ms h.wf (fun M hM => (ih M hM).2)⟩
  | kron Ms, h =>
    have ih : ∀ M ∈ Ms, MmOK M ∧ RmmOK M := fun M hM => mm_rmm_ok M (h.kron_mem M hM)
    have hm := mmOK_kron Ms (fun M hM => (ih M hM).1)
    ⟨hm, rmmOK_default _ (by simp [hasExplicitRmm]) (by intro a B e; cases e) hm h.herm.node⟩
  | kronsum Ms, h =>
    have ih : ∀ M ∈ Ms, MmOK M ∧ RmmOK M := fun M hM => mm_rmm_ok M (h.kronsum_mem M hM)
    have hm := mmOK_kronsum Ms h.wf (fun M hM => (ih M hM).1)
    ⟨hm, rmmOK_default _ (by simp [hasExplicitRmm]) (by intro a B e; cases e) hm h.herm.node⟩
  | bdiag Ms mults, h =>
    have ih : ∀ M ∈ Ms, MmOK M ∧ RmmOK M := fun M hM => mm_rmm_ok M (h.bdiag_mem M hM)
    have hm := mmOK_bdiag Ms mults (fun M hM => (ih M hM).1)
    ⟨hm, rmmOK_default _ (by simp [hasExplicitRmm]) (by intro a B e; cases e) hm h.herm.node⟩
  | diag dt n d, _ => ⟨mmOK_diag dt n d, rmmOK_diag dt n d⟩
  | tridiag dt n al be ga, h =>
    have hm := mmOK_tridiag dt n al be ga
    ⟨hm, rmmOK_default _ (by simp [hasExplicitRmm]) (by intro a B e; cases e) hm h.herm.node⟩
  | transpose A, h =>
    have ih := mm_rmm_ok A h.transpose_child
    ⟨mmOK_transpose A ih.2, rmmOK_transpose A ih.1⟩
  | adjoint A, h =>
    have ih := mm_rmm_ok A h.adjoint_child
    ⟨mmOK_adjoint A ih.2, rmmOK_adjoint A ih.1⟩
  | sliced A s0 s1, h =>
    have ih := mm_rmm_ok A h.sliced_child
    ⟨mmOK_sliced A s0 s1 h.nd ih.1, rmmOK_sliced A s0 s1 h.nd ih.2⟩
  | perm dt p, h =>
    have hm := mmOK_perm (R := R) dt p h.wf
    ⟨hm, rmmOK_default _ (by simp [hasExplicitRmm]) (by intro a B e; cases e) hm h.herm.node⟩
  | concat true Ms, h =>
    have ih : ∀ M ∈ Ms, MmOK M ∧ RmmOK M := fun M hM => mm_rmm_ok M (h.concat_mem M hM)
    have hm := mmOK_concat_h Ms h.wf (fun M hM => (ih M hM).1)
    ⟨hm, rmmOK_default _ (by simp [hasExplicitRmm]) (by intro a B e; cases e) hm h.herm.node⟩
  | concat false Ms, h =>
    have ih : ∀ M ∈ Ms, MmOK M ∧ RmmOK M := fun M hM => mm_rmm_ok M (h.concat_mem M hM)
    have hm := mmOK_concat_v Ms h.wf (fun M hM => (ih M hM).1)
    ⟨hm, rmmOK_default _ (by simp [hasExplicitRmm]) (by intro a B e; cases e) hm h.herm.node⟩
  | house dt n v beta, h =>
    have hm := mmOK_house dt n v beta
    ⟨hm, rmmOK_default _ (by simp [hasExplicitRmm]) (by intro a B e; cases e) hm h.herm.node⟩
  | generic A, h =>
    have ih := mm_rmm_ok A h.generic_child
    have hm := mmOK_generic A ih.1
    ⟨hm, rmmOK_default _ (by simp [hasExplicitRmm]) (by intro a B e; cases e) hm h.herm.node⟩
  | annot a A, h =>
    have ih := mm_rmm_ok A h.annot_child
    ⟨mmOK_annot a A ih.1, rmmOK_annot a A ih.1 ih.2 h.herm.node⟩
termination_by A => sizeOf A

theorem mm_eq (A : Op R) (hwf : A.wf = true) (hnd : A.dupSlice = false) (hh : A.HermOK)
    (b : Nat) (X : MatF R) : EqOn A.rows b (A.mm b X).f (mmul A.cols A.den.f X) :=
  (mm_rmm_ok A ⟨hwf, hnd, hh⟩).1 b X

theorem rmm_eq (A : Op R) (hwf : A.wf = true) (hnd : A.dupSlice = false) (hh : A.HermOK)
    (b : Nat) (X : MatF R) : EqOn b A.cols (A.rmm b X).f (mmul A.rows X A.den.f) :=
  (mm_rmm_ok A ⟨hwf, hnd, hh⟩).2 b X

/-! ## `to_dense` -/

theorem td_of_mm (A : Op R) (hm : MmOK A) : EqOn A.rows A.cols (A.mm A.cols eyeM).f A.den.f :=
  (hm A.cols eyeM).trans (eqOn_mmul_eyeM_right A.rows A.cols A.den.f)

theorem td_of_rmm (A : Op R) (hr : RmmOK A) : EqOn A.rows A.cols (A.rmm A.rows eyeM).f A.den.f :=
  (hr A.rows eyeM).trans (eqOn_mmul_eyeM_left A.rows A.cols A.den.f)

/-- the kinds without an explicit `to_dense` run the default (`A @ I`, or `I @ A` when wide) -/
theorem td_default (A : Op R) (h1 : A.hasExplicitTd = false) (h2 : ∀ a B, A ≠ annot a B) :
    A.td = if 8 * A.rows < A.cols then A.rmm A.rows eyeM else A.mm A.cols eyeM := by
  cases A with
  | annot a B => exact absurd rfl (h2 a B)
  | dense => simp [hasExplicitTd] at h1
  | tri => simp [hasExplicitTd] at h1
  | kron => simp [hasExplicitTd] at h1
  | kronsum => simp [hasExplicitTd] at h1
  | bdiag => simp [hasExplicitTd] at h1
  | diag => simp [hasExplicitTd] at h1
  | sparse => rw [Op.td] <;> intros <;> simp_all
  | scalar => rw [Op.td] <;> intros <;> simp_all
  | eye => rw [Op.td] <;> intros <;> simp_all
  | prod => rw [Op.td] <;> intros <;> simp_all
  | sum => rw [Op.td] <;> intros <;> simp_all
  | tridiag => rw [Op.td] <;> intros <;> simp_all
  | transpose => rw [Op.td] <;> intros <;> simp_all
  | adjoint => rw [Op.td] <;> intros <;> simp_all
  | sliced => rw [Op.td] <;> intros <;> simp_all
  | perm => rw [Op.td] <;> intros <;> simp_all
  | concat => rw [Op.td] <;> intros <;> simp_all
  | house => rw [Op.td] <;> intros <;> simp_all
  | generic => rw [Op.td] <;> intros <;> simp_all

theorem td_default_ok (A : Op R) (h1 : A.hasExplicitTd = false) (h2 : ∀ a B, A ≠ annot a B)
    (h : Good A) : EqOn A.rows A.cols A.td.f A.den.f := by
  rw [td_default A h1 h2]
  have hmr := mm_rmm_ok A h
  split
  · exact td_of_rmm A hmr.2
  · exact td_of_mm A hmr.1

theorem facEqOn_td_den (Ms : List (Op R))
    (h : ∀ M ∈ Ms, EqOn M.rows M.cols M.td.f M.den.f) : FacEqOn Ms (facTd (R := R)) facDen :=
  fun M hM => ⟨rfl, rfl, h M hM⟩

theorem td_kron_ok (Ms : List (Op R)) (hwf : (kron Ms).wf = true)
    (h : ∀ M ∈ Ms, EqOn M.rows M.cols M.td.f M.den.f) :
    EqOn (kron Ms).rows (kron Ms).cols (kron Ms).td.f (kron Ms).den.f := by
  intro I J hI hJ
  simp only [Op.rows] at hI
  simp only [Op.cols] at hJ
  cases Ms with
  | nil => simp [Op.wf] at hwf
  | cons M0 Ms =>
    have hI' : I < (((M0 :: Ms).map facTd).map (·.r)).prod := by rw [map_facTd_r]; exact hI
    have hJ' : J < (((M0 :: Ms).map facTd).map (·.c)).prod := by rw [map_facTd_c]; exact hJ
    have key := kronDense_eq (facTd M0) (Ms.map facTd) I J hI' hJ'
    have hc := kronDen_congr facTd facDen (M0 :: Ms) (facEqOn_td_den _ h) I J hI' hJ'
    simp only [Op.td, Op.den, List.map_cons, forceV_f]
    exact key.trans hc

theorem td_kronsum_ok (Ms : List (Op R)) (hwf : (kronsum Ms).wf = true)
    (h : ∀ M ∈ Ms, EqOn M.rows M.cols M.td.f M.den.f) :
    EqOn (kronsum Ms).rows (kronsum Ms).cols (kronsum Ms).td.f (kronsum Ms).den.f := by
  intro I J hI hJ
  simp only [Op.rows] at hI
  simp only [Op.cols] at hJ
  have hsq0 := kronsum_square Ms hwf
  cases Ms with
  | nil => simp [Op.wf] at hwf
  | cons M0 Ms =>
    have hI' : I < (((M0 :: Ms).map facTd).map (·.r)).prod := by rw [map_facTd_r]; exact hI
    have hJ' : J < (((M0 :: Ms).map facTd).map (·.c)).prod := by rw [map_facTd_c]; exact hJ
    have hsq : ∀ F ∈ facTd M0 :: Ms.map facTd, F.r = F.c := by
      intro F hF
      rw [← List.map_cons] at hF
      obtain ⟨M, hM, rfl⟩ := List.mem_map.mp hF
      exact hsq0 M hM
    have key := kronSumDense_eq (facTd M0) (Ms.map facTd) hsq I J hI' hJ'
    have hc := kronSumDen_congr facTd facDen (M0 :: Ms) (facEqOn_td_den _ h) I J hI' hJ'
    simp only [Op.td, Op.den, List.map_cons, forceV_f]
    exact key.trans hc

theorem td_bdiag_ok (Ms : List (Op R)) (mults : List Nat)
    (h : ∀ M ∈ Ms, EqOn M.rows M.cols M.td.f M.den.f) :
    EqOn (bdiag Ms mults).rows (bdiag Ms mults).cols (bdiag Ms mults).td.f
      (bdiag Ms mults).den.f := by
  intro I J _ _
  have hc := bdiagDen_congr facTd facDen Ms mults (facEqOn_td_den _ h) I J
  simp only [Op.td, Op.den, forceV_f]
  exact hc

theorem td_ok : ∀ (A : Op R), Good A → EqOn A.rows A.cols A.td.f A.den.f
  | dense dt r c a, _ => by simp only [Op.td, Op.den]; exact EqOn.refl _ _ _
  | tri dt r c l a, _ => by simp only [Op.td, Op.den]; exact EqOn.refl _ _ _
  | diag dt n d, _ => by simp only [Op.td, Op.den]; exact EqOn.refl _ _ _
  | kron Ms, h => td_kron_ok Ms h.wf (fun M hM => td_ok M (h.kron_mem M hM))
  | kronsum Ms, h => td_kronsum_ok Ms h.wf (fun M hM => td_ok M (h.kronsum_mem M hM))
  | bdiag Ms mults, h => td_bdiag_ok Ms mults (fun M hM => td_ok M (h.bdiag_mem M hM))
  | annot a A, h => by
    have ih := td_ok A h.annot_child
    have hA := mm_rmm_ok A h.annot_child
    have hR := (mm_rmm_ok (annot a A) h).2 A.rows eyeM
    rw [Op.td]
    simp only [Op.rows, Op.cols, Op.den] at hR ⊢
    split
    · exact ih
    · split
      · exact hR.trans (eqOn_mmul_eyeM_left A.rows A.cols A.den.f)
      · exact td_of_mm A hA.1
  | sparse dt r c e, h =>
    td_default_ok _ (by simp [hasExplicitTd]) (by intro a B e; cases e) h
  | scalar dt s n, h =>
    td_default_ok _ (by simp [hasExplicitTd]) (by intro a B e; cases e) h
  | eye dt n, h =>
    td_default_ok _ (by simp [hasExplicitTd]) (by intro a B e; cases e) h
  | prod Ms, h =>
    td_default_ok _ (by simp [hasExplicitTd]) (by intro a B e; cases e) h
  | sum Ms, h =>
    td_default_ok _ (by simp [hasExplicitTd]) (by intro a B e; cases e) h
  | tridiag dt n al be ga, h =>
    td_default_ok _ (by simp [hasExplicitTd]) (by intro a B e; cases e) h
  | transpose A, h =>
    td_default_ok _ (by simp [hasExplicitTd]) (by intro a B e; cases e) h
  | adjoint A, h =>
    td_default_ok _ (by simp [hasExplicitTd]) (by intro a B e; cases e) h
  | sliced A s0 s1, h =>
    td_default_ok _ (by simp [hasExplicitTd]) (by intro a B e; cases e) h
  | perm dt p, h =>
    td_default_ok _ (by simp [hasExplicitTd]) (by intro a B e; cases e) h
  | concat ax Ms, h =>
    td_default_ok _ (by simp [hasExplicitTd]) (by intro a B e; cases e) h
  | house dt n v beta, h =>
    td_default_ok _ (by simp [hasExplicitTd]) (by intro a B e; cases e) h
  | generic A, h =>
    td_default_ok _ (by simp [hasExplicitTd]) (by intro a B e; cases e) h
termination_by A => sizeOf A

theorem td_eq (A : Op R) (hwf : A.wf = true) (hnd : A.dupSlice = false) (hh : A.HermOK) :
    EqOn A.rows A.cols A.td.f A.den.f :=
  td_ok A ⟨hwf, hnd, hh⟩

end Op

#print axioms Op.mm_eq
#print axioms Op.rmm_eq
#print axioms Op.td_eq
