import Mathlib.LinearAlgebra.Matrix.NonsingularInverse
import Mathlib.LinearAlgebra.Matrix.Kronecker
import Mathlib.LinearAlgebra.Matrix.ConjTranspose
import Mathlib.Data.Matrix.Block
import Mathlib.LinearAlgebra.Lagrange
import Mathlib.Algebra.Polynomial.AlgebraMap
import Mathlib.Algebra.Polynomial.Eval.Degree
import ColaVerif.Lemmas.KrylovPoly

/-!
# C09 — the specification "F is f of the matrix A" and its calculus

`IsMatFunOn S f A F` : there is a diagonalisation `A = V diag(d) V⁻¹` with all `d i ∈ S` and
`F = V diag(f ∘ d) V⁻¹`.  (`V⁻¹` is carried as a second matrix `Vi` with `Vi * V = 1`; for square
matrices over a field that is the inverse — `isMatFun_iff_nonsingInv`.)  `S` is the set the spectrum is
known to lie in (the domain of the function); `IsMatFun f A F = IsMatFunOn univ f A F`.

The index type is any finite type: `Fin n` for the operators themselves, `ι × κ` for Kronecker
products and `ι ⊕ κ` for block-diagonal matrices (transported back by `IsMatFunOn.reindex`).

* well-definedness: `IsMatFunOn.eq_aeval` (`F = p(A)` for every polynomial `p` that agrees with `f`
  on the spectrum), `IsMatFun.unique` (Lagrange interpolation);
* the rules: `diagonal`, `smul_one`, `fromBlocks`, `transpose`, `conjTranspose`, `kronSum`
  (`f(a+b) = f a * f b`), `kronecker` (`f(ab) = f a * f b` on the spectra);
* identities: `pow_nat` (natural powers are repeated products), `inv_mul` (power −1 is the inverse),
  `sqrt_twice`;
* Krylov: `intertwine` (`A Q = Q T ⇒ f(A) Q = Q f(T)`), `krylov_apply`, `matFun_of_krylov_columns`
  (on top of the ring-level statements of `Lemmas/KrylovPoly.lean`).
-/

open Matrix Polynomial
open scoped Kronecker

namespace MatFun

variable {𝕜 : Type} [Field 𝕜]
variable {ι κ : Type} [Fintype ι] [DecidableEq ι] [Fintype κ] [DecidableEq κ]

/-- `F = f(A)` through a diagonalisation of `A` whose eigenvalues lie in `S` -/
def IsMatFunOn (S : Set 𝕜) (f : 𝕜 → 𝕜) (A F : Matrix ι ι 𝕜) : Prop :=
  ∃ (V Vi : Matrix ι ι 𝕜) (d : ι → 𝕜), Vi * V = 1 ∧ (∀ i, d i ∈ S) ∧
    A = V * diagonal d * Vi ∧ F = V * diagonal (fun i => f (d i)) * Vi

/-- `F = f(A)`, no information on the spectrum -/
abbrev IsMatFun (f : 𝕜 → 𝕜) (A F : Matrix ι ι 𝕜) : Prop := IsMatFunOn Set.univ f A F

/-- `A` is diagonalisable with spectrum in `S` -/
def DiagonalisableOn (S : Set 𝕜) (A : Matrix ι ι 𝕜) : Prop :=
  ∃ (V Vi : Matrix ι ι 𝕜) (d : ι → 𝕜), Vi * V = 1 ∧ (∀ i, d i ∈ S) ∧ A = V * diagonal d * Vi

theorem IsMatFunOn.diagonalisable {S : Set 𝕜} {f : 𝕜 → 𝕜} {A F : Matrix ι ι 𝕜}
    (h : IsMatFunOn S f A F) : DiagonalisableOn S A := by
  obtain ⟨V, Vi, d, h1, h2, h3, _⟩ := h
  exact ⟨V, Vi, d, h1, h2, h3⟩

/-- every diagonalisable matrix has an `f` of it -/
theorem DiagonalisableOn.exists_matFun {S : Set 𝕜} {A : Matrix ι ι 𝕜} (h : DiagonalisableOn S A)
    (f : 𝕜 → 𝕜) : ∃ F, IsMatFunOn S f A F := by
  obtain ⟨V, Vi, d, h1, h2, h3⟩ := h
  exact ⟨_, V, Vi, d, h1, h2, h3, rfl⟩

theorem IsMatFunOn.mono {S T : Set 𝕜} (hST : S ⊆ T) {f : 𝕜 → 𝕜} {A F : Matrix ι ι 𝕜}
    (h : IsMatFunOn S f A F) : IsMatFunOn T f A F := by
  obtain ⟨V, Vi, d, h1, h2, h3, h4⟩ := h
  exact ⟨V, Vi, d, h1, fun i => hST (h2 i), h3, h4⟩

theorem IsMatFunOn.isMatFun {S : Set 𝕜} {f : 𝕜 → 𝕜} {A F : Matrix ι ι 𝕜}
    (h : IsMatFunOn S f A F) : IsMatFun f A F := h.mono (Set.subset_univ _)

/-- only the values of `f` on `S` matter -/
theorem IsMatFunOn.congr {S : Set 𝕜} {f g : 𝕜 → 𝕜} {A F : Matrix ι ι 𝕜}
    (h : IsMatFunOn S f A F) (hfg : ∀ a ∈ S, f a = g a) : IsMatFunOn S g A F := by
  obtain ⟨V, Vi, d, h1, h2, h3, h4⟩ := h
  refine ⟨V, Vi, d, h1, h2, h3, ?_⟩
  have : (fun i => f (d i)) = fun i => g (d i) := funext fun i => hfg _ (h2 i)
  rw [h4, this]

/-- the relational specification in the textbook form with Mathlib's nonsingular inverse -/
theorem isMatFunOn_iff_nonsingInv {S : Set 𝕜} {f : 𝕜 → 𝕜} {A F : Matrix ι ι 𝕜} :
    IsMatFunOn S f A F ↔ ∃ (V : Matrix ι ι 𝕜) (d : ι → 𝕜), IsUnit V.det ∧ (∀ i, d i ∈ S) ∧
      A = V * diagonal d * V⁻¹ ∧ F = V * diagonal (fun i => f (d i)) * V⁻¹ := by
  constructor
  · rintro ⟨V, Vi, d, h1, h2, h3, h4⟩
    have hV : IsUnit V.det := by
      have := congrArg Matrix.det h1
      rw [det_mul, det_one] at this
      exact IsUnit.of_mul_eq_one _ (by rw [mul_comm]; exact this)
    have hVi : Vi = V⁻¹ := (Matrix.inv_eq_left_inv h1).symm
    exact ⟨V, d, hV, h2, hVi ▸ h3, hVi ▸ h4⟩
  · rintro ⟨V, d, hV, h2, h3, h4⟩
    exact ⟨V, V⁻¹, d, Matrix.nonsing_inv_mul V hV, h2, h3, h4⟩

/-! ## the structural rules -/

/-- **Diagonal** (`V = 1`) -/
theorem IsMatFunOn.diagonal {S : Set 𝕜} (f : 𝕜 → 𝕜) (d : ι → 𝕜) (hd : ∀ i, d i ∈ S) :
    IsMatFunOn S f (Matrix.diagonal d) (Matrix.diagonal (fun i => f (d i))) :=
  ⟨1, 1, d, by simp, hd, by simp, by simp⟩

/-- **ScalarMul / Identity**: `f(c·1) = f(c)·1` -/
theorem IsMatFunOn.smul_one {S : Set 𝕜} (f : 𝕜 → 𝕜) (c : 𝕜) (hc : c ∈ S) :
    IsMatFunOn S f (c • (1 : Matrix ι ι 𝕜)) (f c • (1 : Matrix ι ι 𝕜)) := by
  rw [smul_one_eq_diagonal, smul_one_eq_diagonal]
  exact IsMatFunOn.diagonal f (fun _ => c) (fun _ => hc)

theorem IsMatFunOn.one {S : Set 𝕜} (f : 𝕜 → 𝕜) (h1 : (1 : 𝕜) ∈ S) :
    IsMatFunOn S f (1 : Matrix ι ι 𝕜) (f 1 • (1 : Matrix ι ι 𝕜)) := by
  have := IsMatFunOn.smul_one (ι := ι) f 1 h1
  rwa [one_smul] at this

/-- transport along a bijection of the index type -/
theorem IsMatFunOn.reindex {S : Set 𝕜} {f : 𝕜 → 𝕜} {A F : Matrix ι ι 𝕜} (e : ι ≃ κ)
    (h : IsMatFunOn S f A F) : IsMatFunOn S f (Matrix.reindex e e A) (Matrix.reindex e e F) := by
  obtain ⟨V, Vi, d, h1, h2, h3, h4⟩ := h
  refine ⟨Matrix.reindex e e V, Matrix.reindex e e Vi, fun k => d (e.symm k), ?_, fun k => h2 _, ?_, ?_⟩
  · simp only [reindex_apply]
    rw [submatrix_mul_equiv, h1, submatrix_one_equiv]
  · simp only [reindex_apply]
    have hd : (Matrix.diagonal fun k => d (e.symm k)) = (Matrix.diagonal d).submatrix e.symm e.symm := by
      rw [submatrix_diagonal_equiv]; rfl
    rw [hd, submatrix_mul_equiv, submatrix_mul_equiv, h3]
  · simp only [reindex_apply]
    have hd : (Matrix.diagonal fun k => f (d (e.symm k)))
        = (Matrix.diagonal fun i => f (d i)).submatrix e.symm e.symm := by
      rw [submatrix_diagonal_equiv]; rfl
    rw [hd, submatrix_mul_equiv, submatrix_mul_equiv, h4]

/-- **BlockDiag** (block-diagonal `V`) -/
theorem IsMatFunOn.fromBlocks {S : Set 𝕜} {f : 𝕜 → 𝕜} {A F : Matrix ι ι 𝕜} {B G : Matrix κ κ 𝕜}
    (hA : IsMatFunOn S f A F) (hB : IsMatFunOn S f B G) :
    IsMatFunOn S f (Matrix.fromBlocks A 0 0 B) (Matrix.fromBlocks F 0 0 G) := by
  obtain ⟨V, Vi, d, h1, h2, h3, h4⟩ := hA
  obtain ⟨W, Wi, e, g1, g2, g3, g4⟩ := hB
  refine ⟨Matrix.fromBlocks V 0 0 W, Matrix.fromBlocks Vi 0 0 Wi, Sum.elim d e, ?_, ?_, ?_, ?_⟩
  · rw [fromBlocks_multiply]
    simp [h1, g1, fromBlocks_one]
  · rintro (i | i)
    · exact h2 i
    · exact g2 i
  · have hd : Matrix.diagonal (Sum.elim d e) = Matrix.fromBlocks (Matrix.diagonal d) 0 0 (Matrix.diagonal e) := by
      rw [fromBlocks_diagonal]
    rw [hd, fromBlocks_multiply, fromBlocks_multiply]
    simp [← h3, ← g3]
  · have hd : Matrix.diagonal (fun i => f (Sum.elim d e i))
        = Matrix.fromBlocks (Matrix.diagonal (fun i => f (d i))) 0 0 (Matrix.diagonal (fun i => f (e i))) := by
      rw [fromBlocks_diagonal]
      congr 1
      ext i
      cases i <;> rfl
    rw [hd, fromBlocks_multiply, fromBlocks_multiply]
    simp [← h4, ← g4]

/-- **Transpose** (`V⁻ᵀ`) -/
theorem IsMatFunOn.transpose {S : Set 𝕜} {f : 𝕜 → 𝕜} {A F : Matrix ι ι 𝕜}
    (h : IsMatFunOn S f A F) : IsMatFunOn S f Aᵀ Fᵀ := by
  obtain ⟨V, Vi, d, h1, h2, h3, h4⟩ := h
  refine ⟨Viᵀ, Vᵀ, d, ?_, h2, ?_, ?_⟩
  · rw [← transpose_mul, h1, transpose_one]
  · rw [h3, transpose_mul, transpose_mul, diagonal_transpose, Matrix.mul_assoc]
  · rw [h4, transpose_mul, transpose_mul, diagonal_transpose, Matrix.mul_assoc]

/-- **Adjoint**: needs `f (conj z) = conj (f z)` on the spectrum (`S'` = where the conjugate
spectrum lies) -/
theorem IsMatFunOn.conjTranspose [StarRing 𝕜] {S S' : Set 𝕜} {f : 𝕜 → 𝕜} {A F : Matrix ι ι 𝕜}
    (h : IsMatFunOn S f A F) (hS : ∀ z ∈ S, star z ∈ S')
    (hf : ∀ z ∈ S, f (star z) = star (f z)) : IsMatFunOn S' f Aᴴ Fᴴ := by
  obtain ⟨V, Vi, d, h1, h2, h3, h4⟩ := h
  refine ⟨Viᴴ, Vᴴ, fun i => star (d i), ?_, fun i => hS _ (h2 i), ?_, ?_⟩
  · rw [← conjTranspose_mul, h1, conjTranspose_one]
  · rw [h3, conjTranspose_mul, conjTranspose_mul, diagonal_conjTranspose, Matrix.mul_assoc]
    rfl
  · rw [h4, conjTranspose_mul, conjTranspose_mul, diagonal_conjTranspose, Matrix.mul_assoc]
    have : star (fun i => f (d i)) = fun i => f (star (d i)) := funext fun i => (hf _ (h2 i)).symm
    rw [this]

/-- **Kronecker sum** (`V_A ⊗ V_B`): for `e` with `e (a + b) = e a * e b` (the exponential),
`e(A ⊗ 1 + 1 ⊗ B) = e(A) ⊗ e(B)` -/
theorem IsMatFunOn.kronSum {S T U : Set 𝕜} {e : 𝕜 → 𝕜} {A F : Matrix ι ι 𝕜} {B G : Matrix κ κ 𝕜}
    (hA : IsMatFunOn S e A F) (hB : IsMatFunOn T e B G)
    (hU : ∀ a ∈ S, ∀ b ∈ T, a + b ∈ U)
    (he : ∀ a ∈ S, ∀ b ∈ T, e (a + b) = e a * e b) :
    IsMatFunOn U e (A ⊗ₖ (1 : Matrix κ κ 𝕜) + (1 : Matrix ι ι 𝕜) ⊗ₖ B) (F ⊗ₖ G) := by
  obtain ⟨V, Vi, d, h1, h2, h3, h4⟩ := hA
  obtain ⟨W, Wi, c, g1, g2, g3, g4⟩ := hB
  have h1' : V * Vi = 1 := mul_eq_one_comm.mp h1
  have g1' : W * Wi = 1 := mul_eq_one_comm.mp g1
  refine ⟨V ⊗ₖ W, Vi ⊗ₖ Wi, fun p => d p.1 + c p.2, ?_, fun p => hU _ (h2 _) _ (g2 _), ?_, ?_⟩
  · rw [← mul_kronecker_mul, h1, g1, one_kronecker_one]
  · have hd : Matrix.diagonal (fun p : ι × κ => d p.1 + c p.2)
        = Matrix.diagonal d ⊗ₖ (1 : Matrix κ κ 𝕜) + (1 : Matrix ι ι 𝕜) ⊗ₖ Matrix.diagonal c := by
      rw [← diagonal_one (n := κ), ← diagonal_one (n := ι), diagonal_kronecker_diagonal,
        diagonal_kronecker_diagonal, diagonal_add]
      congr 1
      ext p
      simp
    rw [hd, Matrix.mul_add, Matrix.add_mul, ← mul_kronecker_mul, ← mul_kronecker_mul,
      ← mul_kronecker_mul, ← mul_kronecker_mul, ← h3, ← g3]
    simp [h1', g1']
  · have hd : Matrix.diagonal (fun p : ι × κ => e (d p.1 + c p.2))
        = Matrix.diagonal (fun i => e (d i)) ⊗ₖ Matrix.diagonal (fun j => e (c j)) := by
      rw [diagonal_kronecker_diagonal]
      congr 1
      ext p
      exact he _ (h2 _) _ (g2 _)
    rw [hd, ← mul_kronecker_mul, ← mul_kronecker_mul, ← h4, ← g4]

/-- **Kronecker product** for a function that is multiplicative on the two spectra
(`(ab)^α = a^α b^α`: positive reals, or integer `α`) -/
theorem IsMatFunOn.kronecker {S T U : Set 𝕜} {f : 𝕜 → 𝕜} {A F : Matrix ι ι 𝕜} {B G : Matrix κ κ 𝕜}
    (hA : IsMatFunOn S f A F) (hB : IsMatFunOn T f B G)
    (hU : ∀ a ∈ S, ∀ b ∈ T, a * b ∈ U)
    (hf : ∀ a ∈ S, ∀ b ∈ T, f (a * b) = f a * f b) :
    IsMatFunOn U f (A ⊗ₖ B) (F ⊗ₖ G) := by
  obtain ⟨V, Vi, d, h1, h2, h3, h4⟩ := hA
  obtain ⟨W, Wi, c, g1, g2, g3, g4⟩ := hB
  refine ⟨V ⊗ₖ W, Vi ⊗ₖ Wi, fun p => d p.1 * c p.2, ?_, fun p => hU _ (h2 _) _ (g2 _), ?_, ?_⟩
  · rw [← mul_kronecker_mul, h1, g1, one_kronecker_one]
  · rw [← diagonal_kronecker_diagonal, ← mul_kronecker_mul, ← mul_kronecker_mul, ← h3, ← g3]
  · have hd : Matrix.diagonal (fun p : ι × κ => f (d p.1 * c p.2))
        = Matrix.diagonal (fun i => f (d i)) ⊗ₖ Matrix.diagonal (fun j => f (c j)) := by
      rw [diagonal_kronecker_diagonal]
      congr 1
      ext p
      exact hf _ (h2 _) _ (g2 _)
    rw [hd, ← mul_kronecker_mul, ← mul_kronecker_mul, ← h4, ← g4]

/-! ## polynomial calculus and well-definedness -/

theorem conj_pow {V Vi D : Matrix ι ι 𝕜} (h1 : Vi * V = 1) (k : ℕ) :
    (V * D * Vi) ^ k = V * D ^ k * Vi := by
  induction k with
  | zero => simp [mul_eq_one_comm.mp h1]
  | succ k ih =>
    rw [pow_succ, ih, pow_succ]
    calc V * D ^ k * Vi * (V * D * Vi) = V * D ^ k * (Vi * V) * D * Vi := by
          simp only [Matrix.mul_assoc]
      _ = V * (D ^ k * D) * Vi := by rw [h1]; simp only [Matrix.mul_one, Matrix.mul_assoc]

/-- `p(V diag(d) V⁻¹) = V diag(p ∘ d) V⁻¹` -/
theorem aeval_conj_diagonal {V Vi : Matrix ι ι 𝕜} (d : ι → 𝕜) (h1 : Vi * V = 1) (p : 𝕜[X]) :
    aeval (V * Matrix.diagonal d * Vi) p = V * Matrix.diagonal (fun i => p.eval (d i)) * Vi := by
  rw [aeval_eq_sum_range]
  have hd : Matrix.diagonal (fun i => p.eval (d i))
      = ∑ k ∈ Finset.range (p.natDegree + 1), p.coeff k • (Matrix.diagonal d) ^ k := by
    ext i j
    rw [Matrix.sum_apply]
    by_cases hij : i = j
    · subst hij
      simp [diagonal_pow, eval_eq_sum_range]
    · simp [diagonal_pow, Matrix.diagonal_apply_ne _ hij]
  rw [hd, Finset.mul_sum, Finset.sum_mul]
  apply Finset.sum_congr rfl
  intro k _
  rw [conj_pow h1, Matrix.mul_smul, Matrix.smul_mul]

/-- **`F = p(A)`** for every polynomial that agrees with `f` on the spectrum -/
theorem IsMatFunOn.eq_aeval {S : Set 𝕜} {f : 𝕜 → 𝕜} {A F : Matrix ι ι 𝕜}
    (h : IsMatFunOn S f A F) : ∃ s : Finset 𝕜, (↑s ⊆ S) ∧
      ∀ p : 𝕜[X], (∀ a ∈ s, p.eval a = f a) → F = aeval A p := by
  classical
  obtain ⟨V, Vi, d, h1, h2, h3, h4⟩ := h
  refine ⟨Finset.univ.image d, ?_, ?_⟩
  · intro a ha
    simp only [Finset.coe_image, Finset.coe_univ, Set.image_univ, Set.mem_range] at ha
    obtain ⟨i, rfl⟩ := ha
    exact h2 i
  · intro p hp
    have : (fun i => f (d i)) = fun i => p.eval (d i) :=
      funext fun i => (hp _ (Finset.mem_image_of_mem d (Finset.mem_univ i))).symm
    rw [h3, aeval_conj_diagonal d h1, h4, this]

/-- a polynomial that takes the values of `f` on a finite set (Lagrange) -/
theorem exists_interpolant (s : Finset 𝕜) (f : 𝕜 → 𝕜) : ∃ p : 𝕜[X], ∀ a ∈ s, p.eval a = f a := by
  classical
  refine ⟨Lagrange.interpolate s id f, fun a ha => ?_⟩
  have := Lagrange.eval_interpolate_at_node (s := s) (v := id) f (Set.injOn_id _) ha
  simpa using this

/-- **well-definedness**: `f` of a diagonalisable matrix does not depend on the diagonalisation -/
theorem IsMatFun.unique {S T : Set 𝕜} {f : 𝕜 → 𝕜} {A F F' : Matrix ι ι 𝕜}
    (h : IsMatFunOn S f A F) (h' : IsMatFunOn T f A F') : F = F' := by
  classical
  obtain ⟨s, _, hs⟩ := h.eq_aeval
  obtain ⟨s', _, hs'⟩ := h'.eq_aeval
  obtain ⟨p, hp⟩ := exists_interpolant (s ∪ s') f
  rw [hs p (fun a ha => hp a (Finset.mem_union_left _ ha)),
    hs' p (fun a ha => hp a (Finset.mem_union_right _ ha))]

/-! ## identities -/

/-- **natural powers are repeated products** -/
theorem IsMatFunOn.pow_nat {S : Set 𝕜} {A F : Matrix ι ι 𝕜} (k : ℕ)
    (h : IsMatFunOn S (fun x => x ^ k) A F) : F = A ^ k := by
  obtain ⟨V, Vi, d, h1, _, h3, h4⟩ := h
  rw [h3, conj_pow h1, h4, diagonal_pow]
  rfl

/-- conversely `A ^ k` *is* the matrix function `x ↦ x ^ k` of a diagonalisable `A` -/
theorem DiagonalisableOn.isMatFun_pow {S : Set 𝕜} {A : Matrix ι ι 𝕜} (h : DiagonalisableOn S A)
    (k : ℕ) : IsMatFunOn S (fun x => x ^ k) A (A ^ k) := by
  obtain ⟨V, Vi, d, h1, h2, h3⟩ := h
  refine ⟨V, Vi, d, h1, h2, h3, ?_⟩
  rw [h3, conj_pow h1, diagonal_pow]
  rfl

/-- **power −1 is the inverse** (spectrum away from 0) -/
theorem IsMatFunOn.inv_mul {S : Set 𝕜} {A F : Matrix ι ι 𝕜} (h0 : (0 : 𝕜) ∉ S)
    (h : IsMatFunOn S (fun x => x⁻¹) A F) : F * A = 1 := by
  obtain ⟨V, Vi, d, h1, h2, h3, h4⟩ := h
  have h1' : V * Vi = 1 := mul_eq_one_comm.mp h1
  have hd : Matrix.diagonal (fun i => (d i)⁻¹) * Matrix.diagonal d = 1 := by
    rw [diagonal_mul_diagonal, ← diagonal_one]
    congr 1
    ext i
    exact inv_mul_cancel₀ (fun h => h0 (h ▸ h2 i))
  rw [h3, h4]
  calc V * Matrix.diagonal (fun i => (d i)⁻¹) * Vi * (V * Matrix.diagonal d * Vi)
      = V * (Matrix.diagonal (fun i => (d i)⁻¹) * ((Vi * V) * Matrix.diagonal d)) * Vi := by
        simp only [Matrix.mul_assoc]
    _ = 1 := by rw [h1, Matrix.one_mul, hd, Matrix.mul_one, h1']

/-- a left inverse of a diagonalisable matrix with non-zero spectrum is its power −1 -/
theorem DiagonalisableOn.isMatFun_inv {S : Set 𝕜} {A B : Matrix ι ι 𝕜} (h : DiagonalisableOn S A)
    (h0 : (0 : 𝕜) ∉ S) (hB : B * A = 1) : IsMatFunOn S (fun x => x⁻¹) A B := by
  obtain ⟨F, hF⟩ := h.exists_matFun (fun x => x⁻¹)
  have hFA := hF.inv_mul h0
  have : B = F := by
    have hAF : A * F = 1 := mul_eq_one_comm.mp hFA
    calc B = B * (A * F) := by rw [hAF, Matrix.mul_one]
      _ = (B * A) * F := by rw [Matrix.mul_assoc]
      _ = F := by rw [hB, Matrix.one_mul]
  rw [this]
  exact hF

/-- **sqrt(A) applied twice acts as A** (any `s` with `s a * s a = a` on the spectrum) -/
theorem IsMatFunOn.sqrt_twice {S : Set 𝕜} {s : 𝕜 → 𝕜} {A F : Matrix ι ι 𝕜}
    (h : IsMatFunOn S s A F) (hs : ∀ a ∈ S, s a * s a = a) : F * F = A := by
  obtain ⟨V, Vi, d, h1, h2, h3, h4⟩ := h
  rw [h3, h4]
  calc V * Matrix.diagonal (fun i => s (d i)) * Vi * (V * Matrix.diagonal (fun i => s (d i)) * Vi)
      = V * (Matrix.diagonal (fun i => s (d i)) * ((Vi * V) * Matrix.diagonal (fun i => s (d i)))) * Vi := by
        simp only [Matrix.mul_assoc]
    _ = V * Matrix.diagonal d * Vi := by
        have : (fun i => s (d i) * s (d i)) = d := funext fun i => hs _ (h2 i)
        rw [h1, Matrix.one_mul, diagonal_mul_diagonal, this]

/-- functions compose: `g(f(A))` -/
theorem IsMatFunOn.comp {S T : Set 𝕜} {f g : 𝕜 → 𝕜} {A F : Matrix ι ι 𝕜}
    (h : IsMatFunOn S f A F) (hT : ∀ a ∈ S, f a ∈ T) :
    ∃ G, IsMatFunOn T g F G ∧ IsMatFunOn S (g ∘ f) A G := by
  obtain ⟨V, Vi, d, h1, h2, h3, h4⟩ := h
  exact ⟨_, ⟨V, Vi, fun i => f (d i), h1, fun i => hT _ (h2 i), h4, rfl⟩, ⟨V, Vi, d, h1, h2, h3, rfl⟩⟩

/-! ## Krylov paths -/

theorem pow_intertwine {A : Matrix ι ι 𝕜} {T : Matrix κ κ 𝕜} {Q : Matrix ι κ 𝕜}
    (h : A * Q = Q * T) (k : ℕ) : A ^ k * Q = Q * T ^ k := KrylovPoly.pow_intertwine h k

theorem aeval_intertwine {A : Matrix ι ι 𝕜} {T : Matrix κ κ 𝕜} {Q : Matrix ι κ 𝕜}
    (h : A * Q = Q * T) (p : 𝕜[X]) : aeval A p * Q = Q * aeval T p := KrylovPoly.aeval_intertwine h p

/-- **`A Q = Q T ⇒ f(A) Q = Q f(T)`** (`Q` any rectangular matrix: no orthogonality is needed) -/
theorem intertwine {S S' : Set 𝕜} {f : 𝕜 → 𝕜} {A F : Matrix ι ι 𝕜} {T G : Matrix κ κ 𝕜}
    {Q : Matrix ι κ 𝕜} (h : A * Q = Q * T) (hA : IsMatFunOn S f A F) (hT : IsMatFunOn S' f T G) :
    F * Q = Q * G := by
  classical
  obtain ⟨s, _, hs⟩ := hA.eq_aeval
  obtain ⟨s', _, hs'⟩ := hT.eq_aeval
  obtain ⟨p, hp⟩ := exists_interpolant (s ∪ s') f
  rw [hs p (fun a ha => hp a (Finset.mem_union_left _ ha)),
    hs' p (fun a ha => hp a (Finset.mem_union_right _ ha))]
  exact aeval_intertwine h p

/-- what `LanczosUnary._matmat` / `ArnoldiUnary._matmat` compute for one column `v`:
`Q · P · (f_masked(θ) ⊙ (P⁻¹ · (c e₁)))` with `c = ‖v‖`, `e₁` the first canonical vector
(given as the vector `u = c e₁`), `fm` = the function after the zero-eigenvalue mask -/
def krylovOut (Q : Matrix ι κ 𝕜) (P Pi : Matrix κ κ 𝕜) (θ : κ → 𝕜) (fm : 𝕜 → 𝕜) (u : κ → 𝕜) :
    ι → 𝕜 :=
  Q *ᵥ (P *ᵥ (fun j => fm (θ j) * (Pi *ᵥ u) j))

/-- **Krylov base case.**  If the factorisation is complete (`A Q = Q T`, which holds when the
run reaches the full Krylov dimension or stops on an invariant subspace), the start vector is
`Q (c e₁)`, and `T = P diag(θ) P⁻¹` is the eigendecomposition the code computes, then the output
is `f(A) v` — provided the masked function agrees with `f` on the Ritz values. -/
theorem krylov_apply {S : Set 𝕜} {f fm : 𝕜 → 𝕜} {A F : Matrix ι ι 𝕜} {Q : Matrix ι κ 𝕜}
    {T P Pi : Matrix κ κ 𝕜} {θ : κ → 𝕜} {u : κ → 𝕜} {v : ι → 𝕜}
    (hF : IsMatFunOn S f A F) (hfac : A * Q = Q * T) (hP : Pi * P = 1)
    (hT : T = P * Matrix.diagonal θ * Pi) (hv : Q *ᵥ u = v)
    (hmask : ∀ j, fm (θ j) = f (θ j)) :
    krylovOut Q P Pi θ fm u = F *ᵥ v := by
  have hG : IsMatFun f T (P * Matrix.diagonal (fun j => f (θ j)) * Pi) :=
    ⟨P, Pi, θ, hP, fun _ => Set.mem_univ _, hT, rfl⟩
  have hint := intertwine hfac hF hG
  have hout : krylovOut Q P Pi θ fm u = (Q * (P * Matrix.diagonal (fun j => f (θ j)) * Pi)) *ᵥ u := by
    unfold krylovOut
    rw [← Matrix.mulVec_mulVec, ← Matrix.mulVec_mulVec, ← Matrix.mulVec_mulVec]
    congr 2
    ext j
    simp [Matrix.mulVec_diagonal, hmask]
  rw [hout, ← hint, ← Matrix.mulVec_mulVec, hv]

/-- **the matrix of a Krylov operator, column by column** (what the exact trace / `to_dense` see: the
operator applied to the identity): if for every `i` the `i`-th column of `L` is the Krylov vector
`Qᵢ Pᵢ (f(θᵢ) ⊙ Pᵢ⁻¹ (cᵢ e))` of a complete factorisation `A Qᵢ = Qᵢ Tᵢ` started from `e_i = cᵢ • Qᵢ e`,
with the eigendecomposition contract `Tᵢ Pᵢ = Pᵢ diag θᵢ`, `Pᵢ⁻¹ Pᵢ = 1`, then `L = f(A)`. -/
theorem matFun_of_krylov_columns {n : ℕ} {S : Set 𝕜}
    {A L : Matrix (Fin n) (Fin n) 𝕜} (hA : DiagonalisableOn S A) (f : 𝕜 → 𝕜)
    (hcol : ∀ i : Fin n, ∃ (m : ℕ) (Q : Matrix (Fin n) (Fin m) 𝕜) (T P Pi : Matrix (Fin m) (Fin m) 𝕜)
      (θ e : Fin m → 𝕜) (c : 𝕜), A * Q = Q * T ∧ Pi * P = 1 ∧ T * P = P * Matrix.diagonal θ ∧
        (_root_.Pi.single i (1 : 𝕜) : Fin n → 𝕜) = c • Q *ᵥ e ∧
        (fun a => L a i) = KrylovPoly.krylovVec Q P Pi θ f (c • e)) :
    IsMatFunOn S f A L := by
  obtain ⟨V, Vi, d, h1, h2, h3⟩ := hA
  have : L = V * Matrix.diagonal (fun i => f (d i)) * Vi := by
    ext a i
    obtain ⟨m, Q, T, P, Pi, θ, e, c, hfac, hP, hT, hv, hL⟩ := hcol i
    have := KrylovPoly.krylov_end_to_end h1 h3 hfac hP hT f e c _ hv
    rw [← hL] at this
    have h' := congrFun this a
    simp only [Matrix.mulVec_single_one] at h'
    exact h'
  rw [this]
  exact ⟨V, Vi, d, h1, h2, h3, rfl⟩

/-- the zero-eigenvalue mask of the Krylov paths in exact arithmetic: values at (numerically) zero
Ritz values are replaced by `0` -/
def maskZero [DecidableEq 𝕜] (f : 𝕜 → 𝕜) : 𝕜 → 𝕜 := fun x => if x = 0 then 0 else f x

theorem maskZero_eq [DecidableEq 𝕜] {f : 𝕜 → 𝕜} {x : 𝕜} (h : x ≠ 0 ∨ f 0 = 0) : maskZero f x = f x := by
  unfold maskZero
  split
  · rename_i hx
    subst hx
    rcases h with h | h
    · exact absurd rfl h
    · exact h.symm
  · rfl

end MatFun
