import ColaVerif.Model.GMRES
import ColaVerif.Lemmas.GMRESLsq
import ColaVerif.Lemmas.ArnoldiSpec

/-!
# The GMRES code model in exact arithmetic

Per right-hand side: what `GMRES.coeffs` / `GMRES.combine` compute from the Arnoldi buffers, with
the dense `solve` as a parameter (`SolvesSystem` is its contract on the one system it is given),
under the clause `MaskExact` (the padding mask marks exactly the unexecuted part of the buffer).

* `drop = false` (last row of `H` kept, column-wise mask — the proposed repair): the iterate
  minimises the residual over `x₀ + K_s` (`kept_row_minimal`);
* `drop = true` (the code as it is): the iterate solves the square system `H_s y = β e₁`
  (`dropped_row_fom_equations`), so its residual is `−h_{s,s-1} y_{s-1} q_s`: Galerkin / FOM
  (`dropped_row_galerkin`), and it is exact after an exact breakdown (`dropped_row_exact_at_breakdown`).
-/

open scoped InnerProductSpace
open Finset Arnoldi

namespace GMRES

variable {𝕜 E : Type} [RCLike 𝕜] [NormedAddCommGroup E] [InnerProductSpace 𝕜 E]

/-! ### bridging the array programs to sums -/

omit [NormedAddCommGroup E] [InnerProductSpace 𝕜 E] in
theorem sumRange_eq (n : Nat) (f : Nat → 𝕜) : sumRange n f = ∑ i ∈ range n, f i := by
  unfold sumRange
  induction n with
  | zero => simp
  | succ n ih =>
    rw [List.range_succ, List.foldl_append, ih, sum_range_succ]
    rfl

theorem combine_eq (M : Nat) (c : Col 𝕜 E) (y : Array 𝕜) (hz : c.z = 0) :
    combine M c y = ∑ l ∈ range M, y.getD l 0 • c.q l := by
  unfold combine
  induction M with
  | zero => simp [hz]
  | succ n ih =>
    rw [List.range_succ, List.foldl_append, ih, sum_range_succ]
    rfl

/-- contract of the dense solver on one system: `G y = r` (`M × M`) -/
def SolvesSystem (M : Nat) (G : Array (Array 𝕜)) (r y : Array 𝕜) : Prop :=
  ∀ a, a < M → ∑ b ∈ range M, (G.getD a #[]).getD b 0 * y.getD b 0 = r.getD a 0

/-- clause: the padding mask marks exactly the indices `≥ s` (the unexecuted steps) -/
def MaskExact (drop : Bool) (M : Nat) (tol : ℝ) (s : Nat) (c : Col 𝕜 E) : Prop :=
  ∀ j, j < M → ((padding drop M ((tol : ℝ) : 𝕜) c).getD j false = true ↔ s ≤ j)

omit [NormedAddCommGroup E] [InnerProductSpace 𝕜 E] in
theorem normalMatrix_get (drop : Bool) (M : Nat) (pad : Array Bool) (c : Col 𝕜 E) (a b : Nat)
    (ha : a < M) (hb : b < M) :
    ((normalMatrix drop M pad c).getD a #[]).getD b 0 =
      (∑ r ∈ range (hRows drop M), (starRingEnd 𝕜) (c.h r a) * c.h r b) +
        (if a = b then (if pad.getD a false then 1 else 0) else 0) := by
  unfold normalMatrix
  rw [getD_ofFn, dif_pos ha, getD_ofFn, dif_pos hb]
  simp only [num_add, sumRange_eq, num_mul, num_conj, num_zero]
  congr 1

omit [NormedAddCommGroup E] [InnerProductSpace 𝕜 E] in
theorem normalRhs_get (M : Nat) (c : Col 𝕜 E) (a : Nat) (ha : a < M) :
    (normalRhs M c).getD a 0 = (starRingEnd 𝕜) (c.h 0 a) := by
  unfold normalRhs
  rw [getD_ofFn, dif_pos ha]
  rfl

omit [NormedAddCommGroup E] [InnerProductSpace 𝕜 E] in
theorem coeffs_get (solve : Array (Array 𝕜) → Array 𝕜 → Array 𝕜) (drop : Bool) (M : Nat)
    (tol β : 𝕜) (c : Col 𝕜 E) (j : Nat) :
    (coeffs solve drop M tol β c).getD j 0 =
      if j < M then
        (if (padding drop M tol c).getD j false then 0
         else (solve (normalMatrix drop M (padding drop M tol c) c) (normalRhs M c)).getD j 0 * β)
      else 0 := by
  unfold coeffs
  simp only
  rw [getD_ofFn]
  by_cases h : j < M
  · rw [dif_pos h, if_pos h]; rfl
  · rw [dif_neg h, if_neg h]

/-! ### the normal equations satisfied by the computed coefficients -/

section column

variable (A : E →ₗ[𝕜] E) (M : Nat) (tol : ℝ) (r0 : E) (s : Nat)
variable (solve : Array (Array 𝕜) → Array 𝕜 → Array 𝕜) (drop : Bool)

/-- the coefficient vector returned for the column with Arnoldi buffers `c` and `β = ‖r₀‖` -/
noncomputable def yOf (c : Col 𝕜 E) (j : Nat) : 𝕜 :=
  (coeffs solve drop M ((tol : ℝ) : 𝕜) ((‖r0‖ : ℝ) : 𝕜) c).getD j 0

variable {A M tol r0 s solve drop}

omit [InnerProductSpace 𝕜 E] in
theorem yOf_zero_of_mask {c : Col 𝕜 E} (hmask : MaskExact drop M tol s c) (j : Nat) (hj : s ≤ j) :
    yOf M tol r0 solve drop c j = 0 := by
  unfold yOf
  rw [coeffs_get]
  by_cases h : j < M
  · rw [if_pos h, if_pos ((hmask j h).mpr hj)]
  · rw [if_neg h]

omit [InnerProductSpace 𝕜 E] in
theorem yOf_of_unmasked {c : Col 𝕜 E} (hmask : MaskExact drop M tol s c) (hsM : s ≤ M) (j : Nat)
    (hj : j < s) :
    yOf M tol r0 solve drop c j =
      (solve (normalMatrix drop M (padding drop M ((tol : ℝ) : 𝕜) c) c) (normalRhs M c)).getD j 0 *
        ((‖r0‖ : ℝ) : 𝕜) := by
  unfold yOf
  rw [coeffs_get, if_pos (by omega)]
  have : ¬ ((padding drop M ((tol : ℝ) : 𝕜) c).getD j false = true) := by
    rw [hmask j (by omega)]; omega
  rw [if_neg this]

/-- `Q[:, :M] @ y = Σ_{i<s} y_i q_i` -/
theorem combine_yOf {c : Col 𝕜 E} (hz : c.z = 0) (hmask : MaskExact drop M tol s c) (hsM : s ≤ M) :
    combine M c (coeffs solve drop M ((tol : ℝ) : 𝕜) ((‖r0‖ : ℝ) : 𝕜) c) =
      ∑ i ∈ range s, yOf M tol r0 solve drop c i • c.q i := by
  rw [combine_eq M c _ hz]
  symm
  apply sum_subset
  · intro l hl; rw [mem_range] at hl ⊢; omega
  · intro l _ hl
    rw [mem_range] at hl
    have := yOf_zero_of_mask (r0 := r0) (solve := solve) hmask l (by omega)
    unfold yOf at this
    show (coeffs solve drop M ((tol : ℝ) : 𝕜) ((‖r0‖ : ℝ) : 𝕜) c).getD l 0 • c.q l = 0
    rw [this, zero_smul]

/-- the normal equations in the rows that enter the code's system (`hRows drop M` of them):
`Σ_r conj(h r a) · (β δ_{r0} − Σ_{i<s} h r i y_i) = 0` for every executed column `a < s` -/
theorem normal_equations {c : Col 𝕜 E} (hinv : Inv A M r0 tol s c) (hsM : s ≤ M)
    (hmask : MaskExact drop M tol s c)
    (hsolve : SolvesSystem M (normalMatrix drop M (padding drop M ((tol : ℝ) : 𝕜) c) c) (normalRhs M c)
      (solve (normalMatrix drop M (padding drop M ((tol : ℝ) : 𝕜) c) c) (normalRhs M c)))
    (a : Nat) (ha : a < s) :
    ∑ r ∈ range (hRows drop M), (starRingEnd 𝕜) (c.h r a) *
      ((if r = 0 then ((‖r0‖ : ℝ) : 𝕜) else 0) -
        ∑ i ∈ range s, c.h r i * yOf M tol r0 solve drop c i) = 0 := by
  set y0 := solve (normalMatrix drop M (padding drop M ((tol : ℝ) : 𝕜) c) c) (normalRhs M c) with hy0
  set β : 𝕜 := ((‖r0‖ : ℝ) : 𝕜) with hβ
  have hR : 0 < hRows drop M := by unfold hRows; split <;> omega
  have hpa : ¬ ((padding drop M ((tol : ℝ) : 𝕜) c).getD a false = true) := by
    rw [hmask a (by omega)]; omega
  -- row a of the solved system
  have hrow := hsolve a (by omega)
  rw [normalRhs_get M c a (by omega)] at hrow
  have hrow' : ∑ b ∈ range s, (∑ r ∈ range (hRows drop M), (starRingEnd 𝕜) (c.h r a) * c.h r b) *
      y0.getD b 0 = (starRingEnd 𝕜) (c.h 0 a) := by
    rw [← hrow]
    symm
    rw [← sum_subset (s₁ := range s) (s₂ := range M)]
    · apply sum_congr rfl
      intro b hb
      have hbs := mem_range.mp hb
      rw [normalMatrix_get drop M _ c a b (by omega) (by omega)]
      by_cases hab : a = b
      · rw [if_pos hab, if_neg hpa, add_zero]
      · rw [if_neg hab, add_zero]
    · intro l hl; rw [mem_range] at hl ⊢; omega
    · intro b hb hbs
      rw [mem_range] at hb hbs
      rw [normalMatrix_get drop M _ c a b (by omega) hb, if_neg (by omega), add_zero]
      have : ∑ r ∈ range (hRows drop M), (starRingEnd 𝕜) (c.h r a) * c.h r b = 0 := by
        apply sum_eq_zero
        intro r _
        rw [hinv.hZeroCol b (by omega) r, mul_zero]
      rw [this, zero_mul]
  -- expand the claim
  have hy : ∀ i, i < s → yOf M tol r0 solve drop c i = y0.getD i 0 * β :=
    fun i hi => yOf_of_unmasked hmask hsM i hi
  calc ∑ r ∈ range (hRows drop M), (starRingEnd 𝕜) (c.h r a) *
        ((if r = 0 then β else 0) - ∑ i ∈ range s, c.h r i * yOf M tol r0 solve drop c i)
      = (∑ r ∈ range (hRows drop M), (starRingEnd 𝕜) (c.h r a) * (if r = 0 then β else 0)) -
        ∑ r ∈ range (hRows drop M), (starRingEnd 𝕜) (c.h r a) *
          ∑ i ∈ range s, c.h r i * yOf M tol r0 solve drop c i := by
        rw [← sum_sub_distrib]
        apply sum_congr rfl
        intro r _
        rw [mul_sub]
    _ = (starRingEnd 𝕜) (c.h 0 a) * β -
        (∑ b ∈ range s, (∑ r ∈ range (hRows drop M), (starRingEnd 𝕜) (c.h r a) * c.h r b) *
          y0.getD b 0) * β := by
        congr 1
        · rw [sum_eq_single 0]
          · rw [if_pos rfl]
          · intro r _ hr; rw [if_neg hr, mul_zero]
          · intro h0; exact absurd (mem_range.mpr hR) h0
        · rw [sum_mul]
          calc ∑ r ∈ range (hRows drop M), (starRingEnd 𝕜) (c.h r a) *
                ∑ i ∈ range s, c.h r i * yOf M tol r0 solve drop c i
              = ∑ r ∈ range (hRows drop M), ∑ i ∈ range s,
                  (starRingEnd 𝕜) (c.h r a) * c.h r i * (y0.getD i 0 * β) := by
                apply sum_congr rfl
                intro r _
                rw [mul_sum]
                apply sum_congr rfl
                intro i hi
                rw [hy i (mem_range.mp hi), mul_assoc]
            _ = ∑ i ∈ range s, ∑ r ∈ range (hRows drop M),
                  (starRingEnd 𝕜) (c.h r a) * c.h r i * (y0.getD i 0 * β) := sum_comm
            _ = _ := by
                apply sum_congr rfl
                intro i _
                rw [sum_mul, sum_mul]
                apply sum_congr rfl
                intro r _
                ring
    _ = 0 := by rw [hrow', sub_self]

/-- the Arnoldi relation with the sum padded to `s + 1` terms -/
theorem relation_padded {c : Col 𝕜 E} (htol : 0 < tol) (hinv : Inv A M r0 tol s c)
    (hnc : NoClip tol s c) (i : Nat) (hi : i < s) :
    A (c.q i) = ∑ l ∈ range (s + 1), c.h l i • c.q l := by
  rw [hinv.relation htol hnc i hi]
  apply sum_subset
  · intro l hl; rw [mem_range] at hl ⊢; omega
  · intro l _ hl
    rw [mem_range] at hl
    rw [hinv.hHess i l (by omega), zero_smul]

theorem beta_smul_q0 {c : Col 𝕜 E} (hinv : Inv A M r0 tol s c) (hr0 : r0 ≠ 0) :
    r0 = ((‖r0‖ : ℝ) : 𝕜) • c.q 0 := by
  rw [hinv.q0, smul_smul, mul_inv_cancel₀, one_smul]
  exact_mod_cast (norm_ne_zero_iff.mpr hr0)

/-- **`drop = false`** (the repaired model: last row kept, column-wise mask): the iterate minimises
the residual over `x₀ + span{q_0..q_{s-1}} = x₀ + K_s(A, r₀)` -/
theorem kept_row_minimal (htol : 0 < tol) (hr0 : r0 ≠ 0) (hsM : s ≤ M)
    (hun : ∀ i, i < s → tol / 2 ≤ (colAt A M tol r0 s).beta i)
    (hmask : MaskExact false M tol s (colAt A M tol r0 s))
    (hsolve : SolvesSystem M
      (normalMatrix false M (padding false M ((tol : ℝ) : 𝕜) (colAt A M tol r0 s)) (colAt A M tol r0 s))
      (normalRhs M (colAt A M tol r0 s))
      (solve (normalMatrix false M (padding false M ((tol : ℝ) : 𝕜) (colAt A M tol r0 s)) (colAt A M tol r0 s))
        (normalRhs M (colAt A M tol r0 s))))
    (b x0 : E) (hb : b - A x0 = r0) (y : Nat → 𝕜) :
    ‖b - A (x0 + combine M (colAt A M tol r0 s)
        (coeffs solve false M ((tol : ℝ) : 𝕜) ((‖r0‖ : ℝ) : 𝕜) (colAt A M tol r0 s)))‖ ≤
      ‖b - A (x0 + ∑ i ∈ range s, y i • (colAt A M tol r0 s).q i)‖ := by
  have hinv := inv_colAfter A M r0 tol hr0 htol s hsM
  set c := colAt A M tol r0 s with hc
  have hnc : NoClip tol s c := fun i hi => Or.inr (hun i hi)
  have hON0 := orthonormal_prefix (A := A) htol hr0 s s (le_refl _) hsM hun
  have hON : ∀ a, a < s + 1 → ∀ b, b < s + 1 → ⟪c.q a, c.q b⟫_𝕜 = if a = b then 1 else 0 :=
    fun a ha b hb => hON0 a (by omega) b (by omega)
  rw [combine_yOf hinv.z0 hmask hsM]
  apply minimal_of_normal_equations A s c.q c.h ((‖r0‖ : ℝ) : 𝕜) hON b x0
    (by rw [hb]; exact beta_smul_q0 hinv hr0)
    (relation_padded htol hinv hnc)
  intro a ha
  have hne := normal_equations (solve := solve) hinv hsM hmask hsolve a ha
  rw [← hne]
  show ∑ l ∈ range (s + 1), _ = ∑ r ∈ range (M + 1), _
  apply sum_subset
  · intro l hl; rw [mem_range] at hl ⊢; omega
  · intro l _ hl
    rw [mem_range] at hl
    rw [hinv.hHess a l (by omega), map_zero, zero_mul]

/-- **`drop = true`** (the code as it is): the coefficients solve the *square* system
`H_s y = β e₁`.  Clauses: `MaskExact`; the loop ran to the cap or broke down exactly; `H_s`
invertible (stated as injectivity of `H_sᴴ`). -/
theorem dropped_row_fom_equations (htol : 0 < tol) (hr0 : r0 ≠ 0) (hsM : s ≤ M) (hs : 0 < s)
    (hstop : s = M ∨ (colAt A M tol r0 s).beta (s - 1) = 0)
    (hmask : MaskExact true M tol s (colAt A M tol r0 s))
    (hsolve : SolvesSystem M
      (normalMatrix true M (padding true M ((tol : ℝ) : 𝕜) (colAt A M tol r0 s)) (colAt A M tol r0 s))
      (normalRhs M (colAt A M tol r0 s))
      (solve (normalMatrix true M (padding true M ((tol : ℝ) : 𝕜) (colAt A M tol r0 s)) (colAt A M tol r0 s))
        (normalRhs M (colAt A M tol r0 s))))
    (hinj : ∀ z : Nat → 𝕜,
      (∀ a, a < s → ∑ r ∈ range s, (starRingEnd 𝕜) ((colAt A M tol r0 s).h r a) * z r = 0) →
        ∀ r, r < s → z r = 0) :
    ∀ l, l < s → resCoef s (colAt A M tol r0 s).h ((‖r0‖ : ℝ) : 𝕜)
      (yOf M tol r0 solve true (colAt A M tol r0 s)) l = 0 := by
  have hinv := inv_colAfter A M r0 tol hr0 htol s hsM
  set c := colAt A M tol r0 s with hc
  apply hinj
  intro a ha
  have hne := normal_equations (solve := solve) hinv hsM hmask hsolve a ha
  rw [← hne]
  show ∑ r ∈ range s, _ = ∑ r ∈ range M, _
  apply sum_subset
  · intro l hl; rw [mem_range] at hl ⊢; omega
  · intro l hlM hl
    rw [mem_range] at hl hlM
    have hz : c.h l a = 0 := by
      by_cases h : a + 1 < l
      · exact hinv.hHess a l h
      · have hla : l = s ∧ a = s - 1 := by omega
        rcases hstop with h' | h'
        · omega
        · have := (hinv.subdiag_nonneg (s - 1)).1
          rw [h'] at this
          rw [hla.1, hla.2]
          have e : s - 1 + 1 = s := by omega
          rw [e] at this
          rw [this]; simp
    rw [hz, map_zero, zero_mul]

/-- **the code computes the Galerkin (FOM) iterate**: with `max_iters = s` executed steps and no
breakdown, the residual of the returned iterate is `−h_{s,s-1} y_{s-1} q_s`: orthogonal to the
Krylov space `K_s`, of norm `h_{s,s-1} |y_{s-1}|` — not the minimal one -/
theorem dropped_row_galerkin (htol : 0 < tol) (hr0 : r0 ≠ 0) (hs : 0 < s) (hsM : s = M)
    (hun : ∀ i, i < s → tol / 2 ≤ (colAt A M tol r0 s).beta i)
    (hmask : MaskExact true M tol s (colAt A M tol r0 s))
    (hsolve : SolvesSystem M
      (normalMatrix true M (padding true M ((tol : ℝ) : 𝕜) (colAt A M tol r0 s)) (colAt A M tol r0 s))
      (normalRhs M (colAt A M tol r0 s))
      (solve (normalMatrix true M (padding true M ((tol : ℝ) : 𝕜) (colAt A M tol r0 s)) (colAt A M tol r0 s))
        (normalRhs M (colAt A M tol r0 s))))
    (hinj : ∀ z : Nat → 𝕜,
      (∀ a, a < s → ∑ r ∈ range s, (starRingEnd 𝕜) ((colAt A M tol r0 s).h r a) * z r = 0) →
        ∀ r, r < s → z r = 0)
    (b x0 : E) (hb : b - A x0 = r0) :
    b - A (x0 + combine M (colAt A M tol r0 s)
        (coeffs solve true M ((tol : ℝ) : 𝕜) ((‖r0‖ : ℝ) : 𝕜) (colAt A M tol r0 s))) =
      (-((colAt A M tol r0 s).h s (s - 1) * yOf M tol r0 solve true (colAt A M tol r0 s) (s - 1))) •
        (colAt A M tol r0 s).q s ∧
    (∀ l, l < s → ⟪(colAt A M tol r0 s).q l,
      b - A (x0 + combine M (colAt A M tol r0 s)
        (coeffs solve true M ((tol : ℝ) : 𝕜) ((‖r0‖ : ℝ) : 𝕜) (colAt A M tol r0 s)))⟫_𝕜 = 0) ∧
    ‖b - A (x0 + combine M (colAt A M tol r0 s)
        (coeffs solve true M ((tol : ℝ) : 𝕜) ((‖r0‖ : ℝ) : 𝕜) (colAt A M tol r0 s)))‖ =
      ‖(colAt A M tol r0 s).h s (s - 1)‖ * ‖yOf M tol r0 solve true (colAt A M tol r0 s) (s - 1)‖ := by
  have hfom := dropped_row_fom_equations (solve := solve) htol hr0 (le_of_eq hsM) hs (Or.inl hsM)
    hmask hsolve hinj
  have hinv := inv_colAfter A M r0 tol hr0 htol s (le_of_eq hsM)
  set c := colAt A M tol r0 s with hc
  have hnc : NoClip tol s c := fun i hi => Or.inr (hun i hi)
  have hON0 := orthonormal_prefix (A := A) htol hr0 s s (le_refl _) (le_of_eq hsM) hun
  have hON : ∀ a, a < s + 1 → ∀ b, b < s + 1 → ⟪c.q a, c.q b⟫_𝕜 = if a = b then 1 else 0 :=
    fun a ha b hb => hON0 a (by omega) b (by omega)
  rw [combine_yOf hinv.z0 hmask (le_of_eq hsM)]
  exact galerkin_residual A s c.q c.h ((‖r0‖ : ℝ) : 𝕜) hON hs b x0
    (by rw [hb]; exact beta_smul_q0 hinv hr0) (relation_padded htol hinv hnc) hinv.hHess _ hfom

/-- **exactness after an exact breakdown** (`m ≥` grade of `r₀`): the returned iterate solves the
system -/
theorem dropped_row_exact_at_breakdown (htol : 0 < tol) (hr0 : r0 ≠ 0) (hsM : s ≤ M) (hs : 0 < s)
    (hun : ∀ i, i + 1 < s → tol / 2 ≤ (colAt A M tol r0 s).beta i)
    (hbreak : (colAt A M tol r0 s).beta (s - 1) = 0)
    (hmask : MaskExact true M tol s (colAt A M tol r0 s))
    (hsolve : SolvesSystem M
      (normalMatrix true M (padding true M ((tol : ℝ) : 𝕜) (colAt A M tol r0 s)) (colAt A M tol r0 s))
      (normalRhs M (colAt A M tol r0 s))
      (solve (normalMatrix true M (padding true M ((tol : ℝ) : 𝕜) (colAt A M tol r0 s)) (colAt A M tol r0 s))
        (normalRhs M (colAt A M tol r0 s))))
    (hinj : ∀ z : Nat → 𝕜,
      (∀ a, a < s → ∑ r ∈ range s, (starRingEnd 𝕜) ((colAt A M tol r0 s).h r a) * z r = 0) →
        ∀ r, r < s → z r = 0)
    (b x0 : E) (hb : b - A x0 = r0) :
    b - A (x0 + combine M (colAt A M tol r0 s)
        (coeffs solve true M ((tol : ℝ) : 𝕜) ((‖r0‖ : ℝ) : 𝕜) (colAt A M tol r0 s))) = 0 := by
  have hfom := dropped_row_fom_equations (solve := solve) htol hr0 hsM hs (Or.inr hbreak)
    hmask hsolve hinj
  have hinv := inv_colAfter A M r0 tol hr0 htol s hsM
  set c := colAt A M tol r0 s with hc
  have hnc : NoClip tol s c := by
    intro i hi
    by_cases h : i + 1 < s
    · exact Or.inr (hun i h)
    · have : i = s - 1 := by omega
      rw [this]; exact Or.inl hbreak
  have hq : c.q s = 0 := by
    have := hinv.next_zero_of_beta_zero htol (s - 1) (by omega) hbreak
    rwa [Nat.sub_add_cancel hs] at this
  rw [combine_yOf hinv.z0 hmask hsM,
    fom_residual A s c.q c.h ((‖r0‖ : ℝ) : 𝕜) hs b x0
      (by rw [hb]; exact beta_smul_q0 hinv hr0) (relation_padded htol hinv hnc) hinv.hHess _ hfom,
    hq, smul_zero]

/-- after an exact breakdown in the last executed step the coefficients solve the square system
`H_s y = β e₁` — for either switch (the extra row `s` of `H̃` is zero) -/
theorem fom_equations_at_breakdown (htol : 0 < tol) (hr0 : r0 ≠ 0) (hsM : s ≤ M) (hs : 0 < s)
    (hbreak : (colAt A M tol r0 s).beta (s - 1) = 0)
    (hmask : MaskExact drop M tol s (colAt A M tol r0 s))
    (hsolve : SolvesSystem M
      (normalMatrix drop M (padding drop M ((tol : ℝ) : 𝕜) (colAt A M tol r0 s)) (colAt A M tol r0 s))
      (normalRhs M (colAt A M tol r0 s))
      (solve (normalMatrix drop M (padding drop M ((tol : ℝ) : 𝕜) (colAt A M tol r0 s)) (colAt A M tol r0 s))
        (normalRhs M (colAt A M tol r0 s))))
    (hinj : ∀ z : Nat → 𝕜,
      (∀ a, a < s → ∑ r ∈ range s, (starRingEnd 𝕜) ((colAt A M tol r0 s).h r a) * z r = 0) →
        ∀ r, r < s → z r = 0) :
    ∀ l, l < s → resCoef s (colAt A M tol r0 s).h ((‖r0‖ : ℝ) : 𝕜)
      (yOf M tol r0 solve drop (colAt A M tol r0 s)) l = 0 := by
  have hinv := inv_colAfter A M r0 tol hr0 htol s hsM
  set c := colAt A M tol r0 s with hc
  have hR : s ≤ hRows drop M := by unfold hRows; split <;> omega
  apply hinj
  intro a ha
  have hne := normal_equations (solve := solve) hinv hsM hmask hsolve a ha
  rw [← hne]
  apply sum_subset
  · intro l hl; rw [mem_range] at hl ⊢; omega
  · intro l _ hl
    rw [mem_range] at hl
    have hz : c.h l a = 0 := by
      by_cases h : a + 1 < l
      · exact hinv.hHess a l h
      · have hla : l = s ∧ a = s - 1 := by omega
        have := (hinv.subdiag_nonneg (s - 1)).1
        rw [hbreak] at this
        rw [hla.1, hla.2]
        have e : s - 1 + 1 = s := by omega
        rw [e] at this
        rw [this]; simp
    rw [hz, map_zero, zero_mul]

/-- **exactness after an exact breakdown** (`m ≥` grade of `r₀`), either switch: the returned
iterate solves the system -/
theorem exact_at_breakdown (htol : 0 < tol) (hr0 : r0 ≠ 0) (hsM : s ≤ M) (hs : 0 < s)
    (hun : ∀ i, i + 1 < s → tol / 2 ≤ (colAt A M tol r0 s).beta i)
    (hbreak : (colAt A M tol r0 s).beta (s - 1) = 0)
    (hmask : MaskExact drop M tol s (colAt A M tol r0 s))
    (hsolve : SolvesSystem M
      (normalMatrix drop M (padding drop M ((tol : ℝ) : 𝕜) (colAt A M tol r0 s)) (colAt A M tol r0 s))
      (normalRhs M (colAt A M tol r0 s))
      (solve (normalMatrix drop M (padding drop M ((tol : ℝ) : 𝕜) (colAt A M tol r0 s)) (colAt A M tol r0 s))
        (normalRhs M (colAt A M tol r0 s))))
    (hinj : ∀ z : Nat → 𝕜,
      (∀ a, a < s → ∑ r ∈ range s, (starRingEnd 𝕜) ((colAt A M tol r0 s).h r a) * z r = 0) →
        ∀ r, r < s → z r = 0)
    (b x0 : E) (hb : b - A x0 = r0) :
    b - A (x0 + combine M (colAt A M tol r0 s)
        (coeffs solve drop M ((tol : ℝ) : 𝕜) ((‖r0‖ : ℝ) : 𝕜) (colAt A M tol r0 s))) = 0 := by
  have hfom := fom_equations_at_breakdown (solve := solve) (drop := drop) htol hr0 hsM hs hbreak
    hmask hsolve hinj
  have hinv := inv_colAfter A M r0 tol hr0 htol s hsM
  set c := colAt A M tol r0 s with hc
  have hnc : NoClip tol s c := by
    intro i hi
    by_cases h : i + 1 < s
    · exact Or.inr (hun i h)
    · have : i = s - 1 := by omega
      rw [this]; exact Or.inl hbreak
  have hq : c.q s = 0 := by
    have := hinv.next_zero_of_beta_zero htol (s - 1) (by omega) hbreak
    rwa [Nat.sub_add_cancel hs] at this
  rw [combine_yOf hinv.z0 hmask hsM,
    fom_residual A s c.q c.h ((‖r0‖ : ℝ) : 𝕜) hs b x0
      (by rw [hb]; exact beta_smul_q0 hinv hr0) (relation_padded htol hinv hnc) hinv.hHess _ hfom,
    hq, smul_zero]

end column

end GMRES
