import ColaVerif.Lemmas.KrylovPoly
import ColaVerif.Lemmas.ArnoldiSpec
import ColaVerif.Lemmas.LanczosOut

/-!
# The Krylov paths of `unary.py` on the loop models of C14 / C15 (used by C07 and C09)

`LanczosUnary._matmat` / `ArnoldiUnary._matmat` (cola/linalg/unary/unary.py) run `lanczos` resp.
`arnoldi` on the operand, trim the buffers to the executed steps `k = max(iterations - 1, 1)`, take the
eigendecomposition of the small matrix and return `Q P (f(θ) ⊙ P⁻¹ e₁ ‖v‖)`.

Here the invariance hypothesis `A Q = Q T` of `Lemmas/KrylovPoly.lean` is DISCHARGED from the theorems
about the loop models, instantiated at `E = EuclideanSpace 𝕜 (Fin n)`, `A = Matrix.toEuclideanLin Am`:

* `arnoldi_unary_exact` — `Arnoldi.run` (the model of C15) stopped on an exact breakdown (`stopExact`:
  the last sub-diagonal entry is `0`, i.e. the Krylov space is exhausted — automatic after `n` steps,
  `C15_dimension_cap`) without clipping (`noClip`, the recorded clause of C15): through
  `Arnoldi.Inv.invariant_relation` / `Inv.q0` (what `C15_eigs_partial` uses);
* `lanczos_unary_exact` — `Lanczos.lanczosExact` (the model of C14) with zero residual (`exhausted`):
  through `Lanczos.single_out` (= the conjuncts `rel`, `first`, `orthonormal` of `C14_lanczos`).

What REMAINS a contract: the small eigendecomposition (`H P = P diag θ` with `Pi P = 1` for `xnp.eig` +
`xnp.solve`; `T P = P diag θ` with `Pᴴ P = 1` for `xnp.eigh`) — LAPACK —, and that `A` is diagonalisable
(the meaning of `f(A)`).
-/

set_option linter.unusedSectionVars false

open Matrix KrylovPoly
open scoped InnerProductSpace

namespace KrylovCompose

variable {𝕜 : Type} [RCLike 𝕜] {n : ℕ}

/-- the start vector in the form `v = ‖v‖ • Q e₁` from `q 0 = ‖v‖⁻¹ • v` -/
theorem start_of_first (q : ℕ → EuclideanSpace 𝕜 (Fin n)) (k : ℕ) (hk : 0 < k)
    (v : EuclideanSpace 𝕜 (Fin n)) (hv : v ≠ 0) (h0 : q 0 = (((‖v‖ : ℝ) : 𝕜))⁻¹ • v) :
    v.ofLp = ((‖v‖ : ℝ) : 𝕜) • colMat q k *ᵥ (_root_.Pi.single (⟨0, hk⟩ : Fin k) (1 : 𝕜) : Fin k → 𝕜) := by
  rw [colMat_mulVec_single, h0]
  have hn : (((‖v‖ : ℝ) : 𝕜)) ≠ 0 := by
    rw [Ne, RCLike.ofReal_eq_zero]
    exact norm_ne_zero_iff.mpr hv
  funext a
  simp [mul_inv_cancel_left₀ hn]

/-! ## Arnoldi -/

section arnoldi
open Arnoldi

/-- **`ArnoldiUnary._matmat`, one operand, on the loop model of C15.**  `s` = executed steps
(`info['iterations'] - 1`), the buffers trimmed to `s` columns / the leading `s × s` block (the code's
`k`).  Hypotheses: `noClip`, `stopExact` — the clauses of `C15_eigs_partial` (exact breakdown in the
last executed step); the eigendecomposition contract of `xnp.eig` / `xnp.solve` on the block;
`Am = V diag(d) V⁻¹`.  Conclusion: the returned vector is `f(Am) v` for EVERY scalar function `f`. -/
theorem arnoldi_unary_exact (Am : Matrix (Fin n) (Fin n) 𝕜) (nn M : ℕ) (tol : ℝ) (tolPos : 0 < tol)
    (v : EuclideanSpace 𝕜 (Fin n)) (startNonzero : v ≠ 0)
    (noClip : ∀ i, i + 1 < (runE (Matrix.toEuclideanLin Am) nn M tol [v]).idx →
      tol / 2 ≤ (colAt (Matrix.toEuclideanLin Am) M tol v
        (runE (Matrix.toEuclideanLin Am) nn M tol [v]).idx).beta i)
    (stopExact : 0 < (runE (Matrix.toEuclideanLin Am) nn M tol [v]).idx ∧
      (colAt (Matrix.toEuclideanLin Am) M tol v (runE (Matrix.toEuclideanLin Am) nn M tol [v]).idx).beta
        ((runE (Matrix.toEuclideanLin Am) nn M tol [v]).idx - 1) = 0)
    {V Vi : Matrix (Fin n) (Fin n) 𝕜} {d : Fin n → 𝕜} (hV : Vi * V = 1)
    (hA : Am = V * Matrix.diagonal d * Vi)
    {P Pi : Matrix (Fin (runE (Matrix.toEuclideanLin Am) nn M tol [v]).idx)
      (Fin (runE (Matrix.toEuclideanLin Am) nn M tol [v]).idx) 𝕜}
    {θ : Fin (runE (Matrix.toEuclideanLin Am) nn M tol [v]).idx → 𝕜} (hP : Pi * P = 1)
    (hT : blockMat (colAt (Matrix.toEuclideanLin Am) M tol v
        (runE (Matrix.toEuclideanLin Am) nn M tol [v]).idx).h
        (runE (Matrix.toEuclideanLin Am) nn M tol [v]).idx * P = P * Matrix.diagonal θ)
    (f : 𝕜 → 𝕜) :
    krylovVec (colMat (colAt (Matrix.toEuclideanLin Am) M tol v
          (runE (Matrix.toEuclideanLin Am) nn M tol [v]).idx).q
          (runE (Matrix.toEuclideanLin Am) nn M tol [v]).idx) P Pi θ f
        (((‖v‖ : ℝ) : 𝕜) • (_root_.Pi.single (⟨0, stopExact.1⟩ :
          Fin (runE (Matrix.toEuclideanLin Am) nn M tol [v]).idx) (1 : 𝕜)))
      = (V * Matrix.diagonal (fun i => f (d i)) * Vi) *ᵥ v.ofLp := by
  obtain ⟨_, _, _, h4⟩ := run_spec_exact (Matrix.toEuclideanLin Am) nn M tol tolPos [v]
    (by simpa using startNonzero)
  have hinv := (h4 v List.mem_cons_self).1
  revert noClip stopExact P Pi θ
  generalize (runE (Matrix.toEuclideanLin Am) nn M tol [v]).idx = s at *
  intro noClip stopExact P Pi θ hP hT
  have hnc : NoClip tol s (colAt (Matrix.toEuclideanLin Am) M tol v s) := by
    intro i hi
    by_cases h : i + 1 < s
    · right; exact noClip i h
    · left
      have : i = s - 1 := by omega
      rw [this]; exact stopExact.2
  have hfac := mul_eq_of_column_relation (k := s) Am (colAt (Matrix.toEuclideanLin Am) M tol v s).q
    (colAt (Matrix.toEuclideanLin Am) M tol v s).h
    (fun i hi => hinv.invariant_relation tolPos hnc s stopExact.1 (le_refl _) stopExact.2 i hi)
  exact krylov_end_to_end hV hA hfac hP hT f _ _ _
    (start_of_first _ s stopExact.1 v startNonzero hinv.q0)

end arnoldi

/-! ## Lanczos -/

section lanczos
open Lanczos
attribute [local instance] exactNum exactVec

/-- **`LanczosUnary._matmat`, one operand, on the loop model of C14.**  `k = o.iters` returned columns
(`info['iterations'] - 1`).  Hypotheses: `Am` Hermitian, `exhausted` = the residual column of
`A Q - Q T` is zero (the Krylov space is exhausted: the run reached the full Krylov dimension); the
contract of `xnp.eigh` on `T` (`T P = P diag θ`, `Pᴴ P = 1` — the code uses `conj(P)[0, :]` as the
first column of `P⁻¹`); `Am = V diag(d) V⁻¹`.  Conclusion: the returned vector is `f(Am) v` for EVERY `f`. -/
theorem lanczos_unary_exact (Am : Matrix (Fin n) (Fin n) 𝕜)
    (A_hermitian : (Matrix.toEuclideanLin Am).IsSymmetric) (nn max_iters : ℕ)
    (v : EuclideanSpace 𝕜 (Fin n)) (tol : ℝ) (start_nonzero : v ≠ 0) (tol_nonneg : 0 ≤ tol)
    (cap_pos : 1 ≤ min max_iters nn)
    (exhausted : (lanczosExact (Matrix.toEuclideanLin Am) nn #[v] max_iters tol).resid
      (Matrix.toEuclideanLin Am) 0 = 0)
    {V Vi : Matrix (Fin n) (Fin n) 𝕜} {d : Fin n → 𝕜} (hV : Vi * V = 1)
    (hA : Am = V * Matrix.diagonal d * Vi)
    {P : Matrix (Fin (lanczosExact (Matrix.toEuclideanLin Am) nn #[v] max_iters tol).iters)
      (Fin (lanczosExact (Matrix.toEuclideanLin Am) nn #[v] max_iters tol).iters) 𝕜}
    {θ : Fin (lanczosExact (Matrix.toEuclideanLin Am) nn #[v] max_iters tol).iters → 𝕜}
    (hP : Pᴴ * P = 1)
    (hT : blockMat ((lanczosExact (Matrix.toEuclideanLin Am) nn #[v] max_iters tol).T 0)
        (lanczosExact (Matrix.toEuclideanLin Am) nn #[v] max_iters tol).iters * P = P * Matrix.diagonal θ)
    (f : 𝕜 → 𝕜) :
    ∃ hk : 0 < (lanczosExact (Matrix.toEuclideanLin Am) nn #[v] max_iters tol).iters,
    krylovVec (colMat ((lanczosExact (Matrix.toEuclideanLin Am) nn #[v] max_iters tol).q 0)
          (lanczosExact (Matrix.toEuclideanLin Am) nn #[v] max_iters tol).iters) P Pᴴ θ f
        (((‖v‖ : ℝ) : 𝕜) • (_root_.Pi.single (⟨0, hk⟩ :
          Fin (lanczosExact (Matrix.toEuclideanLin Am) nn #[v] max_iters tol).iters) (1 : 𝕜)))
      = (V * Matrix.diagonal (fun i => f (d i)) * Vi) *ᵥ v.ofLp := by
  obtain ⟨h1, _, _, _, _, _, hs, _⟩ :=
    single_out (Matrix.toEuclideanLin Am) A_hermitian nn max_iters v tol start_nonzero tol_nonneg cap_pos
  revert P θ exhausted
  generalize (lanczosExact (Matrix.toEuclideanLin Am) nn #[v] max_iters tol).resid
    (Matrix.toEuclideanLin Am) 0 = r at *
  generalize (lanczosExact (Matrix.toEuclideanLin Am) nn #[v] max_iters tol).q 0 = q at *
  generalize (lanczosExact (Matrix.toEuclideanLin Am) nn #[v] max_iters tol).T 0 = T at *
  generalize (lanczosExact (Matrix.toEuclideanLin Am) nn #[v] max_iters tol).iters = k at *
  intro hr P θ hP hT
  have hk : 0 < k := h1
  refine ⟨hk, ?_⟩
  have hfac := mul_eq_of_column_relation (k := k) Am q T (fun c hc => by
    have := hs.rel c hc
    rw [hr] at this
    simp only [ite_self] at this
    exact sub_eq_zero.mp this)
  exact krylov_end_to_end hV hA hfac hP hT f _ _ _ (start_of_first q k hk v start_nonzero hs.first)

end lanczos

end KrylovCompose
