import ColaVerif.Lemmas.EigKrylov
import Mathlib.Tactic.NormNum

/-!
# Concrete inputs for the witness theorems of `Properties/C10.lean`

* `hess3_*`: the Arnoldi run of `Lemmas/Hess3.lean` (`A = [[1,1,0],[2,1,1],[0,3,1]]`, non-symmetric, `v = e₀`,
  `n = max_iters = 3`, `tol = 1/100`; facts about the run cited from `Hess3.idx_eq_cap`, `Hess3.beta_any`,
  `Hess3.Hm_entry`) satisfies the FULL hypothesis bundle of `C10_arnoldi_full`: three executed steps, no clipped
  sub-diagonal entry, and the exact spectrum `hess3Spectrum` (real eigenvalues `1, 1 ∓ √5`, a non-unitary eigenvector
  matrix) satisfies `DenseContract` for the projected matrix.
* `nonNormal*`: `[[1,2],[3,2]]` over `ℚ` with the non-orthogonal eigenvectors `(2,3)`, `(1,-1)` satisfies
  `DenseContract` and `independent` — the bundle of `C10_dense_spectrum` on a general (`xnp.eig`) input.
-/

open scoped InnerProductSpace
open Finset Matrix Polynomial

namespace Eig

section hess3
open Arnoldi

/-- what an exact `xnp.eig` returns for `[[1,1,0],[2,1,1],[0,3,1]]` (the matrix of `Lemmas/Hess3.lean`): eigenvalues
`1, 1 - √5, 1 + √5`, eigenvector columns `(1,0,-2)`, `(1,-√5,3)`, `(1,√5,3)` — not orthogonal -/
noncomputable def hess3Spectrum : Spectrum ℝ :=
  { vals := [1, 1 - Real.sqrt 5, 1 + Real.sqrt 5],
    vecs := [[1, 0, -2], [1, -Real.sqrt 5, 3], [1, Real.sqrt 5, 3]] }

/-- the matrix the Arnoldi rule hands to `xnp.eig` after the three steps of the run on `Hess3.A`, `e₀` is `Hess3.mat` -/
theorem hess3_projected :
    MatF.toMatrix 3 3 (rowsF (eigsMatrix trimPaddingInEigs 3 3 (colAt Hess3.A 3 (1 / 100) (Hess3.e 0) 3))) =
      Hess3.mat := by
  ext i j
  simp only [MatF.toMatrix_apply]
  exact Hess3.Hm_entry (1 / 100) (by norm_num) (by norm_num) i.val j.val i.isLt j.isLt

/-- the run makes `3 = n = dim` steps, none clipped -/
theorem hess3_run :
    (runE Hess3.A 3 3 (1 / 100) [Hess3.e 0]).idx = 3 ∧
    ∀ i, i + 1 < 3 → (1 / 100 : ℝ) / 2 ≤ (colAt Hess3.A 3 (1 / 100) (Hess3.e 0) 3).beta i := by
  refine ⟨?_, ?_⟩
  · rw [Hess3.idx_eq_cap 3 (1 / 100) (by norm_num) (by norm_num) (by norm_num)]; rfl
  · intro i hi
    rw [Hess3.beta_any 3 (1 / 100) 3 (le_refl _) (by norm_num) (by norm_num) (by norm_num) i (by omega) (by omega)]
    unfold Hess3.bt
    split <;> norm_num

/-- the LAPACK contract holds for the projected matrix of that run and `hess3Spectrum` -/
theorem hess3_contract :
    DenseContract 3 (rowsF (eigsMatrix trimPaddingInEigs 3 3 (colAt Hess3.A 3 (1 / 100) (Hess3.e 0) 3)))
      hess3Spectrum := by
  refine ⟨rfl, rfl, ?_, ?_, ?_⟩
  · intro v hv
    simp [hess3Spectrum] at hv
    rcases hv with rfl | rfl | rfl <;> rfl
  · rw [hess3_projected]
    have h5 := Hess3.sqrt5_sq
    ext i j
    fin_cases i <;> fin_cases j <;>
      simp [Matrix.mul_apply, Fin.sum_univ_three, Hess3.mat, colsM, valsD, hess3Spectrum, Matrix.diagonal_apply] <;>
      nlinarith [h5]
  · intro c h
    have := congrFun h 0
    fin_cases c <;> simp [colsM, hess3Spectrum] at this

theorem sqrt5_pos : 0 < Real.sqrt 5 := Real.sqrt_pos.mpr (by norm_num)

/-- of `1, 1 - √5, 1 + √5` the last has the largest magnitude -/
theorem hess3_dominant (x : ℝ) (hx : x ∈ hess3Spectrum.vals) (hmax : ∀ y ∈ hess3Spectrum.vals, |y| ≤ |x|) :
    x = 1 + Real.sqrt 5 := by
  have hp := sqrt5_pos
  have h := hmax (1 + Real.sqrt 5) (by simp [hess3Spectrum])
  rw [abs_of_pos (by linarith : (0 : ℝ) < 1 + Real.sqrt 5)] at h
  simp only [hess3Spectrum, List.mem_cons, List.mem_nil_iff, or_false] at hx
  rcases hx with rfl | rfl | rfl
  · rw [abs_one] at h; linarith
  · have : |1 - Real.sqrt 5| < 1 + Real.sqrt 5 := by rw [abs_lt]; constructor <;> linarith
    linarith
  · rfl

end hess3

section nonNormal

/-- `[[1, 2], [3, 2]]`: not symmetric, not normal; eigenvalues `4`, `-1` -/
def nonNormalExample : MatF ℚ := fun r c =>
  if r = 0 ∧ c = 0 then 1 else if r = 0 ∧ c = 1 then 2 else if r = 1 ∧ c = 0 then 3 else if r = 1 ∧ c = 1 then 2 else 0

/-- what `xnp.eig` computes for it: eigenvectors `(2, 3)`, `(1, -1)` — NOT orthogonal (`2·1 + 3·(-1) = -1`) -/
def nonNormalSpectrum : Spectrum ℚ := { vals := [4, -1], vecs := [[2, 3], [1, -1]] }

theorem nonNormal_contract : DenseContract 2 nonNormalExample nonNormalSpectrum := by
  refine ⟨rfl, rfl, ?_, ?_, ?_⟩
  · intro v hv
    simp [nonNormalSpectrum] at hv
    rcases hv with rfl | rfl <;> rfl
  · ext i j
    fin_cases i <;> fin_cases j <;>
      simp [Matrix.mul_apply, Fin.sum_univ_two, colsM, valsD, nonNormalExample, nonNormalSpectrum,
        Matrix.diagonal_apply] <;> norm_num
  · intro c h
    have := congrFun h 0
    fin_cases c <;> simp [colsM, nonNormalSpectrum] at this

theorem nonNormal_independent : IsUnit (colsM 2 2 nonNormalSpectrum.vecs) := by
  rw [Matrix.isUnit_iff_isUnit_det, Matrix.det_fin_two, isUnit_iff_ne_zero]
  simp [colsM, nonNormalSpectrum]
  norm_num

theorem nonNormal_not_orthogonal : colDot 2 [2, 3] [1, -1] = (-1 : ℚ) := by
  simp [colDot, Finset.sum_range_succ]
  norm_num

theorem nonNormal_select :
    (selectPath (fun a b => decide (a ≤ b)) (fun x : ℚ => |x|) 1 .LM nonNormalSpectrum).vals = [4] ∧
    (selectPath (fun a b => decide (a ≤ b)) (fun x : ℚ => |x|) 1 .LM nonNormalSpectrum).vecs = [[2, 3]] := by
  constructor <;>
    simp [selectPath, sortByKey, getSlice, List.mergeSort, List.MergeSort.Internal.splitInTwo,
      nonNormalSpectrum]

end nonNormal


end Eig
