import ColaVerif.Lemmas.GMRESKrylov

/-!
# The padding mask of `gmres_fwd` (column-wise, `M + 1` rows): a checkable sufficient condition for `MaskExact`

`largest_vals[j] = max_r |H[r, j]|` over the `M + 1` rows of column `j`; `padding[j] = largest_vals[j] <
10·tol·max_j largest_vals[j]`.  `maskExact_of_entries`: if every executed column has an entry of modulus
`≥ 10·tol·B` where `B` bounds all entries, the mask marks exactly the unexecuted columns.
-/

open scoped InnerProductSpace
open Finset Arnoldi

namespace GMRES

variable {𝕜 E : Type} [RCLike 𝕜] [NormedAddCommGroup E] [InnerProductSpace 𝕜 E]

omit [NormedAddCommGroup E] [InnerProductSpace 𝕜 E] in
theorem re_numMax (a b : 𝕜) : RCLike.re (Num.max a b) = max (RCLike.re a) (RCLike.re b) := by
  unfold Num.max
  rw [num_lt]
  by_cases h : RCLike.re a < RCLike.re b
  · simp [h, max_eq_right (le_of_lt h)]
  · simp [h, max_eq_left (not_lt.mp h)]

omit [NormedAddCommGroup E] [InnerProductSpace 𝕜 E] in
theorem maxRange_succ (n : Nat) (f : Nat → 𝕜) : maxRange (n + 1) f = Num.max (maxRange n f) (f n) := by
  unfold maxRange
  rw [List.range_succ, List.foldl_append]
  rfl

omit [NormedAddCommGroup E] [InnerProductSpace 𝕜 E] in
theorem re_maxRange_le (n : Nat) (f : Nat → 𝕜) (B : ℝ) (h0 : RCLike.re (f 0) ≤ B)
    (h : ∀ i, i < n → RCLike.re (f i) ≤ B) : RCLike.re (maxRange n f) ≤ B := by
  induction n with
  | zero => exact h0
  | succ n ih =>
    rw [maxRange_succ, re_numMax]
    exact max_le (ih (fun i hi => h i (by omega))) (h n (by omega))

omit [NormedAddCommGroup E] [InnerProductSpace 𝕜 E] in
theorem le_re_maxRange (n : Nat) (f : Nat → 𝕜) :
    RCLike.re (f 0) ≤ RCLike.re (maxRange n f) ∧ ∀ i, i < n → RCLike.re (f i) ≤ RCLike.re (maxRange n f) := by
  induction n with
  | zero => exact ⟨le_refl _, fun i hi => by omega⟩
  | succ n ih =>
    rw [maxRange_succ, re_numMax]
    refine ⟨le_trans ih.1 (le_max_left _ _), fun i hi => ?_⟩
    by_cases hin : i < n
    · exact le_trans (ih.2 i hin) (le_max_left _ _)
    · have : i = n := by omega
      rw [this]; exact le_max_right _ _

omit [NormedAddCommGroup E] [InnerProductSpace 𝕜 E] in
theorem largestVals_getD (M : Nat) (c : Col 𝕜 E) (j : Nat) (hj : j < M) :
    (largestVals false M c).getD j 0 = maxRange (M + 1) (fun r => Num.abs (c.h r j)) := by
  unfold largestVals
  rw [getD_ofFn, dif_pos hj]
  rfl

omit [NormedAddCommGroup E] [InnerProductSpace 𝕜 E] in
theorem padding_getD (M : Nat) (tol : 𝕜) (c : Col 𝕜 E) (j : Nat) (hj : j < M) :
    (padding false M tol c).getD j false =
      Num.lt ((largestVals false M c).getD j 0)
        (Num.mul (Num.mul Num.ten tol) (maxRange M (fun j => (largestVals false M c).getD j Num.zero))) := by
  unfold padding
  simp only [Array.getD_eq_getD_getElem?, Array.getElem?_map]
  have hsz : (largestVals false M c).size = M := by unfold largestVals; simp
  have : j < (largestVals false M c).size := by rw [hsz]; exact hj
  simp [this]

variable {A : E →ₗ[𝕜] E} {M : Nat} {tol : ℝ} {r0 : E} {s : Nat}

/-- **a checkable sufficient condition for the clause `maskExact`** (column-wise mask of `gmres_fwd`): every
executed column of `H̃` has an entry of modulus `≥ 10·tol·B`, `B` a bound for all entries -/
theorem maskExact_of_entries {c : Col 𝕜 E} (hinv : Inv A M r0 tol s c) (htol : 0 < tol) (hs : 0 < s)
    (hsM : s ≤ M) (B : ℝ) (hB0 : 0 < B) (hB : ∀ r j, ‖c.h r j‖ ≤ B)
    (hbig : ∀ j, j < s → ∃ r, r < M + 1 ∧ 10 * tol * B ≤ ‖c.h r j‖) : MaskExact false M tol s c := by
  have hL : ∀ j, j < M → RCLike.re ((largestVals false M c).getD j 0) ≤ B := by
    intro j hj
    rw [largestVals_getD M c j hj]
    apply re_maxRange_le
    · rw [num_abs, RCLike.ofReal_re]; exact hB 0 j
    · intro i _; rw [num_abs, RCLike.ofReal_re]; exact hB i j
  have hLbig : ∀ j, j < s → 10 * tol * B ≤ RCLike.re ((largestVals false M c).getD j 0) := by
    intro j hj
    obtain ⟨r, hr, hbr⟩ := hbig j hj
    rw [largestVals_getD M c j (by omega)]
    have h3 := (le_re_maxRange (M + 1) (fun r => (Num.abs (c.h r j) : 𝕜))).2 r hr
    have h4 : RCLike.re (Num.abs (c.h r j) : 𝕜) = ‖c.h r j‖ := by rw [num_abs, RCLike.ofReal_re]
    change RCLike.re (Num.abs (c.h r j) : 𝕜) ≤ _ at h3
    rw [h4] at h3
    linarith
  have hLzero : ∀ j, j < M → s ≤ j → RCLike.re ((largestVals false M c).getD j 0) = 0 := by
    intro j hj hsj
    rw [largestVals_getD M c j hj]
    apply le_antisymm
    · apply re_maxRange_le
      · rw [num_abs, RCLike.ofReal_re, hinv.hZeroCol j hsj 0, norm_zero]
      · intro i _; rw [num_abs, RCLike.ofReal_re, hinv.hZeroCol j hsj i, norm_zero]
    · have h3 := (le_re_maxRange (M + 1) (fun r => (Num.abs (c.h r j) : 𝕜))).1
      have h4 : RCLike.re (Num.abs (c.h 0 j) : 𝕜) = ‖c.h 0 j‖ := by rw [num_abs, RCLike.ofReal_re]
      change RCLike.re (Num.abs (c.h 0 j) : 𝕜) ≤ _ at h3
      rw [h4] at h3
      exact le_trans (norm_nonneg _) h3
  set O : ℝ := RCLike.re (maxRange M (fun j => (largestVals false M c).getD j (Num.zero : 𝕜))) with hO
  have hO_le : O ≤ B := by
    apply re_maxRange_le
    · exact hL 0 (by omega)
    · intro i hi; exact hL i hi
  have hO_pos : 0 < O := by
    have h1 := (le_re_maxRange M (fun j => (largestVals false M c).getD j (Num.zero : 𝕜))).1
    have h2 := hLbig 0 hs
    have : 0 < 10 * tol * B := by positivity
    exact lt_of_lt_of_le (lt_of_lt_of_le this h2) h1
  intro j hj
  rw [padding_getD M _ c j hj, num_lt, num_mul, num_mul, num_ten]
  have hth : RCLike.re ((10 : 𝕜) * ((tol : ℝ) : 𝕜) *
      maxRange M (fun j => (largestVals false M c).getD j (Num.zero : 𝕜))) = 10 * tol * O := by
    have : (10 : 𝕜) * ((tol : ℝ) : 𝕜) = (((10 * tol : ℝ)) : 𝕜) := by push_cast; rfl
    rw [this, RCLike.re_ofReal_mul]
  rw [hth, decide_eq_true_eq]
  constructor
  · intro hlt
    by_contra hsj
    push Not at hsj
    have := hLbig j hsj
    have h2 : 10 * tol * O ≤ 10 * tol * B := by
      apply mul_le_mul_of_nonneg_left hO_le; positivity
    linarith
  · intro hsj
    rw [hLzero j hj hsj]
    positivity

end GMRES
