import Mathlib.Analysis.InnerProductSpace.Basic
import Mathlib.Algebra.BigOperators.Intervals

/-!
# GMRES: least squares, the residual identity, Galerkin vs. minimal residual (exact arithmetic)

Abstract inner product space `E` over `RCLike 𝕜`; Krylov data as functions `q : ℕ → E`,
`h : ℕ → ℕ → 𝕜`.

* `lsq_of_orth`: residual orthogonal to all directions ⟹ minimal residual;
* `residual_expansion`: from the Arnoldi relation `A q_i = Σ_{l ≤ s} h l i q_l` and `r₀ = β q₀`,
  `r₀ − Σ y_i A q_i = Σ_{l ≤ s} (β δ_{l0} − Σ_i h l i y_i) q_l`, hence (orthonormal `q`)
  `‖b − A(x₀ + Q_s y)‖² = Σ_l |β δ_{l0} − (H̃ y)_l|²` (`residual_norm_sq`);
* `minimal_of_normal_equations`: `H̃ᴴ(H̃ y − β e₁) = 0` ⟹ `y` minimises the residual — what a GMRES
  that keeps the `(s+1) × s` matrix computes;
* `galerkin_residual`: `H_s y = β e₁` (square system, what the code solves) ⟹ the residual is
  `−h_{s,s-1} y_{s-1} q_s`: orthogonal to `K_s` (Galerkin / FOM), of norm `|h_{s,s-1}| |y_{s-1}|`.
-/

open scoped InnerProductSpace
open Finset

namespace GMRES

variable {𝕜 E : Type} [RCLike 𝕜] [NormedAddCommGroup E] [InnerProductSpace 𝕜 E]

/-- least squares: if the residual `r₀ − Σ y*_i K_i` is orthogonal to every `K_a` then it is
minimal among all `r₀ − Σ y_i K_i` -/
theorem lsq_of_orth (s : Nat) (K : Nat → E) (r0 : E) (ys : Nat → 𝕜)
    (horth : ∀ a, a < s → ⟪K a, r0 - ∑ i ∈ range s, ys i • K i⟫_𝕜 = 0) (y : Nat → 𝕜) :
    ‖r0 - ∑ i ∈ range s, ys i • K i‖ ≤ ‖r0 - ∑ i ∈ range s, y i • K i‖ := by
  set u := r0 - ∑ i ∈ range s, ys i • K i with hu
  set d := ∑ i ∈ range s, (y i - ys i) • K i with hd
  have hsplit : r0 - ∑ i ∈ range s, y i • K i = u - d := by
    rw [hu, hd]
    have : ∑ i ∈ range s, (y i - ys i) • K i =
        ∑ i ∈ range s, y i • K i - ∑ i ∈ range s, ys i • K i := by
      rw [← sum_sub_distrib]
      apply sum_congr rfl
      intro i _
      rw [sub_smul]
    rw [this]; abel
  have hinner : ⟪u, d⟫_𝕜 = 0 := by
    rw [hd, inner_sum]
    apply sum_eq_zero
    intro i hi
    rw [inner_smul_right, ← inner_conj_symm, horth i (mem_range.mp hi)]
    simp
  rw [hsplit]
  have h1 : ‖u - d‖ ^ 2 = ‖u‖ ^ 2 + ‖d‖ ^ 2 := by
    rw [@norm_sub_sq 𝕜, hinner]
    simp
  have h2 : ‖u‖ ^ 2 ≤ ‖u - d‖ ^ 2 := by
    rw [h1]
    have := sq_nonneg ‖d‖
    linarith
  exact le_of_sq_le_sq h2 (norm_nonneg _)

/-- Petrov–Galerkin condition ⟹ residual minimiser over `x₀ + span{q_i}` -/
theorem minimal_of_petrov_galerkin (A : E →ₗ[𝕜] E) (s : Nat) (q : Nat → E) (b x0 : E)
    (ys : Nat → 𝕜)
    (hpg : ∀ a, a < s → ⟪A (q a), b - A (x0 + ∑ i ∈ range s, ys i • q i)⟫_𝕜 = 0) (y : Nat → 𝕜) :
    ‖b - A (x0 + ∑ i ∈ range s, ys i • q i)‖ ≤ ‖b - A (x0 + ∑ i ∈ range s, y i • q i)‖ := by
  have e : ∀ z : Nat → 𝕜, b - A (x0 + ∑ i ∈ range s, z i • q i) =
      (b - A x0) - ∑ i ∈ range s, z i • A (q i) := by
    intro z
    rw [map_add, map_sum]
    have : ∑ i ∈ range s, A (z i • q i) = ∑ i ∈ range s, z i • A (q i) := by
      apply sum_congr rfl
      intro i _
      rw [map_smul]
    rw [this]; abel
  rw [e ys, e y]
  apply lsq_of_orth s (fun i => A (q i)) (b - A x0) ys
  intro a ha
  rw [← e ys]
  exact hpg a ha

section arnoldi

variable (A : E →ₗ[𝕜] E) (s : Nat) (q : Nat → E) (h : Nat → Nat → 𝕜) (β : 𝕜)

/-- the coefficient vector `β e₁ − H̃ y` (entries `l = 0..s`) -/
def resCoef (y : Nat → 𝕜) (l : Nat) : 𝕜 := (if l = 0 then β else 0) - ∑ i ∈ range s, h l i * y i

/-- residual expansion from the Arnoldi relation -/
theorem residual_expansion (r0 : E) (hr0 : r0 = β • q 0)
    (hrel : ∀ i, i < s → A (q i) = ∑ l ∈ range (s + 1), h l i • q l) (y : Nat → 𝕜) :
    r0 - ∑ i ∈ range s, y i • A (q i) = ∑ l ∈ range (s + 1), resCoef s h β y l • q l := by
  have h1 : ∑ i ∈ range s, y i • A (q i) =
      ∑ l ∈ range (s + 1), (∑ i ∈ range s, h l i * y i) • q l := by
    calc ∑ i ∈ range s, y i • A (q i)
        = ∑ i ∈ range s, ∑ l ∈ range (s + 1), (h l i * y i) • q l := by
          apply sum_congr rfl
          intro i hi
          rw [hrel i (mem_range.mp hi), smul_sum]
          apply sum_congr rfl
          intro l _
          rw [smul_smul, mul_comm]
      _ = ∑ l ∈ range (s + 1), ∑ i ∈ range s, (h l i * y i) • q l := sum_comm
      _ = _ := by
          apply sum_congr rfl
          intro l _
          rw [sum_smul]
  have h2 : r0 = ∑ l ∈ range (s + 1), (if l = 0 then β else 0) • q l := by
    rw [sum_eq_single 0]
    · simp [hr0]
    · intro l _ hl
      rw [if_neg hl, zero_smul]
    · intro h0
      exact absurd (mem_range.mpr (Nat.succ_pos s)) h0
  rw [h1]
  conv_lhs => rw [h2]
  rw [← sum_sub_distrib]
  apply sum_congr rfl
  intro l _
  rw [resCoef, sub_smul]

/-- the square system `H_s y = β e₁` leaves the residual `(β e₁ − H̃ y)_s q_s = −h_{s,s-1} y_{s-1} q_s`
(no orthogonality needed) -/
theorem fom_residual (hs : 0 < s) (b x0 : E) (hr0 : b - A x0 = β • q 0)
    (hrel : ∀ i, i < s → A (q i) = ∑ l ∈ range (s + 1), h l i • q l)
    (hhess : ∀ i l, i + 1 < l → h l i = 0) (y : Nat → 𝕜)
    (hfom : ∀ l, l < s → resCoef s h β y l = 0) :
    b - A (x0 + ∑ i ∈ range s, y i • q i) = (-(h s (s - 1) * y (s - 1))) • q s := by
  have e : b - A (x0 + ∑ i ∈ range s, y i • q i) =
      (b - A x0) - ∑ i ∈ range s, y i • A (q i) := by
    rw [map_add, map_sum]
    have : ∑ i ∈ range s, A (y i • q i) = ∑ i ∈ range s, y i • A (q i) := by
      apply sum_congr rfl
      intro i _
      rw [map_smul]
    rw [this]; abel
  have hlast : resCoef s h β y s = -(h s (s - 1) * y (s - 1)) := by
    unfold resCoef
    rw [if_neg (by omega), zero_sub]
    congr 1
    rw [sum_eq_single (s - 1)]
    · intro i hi hne
      have := mem_range.mp hi
      rw [hhess i s (by omega), zero_mul]
    · intro hns
      exact absurd (mem_range.mpr (by omega)) hns
  rw [e, residual_expansion A s q h β (b - A x0) hr0 hrel y, sum_range_succ, hlast]
  have : ∑ l ∈ range s, resCoef s h β y l • q l = 0 := by
    apply sum_eq_zero
    intro l hl
    rw [hfom l (mem_range.mp hl), zero_smul]
  rw [this, zero_add]

variable (hON : ∀ a, a < s + 1 → ∀ b, b < s + 1 → ⟪q a, q b⟫_𝕜 = if a = b then 1 else 0)
include hON

/-- inner product of two combinations of the orthonormal `q_0..q_s` -/
theorem inner_comb (c d : Nat → 𝕜) :
    ⟪∑ l ∈ range (s + 1), c l • q l, ∑ l ∈ range (s + 1), d l • q l⟫_𝕜 =
      ∑ l ∈ range (s + 1), (starRingEnd 𝕜) (c l) * d l := by
  rw [sum_inner]
  apply sum_congr rfl
  intro l hl
  rw [inner_sum, sum_eq_single l]
  · rw [inner_smul_left, inner_smul_right, hON l (mem_range.mp hl) l (mem_range.mp hl), if_pos rfl,
      mul_one]
  · intro l' hl' hne
    rw [inner_smul_left, inner_smul_right, hON l (mem_range.mp hl) l' (mem_range.mp hl'),
      if_neg (Ne.symm hne), mul_zero, mul_zero]
  · intro hl'; exact absurd hl hl'

/-- `‖b − A(x₀ + Q_s y)‖² = Σ_{l ≤ s} |β δ_{l0} − (H̃ y)_l|²` -/
theorem residual_norm_sq (r0 : E) (hr0 : r0 = β • q 0)
    (hrel : ∀ i, i < s → A (q i) = ∑ l ∈ range (s + 1), h l i • q l) (y : Nat → 𝕜) :
    ‖r0 - ∑ i ∈ range s, y i • A (q i)‖ ^ 2 = ∑ l ∈ range (s + 1), ‖resCoef s h β y l‖ ^ 2 := by
  rw [residual_expansion A s q h β r0 hr0 hrel y]
  have := inner_comb s q hON (resCoef s h β y) (resCoef s h β y)
  have h2 : (((‖∑ l ∈ range (s + 1), resCoef s h β y l • q l‖ ^ 2 : ℝ)) : 𝕜) =
      ((∑ l ∈ range (s + 1), ‖resCoef s h β y l‖ ^ 2 : ℝ) : 𝕜) := by
    push_cast
    rw [← inner_self_eq_norm_sq_to_K, this]
    apply sum_congr rfl
    intro l _
    rw [RCLike.conj_mul]
  exact_mod_cast h2

/-- **normal equations ⟹ minimal residual**: if `H̃ᴴ (β e₁ − H̃ y*) = 0` (rows `0..s`, columns
`0..s-1`) then `y*` minimises `‖b − A(x₀ + Q_s y)‖` -/
theorem minimal_of_normal_equations (b x0 : E) (hr0 : b - A x0 = β • q 0)
    (hrel : ∀ i, i < s → A (q i) = ∑ l ∈ range (s + 1), h l i • q l) (ys : Nat → 𝕜)
    (hne : ∀ a, a < s → ∑ l ∈ range (s + 1), (starRingEnd 𝕜) (h l a) * resCoef s h β ys l = 0)
    (y : Nat → 𝕜) :
    ‖b - A (x0 + ∑ i ∈ range s, ys i • q i)‖ ≤ ‖b - A (x0 + ∑ i ∈ range s, y i • q i)‖ := by
  apply minimal_of_petrov_galerkin A s q b x0 ys
  intro a ha
  have e : b - A (x0 + ∑ i ∈ range s, ys i • q i) =
      (b - A x0) - ∑ i ∈ range s, ys i • A (q i) := by
    rw [map_add, map_sum]
    have : ∑ i ∈ range s, A (ys i • q i) = ∑ i ∈ range s, ys i • A (q i) := by
      apply sum_congr rfl
      intro i _
      rw [map_smul]
    rw [this]; abel
  rw [e, residual_expansion A s q h β (b - A x0) hr0 hrel ys, hrel a ha,
    inner_comb s q hON (fun l => h l a) (resCoef s h β ys)]
  exact hne a ha

/-- **the square system ⟹ Galerkin (FOM) iterate**: if `H_s y = β e₁` (rows `0..s-1` only — the last
row of `H̃` dropped) and `H̃` is Hessenberg, the residual is `−h_{s,s-1} y_{s-1} q_s` -/
theorem galerkin_residual (hs : 0 < s) (b x0 : E) (hr0 : b - A x0 = β • q 0)
    (hrel : ∀ i, i < s → A (q i) = ∑ l ∈ range (s + 1), h l i • q l)
    (hhess : ∀ i l, i + 1 < l → h l i = 0) (y : Nat → 𝕜)
    (hfom : ∀ l, l < s → resCoef s h β y l = 0) :
    b - A (x0 + ∑ i ∈ range s, y i • q i) = (-(h s (s - 1) * y (s - 1))) • q s ∧
    (∀ l, l < s → ⟪q l, b - A (x0 + ∑ i ∈ range s, y i • q i)⟫_𝕜 = 0) ∧
    ‖b - A (x0 + ∑ i ∈ range s, y i • q i)‖ = ‖h s (s - 1)‖ * ‖y (s - 1)‖ := by
  have hres := fom_residual A s q h β hs b x0 hr0 hrel hhess y hfom
  refine ⟨hres, ?_, ?_⟩
  · intro l hl
    rw [hres, inner_smul_right, hON l (by omega) s (by omega), if_neg (by omega), mul_zero]
  · rw [hres, norm_smul, norm_neg, norm_mul]
    have hq : ‖q s‖ = 1 := by
      have := hON s (by omega) s (by omega)
      rw [if_pos rfl, inner_self_eq_norm_sq_to_K] at this
      have h1 : ‖q s‖ ^ 2 = 1 := by exact_mod_cast this
      have h0 : 0 ≤ ‖q s‖ := norm_nonneg _
      nlinarith [sq_nonneg (‖q s‖ - 1)]
    rw [hq, mul_one]

end arnoldi

end GMRES
