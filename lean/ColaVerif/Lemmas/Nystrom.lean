import Mathlib.Tactic.NoncommRing
import Mathlib.Tactic.LinearCombination
import Mathlib.Tactic.FieldSimp
import ColaVerif.Model.Nystrom
import ColaVerif.Lemmas.CGBridge

/-!
# The Nyström preconditioner `I + U diag(σ) Uᴴ` (helper lemmas of `Properties/C12/Nystrom.lean`)

* `sand U a = U diag(a) Uᴴ`, `lowRank U σ = 1 + sand U σ` — the matrix `_matmat` applies (conjugate transpose since
  /repo 67a8740; `lowRankT` is the pre-fix formula with the plain transpose, kept for the regression witness);
* ring level, under `Uᴴ U = 1`: `sand` is additive / multiplicative in the diagonal, hence
  `lowRank_mul`, `lowRank_mul_shift`;
* field level: `nysMat U num denom = lowRank U (num / denom - 1)`; `nys_inverse_mul` (the rule `inverse`),
  `nys_sqrt_mul_self` (the rule `sqrt`), `nys_mul_approx` (`P (U Λ Uᴴ + amu) = amu + λ_min U Uᴴ`) and its
  two eigen-corollaries;
* `RCLike`: `lowRank_posDef` — Hermitian positive definite when `Uᴴ U = 1` and `1 + σ > 0`;
* bridge: the executable model `Nys.applyCol` of `Model/Nystrom.lean`, read in exact arithmetic
  (`CG.rcOps`), is `lowRank U σ *ᵥ ·`.
-/

namespace Nys

open Matrix

section ring
variable {K : Type*} [CommRing K] [StarRing K] {n r : ℕ}

/-- `U diag(a) Uᴴ` -/
def sand (U : Matrix (Fin n) (Fin r) K) (a : Fin r → K) : Matrix (Fin n) (Fin n) K :=
  U * diagonal a * Uᴴ

/-- `I + U diag(σ) Uᴴ`: the matrix of `_matmat` -/
def lowRank (U : Matrix (Fin n) (Fin r) K) (σ : Fin r → K) : Matrix (Fin n) (Fin n) K :=
  1 + sand U σ

theorem sand_add (U : Matrix (Fin n) (Fin r) K) (a b : Fin r → K) :
    sand U a + sand U b = sand U (fun i => a i + b i) := by
  unfold sand
  rw [← Matrix.add_mul, ← Matrix.mul_add, diagonal_add]

theorem sand_smul (c : K) (U : Matrix (Fin n) (Fin r) K) (a : Fin r → K) :
    c • sand U a = sand U (fun i => c * a i) := by
  show c • (U * diagonal a * Uᴴ) = U * diagonal (c • a) * Uᴴ
  rw [diagonal_smul, Matrix.mul_smul, Matrix.smul_mul]

theorem sand_mul {U : Matrix (Fin n) (Fin r) K} (hU : Uᴴ * U = 1) (a b : Fin r → K) :
    sand U a * sand U b = sand U (fun i => a i * b i) := by
  unfold sand
  calc U * diagonal a * Uᴴ * (U * diagonal b * Uᴴ)
      = U * diagonal a * (Uᴴ * U) * diagonal b * Uᴴ := by simp only [Matrix.mul_assoc]
    _ = U * (diagonal a * diagonal b) * Uᴴ := by rw [hU, Matrix.mul_one, Matrix.mul_assoc U]
    _ = U * diagonal (fun i => a i * b i) * Uᴴ := by rw [diagonal_mul_diagonal]

theorem sand_const (U : Matrix (Fin n) (Fin r) K) (c : K) :
    sand U (fun _ => c) = c • (U * Uᴴ) := by
  unfold sand
  rw [← smul_one_eq_diagonal, Matrix.mul_smul, Matrix.mul_one, Matrix.smul_mul]

theorem sand_zero (U : Matrix (Fin n) (Fin r) K) : sand U (fun _ => 0) = 0 := by
  rw [sand_const, zero_smul]

theorem lowRank_zero (U : Matrix (Fin n) (Fin r) K) : lowRank U (fun _ => 0) = 1 := by
  unfold lowRank; rw [sand_zero, add_zero]

/-- `(I + U a Uᴴ)(I + U b Uᴴ) = I + U (a + b + a b) Uᴴ` -/
theorem lowRank_mul {U : Matrix (Fin n) (Fin r) K} (hU : Uᴴ * U = 1) (a b : Fin r → K) :
    lowRank U a * lowRank U b = lowRank U (fun i => a i + b i + a i * b i) := by
  unfold lowRank
  have h : (1 + sand U a) * (1 + sand U b) =
      1 + (sand U a + sand U b + sand U a * sand U b) := by noncomm_ring
  rw [h, sand_mul hU, sand_add, sand_add]

/-- `(I + U σ Uᴴ)(U L Uᴴ + c I) = c I + U (L + c σ + σ L) Uᴴ` -/
theorem lowRank_mul_shift {U : Matrix (Fin n) (Fin r) K} (hU : Uᴴ * U = 1) (σ L : Fin r → K)
    (c : K) :
    lowRank U σ * (sand U L + c • (1 : Matrix (Fin n) (Fin n) K)) =
      c • (1 : Matrix (Fin n) (Fin n) K) + sand U (fun i => L i + c * σ i + σ i * L i) := by
  unfold lowRank
  have h : (1 + sand U σ) * (sand U L + c • (1 : Matrix (Fin n) (Fin n) K)) =
      c • (1 : Matrix (Fin n) (Fin n) K) + (sand U L + c • sand U σ + sand U σ * sand U L) := by
    rw [add_mul, one_mul, mul_add, mul_smul_comm, mul_one]; abel
  rw [h, sand_smul, sand_mul hU, sand_add, sand_add]

theorem lowRank_apply (U : Matrix (Fin n) (Fin r) K) (σ : Fin r → K) (i j : Fin n) :
    lowRank U σ i j = (1 : Matrix (Fin n) (Fin n) K) i j + ∑ k, U i k * σ k * star (U j k) := by
  unfold lowRank sand
  rw [Matrix.add_apply, Matrix.mul_apply]
  congr 1
  apply Finset.sum_congr rfl
  intro k _
  rw [Matrix.mul_diagonal, Matrix.conjTranspose_apply]

end ring

section oldformula
variable {K : Type*} [CommRing K] {n r : ℕ}

/-- the PRE-FIX formula (before /repo 67a8740): `I + U diag(σ) Uᵀ`, plain transpose -/
def lowRankT (U : Matrix (Fin n) (Fin r) K) (σ : Fin r → K) : Matrix (Fin n) (Fin n) K :=
  1 + U * diagonal σ * U.transpose

theorem lowRankT_apply (U : Matrix (Fin n) (Fin r) K) (σ : Fin r → K) (i j : Fin n) :
    lowRankT U σ i j = (1 : Matrix (Fin n) (Fin n) K) i j + ∑ k, U i k * σ k * U j k := by
  unfold lowRankT
  rw [Matrix.add_apply, Matrix.mul_apply]
  congr 1
  apply Finset.sum_congr rfl
  intro k _
  rw [Matrix.mul_diagonal, Matrix.transpose_apply]

end oldformula

section field
variable {F : Type*} [Field F] [StarRing F] {n r : ℕ}

/-- the matrix of a `NystromPrecond` / `NystromPrecondLazy` with fields `U`, `subspace_num`,
`subspace_denom` (broadcast to length `r`) -/
def nysMat (U : Matrix (Fin n) (Fin r) F) (num denom : Fin r → F) : Matrix (Fin n) (Fin n) F :=
  lowRank U (fun i => num i / denom i - 1)

/-- the rule `inverse` (swap numerator and denominator) returns a left inverse -/
theorem nys_inverse_mul {U : Matrix (Fin n) (Fin r) F} (hU : Uᴴ * U = 1) {num denom : Fin r → F}
    (hn : ∀ i, num i ≠ 0) (hd : ∀ i, denom i ≠ 0) :
    nysMat U denom num * nysMat U num denom = 1 := by
  unfold nysMat
  rw [lowRank_mul hU]
  have h : (fun i => (denom i / num i - 1) + (num i / denom i - 1) +
      (denom i / num i - 1) * (num i / denom i - 1)) = fun _ => (0 : F) := by
    funext i
    have hxy : denom i / num i * (num i / denom i) = 1 := by
      have := hn i; have := hd i; field_simp
    linear_combination hxy
  rw [h, lowRank_zero]

/-- the rule `sqrt` (element-wise square roots of numerator and denominator) returns a square root -/
theorem nys_sqrt_mul_self {U : Matrix (Fin n) (Fin r) F} (hU : Uᴴ * U = 1)
    {num denom sn sd : Fin r → F} (hsn : ∀ i, sn i * sn i = num i)
    (hsd : ∀ i, sd i * sd i = denom i) :
    nysMat U sn sd * nysMat U sn sd = nysMat U num denom := by
  unfold nysMat
  rw [lowRank_mul hU]
  congr 1
  funext i
  have h : sn i / sd i * (sn i / sd i) = num i / denom i := by
    rw [div_mul_div_comm, hsn, hsd]
  linear_combination h

/-- `P (U Λ Uᴴ + amu I) = amu I + λ (U Uᴴ)` for the preconditioner `_create_approx` builds
(`subspace_num = λ + amu`, `subspace_denom = Λ + amu`; in the code `λ = min Λ`) -/
theorem nys_mul_approx {U : Matrix (Fin n) (Fin r) F} (hU : Uᴴ * U = 1) (Lam : Fin r → F)
    (amu lmin : F) (hden : ∀ i, Lam i + amu ≠ 0) :
    nysMat U (fun _ => lmin + amu) (fun i => Lam i + amu) *
        (sand U Lam + amu • (1 : Matrix (Fin n) (Fin n) F)) =
      amu • (1 : Matrix (Fin n) (Fin n) F) + lmin • (U * Uᴴ) := by
  unfold nysMat
  rw [lowRank_mul_shift hU, ← sand_const]
  congr 2
  funext i
  have hq : (lmin + amu) / (Lam i + amu) * (Lam i + amu) = lmin + amu :=
    div_mul_cancel₀ _ (hden i)
  linear_combination hq

/-- every column of `U` is an eigenvector of `P (U Λ Uᴴ + amu I)` for `λ + amu` -/
theorem nys_eig_range {U : Matrix (Fin n) (Fin r) F} (hU : Uᴴ * U = 1) (Lam : Fin r → F)
    (amu lmin : F) (hden : ∀ i, Lam i + amu ≠ 0) :
    nysMat U (fun _ => lmin + amu) (fun i => Lam i + amu) *
        (sand U Lam + amu • (1 : Matrix (Fin n) (Fin n) F)) * U = (lmin + amu) • U := by
  rw [nys_mul_approx hU Lam amu lmin hden, Matrix.add_mul, Matrix.smul_mul, Matrix.one_mul,
    Matrix.smul_mul, Matrix.mul_assoc, hU, Matrix.mul_one, ← add_smul, add_comm]

/-- every vector with `Uᴴ w = 0` is an eigenvector of `P (U Λ Uᴴ + amu I)` for `amu` -/
theorem nys_eig_perp {U : Matrix (Fin n) (Fin r) F} (hU : Uᴴ * U = 1) (Lam : Fin r → F)
    (amu lmin : F) (hden : ∀ i, Lam i + amu ≠ 0) (w : Fin n → F) (hw : Uᴴ *ᵥ w = 0) :
    (nysMat U (fun _ => lmin + amu) (fun i => Lam i + amu) *
        (sand U Lam + amu • (1 : Matrix (Fin n) (Fin n) F))) *ᵥ w = amu • w := by
  rw [nys_mul_approx hU Lam amu lmin hden, Matrix.add_mulVec, Matrix.smul_mulVec,
    Matrix.one_mulVec, Matrix.smul_mulVec, ← Matrix.mulVec_mulVec, hw, Matrix.mulVec_zero,
    smul_zero, add_zero]

end field

section rclike
variable {𝕜 : Type} [RCLike 𝕜] {n r : ℕ}

open scoped ComplexOrder

theorem lowRank_isHermitian (U : Matrix (Fin n) (Fin r) 𝕜) {σ : Fin r → 𝕜}
    (hσ : ∀ i, star (σ i) = σ i) : (lowRank U σ).IsHermitian := by
  have hs : star σ = σ := funext hσ
  unfold lowRank sand Matrix.IsHermitian
  rw [conjTranspose_add, conjTranspose_one, conjTranspose_mul, conjTranspose_mul,
    conjTranspose_conjTranspose, diagonal_conjTranspose, hs, Matrix.mul_assoc]

/-- `I + U diag(t - 1) Uᴴ` is Hermitian positive definite when `U` has orthonormal columns, and every `t i` is positive: it is `Sᴴ S` for the invertible Hermitian
`S = I + U diag(√t - 1) Uᴴ` -/
theorem lowRank_posDef {U : Matrix (Fin n) (Fin r) 𝕜} (hU : Uᴴ * U = 1)
    (t : Fin r → ℝ) (ht : ∀ i, 0 < t i) :
    (lowRank U (fun i => ((t i : ℝ) : 𝕜) - 1)).PosDef := by
  have hU' : Uᴴ * U = 1 := hU
  set S : Matrix (Fin n) (Fin n) 𝕜 := lowRank U (fun i => ((Real.sqrt (t i) : ℝ) : 𝕜) - 1) with hS
  set S' : Matrix (Fin n) (Fin n) 𝕜 := lowRank U (fun i => ((1 / Real.sqrt (t i) : ℝ) : 𝕜) - 1)
    with hS'
  have hss : ∀ i, ((Real.sqrt (t i) : ℝ) : 𝕜) * ((Real.sqrt (t i) : ℝ) : 𝕜) = ((t i : ℝ) : 𝕜) := by
    intro i; rw [← RCLike.ofReal_mul, Real.mul_self_sqrt (ht i).le]
  have hSS : S * S = lowRank U (fun i => ((t i : ℝ) : 𝕜) - 1) := by
    rw [hS, lowRank_mul hU']
    congr 1; funext i
    linear_combination hss i
  have hinv : S' * S = 1 := by
    rw [hS, hS', lowRank_mul hU']
    have h : (fun i => (((1 / Real.sqrt (t i) : ℝ) : 𝕜) - 1) + (((Real.sqrt (t i) : ℝ) : 𝕜) - 1) +
        (((1 / Real.sqrt (t i) : ℝ) : 𝕜) - 1) * (((Real.sqrt (t i) : ℝ) : 𝕜) - 1)) =
        fun _ => (0 : 𝕜) := by
      funext i
      have hne : Real.sqrt (t i) ≠ 0 := (Real.sqrt_pos.mpr (ht i)).ne'
      have hxy : ((1 / Real.sqrt (t i) : ℝ) : 𝕜) * ((Real.sqrt (t i) : ℝ) : 𝕜) = 1 := by
        rw [← RCLike.ofReal_mul, one_div, inv_mul_cancel₀ hne, RCLike.ofReal_one]
      linear_combination hxy
    rw [h, lowRank_zero]
  have hSH : Sᴴ = S := by
    rw [hS]
    exact lowRank_isHermitian U (fun i => by
      rw [star_sub, star_one]; congr 1; exact RCLike.conj_ofReal _)
  have hinj : Function.Injective S.mulVec := by
    intro x y hxy
    have := congrArg (fun v => S' *ᵥ v) hxy
    simp only [Matrix.mulVec_mulVec, hinv, Matrix.one_mulVec] at this
    exact this
  have := Matrix.PosDef.conjTranspose_mul_self S hinj
  rw [hSH, hSS] at this
  exact this

end rclike

/-! ## the executable model in exact arithmetic -/

section bridge
variable {𝕜 : Type} [RCLike 𝕜] {n r : ℕ}

attribute [local instance] CG.rcOps

/-- a rectangular matrix as the model's array of rows -/
def rowsArr {a b : ℕ} (M : Matrix (Fin a) (Fin b) 𝕜) : CG.Mat 𝕜 :=
  Array.ofFn (fun i => Array.ofFn (M i))

theorem matVec_rowsArr {a b : ℕ} (M : Matrix (Fin a) (Fin b) 𝕜) (v : Fin b → 𝕜) :
    CG.matVec (rowsArr M) (Array.ofFn v) = Array.ofFn (M *ᵥ v) := by
  unfold CG.matVec rowsArr
  rw [Array.map_ofFn]
  congr 1; funext i
  show CG.dot (Array.ofFn (M i)) (Array.ofFn v) = _
  unfold CG.dot
  rw [CG.zipWith_ofFn, CG.vsum_ofFn]
  rfl

theorem getD_ofFn {α : Type} {m : ℕ} (f : Fin m → α) (i : Fin m) (d : α) :
    (Array.ofFn f).getD i d = f i := by
  simp

theorem conjTransposeU_rowsArr (U : Matrix (Fin n) (Fin r) 𝕜) :
    conjTransposeU r (rowsArr U) = rowsArr Uᴴ := by
  unfold conjTransposeU rowsArr
  congr 1; funext j
  rw [Array.map_ofFn]
  congr 1; funext i
  show starRingEnd 𝕜 ((Array.ofFn (U i)).getD j 0) = Uᴴ j i
  rw [getD_ofFn]
  rfl

/-- **`_matmat` in exact arithmetic is `(I + U diag(num / denom - 1) Uᴴ) v`** -/
theorem applyCol_eq (U : Matrix (Fin n) (Fin r) 𝕜) (num denom : Bc 𝕜) (v : Fin n → 𝕜) :
    applyCol ⟨r, rowsArr U, num, denom⟩ (Array.ofFn v) =
      Array.ofFn (nysMat U (fun i => num.get i) (fun i => denom.get i) *ᵥ v) := by
  unfold applyCol
  simp only []
  rw [conjTransposeU_rowsArr, matVec_rowsArr,
    show scaling (⟨r, rowsArr U, num, denom⟩ : Precond 𝕜) =
      Array.ofFn (fun i : Fin r => num.get i / denom.get i - 1) from rfl,
    CG.zipWith_ofFn, matVec_rowsArr]
  unfold CG.vadd
  rw [CG.zipWith_ofFn]
  congr 1; funext i
  unfold nysMat lowRank sand
  rw [Matrix.add_mulVec, Matrix.one_mulVec, ← Matrix.mulVec_mulVec, ← Matrix.mulVec_mulVec,
    Pi.add_apply, add_comm]
  congr 2
  funext j
  rw [Matrix.mulVec_diagonal]
  rfl

theorem get_v_ofFn (f : Fin r → 𝕜) (i : Fin r) : (Bc.v (Array.ofFn f)).get i = f i :=
  getD_ofFn f i _

/-- the object `_create_approx` builds from `Lambda = Λ` (length `r`) and `U` -/
theorem createApprox_P (U : Matrix (Fin n) (Fin r) 𝕜) (Λ : Fin r → 𝕜) (mu : 𝕜) (adj : Bool) :
    (createApprox (Array.ofFn Λ) (rowsArr U) mu adj).P =
      ⟨r, rowsArr U, .s (createApprox (Array.ofFn Λ) (rowsArr U) mu adj).eigmax,
        .v (Array.ofFn fun i => Λ i + (createApprox (Array.ofFn Λ) (rowsArr U) mu adj).amu)⟩ := by
  unfold createApprox
  simp only [Array.size_ofFn, Array.map_ofFn]
  rfl

/-- `NystromPrecond._matmat` on the object `_create_approx` builds -/
theorem applyCol_createApprox (U : Matrix (Fin n) (Fin r) 𝕜) (Λ : Fin r → 𝕜) (mu : 𝕜) (adj : Bool)
    (v : Fin n → 𝕜) :
    applyCol (createApprox (Array.ofFn Λ) (rowsArr U) mu adj).P (Array.ofFn v) =
      Array.ofFn (nysMat U (fun _ => (createApprox (Array.ofFn Λ) (rowsArr U) mu adj).eigmax)
        (fun i => Λ i + (createApprox (Array.ofFn Λ) (rowsArr U) mu adj).amu) *ᵥ v) := by
  rw [createApprox_P, applyCol_eq]
  congr 3
  funext i
  exact get_v_ofFn _ i

/-- `NystromPrecondLazy._matmat` on `inverse(P)` -/
theorem applyCol_inverse_createApprox (U : Matrix (Fin n) (Fin r) 𝕜) (Λ : Fin r → 𝕜) (mu : 𝕜)
    (adj : Bool) (v : Fin n → 𝕜) :
    applyCol (inverse (createApprox (Array.ofFn Λ) (rowsArr U) mu adj).P) (Array.ofFn v) =
      Array.ofFn (nysMat U (fun i => Λ i + (createApprox (Array.ofFn Λ) (rowsArr U) mu adj).amu)
        (fun _ => (createApprox (Array.ofFn Λ) (rowsArr U) mu adj).eigmax) *ᵥ v) := by
  rw [createApprox_P]
  show applyCol ⟨r, rowsArr U, _, _⟩ (Array.ofFn v) = _
  rw [applyCol_eq]
  congr 3
  funext i
  exact get_v_ofFn _ i

/-- `NystromPrecondLazy._matmat` on `sqrt(P)` (`s` = the model's `sqrt`: real square root of the real
part) -/
theorem applyCol_sqrt_createApprox (U : Matrix (Fin n) (Fin r) 𝕜) (Λ : Fin r → 𝕜) (mu : 𝕜)
    (adj : Bool) (v : Fin n → 𝕜) :
    applyCol (sqrtP (createApprox (Array.ofFn Λ) (rowsArr U) mu adj).P) (Array.ofFn v) =
      Array.ofFn (nysMat U
        (fun _ => CG.NumOps.sqrt (createApprox (Array.ofFn Λ) (rowsArr U) mu adj).eigmax)
        (fun i => CG.NumOps.sqrt (Λ i + (createApprox (Array.ofFn Λ) (rowsArr U) mu adj).amu)) *ᵥ
          v) := by
  rw [createApprox_P]
  unfold sqrtP Bc.map
  simp only [Array.map_ofFn]
  rw [applyCol_eq]
  congr 3
  funext i
  exact get_v_ofFn _ i

/-- the model's `sqrt` squares back on non-negative reals -/
theorem rcSqrt_mul_self {x : ℝ} (hx : 0 ≤ x) :
    (CG.NumOps.sqrt ((x : ℝ) : 𝕜) : 𝕜) * CG.NumOps.sqrt ((x : ℝ) : 𝕜) = ((x : ℝ) : 𝕜) := by
  show ((Real.sqrt (RCLike.re ((x : ℝ) : 𝕜)) : ℝ) : 𝕜) * ((Real.sqrt (RCLike.re ((x : ℝ) : 𝕜)) : ℝ) : 𝕜) = _
  rw [RCLike.ofReal_re, ← RCLike.ofReal_mul, Real.mul_self_sqrt hx]

end bridge

end Nys
