import ColaVerif.Model.Inv
import ColaVerif.Lemmas.SmallKernels
import Mathlib.Algebra.BigOperators.Intervals
import Mathlib.Data.List.Nodup
import Mathlib.Data.List.GetD
import Mathlib.Data.Finset.Card

/-!
# Kernels of the inverse model (C06)

* the forced-action product kernels of Model/Inv.lean are the kernels of Model/Kernels.lean;
* `solve_triangular` (forward / back substitution) solves the triangular system;
* `argsort` of a permutation is its inverse.
-/

open Finset

namespace Inv
variable {R : Type}

/-! ## forced-action kernels = the original kernels -/

theorem kronStepV_eq [Zero R] (F : FacV R) (ev : Tensor R) (i : Nat) :
    kronStepV F ev i = kronStep F.toAct ev i := rfl

theorem kronLoopV_eq [Zero R] : ∀ (Ms : List (FacV R)) (i : Nat) (ev : Tensor R),
    kronLoopV i Ms ev = kronLoop i (Ms.map FacV.toAct) ev
  | [], _, _ => rfl
  | M :: Ms, i, ev => by
    simp only [kronLoopV, List.map_cons, kronLoop, kronStepV_eq]
    exact kronLoopV_eq Ms (i + 1) _

theorem map_toAct_r (Ms : List (FacV R)) : (Ms.map FacV.toAct).map (·.r) = Ms.map (·.r) := by
  rw [List.map_map]; rfl

theorem map_toAct_c (Ms : List (FacV R)) : (Ms.map FacV.toAct).map (·.c) = Ms.map (·.c) := by
  rw [List.map_map]; rfl

theorem kronMatmatV_eq [Zero R] (Ms : List (FacV R)) (b : Nat) (v : MatF R) :
    kronMatmatV Ms b v = kronMatmat (Ms.map FacV.toAct) b v := by
  simp only [kronMatmatV, kronMatmat, kronLoopV_eq, map_toAct_r, map_toAct_c]

theorem bdiagBlockV_eq (F : FacV R) (mult k off : Nat) (v : MatF R) :
    bdiagBlockV F mult k off v = bdiagBlock F.toAct mult k off v := rfl

theorem bdiagBlocksV_eq (k : Nat) : ∀ (Ms : List (FacV R × Nat)) (off : Nat) (v : MatF R),
    bdiagBlocksV k off Ms v = bdiagBlocks k off (Ms.map (fun p => (p.1.toAct, p.2))) v
  | [], _, _ => rfl
  | (M, mult) :: Ms, off, v => by
    simp only [bdiagBlocksV, List.map_cons, bdiagBlocks, bdiagBlockV_eq]
    rw [bdiagBlocksV_eq k Ms]
    rfl

theorem bdiagMatmatV_eq [Zero R] (Ms : List (FacV R × Nat)) (k : Nat) (v : MatF R) :
    bdiagMatmatV Ms k v = bdiagMatmat (Ms.map (fun p => (p.1.toAct, p.2))) k v := by
  simp only [bdiagMatmatV, bdiagMatmat, bdiagBlocksV_eq]

/-! ## forward substitution -/

section tri
variable [CommRing R]

theorem fwdList_length (recip : R → R) (a : MatF R) (rhs : Nat → R) :
    ∀ k, (fwdList recip a rhs k).length = k
  | 0 => rfl
  | k + 1 => by simp [fwdList, fwdList_length recip a rhs k]

/-- the entries already computed do not change -/
theorem fwdList_getD_succ (recip : R → R) (a : MatF R) (rhs : Nat → R) (k j : Nat) (hj : j < k) :
    (fwdList recip a rhs (k + 1)).getD j 0 = (fwdList recip a rhs k).getD j 0 := by
  have hl := fwdList_length recip a rhs k
  simp only [fwdList]
  rw [List.getD_append _ _ _ _ (by omega)]

theorem fwdList_getD_stable (recip : R → R) (a : MatF R) (rhs : Nat → R) (j : Nat) :
    ∀ k, j < k → (fwdList recip a rhs k).getD j 0 = (fwdList recip a rhs (j + 1)).getD j 0
  | 0, h => absurd h (Nat.not_lt_zero _)
  | k + 1, h => by
    by_cases hjk : j = k
    · subst hjk; rfl
    · have hlt : j < k := by omega
      rw [fwdList_getD_succ recip a rhs k j hlt]
      exact fwdList_getD_stable recip a rhs j k hlt

/-- the solution vector of forward substitution -/
def fwdSol (recip : R → R) (a : MatF R) (rhs : Nat → R) (j : Nat) : R :=
  (fwdList recip a rhs (j + 1)).getD j 0

theorem fwdSol_eq (recip : R → R) (a : MatF R) (rhs : Nat → R) (j : Nat) :
    fwdSol recip a rhs j =
      (rhs j - ∑ q ∈ range j, a j q * fwdSol recip a rhs q) * recip (a j j) := by
  have hl := fwdList_length recip a rhs j
  unfold fwdSol
  simp only [fwdList]
  rw [List.getD_append_right _ _ _ _ (by omega)]
  simp only [hl, Nat.sub_self, List.getD_cons_zero]
  rw [sumTo_eq]
  congr 2
  apply Finset.sum_congr rfl
  intro q hq
  have hq' : q < j := Finset.mem_range.mp hq
  have := fwdList_getD_stable recip a rhs q j hq'
  simp only [fwdList] at this
  rw [this]

/-- row `j` of the triangular system is satisfied -/
theorem fwdSol_row (recip : R → R) (a : MatF R) (rhs : Nat → R) (j : Nat)
    (hd : a j j * recip (a j j) = 1) :
    ∑ q ∈ range (j + 1), a j q * fwdSol recip a rhs q = rhs j := by
  rw [Finset.sum_range_succ, fwdSol_eq recip a rhs j]
  have : a j j * ((rhs j - ∑ q ∈ range j, a j q * fwdSol recip a rhs q) * recip (a j j))
      = (rhs j - ∑ q ∈ range j, a j q * fwdSol recip a rhs q) * (a j j * recip (a j j)) := by ring
  rw [this, hd]
  ring

/-- zero above the diagonal, on the `n × n` window -/
def LowerTri (n : Nat) (a : MatF R) : Prop := ∀ i j, i < n → j < n → i < j → a i j = 0
/-- zero below the diagonal, on the `n × n` window -/
def UpperTri (n : Nat) (a : MatF R) : Prop := ∀ i j, i < n → j < n → j < i → a i j = 0
/-- the diagonal entries have `recip` as reciprocal -/
def DiagUnit (recip : R → R) (n : Nat) (a : MatF R) : Prop := ∀ i, i < n → a i i * recip (a i i) = 1

theorem solveLower_apply (recip : R → R) (n : Nat) (a : MatF R) (b : Nat) (X : MatF R)
    (i j : Nat) (hi : i < n) (hj : j < b) :
    (solveLower recip n a b X).f i j = fwdSol recip a (fun t => X t j) i := by
  simp only [solveLower, forceV_f]
  rw [List.getD_eq_getElem (l := (List.range b).map _) (d := []) (n := j) (by simpa using hj)]
  simp only [List.getElem_map, List.getElem_range]
  exact fwdList_getD_stable recip a _ i n hi

/-- `solve_triangular(a, X, lower=True)` solves `a Y = X` for a lower-triangular `a` -/
theorem solveLower_spec (recip : R → R) (n : Nat) (a : MatF R) (hl : LowerTri n a)
    (hd : DiagUnit recip n a) (b : Nat) (X : MatF R) :
    EqOn n b (mmul n a (solveLower recip n a b X).f) X := by
  intro i j hi hj
  rw [mmul_apply]
  have h1 : ∑ q ∈ range n, a i q * (solveLower recip n a b X).f q j
      = ∑ q ∈ range n, a i q * fwdSol recip a (fun t => X t j) q := by
    apply Finset.sum_congr rfl
    intro q hq
    rw [solveLower_apply recip n a b X q j (Finset.mem_range.mp hq) hj]
  rw [h1]
  have hsplit : range n = range (i + 1) ∪ (range n \ range (i + 1)) := by
    rw [Finset.union_sdiff_of_subset]
    exact Finset.range_subset_range.mpr (by omega)
  rw [hsplit, Finset.sum_union Finset.disjoint_sdiff]
  rw [fwdSol_row recip a (fun t => X t j) i (hd i hi)]
  have hz : ∑ q ∈ range n \ range (i + 1), a i q * fwdSol recip a (fun t => X t j) q = 0 := by
    apply Finset.sum_eq_zero
    intro q hq
    simp only [Finset.mem_sdiff, Finset.mem_range] at hq
    rw [hl i q hi hq.1 (by omega), zero_mul]
  rw [hz, add_zero]

/-- `solve_triangular(a, X, lower=False)` solves `a Y = X` for an upper-triangular `a` -/
theorem solveUpper_spec (recip : R → R) (n : Nat) (a : MatF R) (hu : UpperTri n a)
    (hd : DiagUnit recip n a) (b : Nat) (X : MatF R) :
    EqOn n b (mmul n a (solveUpper recip n a b X).f) X := by
  intro i j hi hj
  have hl' : LowerTri n (fun i j => a (n - 1 - i) (n - 1 - j)) := by
    intro i j hi hj hij
    exact hu _ _ (by omega) (by omega) (by omega)
  have hd' : DiagUnit recip n (fun i j => a (n - 1 - i) (n - 1 - j)) := by
    intro i hi
    exact hd _ (by omega)
  have key := solveLower_spec recip n _ hl' hd' b (fun i j => X (n - 1 - i) j) (n - 1 - i) j
    (by omega) hj
  simp only [mmul_apply] at key
  have e1 : n - 1 - (n - 1 - i) = i := by omega
  rw [e1] at key
  rw [mmul_apply, ← key]
  simp only [solveUpper, forceV_f]
  rw [← Finset.sum_range_reflect]
  apply Finset.sum_congr rfl
  intro q hq
  have hq' : q < n := Finset.mem_range.mp hq
  have e2 : n - 1 - (n - 1 - q) = q := by omega
  rw [e2]

theorem solvetri_spec (recip : R → R) (n : Nat) (lower : Bool) (a : MatF R)
    (ht : if lower then LowerTri n a else UpperTri n a) (hd : DiagUnit recip n a)
    (b : Nat) (X : MatF R) :
    EqOn n b (mmul n a (solvetri recip n lower a b X).f) X := by
  unfold solvetri
  cases lower with
  | true => simpa using solveLower_spec recip n a (by simpa using ht) hd b X
  | false => simpa using solveUpper_spec recip n a (by simpa using ht) hd b X

end tri

/-! ## `argsort` of a permutation -/

theorem argsort_length (p : List Nat) : (argsort p).length = p.length := by
  simp [argsort]

theorem argsort_getD (p : List Nat) (i : Nat) (hi : i < p.length) :
    (argsort p).getD i 0 = p.idxOf i := by
  simp only [argsort]
  rw [List.getD_eq_getElem (l := (List.range p.length).map _) (d := 0) (n := i) (by simpa using hi)]
  simp only [List.getElem_map, List.getElem_range]

/-- a duplicate-free list of `n` numbers below `n` contains every number below `n` -/
theorem mem_of_perm_list (p : List Nat) (hlt : ∀ t ∈ p, t < p.length) (hnd : p.Nodup)
    (k : Nat) (hk : k < p.length) : k ∈ p := by
  have hsub : p.toFinset ⊆ range p.length := by
    intro t ht
    exact Finset.mem_range.mpr (hlt t (List.mem_toFinset.mp ht))
  have hcard : p.toFinset.card = p.length := List.toFinset_card_of_nodup hnd
  have heq : p.toFinset = range p.length :=
    Finset.eq_of_subset_of_card_le hsub (by rw [hcard, Finset.card_range])
  have : k ∈ p.toFinset := by rw [heq]; exact Finset.mem_range.mpr hk
  exact List.mem_toFinset.mp this

/-- `argsort p` satisfies the constructor preconditions of `Permutation` again -/
theorem argsort_wf (p : List Nat) (hlt : ∀ t ∈ p, t < p.length) (hnd : p.Nodup) :
    (∀ t ∈ argsort p, t < (argsort p).length) ∧ (argsort p).Nodup := by
  constructor
  · intro t ht
    simp only [argsort, List.mem_map, List.mem_range] at ht
    obtain ⟨i, hi, rfl⟩ := ht
    rw [argsort_length]
    exact List.idxOf_lt_length_of_mem (mem_of_perm_list p hlt hnd i hi)
  · simp only [argsort]
    apply List.Nodup.map_on _ List.nodup_range
    intro i hi j hj hij
    have hi' := mem_of_perm_list p hlt hnd i (List.mem_range.mp hi)
    have hj' := mem_of_perm_list p hlt hnd j (List.mem_range.mp hj)
    have := congrArg (fun t => p.getD t 0) hij
    simp only [getD_idxOf_of_mem p i hi', getD_idxOf_of_mem p j hj'] at this
    exact this

end Inv
