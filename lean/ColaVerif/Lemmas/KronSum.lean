import ColaVerif.Model.Kernels

/-!
# Kronecker sum loop (`KronSum._matmat`) and the dense forms of `Kronecker` / `KronSum`

* `kronSumMatmat_eq`: the reshape/moveaxis accumulation loop of `KronSum._matmat` returns
  `(Σ_t I ⊗ … ⊗ M_t ⊗ … ⊗ I) · v` for square factors.
* `kronDense_eq`: `reduce(np.kron, factors)` (left fold) is the multi-index Kronecker matrix.
* `kronSumDense_eq`: `reduce(kronsum, factors)` is the multi-index Kronecker-sum matrix.
-/

open Finset

variable {R : Type}

/-! ## `boxSum` helpers -/

theorem boxSum_zero [AddCommMonoid R] (cs : List Nat) : boxSum cs (fun _ => (0 : R)) = 0 := by
  induction cs with
  | nil => rfl
  | cons c cs ih => simp [boxSum, ih]

theorem boxSum_add [AddCommMonoid R] (cs : List Nat) (f g : List Nat → R) :
    boxSum cs (fun qs => f qs + g qs) = boxSum cs f + boxSum cs g := by
  induction cs generalizing f g with
  | nil => rfl
  | cons c cs ih =>
    simp only [boxSum]
    rw [← Finset.sum_add_distrib]
    apply Finset.sum_congr rfl
    intro q _
    exact ih _ _

theorem boxSum_mul_left [NonUnitalNonAssocSemiring R] (cs : List Nat) (d : R) (f : List Nat → R) :
    boxSum cs (fun qs => d * f qs) = d * boxSum cs f := by
  induction cs generalizing f with
  | nil => rfl
  | cons c cs ih =>
    simp only [boxSum]
    rw [Finset.mul_sum]
    apply Finset.sum_congr rfl
    intro q _
    exact ih _

/-- a Kronecker delta on multi-indices collapses the box sum -/
theorem boxSum_delta [NonAssocSemiring R] : ∀ (cs is : List Nat) (f : List Nat → R), InB cs is →
    boxSum cs (fun qs => (if is = qs then 1 else 0) * f qs) = f is
  | [], [], f, _ => by simp [boxSum]
  | c :: cs, i :: is, f, h => by
    simp only [boxSum]
    rw [Finset.sum_eq_single i]
    · simp only [List.cons.injEq, true_and]
      exact boxSum_delta cs is (fun qs => f (i :: qs)) h.2
    · intro q _ hq
      rw [boxSum_congr _ _ (fun _ => 0) ?_, boxSum_zero]
      intro qs _
      have hne : ¬ (i :: is = q :: qs) := by
        intro h'
        injection h' with h1 _
        exact hq h1.symm
      rw [if_neg hne, zero_mul]
    · intro hi
      exact absurd (Finset.mem_range.mpr h.1) hi
  | [], _ :: _, _, h => by simp [InB] at h
  | _ :: _, [], _, h => by simp [InB] at h

theorem boxSum_kronSum_split [CommSemiring R] (cs is : List Nat) (h : InB cs is) (m d : R)
    (k g : List Nat → R) :
    boxSum cs (fun qs => (m * (if is = qs then 1 else 0) + d * k qs) * g qs) =
      m * g is + d * boxSum cs (fun qs => k qs * g qs) := by
  rw [boxSum_congr _ _
    (fun qs => (if is = qs then 1 else 0) * (m * g qs) + d * (k qs * g qs))
    (fun qs _ => by ring)]
  rw [boxSum_add, boxSum_delta cs is (fun qs => m * g qs) h, boxSum_mul_left]

theorem map_r_eq_c (Ms : List (FacAct R)) (hsq : ∀ M ∈ Ms, M.r = M.c) :
    Ms.map (·.r) = Ms.map (·.c) :=
  List.map_congr_left hsq

/-! ## the `KronSum._matmat` loop -/

/-- **Kronecker-sum loop theorem.**  Starting at axis `|pre|` of a tensor `ev` of shape
`pre ++ cols ++ [b]`, the accumulation loop over the remaining (square) factors adds to `out`,
at every in-bounds index, the box sum of `kronSumEntry * ev`. -/
theorem kronSumLoop_get [CommSemiring R] : ∀ (Ms : List (FacAct R)) (_hM : ∀ M ∈ Ms, M.Ok)
    (_hsq : ∀ M ∈ Ms, M.r = M.c)
    (ev out : Tensor R) (preS : List Nat) (b : Nat) (preI is : List Nat) (col : Nat),
    ev.shape = preS ++ Ms.map (·.c) ++ [b] →
    InB preS preI → InB (Ms.map (·.r)) is → col < b →
    (kronSumLoop preS.length Ms ev out).get (preI ++ is ++ [col]) =
      out.get (preI ++ is ++ [col]) +
        boxSum (Ms.map (·.c)) (fun qs => kronSumEntry Ms is qs * ev.get (preI ++ qs ++ [col]))
  | [], _, _, ev, out, preS, b, preI, is, col, _, _, his, _ => by
    cases is with
    | nil => simp [kronSumLoop, boxSum, kronSumEntry]
    | cons a is => simp [InB] at his
  | M :: Ms, hM, hsq, ev, out, preS, b, preI, is, col, hs, hpre, his, hcol => by
    cases is with
    | nil => simp [InB] at his
    | cons a is' =>
      obtain ⟨ha, his'⟩ := his
      have hMok : M.Ok := hM M (by simp)
      have hMs : ∀ M' ∈ Ms, M'.Ok := fun M' h => hM M' (by simp [h])
      have hsqM : M.r = M.c := hsq M (by simp)
      have hsqs : ∀ M' ∈ Ms, M'.r = M'.c := fun M' h => hsq M' (by simp [h])
      have hac : a < M.c := hsqM ▸ ha
      have his'c : InB (Ms.map (·.c)) is' := by rw [← map_r_eq_c Ms hsqs]; exact his'
      have hlen : preI.length = preS.length := InB_length _ _ hpre
      have hs1 : ev.shape = preS ++ M.c :: (Ms.map (·.c) ++ [b]) := by
        simpa [List.append_assoc] using hs
      have hs' : ev.shape = (preS ++ [M.c]) ++ Ms.map (·.c) ++ [b] := by rw [hs1]; simp
      have hpre' : InB (preS ++ [M.c]) (preI ++ [a]) :=
        InB_append _ _ _ _ hpre ⟨hac, trivial⟩
      have ih := kronSumLoop_get Ms hMs hsqs ev
        (forceT ⟨out.shape, fun idx => out.get idx + (kronStep M ev preS.length).get idx⟩)
        (preS ++ [M.c]) b (preI ++ [a]) is' col hs' hpre' his' hcol
      have hl : (preS ++ [M.c]).length = preS.length + 1 := by simp
      simp only [kronSumLoop]
      rw [hl] at ih
      have e1 : preI ++ a :: is' ++ [col] = preI ++ [a] ++ is' ++ [col] := by simp
      rw [e1, ih, forceT_eq]
      have hstep : (kronStep M ev preS.length).get (preI ++ [a] ++ is' ++ [col]) =
            ∑ q ∈ range M.c, M.a a q * ev.get (preI ++ q :: (is' ++ [col])) := by
        have e2 : preI ++ [a] ++ is' ++ [col] = preI ++ a :: (is' ++ [col]) := by simp
        rw [e2, ← hlen]
        have hi : preI.length < (preI ++ a :: (is' ++ [col])).length := by simp
        have hb : InB (ev.shape.eraseIdx preI.length)
            ((preI ++ a :: (is' ++ [col])).eraseIdx preI.length) := by
          rw [eraseIdx_split, hs1, hlen, eraseIdx_split]
          exact InB_append _ _ _ _ hpre (InB_append _ _ _ _ his'c ⟨hcol, trivial⟩)
        have hr : (preI ++ a :: (is' ++ [col])).getD preI.length 0 < M.r := by
          rw [getD_split]; exact ha
        rw [kronStep_get M hMok ev preI.length _ hi hr hb, getD_split, eraseIdx_split]
        apply Finset.sum_congr rfl
        intro q _
        rw [insertAt_split]
      show out.get _ + (kronStep M ev preS.length).get _ + _ = _
      rw [hstep, add_assoc]
      congr 1
      simp only [List.map_cons, boxSum, kronSumEntry]
      rw [Finset.sum_congr rfl (fun q _ =>
        boxSum_kronSum_split (Ms.map (·.c)) is' his'c (M.a a q) (if a = q then 1 else 0)
          (fun qs => kronSumEntry Ms is' qs) (fun qs => ev.get (preI ++ q :: qs ++ [col])))]
      rw [Finset.sum_add_distrib]
      congr 1
      · apply Finset.sum_congr rfl
        intro q _
        simp
      · simp only [ite_mul, one_mul, zero_mul, Finset.sum_ite_eq, Finset.mem_range, hac, if_true]
        apply boxSum_congr
        intro qs _
        simp

/-- **C01, KronSum case**: for square factors the accumulation loop of `KronSum._matmat` returns
`(Σ_t I ⊗ … ⊗ M_t ⊗ … ⊗ I) · v`. -/
theorem kronSumMatmat_eq [CommSemiring R] (Ms : List (FacAct R)) (hM : ∀ M ∈ Ms, M.Ok)
    (hsq : ∀ M ∈ Ms, M.r = M.c) (b : Nat) (v : MatF R) (I col : Nat)
    (hI : I < (Ms.map (·.r)).prod) (hcol : col < b) :
    (kronSumMatmat Ms b v).f I col =
      ∑ J ∈ range (Ms.map (·.c)).prod, kronSumDen Ms I J * v J col := by
  obtain ⟨_, hinb⟩ := ravel_unravel (Ms.map (·.r)) I hI
  have h := kronSumLoop_get Ms hM hsq (reshapeIn (Ms.map (·.c)) b v)
    ⟨(reshapeIn (Ms.map (·.c)) b v).shape, fun _ => 0⟩ [] b [] (unravel (Ms.map (·.r)) I) col
    (by simp [reshapeIn]) trivial hinb hcol
  simp only [List.length_nil, List.nil_append, zero_add] at h
  simp only [kronSumMatmat, MatV.of_f, reshapeOut, h]
  rw [boxSum_eq_flat]
  apply Finset.sum_congr rfl
  intro J hJ
  obtain ⟨hrav, _⟩ := ravel_unravel (Ms.map (·.c)) J (Finset.mem_range.mp hJ)
  simp [reshapeIn, kronSumDen, hrav]

/-! ## dense forms: `unravel` of a shape with one more trailing axis -/

theorem unravel_length : ∀ (sh : List Nat) (f : Nat), (unravel sh f).length = sh.length
  | [], _ => rfl
  | _ :: ss, f => by simp [unravel, unravel_length ss]

theorem unravel_snoc : ∀ (ss : List Nat) (m I : Nat), I < ss.prod * m →
    unravel (ss ++ [m]) I = unravel ss (I / m) ++ [I % m]
  | [], m, I, h => by
    simp only [List.prod_nil, Nat.one_mul] at h
    simp [unravel, Nat.mod_eq_of_lt h]
  | s :: ss, m, I, h => by
    have hpos : 0 < ss.prod * m := by
      rcases Nat.eq_zero_or_pos (ss.prod * m) with h0 | h0
      · simp only [List.prod_cons, Nat.mul_assoc, h0, Nat.mul_zero] at h; omega
      · exact h0
    have ih := unravel_snoc ss m (I % (ss.prod * m)) (Nat.mod_lt _ hpos)
    simp only [List.cons_append, unravel, List.prod_append, List.prod_cons, List.prod_nil,
      Nat.mul_one]
    rw [ih, Nat.mod_mul_left_div_self, Nat.mod_mul_left_mod, Nat.div_div_eq_div_mul,
      Nat.mul_comm m]

theorem unravel_inj (sh : List Nat) (I J : Nat) (hI : I < sh.prod) (hJ : J < sh.prod) :
    unravel sh I = unravel sh J ↔ I = J := by
  constructor
  · intro h
    rw [← (ravel_unravel sh I hI).1, ← (ravel_unravel sh J hJ).1, h]
  · intro h; rw [h]

/-! ## `Kronecker.to_dense` -/

theorem kronEntry_snoc [CommSemiring R] (M : FacAct R) (i j : Nat) :
    ∀ (Ps : List (FacAct R)) (is js : List Nat), is.length = Ps.length → js.length = Ps.length →
      kronEntry (Ps ++ [M]) (is ++ [i]) (js ++ [j]) = kronEntry Ps is js * M.a i j
  | [], [], [], _, _ => by simp [kronEntry]
  | P :: Ps, a :: is, c :: js, h1, h2 => by
    simp only [List.cons_append, kronEntry]
    rw [kronEntry_snoc M i j Ps is js (by simpa using h1) (by simpa using h2), mul_assoc]
  | [], _ :: _, _, h1, _ => by simp at h1
  | [], [], _ :: _, _, h2 => by simp at h2
  | _ :: _, [], _, h1, _ => by simp at h1
  | _ :: _, _ :: _, [], _, h2 => by simp at h2

/-- appending a factor on the right: the binary `np.kron` div/mod formula -/
theorem kronDen_snoc [CommSemiring R] (Ps : List (FacAct R)) (M : FacAct R) (I J : Nat)
    (hI : I < (Ps.map (·.r)).prod * M.r) (hJ : J < (Ps.map (·.c)).prod * M.c) :
    kronDen (Ps ++ [M]) I J = kronDen Ps (I / M.r) (J / M.c) * M.a (I % M.r) (J % M.c) := by
  simp only [kronDen, List.map_append, List.map_cons, List.map_nil]
  rw [unravel_snoc _ _ _ hI, unravel_snoc _ _ _ hJ]
  exact kronEntry_snoc M _ _ Ps _ _ (by simp [unravel_length]) (by simp [unravel_length])

theorem kronDense_gen [CommSemiring R] : ∀ (Fs Ps : List (FacAct R)) (rP cP : Nat) (acc : MatF R),
    (∀ I J, I < (Ps.map (·.r)).prod → J < (Ps.map (·.c)).prod → acc I J = kronDen Ps I J) →
    ∀ I J, I < ((Ps ++ Fs).map (·.r)).prod → J < ((Ps ++ Fs).map (·.c)).prod →
      kronDense rP cP acc Fs I J = kronDen (Ps ++ Fs) I J
  | [], Ps, rP, cP, acc, hacc, I, J, hI, hJ => by
    simp only [List.append_nil] at hI hJ ⊢
    exact hacc I J hI hJ
  | M :: Ms, Ps, rP, cP, acc, hacc, I, J, hI, hJ => by
    have e : Ps ++ M :: Ms = (Ps ++ [M]) ++ Ms := by simp
    rw [e] at hI hJ ⊢
    simp only [kronDense]
    apply kronDense_gen Ms (Ps ++ [M]) _ _ _ _ I J hI hJ
    intro I' J' hI' hJ'
    simp only [List.map_append, List.map_cons, List.map_nil, List.prod_append, List.prod_cons,
      List.prod_nil, Nat.mul_one] at hI' hJ'
    rw [kronDen_snoc Ps M I' J' hI' hJ']
    simp only [kron2]
    rw [hacc _ _ (Nat.div_lt_of_lt_mul (by rwa [Nat.mul_comm] at hI'))
      (Nat.div_lt_of_lt_mul (by rwa [Nat.mul_comm] at hJ'))]

/-- `Kronecker.to_dense` (`reduce(np.kron, dense factors)`, a left fold) is the multi-index
Kronecker matrix `kronDen`. -/
theorem kronDense_eq [CommSemiring R] (F : FacAct R) (Fs : List (FacAct R)) (I J : Nat)
    (hI : I < ((F :: Fs).map (·.r)).prod) (hJ : J < ((F :: Fs).map (·.c)).prod) :
    kronDense F.r F.c F.a Fs I J = kronDen (F :: Fs) I J := by
  apply kronDense_gen Fs [F] F.r F.c F.a _ I J hI hJ
  intro I' J' _ _
  simp [kronDen, unravel, kronEntry]

/-! ## `KronSum.to_dense` -/

theorem kronSumEntry_snoc [CommSemiring R] (M : FacAct R) (i j : Nat) :
    ∀ (Ps : List (FacAct R)) (is js : List Nat), is.length = Ps.length → js.length = Ps.length →
      kronSumEntry (Ps ++ [M]) (is ++ [i]) (js ++ [j]) =
        kronSumEntry Ps is js * (if i = j then 1 else 0) + (if is = js then 1 else 0) * M.a i j
  | [], [], [], _, _ => by simp [kronSumEntry]
  | P :: Ps, a :: is, c :: js, h1, h2 => by
    simp only [List.cons_append, kronSumEntry]
    rw [kronSumEntry_snoc M i j Ps is js (by simpa using h1) (by simpa using h2)]
    have hl : (is ++ [i] = js ++ [j]) ↔ (is = js ∧ i = j) := by
      constructor
      · intro h
        obtain ⟨h3, h4⟩ := List.append_inj' h rfl
        exact ⟨h3, by simpa using h4⟩
      · rintro ⟨rfl, rfl⟩; rfl
    by_cases hac : a = c <;> by_cases hij : i = j <;> by_cases hs : is = js <;>
      simp [hl, hac, hij, hs, add_assoc]
  | [], _ :: _, _, h1, _ => by simp at h1
  | [], [], _ :: _, _, h2 => by simp at h2
  | _ :: _, [], _, h1, _ => by simp at h1
  | _ :: _, _ :: _, [], _, h2 => by simp at h2

/-- appending a square factor on the right: `kronsum(A, B) = kron(A, I) + kron(I, B)` -/
theorem kronSumDen_snoc [CommSemiring R] (Ps : List (FacAct R)) (M : FacAct R)
    (hsq : ∀ P ∈ Ps, P.r = P.c) (I J : Nat)
    (hI : I < (Ps.map (·.r)).prod * M.r) (hJ : J < (Ps.map (·.c)).prod * M.c) :
    kronSumDen (Ps ++ [M]) I J =
      kronSumDen Ps (I / M.r) (J / M.c) * (if I % M.r = J % M.c then 1 else 0) +
        (if I / M.r = J / M.c then 1 else 0) * M.a (I % M.r) (J % M.c) := by
  have hI' : I / M.r < (Ps.map (·.r)).prod :=
    Nat.div_lt_of_lt_mul (by rwa [Nat.mul_comm] at hI)
  have hJ' : J / M.c < (Ps.map (·.r)).prod := by
    rw [map_r_eq_c Ps hsq]
    exact Nat.div_lt_of_lt_mul (by rwa [Nat.mul_comm] at hJ)
  simp only [kronSumDen, List.map_append, List.map_cons, List.map_nil]
  rw [unravel_snoc _ _ _ hI, unravel_snoc _ _ _ hJ]
  rw [kronSumEntry_snoc M _ _ Ps _ _ (by simp [unravel_length]) (by simp [unravel_length])]
  have hd : (unravel (Ps.map (·.r)) (I / M.r) = unravel (Ps.map (·.c)) (J / M.c)) ↔
      I / M.r = J / M.c := by
    rw [← map_r_eq_c Ps hsq]
    exact unravel_inj _ _ _ hI' hJ'
  simp only [hd]

theorem kronSumDense_gen [CommSemiring R] : ∀ (Fs Ps : List (FacAct R)) (rP : Nat) (acc : MatF R),
    (∀ M ∈ Ps ++ Fs, M.r = M.c) →
    (∀ I J, I < (Ps.map (·.r)).prod → J < (Ps.map (·.c)).prod → acc I J = kronSumDen Ps I J) →
    ∀ I J, I < ((Ps ++ Fs).map (·.r)).prod → J < ((Ps ++ Fs).map (·.c)).prod →
      kronSumDense rP acc Fs I J = kronSumDen (Ps ++ Fs) I J
  | [], Ps, rP, acc, _, hacc, I, J, hI, hJ => by
    simp only [List.append_nil] at hI hJ ⊢
    exact hacc I J hI hJ
  | M :: Ms, Ps, rP, acc, hsq, hacc, I, J, hI, hJ => by
    have e : Ps ++ M :: Ms = (Ps ++ [M]) ++ Ms := by simp
    have hsqP : ∀ P ∈ Ps, P.r = P.c := fun P h => hsq P (by simp [h])
    have hsqM : M.r = M.c := hsq M (by simp)
    rw [e] at hI hJ hsq ⊢
    simp only [kronSumDense]
    apply kronSumDense_gen Ms (Ps ++ [M]) _ _ hsq _ I J hI hJ
    intro I' J' hI' hJ'
    simp only [List.map_append, List.map_cons, List.map_nil, List.prod_append, List.prod_cons,
      List.prod_nil, Nat.mul_one] at hI' hJ'
    rw [kronSumDen_snoc Ps M hsqP I' J' hI' hJ']
    simp only [addM, kron2, eyeM]
    rw [← hsqM] at hJ' ⊢
    rw [hacc _ _ (Nat.div_lt_of_lt_mul (by rwa [Nat.mul_comm] at hI'))
      (Nat.div_lt_of_lt_mul (by rwa [Nat.mul_comm] at hJ'))]

/-- `KronSum.to_dense` (`reduce(kronsum, dense factors)`) is the multi-index Kronecker-sum matrix
`kronSumDen`, for square factors. -/
theorem kronSumDense_eq [CommSemiring R] (F : FacAct R) (Fs : List (FacAct R))
    (hsq : ∀ M ∈ F :: Fs, M.r = M.c) (I J : Nat)
    (hI : I < ((F :: Fs).map (·.r)).prod) (hJ : J < ((F :: Fs).map (·.c)).prod) :
    kronSumDense F.r F.a Fs I J = kronSumDen (F :: Fs) I J := by
  apply kronSumDense_gen Fs [F] F.r F.a hsq _ I J hI hJ
  intro I' J' _ _
  simp [kronSumDen, unravel, kronSumEntry]

#print axioms kronSumMatmat_eq
#print axioms kronDense_eq
#print axioms kronSumDense_eq
