import ColaVerif.Lemmas.AnnotSound
import ColaVerif.Lemmas.OpAlgebra
import ColaVerif.Lemmas.AnnotReal
import Mathlib.Analysis.Complex.Basic

/-!
# Non-trivial witnesses for the hypothesis bundle of the C05 theorems

* `psdWitness : Op ℂ` = `PSD(Dense P) ⊗ (Aᴴ @ A)`: `P = [[1, i], [-i, 2]]` is declared PSD (true:
  `P = Bᴴ B`, `psdP_holds`), `A` is a 3 × 2 complex matrix and `Aᴴ @ A` is recognised by the Gram
  rule of `get_annotations(Product)`; the Kronecker rule intersects: the 4 × 4 operator reports
  PSD.  `psdWitness_hyps` proves the four hypotheses, `psdWitness_psd` applies the soundness
  theorem: the represented 4 × 4 matrix is positive semidefinite.
* `unitaryWitness : Op ℝ` = `Permutation([1, 0]) @ Unitary(Householder(v, 2))`, `v = (3/5, 4/5)`:
  the declaration is true (`house_unitary`), the Product rule intersects {Unitary}: the composite
  reports Unitary and, by the theorem, is orthogonal.
-/

open scoped ComplexOrder
open Matrix Op

/-- `[[1, i], [-i, 2]]` = `Bᴴ B` for `B = [[1, i], [0, 1]]`: PSD, not diagonal, not real -/
noncomputable def psdP : MatF ℂ := fun i j =>
  if i = 0 ∧ j = 0 then 1 else if i = 0 ∧ j = 1 then Complex.I
  else if i = 1 ∧ j = 0 then -Complex.I else 2
noncomputable def psdB : MatF ℂ := fun i j =>
  if i = 0 ∧ j = 0 then 1 else if i = 0 ∧ j = 1 then Complex.I
  else if i = 1 ∧ j = 0 then 0 else 1

theorem psdP_holds : Holds .psd 2 2 psdP := by
  refine ⟨rfl, ?_⟩
  have : MatF.toMatrix 2 2 psdP = (MatF.toMatrix 2 2 psdB)ᴴ * MatF.toMatrix 2 2 psdB := by
    ext i j
    fin_cases i <;> fin_cases j <;>
      simp [Matrix.mul_apply, Fin.sum_univ_two, psdP, psdB, MatF.toMatrix]; norm_num
  rw [this]
  exact Matrix.posSemidef_conjTranspose_mul_self _

/-- a 3 × 2 complex matrix -/
noncomputable def gramA : MatF ℂ := fun i j =>
  if i = 0 then (if j = 0 then 1 else Complex.I) else if i = 1 then (if j = 0 then 2 else 0)
  else (if j = 0 then -Complex.I else 1)

/-- `PSD(P) ⊗ (Aᴴ @ A)` -/
noncomputable def psdWitness : Op ℂ :=
  .kron [.annot .psd (.dense .c128 2 2 psdP),
    .prod [.adjoint (.dense .c64 3 2 gramA), .dense .c64 3 2 gramA]]

theorem psdWitness_hyps : psdWitness.wf = true ∧ psdWitness.LeavesTrue ∧
    psdWitness.NoScalarTimesAnnotated ∧ psdWitness.GramTransposeReal ∧
    Ann.psd ∈ psdWitness.anns ∧ psdWitness.rows = 4 ∧ psdWitness.cols = 4 := by
  refine ⟨?_, ?_, ?_, ?_, ?_, ?_, ?_⟩
  · simp [psdWitness, Op.wf, Op.chainOk, Op.rows, Op.cols]
  · simp only [psdWitness, LeavesTrue, List.mem_cons, List.not_mem_nil, or_false,
      forall_eq_or_imp, forall_eq, and_true, Op.rows, Op.cols, Op.den, MatV.of_f]
    exact psdP_holds
  · simp [psdWitness, NoScalarTimesAnnotated, Op.scalarTimesAnnotated, prodScalarDefect, isScalarMul, core]
  · simp [psdWitness, GramTransposeReal, gramViaTranspose, gramB, isTA, isT, core]
  · simp [psdWitness, Op.anns, isTA, isT, core, areTheSame, sameObj, winEq, Op.dtype,
      DType.isComplex, AnnSet.interAll, AnnSet.inter, AnnSet.union, AnnSet.diff, Op.rows, Op.cols]
  · simp [psdWitness, Op.rows, Op.cols]
  · simp [psdWitness, Op.rows, Op.cols]

theorem psdWitness_psd : Holds .psd 4 4 psdWitness.den.f := by
  obtain ⟨h1, h2, h3, h4, h5, h6, h7⟩ := psdWitness_hyps
  have := anns_sound psdWitness ⟨h1, h2, h3, h4⟩ _ h5
  rwa [h6, h7] at this

/-- Householder reflection for `v = (3/5, 4/5)`, `β = 2`: `[[7/25, -24/25], [-24/25, -7/25]]` -/
noncomputable def houseV : Nat → ℝ := fun i => if i = 0 then 3/5 else 4/5

theorem house_unitary : Holds .unitary 2 2 (houseDen houseV (2 : ℝ)) := by
  refine ⟨rfl, ?_, ?_⟩ <;>
  · ext i j
    fin_cases i <;> fin_cases j <;>
      simp [Matrix.mul_apply, Fin.sum_univ_two, houseDen, houseV, MatF.toMatrix] <;> norm_num

/-- `Permutation([1, 0]) @ Unitary(Householder)`… a composite of two unitary factors, 2 × 2 -/
noncomputable def unitaryWitness : Op ℝ :=
  .prod [.perm .f64 [1, 0], .annot .unitary (.house .f64 2 houseV 2)]

theorem unitaryWitness_hyps : unitaryWitness.wf = true ∧ unitaryWitness.LeavesTrue ∧
    unitaryWitness.NoScalarTimesAnnotated ∧ unitaryWitness.GramTransposeReal ∧
    Ann.unitary ∈ unitaryWitness.anns ∧ unitaryWitness.rows = 2 ∧ unitaryWitness.cols = 2 := by
  refine ⟨?_, ?_, ?_, ?_, ?_, ?_, ?_⟩
  · simp [unitaryWitness, Op.wf, Op.chainOk, Op.rows, Op.cols]
  · simp only [unitaryWitness, LeavesTrue, List.mem_cons, List.not_mem_nil, or_false,
      forall_eq_or_imp, forall_eq, and_true, true_and, Op.rows, Op.cols, Op.den, MatV.of_f]
    exact house_unitary
  · simp [unitaryWitness, NoScalarTimesAnnotated, Op.scalarTimesAnnotated, prodScalarDefect, isScalarMul, core]
  · simp [unitaryWitness, GramTransposeReal, gramViaTranspose, gramB, isTA, isT, core]
  · simp [unitaryWitness, Op.anns, isTA, isT, core, areTheSame, sameObj, isScalarMul,
      AnnSet.interAll, AnnSet.inter, AnnSet.union, AnnSet.diff, Op.rows, Op.cols]
  · simp [unitaryWitness, Op.rows, Op.cols]
  · simp [unitaryWitness, Op.rows, Op.cols]

theorem unitaryWitness_unitary : Holds .unitary 2 2 unitaryWitness.den.f := by
  obtain ⟨h1, h2, h3, h4, h5, h6, h7⟩ := unitaryWitness_hyps
  have := anns_sound unitaryWitness ⟨h1, h2, h3, h4⟩ _ h5
  rwa [h6, h7] at this
#print axioms psdWitness_psd
#print axioms unitaryWitness_unitary
