import ColaVerif.Model.LogDet
import ColaVerif.Lemmas.LogDetMat
import Mathlib.LinearAlgebra.Matrix.Permutation
import Mathlib.GroupTheory.Perm.Sign

/-!
# C07: the cycle-counting loop of the Permutation rule computes the sign

`permEven p` (model of the loop in `slogdet(A: Permutation, …)`) is the parity of the
permutation `i ↦ p[i]`, and `permDen p` is its permutation matrix, so
`det (permDen p) = if permEven p then 1 else -1`.

The proof follows the loop with one invariant: a permutation `τ` that agrees with `σ` on the
marked positions (except that, while a cycle is being walked, the last marked position is sent
back to the start of the walk), fixes all unmarked positions, and has sign
`(-1) ^ (marked + cycles)`.  Marking the next position of a walk multiplies `τ` by one
transposition; closing a walk changes nothing; opening a walk marks a fixed point of `τ` and
counts one cycle.
-/

open Equiv Equiv.Perm

namespace Op
namespace PermProof

variable {n : Nat} (σ : Perm (Fin n))

structure Inv (seen : List Nat) (c : Nat) (τ : Perm (Fin n)) : Prop where
  nodup : seen.Nodup
  lt : ∀ x ∈ seen, x < n
  fix : ∀ x : Fin n, x.val ∉ seen → τ x = x
  sgn : sign τ = (-1) ^ (seen.length + c)
  cle : c ≤ seen.length

/-- between two walks: `τ` is `σ` on the marked positions -/
def Closed (seen : List Nat) (c : Nat) (τ : Perm (Fin n)) : Prop :=
  Inv seen c τ ∧ ∀ x : Fin n, x.val ∈ seen → τ x = σ x

/-- during a walk started at `s0` whose last marked position is `last` -/
def Open (seen : List Nat) (c : Nat) (τ : Perm (Fin n)) (s0 last : Fin n) : Prop :=
  Inv seen c τ ∧ (∀ x : Fin n, x.val ∈ seen → x ≠ last → τ x = σ x) ∧ τ last = s0 ∧
    s0.val ∈ seen ∧ last.val ∈ seen

theorem length_le_of_inv {seen : List Nat} (hnd : seen.Nodup) (hlt : ∀ x ∈ seen, x < n) :
    seen.length ≤ n := by
  have hsub : seen ⊆ List.range n := fun x hx => List.mem_range.mpr (hlt x hx)
  have := (hnd.subperm hsub).length_le
  simpa using this

variable {σ}

/-- the walk closes exactly when it is back at its start -/
theorem open_close {seen : List Nat} {c : Nat} {τ : Perm (Fin n)} {s0 last : Fin n}
    (h : Open σ seen c τ s0 last) (hj : (σ last).val ∈ seen) : Closed σ seen c τ := by
  obtain ⟨hinv, hag, hlast, hs0, hl⟩ := h
  have hx : (τ.symm (σ last)).val ∈ seen := by
    by_contra hx
    have := hinv.fix _ hx
    rw [Equiv.apply_symm_apply] at this
    rw [← this] at hx
    exact hx hj
  have hxl : τ.symm (σ last) = last := by
    by_contra hne
    have := hag _ hx hne
    rw [Equiv.apply_symm_apply] at this
    exact hne (σ.injective this.symm)
  have hs : σ last = s0 := by
    rw [← hlast]
    conv_rhs => rw [← hxl]
    rw [Equiv.apply_symm_apply]
  refine ⟨hinv, fun x hxs => ?_⟩
  by_cases hxe : x = last
  · subst hxe; rw [hlast, hs]
  · exact hag x hxs hxe

/-- marking the next position of a walk -/
theorem open_step {seen : List Nat} {c : Nat} {τ : Perm (Fin n)} {s0 last : Fin n}
    (h : Open σ seen c τ s0 last) (hj : (σ last).val ∉ seen) :
    Open σ ((σ last).val :: seen) c (swap s0 (σ last) * τ) s0 (σ last) := by
  obtain ⟨hinv, hag, hlast, hs0, hl⟩ := h
  have hne : s0 ≠ σ last := fun he => hj (he ▸ hs0)
  have hfixj : τ (σ last) = σ last := hinv.fix _ hj
  refine ⟨⟨?_, ?_, ?_, ?_, ?_⟩, ?_, ?_, ?_, ?_⟩
  · exact List.nodup_cons.mpr ⟨hj, hinv.nodup⟩
  · intro x hx
    rcases List.mem_cons.mp hx with rfl | hx
    · exact (σ last).isLt
    · exact hinv.lt x hx
  · intro x hx
    have hx1 : x ≠ σ last := fun he => hx (he ▸ List.mem_cons_self)
    have hx2 : x.val ∉ seen := fun hm => hx (List.mem_cons_of_mem _ hm)
    have hx3 : x ≠ s0 := fun he => hx2 (he ▸ hs0)
    rw [Perm.mul_apply, hinv.fix x hx2, swap_apply_of_ne_of_ne hx3 hx1]
  · rw [Perm.sign_mul, sign_swap hne, hinv.sgn, List.length_cons]
    rw [show seen.length + 1 + c = (seen.length + c) + 1 by ring, pow_succ]
    rw [mul_comm]
  · rw [List.length_cons]; exact Nat.le_succ_of_le hinv.cle
  · intro x hx hxn
    have hxs : x.val ∈ seen := by
      rcases List.mem_cons.mp hx with he | hx
      · exact absurd (Fin.ext he) hxn
      · exact hx
    rw [Perm.mul_apply]
    by_cases hxe : x = last
    · subst hxe; rw [hlast, swap_apply_left]
    · rw [hag x hxs hxe]
      have h1 : σ x ≠ s0 := by
        intro he
        rw [← hag x hxs hxe, ← hlast] at he
        exact hxe (τ.injective he)
      have h2 : σ x ≠ σ last := fun he => hxe (σ.injective he)
      exact swap_apply_of_ne_of_ne h1 h2
  · rw [Perm.mul_apply, hfixj, swap_apply_right]
  · exact List.mem_cons_of_mem _ hs0
  · exact List.mem_cons_self

variable (p : List Nat) (hp : ∀ x : Fin n, p.getD x.val 0 = (σ x).val)
include hp

/-- the `while not seen[j]` loop, started inside a walk, closes the walk -/
theorem walk_spec : ∀ (fuel : Nat) (seen : List Nat) (c : Nat) (τ : Perm (Fin n)) (s0 last : Fin n),
    Open σ seen c τ s0 last → n + 1 ≤ fuel + seen.length →
    ∃ τ', Closed σ (permWalk p fuel (σ last).val seen) c τ' ∧
      seen ⊆ permWalk p fuel (σ last).val seen
  | 0, seen, c, τ, s0, last, h, hf => by
    have := length_le_of_inv h.1.nodup h.1.lt
    omega
  | fuel + 1, seen, c, τ, s0, last, h, hf => by
    rw [permWalk]
    by_cases hj : (σ last).val ∈ seen
    · have hc : seen.contains (σ last).val = true := by simpa using hj
      rw [if_pos hc]
      exact ⟨τ, open_close h hj, List.Subset.refl _⟩
    · have hc : ¬ seen.contains (σ last).val = true := by simpa using hj
      rw [if_neg hc, hp (σ last)]
      have hstep := open_step h hj
      obtain ⟨τ', hcl, hsub⟩ := walk_spec fuel ((σ last).val :: seen) c _ s0 (σ last) hstep
        (by rw [List.length_cons]; omega)
      exact ⟨τ', hcl, fun x hx => hsub (List.mem_cons_of_mem _ hx)⟩

/-- the `for start in range(n)` loop -/
theorem loop_spec : ∀ (starts : List Nat) (seen : List Nat) (c : Nat) (τ : Perm (Fin n)),
    Closed σ seen c τ → (∀ x ∈ starts, x < n) → p.length = n →
    ∃ seen' τ', Closed σ seen' (permLoop p starts seen c) τ' ∧ seen ⊆ seen' ∧ starts ⊆ seen'
  | [], seen, c, τ, h, _, _ => ⟨seen, τ, by simpa [permLoop] using h, List.Subset.refl _, by simp⟩
  | s :: rest, seen, c, τ, h, hs, hlen => by
    have hrest : ∀ x ∈ rest, x < n := fun x hx => hs x (List.mem_cons_of_mem _ hx)
    rw [permLoop]
    by_cases hm : s ∈ seen
    · have hc : seen.contains s = true := by simpa using hm
      rw [if_pos hc]
      obtain ⟨seen', τ', hcl, h1, h2⟩ := loop_spec rest seen c τ h hrest hlen
      refine ⟨seen', τ', hcl, h1, ?_⟩
      intro x hx
      rcases List.mem_cons.mp hx with rfl | hx
      · exact h1 hm
      · exact h2 hx
    · have hc : ¬ seen.contains s = true := by simpa using hm
      rw [if_neg hc]
      have hsn : s < n := hs s List.mem_cons_self
      let s' : Fin n := ⟨s, hsn⟩
      -- first round of the walk marks `s`
      have hw : permWalk p (p.length + 1) s seen = permWalk p n (σ s').val (s :: seen) := by
        rw [permWalk, if_neg hc, hlen, ← hp s']
      obtain ⟨hinv, hag⟩ := h
      have hopen : Open σ (s :: seen) (c + 1) τ s' s' := by
        refine ⟨⟨?_, ?_, ?_, ?_, ?_⟩, ?_, ?_, ?_, ?_⟩
        · exact List.nodup_cons.mpr ⟨hm, hinv.nodup⟩
        · intro x hx
          rcases List.mem_cons.mp hx with rfl | hx
          · exact hsn
          · exact hinv.lt x hx
        · intro x hx
          exact hinv.fix x (fun hm' => hx (List.mem_cons_of_mem _ hm'))
        · rw [hinv.sgn, List.length_cons]
          rw [show seen.length + 1 + (c + 1) = (seen.length + c) + 2 by ring,
            pow_add _ (seen.length + c) 2, neg_one_sq, mul_one]
        · rw [List.length_cons]; exact Nat.succ_le_succ hinv.cle
        · intro x hx hxn
          rcases List.mem_cons.mp hx with he | hx
          · exact absurd (Fin.ext he) hxn
          · exact hag x hx
        · exact hinv.fix s' hm
        · exact List.mem_cons_self
        · exact List.mem_cons_self
      obtain ⟨τ1, hcl1, hsub1⟩ := walk_spec p hp n (s :: seen) (c + 1) τ s' s' hopen
        (by rw [List.length_cons]; omega)
      rw [hw]
      obtain ⟨seen', τ', hcl, h1, h2⟩ := loop_spec rest _ (c + 1) τ1 hcl1 hrest hlen
      refine ⟨seen', τ', hcl, fun x hx => h1 (hsub1 (List.mem_cons_of_mem _ hx)), ?_⟩
      intro x hx
      rcases List.mem_cons.mp hx with rfl | hx
      · exact h1 (hsub1 List.mem_cons_self)
      · exact h2 hx

/-- the loop's parity is the sign -/
theorem permEven_sign (hlen : p.length = n) :
    sign σ = if permEven p then 1 else -1 := by
  have h0 : Closed σ [] 0 (1 : Perm (Fin n)) :=
    ⟨⟨List.nodup_nil, by simp, fun _ _ => rfl, by simp, le_refl _⟩, by simp⟩
  obtain ⟨seen', τ', ⟨hinv, hag⟩, _, hall⟩ := loop_spec p hp (List.range n) [] 0 1 h0
    (fun x hx => List.mem_range.mp hx) hlen
  have hτ : τ' = σ := by
    ext x
    rw [hag x (hall (List.mem_range.mpr x.isLt))]
  have hle : seen'.length ≤ n := length_le_of_inv hinv.nodup hinv.lt
  have hge : n ≤ seen'.length := by
    have := ((List.nodup_range (n := n)).subperm hall).length_le
    simpa using this
  have hl : seen'.length = n := le_antisymm hle hge
  have hc : permLoop p (List.range n) [] 0 = permCycles p := by
    rw [permCycles, hlen]
  rw [← hτ, hinv.sgn, hl, hc]
  have hcle : permCycles p ≤ n := by
    have := hinv.cle
    rw [hc, hl] at this
    exact this
  unfold permEven
  rw [hlen]
  have h2 : n + permCycles p = (n - permCycles p) + 2 * permCycles p := by omega
  rw [h2, pow_add, pow_mul]
  simp only [even_two, Even.neg_pow, one_pow, mul_one]
  rcases Nat.mod_two_eq_zero_or_one (n - permCycles p) with h | h
  · rw [h]
    simp only [beq_self_eq_true, if_true]
    exact Even.neg_one_pow (Nat.even_iff.mpr h)
  · rw [h]
    simp only [Nat.one_ne_zero, beq_iff_eq, if_false]
    exact Odd.neg_one_pow (Nat.odd_iff.mpr h)

end PermProof

/-! ## the permutation matrix -/

variable {R : Type} [CommRing R]

/-- `i ↦ p[i]` as a permutation of `Fin p.length` -/
noncomputable def listPerm (p : List Nat) (hlt : ∀ t ∈ p, t < p.length) (hnd : p.Nodup) :
    Perm (Fin p.length) :=
  Equiv.ofBijective (MatF.idxFin p.length p hlt) (by
    have hinj : Function.Injective (MatF.idxFin p.length p hlt) := by
      intro i j hij
      have h := congrArg Fin.val hij
      simp only [MatF.idxFin] at h
      rw [← List.getElem_eq_getD (h := i.isLt) 0, ← List.getElem_eq_getD (h := j.isLt) 0] at h
      exact Fin.ext ((List.Nodup.getElem_inj_iff hnd).mp h)
    exact ⟨hinj, Finite.injective_iff_surjective.mp hinj⟩)

theorem listPerm_apply (p : List Nat) (hlt : ∀ t ∈ p, t < p.length) (hnd : p.Nodup)
    (x : Fin p.length) : p.getD x.val 0 = (listPerm p hlt hnd x).val := rfl

theorem toMatrix_permDen (p : List Nat) (hlt : ∀ t ∈ p, t < p.length) (hnd : p.Nodup) :
    MatF.toMatrix p.length p.length (permDen p : MatF R) = (listPerm p hlt hnd).permMatrix R := by
  ext i j
  simp only [MatF.toMatrix_apply, permDen, PEquiv.toMatrix_apply, Equiv.toPEquiv_apply,
    Option.mem_def, Option.some.injEq]
  rw [listPerm_apply p hlt hnd i]
  simp only [Fin.ext_iff]

/-- `det` of the represented matrix of a Permutation operator = the sign the rule returns -/
theorem detN_permDen (p : List Nat) (hlt : ∀ t ∈ p, t < p.length) (hnd : p.Nodup) :
    detN p.length (permDen p : MatF R) = if permEven p then 1 else -1 := by
  unfold detN
  rw [toMatrix_permDen p hlt hnd, Matrix.det_permutation,
    PermProof.permEven_sign p (listPerm_apply p hlt hnd) rfl]
  split <;> simp

end Op
