import ColaVerif.Lemmas.RngMeasure
import ColaVerif.Lemmas.RngProb
import Mathlib.Probability.Distributions.Gaussian.Real
import Mathlib.MeasureTheory.Integral.Pi
import Mathlib.Probability.Independence.Integration
import Mathlib.Data.Real.Sign

/-!
# C17 — concrete probe laws: i.i.d. entries, standard normal and Rademacher

`StdEntry ν φ` is the ONE abstract structure all probe laws of `hutchinson_diag_estimate` are
instances of: the entries of the probe block are `φ(g)` with `g ~ ν` independent (the sample space
is the finite product `Measure.pi (fun _ => ν)` over the `n × bs` entries of `xnp.randn(n, bs)`),
`φ(g)` square integrable with mean `0` and second moment `1`.

* `pi_moments` — under the product measure the entries have `∫ φ(ω i) φ(ω j) = δ_ij` and the
  products are integrable (independence of the coordinates: `iIndepFun_pi`);
* `stdEntry_gaussian` — `ν = gaussianReal 0 1`, `φ = id` (`rand='normal'`): mean and variance of
  Mathlib's Gaussian measure (`integral_id_gaussianReal`, `variance_id_gaussianReal`,
  `memLp_id_gaussianReal`);
* `stdEntry_signGaussian` — `ν = gaussianReal 0 1`, `φ = Real.sign` (`rand='rademacher'` exactly as
  coded: `z = xnp.sign(xnp.randn(...))`, with `sign 0 = 0` as in NumPy): symmetry of the centred
  Gaussian (`gaussianReal_map_neg`) and absence of atoms (`nullSingletonClass_gaussianReal`);
* `stdEntry_rademacher` — `ν = ½ δ₁ + ½ δ₋₁`, `φ = id` (the uniform law on `{±1}`);
* `est_integral_iid`, `estSum_integral_iid` — unbiasedness of the per-column estimator and of the
  block sum for every `StdEntry`;
* `Ex_uniform_eq_integral` — the finite expectation `Ex (uniform Ω)` of `Lemmas/RngProb.lean` IS
  the integral against the normalised counting measure.
-/

open MeasureTheory ProbabilityTheory Finset

namespace ColaVerif.Hutch

/-- law of one probe entry: entries are `φ(g)` with `g ~ ν`; probability measure, square
integrable, mean `0`, second moment `1` -/
structure StdEntry (ν : Measure ℝ) (φ : ℝ → ℝ) : Prop where
  prob : IsProbabilityMeasure ν
  memLp : MemLp φ 2 ν
  mean : ∫ x, φ x ∂ν = 0
  second : ∫ x, φ x * φ x ∂ν = 1

/-- i.i.d. entries: under the product measure `∫ φ(ω i) φ(ω j) = δ_ij`, products integrable -/
theorem pi_moments {ι : Type} [Fintype ι] [DecidableEq ι] {ν : Measure ℝ} {φ : ℝ → ℝ}
    (h : StdEntry ν φ) (i j : ι) :
    Integrable (fun ω : ι → ℝ => φ (ω i) * φ (ω j)) (Measure.pi fun _ => ν) ∧
    ∫ ω : ι → ℝ, φ (ω i) * φ (ω j) ∂(Measure.pi fun _ => ν) = if i = j then 1 else 0 := by
  have := h.prob
  have hm : ∀ i : ι, MemLp (fun ω : ι → ℝ => φ (ω i)) 2 (Measure.pi fun _ => ν) := fun i =>
    h.memLp.comp_measurePreserving (measurePreserving_eval (fun _ : ι => ν) i)
  refine ⟨(hm i).integrable_mul (hm j), ?_⟩
  by_cases hij : i = j
  · subst hij
    rw [if_pos rfl]
    have := integral_comp_eval (μ := fun _ : ι => ν) (i := i) (f := fun x => φ x * φ x)
      (h.memLp.aestronglyMeasurable.mul h.memLp.aestronglyMeasurable)
    rw [this, h.second]
  · rw [if_neg hij]
    have hind : (fun ω : ι → ℝ => φ (ω i)) ⟂ᵢ[Measure.pi fun _ => ν] (fun ω : ι → ℝ => φ (ω j)) :=
      (iIndepFun_pi (μ := fun _ : ι => ν) (X := fun _ => φ)
        (fun _ => h.memLp.aestronglyMeasurable.aemeasurable)).indepFun hij
    rw [hind.integral_fun_mul_eq_mul_integral (hm i).aestronglyMeasurable (hm j).aestronglyMeasurable]
    have := integral_comp_eval (μ := fun _ : ι => ν) (i := i) (f := φ) h.memLp.aestronglyMeasurable
    rw [this, h.mean, zero_mul]

/-! ## the three laws -/

/-- `rand='normal'`: the standard normal law of Mathlib has mean 0 and second moment 1 -/
theorem stdEntry_gaussian : StdEntry (gaussianReal 0 1) id where
  prob := inferInstance
  memLp := memLp_id_gaussianReal 2
  mean := by simp
  second := by
    have hv := variance_id_gaussianReal (μ := 0) (v := 1)
    rw [variance_eq_integral measurable_id.aemeasurable] at hv
    simp only [id, integral_id_gaussianReal, sub_zero, NNReal.coe_one] at hv
    have e : (fun x : ℝ => id x * id x) = fun x => x ^ 2 := by funext x; simp [sq]
    rw [e]; exact hv

theorem measurable_realSign : Measurable Real.sign := by
  unfold Real.sign
  exact Measurable.ite measurableSet_Iio measurable_const
    (Measurable.ite measurableSet_Ioi measurable_const measurable_const)

theorem sign_mul_self_ae (ν : Measure ℝ) (h0 : ν {0} = 0) :
    (fun x => Real.sign x * Real.sign x) =ᵐ[ν] fun _ => (1 : ℝ) := by
  have : ∀ᵐ x ∂ν, x ≠ 0 := by
    rw [ae_iff]; simpa using h0
  filter_upwards [this] with x hx
  rcases Real.sign_apply_eq_of_ne_zero x hx with h | h <;> rw [h] <;> norm_num

/-- `rand='rademacher'` as coded, `z = sign(randn(...))`: entries `sign(g)`, `g ~ N(0,1)`
(`Real.sign 0 = 0` as `np.sign`; the event `g = 0` has measure zero and is accounted for) -/
theorem stdEntry_signGaussian : StdEntry (gaussianReal 0 1) Real.sign where
  prob := inferInstance
  memLp := by
    refine MemLp.of_bound measurable_realSign.aestronglyMeasurable 1 (ae_of_all _ fun x => ?_)
    rcases Real.sign_apply_eq x with h | h | h <;> rw [h] <;> norm_num
  mean := by
    have hneg : (gaussianReal 0 1).map (fun x => -x) = gaussianReal 0 1 := by
      rw [gaussianReal_map_neg, neg_zero]
    have h1 : ∫ x, Real.sign x ∂(gaussianReal 0 1) = ∫ x, Real.sign (-x) ∂(gaussianReal 0 1) := by
      conv_lhs => rw [← hneg]
      rw [integral_map (by fun_prop) measurable_realSign.aestronglyMeasurable]
    simp_rw [Real.sign_neg, integral_neg] at h1
    linarith
  second := by
    have := nullSingletonClass_gaussianReal (μ := 0) (v := 1) one_ne_zero
    rw [integral_congr_ae (sign_mul_self_ae _ (measure_singleton 0))]
    simp

/-- the uniform law on `{1, -1}` -/
noncomputable def rademacherReal : Measure ℝ :=
  (2⁻¹ : ENNReal) • (Measure.dirac (1 : ℝ) + Measure.dirac (-1 : ℝ))

theorem integrable_rademacherReal (f : ℝ → ℝ) : Integrable f rademacherReal := by
  unfold rademacherReal
  refine Integrable.smul_measure ?_ (by simp)
  exact (integrable_dirac (by simp)).add_measure (integrable_dirac (by simp))

theorem integral_rademacherReal (f : ℝ → ℝ) :
    ∫ x, f x ∂rademacherReal = (f 1 + f (-1)) / 2 := by
  unfold rademacherReal
  rw [integral_smul_measure, integral_add_measure (integrable_dirac (by simp))
    (integrable_dirac (by simp)), integral_dirac, integral_dirac]
  simp; ring

theorem stdEntry_rademacher : StdEntry rademacherReal id where
  prob := ⟨by
    simp only [rademacherReal, Measure.smul_apply, Measure.add_apply, measure_univ, smul_eq_mul]
    rw [one_add_one_eq_two]
    exact ENNReal.inv_mul_cancel two_ne_zero ENNReal.ofNat_ne_top⟩
  memLp := (memLp_two_iff_integrable_sq measurable_id.aestronglyMeasurable).mpr
    (integrable_rademacherReal _)
  mean := by rw [integral_rademacherReal]; simp
  second := by rw [integral_rademacherReal]; simp


/-! ## the probe block `φ(xnp.randn(n, bs))` and the estimator -/

/-- the probe block of a sample point: entry `(j, c)` is `φ(ω (j, c))` -/
def entryZ (φ : ℝ → ℝ) (n bs : Nat) (ω : Fin n × Fin bs → ℝ) : MatF ℝ :=
  fun j c => if h : j < n ∧ c < bs then φ (ω (⟨j, h.1⟩, ⟨c, h.2⟩)) else 0

/-- the product law of the `n × bs` block -/
noncomputable def blockLaw (ν : Measure ℝ) (n bs : Nat) : Measure (Fin n × Fin bs → ℝ) :=
  Measure.pi fun _ => ν

/-- second moments of column `c` of the block: the hypothesis `GaussianSecondMoments` of
`C17_unbiased_gaussian_partial`, PROVED for every `StdEntry` -/
theorem entryZ_moments {ν : Measure ℝ} {φ : ℝ → ℝ} (h : StdEntry ν φ) (n bs c : Nat) (hc : c < bs)
    (j l : Nat) (hj : j < n) (hl : l < n) :
    Integrable (fun ω => entryZ φ n bs ω j c * entryZ φ n bs ω l c) (blockLaw ν n bs) ∧
    ∫ ω, entryZ φ n bs ω j c * entryZ φ n bs ω l c ∂(blockLaw ν n bs) = if j = l then 1 else 0 := by
  have e : (fun ω => entryZ φ n bs ω j c * entryZ φ n bs ω l c)
      = fun ω : Fin n × Fin bs → ℝ => φ (ω (⟨j, hj⟩, ⟨c, hc⟩)) * φ (ω (⟨l, hl⟩, ⟨c, hc⟩)) := by
    funext ω; simp [entryZ, hj, hl, hc]
  have := pi_moments (ι := Fin n × Fin bs) h (⟨j, hj⟩, ⟨c, hc⟩) (⟨l, hl⟩, ⟨c, hc⟩)
  rw [e]
  refine ⟨this.1, ?_⟩
  unfold blockLaw
  rw [this.2]
  simp [Prod.ext_iff, Fin.ext_iff]

/-- every probe law: `E[estimator[t, c]] = np.diag(⟦A⟧, k)[t]` -/
theorem est_integral_iid {ν : Measure ℝ} {φ : ℝ → ℝ} (h : StdEntry ν φ) (n bs : Nat) (A : MatF ℝ)
    (k : Int) (hk : k.natAbs < n) (t c : Nat) (ht : t < n - k.natAbs) (hc : c < bs) :
    ∫ ω, est n A (entryZ φ n bs ω) k t c ∂(blockLaw ν n bs) = diagK A k t :=
  est_integral _ n A _ k hk t c ht (fun j l hj hl => (entryZ_moments h n bs c hc j l hj hl).1)
    (fun j l hj hl => (entryZ_moments h n bs c hc j l hj hl).2)

theorem est_integrable {Ω : Type} [MeasurableSpace Ω] (μ : Measure Ω) (n : Nat) (A : MatF ℝ)
    (Z : Ω → MatF ℝ) (k : Int) (hk : k.natAbs < n) (t c : Nat) (ht : t < n - k.natAbs)
    (hint : ∀ j l, j < n → l < n → Integrable (fun ω => Z ω j c * Z ω l c) μ) :
    Integrable (fun ω => est n A (Z ω) k t c) μ := by
  have h1 : (fun ω => est n A (Z ω) k t c)
      = fun ω => ∑ q ∈ range n, A (rowA k t) q * (Z ω q c * Z ω (rowZ k t) c) := by
    funext ω; exact est_sum_form n A (Z ω) k hk t c ht
  rw [h1]
  exact integrable_finsetSum _ fun q hq =>
    (hint q (rowZ k t) (Finset.mem_range.mp hq) (rowZ_lt n k t ht)).const_mul _

/-- … and of what one loop iteration adds to `diag_sum[t]`: `bs · diag_k[t]` -/
theorem estSum_integral_iid {ν : Measure ℝ} {φ : ℝ → ℝ} (h : StdEntry ν φ) (n bs : Nat) (A : MatF ℝ)
    (k : Int) (hk : k.natAbs < n) (t : Nat) (ht : t < n - k.natAbs) :
    ∫ ω, estSum n bs A (entryZ φ n bs ω) k t ∂(blockLaw ν n bs) = (bs : ℝ) * diagK A k t := by
  have h1 : (fun ω => estSum n bs A (entryZ φ n bs ω) k t)
      = fun ω => ∑ c ∈ range bs, est n A (entryZ φ n bs ω) k t c := by
    funext ω; simp [estSum, sumTo_eq]
  rw [h1, integral_finsetSum]
  · rw [Finset.sum_congr rfl (fun c hc =>
      est_integral_iid h n bs A k hk t c ht (Finset.mem_range.mp hc))]
    simp
  · intro c hc
    exact est_integrable _ n A _ k hk t c ht
      (fun j l hj hl => (entryZ_moments h n bs c (Finset.mem_range.mp hc) j l hj hl).1)

/-! ## the finite expectation of `Lemmas/RngProb.lean` is an integral -/

/-- `Ex (uniform Ω) f` is the integral of `f` against the normalised counting measure -/
theorem Ex_uniform_eq_integral {Ω : Type} [Fintype Ω] [Nonempty Ω] [MeasurableSpace Ω]
    [MeasurableSingletonClass Ω] (f : Ω → ℝ) :
    Ex (uniform (R := ℝ) Ω) f = ∫ ω, f ω ∂(((Fintype.card Ω : ENNReal)⁻¹) • Measure.count) := by
  rw [integral_smul_measure, integral_count]
  unfold Ex uniform
  rw [smul_eq_mul, Finset.mul_sum]
  simp [ENNReal.toReal_inv]

end ColaVerif.Hutch
