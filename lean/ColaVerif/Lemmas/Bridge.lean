import ColaVerif.Model.Kernels
import Mathlib.LinearAlgebra.Matrix.Kronecker
import Mathlib.LinearAlgebra.Matrix.Hermitian
import Mathlib.LinearAlgebra.Matrix.PosDef
import Mathlib.Analysis.Matrix.Order
import Mathlib.Data.Matrix.Block
import Mathlib.Logic.Equiv.Fin.Basic

/-!
# Bridge: Nat-indexed entry functions (`MatF`) ↔ Mathlib `Matrix (Fin n) (Fin m)`

`MatF.toMatrix n m D` is the `n × m` window of `D` as a Mathlib matrix.  The lemmas below say
that the model's primitives (`mmul`, `transposeM`, `conjM`, `eyeM`, `addM`, `kron2` / the cons
step of `kronDen`, one step of `blockDiagM`, `slicedDen`, `permDen`) are Mathlib's
`*`, `ᵀ`, `ᴴ`, `1`, `+`, `⊗ₖ` (reindexed by `finProdFinEquiv`), `fromBlocks … 0 0 …`
(reindexed by `finSumFinEquiv`), `submatrix`, and a permutation matrix.
-/

open Matrix
open scoped Kronecker

variable {R : Type}

/-- the `n × m` window of an entry function as a Mathlib matrix -/
def MatF.toMatrix (n m : Nat) (D : MatF R) : Matrix (Fin n) (Fin m) R := fun i j => D i.val j.val

namespace MatF

@[simp] theorem toMatrix_apply (n m : Nat) (D : MatF R) (i : Fin n) (j : Fin m) :
    toMatrix n m D i j = D i.val j.val := rfl

/-- the window determines the matrix -/
theorem toMatrix_congr {n m : Nat} {D D' : MatF R} (h : EqOn n m D D') :
    toMatrix n m D = toMatrix n m D' := by
  ext i j
  exact h i.val j.val i.isLt j.isLt

theorem toMatrix_eq_iff {n m : Nat} {D D' : MatF R} :
    toMatrix n m D = toMatrix n m D' ↔ EqOn n m D D' := by
  constructor
  · intro h i j hi hj
    have := congrFun (congrFun h ⟨i, hi⟩) ⟨j, hj⟩
    exact this
  · exact toMatrix_congr

theorem toMatrix_mmul [NonUnitalNonAssocSemiring R] (r k c : Nat) (A B : MatF R) :
    toMatrix r c (mmul k A B) = toMatrix r k A * toMatrix k c B := by
  ext i j
  simp only [toMatrix_apply, mmul_apply, Matrix.mul_apply]
  exact (Fin.sum_univ_eq_sum_range (fun q => A i.val q * B q j.val) k).symm

theorem toMatrix_transposeM (r c : Nat) (A : MatF R) :
    toMatrix c r (transposeM A) = (toMatrix r c A)ᵀ := rfl

theorem toMatrix_conjM [Star R] (r c : Nat) (A : MatF R) :
    toMatrix r c (conjM A) = (toMatrix r c A).map star := rfl

theorem toMatrix_adjoint [Star R] (r c : Nat) (A : MatF R) :
    toMatrix c r (conjM (transposeM A)) = (toMatrix r c A)ᴴ := rfl

theorem toMatrix_eyeM [Zero R] [One R] (n : Nat) : toMatrix n n (eyeM : MatF R) = 1 := by
  ext i j
  simp only [toMatrix_apply, eyeM, Matrix.one_apply, Fin.ext_iff]

theorem toMatrix_zeroM [Zero R] (n m : Nat) : toMatrix n m (zeroM : MatF R) = 0 := rfl

theorem toMatrix_addM [Add R] (n m : Nat) (A B : MatF R) :
    toMatrix n m (addM A B) = toMatrix n m A + toMatrix n m B := rfl

/-- `np.kron` in div/mod layout is Mathlib's Kronecker product reindexed row-major -/
theorem toMatrix_kron2 [Mul R] (r c r' c' : Nat) (A B : MatF R) :
    toMatrix (r * r') (c * c') (kron2 r' c' A B)
      = Matrix.reindex finProdFinEquiv finProdFinEquiv (toMatrix r c A ⊗ₖ toMatrix r' c' B) := by
  ext i j
  simp only [toMatrix_apply, kron2, reindex_apply, submatrix_apply, kroneckerMap_apply]
  simp [finProdFinEquiv, Fin.divNat, Fin.modNat]

/-- one step of `scipy.linalg.block_diag` is `fromBlocks · 0 0 ·` reindexed by `finSumFinEquiv` -/
theorem toMatrix_blockDiagM_cons [Zero R] (r c R' C' : Nat) (m : MatF R)
    (rest : List (Nat × Nat × MatF R)) :
    toMatrix (r + R') (c + C') (blockDiagM ((r, c, m) :: rest))
      = Matrix.reindex finSumFinEquiv finSumFinEquiv
          (fromBlocks (toMatrix r c m) 0 0 (toMatrix R' C' (blockDiagM rest))) := by
  ext i j
  simp only [reindex_apply, submatrix_apply]
  obtain ⟨i', rfl⟩ := finSumFinEquiv.surjective i
  obtain ⟨j', rfl⟩ := finSumFinEquiv.surjective j
  simp only [Equiv.symm_apply_apply]
  cases i' with
  | inl a =>
    cases j' with
    | inl b => simp [blockDiagM]
    | inr b => simp [blockDiagM]
  | inr a =>
    cases j' with
    | inl b => simp [blockDiagM]
    | inr b => simp [blockDiagM]

theorem getD_mem_of_lt' (l : List Nat) (p : Nat) (hp : p < l.length) : l.getD p 0 ∈ l := by
  rw [← List.getElem_eq_getD (h := hp) 0]
  exact List.getElem_mem hp

/-- position `i` of an index list all of whose entries are `< n`, as an element of `Fin n` -/
def idxFin (n : Nat) (l : List Nat) (h : ∀ t ∈ l, t < n) (i : Fin l.length) : Fin n :=
  ⟨l.getD i.val 0, h _ (getD_mem_of_lt' l i.val i.isLt)⟩

/-- `A[rs][:, cs]` is a `submatrix` of the window, for index lists inside the window -/
theorem toMatrix_slicedDen (n m : Nat) (A : MatF R) (rs cs : List Nat)
    (hr : ∀ t ∈ rs, t < n) (hc : ∀ t ∈ cs, t < m) :
    toMatrix rs.length cs.length (slicedDen A rs cs)
      = (toMatrix n m A).submatrix (idxFin n rs hr) (idxFin m cs hc) := rfl

end MatF
