import ColaVerif.Lemmas.RngTail
import Mathlib.Probability.Moments.SubGaussian

/-!
# C17 — Hoeffding's inequality for the Hutchinson estimator with SIGN probes (Rademacher)

`SignEntry ν φ`: a `StdEntry` whose entries are `±1` almost surely (instances: `sign(g)`, `g ~ N(0,1)`
— the code path of `rand='rademacher'` — and the two-point law `½δ₁ + ½δ₋₁`).  Then, with
`ρ² = Σ_{q ≠ s} A[r,q]²`, for a FIXED number `bs` of columns

  `P(|estimator.sum(-1)[t] − bs·diag_k[t]| ≥ ε) ≤ 2 exp(−ε² / (2·bs·ρ²))`      (`estSum_tail_hoeffding`)

i.e. every threshold `≥ √(2·bs·ρ²·x)` is exceeded with probability `≤ 2 e^{−x}`
(`estSum_tail_hoeffding_threshold`) — the stage thresholds of the sequential test for Rademacher probes.

Proof: the centred column is a.e. `z_s · Σ_{q≠s} a_q z_q` (`estSum_sub_ae_signDev`, uses `z_s² = 1`);
each `a_q z_q` is sub-Gaussian with parameter `a_q²` (Hoeffding's lemma,
`hasSubgaussianMGF_of_mem_Icc_of_integral_eq_zero`), they are independent (`iIndepFun_pi`), so the inner
sum has parameter `ρ²` (`HasSubgaussianMGF.sum_of_iIndepFun`); multiplying by the INDEPENDENT sign
`z_s` keeps the parameter (`hasSubgaussianMGF_mul_of_indep`: Fubini over the law of the pair);
functions of disjoint sets of coordinates are independent (`pi_indepFun_of_dependsOn`), so the
parameters of the columns add (`HasSubgaussianMGF.add_of_indepFun`, induction over the columns);
Chernoff bound `HasSubgaussianMGF.measure_ge_le` on both sides.
-/

open MeasureTheory ProbabilityTheory Finset Real
open scoped NNReal

namespace ColaVerif.Hutch

/-- a sub-Gaussian variable multiplied by an INDEPENDENT factor bounded by 1 stays sub-Gaussian with
the same parameter -/
theorem hasSubgaussianMGF_mul_of_indep {Ω : Type} [MeasurableSpace Ω] {μ : Measure Ω}
    [IsProbabilityMeasure μ] {U W : Ω → ℝ} {c : ℝ≥0} (hU : AEMeasurable U μ)
    (hUb : ∀ᵐ ω ∂μ, |U ω| ≤ 1) (hW : HasSubgaussianMGF W c μ) (hind : IndepFun U W μ) :
    HasSubgaussianMGF (fun ω => U ω * W ω) c μ := by
  have hWm : AEMeasurable W μ := hW.aestronglyMeasurable.aemeasurable
  have hint : ∀ t : ℝ, Integrable (fun ω => exp (t * (U ω * W ω))) μ := by
    intro t
    have hdom : Integrable (fun ω => exp (t * W ω) + exp (-t * W ω)) μ :=
      (hW.integrable_exp_mul t).add (hW.integrable_exp_mul (-t))
    refine hdom.mono' ?_ ?_
    · exact (measurable_exp.comp_aemeasurable ((hU.mul hWm).const_mul t)).aestronglyMeasurable
    · filter_upwards [hUb] with ω hω
      rw [Real.norm_eq_abs, abs_of_pos (exp_pos _)]
      have h1 : t * (U ω * W ω) ≤ |t * W ω| := by
        calc t * (U ω * W ω) = U ω * (t * W ω) := by ring
          _ ≤ |U ω * (t * W ω)| := le_abs_self _
          _ = |U ω| * |t * W ω| := abs_mul _ _
          _ ≤ 1 * |t * W ω| := by gcongr
          _ = |t * W ω| := one_mul _
      rcases abs_cases (t * W ω) with ⟨h, _⟩ | ⟨h, _⟩
      · rw [h] at h1
        exact (exp_le_exp.mpr h1).trans (le_add_of_nonneg_right (exp_pos _).le)
      · rw [h] at h1
        have : exp (t * (U ω * W ω)) ≤ exp (-t * W ω) := exp_le_exp.mpr (by linarith)
        exact this.trans (le_add_of_nonneg_left (exp_pos _).le)
  refine ⟨hint, fun t => ?_⟩
  have hmap := hind.map_prod_eq_prod_map_map hU hWm
  have hFm : Measurable (fun p : ℝ × ℝ => exp (t * (p.1 * p.2))) := by fun_prop
  have hpm : AEMeasurable (fun ω => (U ω, W ω)) μ := hU.prodMk hWm
  have e1 : mgf (fun ω => U ω * W ω) μ t
      = ∫ p, exp (t * (p.1 * p.2)) ∂((μ.map U).prod (μ.map W)) := by
    rw [← hmap, integral_map hpm hFm.aestronglyMeasurable]
    rfl
  have hFint : Integrable (fun p : ℝ × ℝ => exp (t * (p.1 * p.2))) ((μ.map U).prod (μ.map W)) := by
    rw [← hmap]
    exact (integrable_map_measure hFm.aestronglyMeasurable hpm).mpr (hint t)
  have : IsProbabilityMeasure (μ.map U) := Measure.isProbabilityMeasure_map hU
  have : IsProbabilityMeasure (μ.map W) := Measure.isProbabilityMeasure_map hWm
  rw [e1, integral_prod _ hFint]
  have hinner : ∀ x : ℝ, ∫ w, exp (t * (x * w)) ∂(μ.map W) = mgf W μ (t * x) := by
    intro x
    rw [integral_map hWm (by fun_prop : Measurable fun w : ℝ => exp (t * (x * w))).aestronglyMeasurable]
    simp only [mgf, mul_assoc]
  simp_rw [hinner]
  have hUb' : ∀ᵐ x ∂(μ.map U), |x| ≤ 1 :=
    (ae_map_iff hU (measurableSet_le (by fun_prop) (by fun_prop))).mpr hUb
  calc ∫ x, mgf W μ (t * x) ∂(μ.map U)
      ≤ ∫ _x, exp (c * t ^ 2 / 2) ∂(μ.map U) := by
        refine integral_mono_ae ?_ (integrable_const _) ?_
        · have := hFint.integral_prod_left
          simpa [hinner] using this
        · filter_upwards [hUb'] with x hx
          refine (hW.mgf_le (t * x)).trans (exp_le_exp.mpr ?_)
          have hx2 : x ^ 2 ≤ 1 := by
            rw [← sq_abs]; exact pow_le_one₀ (abs_nonneg _) hx
          have : (c : ℝ) * (t * x) ^ 2 = (c : ℝ) * t ^ 2 * x ^ 2 := by ring
          rw [this]
          have hc : 0 ≤ (c : ℝ) * t ^ 2 := by positivity
          nlinarith
    _ = exp (c * t ^ 2 / 2) := by simp


variable {ν : Measure ℝ} {φ : ℝ → ℝ}

/-- extension of a tuple indexed by a finset to the whole index type (zero outside) -/
def extOn {ι : Type} [DecidableEq ι] (S : Finset ι) (v : S → ℝ) : ι → ℝ :=
  fun i => if h : i ∈ S then v ⟨i, h⟩ else 0

theorem measurable_extOn {ι : Type} [DecidableEq ι] (S : Finset ι) : Measurable (extOn S) := by
  refine measurable_pi_lambda _ fun i => ?_
  unfold extOn
  by_cases h : i ∈ S
  · simp only [h, dite_true]; exact measurable_pi_apply _
  · simp only [h, dite_false]; exact measurable_const

/-- under the i.i.d. product law, measurable functions that depend on DISJOINT sets of coordinates
are independent -/
theorem pi_indepFun_of_dependsOn {ι : Type} [Fintype ι] [DecidableEq ι] [IsProbabilityMeasure ν]
    (hφ : AEMeasurable φ ν) (F F' : (ι → ℝ) → ℝ) (hF : Measurable F) (hF' : Measurable F')
    (S T : Finset ι) (hST : Disjoint S T)
    (hFS : ∀ x y : ι → ℝ, (∀ i ∈ S, x i = y i) → F x = F y)
    (hFT : ∀ x y : ι → ℝ, (∀ i ∈ T, x i = y i) → F' x = F' y) :
    IndepFun (fun ω : ι → ℝ => F (fun i => φ (ω i))) (fun ω : ι → ℝ => F' (fun i => φ (ω i)))
      (Measure.pi fun _ => ν) := by
  have hind := iIndepFun_pi (μ := fun _ : ι => ν) (X := fun _ => φ) (fun _ => hφ)
  have hmeas : ∀ i : ι, AEMeasurable (fun ω : ι → ℝ => φ (ω i)) (Measure.pi fun _ => ν) := fun i =>
    hφ.comp_quasiMeasurePreserving (Measure.quasiMeasurePreserving_eval _ i)
  have h1 := hind.indepFun_finset₀ S T hST hmeas
  have h2 := h1.comp (φ := fun v : S → ℝ => F (extOn S v)) (ψ := fun v : T → ℝ => F' (extOn T v))
    (hF.comp (measurable_extOn S)) (hF'.comp (measurable_extOn T))
  have e1 : (fun ω : ι → ℝ => F (fun i => φ (ω i)))
      = (fun v : S → ℝ => F (extOn S v)) ∘ (fun (a : ι → ℝ) (i : S) => φ (a i)) := by
    funext ω
    exact hFS _ _ fun i hi => by simp [extOn, hi]
  have e2 : (fun ω : ι → ℝ => F' (fun i => φ (ω i)))
      = (fun v : T → ℝ => F' (extOn T v)) ∘ (fun (a : ι → ℝ) (i : T) => φ (a i)) := by
    funext ω
    exact hFT _ _ fun i hi => by simp [extOn, hi]
  rw [e1, e2]
  exact h2

theorem nnreal_param_one : ((‖(1 : ℝ) - (-1)‖₊ / 2) ^ 2 : ℝ≥0) = 1 := by
  ext
  push_cast
  norm_num

/-- law of a SIGN entry: a `StdEntry` whose values are `±1` almost surely -/
structure SignEntry (ν : Measure ℝ) (φ : ℝ → ℝ) : Prop extends StdEntry ν φ where
  sq_one : ∀ᵐ x ∂ν, φ x * φ x = 1

/-- one coordinate of the block is sub-Gaussian with parameter 1 (Hoeffding's lemma) -/
theorem SignEntry.coord_subgaussian {ι : Type} [Fintype ι] [DecidableEq ι] (h : SignEntry ν φ) (i : ι) :
    HasSubgaussianMGF (fun ω : ι → ℝ => φ (ω i)) 1 (Measure.pi fun _ => ν) := by
  have := h.prob
  have hφ : AEMeasurable φ ν := h.memLp.aestronglyMeasurable.aemeasurable
  have hq := Measure.quasiMeasurePreserving_eval (fun _ : ι => ν) i
  have hm : AEMeasurable (fun ω : ι → ℝ => φ (ω i)) (Measure.pi fun _ => ν) :=
    hφ.comp_quasiMeasurePreserving hq
  have hb : ∀ᵐ ω ∂(Measure.pi fun _ : ι => ν), φ (ω i) ∈ Set.Icc (-1 : ℝ) 1 := by
    have h1 : ∀ᵐ x ∂ν, φ x ∈ Set.Icc (-1 : ℝ) 1 := by
      filter_upwards [h.sq_one] with x hx
      have : |φ x| ≤ 1 := by
        have h2 : φ x ^ 2 = 1 := by rw [sq]; exact hx
        have := abs_le_of_sq_le_sq (a := φ x) (b := 1) (by rw [h2]; norm_num) (by norm_num)
        exact this
      exact ⟨(abs_le.mp this).1, (abs_le.mp this).2⟩
    exact hq.ae h1
  have hc : ∫ ω, φ (ω i) ∂(Measure.pi fun _ : ι => ν) = 0 := by
    rw [integral_comp_eval (μ := fun _ : ι => ν) (i := i) (f := φ) h.memLp.aestronglyMeasurable]
    exact h.mean
  have := hasSubgaussianMGF_of_mem_Icc_of_integral_eq_zero hm hb hc
  rwa [nnreal_param_one] at this


/-- the centred estimator of column `c` as a function of the (already transformed) block `x`,
valid when the entries are signs: `x[s,c] · Σ_{q ≠ s} a_q x[q,c]` -/
def signDev {n bs : ℕ} (a : Fin n → ℝ) (s : Fin n) (c : Fin bs) (x : Fin n × Fin bs → ℝ) : ℝ :=
  x (s, c) * ∑ q ∈ Finset.univ.erase s, a q * x (q, c)

theorem measurable_signDev {n bs : ℕ} (a : Fin n → ℝ) (s : Fin n) (c : Fin bs) :
    Measurable (signDev (bs := bs) a s c) := by
  unfold signDev
  fun_prop

theorem signDev_dependsOn {n bs : ℕ} (a : Fin n → ℝ) (s : Fin n) (c : Fin bs)
    (x y : Fin n × Fin bs → ℝ) (hxy : ∀ i ∈ Finset.univ.filter (fun i : Fin n × Fin bs => i.2 = c), x i = y i) :
    signDev a s c x = signDev a s c y := by
  unfold signDev
  rw [hxy (s, c) (by simp)]
  congr 1
  exact Finset.sum_congr rfl fun q _ => by rw [hxy (q, c) (by simp)]

/-- the NNReal sub-Gaussian parameter of one column, `Σ_{q ≠ s} a_q²` -/
noncomputable def signParam {n : ℕ} (a : Fin n → ℝ) (s : Fin n) : ℝ≥0 :=
  ∑ q ∈ Finset.univ.erase s, (NNReal.mk (a q ^ 2) (sq_nonneg _) * 1 : ℝ≥0)

/-- one column: sub-Gaussian with parameter `Σ_{q ≠ s} a_q²` -/
theorem signDev_subgaussian {n bs : ℕ} (h : SignEntry ν φ) (a : Fin n → ℝ) (s : Fin n) (c : Fin bs) :
    HasSubgaussianMGF (fun ω : Fin n × Fin bs → ℝ => signDev a s c (fun i => φ (ω i)))
      (signParam a s) (Measure.pi fun _ => ν) := by
  have := h.prob
  have hφ : AEMeasurable φ ν := h.memLp.aestronglyMeasurable.aemeasurable
  have hind := iIndepFun_pi (μ := fun _ : Fin n × Fin bs => ν) (X := fun _ => φ) (fun _ => hφ)
  -- the inner sum
  have hcol : iIndepFun (fun (q : Fin n) (ω : Fin n × Fin bs → ℝ) => a q * φ (ω (q, c)))
      (Measure.pi fun _ => ν) := by
    have h1 := hind.precomp (g := fun q : Fin n => (q, c)) (fun q q' hq => (Prod.mk.inj hq).1)
    exact h1.comp (fun q x => a q * x) (fun q => measurable_const_mul _)
  have hW : HasSubgaussianMGF
      (fun ω : Fin n × Fin bs → ℝ => ∑ q ∈ Finset.univ.erase s, a q * φ (ω (q, c)))
      (signParam a s) (Measure.pi fun _ => ν) :=
    HasSubgaussianMGF.sum_of_iIndepFun hcol
      (fun q _ => (h.coord_subgaussian (q, c)).const_mul (a q))
  -- the sign in front is independent of the inner sum
  have hUW : IndepFun (fun ω : Fin n × Fin bs → ℝ => φ (ω (s, c)))
      (fun ω : Fin n × Fin bs → ℝ => ∑ q ∈ Finset.univ.erase s, a q * φ (ω (q, c)))
      (Measure.pi fun _ => ν) := by
    refine pi_indepFun_of_dependsOn hφ (fun x => x (s, c))
      (fun x => ∑ q ∈ Finset.univ.erase s, a q * x (q, c)) (by fun_prop) (by fun_prop)
      {(s, c)} (Finset.univ.filter fun i : Fin n × Fin bs => i.2 = c ∧ i.1 ≠ s) ?_ ?_ ?_
    · rw [Finset.disjoint_left]
      intro i hi hi'
      simp only [Finset.mem_singleton] at hi
      subst hi
      simp at hi'
    · intro x y hxy
      exact hxy _ (by simp)
    · intro x y hxy
      refine Finset.sum_congr rfl fun q hq => ?_
      rw [hxy (q, c) (by simpa using Finset.ne_of_mem_erase hq)]
  have hUb : ∀ᵐ ω ∂(Measure.pi fun _ : Fin n × Fin bs => ν), |φ (ω (s, c))| ≤ 1 := by
    have h1 : ∀ᵐ x ∂ν, |φ x| ≤ 1 := by
      filter_upwards [h.sq_one] with x hx
      have h2 : φ x ^ 2 = 1 := by rw [sq]; exact hx
      exact abs_le_of_sq_le_sq (a := φ x) (b := 1) (by rw [h2]; norm_num) (by norm_num)
    exact (Measure.quasiMeasurePreserving_eval (fun _ : Fin n × Fin bs => ν) (s, c)).ae h1
  exact hasSubgaussianMGF_mul_of_indep
    (hφ.comp_quasiMeasurePreserving (Measure.quasiMeasurePreserving_eval _ (s, c))) hUb hW hUW

/-- the sum over any set of columns: sub-Gaussian, parameters add (columns are independent) -/
theorem signDev_sum_subgaussian {n bs : ℕ} (h : SignEntry ν φ) (a : Fin n → ℝ) (s : Fin n)
    (C : Finset (Fin bs)) :
    HasSubgaussianMGF
      (fun ω : Fin n × Fin bs → ℝ => ∑ c ∈ C, signDev a s c (fun i => φ (ω i)))
      (∑ _c ∈ C, signParam a s) (Measure.pi fun _ => ν) := by
  have := h.prob
  have hφ : AEMeasurable φ ν := h.memLp.aestronglyMeasurable.aemeasurable
  induction C using Finset.induction_on with
  | empty => simp
  | insert c0 C hc0 ih =>
    simp_rw [Finset.sum_insert hc0]
    refine HasSubgaussianMGF.add_of_indepFun (signDev_subgaussian h a s c0) ih ?_
    refine pi_indepFun_of_dependsOn hφ (signDev a s c0) (fun x => ∑ c ∈ C, signDev a s c x)
      (measurable_signDev a s c0) (Finset.measurable_sum _ fun c _ => measurable_signDev a s c)
      (Finset.univ.filter fun i : Fin n × Fin bs => i.2 = c0)
      (Finset.univ.filter fun i : Fin n × Fin bs => i.2 ∈ C) ?_ (signDev_dependsOn a s c0) ?_
    · rw [Finset.disjoint_left]
      intro i hi hi'
      simp only [Finset.mem_filter, Finset.mem_univ, true_and] at hi hi'
      exact hc0 (hi ▸ hi')
    · intro x y hxy
      refine Finset.sum_congr rfl fun c hc => signDev_dependsOn a s c x y fun i hi => ?_
      simp only [Finset.mem_filter, Finset.mem_univ, true_and] at hi
      exact hxy i (by simp [hi, hc])


theorem signParam_coe {n : ℕ} (f : ℕ → ℝ) (s : ℕ) (hs : s < n) :
    ((signParam (fun q : Fin n => f q) ⟨s, hs⟩ : ℝ≥0) : ℝ) = ∑ q ∈ (range n).erase s, f q ^ 2 := by
  unfold signParam
  rw [NNReal.coe_sum]
  have h0 : ∀ q ∈ (Finset.univ : Finset (Fin n)).erase ⟨s, hs⟩,
      (((NNReal.mk (f q ^ 2) (sq_nonneg _) * 1 : ℝ≥0)) : ℝ) = f q ^ 2 := fun q _ => by simp
  rw [Finset.sum_congr rfl h0]
  have h1 : ∑ q ∈ (Finset.univ : Finset (Fin n)).erase ⟨s, hs⟩, f q ^ 2
      = (∑ q : Fin n, f q ^ 2) - f s ^ 2 := by
    rw [Finset.sum_erase_eq_sub (Finset.mem_univ _)]
  have h2 : ∑ q ∈ (range n).erase s, f q ^ 2 = (∑ q ∈ range n, f q ^ 2) - f s ^ 2 := by
    rw [Finset.sum_erase_eq_sub (Finset.mem_range.mpr hs)]
  have h3 : (∑ q : Fin n, f q ^ 2) = ∑ q ∈ range n, f q ^ 2 :=
    Fin.sum_univ_eq_sum_range (fun q => f q ^ 2) n
  rw [h1, h2, h3]

/-- for sign entries the centred block sum IS (a.e.) the sum of the `signDev`s of the columns -/
theorem estSum_sub_ae_signDev (h : SignEntry ν φ) (n bs : Nat) (A : MatF ℝ) (k : Int)
    (hk : k.natAbs < n) (t : Nat) (ht : t < n - k.natAbs) :
    (fun ω => estSum n bs A (entryZ φ n bs ω) k t - (bs : ℝ) * diagK A k t)
      =ᵐ[blockLaw ν n bs] fun ω => ∑ c : Fin bs,
        signDev (fun q : Fin n => A (rowA k t) q) ⟨rowZ k t, rowZ_lt n k t ht⟩ c (fun i => φ (ω i)) := by
  have := h.prob
  set s' : Fin n := ⟨rowZ k t, rowZ_lt n k t ht⟩ with hs'
  have hae : ∀ᵐ ω ∂(blockLaw ν n bs), ∀ c : Fin bs, φ (ω (s', c)) * φ (ω (s', c)) = 1 := by
    rw [ae_all_iff]
    intro c
    exact (Measure.quasiMeasurePreserving_eval (fun _ : Fin n × Fin bs => ν) (s', c)).ae h.sq_one
  filter_upwards [hae] with ω hω
  have hsum : estSum n bs A (entryZ φ n bs ω) k t - (bs : ℝ) * diagK A k t
      = ∑ c : Fin bs, (est n A (entryZ φ n bs ω) k t c - diagK A k t) := by
    rw [Fin.sum_univ_eq_sum_range (fun c => est n A (entryZ φ n bs ω) k t c - diagK A k t) bs]
    simp [estSum, sumTo_eq, Finset.sum_sub_distrib]
  rw [hsum]
  refine Finset.sum_congr rfl fun c _ => ?_
  rw [est_sum_form n A _ k hk t c ht,
    ← Fin.sum_univ_eq_sum_range
      (fun q => A (rowA k t) q * (entryZ φ n bs ω q c * entryZ φ n bs ω (rowZ k t) c)) n]
  have hent : ∀ q : Fin n, entryZ φ n bs ω q c = φ (ω (q, c)) := fun q => by
    simp [entryZ, q.2, c.2]
  have hents : entryZ φ n bs ω (rowZ k t) c = φ (ω (s', c)) := hent s'
  simp_rw [hent, hents]
  rw [← Finset.add_sum_erase _ _ (Finset.mem_univ s'), diagK_eq]
  unfold signDev
  have h1 := hω c
  have e : A (rowA k t) (s' : ℕ) = A (rowA k t) (rowZ k t) := rfl
  rw [e, Finset.mul_sum]
  have : ∀ q ∈ Finset.univ.erase s', A (rowA k t) ↑q * (φ (ω (q, c)) * φ (ω (s', c)))
      = φ (ω (s', c)) * (A (rowA k t) ↑q * φ (ω (q, c))) := fun q _ => by ring
  rw [Finset.sum_congr rfl this, h1]
  ring

/-- **sub-Gaussian block sum** for sign probes: parameter `bs · Σ_{q ≠ s} A[r,q]²` -/
theorem estSum_subgaussian (h : SignEntry ν φ) (n bs : Nat) (A : MatF ℝ) (k : Int)
    (hk : k.natAbs < n) (t : Nat) (ht : t < n - k.natAbs) :
    ∃ P : ℝ≥0, (P : ℝ) = (bs : ℝ) * ∑ q ∈ (range n).erase (rowZ k t), A (rowA k t) q ^ 2 ∧
      HasSubgaussianMGF
        (fun ω => estSum n bs A (entryZ φ n bs ω) k t - (bs : ℝ) * diagK A k t) P
        (blockLaw ν n bs) := by
  refine ⟨∑ _c : Fin bs, signParam (fun q : Fin n => A (rowA k t) q) ⟨rowZ k t, rowZ_lt n k t ht⟩,
    ?_, ?_⟩
  · rw [Finset.sum_const, Finset.card_univ, Fintype.card_fin, nsmul_eq_mul]
    push_cast
    rw [signParam_coe (fun q => A (rowA k t) q) (rowZ k t) (rowZ_lt n k t ht)]
  · have := signDev_sum_subgaussian (bs := bs) h (fun q : Fin n => A (rowA k t) q)
      ⟨rowZ k t, rowZ_lt n k t ht⟩ Finset.univ
    exact this.congr (estSum_sub_ae_signDev h n bs A k hk t ht).symm

/-- **Hoeffding bound, block sum, sign probes**: for `ε ≥ 0`
`P(|Σ_c X_c − bs·d| ≥ ε) ≤ 2 exp(−ε² / (2 · bs · ρ²))`, `ρ² = Σ_{q ≠ s} A[r,q]²` -/
theorem estSum_tail_hoeffding (h : SignEntry ν φ) (n bs : Nat) (A : MatF ℝ) (k : Int)
    (hk : k.natAbs < n) (t : Nat) (ht : t < n - k.natAbs) (ε : ℝ) (hε : 0 ≤ ε) :
    (blockLaw ν n bs).real
        {ω | ε ≤ |estSum n bs A (entryZ φ n bs ω) k t - (bs : ℝ) * diagK A k t|}
      ≤ 2 * exp (-ε ^ 2 /
          (2 * ((bs : ℝ) * ∑ q ∈ (range n).erase (rowZ k t), A (rowA k t) q ^ 2))) := by
  obtain ⟨P, hP, hsub⟩ := estSum_subgaussian h n bs A k hk t ht
  have h1 := hsub.measure_ge_le hε
  have h2 := hsub.neg.measure_ge_le hε
  rw [hP] at h1 h2
  set X := fun ω => estSum n bs A (entryZ φ n bs ω) k t - (bs : ℝ) * diagK A k t with hX
  have hsub : {ω | ε ≤ |X ω|} ⊆ {ω | ε ≤ X ω} ∪ {ω | ε ≤ (-X) ω} := by
    intro ω hω
    change ε ≤ |X ω| at hω
    rcases le_abs'.mp hω with h' | h'
    · right; change ε ≤ -(X ω); linarith
    · left; exact h'
  have := h.prob
  have : IsProbabilityMeasure (blockLaw ν n bs) := by unfold blockLaw; infer_instance
  calc (blockLaw ν n bs).real {ω | ε ≤ |X ω|}
      ≤ (blockLaw ν n bs).real ({ω | ε ≤ X ω} ∪ {ω | ε ≤ (-X) ω}) :=
        measureReal_mono hsub
    _ ≤ (blockLaw ν n bs).real {ω | ε ≤ X ω} + (blockLaw ν n bs).real {ω | ε ≤ (-X) ω} :=
        measureReal_union_le _ _
    _ ≤ _ := by linarith

/-- the same in the form the sequential test uses: every threshold `thr ≥ √(2·bs·ρ²·x)` is exceeded
with probability `≤ 2 exp(−x)` (`bs·ρ² > 0`; for `ρ² = 0` the estimator is exact) -/
theorem estSum_tail_hoeffding_threshold (h : SignEntry ν φ) (n bs : Nat) (A : MatF ℝ) (k : Int)
    (hk : k.natAbs < n) (t : Nat) (ht : t < n - k.natAbs) (x : ℝ) (hx : 0 ≤ x)
    (hpos : 0 < (bs : ℝ) * ∑ q ∈ (range n).erase (rowZ k t), A (rowA k t) q ^ 2) (thr : ℝ)
    (hthr : √(2 * ((bs : ℝ) * ∑ q ∈ (range n).erase (rowZ k t), A (rowA k t) q ^ 2) * x) ≤ thr) :
    (blockLaw ν n bs).real
        {ω | thr ≤ |estSum n bs A (entryZ φ n bs ω) k t - (bs : ℝ) * diagK A k t|}
      ≤ 2 * exp (-x) := by
  set R := (bs : ℝ) * ∑ q ∈ (range n).erase (rowZ k t), A (rowA k t) q ^ 2 with hR
  have h0 : 0 ≤ thr := (Real.sqrt_nonneg _).trans hthr
  refine (estSum_tail_hoeffding h n bs A k hk t ht thr h0).trans ?_
  have hsq : 2 * R * x ≤ thr ^ 2 := by
    have := Real.sq_sqrt (show 0 ≤ 2 * R * x by positivity)
    calc 2 * R * x = √(2 * R * x) ^ 2 := this.symm
      _ ≤ thr ^ 2 := pow_le_pow_left₀ (Real.sqrt_nonneg _) hthr 2
  have hdiv : x ≤ thr ^ 2 / (2 * R) := by
    rw [le_div_iff₀ (by positivity)]; linarith
  have : -thr ^ 2 / (2 * R) ≤ -x := by
    rw [neg_div]; linarith
  gcongr

/-- `rand='rademacher'` as coded: `sign(g)`, `g ~ N(0,1)`, is a sign entry -/
theorem signEntry_signGaussian : SignEntry (gaussianReal 0 1) Real.sign where
  toStdEntry := stdEntry_signGaussian
  sq_one := by
    have := nullSingletonClass_gaussianReal (μ := 0) (v := 1) one_ne_zero
    exact sign_mul_self_ae _ (measure_singleton 0)

/-- the uniform law on `{1, -1}` is a sign entry -/
theorem signEntry_rademacher : SignEntry rademacherReal id where
  toStdEntry := stdEntry_rademacher
  sq_one := by
    rw [ae_iff]
    have hS : MeasurableSet {x : ℝ | ¬ (id x * id x = 1)} :=
      (measurableSet_eq_fun (by fun_prop) (by fun_prop)).compl
    simp [rademacherReal]

end ColaVerif.Hutch
