import ColaVerif.Lemmas.SvdModel
import ColaVerif.Lemmas.SvdMoorePenrose

/-!
# C16 (round 2): what `svd` / `pinv` do AROUND their numerical parameters

* Ritz version of the back-substitution (`backsubU_orthonormal_ritz`, `krylov_tall_ritz_spec`,
  `krylov_wide_ritz_spec`): for a PARTIAL Lanczos run the selected columns are only Ritz vectors
  (`Vᴴ (Aᴴ A) V = diag λ`), which already gives orthonormal columns of the back-substituted factor
  and the residual identity;
* `argsort_congr`, `svdDense_sorted`: the singular values DenseSVD returns ascend;
* the Moore–Penrose inverse from the triple DenseSVD returns, from the reciprocal rules, from the
  CG rule (full column / full row rank) and from the LSTSQ rule (`lstsqApply_spec`).
-/

open Matrix

namespace Svd

set_option linter.unusedSectionVars false
set_option linter.unusedVariables false

variable {𝕜 : Type} [RCLike 𝕜]

/-! ## Ritz pairs are enough for orthonormality -/

section ritz
variable {m n k : Type} [Fintype m] [Fintype n] [Fintype k] [DecidableEq m] [DecidableEq n]
  [DecidableEq k]

theorem backsubU_orthonormal_ritz (A : Matrix m n 𝕜) (V : Matrix n k 𝕜) (σ : k → ℝ)
    (hR : Vᴴ * (Aᴴ * A) * V = rdiag (fun i => σ i ^ 2)) (hσ : ∀ i, σ i ≠ 0) :
    (backU A V σ)ᴴ * backU A V σ = 1 := by
  unfold backU
  rw [conjTranspose_mul, conjTranspose_mul, rdiag_conjTranspose]
  set Di : Matrix k k 𝕜 := rdiag (fun i => (σ i)⁻¹) with hDi
  have e1 : Di * (Vᴴ * Aᴴ) * (A * V * Di) = Di * (Vᴴ * (Aᴴ * A) * V) * Di := by
    simp only [Matrix.mul_assoc]
  rw [e1, hR, hDi, rdiag_mul_rdiag, rdiag_mul_rdiag]
  have : (fun i => (σ i)⁻¹ * σ i ^ 2 * (σ i)⁻¹) = fun _ => (1 : ℝ) := by
    funext i
    have := hσ i
    field_simp
  rw [this, rdiag_one]

theorem backsubV_orthonormal_ritz (A : Matrix m n 𝕜) (U : Matrix m k 𝕜) (σ : k → ℝ)
    (hR : Uᴴ * (A * Aᴴ) * U = rdiag (fun i => σ i ^ 2)) (hσ : ∀ i, σ i ≠ 0) :
    (backV A U σ)ᴴ * backV A U σ = 1 := by
  rw [backV_eq]
  apply backsubU_orthonormal_ritz Aᴴ U σ _ hσ
  rw [conjTranspose_conjTranspose]
  exact hR

end ritz

theorem krylov_tall_ritz_spec (m n k : Nat) (A Vs : MatF 𝕜) (lam sigma : Nat → ℝ) (sinv : Nat → 𝕜)
    (ritz_contract :
      (MatF.toMatrix n k Vs)ᴴ * ((MatF.toMatrix m n A)ᴴ * MatF.toMatrix m n A) * MatF.toMatrix n k Vs =
        diagonal (fun i : Fin k => ((lam i.val : ℝ) : 𝕜)) ∧
      ∀ i, i < k → 0 < lam i)
    (sqrt_contract : ∀ i, i < k → sigma i = Real.sqrt (lam i))
    (inv_contract : ∀ i, i < k → sinv i = (((sigma i)⁻¹ : ℝ) : 𝕜)) :
    let Am := MatF.toMatrix m n A
    let V := MatF.toMatrix n k Vs
    let U := MatF.toMatrix m k (backsubU n k A Vs sinv)
    let Sg : Matrix (Fin k) (Fin k) 𝕜 := diagonal (fun i : Fin k => ((sigma i.val : ℝ) : 𝕜))
    (∀ i, i < k → 0 < sigma i) ∧ Uᴴ * U = 1 ∧
    U * Sg * Vᴴ = Am * (V * Vᴴ) ∧
    (Vᴴ * V = 1 → (Am - U * Sg * Vᴴ) * V = 0) := by
  intro Am V U Sg
  obtain ⟨hR, hpos⟩ := ritz_contract
  have hsp := sigma_pos k lam sigma hpos sqrt_contract
  have hne : ∀ i : Fin k, sigma i.val ≠ 0 := fun i => ne_of_gt (hsp i.val i.isLt)
  have hU : U = backU Am V (fun i : Fin k => sigma i.val) := by
    show MatF.toMatrix m k (backsubU n k A Vs sinv) = _
    rw [toMatrix_backsubU, diagonal_sinv k sigma sinv inv_contract]
    rfl
  have hSg : Sg = rdiag (fun i : Fin k => sigma i.val) := rfl
  have hR' : Vᴴ * (Amᴴ * Am) * V = rdiag (fun i : Fin k => sigma i.val ^ 2) := by
    rw [← diagonal_lam k lam sigma hpos sqrt_contract]
    exact hR
  refine ⟨hsp, ?_, ?_, ?_⟩
  · rw [hU]; exact backsubU_orthonormal_ritz Am V _ hR' hne
  · rw [hU, hSg]; exact backsubU_reconstruct Am V _ hne
  · intro hV
    rw [hU, hSg]; exact backsubU_residual_right Am V _ hV hne

theorem krylov_wide_ritz_spec (m n k : Nat) (A Us : MatF 𝕜) (lam sigma : Nat → ℝ) (sinv : Nat → 𝕜)
    (ritz_contract :
      (MatF.toMatrix m k Us)ᴴ * (MatF.toMatrix m n A * (MatF.toMatrix m n A)ᴴ) * MatF.toMatrix m k Us =
        diagonal (fun i : Fin k => ((lam i.val : ℝ) : 𝕜)) ∧
      ∀ i, i < k → 0 < lam i)
    (sqrt_contract : ∀ i, i < k → sigma i = Real.sqrt (lam i))
    (inv_contract : ∀ i, i < k → sinv i = (((sigma i)⁻¹ : ℝ) : 𝕜)) :
    let Am := MatF.toMatrix m n A
    let U := MatF.toMatrix m k Us
    let V := MatF.toMatrix n k (backsubV m k A Us sinv)
    let Sg : Matrix (Fin k) (Fin k) 𝕜 := diagonal (fun i : Fin k => ((sigma i.val : ℝ) : 𝕜))
    (∀ i, i < k → 0 < sigma i) ∧ Vᴴ * V = 1 ∧
    U * Sg * Vᴴ = (U * Uᴴ) * Am ∧
    (Uᴴ * U = 1 → Uᴴ * (Am - U * Sg * Vᴴ) = 0) := by
  intro Am U V Sg
  obtain ⟨hR, hpos⟩ := ritz_contract
  have hsp := sigma_pos k lam sigma hpos sqrt_contract
  have hne : ∀ i : Fin k, sigma i.val ≠ 0 := fun i => ne_of_gt (hsp i.val i.isLt)
  have hV : V = backV Am U (fun i : Fin k => sigma i.val) := by
    show MatF.toMatrix n k (backsubV m k A Us sinv) = _
    rw [toMatrix_backsubV, diagonal_sinv k sigma sinv inv_contract]
    rfl
  have hSg : Sg = rdiag (fun i : Fin k => sigma i.val) := rfl
  have hR' : Uᴴ * (Am * Amᴴ) * U = rdiag (fun i : Fin k => sigma i.val ^ 2) := by
    rw [← diagonal_lam k lam sigma hpos sqrt_contract]
    exact hR
  refine ⟨hsp, ?_, ?_, ?_⟩
  · rw [hV]; exact backsubV_orthonormal_ritz Am U _ hR' hne
  · rw [hV, hSg]; exact backsubV_reconstruct Am U _ hne
  · intro hU
    rw [hV, hSg]; exact backsubV_residual_left Am U _ hU hne

/-! ## `argsort` only looks at the comparisons -/

section sort
variable {α β : Type}

theorem insertIdx_congr (lt : α → α → Bool) (lt' : β → β → Bool) (key : Nat → α) (key' : Nat → β)
    (n j : Nat) (hj : j < n)
    (h : ∀ a b, a < n → b < n → lt (key a) (key b) = lt' (key' a) (key' b)) :
    ∀ l : List Nat, (∀ t ∈ l, t < n) → insertIdx lt key j l = insertIdx lt' key' j l
  | [], _ => rfl
  | t :: ts, hl => by
    have ht : t < n := hl t List.mem_cons_self
    unfold insertIdx
    rw [h j t hj ht, insertIdx_congr lt lt' key key' n j hj h ts
      (fun u hu => hl u (List.mem_cons_of_mem _ hu))]

theorem argsort_congr (lt : α → α → Bool) (lt' : β → β → Bool) (key : Nat → α) (key' : Nat → β)
    (n : Nat) (h : ∀ a b, a < n → b < n → lt (key a) (key b) = lt' (key' a) (key' b)) :
    ∀ r, r ≤ n → argsort lt r key = argsort lt' r key'
  | 0, _ => rfl
  | r + 1, hr => by
    rw [argsort_succ, argsort_succ, argsort_congr lt lt' key key' n h r (Nat.le_of_succ_le hr)]
    exact insertIdx_congr lt lt' key key' n r hr h _
      (fun t ht => Nat.lt_of_lt_of_le (argsort_lt lt' key' r t ht) (Nat.le_of_succ_le hr))

end sort

/-- along `argsort` of real keys (with the order `<` of ℝ) the keys ascend, position by position -/
theorem argsort_ascends (s : Nat → ℝ) (r : Nat) (i j : Nat) (hij : i ≤ j)
    (hj : j < (argsort ltOf r s).length) :
    s ((argsort ltOf r s).getD i 0) ≤ s ((argsort ltOf r s).getD j 0) := by
  have hp := argsort_values_ascend s r
  rcases Nat.eq_or_lt_of_le hij with rfl | hlt
  · exact le_refl _
  have hi : i < (argsort ltOf r s).length := Nat.lt_trans hlt hj
  have hi' : i < ((argsort ltOf r s).map s).length := by rw [List.length_map]; exact hi
  have hj' : j < ((argsort ltOf r s).map s).length := by rw [List.length_map]; exact hj
  have := List.pairwise_iff_getElem.mp hp i j hi' hj' hlt
  rw [List.getElem_map, List.getElem_map] at this
  rw [← List.getElem_eq_getD (h := hi) 0, ← List.getElem_eq_getD (h := hj) 0]
  exact this

section dense
variable [DecidableEq 𝕜]

/-- **DenseSVD returns the singular values in ascending order** (`idx = argsort(Sigma)`).
`lt_contract`: the comparison the sort uses is `<` of the reals. -/
theorem svdDense_sorted (P : Params 𝕜) (A : Op 𝕜) (s : Nat → ℝ)
    (hs : ∀ i, i < min A.rows A.cols → (P.lapackSvd A.rows A.cols A.td.f).s i = ((s i : ℝ) : 𝕜))
    (lt_contract : ∀ a b : ℝ, P.lt ((a : ℝ) : 𝕜) ((b : ℝ) : 𝕜) = decide (a < b)) :
    let idx := (svdDense P A).1
    ∀ i j, i ≤ j → j < idx.length → s (idx.getD i 0) ≤ s (idx.getD j 0) := by
  intro idx i j hij hj
  have hidx : idx = argsort ltOf (min A.rows A.cols) s := by
    show argsort P.lt (min A.rows A.cols) (P.lapackSvd A.rows A.cols A.td.f).s = _
    apply argsort_congr P.lt ltOf _ s (min A.rows A.cols) _ _ (le_refl _)
    intro a b ha hb
    rw [hs a ha, hs b hb, lt_contract]
    rfl
  rw [hidx] at hj ⊢
  exact argsort_ascends s _ i j hij hj

end dense

/-! ## pinv: full rank, CG, LSTSQ -/

section mp
variable {m n : Type} [Fintype m] [Fintype n] [DecidableEq m] [DecidableEq n]

/-- **CG rule, full column rank.**  If the solver's output solves the normal equations
(`Aᴴ A x₀ = Aᴴ b`, the contract of a converged solve) and `Aᴴ A` is invertible with inverse `G`, then
`x₀ = (Aᴴ A)⁻¹ Aᴴ b`, and `(Aᴴ A)⁻¹ Aᴴ` is the Moore–Penrose inverse of `A`. -/
theorem cg_full_column_rank (A : Matrix m n 𝕜) (G : Matrix n n 𝕜) (hG : (Aᴴ * A) * G = 1)
    (b : EuclideanSpace 𝕜 m) (x0 : EuclideanSpace 𝕜 n) (hsolve : lin (Aᴴ * A) x0 = lin Aᴴ b) :
    x0 = lin (G * Aᴴ) b ∧ IsMoorePenrose A (G * Aᴴ) := by
  have hG' : G * (Aᴴ * A) = 1 := mul_eq_one_comm.mp hG
  refine ⟨?_, IsMoorePenrose.of_full_column_rank A G hG⟩
  calc x0 = lin (G * (Aᴴ * A)) x0 := by rw [hG', lin_one]
    _ = lin G (lin (Aᴴ * A) x0) := lin_mul _ _ _
    _ = lin (G * Aᴴ) b := by rw [hsolve, ← lin_mul]

/-- **CG rule, full row rank** (`Aᴴ A` is singular when `A` is wide): if the solver's output solves
the normal equations and lies in the Krylov space of `(Aᴴ A, Aᴴ b)` (CG started at `0`) and `A Aᴴ` is
invertible with inverse `G`, then `x₀ = Aᴴ (A Aᴴ)⁻¹ b`, the Moore–Penrose inverse applied to `b`. -/
theorem cg_full_row_rank (A : Matrix m n 𝕜) (G : Matrix m m 𝕜) (hG : (A * Aᴴ) * G = 1)
    (b : EuclideanSpace 𝕜 m) (x0 : EuclideanSpace 𝕜 n) (d : Nat) (c : Nat → 𝕜)
    (hsolve : lin (Aᴴ * A) x0 = lin Aᴴ b)
    (hkrylov : x0 = ∑ j ∈ Finset.range d, c j • lin ((Aᴴ * A) ^ j) (lin Aᴴ b)) :
    x0 = lin (Aᴴ * G) b ∧ IsMoorePenrose A (Aᴴ * G) := by
  have hmp := IsMoorePenrose.of_full_row_rank A G hG
  exact ⟨hmp.eq_apply_of_minNormLsq b x0 (pinv_cg A b x0 0 d c hsolve hkrylov).1, hmp⟩

end mp

section lstsq
variable [DecidableEq 𝕜]

/-- **the LSTSQ rule.**  `lstsq_contract` (CONTRACT of `np.linalg.lstsq(M, B, rcond=None)`): every
column of the result is the minimum-norm least-squares solution for the matrix it is given.  Then
every column of `LSTSQSolve(A) @ B` is the minimum-norm least-squares solution for the matrix `A`
REPRESENTS (`to_dense` = `den` under C01's hypotheses), and equals `X b` for the Moore–Penrose
inverse `X` of that matrix. -/
theorem lstsqApply_spec (lstsq : Nat → Nat → MatF 𝕜 → Nat → MatF 𝕜 → MatF 𝕜) (A : Op 𝕜)
    (A_good : A.wf = true ∧ A.dupSlice = false ∧ A.HermOK) (nb : Nat) (B : MatF 𝕜)
    (lstsq_contract : ∀ j, j < nb →
      IsMinNormLsq (lin (MatF.toMatrix A.rows A.cols A.td.f)) (colE A.rows B j)
        (colE A.cols (lstsq A.rows A.cols A.td.f nb B) j)) :
    ∀ j, j < nb →
      IsMinNormLsq (lin (MatF.toMatrix A.rows A.cols A.den.f)) (colE A.rows B j)
        (colE A.cols (lstsqApply lstsq A nb B) j) ∧
      ∀ X : Matrix (Fin A.cols) (Fin A.rows) 𝕜,
        IsMoorePenrose (MatF.toMatrix A.rows A.cols A.den.f) X →
        colE A.cols (lstsqApply lstsq A nb B) j = lin X (colE A.rows B j) := by
  intro j hj
  have htd : MatF.toMatrix A.rows A.cols A.td.f = MatF.toMatrix A.rows A.cols A.den.f :=
    MatF.toMatrix_congr (Op.td_eq A A_good.1 A_good.2.1 A_good.2.2)
  have h := lstsq_contract j hj
  rw [htd] at h
  exact ⟨h, fun X hX => hX.eq_apply_of_minNormLsq _ _ h⟩

end lstsq

end Svd
