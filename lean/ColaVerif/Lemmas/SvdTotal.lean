import ColaVerif.Lemmas.SvdLink

/-!
# C16 (round 2): the Krylov rules of `svd` return (totality), and a worked instance

`svdKrylov_total`: for a well-formed operand, a `Nat` request `k`, `which ∈ {LM, SM}` and an
eigensolver whose eigenvector operator has as many rows as the Gram operator, the model of the
rule returns (no shape assertion of `dot` fails, the slice exists).  `Svd.Witness`: a concrete
`2 × 2` non-diagonal operand with an exact eigensolver on which every hypothesis of
`svdKrylov_tall_sound` holds — the theorem is not vacuous.
-/

open Matrix ExprSound

namespace Svd
open Op Ex

set_option linter.unusedSectionVars false
set_option linter.unusedVariables false

variable {𝕜 : Type} [RCLike 𝕜] [DecidableEq 𝕜]

theorem ok_bind {α β : Type} (a : α) (f : α → Except String β) : (Except.ok a >>= f) = f a := rfl

/-- `dot` succeeds when the inner dimensions agree -/
theorem dot_total (A B : Op 𝕜) (hA : PL A) (hB : PL B) (hdim : A.cols = B.rows) :
    ∃ v, dotRule A B = .ok v := by
  have hpair : ∃ v, mkProd [A, B] = .ok v := by
    refine ⟨.op (Op.prod [A, B]), ?_⟩
    simp only [mkProd, List.map_cons, List.map_nil, chainOk, Bool.and_true, beq_iff_eq]
    rw [if_pos hdim]
  have hparts : ∃ v, mkProd (parts A ++ parts B) = .ok v := by
    refine ⟨.op (Op.prod (parts A ++ parts B)), ?_⟩
    simp only [mkProd]
    rw [if_pos]
    rw [List.map_append]
    apply chainOk_append _ _ hA.pp.chain hB.pp.chain
    intro a ha b hb
    have h1 : a.2 = A.cols := by
      have := hA.pp.lc
      unfold lastCols at this
      simp only [shapes, List.getLast?_map, Option.mem_def] at ha this
      cases hl : (parts A).getLast? with
      | none => rw [hl] at ha; cases ha
      | some M =>
        rw [hl] at ha this
        simp only [Option.map_some, Option.some.injEq] at ha
        simp only [Option.map_some, Option.getD_some] at this
        rw [← ha]; exact this
    have h2 : b.1 = B.rows := by
      have := hB.pp.hr
      unfold headRows at this
      simp only [shapes, List.head?_map, Option.mem_def] at hb this
      cases hl : (parts B).head? with
      | none => rw [hl] at hb; cases hb
      | some M =>
        rw [hl] at hb this
        simp only [Option.map_some, Option.some.injEq] at hb
        simp only [Option.map_some, Option.getD_some] at this
        rw [← hb]; exact this
    rw [h1, h2, hdim]
  unfold dotRule
  have hne : (A.cols != B.rows) = false := by simp [hdim]
  rw [hne]
  simp only [Bool.false_eq_true, if_false]
  by_cases hiA : isIdentity A = true
  · rw [if_pos hiA]
    by_cases hiB : isIdentity B = true
    · rw [if_pos hiB]; split <;> exact ⟨_, rfl⟩
    · rw [if_neg hiB]; split
      · exact ⟨_, rfl⟩
      · exact hpair
  · rw [if_neg hiA]
    by_cases hiB : isIdentity B = true
    · rw [if_pos hiB]; split
      · exact ⟨_, rfl⟩
      · exact hpair
    · rw [if_neg hiB]
      obtain ⟨v, hv⟩ := hparts
      refine ⟨v, ?_⟩
      unfold parts at hv
      revert hv
      cases prodMembers A <;> cases prodMembers B <;> simp

theorem asOp_of_dot (A B : Op 𝕜) (hA : PL A) (hB : PL B) (hdim : A.cols = B.rows) :
    ∃ P, asOp (dotRule A B) = .ok P := by
  obtain ⟨v, hv⟩ := dot_total A B hA hB hdim
  obtain ⟨_, P, hP, _⟩ := dot_pl A B hA hB v hv
  exact ⟨P, by rw [hv, hP]; rfl⟩

theorem getSlice_nat (k : Nat) (w : Which) (hw : w = .LM ∨ w = .SM) :
    ∃ a b, getSlice (k : Int) w = .ok (.slice a b none) := by
  have hk : ¬ ((k : Int) = -1) := by omega
  rcases hw with rfl | rfl
  · exact ⟨some (-(k : Int)), none, by simp [getSlice, hk]⟩
  · exact ⟨some 0, some (k : Int), by simp [getSlice, hk]⟩

theorem sliceCols_total (X : Op 𝕜) (a b : Option Int) :
    ∃ l, sliceCols X (.slice a b none) = .ok (Op.sliced X Op.fullSlice (.slice a b none)) ∧
      Ix.resolve X.cols (.slice a b none) = some l := by
  have h1 : (Ix.resolve X.rows Op.fullSlice).isSome = true := by
    show (Ix.resolve X.rows (.slice none none none)).isSome = true
    rw [Ix.resolve_full]; rfl
  have h2 : ∃ l, Ix.resolve X.cols (.slice a b none) = some l := by
    simp [Ix.resolve]
  obtain ⟨l, hl⟩ := h2
  refine ⟨l, ?_, hl⟩
  unfold sliceCols
  simp [Op.getitem, h1, hl]

/-- **totality of the Krylov rules** -/
theorem svdKrylov_total (P : Params 𝕜) (eigs : Op 𝕜 → Eigs 𝕜) (forceTall : Bool)
    (A : Op 𝕜) (k : Nat) (w : Which) (hw : w = .LM ∨ w = .SM)
    (A_good : Op.Good A) (A_real : A.RealTyped)
    (W_shape : ∀ G, Op.Good (eigs G).W ∧ (eigs G).W.rows = G.rows) :
    ∃ o, svdKrylov P eigs forceTall A (k : Int) w = .ok o := by
  obtain ⟨a, b, hsl⟩ := getSlice_nat k w hw
  have ts := adjointRule_spec A A_good A_real
  have plA := PL.of_good A A_good
  have plAH := PL.of_good _ ts.good
  have hs := getSlice_not_full (k : Int) w _ hsl
  unfold svdKrylov
  rw [hsl]
  simp only [ok_bind] -- the slice
  show ∃ o, (if (forceTall || decide (A.cols ≤ A.rows)) = true then _ else _) = Except.ok o
  split
  · obtain ⟨G, hG⟩ := asOp_of_dot A.adjointRule A plAH plA ts.cols
    obtain ⟨l, hV0, hl⟩ := sliceCols_total (eigs G).W a b
    have hgram := gram_tall_den A G A_good A_real hG
    have hnd : l.Nodup := by
      have hp : positions (eigs G).W.cols (k : Int) w = .ok l := positions_of_resolve _ _ _ _ _ hsl hl
      exact positions_nodup _ k w l hp
    obtain ⟨hVg, hVr, hVc, _⟩ := sliced_cols_spec (eigs G).W (W_shape G).1 _ l hl hnd hs
    have hpos : (Ix.resolve (eigs G).W.cols (Ix.slice a b none)).getD [] = l := by rw [hl]; rfl
    obtain ⟨AV, hAV⟩ := asOp_of_dot A _ plA (PL.of_good _ hVg)
      (by rw [hVr, (W_shape G).2, hgram.1])
    obtain ⟨_, AV', hAV', _, c1, _, pl1⟩ := dot_pl A _ plA (PL.of_good _ hVg) _ (asOp_ok hAV)
    injection hAV' with hAV'; subst hAV'
    have hD := good_diag' (sigmaDt forceTall A.dtype) l.length
      (fun t => P.inv (P.sqrt ((eigs G).vals (l.getD t 0))))
    obtain ⟨Pr, hPr⟩ := asOp_of_dot AV _ pl1 (PL.of_good _ hD)
      (by rw [c1, hVc]; simp only [Op.rows])
    rw [hG]; simp only [ok_bind]
    rw [hV0]; simp only [ok_bind, hpos]
    rw [hAV]; simp only [ok_bind]
    rw [hPr]; simp only [ok_bind]
    exact ⟨_, rfl⟩
  · obtain ⟨G, hG⟩ := asOp_of_dot A A.adjointRule plA plAH ts.rows.symm
    obtain ⟨l, hU0, hl⟩ := sliceCols_total (eigs G).W a b
    have hgram := gram_wide_den A G A_good A_real hG
    have hnd : l.Nodup := by
      have hp : positions (eigs G).W.cols (k : Int) w = .ok l := positions_of_resolve _ _ _ _ _ hsl hl
      exact positions_nodup _ k w l hp
    obtain ⟨hUg, hUr, hUc, _⟩ := sliced_cols_spec (eigs G).W (W_shape G).1 _ l hl hnd hs
    have hpos : (Ix.resolve (eigs G).W.cols (Ix.slice a b none)).getD [] = l := by rw [hl]; rfl
    have hD := good_diag' (sigmaDt forceTall A.dtype) l.length
      (fun t => P.inv (P.sqrt ((eigs G).vals (l.getD t 0))))
    have hUHg := good_adjoint' _ hUg
    have hadj := adjointRule_orthonormal_sliced (eigs G).W (Ix.slice a b none) hs
    obtain ⟨SU, hSU⟩ := asOp_of_dot _ _ (PL.of_good _ hD) (PL.of_good _ hUHg)
      (by simp only [Op.cols, Op.rows]; exact hUc.symm)
    obtain ⟨_, SU', hSU', _, c1, _, pl1⟩ := dot_pl _ _ (PL.of_good _ hD) (PL.of_good _ hUHg) _ (asOp_ok hSU)
    injection hSU' with hSU'; subst hSU'
    obtain ⟨Pr, hPr⟩ := asOp_of_dot SU A pl1 plA
      (by rw [c1]; simp only [Op.cols]; rw [hUr, (W_shape G).2, hgram.1])
    rw [hG]; simp only [ok_bind]
    rw [hU0]; simp only [ok_bind, hpos]
    rw [hadj, hSU]; simp only [ok_bind]
    rw [hPr]; simp only [ok_bind]
    exact ⟨_, rfl⟩

theorem svdKrylov_j (P : Params 𝕜) (eigs : Op 𝕜 → Eigs 𝕜) (forceTall : Bool)
    (A : Op 𝕜) (k : Int) (w : Which) (o : KrylovOut 𝕜)
    (h : svdKrylov P eigs forceTall A k w = .ok o) : o.j = (eigs o.G).W.cols := by
  unfold svdKrylov at h
  obtain ⟨sl, hsl, h⟩ := bind_ok' h
  split at h
  · obtain ⟨G, hG, h⟩ := bind_ok' h
    obtain ⟨V0, hV0, h⟩ := bind_ok' h
    obtain ⟨AV, hAV, h⟩ := bind_ok' h
    obtain ⟨Pr, hPr, h⟩ := bind_ok' h
    have ho := Except.ok.inj h
    subst ho
    rfl
  · obtain ⟨G, hG, h⟩ := bind_ok' h
    obtain ⟨U0, hU0, h⟩ := bind_ok' h
    obtain ⟨SU, hSU, h⟩ := bind_ok' h
    obtain ⟨Pr, hPr, h⟩ := bind_ok' h
    have ho := Except.ok.inj h
    subst ho
    rfl

end Svd

/-! ## a worked instance: the hypotheses of `svdKrylov_tall_sound` are satisfiable -/

namespace Svd.Witness
open Op

noncomputable section

/-- `A = [[0, 2], [1, 0]]` (not diagonal, not the identity; `Aᴴ A = diag(1, 4)`) -/
def a : MatF ℝ := fun i j => if i = 0 ∧ j = 1 then 2 else if i = 1 ∧ j = 0 then 1 else 0
def A : Op ℝ := .dense .f64 2 2 a

/-- an exact eigensolver for `Aᴴ A`: eigenvalues `1, 4` (ascending), eigenvectors `e₀, e₁` -/
def eigs : Op ℝ → Eigs ℝ := fun G => ⟨fun t => if t = 0 then 1 else 4, .dense .f64 G.rows 2 eyeM⟩

def lam : Nat → ℝ := fun t => if t = 0 then 1 else 4

def P : Params ℝ where
  lapackSvd := fun _ _ _ => ⟨fun _ _ => 0, fun _ => 0, fun _ _ => 0⟩
  lanczosEigs := eigs
  lobpcgEigs := fun _ => eigs
  sqrt := Real.sqrt
  inv := fun z => z⁻¹
  lt := fun x y => decide (x < y)
  re := id
  abs := fun z => |z|
  precision := fun _ => 0

theorem A_good : Op.Good A := good_dense' _ _ _ _

theorem A_real : A.RealTyped := by
  simp only [A, Op.RealTyped]
  intro _ i j _ _
  simp

/-- on this instance the rule returns, takes the `A.H @ A` branch, selects both eigenpairs, and every
hypothesis of `svdKrylov_tall_sound` holds; hence `U Σ Vᴴ = A` with orthonormal `U`, `V` -/
theorem sound : ∃ o, svdKrylov P eigs false A ((2 : Nat) : Int) .LM = .ok o ∧ o.tall = true ∧
    o.pos = [0, 1] ∧
    (MatF.toMatrix 2 2 o.triple.U.den.f)ᴴ * MatF.toMatrix 2 2 o.triple.U.den.f = 1 ∧
    (MatF.toMatrix 2 2 o.triple.V.den.f)ᴴ * MatF.toMatrix 2 2 o.triple.V.den.f = 1 ∧
    MatF.toMatrix 2 2 o.triple.U.den.f * MatF.toMatrix 2 2 o.triple.S.den.f *
      (MatF.toMatrix 2 2 o.triple.V.den.f)ᴴ = MatF.toMatrix 2 2 A.den.f := by
  have W_shape : ∀ G, Op.Good (eigs G).W ∧ (eigs G).W.rows = G.rows :=
    fun G => ⟨good_dense' _ _ _ _, by simp only [eigs, Op.rows]⟩
  obtain ⟨o, ho⟩ := svdKrylov_total P eigs false A 2 .LM (Or.inl rfl) A_good A_real W_shape
  have hspec := svdKrylov_spec P eigs false A ((2 : Nat) : Int) .LM o ho
  have htall : o.tall = true := by
    rw [hspec.2.1]; simp [A, Op.rows, Op.cols]
  have hj : o.j = 2 := by
    rw [svdKrylov_j P eigs false A _ .LM o ho]; simp only [eigs, Op.cols]
  have hpos : o.pos = [0, 1] := by
    have h1 := hspec.1
    rw [hj, positions_LM 2 2 (by omega)] at h1
    injection h1 with h1
    rw [← h1]; rfl
  have hgram := gram_tall_den A o.G A_good A_real ((svdKrylov_gram P eigs false A _ .LM o ho).1 htall)
  have hAr : A.rows = 2 := by simp only [A, Op.rows]
  have hAc : A.cols = 2 := by simp only [A, Op.cols]
  have hWden : (eigs o.G).W.den.f = eyeM := by simp only [eigs]; rw [Op.den]; rfl
  have hlen : o.pos.length = 2 := by rw [hpos]; rfl
  have key := svdKrylov_tall_sound P eigs false A 2 .LM o ho htall A_good A_real (W_shape o.G).1 lam
    (by
      rw [hWden, hpos, hAc]
      have hVs : MatF.toMatrix 2 [0, 1].length (selCols (eyeM : MatF ℝ) [0, 1]) = 1 := by
        ext i j
        fin_cases i <;> fin_cases j <;> simp [MatF.toMatrix_apply, selCols, eyeM]
      have hG : MatF.toMatrix 2 2 o.G.den.f = diagonal (fun i : Fin 2 => lam i.val) := by
        have := hgram.2.2
        rw [hAc, hAr] at this
        rw [MatF.toMatrix_congr this]
        ext i j
        fin_cases i <;> fin_cases j <;>
          simp [MatF.toMatrix_apply, mmul_apply, Finset.sum_range_succ, conjM, transposeM, A, a, lam,
            den_dense_f] <;> norm_num
      refine ⟨?_, ?_, ?_⟩
      · show (MatF.toMatrix 2 [0, 1].length _)ᴴ * MatF.toMatrix 2 [0, 1].length _ = 1
        rw [hVs]; simp
      · show MatF.toMatrix 2 2 o.G.den.f * MatF.toMatrix 2 [0, 1].length _ =
          MatF.toMatrix 2 [0, 1].length _ * _
        rw [hVs, hG, Matrix.mul_one, Matrix.one_mul]
        rfl
      · intro t ht
        have ht2 : t < 2 := ht
        interval_cases t <;> simp [eigs, lam])
    (by intro t _; rfl)
    (by intro z; rfl)
  obtain ⟨_, hU, hV, _, _, _, _, _, hfull⟩ := key
  rw [hlen, hAr] at hU
  rw [hlen, hAc] at hV
  rw [hlen, hAr, hAc] at hfull
  refine ⟨o, ho, htall, hpos, hU, hV, ?_⟩
  apply hfull
  -- all eigenpairs were selected: `V Vᴴ = 1` for the square orthonormal `V`
  exact mul_eq_one_comm.mp hV

end

end Svd.Witness
