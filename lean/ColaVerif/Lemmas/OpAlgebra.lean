import ColaVerif.Lemmas.OpMatmat
import ColaVerif.Model.Algebra

/-!
# C02: transpose / adjoint rules of `cola/fns.py` against the represented matrix

* `Op.RealTyped A` — every payload entry of a leaf whose dtype is `f32`/`f64` is fixed by `star`
  (this is what a real NumPy array is: the model's carrier `R` is one ring for all dtypes, the
  dtype tag alone does not constrain the payload).
* `Op.den_star_fixed` — a `RealTyped`, well-formed operator of non-complex dtype has a
  `star`-fixed represented matrix (all 20 kinds).
* `Op.TSpec` / `Op.transposeRule_spec` / `Op.adjointRule_spec` — shape, represented matrix and
  the side conditions (`wf`, `dupSlice`, `HermOK`, `RealTyped`) of `A.T` / `A.H`.
* `Op.tower_spec`, `Op.tower_td` — towers of any height.
-/

open Finset

/-! ## `DType.promote` -/

namespace DType

theorem promote_isComplex (a b : DType) :
    (promote a b).isComplex = (a.isComplex || b.isComplex) := by
  cases a <;> cases b <;> rfl

theorem foldl_promote_isComplex (l : List DType) (a : DType) :
    (l.foldl promote a).isComplex = (a.isComplex || l.any isComplex) := by
  induction l generalizing a with
  | nil => simp
  | cons d l ih => rw [List.foldl_cons, ih, promote_isComplex, List.any_cons, Bool.or_assoc]

/-- the promoted dtype of a list of members is non-complex only if every member's is -/
theorem foldl_promote_real {α : Type} (Ms : List α) (f : α → DType)
    (h : ((Ms.map f).foldl promote .f32).isComplex = false) :
    ∀ M ∈ Ms, (f M).isComplex = false := by
  intro M hM
  rw [foldl_promote_isComplex] at h
  have h0 : DType.f32.isComplex = false := rfl
  rw [h0, Bool.false_or, List.any_eq_false] at h
  simpa using h (f M) (List.mem_map.mpr ⟨M, hM, rfl⟩)

end DType

/-! ## `star`-fixed windows -/

section SF
variable {R : Type}

/-- every entry of the `r × c` window is fixed by `star` -/
def SF [Star R] (r c : Nat) (D : MatF R) : Prop := ∀ i j, i < r → j < c → star (D i j) = D i j

theorem SF.mmul [CommSemiring R] [StarRing R] {r k c : Nat} {A B : MatF R}
    (hA : SF r k A) (hB : SF k c B) : SF r c (mmul k A B) := by
  intro i j hi hj
  rw [mmul_apply, star_sum]
  apply Finset.sum_congr rfl
  intro q hq
  rw [star_mul', hA i q hi (mem_range.mp hq), hB q j (mem_range.mp hq) hj]

theorem SF.eyeM [Semiring R] [StarRing R] (r c : Nat) : SF r c (eyeM : MatF R) := by
  intro i j _ _
  simp only [_root_.eyeM]
  by_cases h : i = j <;> simp [h]

theorem star_list_sum [AddCommMonoid R] [StarAddMonoid R] (l : List R) :
    star l.sum = (l.map star).sum := by
  induction l with
  | nil => simp
  | cons a l ih => simp [ih]

theorem SF.sparseDen [AddCommMonoid R] [StarAddMonoid R] (ents : List (Nat × Nat × R))
    (h : ∀ t ∈ ents, star t.2.2 = t.2.2) (r c : Nat) : SF r c (sparseDen ents) := by
  intro i j _ _
  simp only [_root_.sparseDen]
  rw [star_list_sum, List.map_map]
  congr 1
  apply List.map_congr_left
  intro t ht
  simp only [Function.comp_apply]
  split
  · exact h t ht
  · exact star_zero _

theorem SF.foldr_addM [AddMonoid R] [StarAddMonoid R] (r c : Nat) (l : List (MatF R))
    (h : ∀ m ∈ l, SF r c m) : SF r c (l.foldr addM zeroM) := by
  induction l with
  | nil => intro i j _ _; simp [zeroM]
  | cons m l ih =>
    intro i j hi hj
    simp only [List.foldr_cons, addM]
    rw [star_add, h m List.mem_cons_self i j hi hj,
      ih (fun m' hm' => h m' (List.mem_cons_of_mem _ hm')) i j hi hj]

theorem kronEntry_star [CommSemiring R] [StarRing R] :
    ∀ (L : List (FacAct R)) (is js : List Nat), (∀ F ∈ L, SF F.r F.c F.a) →
      InB (L.map (·.r)) is → InB (L.map (·.c)) js →
      star (kronEntry L is js) = kronEntry L is js
  | [], _, _, _, _, _ => by simp [kronEntry]
  | _ :: _, [], _, _, h1, _ => by simp [InB] at h1
  | _ :: _, _ :: _, [], _, _, h2 => by simp [InB] at h2
  | F :: L, i :: is, j :: js, h, h1, h2 => by
    simp only [List.map_cons, InB] at h1 h2
    simp only [kronEntry]
    rw [star_mul', h F List.mem_cons_self i j h1.1 h2.1,
      kronEntry_star L is js (fun G hG => h G (List.mem_cons_of_mem _ hG)) h1.2 h2.2]

theorem SF.kronDen [CommSemiring R] [StarRing R] (L : List (FacAct R))
    (h : ∀ F ∈ L, SF F.r F.c F.a) : SF (L.map (·.r)).prod (L.map (·.c)).prod (kronDen L) := by
  intro I J hI hJ
  exact kronEntry_star L _ _ h (ravel_unravel _ I hI).2 (ravel_unravel _ J hJ).2

theorem kronSumEntry_star [CommSemiring R] [StarRing R] :
    ∀ (L : List (FacAct R)) (is js : List Nat), (∀ F ∈ L, SF F.r F.c F.a) →
      InB (L.map (·.r)) is → InB (L.map (·.c)) js →
      star (kronSumEntry L is js) = kronSumEntry L is js
  | [], _, _, _, _, _ => by simp [kronSumEntry]
  | _ :: _, [], _, _, h1, _ => by simp [InB] at h1
  | _ :: _, _ :: _, [], _, _, h2 => by simp [InB] at h2
  | F :: L, i :: is, j :: js, h, h1, h2 => by
    simp only [List.map_cons, InB] at h1 h2
    simp only [kronSumEntry]
    rw [star_add, star_mul', star_mul', h F List.mem_cons_self i j h1.1 h2.1,
      kronSumEntry_star L is js (fun G hG => h G (List.mem_cons_of_mem _ hG)) h1.2 h2.2]
    congr 2 <;> split <;> simp

theorem SF.kronSumDen [CommSemiring R] [StarRing R] (L : List (FacAct R))
    (h : ∀ F ∈ L, SF F.r F.c F.a) :
    SF (L.map (·.r)).prod (L.map (·.c)).prod (kronSumDen L) := by
  intro I J hI hJ
  exact kronSumEntry_star L _ _ h (ravel_unravel _ I hI).2 (ravel_unravel _ J hJ).2

theorem blockDiagM_star [AddMonoid R] [StarAddMonoid R] (L : List (Nat × Nat × MatF R))
    (h : ∀ p ∈ L, SF p.1 p.2.1 p.2.2) (i j : Nat) :
    star (blockDiagM L i j) = blockDiagM L i j := by
  induction L generalizing i j with
  | nil => simp [blockDiagM]
  | cons p L ih =>
    obtain ⟨r, c, m⟩ := p
    have hp := h (r, c, m) List.mem_cons_self
    have ih' := ih (fun q hq => h q (List.mem_cons_of_mem _ hq))
    simp only [blockDiagM]
    by_cases hi : i < r <;> by_cases hj : j < c <;> simp only [hi, hj, if_true, if_false, star_zero]
    · exact hp i j hi hj
    · exact ih' _ _

theorem bdiagDen_star [AddMonoid R] [StarAddMonoid R] (Ms : List (FacAct R × Nat))
    (h : ∀ p ∈ Ms, SF p.1.r p.1.c p.1.a) (i j : Nat) :
    star (bdiagDen Ms i j) = bdiagDen Ms i j := by
  unfold bdiagDen
  apply blockDiagM_star
  intro q hq
  simp only [expandBlocks, List.mem_flatMap, List.mem_replicate] at hq
  obtain ⟨p, hp, _, rfl⟩ := hq
  exact h p hp

theorem SF.hstack [AddMonoid R] [StarAddMonoid R] (r : Nat) :
    ∀ (L : List (Nat × MatF R)), (∀ p ∈ L, SF r p.1 p.2) →
      SF r (L.map (·.1)).sum (hstack L)
  | [], _ => by intro i j _ _; simp [_root_.hstack]
  | (c, m) :: L, h => by
    intro i j hi hj
    simp only [_root_.hstack]
    by_cases hc : j < c
    · simp only [hc, if_true]; exact h (c, m) List.mem_cons_self i j hi hc
    · simp only [hc, if_false]
      simp only [List.map_cons, List.sum_cons] at hj
      exact SF.hstack r L (fun p hp => h p (List.mem_cons_of_mem _ hp)) i (j - c) hi (by omega)

theorem SF.vstack [AddMonoid R] [StarAddMonoid R] (c : Nat) :
    ∀ (L : List (Nat × MatF R)), (∀ p ∈ L, SF p.1 c p.2) →
      SF (L.map (·.1)).sum c (vstack L)
  | [], _ => by intro i j _ _; simp [_root_.vstack]
  | (r, m) :: L, h => by
    intro i j hi hj
    simp only [_root_.vstack]
    by_cases hc : i < r
    · simp only [hc, if_true]; exact h (r, m) List.mem_cons_self i j hc hj
    · simp only [hc, if_false]
      simp only [List.map_cons, List.sum_cons] at hi
      exact SF.vstack c L (fun p hp => h p (List.mem_cons_of_mem _ hp)) (i - r) j (by omega) hj

end SF

namespace Op
variable {R : Type} [CommRing R] [StarRing R] [DecidableEq R]

/-! ## `RealTyped` -/

/-- every payload entry of a leaf with a real dtype (`f32`/`f64`) is fixed by `star`: matrix
entries inside the declared window, sparse values, the scalar, diagonal / tridiagonal bands,
Householder vector and coefficient.  Composite nodes require it of their members. -/
def RealTyped : Op R → Prop
  | dense dt r c a => dt.isComplex = false → ∀ i j, i < r → j < c → star (a i j) = a i j
  | tri dt r c _ a => dt.isComplex = false → ∀ i j, i < r → j < c → star (a i j) = a i j
  | sparse dt _ _ e => dt.isComplex = false → ∀ t ∈ e, star t.2.2 = t.2.2
  | scalar dt s _ => dt.isComplex = false → star s = s
  | eye _ _ => True
  | prod Ms => ∀ M ∈ Ms, M.RealTyped
  | sum Ms => ∀ M ∈ Ms, M.RealTyped
  | kron Ms => ∀ M ∈ Ms, M.RealTyped
  | kronsum Ms => ∀ M ∈ Ms, M.RealTyped
  | bdiag Ms _ => ∀ M ∈ Ms, M.RealTyped
  | diag dt n d => dt.isComplex = false → ∀ i, i < n → star (d i) = d i
  | tridiag dt n al be ga => dt.isComplex = false →
      (∀ i, i < n → star (be i) = be i) ∧
      (∀ i, i + 1 < n → star (al i) = al i ∧ star (ga i) = ga i)
  | transpose A => A.RealTyped
  | adjoint A => A.RealTyped
  | sliced A _ _ => A.RealTyped
  | perm _ _ => True
  | concat _ Ms => ∀ M ∈ Ms, M.RealTyped
  | house dt n v beta => dt.isComplex = false → star beta = beta ∧ ∀ i, i < n → star (v i) = v i
  | generic A => A.RealTyped
  | annot _ A => A.RealTyped

/-- the represented matrix is `star`-fixed on its window -/
def DenSF (A : Op R) : Prop := SF A.rows A.cols A.den.f

/-! ## per-kind `star`-fixedness of the represented matrix -/

omit [DecidableEq R] in
theorem denSF_denChain : ∀ (Ms : List (Op R)) (M0 : Op R),
    (∀ M ∈ M0 :: Ms, DenSF M) →
    chainOk ((M0 :: Ms).map (fun M => (M.rows, M.cols))) = true →
    SF M0.rows (((M0 :: Ms).map (·.cols)).getLast?.getD 0) (denChain (M0 :: Ms))
  | [], M0, h, _ => by
    simp only [List.map_cons, List.map_nil, List.getLast?_singleton, Option.getD_some,
      denChain_cons]
    exact SF.mmul (h M0 List.mem_cons_self) (SF.eyeM _ _)
  | M1 :: Ms, M0, h, hc => by
    simp only [List.map_cons, chainOk, Bool.and_eq_true, beq_iff_eq] at hc
    have ih := denSF_denChain Ms M1 (fun M hM => h M (List.mem_cons_of_mem _ hM))
      (by simpa using hc.2)
    rw [← hc.1] at ih
    simp only [List.map_cons, List.getLast?_cons_cons, denChain_cons] at ih ⊢
    exact SF.mmul (h M0 List.mem_cons_self) ih

omit [DecidableEq R] in
theorem denSF_prod (Ms : List (Op R)) (hwf : (prod Ms).wf = true) (h : ∀ M ∈ Ms, DenSF M) :
    DenSF (prod Ms) := by
  simp only [Op.wf, Bool.and_eq_true] at hwf
  cases Ms with
  | nil => simp at hwf
  | cons M0 Ms =>
    have := denSF_denChain Ms M0 h hwf.2
    unfold DenSF
    simp only [Op.rows, Op.cols, Op.den, forceV_f]
    exact this

omit [DecidableEq R] in
theorem denSF_sum (Ms : List (Op R)) (hwf : (sum Ms).wf = true) (h : ∀ M ∈ Ms, DenSF M) :
    DenSF (sum Ms) := by
  have hsh := sum_shapes Ms hwf
  unfold DenSF
  have key := SF.foldr_addM (sum Ms).rows (sum Ms).cols (Ms.map (·.den.f)) (by
    intro m hm
    obtain ⟨M, hM, rfl⟩ := List.mem_map.mp hm
    have := h M hM
    unfold DenSF at this
    rw [(hsh M hM).1, (hsh M hM).2] at this
    exact this)
  simp only [Op.den, forceV_f]
  exact key

omit [DecidableEq R] in
theorem facDen_SF (Ms : List (Op R)) (h : ∀ M ∈ Ms, DenSF M) :
    ∀ F ∈ Ms.map (facDen (R := R)), SF F.r F.c F.a := by
  intro F hF
  obtain ⟨M, hM, rfl⟩ := List.mem_map.mp hF
  exact h M hM

omit [DecidableEq R] in
theorem map_facDen_r (Ms : List (Op R)) : (Ms.map facDen).map (·.r) = Ms.map (·.rows) := by
  rw [List.map_map]; rfl
omit [DecidableEq R] in
theorem map_facDen_c (Ms : List (Op R)) : (Ms.map facDen).map (·.c) = Ms.map (·.cols) := by
  rw [List.map_map]; rfl

omit [DecidableEq R] in
theorem denSF_kron (Ms : List (Op R)) (h : ∀ M ∈ Ms, DenSF M) : DenSF (kron Ms) := by
  have key := SF.kronDen (Ms.map facDen) (facDen_SF Ms h)
  rw [map_facDen_r, map_facDen_c] at key
  unfold DenSF
  simp only [Op.rows, Op.cols, Op.den, forceV_f]
  exact key

omit [DecidableEq R] in
theorem denSF_kronsum (Ms : List (Op R)) (h : ∀ M ∈ Ms, DenSF M) : DenSF (kronsum Ms) := by
  have key := SF.kronSumDen (Ms.map facDen) (facDen_SF Ms h)
  rw [map_facDen_r, map_facDen_c] at key
  unfold DenSF
  simp only [Op.rows, Op.cols, Op.den, forceV_f]
  exact key

omit [DecidableEq R] in
theorem denSF_bdiag (Ms : List (Op R)) (mults : List Nat) (h : ∀ M ∈ Ms, DenSF M) :
    DenSF (bdiag Ms mults) := by
  intro i j _ _
  have key := bdiagDen_star ((Ms.map facDen).zip mults) (by
    intro p hp
    exact facDen_SF Ms h p.1 (List.of_mem_zip (a := p.1) (b := p.2) hp).1) i j
  simp only [Op.den, forceV_f]
  exact key

omit [DecidableEq R] in
theorem denSF_concat_h (Ms : List (Op R)) (hwf : (concat true Ms).wf = true)
    (h : ∀ M ∈ Ms, DenSF M) : DenSF (concat true Ms) := by
  have hsh := concat_shapes_h Ms hwf
  have key := SF.hstack (concat true Ms).rows (Ms.map (fun M => (M.cols, M.den.f))) (by
    intro p hp
    obtain ⟨M, hM, rfl⟩ := List.mem_map.mp hp
    have := h M hM
    unfold DenSF at this
    rw [hsh M hM] at this
    exact this)
  rw [List.map_map] at key
  unfold DenSF
  simp only [Op.den, Op.cols, if_true, MatV.of_f]
  exact key

omit [DecidableEq R] in
theorem denSF_concat_v (Ms : List (Op R)) (hwf : (concat false Ms).wf = true)
    (h : ∀ M ∈ Ms, DenSF M) : DenSF (concat false Ms) := by
  have hsh := concat_shapes_v Ms hwf
  have key := SF.vstack (concat false Ms).cols (Ms.map (fun M => (M.rows, M.den.f))) (by
    intro p hp
    obtain ⟨M, hM, rfl⟩ := List.mem_map.mp hp
    have := h M hM
    unfold DenSF at this
    rw [hsh M hM] at this
    exact this)
  rw [List.map_map] at key
  unfold DenSF
  simp only [Op.den, Op.rows, Bool.false_eq_true, if_false, MatV.of_f]
  exact key

omit [DecidableEq R] in
theorem denSF_transpose (A : Op R) (h : DenSF A) : DenSF (transpose A) := by
  intro i j hi hj
  simp only [Op.rows] at hi
  simp only [Op.cols] at hj
  simp only [Op.den, MatV.of_f, transposeM]
  exact h j i hj hi

omit [DecidableEq R] in
theorem denSF_adjoint (A : Op R) (h : DenSF A) : DenSF (adjoint A) := by
  intro i j hi hj
  simp only [Op.rows] at hi
  simp only [Op.cols] at hj
  simp only [Op.den, MatV.of_f, transposeM, conjM]
  rw [h j i hj hi, h j i hj hi]

omit [DecidableEq R] in
theorem denSF_sliced (A : Op R) (s0 s1 : Ix) (h : DenSF A) : DenSF (sliced A s0 s1) := by
  intro i j hi hj
  simp only [Op.rows] at hi
  simp only [Op.cols] at hj
  simp only [Op.den, MatV.of_f, slicedDen]
  exact h _ _ (getD_resolve_lt _ _ _ (getD_mem_of_lt _ i hi))
    (getD_resolve_lt _ _ _ (getD_mem_of_lt _ j hj))


/-! ## the recursion: a real-typed operator of real dtype has a `star`-fixed matrix -/

omit [CommRing R] [StarRing R] [DecidableEq R] in
theorem dtype_members {Ms : List (Op R)}
    (h : ((Ms.map (·.dtype)).foldl DType.promote .f32).isComplex = false) :
    ∀ M ∈ Ms, M.dtype.isComplex = false :=
  DType.foldl_promote_real Ms (·.dtype) h

omit [DecidableEq R] in
theorem denSF_of_realTyped : ∀ (A : Op R), A.RealTyped → A.wf = true →
    A.dtype.isComplex = false → DenSF A
  | dense dt r c a, hr, _, hd => by
    simp only [RealTyped] at hr
    simp only [Op.dtype] at hd
    intro i j hi hj
    simp only [Op.rows] at hi
    simp only [Op.cols] at hj
    simp only [Op.den, MatV.of_f]
    exact hr hd i j hi hj
  | tri dt r c l a, hr, _, hd => by
    simp only [RealTyped] at hr
    simp only [Op.dtype] at hd
    intro i j hi hj
    simp only [Op.rows] at hi
    simp only [Op.cols] at hj
    simp only [Op.den, MatV.of_f]
    exact hr hd i j hi hj
  | sparse dt r c e, hr, _, hd => by
    simp only [RealTyped] at hr
    simp only [Op.dtype] at hd
    unfold DenSF
    simp only [Op.den, forceV_f]
    exact SF.sparseDen e (hr hd) _ _
  | scalar dt s n, hr, _, hd => by
    simp only [RealTyped] at hr
    simp only [Op.dtype] at hd
    intro i j _ _
    simp only [Op.den, MatV.of_f]
    split
    · exact hr hd
    · exact star_zero _
  | eye dt n, _, _, _ => by
    unfold DenSF
    simp only [Op.den, MatV.of_f]
    exact SF.eyeM _ _
  | prod Ms, hr, hw, hd => by
    simp only [RealTyped] at hr
    simp only [Op.dtype] at hd
    have hw' := hw
    simp only [Op.wf, Bool.and_eq_true] at hw'
    exact denSF_prod Ms hw (fun M hM =>
      denSF_of_realTyped M (hr M hM) (wf_members hw'.1.2 M hM) (dtype_members hd M hM))
  | sum Ms, hr, hw, hd => by
    simp only [RealTyped] at hr
    simp only [Op.dtype] at hd
    have hw' := hw
    simp only [Op.wf, Bool.and_eq_true] at hw'
    exact denSF_sum Ms hw (fun M hM =>
      denSF_of_realTyped M (hr M hM) (wf_members hw'.1.2 M hM) (dtype_members hd M hM))
  | kron Ms, hr, hw, hd => by
    simp only [RealTyped] at hr
    simp only [Op.dtype] at hd
    simp only [Op.wf, Bool.and_eq_true] at hw
    exact denSF_kron Ms (fun M hM =>
      denSF_of_realTyped M (hr M hM) (wf_members hw.2 M hM) (dtype_members hd M hM))
  | kronsum Ms, hr, hw, hd => by
    simp only [RealTyped] at hr
    simp only [Op.dtype] at hd
    simp only [Op.wf, Bool.and_eq_true] at hw
    exact denSF_kronsum Ms (fun M hM =>
      denSF_of_realTyped M (hr M hM) (wf_members hw.1.2 M hM) (dtype_members hd M hM))
  | bdiag Ms mults, hr, hw, hd => by
    simp only [RealTyped] at hr
    simp only [Op.dtype] at hd
    simp only [Op.wf, Bool.and_eq_true] at hw
    exact denSF_bdiag Ms mults (fun M hM =>
      denSF_of_realTyped M (hr M hM) (wf_members hw.1.2 M hM) (dtype_members hd M hM))
  | diag dt n d, hr, _, hd => by
    simp only [RealTyped] at hr
    simp only [Op.dtype] at hd
    intro i j hi _
    simp only [Op.rows] at hi
    simp only [Op.den, MatV.of_f, diagM]
    split
    · exact hr hd i hi
    · exact star_zero _
  | tridiag dt n al be ga, hr, _, hd => by
    simp only [RealTyped] at hr
    simp only [Op.dtype] at hd
    obtain ⟨hb, hag⟩ := hr hd
    intro i j hi hj
    simp only [Op.rows] at hi
    simp only [Op.cols] at hj
    simp only [Op.den, MatV.of_f, tridiagDen]
    split
    · exact hb i hi
    · split
      · exact (hag j (by omega)).1
      · split
        · exact (hag i (by omega)).2
        · exact star_zero _
  | transpose A, hr, hw, hd => by
    simp only [RealTyped] at hr
    simp only [Op.dtype] at hd
    simp only [Op.wf] at hw
    exact denSF_transpose A (denSF_of_realTyped A hr hw hd)
  | adjoint A, hr, hw, hd => by
    simp only [RealTyped] at hr
    simp only [Op.dtype] at hd
    simp only [Op.wf] at hw
    exact denSF_adjoint A (denSF_of_realTyped A hr hw hd)
  | sliced A s0 s1, hr, hw, hd => by
    simp only [RealTyped] at hr
    simp only [Op.dtype] at hd
    simp only [Op.wf, Bool.and_eq_true] at hw
    exact denSF_sliced A s0 s1 (denSF_of_realTyped A hr hw.1.1 hd)
  | perm dt p, _, _, _ => by
    intro i j _ _
    simp only [Op.den, MatV.of_f, permDen]
    split <;> simp
  | concat true Ms, hr, hw, hd => by
    simp only [RealTyped] at hr
    simp only [Op.dtype] at hd
    have hw' := hw
    simp only [Op.wf, Bool.and_eq_true] at hw'
    exact denSF_concat_h Ms hw (fun M hM =>
      denSF_of_realTyped M (hr M hM) (wf_members hw'.1.2 M hM) (dtype_members hd M hM))
  | concat false Ms, hr, hw, hd => by
    simp only [RealTyped] at hr
    simp only [Op.dtype] at hd
    have hw' := hw
    simp only [Op.wf, Bool.and_eq_true] at hw'
    exact denSF_concat_v Ms hw (fun M hM =>
      denSF_of_realTyped M (hr M hM) (wf_members hw'.1.2 M hM) (dtype_members hd M hM))
  | house dt n v beta, hr, _, hd => by
    simp only [RealTyped] at hr
    simp only [Op.dtype] at hd
    obtain ⟨hb, hv⟩ := hr hd
    intro i j hi hj
    simp only [Op.rows] at hi
    simp only [Op.cols] at hj
    simp only [Op.den, MatV.of_f, houseDen]
    rw [star_sub, star_mul', star_mul', star_star, hb, hv i hi, hv j hj]
    congr 1
    split <;> simp
  | generic A, hr, hw, hd => by
    simp only [RealTyped] at hr
    simp only [Op.dtype] at hd
    simp only [Op.wf] at hw
    have := denSF_of_realTyped A hr hw hd
    unfold DenSF at this ⊢
    simp only [Op.rows, Op.cols, Op.den]
    exact this
  | annot a A, hr, hw, hd => by
    simp only [RealTyped] at hr
    simp only [Op.dtype] at hd
    simp only [Op.wf] at hw
    have := denSF_of_realTyped A hr hw hd
    unfold DenSF at this ⊢
    simp only [Op.rows, Op.cols, Op.den]
    exact this
termination_by A => sizeOf A

omit [DecidableEq R] in
/-- **star-fixed lemma**: a `RealTyped`, well-formed operator whose dtype is not complex has a
`star`-fixed represented matrix on its window (all 20 kinds). -/
theorem den_star_fixed (A : Op R) (hr : A.RealTyped) (hwf : A.wf = true)
    (hd : ¬ A.dtype.isComplex = true) :
    ∀ i j, i < A.rows → j < A.cols → star (A.den.f i j) = A.den.f i j :=
  denSF_of_realTyped A hr hwf (by simpa using hd)


/-! ## `core`: the operator below its annotation wrappers -/

/-- what `A.core` shares with `A` -/
structure CoreRel (A C : Op R) : Prop where
  rows : C.rows = A.rows
  cols : C.cols = A.cols
  den : C.den = A.den
  wf : C.wf = A.wf
  nd : C.dupSlice = A.dupSlice
  herm : A.HermOK → C.HermOK
  real : A.RealTyped → C.RealTyped
  notAnnot : ∀ a B, C ≠ annot a B

theorem CoreRel.refl (A : Op R) (h : ∀ a B, A ≠ annot a B) : CoreRel A A :=
  ⟨rfl, rfl, rfl, rfl, rfl, id, id, h⟩

theorem coreRel : ∀ (A : Op R), CoreRel A A.core
  | annot a A => by
    have ih := coreRel A
    refine ⟨?_, ?_, ?_, ?_, ?_, ?_, ?_, ih.notAnnot⟩
    · simp only [core, Op.rows]; exact ih.rows
    · simp only [core, Op.cols]; exact ih.cols
    · simp only [core, Op.den]; exact ih.den
    · simp only [core, Op.wf]; exact ih.wf
    · simp only [core, Op.dupSlice]; exact ih.nd
    · intro h; simp only [HermOK] at h; exact ih.herm h.2
    · intro h; simp only [RealTyped] at h; exact ih.real h
  | dense .. => CoreRel.refl _ (by intro a B e; cases e)
  | tri .. => CoreRel.refl _ (by intro a B e; cases e)
  | sparse .. => CoreRel.refl _ (by intro a B e; cases e)
  | scalar .. => CoreRel.refl _ (by intro a B e; cases e)
  | eye .. => CoreRel.refl _ (by intro a B e; cases e)
  | prod .. => CoreRel.refl _ (by intro a B e; cases e)
  | sum .. => CoreRel.refl _ (by intro a B e; cases e)
  | kron .. => CoreRel.refl _ (by intro a B e; cases e)
  | kronsum .. => CoreRel.refl _ (by intro a B e; cases e)
  | bdiag .. => CoreRel.refl _ (by intro a B e; cases e)
  | diag .. => CoreRel.refl _ (by intro a B e; cases e)
  | tridiag .. => CoreRel.refl _ (by intro a B e; cases e)
  | transpose .. => CoreRel.refl _ (by intro a B e; cases e)
  | adjoint .. => CoreRel.refl _ (by intro a B e; cases e)
  | sliced .. => CoreRel.refl _ (by intro a B e; cases e)
  | perm .. => CoreRel.refl _ (by intro a B e; cases e)
  | concat .. => CoreRel.refl _ (by intro a B e; cases e)
  | house .. => CoreRel.refl _ (by intro a B e; cases e)
  | generic .. => CoreRel.refl _ (by intro a B e; cases e)

theorem CoreRel.good {A C : Op R} (h : CoreRel A C) (hg : Good A) : Good C :=
  ⟨h.wf.trans hg.wf, h.nd.trans hg.nd, h.herm hg.herm⟩

/-! ## specification of one `.T` / `.H` step -/

/-- `B` is a correct result of applying the entry map `D` (`transposeM`, or conjugate transpose)
to `A`: shape, represented matrix, and the side conditions needed to go on. -/
structure TSpec (D : MatF R → MatF R) (A B : Op R) : Prop where
  rows : B.rows = A.cols
  cols : B.cols = A.rows
  den : EqOn A.cols A.rows B.den.f (D A.den.f)
  wf : B.wf = true
  nd : B.dupSlice = false
  herm : B.HermOK
  real : B.RealTyped

theorem TSpec.good {D : MatF R → MatF R} {A B : Op R} (h : TSpec D A B) : Good B :=
  ⟨h.wf, h.nd, h.herm⟩

theorem TSpec.of_core {D : MatF R → MatF R} {A C B : Op R} (hc : CoreRel A C)
    (h : TSpec D C B) : TSpec D A B := by
  obtain ⟨h1, h2, h3, h4, h5, h6, h7⟩ := h
  rw [hc.rows, hc.cols, hc.den] at *
  exact ⟨h1, h2, h3, h4, h5, h6, h7⟩

/-- the conjugate transpose as an entry map -/
def ctM (M : MatF R) : MatF R := conjM (transposeM M)

theorem hermNode_of_no_anns (A : Op R) (h : A.anns = []) : HermNode A := by
  intro hsa
  simp [isa, h, AnnSet.isa] at hsa

omit [CommRing R] [StarRing R] in
theorem anns_dense (dt : DType) (r c : Nat) (a : MatF R) : (dense dt r c a).anns = [] := by
  rw [Op.anns] <;> intros <;> simp_all
omit [CommRing R] [StarRing R] in
theorem anns_tri (dt : DType) (r c : Nat) (l : Bool) (a : MatF R) :
    (tri dt r c l a).anns = [] := by
  rw [Op.anns] <;> intros <;> simp_all
omit [CommRing R] [StarRing R] in
theorem anns_sparse (dt : DType) (r c : Nat) (e : List (Nat × Nat × R)) :
    (sparse dt r c e).anns = [] := by
  rw [Op.anns] <;> intros <;> simp_all


/-! ## the branches of `transposeRule` -/

theorem tspec_T_transpose (B : Op R) (hg : Good (transpose B)) (hr : (transpose B).RealTyped) :
    TSpec transposeM (transpose B) B := by
  have hb := hg.transpose_child
  simp only [RealTyped] at hr
  refine ⟨by simp only [Op.cols], by simp only [Op.rows], ?_, hb.wf, hb.nd, hb.herm, hr⟩
  intro i j _ _
  simp only [Op.den, MatV.of_f, transposeM]

theorem tspec_T_dense (dt : DType) (r c : Nat) (a : MatF R) (hr : (dense dt r c a).RealTyped) :
    TSpec transposeM (dense dt r c a) (dense dt c r (transposeM a)) := by
  refine ⟨by simp only [Op.rows, Op.cols], by simp only [Op.rows, Op.cols], ?_,
    by simp only [Op.wf], by simp only [Op.dupSlice], ?_, ?_⟩
  · intro i j _ _; simp only [Op.den, MatV.of_f]
  · simp only [HermOK]; exact hermNode_of_no_anns _ (anns_dense ..)
  · simp only [RealTyped] at hr ⊢
    intro hd i j hi hj
    exact hr hd j i hj hi

theorem tspec_T_tri (dt : DType) (r c : Nat) (l : Bool) (a : MatF R)
    (hr : (tri dt r c l a).RealTyped) :
    TSpec transposeM (tri dt r c l a) (tri dt c r (!l) (transposeM a)) := by
  refine ⟨by simp only [Op.rows, Op.cols], by simp only [Op.rows, Op.cols], ?_,
    by simp only [Op.wf], by simp only [Op.dupSlice], ?_, ?_⟩
  · intro i j _ _; simp only [Op.den, MatV.of_f]
  · simp only [HermOK]; exact hermNode_of_no_anns _ (anns_tri ..)
  · simp only [RealTyped] at hr ⊢
    intro hd i j hi hj
    exact hr hd j i hj hi

omit [StarRing R] [DecidableEq R] in
theorem sparseDen_swap (e : List (Nat × Nat × R)) (i j : Nat) :
    sparseDen (e.map fun t => (t.2.1, t.1, t.2.2)) i j = sparseDen e j i := by
  simp only [sparseDen, List.map_map]
  congr 1
  apply List.map_congr_left
  intro t _
  simp only [Function.comp_apply, and_comm]

omit [CommRing R] [StarRing R] [DecidableEq R] in
theorem sparse_swap_wf (dt : DType) (r c : Nat) (e : List (Nat × Nat × R))
    (h : (sparse dt r c e).wf = true) :
    (sparse dt c r (e.map fun t => (t.2.1, t.1, t.2.2))).wf = true := by
  simp only [Op.wf, Bool.and_eq_true, List.all_eq_true, decide_eq_true_eq, List.map_map] at h ⊢
  obtain ⟨h1, h2⟩ := h
  constructor
  · intro t ht
    obtain ⟨u, hu, rfl⟩ := List.mem_map.mp ht
    have := h1 u hu
    exact ⟨this.2, this.1⟩
  · have e1 : ((fun (t : Nat × Nat × R) => (t.1, t.2.1)) ∘ fun t => (t.2.1, t.1, t.2.2))
        = Prod.swap ∘ (fun (t : Nat × Nat × R) => (t.1, t.2.1)) := by
      funext t; rfl
    rw [e1, ← List.map_map]
    exact h2.map Prod.swap_injective

theorem tspec_T_sparse (dt : DType) (r c : Nat) (e : List (Nat × Nat × R))
    (hw : (sparse dt r c e).wf = true) (hr : (sparse dt r c e).RealTyped) :
    TSpec transposeM (sparse dt r c e) (sparse dt c r (e.map fun t => (t.2.1, t.1, t.2.2))) := by
  refine ⟨by simp only [Op.rows, Op.cols], by simp only [Op.rows, Op.cols], ?_,
    sparse_swap_wf dt r c e hw, by simp only [Op.dupSlice], ?_, ?_⟩
  · intro i j _ _
    simp only [Op.den, forceV_f, transposeM]
    exact sparseDen_swap e i j
  · simp only [HermOK]; exact hermNode_of_no_anns _ (anns_sparse ..)
  · simp only [RealTyped] at hr ⊢
    intro hd t ht
    obtain ⟨u, hu, rfl⟩ := List.mem_map.mp ht
    exact hr hd u hu

omit [CommRing R] [StarRing R] [DecidableEq R] in
theorem isa_of_isa_diff (s t : AnnSet) (a : Ann) (h : AnnSet.isa (AnnSet.diff s t) a = true) :
    AnnSet.isa s a = true := by
  simp only [AnnSet.isa, AnnSet.diff, List.any_eq_true, List.mem_filter] at h ⊢
  obtain ⟨x, ⟨hx, _⟩, hs⟩ := h
  exact ⟨x, hx, hs⟩

omit [CommRing R] [StarRing R] in
theorem isa_transpose (A : Op R) (a : Ann) (h : (transpose A).isa a = true) :
    A.isa a = true := by
  simp only [isa] at h ⊢
  rw [Op.anns] at h
  split at h
  · exact h
  · exact isa_of_isa_diff _ _ _ h

omit [CommRing R] [StarRing R] in
theorem isa_adjoint (A : Op R) (a : Ann) (h : (adjoint A).isa a = true) :
    A.isa a = true := by
  simp only [isa] at h ⊢
  rw [Op.anns] at h
  split at h
  · exact h
  · exact isa_of_isa_diff _ _ _ h

/-- `Aᵀ` is Hermitian if `A` is -/
theorem hermNode_transpose (A : Op R) (h : HermNode A) : HermNode (transpose A) := by
  intro hsa
  obtain ⟨hsq, hH⟩ := h (isa_transpose A _ hsa)
  simp only [Op.rows, Op.cols, Op.den, MatV.of_f, transposeM]
  refine ⟨hsq.symm, fun i j hi hj => ?_⟩
  rw [← hsq] at hi hj
  exact hH j i hj hi

/-- `Aᴴ` is Hermitian if `A` is -/
theorem hermNode_adjoint (A : Op R) (h : HermNode A) : HermNode (adjoint A) := by
  intro hsa
  obtain ⟨hsq, hH⟩ := h (isa_adjoint A _ hsa)
  simp only [Op.rows, Op.cols, Op.den, MatV.of_f, transposeM, conjM]
  refine ⟨hsq.symm, fun i j hi hj => ?_⟩
  rw [← hsq] at hi hj
  exact congrArg star (hH j i hj hi)

theorem tspec_T_fallback (A : Op R) (hg : Good A) (hr : A.RealTyped) :
    TSpec transposeM A
      (if (A.isa .selfAdjoint && !A.dtype.isComplex) = true then A else transpose A) := by
  by_cases h : (A.isa .selfAdjoint && !A.dtype.isComplex) = true
  · rw [if_pos h]
    simp only [Bool.and_eq_true, Bool.not_eq_true'] at h
    obtain ⟨hsq, hH⟩ := hg.herm.node h.1
    have hsf := denSF_of_realTyped A hr hg.wf h.2
    refine ⟨hsq, hsq.symm, ?_, hg.wf, hg.nd, hg.herm, hr⟩
    intro i j hi hj
    rw [← hsq] at hi
    simp only [transposeM]
    rw [hH i j hi hj]
    exact hsf j i hj (by rw [← hsq]; exact hi)
  · rw [if_neg h]
    refine ⟨by simp only [Op.rows], by simp only [Op.cols], ?_, by simp only [Op.wf]; exact hg.wf,
      by simp only [Op.dupSlice]; exact hg.nd, ?_, by simp only [RealTyped]; exact hr⟩
    · intro i j _ _; simp only [Op.den, MatV.of_f]
    · simp only [HermOK]; exact ⟨hermNode_transpose A hg.herm.node, hg.herm⟩

/-- **`A.T`**: shape, represented matrix and side conditions of `transposeRule A`. -/
theorem transposeRule_spec (A : Op R) (hg : Good A) (hr : A.RealTyped) :
    TSpec transposeM A A.transposeRule := by
  have hc := coreRel A
  have hgc := hc.good hg
  have hrc := hc.real hr
  unfold transposeRule
  generalize A.core = C at hc hgc hrc
  cases C with
  | transpose B => exact TSpec.of_core hc (tspec_T_transpose B hgc hrc)
  | dense dt r c a => exact TSpec.of_core hc (tspec_T_dense dt r c a hrc)
  | tri dt r c l a => exact TSpec.of_core hc (tspec_T_tri dt r c l a hrc)
  | sparse dt r c e => exact TSpec.of_core hc (tspec_T_sparse dt r c e hgc.wf hrc)
  | annot a B => exact absurd rfl (hc.notAnnot a B)
  | _ => exact tspec_T_fallback A hg hr

/-! ## the branches of `adjointRule` -/

theorem tspec_H_adjoint (B : Op R) (hg : Good (adjoint B)) (hr : (adjoint B).RealTyped) :
    TSpec ctM (adjoint B) B := by
  have hb := hg.adjoint_child
  simp only [RealTyped] at hr
  refine ⟨by simp only [Op.cols], by simp only [Op.rows], ?_, hb.wf, hb.nd, hb.herm, hr⟩
  intro i j _ _
  simp only [Op.den, MatV.of_f, ctM, transposeM, conjM, star_star]

theorem tspec_H_dense (dt : DType) (r c : Nat) (a : MatF R) (hr : (dense dt r c a).RealTyped) :
    TSpec ctM (dense dt r c a) (dense dt c r (conjM (transposeM a))) := by
  refine ⟨by simp only [Op.rows, Op.cols], by simp only [Op.rows, Op.cols], ?_,
    by simp only [Op.wf], by simp only [Op.dupSlice], ?_, ?_⟩
  · intro i j _ _; simp only [Op.den, MatV.of_f, ctM]
  · simp only [HermOK]; exact hermNode_of_no_anns _ (anns_dense ..)
  · simp only [RealTyped] at hr ⊢
    intro hd i j hi hj
    simp only [conjM, transposeM]
    rw [hr hd j i hj hi, hr hd j i hj hi]

theorem tspec_H_tri (dt : DType) (r c : Nat) (l : Bool) (a : MatF R)
    (hr : (tri dt r c l a).RealTyped) :
    TSpec ctM (tri dt r c l a) (tri dt c r (!l) (conjM (transposeM a))) := by
  refine ⟨by simp only [Op.rows, Op.cols], by simp only [Op.rows, Op.cols], ?_,
    by simp only [Op.wf], by simp only [Op.dupSlice], ?_, ?_⟩
  · intro i j _ _; simp only [Op.den, MatV.of_f, ctM]
  · simp only [HermOK]; exact hermNode_of_no_anns _ (anns_tri ..)
  · simp only [RealTyped] at hr ⊢
    intro hd i j hi hj
    simp only [conjM, transposeM]
    rw [hr hd j i hj hi, hr hd j i hj hi]

theorem tspec_H_fallback (A : Op R) (hg : Good A) (hr : A.RealTyped) :
    TSpec ctM A (if A.isa .selfAdjoint = true then A else adjoint A) := by
  by_cases h : A.isa .selfAdjoint = true
  · rw [if_pos h]
    obtain ⟨hsq, hH⟩ := hg.herm.node h
    refine ⟨hsq, hsq.symm, ?_, hg.wf, hg.nd, hg.herm, hr⟩
    intro i j hi hj
    rw [← hsq] at hi
    simp only [ctM, conjM, transposeM]
    exact hH i j hi hj
  · rw [if_neg h]
    refine ⟨by simp only [Op.rows], by simp only [Op.cols], ?_, by simp only [Op.wf]; exact hg.wf,
      by simp only [Op.dupSlice]; exact hg.nd, ?_, by simp only [RealTyped]; exact hr⟩
    · intro i j _ _; simp only [Op.den, MatV.of_f, ctM]
    · simp only [HermOK]; exact ⟨hermNode_adjoint A hg.herm.node, hg.herm⟩

/-- **`A.H`**: shape, represented matrix and side conditions of `adjointRule A`.  (`RealTyped`
is only transported, it is not used for the represented matrix: see `adjointRule_den`.) -/
theorem adjointRule_spec (A : Op R) (hg : Good A) (hr : A.RealTyped) :
    TSpec ctM A A.adjointRule := by
  have hc := coreRel A
  have hgc := hc.good hg
  have hrc := hc.real hr
  unfold adjointRule
  generalize A.core = C at hc hgc hrc
  cases C with
  | adjoint B => exact TSpec.of_core hc (tspec_H_adjoint B hgc hrc)
  | dense dt r c a => exact TSpec.of_core hc (tspec_H_dense dt r c a hrc)
  | tri dt r c l a => exact TSpec.of_core hc (tspec_H_tri dt r c l a hrc)
  | annot a B => exact absurd rfl (hc.notAnnot a B)
  | _ => exact tspec_H_fallback A hg hr


/-! ## one step, unbundled -/

/-- the represented matrix of `A.T` (no `dupSlice` hypothesis needed) -/
theorem transposeRule_den (A : Op R) (hwf : A.wf = true) (hh : A.HermOK) (hr : A.RealTyped) :
    EqOn A.cols A.rows A.transposeRule.den.f (transposeM A.den.f) := by
  have hc := coreRel A
  unfold transposeRule
  generalize A.core = C at hc
  have fb : EqOn A.cols A.rows
      (if (A.isa .selfAdjoint && !A.dtype.isComplex) = true then A else transpose A).den.f
      (transposeM A.den.f) := by
    by_cases h : (A.isa .selfAdjoint && !A.dtype.isComplex) = true
    · rw [if_pos h]
      simp only [Bool.and_eq_true, Bool.not_eq_true'] at h
      obtain ⟨hsq, hH⟩ := hh.node h.1
      have hsf := denSF_of_realTyped A hr hwf h.2
      intro i j hi hj
      rw [← hsq] at hi
      simp only [transposeM]
      rw [hH i j hi hj]
      exact hsf j i hj (by rw [← hsq]; exact hi)
    · rw [if_neg h]
      intro i j _ _; simp only [Op.den, MatV.of_f]
  cases C with
  | transpose B =>
    rw [← hc.den]
    intro i j _ _
    simp only [Op.den, MatV.of_f, transposeM]
  | dense dt r c a =>
    rw [← hc.den]
    intro i j _ _; simp only [Op.den, MatV.of_f]
  | tri dt r c l a =>
    rw [← hc.den]
    intro i j _ _; simp only [Op.den, MatV.of_f]
  | sparse dt r c e =>
    rw [← hc.den]
    intro i j _ _
    simp only [Op.den, forceV_f, transposeM]
    exact sparseDen_swap e i j
  | annot a B => exact absurd rfl (hc.notAnnot a B)
  | _ => exact fb

/-- the side conditions that `adjointRule_spec` only transports are not needed for the matrix -/
theorem adjointRule_den (A : Op R) (hh : A.HermOK) :
    EqOn A.cols A.rows A.adjointRule.den.f (conjM (transposeM A.den.f)) := by
  have hc := coreRel A
  have hhc := hc.herm hh
  unfold adjointRule
  generalize A.core = C at hc hhc
  have fb : EqOn A.cols A.rows (if A.isa .selfAdjoint = true then A else adjoint A).den.f
      (conjM (transposeM A.den.f)) := by
    by_cases h : A.isa .selfAdjoint = true
    · rw [if_pos h]
      obtain ⟨hsq, hH⟩ := hh.node h
      intro i j hi hj
      rw [← hsq] at hi
      simp only [conjM, transposeM]
      exact hH i j hi hj
    · rw [if_neg h]
      intro i j _ _; simp only [Op.den, MatV.of_f]
  cases C with
  | adjoint B =>
    rw [← hc.den, ← hc.rows, ← hc.cols]
    intro i j _ _
    simp only [Op.den, MatV.of_f, transposeM, conjM, star_star]
  | dense dt r c a =>
    rw [← hc.den]
    intro i j _ _; simp only [Op.den, MatV.of_f]
  | tri dt r c l a =>
    rw [← hc.den]
    intro i j _ _; simp only [Op.den, MatV.of_f]
  | annot a B => exact absurd rfl (hc.notAnnot a B)
  | _ => exact fb

/-- shape of `A.T`; only the squareness part of `HermOK` (at the root) is used -/
theorem transposeRule_shape (A : Op R) (hh : A.HermOK) :
    A.transposeRule.rows = A.cols ∧ A.transposeRule.cols = A.rows := by
  have hc := coreRel A
  unfold transposeRule
  generalize A.core = C at hc
  have fb : (if (A.isa .selfAdjoint && !A.dtype.isComplex) = true then A else transpose A).rows
        = A.cols ∧
      (if (A.isa .selfAdjoint && !A.dtype.isComplex) = true then A else transpose A).cols
        = A.rows := by
    by_cases h : (A.isa .selfAdjoint && !A.dtype.isComplex) = true
    · rw [if_pos h]
      simp only [Bool.and_eq_true] at h
      have hsq := (hh.node h.1).1
      exact ⟨hsq, hsq.symm⟩
    · rw [if_neg h]; simp only [Op.rows, Op.cols, and_self]
  have hr := hc.rows
  have hcc := hc.cols
  cases C with
  | transpose B => simp only [Op.rows, Op.cols] at hr hcc; exact ⟨hcc, hr⟩
  | dense dt r c a => simp only [Op.rows, Op.cols] at hr hcc ⊢; exact ⟨hcc, hr⟩
  | tri dt r c l a => simp only [Op.rows, Op.cols] at hr hcc ⊢; exact ⟨hcc, hr⟩
  | sparse dt r c e => simp only [Op.rows, Op.cols] at hr hcc ⊢; exact ⟨hcc, hr⟩
  | annot a B => exact absurd rfl (hc.notAnnot a B)
  | _ => exact fb

/-- shape of `A.H` -/
theorem adjointRule_shape (A : Op R) (hh : A.HermOK) :
    A.adjointRule.rows = A.cols ∧ A.adjointRule.cols = A.rows := by
  have hc := coreRel A
  unfold adjointRule
  generalize A.core = C at hc
  have fb : (if A.isa .selfAdjoint = true then A else adjoint A).rows = A.cols ∧
      (if A.isa .selfAdjoint = true then A else adjoint A).cols = A.rows := by
    by_cases h : A.isa .selfAdjoint = true
    · rw [if_pos h]
      have hsq := (hh.node h).1
      exact ⟨hsq, hsq.symm⟩
    · rw [if_neg h]; simp only [Op.rows, Op.cols, and_self]
  have hr := hc.rows
  have hcc := hc.cols
  cases C with
  | adjoint B => simp only [Op.rows, Op.cols] at hr hcc; exact ⟨hcc, hr⟩
  | dense dt r c a => simp only [Op.rows, Op.cols] at hr hcc ⊢; exact ⟨hcc, hr⟩
  | tri dt r c l a => simp only [Op.rows, Op.cols] at hr hcc ⊢; exact ⟨hcc, hr⟩
  | annot a B => exact absurd rfl (hc.notAnnot a B)
  | _ => exact fb

/-! ## towers -/

theorem tower_spec : ∀ (tw : List Bool) (A : Op R) (D : MatF R), Good A → A.RealTyped →
    EqOn A.rows A.cols A.den.f D →
    Good (A.tower tw) ∧ (A.tower tw).RealTyped ∧
      EqOn (A.tower tw).rows (A.tower tw).cols (A.tower tw).den.f (towerDen D tw)
  | [], A, D, hg, hr, hD => ⟨hg, hr, hD⟩
  | true :: ts, A, D, hg, hr, hD => by
    have sp := transposeRule_spec A hg hr
    simp only [tower, towerDen, if_true]
    refine tower_spec ts A.transposeRule (transposeM D) sp.good sp.real ?_
    rw [sp.rows, sp.cols]
    exact sp.den.trans (fun i j hi hj => hD j i hj hi)
  | false :: ts, A, D, hg, hr, hD => by
    have sp := adjointRule_spec A hg hr
    simp only [tower, towerDen, Bool.false_eq_true, if_false]
    refine tower_spec ts A.adjointRule (conjM (transposeM D)) sp.good sp.real ?_
    rw [sp.rows, sp.cols]
    exact sp.den.trans (fun i j hi hj => congrArg star (hD j i hj hi))

theorem tower_shape : ∀ (tw : List Bool) (A : Op R), Good A → A.RealTyped →
    (A.tower tw).rows = (if tw.length % 2 = 0 then A.rows else A.cols) ∧
      (A.tower tw).cols = (if tw.length % 2 = 0 then A.cols else A.rows)
  | [], A, _, _ => by simp [tower]
  | true :: ts, A, hg, hr => by
    have sp := transposeRule_spec A hg hr
    have ih := tower_shape ts A.transposeRule sp.good sp.real
    simp only [tower, if_true, List.length_cons]
    rw [ih.1, ih.2, sp.rows, sp.cols]
    constructor <;> split_ifs <;> first | rfl | omega
  | false :: ts, A, hg, hr => by
    have sp := adjointRule_spec A hg hr
    have ih := tower_shape ts A.adjointRule sp.good sp.real
    simp only [tower, Bool.false_eq_true, if_false, List.length_cons]
    rw [ih.1, ih.2, sp.rows, sp.cols]
    constructor <;> split_ifs <;> first | rfl | omega

/-- `A.T.H.….to_dense()` is the tower of transposes / conjugate transposes of `den A` -/
theorem tower_td (tw : List Bool) (A : Op R) (hwf : A.wf = true) (hnd : A.dupSlice = false)
    (hh : A.HermOK) (hr : A.RealTyped) :
    EqOn (A.tower tw).rows (A.tower tw).cols (A.tower tw).td.f (towerDen A.den.f tw) := by
  obtain ⟨hg, _, hd⟩ := tower_spec tw A A.den.f ⟨hwf, hnd, hh⟩ hr (EqOn.refl _ _ _)
  exact (td_eq _ hg.wf hg.nd hg.herm).trans hd

end Op
#print axioms Op.tower_td
#print axioms Op.den_star_fixed
