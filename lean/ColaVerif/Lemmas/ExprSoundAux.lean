import ColaVerif.Model.Expr
import ColaVerif.Lemmas.OpMatmat
import ColaVerif.Lemmas.OpAlgebra

/-!
# Helper lemmas for C03 (operator algebra): how the represented matrix of a flattened
`Product` / `Sum` / `Kronecker` / `KronSum` / `BlockDiag` node relates to the represented
matrices of the two operands

No reference to `Ex` / `eval` here; everything is about `Op.den` of the nodes the rewriting rules
of `cola/fns.py` build.
-/

open Finset

set_option linter.unusedSectionVars false

namespace ExprSound
open Op
variable {R : Type}

/-! ## shape chains of `Product` -/

theorem chainOk_append : ∀ (l1 l2 : List (Nat × Nat)), chainOk l1 = true → chainOk l2 = true →
    (∀ a ∈ l1.getLast?, ∀ b ∈ l2.head?, a.2 = b.1) → chainOk (l1 ++ l2) = true
  | [], _, _, h2, _ => h2
  | [_], [], _, _, _ => by simp [chainOk]
  | [a], b :: l2, _, h2, h => by
    have := h a (by simp) b (by simp)
    simp only [List.cons_append, List.nil_append, chainOk, Bool.and_eq_true, beq_iff_eq]
    exact ⟨this, h2⟩
  | a :: b :: l1, l2, h1, h2, h => by
    simp only [chainOk, Bool.and_eq_true, beq_iff_eq] at h1
    have ih := chainOk_append (b :: l1) l2 h1.2 h2 (by
      intro x hx y hy
      exact h x (by simpa [List.getLast?_cons_cons] using hx) y hy)
    simp only [List.cons_append, chainOk, Bool.and_eq_true, beq_iff_eq] at ih ⊢
    exact ⟨h1.1, ih⟩

/-! ## flattened Kronecker products and Kronecker sums -/

theorem unravel_append : ∀ (s1 s2 : List Nat) (I : Nat), I < s1.prod * s2.prod →
    unravel (s1 ++ s2) I = unravel s1 (I / s2.prod) ++ unravel s2 (I % s2.prod)
  | [], s2, I, h => by
    simp only [List.prod_nil, Nat.one_mul] at h
    simp [unravel, Nat.mod_eq_of_lt h]
  | s :: s1, s2, I, h => by
    have hpos : 0 < s1.prod * s2.prod := by
      rcases Nat.eq_zero_or_pos (s1.prod * s2.prod) with h0 | h0
      · simp only [List.prod_cons, Nat.mul_assoc, h0, Nat.mul_zero] at h; omega
      · exact h0
    have ih := unravel_append s1 s2 (I % (s1.prod * s2.prod)) (Nat.mod_lt _ hpos)
    simp only [List.cons_append, unravel, List.prod_append]
    rw [ih, Nat.mod_mul_left_div_self, Nat.mod_mul_left_mod, Nat.div_div_eq_div_mul,
      Nat.mul_comm s2.prod]

theorem kronEntry_append [CommSemiring R] (L2 : List (FacAct R)) (is2 js2 : List Nat) :
    ∀ (L1 : List (FacAct R)) (is js : List Nat), is.length = L1.length → js.length = L1.length →
      kronEntry (L1 ++ L2) (is ++ is2) (js ++ js2) = kronEntry L1 is js * kronEntry L2 is2 js2
  | [], [], [], _, _ => by simp [kronEntry]
  | P :: Ps, a :: is, c :: js, h1, h2 => by
    simp only [List.cons_append, kronEntry]
    rw [kronEntry_append L2 is2 js2 Ps is js (by simpa using h1) (by simpa using h2), mul_assoc]
  | [], _ :: _, _, h1, _ => by simp at h1
  | [], [], _ :: _, _, h2 => by simp at h2
  | _ :: _, [], _, h1, _ => by simp at h1
  | _ :: _, _ :: _, [], _, h2 => by simp at h2

theorem kronSumEntry_append [CommSemiring R] (L2 : List (FacAct R)) (is2 js2 : List Nat) :
    ∀ (L1 : List (FacAct R)) (is js : List Nat), is.length = L1.length → js.length = L1.length →
      kronSumEntry (L1 ++ L2) (is ++ is2) (js ++ js2) =
        kronSumEntry L1 is js * (if is2 = js2 then 1 else 0) +
          (if is = js then 1 else 0) * kronSumEntry L2 is2 js2
  | [], [], [], _, _ => by simp [kronSumEntry]
  | P :: Ps, a :: is, c :: js, h1, h2 => by
    simp only [List.cons_append, kronSumEntry]
    rw [kronSumEntry_append L2 is2 js2 Ps is js (by simpa using h1) (by simpa using h2)]
    have hl : (is ++ is2 = js ++ js2) ↔ (is = js ∧ is2 = js2) := by
      constructor
      · intro h
        exact List.append_inj h (by simp at h1 h2; omega)
      · rintro ⟨rfl, rfl⟩; rfl
    by_cases hac : a = c <;> by_cases hij : is2 = js2 <;> by_cases hs : is = js <;>
      simp [hl, hac, hij, hs, add_assoc]
  | [], _ :: _, _, h1, _ => by simp at h1
  | [], [], _ :: _, _, h2 => by simp at h2
  | _ :: _, [], _, h1, _ => by simp at h1
  | _ :: _, _ :: _, [], _, h2 => by simp at h2

/-- `np.kron` of two flattened factor lists -/
theorem kronDen_append [CommSemiring R] (L1 L2 : List (FacAct R)) (I J : Nat)
    (hI : I < (L1.map (·.r)).prod * (L2.map (·.r)).prod)
    (hJ : J < (L1.map (·.c)).prod * (L2.map (·.c)).prod) :
    kronDen (L1 ++ L2) I J =
      kron2 (L2.map (·.r)).prod (L2.map (·.c)).prod (kronDen L1) (kronDen L2) I J := by
  simp only [kronDen, kron2, List.map_append]
  rw [unravel_append _ _ _ hI, unravel_append _ _ _ hJ]
  exact kronEntry_append L2 _ _ L1 _ _ (by simp [unravel_length]) (by simp [unravel_length])

theorem kronSumDen_append [CommSemiring R] (L1 L2 : List (FacAct R))
    (hsq : ∀ P ∈ L1 ++ L2, P.r = P.c) (I J : Nat)
    (hI : I < (L1.map (·.r)).prod * (L2.map (·.r)).prod)
    (hJ : J < (L1.map (·.c)).prod * (L2.map (·.c)).prod) :
    kronSumDen (L1 ++ L2) I J =
      addM (kron2 (L2.map (·.r)).prod (L2.map (·.c)).prod (kronSumDen L1) eyeM)
        (kron2 (L2.map (·.r)).prod (L2.map (·.c)).prod eyeM (kronSumDen L2)) I J := by
  have hsq1 : ∀ P ∈ L1, P.r = P.c := fun P h => hsq P (by simp [h])
  have hsq2 : ∀ P ∈ L2, P.r = P.c := fun P h => hsq P (by simp [h])
  have e1 := map_r_eq_c L1 hsq1
  have e2 := map_r_eq_c L2 hsq2
  have hpos : 0 < (L2.map (·.r)).prod := by
    rcases Nat.eq_zero_or_pos (L2.map (·.r)).prod with h0 | h0
    · rw [h0] at hI; simp at hI
    · exact h0
  have hI1 : I / (L2.map (·.r)).prod < (L1.map (·.r)).prod :=
    Nat.div_lt_of_lt_mul (by rwa [Nat.mul_comm] at hI)
  have hJ1 : J / (L2.map (·.r)).prod < (L1.map (·.r)).prod := by
    rw [e1, e2]; rw [Nat.mul_comm] at hJ; exact Nat.div_lt_of_lt_mul hJ
  simp only [kronSumDen, kron2, addM, eyeM, List.map_append]
  rw [unravel_append _ _ _ hI, unravel_append _ _ _ hJ]
  rw [kronSumEntry_append L2 _ _ L1 _ _ (by simp [unravel_length]) (by simp [unravel_length])]
  rw [← e1, ← e2]
  rw [← e1, ← e2] at hJ
  have hd1 := unravel_inj (L1.map (·.r)) _ _ hI1 hJ1
  have hd2 := unravel_inj (L2.map (·.r)) (I % (L2.map (·.r)).prod) (J % (L2.map (·.r)).prod)
    (Nat.mod_lt _ hpos) (Nat.mod_lt _ hpos)
  simp only [hd1, hd2]


/-! ## sums, block-diagonal assembly with multiplicity one, fused diagonal Kronecker factors -/

theorem foldr_addM_append [AddMonoid R] (l1 l2 : List (MatF R)) (i j : Nat) :
    (l1 ++ l2).foldr addM zeroM i j = addM (l1.foldr addM zeroM) (l2.foldr addM zeroM) i j := by
  simp only [addM, foldr_addM_apply, List.map_append, List.sum_append]

theorem expandBlocks_ones {α β : Type} (f : α → FacAct R) (g : β → α) : ∀ (vs : List β),
    expandBlocks (((vs.map g).map f).zip (vs.map fun _ => 1))
      = vs.map (fun v => ((f (g v)).r, (f (g v)).c, (f (g v)).a))
  | [] => by simp [expandBlocks]
  | v :: vs => by
    have ih := expandBlocks_ones f g vs
    simp only [List.map_cons, List.zip_cons_cons, expandBlocks_cons, ih]
    rfl

theorem dotSum_ones {β : Type} (h : β → Nat) : ∀ (vs : List β),
    Op.dotSum (vs.map h) (vs.map fun _ => 1) = (vs.map h).sum
  | [] => by simp [Op.dotSum]
  | v :: vs => by
    have ih := dotSum_ones h vs
    simp only [Op.dotSum] at ih
    simp only [Op.dotSum, List.map_cons, List.zip_cons_cons, List.sum_cons, ih, Nat.mul_one]

/-- `diag(d) ⊗ diag(e)` is the diagonal matrix of `(d[:, None] * e[None, :]).reshape(-1)` -/
theorem diagM_kron [MulZeroClass R] (n m : Nat) (d e : Nat → R) (I J : Nat)
    (hI : I < n * m) :
    diagM (fun t => d (t / m) * e (t % m)) I J = kron2 m m (diagM d) (diagM e) I J := by
  have hpos : 0 < m := by
    rcases Nat.eq_zero_or_pos m with h0 | h0
    · rw [h0] at hI; simp at hI
    · exact h0
  simp only [diagM, kron2]
  by_cases h : I = J
  · subst h; simp
  · rw [if_neg h]
    by_cases h1 : I / m = J / m
    · have h2 : I % m ≠ J % m := by
        intro h2
        apply h
        rw [← Nat.div_add_mod I m, ← Nat.div_add_mod J m, h1, h2]
      rw [if_neg h2, mul_zero]
    · rw [if_neg h1, zero_mul]

variable [CommRing R] [StarRing R] [DecidableEq R]

/-- rows of the first member / columns of the last member of a chain -/
def headRows (L : List (Op R)) : Nat := (L.map (·.rows)).head?.getD 0
def lastCols (L : List (Op R)) : Nat := (L.map (·.cols)).getLast?.getD 0
def shapes (L : List (Op R)) : List (Nat × Nat) := L.map (fun M => (M.rows, M.cols))

omit [CommRing R] [StarRing R] [DecidableEq R] in
theorem lastCols_cons_cons (M0 M1 : Op R) (Ms : List (Op R)) :
    lastCols (M0 :: M1 :: Ms) = lastCols (M1 :: Ms) := by
  simp [lastCols, List.getLast?_cons_cons]

omit [CommRing R] [StarRing R] [DecidableEq R] in
theorem lastCols_append (L1 : List (Op R)) (N : Op R) (L2 : List (Op R)) :
    lastCols (L1 ++ N :: L2) = lastCols (N :: L2) := by
  unfold lastCols
  rw [List.map_append, List.getLast?_append_of_ne_nil _ (by simp)]

omit [DecidableEq R] in
/-- the chain product of a concatenation is the product of the two chain products -/
theorem denChain_append (c : Nat) (L2 : List (Op R)) : ∀ (Ms : List (Op R)) (M0 : Op R),
    chainOk (shapes (M0 :: Ms)) = true →
    EqOn M0.rows c (denChain ((M0 :: Ms) ++ L2))
      (mmul (lastCols (M0 :: Ms)) (denChain (M0 :: Ms)) (denChain L2))
  | [], M0, _ => by
    simp only [List.cons_append, List.nil_append, denChain_cons, lastCols, List.map_cons,
      List.map_nil, List.getLast?_singleton, Option.getD_some]
    exact mmul_congr (eqOn_mmul_eyeM_right M0.rows M0.cols M0.den.f).symm (EqOn.refl _ _ _)
  | M1 :: Ms, M0, hc => by
    simp only [shapes, List.map_cons, chainOk, Bool.and_eq_true, beq_iff_eq] at hc
    have ih := denChain_append c L2 Ms M1 (by simpa [shapes] using hc.2)
    rw [← hc.1] at ih
    rw [lastCols_cons_cons]
    simp only [List.cons_append, denChain_cons] at ih ⊢
    refine (mmul_congr (EqOn.refl M0.rows M0.cols _) ih).trans ?_
    intro i j _ _
    exact (mmul_assoc' _ _ _ _ _ i j).symm



/-! ## `SelfAdjoint` reported by a `Sum` / `Kronecker` / `BlockDiag` node is true when it is true
of the members (needed to keep `HermOK` along the evaluation) -/

omit [CommRing R] [StarRing R] [DecidableEq R] in
theorem mem_foldl_inter {a : Ann} : ∀ (rest : List AnnSet) (s : AnnSet),
    a ∈ rest.foldl AnnSet.inter s ↔ a ∈ s ∧ ∀ t ∈ rest, a ∈ t
  | [], s => by simp
  | t :: rest, s => by
    rw [List.foldl_cons, mem_foldl_inter rest]
    simp [AnnSet.inter, and_assoc]

omit [CommRing R] [StarRing R] [DecidableEq R] in
theorem isa_interAll {α : Type} (L : List α) (f : α → AnnSet) (a : Ann)
    (h : AnnSet.isa (AnnSet.interAll (L.map f)) a = true) : ∀ x ∈ L, AnnSet.isa (f x) a = true := by
  intro x hx
  simp only [AnnSet.isa, List.any_eq_true] at h ⊢
  obtain ⟨y, hy, hs⟩ := h
  refine ⟨y, ?_, hs⟩
  cases L with
  | nil => cases hx
  | cons x0 rest =>
    simp only [List.map_cons, AnnSet.interAll] at hy
    rw [mem_foldl_inter] at hy
    rcases List.mem_cons.mp hx with rfl | hx
    · exact hy.1
    · exact hy.2 _ (List.mem_map.mpr ⟨x, hx, rfl⟩)

omit [StarRing R] in
theorem isa_sum_members (L : List (Op R)) (a : Ann) (h : (sum L).isa a = true) :
    ∀ M ∈ L, M.isa a = true := by
  simp only [isa, Op.anns] at h
  exact isa_interAll L (·.anns) a (isa_of_isa_diff _ _ _ h)

omit [StarRing R] in
theorem isa_kron_members (L : List (Op R)) (a : Ann) (h : (kron L).isa a = true) :
    ∀ M ∈ L, M.isa a = true := by
  simp only [isa, Op.anns] at h
  exact isa_interAll L (·.anns) a h

omit [StarRing R] in
theorem isa_bdiag_members (L : List (Op R)) (mults : List Nat) (a : Ann)
    (h : (bdiag L mults).isa a = true) : ∀ M ∈ L, M.isa a = true := by
  simp only [isa, Op.anns] at h
  exact isa_interAll L (·.anns) a h

theorem hermNode_sum (L : List (Op R)) (hwf : (sum L).wf = true) (h : ∀ M ∈ L, HermNode M) :
    HermNode (sum L) := by
  intro hsa
  have hm := isa_sum_members L _ hsa
  have hsh := sum_shapes L hwf
  have hne : L ≠ [] := by
    intro e; subst e; simp [Op.wf] at hwf
  obtain ⟨M0, hM0⟩ := List.exists_mem_of_ne_nil L hne
  have hsq : (sum L).rows = (sum L).cols := by
    rw [← (hsh M0 hM0).1, ← (hsh M0 hM0).2]
    exact (h M0 hM0 (hm M0 hM0)).1
  refine ⟨hsq, ?_⟩
  intro i j hi hj
  simp only [Op.den, forceV_f]
  rw [foldr_addM_apply, foldr_addM_apply, star_list_sum]
  simp only [List.map_map]
  congr 1
  apply List.map_congr_left
  intro M hM
  have hr := (hsh M hM).1
  simp only [Function.comp]
  exact (h M hM (hm M hM)).2 i j (by rw [hr]; exact hi) (by rw [hr]; exact hj)

omit [DecidableEq R] in
theorem kronDen_herm : ∀ (L : List (FacAct R)), (∀ F ∈ L, F.r = F.c) →
    (∀ F ∈ L, ∀ i j, i < F.r → j < F.r → F.a i j = star (F.a j i)) →
    ∀ I J, I < (L.map (·.r)).prod → J < (L.map (·.r)).prod →
      kronDen L I J = star (kronDen L J I)
  | [], _, _, I, J, _, _ => by simp [kronDen, kronEntry]
  | F :: L, hsq, hH, I, J, hI, hJ => by
    have e := map_r_eq_c L (fun P hP => hsq P (List.mem_cons_of_mem _ hP))
    simp only [List.map_cons, List.prod_cons] at hI hJ
    have hpos : 0 < (L.map (·.r)).prod := by
      rcases Nat.eq_zero_or_pos (L.map (·.r)).prod with h0 | h0
      · rw [h0] at hI; simp at hI
      · exact h0
    rw [kronDen_cons, kronDen_cons, ← e, star_mul']
    rw [kronDen_herm L (fun P hP => hsq P (List.mem_cons_of_mem _ hP))
      (fun P hP => hH P (List.mem_cons_of_mem _ hP)) _ _ (Nat.mod_lt _ hpos) (Nat.mod_lt _ hpos)]
    rw [hH F List.mem_cons_self _ _
      (Nat.div_lt_of_lt_mul (by rwa [Nat.mul_comm] at hI))
      (Nat.div_lt_of_lt_mul (by rwa [Nat.mul_comm] at hJ))]

theorem hermNode_kron (L : List (Op R)) (h : ∀ M ∈ L, HermNode M) : HermNode (kron L) := by
  intro hsa
  have hm := isa_kron_members L _ hsa
  have hsq : ∀ F ∈ L.map facDen, F.r = F.c := by
    intro F hF
    obtain ⟨M, hM, rfl⟩ := List.mem_map.mp hF
    exact (h M hM (hm M hM)).1
  have e := map_r_eq_c _ hsq
  rw [map_facDen_r, map_facDen_c] at e
  refine ⟨by simp only [Op.rows, Op.cols, e], ?_⟩
  intro I J hI hJ
  simp only [Op.rows] at hI hJ
  simp only [Op.den, forceV_f]
  refine kronDen_herm (L.map facDen) hsq ?_ I J (by rw [map_facDen_r]; exact hI)
    (by rw [map_facDen_r]; exact hJ)
  intro F hF
  obtain ⟨M, hM, rfl⟩ := List.mem_map.mp hF
  exact (h M hM (hm M hM)).2

omit [DecidableEq R] in
theorem blockDiagM_herm : ∀ (L : List (Nat × Nat × MatF R)), (∀ p ∈ L, p.1 = p.2.1) →
    (∀ p ∈ L, ∀ i j, i < p.1 → j < p.1 → p.2.2 i j = star (p.2.2 j i)) →
    ∀ I J, blockDiagM L I J = star (blockDiagM L J I)
  | [], _, _, _, _ => by simp [blockDiagM]
  | (r, c, m) :: L, hsq, hH, I, J => by
    have hrc : r = c := hsq (r, c, m) List.mem_cons_self
    subst hrc
    have ih := blockDiagM_herm L (fun p hp => hsq p (List.mem_cons_of_mem _ hp))
      (fun p hp => hH p (List.mem_cons_of_mem _ hp))
    simp only [blockDiagM]
    by_cases hI : I < r <;> by_cases hJ : J < r
    · simp only [hI, hJ, if_true]
      exact hH (r, r, m) List.mem_cons_self I J hI hJ
    · simp [hI, hJ]
    · simp [hI, hJ]
    · simp only [hI, hJ, if_false]
      exact ih _ _

omit [DecidableEq R] [StarRing R] in
theorem mem_expandBlocks {Ms : List (FacAct R × Nat)} {p : Nat × Nat × MatF R}
    (h : p ∈ expandBlocks Ms) : ∃ q ∈ Ms, p = (q.1.r, q.1.c, q.1.a) := by
  simp only [expandBlocks, List.mem_flatMap] at h
  obtain ⟨q, hq, hp⟩ := h
  exact ⟨q, hq, (List.mem_replicate.mp hp).2⟩

theorem hermNode_bdiag (L : List (Op R)) (mults : List Nat) (h : ∀ M ∈ L, HermNode M) :
    HermNode (bdiag L mults) := by
  intro hsa
  have hm := isa_bdiag_members L mults _ hsa
  have hrc : L.map (·.rows) = L.map (·.cols) :=
    List.map_congr_left (fun M hM => (h M hM (hm M hM)).1)
  refine ⟨by simp only [Op.rows, Op.cols, hrc], ?_⟩
  intro I J _ _
  simp only [Op.den, forceV_f, bdiagDen]
  apply blockDiagM_herm
  · intro p hp
    obtain ⟨q, hq, rfl⟩ := mem_expandBlocks hp
    obtain ⟨M, hM, hMe⟩ := List.mem_map.mp (List.of_mem_zip hq).1
    rw [← hMe]
    exact (h M hM (hm M hM)).1
  · intro p hp
    obtain ⟨q, hq, rfl⟩ := mem_expandBlocks hp
    obtain ⟨M, hM, hMe⟩ := List.mem_map.mp (List.of_mem_zip hq).1
    rw [← hMe]
    exact (h M hM (hm M hM)).2

end ExprSound
