import ColaVerif.Lemmas.ArnoldiKrylov
import ColaVerif.Lemmas.ArnoldiWitness

/-!
# Arnoldi reproduces a Hessenberg presentation (a tool for witnesses of any size)

If `A e_i = Σ_{l ≤ i} a l i e_l + β_i e_{i+1}` on an orthonormal family `e_0 … e_J` with `β_i ≥ tol/2` and the
start vector is a positive multiple of `e_0`, the code model returns `q_l = e_l` and `H = (a | β)` — the
"implicit Q" uniqueness of the Arnoldi factorisation, proved for the model's own loop.
-/

open scoped InnerProductSpace
open Finset

namespace Arnoldi

variable {𝕜 E : Type} [RCLike 𝕜] [NormedAddCommGroup E] [InnerProductSpace 𝕜 E]

/-- the Gram–Schmidt sweep against `e_0 … e_j` of `w0 = Σ_{l ≤ j} a_l e_l + w`, `w ⟂ e_l`, returns the
coefficients `a_l` and the remainder `w` -/
theorem sweep_of_presentation (c : Col 𝕜 E) (e : Nat → E) (a : Nat → 𝕜) (j K : Nat) (w w0 : E)
    (hq : ∀ l, l ≤ j → c.q l = e l)
    (hON : ∀ x, x ≤ j → ∀ y, y ≤ j → ⟪e x, e y⟫_𝕜 = if x = y then 1 else 0)
    (hw0 : w0 = ∑ l ∈ range (j + 1), a l • e l + w) (hw : ∀ l, l ≤ j → ⟪e l, w⟫_𝕜 = 0) :
    ∀ k, k ≤ j + 1 → swVec c w0 K k = w0 - ∑ l ∈ range k, a l • e l ∧
      ∀ l, l < k → swCoef c w0 K l = a l := by
  intro k
  induction k with
  | zero => intro _; exact ⟨by simp [swVec_zero], fun l hl => by omega⟩
  | succ k ih =>
    intro hk
    obtain ⟨h1, h2⟩ := ih (by omega)
    have hkj : k ≤ j := by omega
    have hcoef : swCoef c w0 K k = a k := by
      unfold swCoef
      rw [h1, hq k hkj, hw0, inner_sub_right, inner_add_right, hw k hkj, add_zero, inner_sum, inner_sum,
        sum_eq_single k]
      · rw [inner_smul_right, hON k hkj k hkj, if_pos rfl, mul_one]
        have : ∑ i ∈ range k, ⟪e k, a i • e i⟫_𝕜 = 0 := by
          apply sum_eq_zero
          intro i hi
          have hik := mem_range.mp hi
          rw [inner_smul_right, hON k hkj i (by omega), if_neg (by omega), mul_zero]
        rw [this, sub_zero]
      · intro b hb hbk
        rw [inner_smul_right, hON k hkj b (by have := mem_range.mp hb; omega), if_neg (Ne.symm hbk), mul_zero]
      · intro hnk; exact absurd (mem_range.mpr (by omega)) hnk
    refine ⟨?_, ?_⟩
    · rw [swVec_succ, hcoef, h1, hq k hkj, sum_range_succ]
      abel
    · intro l hl
      by_cases hlk : l < k
      · exact h2 l hlk
      · have : l = k := by omega
        rw [this]; exact hcoef

variable (A : E →ₗ[𝕜] E) (M : Nat) (tol : ℝ) (v : E)

/-- one step of the model on a presented operator -/
theorem step_of_presentation (c : Col 𝕜 E) (e : Nat → E) (a : Nat → 𝕜) (j : Nat) (w : E)
    (hjQ : j + 1 < c.Q.size) (hjH : j < c.H.size)
    (hq : ∀ l, l ≤ j → c.q l = e l)
    (hON : ∀ x, x ≤ j → ∀ y, y ≤ j → ⟪e x, e y⟫_𝕜 = if x = y then 1 else 0)
    (hA : A (e j) = ∑ l ∈ range (j + 1), a l • e l + w) (hw : ∀ l, l ≤ j → ⟪e l, w⟫_𝕜 = 0) :
    (∀ l, (stepCol (⇑A) ((tol : ℝ) : 𝕜) j c).q l =
      if l = j + 1 then (((max ‖w‖ (tol / 2) : ℝ)) : 𝕜)⁻¹ • w else c.q l) ∧
    (∀ l i, (stepCol (⇑A) ((tol : ℝ) : 𝕜) j c).h l i =
      if i = j then (if l = j + 1 then ((‖w‖ : ℝ) : 𝕜) else if l < j + 1 then a l else 0) else c.h l i) := by
  have hsw := sweep_of_presentation c e a j c.Q.size w (A (c.q j)) hq hON (by rw [hq j (le_refl _)]; exact hA) hw
    (j + 1) (le_refl _)
  have hW : stepW A j c = w := by
    unfold stepW
    rw [hsw.1, hq j (le_refl _), hA]
    abel
  constructor
  · intro l
    rw [stepCol_q A tol j c hjQ, hW]
  · intro l i
    rw [stepCol_h A tol j c hjH hjQ, hW]
    by_cases hi : i = j
    · rw [if_pos hi, if_pos hi]
      by_cases hl : l = j + 1
      · rw [if_pos hl, if_pos hl]
      · rw [if_neg hl, if_neg hl]
        by_cases hl2 : l < j + 1
        · rw [if_pos hl2, if_pos hl2, hsw.2 l hl2]
        · rw [if_neg hl2, if_neg hl2]
    · rw [if_neg hi, if_neg hi]

/-- **the model reproduces a Hessenberg presentation** with sub-diagonal `≥ tol/2` -/
theorem colAt_of_presentation (htol : 0 < tol) (hv : v ≠ 0) (e : Nat → E) (a : Nat → Nat → 𝕜) (bt : Nat → ℝ)
    (J : Nat) (hJ : J ≤ M) (he0 : e 0 = ((‖v‖ : ℝ) : 𝕜)⁻¹ • v)
    (hON : ∀ x, x ≤ J → ∀ y, y ≤ J → ⟪e x, e y⟫_𝕜 = if x = y then 1 else 0)
    (hpres : ∀ i, i < J → A (e i) = ∑ l ∈ range (i + 1), a l i • e l + ((bt i : ℝ) : 𝕜) • e (i + 1))
    (hbt : ∀ i, i < J → tol / 2 ≤ bt i) :
    ∀ j, j ≤ J → (∀ l, l ≤ j → (colAt A M tol v j).q l = e l) ∧
      (∀ i, i < j → ∀ l, (colAt A M tol v j).h l i =
        if l = i + 1 then ((bt i : ℝ) : 𝕜) else if l < i + 1 then a l i else 0) := by
  intro j
  induction j with
  | zero =>
    intro _
    refine ⟨fun l hl => ?_, fun i hi => by omega⟩
    have : l = 0 := by omega
    rw [this, he0]
    exact (inv_colAfter A M v tol hv htol 0 (by omega)).q0
  | succ j ih =>
    intro hj
    obtain ⟨hq, hh⟩ := ih (by omega)
    have hinv := inv_colAfter A M v tol hv htol j (by omega)
    have hbj : 0 ≤ bt j := le_trans (by linarith) (hbt j (by omega))
    have hunit : ‖e (j + 1)‖ = 1 := by
      have := hON (j + 1) hj (j + 1) hj
      rw [if_pos rfl, inner_self_eq_norm_sq_to_K] at this
      have h1 : ‖e (j + 1)‖ ^ 2 = 1 := by exact_mod_cast this
      nlinarith [norm_nonneg (e (j + 1)), sq_nonneg (‖e (j + 1)‖ - 1)]
    have hnw : ‖((bt j : ℝ) : 𝕜) • e (j + 1)‖ = bt j := by
      rw [norm_smul, hunit, mul_one, RCLike.norm_ofReal, abs_of_nonneg hbj]
    obtain ⟨s1, s2⟩ := step_of_presentation A tol (colAt A M tol v j) e (fun l => a l j) j
      (((bt j : ℝ) : 𝕜) • e (j + 1)) (by rw [hinv.sizeQ]; omega) (by rw [hinv.sizeH]; omega) hq
      (fun x hx y hy => hON x (by omega) y (by omega)) (hpres j (by omega))
      (fun l hl => by rw [inner_smul_right, hON l (by omega) (j + 1) hj, if_neg (by omega), mul_zero])
    constructor
    · intro l hl
      show (stepCol (⇑A) ((tol : ℝ) : 𝕜) j (colAt A M tol v j)).q l = e l
      rw [s1 l]
      by_cases hlj : l = j + 1
      · rw [if_pos hlj, hnw, max_eq_left (hbt j (by omega)), smul_smul, hlj]
        have hne : ((bt j : ℝ) : 𝕜) ≠ 0 := by
          have : 0 < bt j := lt_of_lt_of_le (by linarith) (hbt j (by omega))
          exact_mod_cast (ne_of_gt this)
        rw [inv_mul_cancel₀ hne, one_smul]
      · rw [if_neg hlj]; exact hq l (by omega)
    · intro i hi l
      show (stepCol (⇑A) ((tol : ℝ) : 𝕜) j (colAt A M tol v j)).h l i = _
      rw [s2 l i]
      by_cases hij : i = j
      · rw [if_pos hij, hnw, hij]
      · rw [if_neg hij]; exact hh i (by omega) l

/-- the step after the presentation closes (`A e_J ∈ span{e_0 … e_J}`): exact breakdown, column `J` of `H` holds
the coefficients, `q_{J+1} = 0` -/
theorem colAt_succ_of_invariant (htol : 0 < tol) (hv : v ≠ 0) (e : Nat → E) (aJ : Nat → 𝕜) (J : Nat)
    (hJ : J + 1 ≤ M) (hq : ∀ l, l ≤ J → (colAt A M tol v J).q l = e l)
    (hON : ∀ x, x ≤ J → ∀ y, y ≤ J → ⟪e x, e y⟫_𝕜 = if x = y then 1 else 0)
    (hA : A (e J) = ∑ l ∈ range (J + 1), aJ l • e l) :
    (colAt A M tol v (J + 1)).q (J + 1) = 0 ∧
    (∀ l, (colAt A M tol v (J + 1)).h l J = if l < J + 1 then aJ l else 0) ∧
    (colAt A M tol v (J + 1)).beta J = 0 := by
  have hinv := inv_colAfter A M v tol hv htol J (by omega)
  obtain ⟨s1, s2⟩ := step_of_presentation A tol (colAt A M tol v J) e aJ J 0
    (by rw [hinv.sizeQ]; omega) (by rw [hinv.sizeH]; omega) hq hON (by rw [add_zero]; exact hA)
    (fun l _ => inner_zero_right _)
  refine ⟨?_, ?_, ?_⟩
  · show (stepCol (⇑A) ((tol : ℝ) : 𝕜) J (colAt A M tol v J)).q (J + 1) = 0
    rw [s1, if_pos rfl, smul_zero]
  · intro l
    show (stepCol (⇑A) ((tol : ℝ) : 𝕜) J (colAt A M tol v J)).h l J = _
    rw [s2, if_pos rfl]
    by_cases hl : l = J + 1
    · rw [if_pos hl, if_neg (by omega), norm_zero]; simp
    · rw [if_neg hl]
  · unfold Col.beta
    show RCLike.re ((stepCol (⇑A) ((tol : ℝ) : 𝕜) J (colAt A M tol v J)).h (J + 1) J) = 0
    rw [s2, if_pos rfl, if_pos rfl, norm_zero]; simp

end Arnoldi
