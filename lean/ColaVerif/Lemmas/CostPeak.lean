import ColaVerif.Lemmas.Cost

/-!
# C19, cost level: the PEAK of `A @ X` is linear in the operand size

`Op.peakOK`: for every operator tree of the in-scope kinds, `peakMM A b ≤ lvl A · (vol A · b) + leafStorage A`.
-/

namespace Op
variable {R : Type}

def PeakOK (M : Op R) : Prop := ∀ b, M.peakMM b ≤ M.lvl * (M.vol * b) + M.leafStorage

def toFacPeak (M : Op R) : FacPeak := ⟨M.rows, M.cols, fun b' => M.peakMM b'⟩

theorem map_toFacPeak_c (L : List (Op R)) : (L.map toFacPeak).map (·.c) = L.map (·.cols) := by
  simp [toFacPeak, List.map_map, Function.comp_def]

theorem maxL_cons (x : Nat) (l : List Nat) : maxL (x :: l) = max x (maxL l) := rfl

theorem maxL_le_cons (x : Nat) (l : List Nat) : maxL l ≤ maxL (x :: l) := Nat.le_max_right _ _
theorem head_le_maxL_cons (x : Nat) (l : List Nat) : x ≤ maxL (x :: l) := Nat.le_max_left _ _

theorem kronPeakLoop_le (b : Nat) : ∀ (L : List (Op R)), (∀ M ∈ L, CostOK M ∧ PeakOK M) → ∀ (pre : Nat),
    kronPeakLoop b pre (L.map toFacPeak) ≤
      (maxL (L.map (·.lvl)) + 2) * (pre * (L.map (·.vol)).prod * b) + (L.map (·.leafStorage)).sum
  | [], _, pre => by simp [kronPeakLoop]
  | M :: L, h, pre => by
    have hM := h M (by simp)
    have hL : ∀ N ∈ L, CostOK N ∧ PeakOK N := fun N hN => h N (by simp [hN])
    have hc : (L.map (·.cols)).prod ≤ (L.map (·.vol)).prod :=
      prod_map_le L _ _ (fun N hN => (hL N hN).1.2.1)
    simp only [List.map_cons, kronPeakLoop, map_toFacPeak_c, List.prod_cons, List.sum_cons]
    -- X = the operand size at this level
    have hX1 : pre * M.cols * (L.map (·.cols)).prod * b ≤ pre * (M.vol * (L.map (·.vol)).prod) * b := by
      have := Nat.mul_le_mul (Nat.mul_le_mul (Nat.le_refl pre) hM.1.2.1) hc
      calc pre * M.cols * (L.map (·.cols)).prod * b
          ≤ pre * M.vol * (L.map (·.vol)).prod * b := Nat.mul_le_mul_right b this
        _ = pre * (M.vol * (L.map (·.vol)).prod) * b := by ring
    have hX2 : M.vol * (pre * (L.map (·.cols)).prod * b) ≤ pre * (M.vol * (L.map (·.vol)).prod) * b := by
      have := Nat.mul_le_mul (Nat.le_refl (pre * M.vol)) hc
      calc M.vol * (pre * (L.map (·.cols)).prod * b)
          = pre * M.vol * (L.map (·.cols)).prod * b := by ring
        _ ≤ pre * M.vol * (L.map (·.vol)).prod * b := Nat.mul_le_mul_right b this
        _ = pre * (M.vol * (L.map (·.vol)).prod) * b := by ring
    have hX3 : pre * M.rows * (L.map (·.vol)).prod * b ≤ pre * (M.vol * (L.map (·.vol)).prod) * b := by
      have := Nat.mul_le_mul_right ((L.map (·.vol)).prod) (Nat.mul_le_mul (Nat.le_refl pre) hM.1.1)
      calc pre * M.rows * (L.map (·.vol)).prod * b
          ≤ pre * M.vol * (L.map (·.vol)).prod * b := Nat.mul_le_mul_right b this
        _ = pre * (M.vol * (L.map (·.vol)).prod) * b := by ring
    generalize hXdef : pre * (M.vol * (L.map (·.vol)).prod) * b = X at hX1 hX2 hX3
    have hl1 : M.lvl ≤ maxL (M.lvl :: L.map (·.lvl)) := head_le_maxL_cons _ _
    have hl2 : maxL (L.map (·.lvl)) ≤ maxL (M.lvl :: L.map (·.lvl)) := maxL_le_cons _ _
    generalize maxL (M.lvl :: L.map (·.lvl)) = K at hl1 hl2
    apply Nat.max_le.mpr
    constructor
    · have e : (toFacPeak M).c = M.cols := rfl
      have e2 : (toFacPeak M).peak = fun b' => M.peakMM b' := rfl
      rw [e, e2]
      have h1 := hM.2 (pre * (L.map (·.cols)).prod * b)
      have h2 : M.lvl * (M.vol * (pre * (L.map (·.cols)).prod * b)) ≤ K * X :=
        Nat.mul_le_mul hl1 hX2
      have h3 : (K + 2) * X = K * X + 2 * X := by ring
      have h4 : 2 * (pre * M.cols * (L.map (·.cols)).prod * b) ≤ 2 * X := Nat.mul_le_mul_left 2 hX1
      simp only at h1 ⊢
      omega
    · have e : (toFacPeak M).r = M.rows := rfl
      rw [e]
      have ih := kronPeakLoop_le b L hL (pre * M.rows)
      have h2 : (maxL (L.map (·.lvl)) + 2) * (pre * M.rows * (L.map (·.vol)).prod * b) ≤ (K + 2) * X :=
        Nat.mul_le_mul (by omega) hX3
      omega

theorem kronSumPeakMax_le (b : Nat) : ∀ (L : List (Op R)), (∀ M ∈ L, CostOK M ∧ PeakOK M) → ∀ (pre : Nat),
    kronSumPeakMax b pre (L.map toFacPeak) ≤
      maxL (L.map (·.lvl)) * (pre * (L.map (·.vol)).prod * b) + (L.map (·.leafStorage)).sum
  | [], _, pre => by simp [kronSumPeakMax]
  | M :: L, h, pre => by
    have hM := h M (by simp)
    have hL : ∀ N ∈ L, CostOK N ∧ PeakOK N := fun N hN => h N (by simp [hN])
    have hc : (L.map (·.cols)).prod ≤ (L.map (·.vol)).prod :=
      prod_map_le L _ _ (fun N hN => (hL N hN).1.2.1)
    simp only [List.map_cons, kronSumPeakMax, map_toFacPeak_c, List.prod_cons, List.sum_cons]
    have hX2 : M.vol * (pre * (L.map (·.cols)).prod * b) ≤ pre * (M.vol * (L.map (·.vol)).prod) * b := by
      have := Nat.mul_le_mul (Nat.le_refl (pre * M.vol)) hc
      calc M.vol * (pre * (L.map (·.cols)).prod * b)
          = pre * M.vol * (L.map (·.cols)).prod * b := by ring
        _ ≤ pre * M.vol * (L.map (·.vol)).prod * b := Nat.mul_le_mul_right b this
        _ = pre * (M.vol * (L.map (·.vol)).prod) * b := by ring
    have hX3 : pre * M.cols * (L.map (·.vol)).prod * b ≤ pre * (M.vol * (L.map (·.vol)).prod) * b := by
      have := Nat.mul_le_mul_right ((L.map (·.vol)).prod) (Nat.mul_le_mul (Nat.le_refl pre) hM.1.2.1)
      calc pre * M.cols * (L.map (·.vol)).prod * b
          ≤ pre * M.vol * (L.map (·.vol)).prod * b := Nat.mul_le_mul_right b this
        _ = pre * (M.vol * (L.map (·.vol)).prod) * b := by ring
    generalize hXdef : pre * (M.vol * (L.map (·.vol)).prod) * b = X at hX2 hX3
    have hl1 : M.lvl ≤ maxL (M.lvl :: L.map (·.lvl)) := head_le_maxL_cons _ _
    have hl2 : maxL (L.map (·.lvl)) ≤ maxL (M.lvl :: L.map (·.lvl)) := maxL_le_cons _ _
    generalize maxL (M.lvl :: L.map (·.lvl)) = K at hl1 hl2
    apply Nat.max_le.mpr
    constructor
    · have e2 : (toFacPeak M).peak = fun b' => M.peakMM b' := rfl
      rw [e2]
      have h1 := hM.2 (pre * (L.map (·.cols)).prod * b)
      have h2 : M.lvl * (M.vol * (pre * (L.map (·.cols)).prod * b)) ≤ K * X := Nat.mul_le_mul hl1 hX2
      simp only at h1 ⊢
      omega
    · have e : (toFacPeak M).c = M.cols := rfl
      rw [e]
      have ih := kronSumPeakMax_le b L hL (pre * M.cols)
      have h2 : maxL (L.map (·.lvl)) * (pre * M.cols * (L.map (·.vol)).prod * b) ≤ K * X :=
        Nat.mul_le_mul hl2 hX3
      omega

theorem bdiagPeakMax_le (b : Nat) : ∀ (L : List (Op R)) (mults : List Nat), (∀ M ∈ L, CostOK M ∧ PeakOK M) →
    bdiagPeakMax b ((L.map toFacPeak).zip mults) ≤
      (maxL (L.map (·.lvl)) + 2) * (dotSum (L.map (·.vol)) mults * b) + (L.map (·.leafStorage)).sum
  | [], _, _ => by simp [bdiagPeakMax]
  | _ :: _, [], _ => by simp [bdiagPeakMax]
  | M :: L, m :: ms, h => by
    have hM := h M (by simp)
    have hL : ∀ N ∈ L, CostOK N ∧ PeakOK N := fun N hN => h N (by simp [hN])
    simp only [List.map_cons, List.zip_cons_cons, bdiagPeakMax, dotSum_cons, List.sum_cons]
    have hl1 : M.lvl ≤ maxL (M.lvl :: L.map (·.lvl)) := head_le_maxL_cons _ _
    have hl2 : maxL (L.map (·.lvl)) ≤ maxL (M.lvl :: L.map (·.lvl)) := maxL_le_cons _ _
    generalize maxL (M.lvl :: L.map (·.lvl)) = K at hl1 hl2
    have eV : (M.vol * m + dotSum (L.map (·.vol)) ms) * b = M.vol * m * b + dotSum (L.map (·.vol)) ms * b := by ring
    rw [eV]
    generalize hY : dotSum (L.map (·.vol)) ms * b = Y
    apply Nat.max_le.mpr
    constructor
    · have e1 : (toFacPeak M).c = M.cols := rfl
      have e2 : (toFacPeak M).r = M.rows := rfl
      have e3 : (toFacPeak M).peak = fun b' => M.peakMM b' := rfl
      rw [e1, e2, e3]
      have hc : m * M.cols * b ≤ M.vol * m * b := by
        have := Nat.mul_le_mul_right b (Nat.mul_le_mul_left m hM.1.2.1)
        calc m * M.cols * b ≤ m * M.vol * b := this
          _ = M.vol * m * b := by ring
      have hr : m * M.rows * b ≤ M.vol * m * b := by
        have := Nat.mul_le_mul_right b (Nat.mul_le_mul_left m hM.1.1)
        calc m * M.rows * b ≤ m * M.vol * b := this
          _ = M.vol * m * b := by ring
      have h1 := hM.2 (b * m)
      have e4 : M.vol * (b * m) = M.vol * m * b := by ring
      rw [e4] at h1
      have h2 : M.lvl * (M.vol * m * b) ≤ K * (M.vol * m * b) := Nat.mul_le_mul_right _ hl1
      have h3 : (K + 2) * (M.vol * m * b + Y) = K * (M.vol * m * b) + 2 * (M.vol * m * b) + (K + 2) * Y := by ring
      simp only at h1 ⊢
      omega
    · have ih := bdiagPeakMax_le b L ms hL
      rw [hY] at ih
      have h2 : (maxL (L.map (·.lvl)) + 2) * Y ≤ (K + 2) * Y := Nat.mul_le_mul_right _ (by omega)
      have h3 : (K + 2) * (M.vol * m * b + Y) = (K + 2) * (M.vol * m * b) + (K + 2) * Y := by ring
      omega

/-- members of a list: the maximum of the per-member bounds -/
theorem maxL_map_le {α : Type} (L : List α) (f : α → Nat) (k : Nat) (h : ∀ M ∈ L, f M ≤ k) :
    maxL (L.map f) ≤ k :=
  maxL_le (fun x hx => by obtain ⟨M, hM, rfl⟩ := List.mem_map.mp hx; exact h M hM)

theorem peakOK_prod (Ms : List (Op R)) (h : ∀ M ∈ Ms, CostOK M ∧ PeakOK M) : PeakOK (prod Ms) := by
  intro b
  simp only [Op.peakMM, Op.lvl, Op.vol, Op.leafStorage]
  apply maxL_map_le
  intro M hM
  have h1 := (h M hM).2 b
  have hv : M.vol ≤ maxL (Ms.map (·.vol)) := le_maxL_of_mem (List.mem_map.mpr ⟨M, hM, rfl⟩)
  have hl : M.lvl ≤ maxL (Ms.map (·.lvl)) := le_maxL_of_mem (List.mem_map.mpr ⟨M, hM, rfl⟩)
  have hs : M.leafStorage ≤ (Ms.map (·.leafStorage)).sum := le_sum_of_mem' (List.mem_map.mpr ⟨M, hM, rfl⟩)
  have hc : M.cols * b ≤ maxL (Ms.map (·.vol)) * b :=
    Nat.mul_le_mul_right b (Nat.le_trans (h M hM).1.2.1 hv)
  have h2 : M.lvl * (M.vol * b) ≤ maxL (Ms.map (·.lvl)) * (maxL (Ms.map (·.vol)) * b) :=
    Nat.mul_le_mul hl (Nat.mul_le_mul_right b hv)
  generalize maxL (Ms.map (·.lvl)) = K at *
  generalize maxL (Ms.map (·.vol)) * b = X at *
  have : (K + 1) * X = K * X + X := by ring
  omega

theorem peakOK_sum (Ms : List (Op R)) (h : ∀ M ∈ Ms, CostOK M ∧ PeakOK M) : PeakOK (sum Ms) := by
  intro b
  simp only [Op.peakMM, Op.lvl, Op.vol, Op.leafStorage]
  have hr : (Ms.map (·.rows)).head?.getD 0 ≤ maxL (Ms.map (·.vol)) :=
    head?_getD_le_maxL Ms _ _ (fun M hM => (h M hM).1.1)
  have hr' := Nat.mul_le_mul_right b hr
  have hm : maxL (Ms.map (fun M => M.peakMM b)) ≤
      maxL (Ms.map (·.lvl)) * (maxL (Ms.map (·.vol)) * b) + (Ms.map (·.leafStorage)).sum := by
    apply maxL_map_le
    intro M hM
    have h1 := (h M hM).2 b
    have hv : M.vol ≤ maxL (Ms.map (·.vol)) := le_maxL_of_mem (List.mem_map.mpr ⟨M, hM, rfl⟩)
    have hl : M.lvl ≤ maxL (Ms.map (·.lvl)) := le_maxL_of_mem (List.mem_map.mpr ⟨M, hM, rfl⟩)
    have hs : M.leafStorage ≤ (Ms.map (·.leafStorage)).sum := le_sum_of_mem' (List.mem_map.mpr ⟨M, hM, rfl⟩)
    have h2 : M.lvl * (M.vol * b) ≤ maxL (Ms.map (·.lvl)) * (maxL (Ms.map (·.vol)) * b) :=
      Nat.mul_le_mul hl (Nat.mul_le_mul_right b hv)
    omega
  generalize maxL (Ms.map (·.lvl)) = K at *
  generalize maxL (Ms.map (·.vol)) * b = X at *
  have : (K + 2) * X = K * X + 2 * X := by ring
  omega

theorem peakOK_kron (Ms : List (Op R)) (h : ∀ M ∈ Ms, CostOK M ∧ PeakOK M) : PeakOK (kron Ms) := by
  intro b
  simp only [Op.peakMM, Op.lvl, Op.vol, Op.leafStorage]
  apply Nat.max_le.mpr
  constructor
  · have e : (Ms.map (fun M => (⟨M.rows, M.cols, fun b' => M.peakMM b'⟩ : FacPeak))) = Ms.map toFacPeak := rfl
    rw [e]
    have := kronPeakLoop_le b Ms h 1
    simpa using this
  · have hr := Nat.mul_le_mul_right b (prod_map_le Ms (·.rows) (·.vol) (fun M hM => (h M hM).1.1))
    generalize maxL (Ms.map (·.lvl)) = K
    generalize (Ms.map (·.vol)).prod * b = X at *
    have : (K + 2) * X = K * X + 2 * X := by ring
    omega

theorem peakOK_kronsum (Ms : List (Op R)) (h : ∀ M ∈ Ms, CostOK M ∧ PeakOK M) : PeakOK (kronsum Ms) := by
  intro b
  simp only [Op.peakMM, Op.lvl, Op.vol, Op.leafStorage]
  have h1 := kronSumPeakMax_le b Ms h 1
  have hc := Nat.mul_le_mul_right b (prod_map_le Ms (·.cols) (·.vol) (fun M hM => (h M hM).1.2.1))
  simp only [Nat.one_mul] at h1
  have e : (Ms.map (fun M => (⟨M.rows, M.cols, fun b' => M.peakMM b'⟩ : FacPeak))) = Ms.map toFacPeak := rfl
  rw [e]
  generalize maxL (Ms.map (·.lvl)) = K at *
  generalize (Ms.map (·.vol)).prod * b = X at *
  have : (K + 4) * X = K * X + 4 * X := by ring
  omega

theorem peakOK_bdiag (Ms : List (Op R)) (mults : List Nat) (h : ∀ M ∈ Ms, CostOK M ∧ PeakOK M) :
    PeakOK (bdiag Ms mults) := by
  intro b
  simp only [Op.peakMM, Op.lvl, Op.vol, Op.leafStorage]
  have h1 := bdiagPeakMax_le b Ms mults h
  have hr := Nat.mul_le_mul_right b (dotSum_map_le Ms (·.rows) (·.vol) mults (fun M hM => (h M hM).1.1))
  have e : (Ms.map (fun M => (⟨M.rows, M.cols, fun b' => M.peakMM b'⟩ : FacPeak))) = Ms.map toFacPeak := rfl
  rw [e]
  generalize maxL (Ms.map (·.lvl)) = K at *
  generalize dotSum (Ms.map (·.vol)) mults * b = X at *
  have : (K + 4) * X = (K + 2) * X + 2 * X := by ring
  omega

/-- **the entries alive at the same time during `A @ X` are linear in the operand size** -/
theorem peakOK : ∀ (A : Op R), A.inScope = true → A.wf = true → PeakOK A
  | dense dt r c a, _, _ => by
    intro b
    simp only [Op.peakMM, Op.lvl, Op.vol, Op.leafStorage]
    have h1 := Nat.mul_le_mul_right b (Nat.le_max_left r c)
    have h2 := Nat.mul_le_mul_right b (Nat.le_max_right r c)
    omega
  | tri dt r c l a, _, _ => by
    intro b
    simp only [Op.peakMM, Op.lvl, Op.vol, Op.leafStorage]
    have h1 := Nat.mul_le_mul_right b (Nat.le_max_left r c)
    have h2 := Nat.mul_le_mul_right b (Nat.le_max_right r c)
    omega
  | sparse dt r c e, _, _ => by
    intro b
    simp only [Op.peakMM, Op.lvl, Op.vol, Op.leafStorage]
    have h1 := Nat.mul_le_mul_right b (Nat.le_max_left r c)
    have h2 := Nat.mul_le_mul_right b (Nat.le_max_right r c)
    omega
  | scalar dt s n, _, _ => by
    intro b; simp only [Op.peakMM, Op.lvl, Op.vol, Op.leafStorage]; omega
  | eye dt n, _, _ => by
    intro b; simp only [Op.peakMM, Op.lvl, Op.vol, Op.leafStorage]; omega
  | diag dt n d, _, _ => by
    intro b; simp only [Op.peakMM, Op.lvl, Op.vol, Op.leafStorage]; omega
  | tridiag dt n al be ga, _, hwf => by
    intro b
    simp only [Op.wf, decide_eq_true_eq] at hwf
    simp only [Op.peakMM, Op.lvl, Op.vol, Op.leafStorage]
    have h1 : b ≤ n * b := Nat.le_mul_of_pos_left b hwf
    have h2 : (n - 1) * b ≤ n * b := Nat.mul_le_mul_right b (Nat.sub_le n 1)
    omega
  | perm dt p, _, _ => by
    intro b; simp only [Op.peakMM, Op.lvl, Op.vol, Op.leafStorage]; omega
  | prod Ms, hs, hwf => by
    simp only [Op.inScope] at hs
    simp only [Op.wf, Bool.and_eq_true] at hwf
    exact peakOK_prod Ms (fun M hM =>
      ⟨costOK M (scope_members hs M hM) (wf_members' hwf.1.2 M hM), peakOK M (scope_members hs M hM) (wf_members' hwf.1.2 M hM)⟩)
  | sum Ms, hs, hwf => by
    simp only [Op.inScope] at hs
    simp only [Op.wf, Bool.and_eq_true] at hwf
    exact peakOK_sum Ms (fun M hM =>
      ⟨costOK M (scope_members hs M hM) (wf_members' hwf.1.2 M hM), peakOK M (scope_members hs M hM) (wf_members' hwf.1.2 M hM)⟩)
  | kron Ms, hs, hwf => by
    simp only [Op.inScope] at hs
    simp only [Op.wf, Bool.and_eq_true] at hwf
    exact peakOK_kron Ms (fun M hM =>
      ⟨costOK M (scope_members hs M hM) (wf_members' hwf.2 M hM), peakOK M (scope_members hs M hM) (wf_members' hwf.2 M hM)⟩)
  | kronsum Ms, hs, hwf => by
    simp only [Op.inScope] at hs
    simp only [Op.wf, Bool.and_eq_true] at hwf
    exact peakOK_kronsum Ms (fun M hM =>
      ⟨costOK M (scope_members hs M hM) (wf_members' hwf.1.2 M hM), peakOK M (scope_members hs M hM) (wf_members' hwf.1.2 M hM)⟩)
  | bdiag Ms mults, hs, hwf => by
    simp only [Op.inScope] at hs
    simp only [Op.wf, Bool.and_eq_true] at hwf
    exact peakOK_bdiag Ms mults (fun M hM =>
      ⟨costOK M (scope_members hs M hM) (wf_members' hwf.1.2 M hM), peakOK M (scope_members hs M hM) (wf_members' hwf.1.2 M hM)⟩)
  | generic A, hs, hwf => by
    simp only [Op.inScope] at hs
    simp only [Op.wf] at hwf
    have ih := peakOK A hs hwf
    intro b
    simpa only [Op.peakMM, Op.lvl, Op.vol, Op.leafStorage] using ih b
  | annot a A, hs, hwf => by
    simp only [Op.inScope] at hs
    simp only [Op.wf] at hwf
    have ih := peakOK A hs hwf
    intro b
    simpa only [Op.peakMM, Op.lvl, Op.vol, Op.leafStorage] using ih b
  | transpose A, hs, _ => by simp [Op.inScope] at hs
  | adjoint A, hs, _ => by simp [Op.inScope] at hs
  | sliced A s0 s1, hs, _ => by simp [Op.inScope] at hs
  | concat ax Ms, hs, _ => by simp [Op.inScope] at hs
  | house dt n v beta, hs, _ => by
    simp only [Op.inScope, decide_eq_true_eq] at hs
    intro b
    simp only [Op.peakMM, Op.lvl, Op.vol, Op.leafStorage]
    have h1 : b ≤ n * b := Nat.le_mul_of_pos_left b hs
    omega
termination_by A => sizeOf A
decreasing_by
  all_goals simp_wf
  all_goals (have := List.sizeOf_lt_of_mem hM; omega)

end Op
