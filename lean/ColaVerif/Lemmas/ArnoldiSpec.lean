import ColaVerif.Lemmas.ArnoldiEigs

/-!
# C15: the formal reading of the property and the theorems about `Arnoldi.run`

`ArnoldiSpec A M v s c`: the buffers `c` (cap `M`) hold an Arnoldi factorisation of `A` started at
`v` after `s` executed steps — the formal reading of the property text for one start vector.
-/

open scoped InnerProductSpace
open Finset

namespace Arnoldi

variable {𝕜 E : Type} [RCLike 𝕜] [NormedAddCommGroup E] [InnerProductSpace 𝕜 E]

/-- formal reading of C15 for one start vector -/
structure ArnoldiSpec (A : E →ₗ[𝕜] E) (M : Nat) (v : E) (s : Nat) (c : Col 𝕜 E) : Prop where
  /-- `Q` has `M + 1` columns -/
  shapeQ : c.Q.size = M + 1
  /-- `H` is `(M + 1) × M` -/
  shapeH : c.H.size = M ∧ ∀ i, i < M → (c.H.getD i #[]).size = M + 1
  /-- first column `v / ‖v‖` -/
  first : c.q 0 = ((‖v‖ : ℝ) : 𝕜)⁻¹ • v
  /-- upper Hessenberg -/
  hess : ∀ i l, i + 1 < l → c.h l i = 0
  /-- real non-negative sub-diagonal -/
  subdiag : ∀ i, c.h (i + 1) i = ((c.beta i : ℝ) : 𝕜) ∧ 0 ≤ c.beta i
  /-- Arnoldi relation for every executed step: `A q_i = Σ_{l ≤ i+1} H[l,i] q_l` -/
  relation : ∀ i, i < s → A (c.q i) = ∑ l ∈ range (i + 2), c.h l i • c.q l
  /-- orthonormal columns: `r + 1` of them, where `r` is the number of steps before the first
  exact breakdown (`r = s` if there was none); every later column is zero -/
  orthonormal : ∃ r, r ≤ s ∧ (∀ i, i < r → 0 < c.beta i) ∧ (r = s ∨ c.beta r = 0) ∧
    (∀ a, a ≤ r → ∀ b, b ≤ r → ⟪c.q a, c.q b⟫_𝕜 = if a = b then 1 else 0) ∧
    (∀ l, r < l → c.q l = 0) ∧ (∀ i, r < i → ∀ l, c.h l i = 0)
  /-- columns of steps never executed are zero -/
  padding : (∀ l, s < l → c.q l = 0) ∧ (∀ i, s ≤ i → ∀ l, c.h l i = 0)

variable (A : E →ₗ[𝕜] E) (n M : Nat) (tol : ℝ)

/-- buffers of start vector `v` after `j` loop iterations (exact arithmetic) -/
noncomputable abbrev colAt (v : E) (j : Nat) : Col 𝕜 E :=
  colAfter (⇑A) ((tol : ℝ) : 𝕜) j (initCol (α := 𝕜) M v)

/-- the code model run in exact arithmetic with the real tolerance `tol` -/
noncomputable abbrev runE (vs : List E) : State 𝕜 E := run (⇑A) n M ((tol : ℝ) : 𝕜) vs

/-- the invariant gives the specification under the clause `NoClip` -/
theorem spec_of_noClip (htol : 0 < tol) (v : E) (hv : v ≠ 0) (s : Nat) (hs : s ≤ M)
    (hnc : NoClip tol s (colAt A M tol v s)) : ArnoldiSpec A M v s (colAt A M tol v s) := by
  have hinv := inv_colAfter A M v tol hv htol s hs
  obtain ⟨r, hr, hun, hrs⟩ := exists_rank hnc
  have hON := orthonormal_prefix (A := A) htol hv r s hr hs hun
  refine
    { shapeQ := hinv.sizeQ, shapeH := ⟨hinv.sizeH, hinv.sizeHc⟩, first := hinv.q0,
      hess := hinv.hHess, subdiag := hinv.subdiag_nonneg,
      relation := hinv.relation htol hnc,
      orthonormal := ⟨r, hr, fun i hi => lt_of_lt_of_le (by linarith) (hun i hi), hrs, hON, ?_, ?_⟩,
      padding := ⟨hinv.qZero, hinv.hZeroCol⟩ }
  · rcases hrs with h | h
    · subst h; exact hinv.qZero
    · by_cases hrs' : r < s
      · exact (hinv.zero_after_breakdown htol r hrs' h).1
      · have : r = s := by omega
        subst this; exact hinv.qZero
  · rcases hrs with h | h
    · subst h; intro i hi l; exact hinv.hZeroCol i (by omega) l
    · by_cases hrs' : r < s
      · exact (hinv.zero_after_breakdown htol r hrs' h).2
      · have : r = s := by omega
        subst this; intro i hi l; exact hinv.hZeroCol i (by omega) l

/-- **C15 (partial)** on the code model, batched start vectors -/
theorem run_spec_exact (htol : 0 < tol) (vs : List E) (hvs : ∀ v ∈ vs, v ≠ 0) :
    (run (⇑A) n M ((tol : ℝ) : 𝕜) vs).idx ≤ min M n ∧
    (run (⇑A) n M ((tol : ℝ) : 𝕜) vs).evals = (run (⇑A) n M ((tol : ℝ) : 𝕜) vs).idx + 1 ∧
    (run (⇑A) n M ((tol : ℝ) : 𝕜) vs).cols =
      vs.map (fun v => colAt A M tol v (run (⇑A) n M ((tol : ℝ) : 𝕜) vs).idx) ∧
    ∀ v ∈ vs,
      Inv A M v tol (run (⇑A) n M ((tol : ℝ) : 𝕜) vs).idx
        (colAt A M tol v (run (⇑A) n M ((tol : ℝ) : 𝕜) vs).idx) ∧
      (NoClip tol (run (⇑A) n M ((tol : ℝ) : 𝕜) vs).idx
          (colAt A M tol v (run (⇑A) n M ((tol : ℝ) : 𝕜) vs).idx) →
        ArnoldiSpec A M v (run (⇑A) n M ((tol : ℝ) : 𝕜) vs).idx
          (colAt A M tol v (run (⇑A) n M ((tol : ℝ) : 𝕜) vs).idx)) := by
  obtain ⟨h1, h2, h3, _, _⟩ := run_spec (⇑A) n M ((tol : ℝ) : 𝕜) vs
  have hsM : (run (⇑A) n M ((tol : ℝ) : 𝕜) vs).idx ≤ M := le_trans h2 (min_le_left _ _)
  refine ⟨h2, h3, h1, fun v hv => ⟨?_, ?_⟩⟩
  · exact inv_colAfter A M v tol (hvs v hv) htol _ hsM
  · exact spec_of_noClip A M tol htol v (hvs v hv) _ hsM

/-! ### the stopping test in exact arithmetic -/

omit [NormedAddCommGroup E] [InnerProductSpace 𝕜 E] in
/-- `(norm > tol * H[1,0].real) | (idx <= 0)` -/
theorem isLarge_exact (idx : Nat) (c : Col 𝕜 E) :
    isLarge ((tol : ℝ) : 𝕜) idx c = true ↔
      (tol * RCLike.re (c.h 1 0) < RCLike.re c.norm ∨ idx = 0) := by
  unfold isLarge
  rw [Bool.or_eq_true, num_lt, num_mul, num_re, decide_eq_true_eq, ← RCLike.ofReal_mul,
    RCLike.ofReal_re, beq_iff_eq]

/-- the loop stops only at the cap or when every start vector has converged, and not before -/
theorem run_stop_exact (vs : List E) :
    ((run (⇑A) n M ((tol : ℝ) : 𝕜) vs).idx = min M n ∨
      ∀ c ∈ (run (⇑A) n M ((tol : ℝ) : 𝕜) vs).cols,
        RCLike.re c.norm ≤ tol * RCLike.re (c.h 1 0) ∧ (run (⇑A) n M ((tol : ℝ) : 𝕜) vs).idx ≠ 0) ∧
    ∀ k, k < (run (⇑A) n M ((tol : ℝ) : 𝕜) vs).idx → k = 0 ∨ ∃ v ∈ vs,
      tol * RCLike.re ((colAt A M tol v k).h 1 0) < RCLike.re (colAt A M tol v k).norm := by
  obtain ⟨_, _, _, h4, h5⟩ := run_spec (⇑A) n M ((tol : ℝ) : 𝕜) vs
  constructor
  · rcases h4 with h4 | h4
    · left; exact h4
    · right
      intro c hc
      rw [List.any_eq_false] at h4
      have := h4 c hc
      rw [isLarge_exact] at this
      push Not at this
      exact this
  · intro k hk
    have := h5 k hk
    rw [List.any_eq_true] at this
    obtain ⟨c, hc, hl⟩ := this
    rw [List.mem_map] at hc
    obtain ⟨v, hv, rfl⟩ := hc
    rw [isLarge_exact] at hl
    rcases hl with hl | hl
    · right; exact ⟨v, hv, hl⟩
    · left; exact hl

end Arnoldi
