import ColaVerif.Lemmas.CGInputs

/-!
# Concrete instances for C12 on a non-diagonal 3 × 3 system (exact rationals)

`exA3 = tridiag(-1, 2, -1)` (3 × 3, Hermitian positive definite, `λ_min = 2 - √2 ≥ 1/2`),
`exb3 = e₀`, `x0 = 0`, no preconditioner.

* `exS0 … exS3`: the textbook CG sequence, explicitly: residuals `e₀, ½ e₁, ⅓ e₂, 0`, iterates
  `0, (½,0,0), (⅔,⅓,0), (¾,½,¼)`.
* `ex3_guards`: `GuardsOffN` for the whole run, obtained from the INPUTS by `guardsOffN_single`
  (`exA3_posDef`, `exA3_coercive`, `Mi_coercive`, `ex3_tol`).
* `ex3_steps`: with `max_iters = 5`, `tol = 1/10` the loop makes exactly `k = 3` steps.
* `exAt = 1e-41 · exA3` (REGRESSION example): before the repair 1a4d949 of /repo `do_safe_div` compared
  `⟪p, A p⟫ = 2e-41` with the absolute `1e-40` and the model returned `1e40 · e₀`; with the exact zero
  test the model returns the Krylov optimum `5e40 · e₀` (`exAt_out`, `exAt_optimal`).
-/

namespace CG
open scoped InnerProductSpace ComplexConjugate ComplexOrder
open WithLp

attribute [local instance] rcOps

def exA3 : Matrix (Fin 3) (Fin 3) ℝ := !![2, -1, 0; -1, 2, -1; 0, -1, 2]

theorem exA3_apply (a b c : ℝ) :
    Matrix.toEuclideanLin exA3 !₂[a, b, c] = !₂[2 * a - b, -a + 2 * b - c, -b + 2 * c] := by
  apply ofLp_injective 2
  funext i
  fin_cases i <;> simp [exA3, Matrix.toLpLin_apply] <;> ring

theorem inner3 (a b c d e f : ℝ) : ⟪!₂[a, b, c], !₂[d, e, f]⟫_ℝ = a * d + b * e + c * f := by
  simp [PiLp.inner_apply, Fin.sum_univ_three]
  ring

theorem add3 (a b c d e f : ℝ) : (!₂[a, b, c] : EuclideanSpace ℝ (Fin 3)) + !₂[d, e, f] = !₂[a + d, b + e, c + f] := by
  apply ofLp_injective 2
  funext i
  fin_cases i <;> simp

theorem sub3 (a b c d e f : ℝ) : (!₂[a, b, c] : EuclideanSpace ℝ (Fin 3)) - !₂[d, e, f] = !₂[a - d, b - e, c - f] := by
  apply ofLp_injective 2
  funext i
  fin_cases i <;> simp

theorem smul3 (t a b c : ℝ) : t • (!₂[a, b, c] : EuclideanSpace ℝ (Fin 3)) = !₂[t * a, t * b, t * c] := by
  apply ofLp_injective 2
  funext i
  fin_cases i <;> simp

theorem norm3 (a b c : ℝ) : ‖(!₂[a, b, c] : EuclideanSpace ℝ (Fin 3))‖ = Real.sqrt (a ^ 2 + b ^ 2 + c ^ 2) := by
  rw [EuclideanSpace.norm_eq]
  simp [Fin.sum_univ_three]

local notation "A3" => Matrix.toEuclideanLin exA3
local notation "Mi" => precLin (none : Option (Matrix (Fin 3) (Fin 3) ℝ))

noncomputable def exb3 : EuclideanSpace ℝ (Fin 3) := !₂[1, 0, 0]
noncomputable def exz3 : EuclideanSpace ℝ (Fin 3) := !₂[0, 0, 0]

theorem Mi_apply (v : EuclideanSpace ℝ (Fin 3)) : Mi v = v := rfl

theorem exS0 : cgSeq A3 Mi exb3 exz3 0 = ⟨!₂[0, 0, 0], !₂[1, 0, 0], !₂[1, 0, 0], 1⟩ := by
  show cgInit A3 Mi exb3 exz3 = _
  simp only [cgInit, exb3, exz3, Mi_apply, exA3_apply, inner3, sub3]
  norm_num

theorem exS1 : cgSeq A3 Mi exb3 exz3 1 =
    ⟨!₂[1 / 2, 0, 0], !₂[0, 1 / 2, 0], !₂[1 / 4, 1 / 2, 0], 1 / 4⟩ := by
  show cgStep A3 Mi (cgSeq A3 Mi exb3 exz3 0) = _
  rw [exS0]
  simp only [cgStep, cgAlpha, Mi_apply, exA3_apply, inner3, sub3, add3, smul3]
  norm_num

theorem exS2 : cgSeq A3 Mi exb3 exz3 2 =
    ⟨!₂[2 / 3, 1 / 3, 0], !₂[0, 0, 1 / 3], !₂[1 / 9, 2 / 9, 1 / 3], 1 / 9⟩ := by
  show cgStep A3 Mi (cgSeq A3 Mi exb3 exz3 1) = _
  rw [exS1]
  simp only [cgStep, cgAlpha, Mi_apply, exA3_apply, inner3, sub3, add3, smul3]
  norm_num

theorem exS3 : (cgSeq A3 Mi exb3 exz3 3).x = !₂[3 / 4, 1 / 2, 1 / 4] ∧
    (cgSeq A3 Mi exb3 exz3 3).r = !₂[0, 0, 0] := by
  have : cgSeq A3 Mi exb3 exz3 3 = cgStep A3 Mi (cgSeq A3 Mi exb3 exz3 2) := rfl
  rw [this, exS2]
  simp only [cgStep, cgAlpha, Mi_apply, exA3_apply, inner3, sub3, add3, smul3]
  norm_num
theorem vec3_eta (v : EuclideanSpace ℝ (Fin 3)) : v = !₂[v 0, v 1, v 2] := by
  apply ofLp_injective 2
  funext i
  fin_cases i <;> rfl

theorem exA3_isHermitian : exA3.IsHermitian := by
  unfold exA3
  ext i j
  fin_cases i <;> fin_cases j <;> simp [Matrix.conjTranspose]

/-- `⟪v, A v⟫ = ½‖v‖² + (SOS)`: `λ_min(A) = 2 - √2 ≥ 1/2` -/
theorem exA3_coercive : Coercive (Matrix.toEuclideanLin exA3) (1 / 2) := by
  intro v
  rw [vec3_eta v, exA3_apply, inner3, norm3, Real.sq_sqrt (by positivity)]
  simp only [RCLike.re_to_real]
  nlinarith [sq_nonneg (v 0 - v 1 + v 2), sq_nonneg (v 0 - v 2), sq_nonneg (v 0 + v 2 - 2 * v 1), sq_nonneg (v 1), sq_nonneg (v 0 - v 1), sq_nonneg (v 1 - v 2)]

theorem exA3_posDef : exA3.PosDef := by
  refine Matrix.PosDef.of_dotProduct_mulVec_pos exA3_isHermitian ?_
  intro x hx
  have hv : (toLp 2 x : EuclideanSpace ℝ (Fin 3)) ≠ 0 := by
    intro h; apply hx
    have := congrArg ofLp h
    simpa using this
  have hpos : 0 < ‖(toLp 2 x : EuclideanSpace ℝ (Fin 3))‖ := norm_pos_iff.mpr hv
  have h1 := exA3_coercive (toLp 2 x)
  have h2 : (0:ℝ) < RCLike.re ⟪(toLp 2 x : EuclideanSpace ℝ (Fin 3)), Matrix.toEuclideanLin exA3 (toLp 2 x)⟫_ℝ :=
    lt_of_lt_of_le (by positivity) h1
  rw [EuclideanSpace.inner_eq_star_dotProduct, dotProduct_comm] at h2
  simpa [Matrix.toLpLin_apply] using h2

/-! ## the run -/

theorem exb3_norm : ‖exb3‖ = 1 := by unfold exb3; rw [norm3]; norm_num

theorem exb3_ne : exb3 ≠ 0 := by
  intro h; have := exb3_norm; rw [h, norm_zero] at this; exact zero_ne_one this

theorem ex3_nb : (((‖exb3‖ : ℝ) : ℝ))⁻¹ • exb3 = exb3 := by rw [exb3_norm]; simp
theorem ex3_nz : (((‖exb3‖ : ℝ) : ℝ))⁻¹ • exz3 = exz3 := by
  rw [exb3_norm]; unfold exz3; rw [smul3]; norm_num

theorem Mi_coercive : Coercive Mi 1 := by
  intro v
  rw [Mi_apply, one_mul, inner_self_eq_norm_sq_to_K]
  simp

theorem ex3_tol : TolAdmissible smallR (1 / 2) 1 (1 / 10) := by
  have h : smallR ≤ 1 / 200 := by
    unfold smallR
    rw [div_le_div_iff₀ (by positivity) (by norm_num)]
    norm_num
  refine ⟨by linarith, by norm_num; linarith, by norm_num; linarith⟩

theorem ex3_solves : A3 !₂[3 / 4, 1 / 2, 1 / 4] = exb3 := by
  rw [exA3_apply]; unfold exb3; norm_num

theorem ex3_noprec : PrecPosDef (none : Option (Matrix (Fin 3) (Fin 3) ℝ)) := fun _ h => by cases h

/-- the guards are off during the whole run — obtained from the INPUTS (`guardsOffN_single`) -/
theorem ex3_guards (maxIters : ℕ) :
    GuardsOffN A3 Mi smallR (oneCol exb3 0) (oneCol exz3 0)
      (runSteps (matArr exA3) ((none : Option (Matrix (Fin 3) (Fin 3) ℝ)).map matArr)
        (colsArr (oneCol exb3)) (colsArr (oneCol exz3)) maxIters (RCLike.ofReal (1 / 10 : ℝ))) :=
  guardsOffN_single exA3_posDef ex3_noprec (by norm_num) one_pos exA3_coercive Mi_coercive
    (oneCol exb3) (oneCol exz3) exb3_ne maxIters (by norm_num) ex3_tol

/-- the loop makes exactly `3` steps (`max_iters = 5`, `tol = 1/10`): relative residuals
`1, 1/2, 1/3 > tol (1 + 1) = 1/5`, then `0` -/
theorem ex3_steps :
    runSteps (matArr exA3) ((none : Option (Matrix (Fin 3) (Fin 3) ℝ)).map matArr)
      (colsArr (oneCol exb3)) (colsArr (oneCol exz3)) 5 (RCLike.ofReal (1 / 10 : ℝ)) = 3 := by
  obtain ⟨h1, h2⟩ := run_stop_exact exA3 none (oneCol exb3) (oneCol exz3) 5 (1 / 10)
  have hg := ex3_guards 5
  obtain ⟨t, ht⟩ : ∃ t, t = runSteps (matArr exA3) ((none : Option (Matrix (Fin 3) (Fin 3) ℝ)).map matArr)
      (colsArr (oneCol exb3)) (colsArr (oneCol exz3)) 5 (RCLike.ofReal (1 / 10 : ℝ)) := ⟨_, rfl⟩
  simp only [← ht] at h1 h2 hg ⊢
  have hcore : ∀ i ≤ t, (colState exA3 none (oneCol exb3) (oneCol exz3) 0 i).r =
      (cgSeq A3 Mi exb3 exz3 i).r := by
    intro i hi
    have h := gSeq_core (A := A3) (M := Mi) smallR_pos i (fun j hj => hg j (lt_of_lt_of_le hj hi))
    unfold colState
    rw [show normDen (oneCol exb3 0) = ((‖exb3‖ : ℝ) : ℝ) from nscale_of_ne exb3_ne]
    have e : ((gStep A3 Mi smallR)^[i] (gInit A3 Mi ((((‖exb3‖ : ℝ) : ℝ))⁻¹ • oneCol exb3 0)
        ((((‖exb3‖ : ℝ) : ℝ))⁻¹ • oneCol exz3 0))).r =
        (cgSeq A3 Mi ((((‖exb3‖ : ℝ) : ℝ))⁻¹ • exb3) ((((‖exb3‖ : ℝ) : ℝ))⁻¹ • exz3) i).r := by
      have := congrArg CGState.r h
      exact this
    rw [e, ex3_nb, ex3_nz]
  have htol : tolEffR exA3 none (oneCol exb3) (oneCol exz3) (1 / 10) 0 = 1 / 5 := by
    unfold tolEffR
    rw [hcore 0 (Nat.zero_le _), exS0, norm3]
    norm_num
  have hle : t ≤ 3 := by
    by_contra hc
    rw [not_le] at hc
    obtain ⟨j, hj⟩ := h2 3 hc
    have hj0 : j = 0 := Subsingleton.elim _ _
    subst hj0
    rw [htol, hcore 3 hc.le, exS3.2, norm3] at hj
    norm_num at hj
  have hge : 3 ≤ t := by
    by_contra hc
    rcases h1 with h | h
    · omega
    · have h0 := h 0
      rw [htol, hcore t le_rfl] at h0
      have ht3 : t = 0 ∨ t = 1 ∨ t = 2 := by omega
      rcases ht3 with e | e | e <;> subst e
      · rw [exS0, norm3] at h0; norm_num at h0
      · rw [exS1, norm3, show (0 : ℝ) ^ 2 + (1 / 2) ^ 2 + 0 ^ 2 = (1 / 2) ^ 2 by norm_num,
          Real.sqrt_sq (by norm_num)] at h0
        norm_num at h0
      · rw [exS2, norm3, show (0 : ℝ) ^ 2 + 0 ^ 2 + (1 / 3) ^ 2 = (1 / 3) ^ 2 by norm_num,
          Real.sqrt_sq (by norm_num)] at h0
        norm_num at h0
  omega

/-! ## the guards are needed: a tiny operator scale -/

/-- `1e-41 · tridiag(-1, 2, -1)`: Hermitian positive definite, condition number `3 + 2√2` -/
noncomputable def exAt : Matrix (Fin 3) (Fin 3) ℝ := (1 / 10 ^ 41 : ℝ) • exA3

local notation "At" => Matrix.toEuclideanLin exAt

theorem exAt_apply (a b c : ℝ) :
    At !₂[a, b, c] = !₂[(2 * a - b) / 10 ^ 41, (-a + 2 * b - c) / 10 ^ 41, (-b + 2 * c) / 10 ^ 41] := by
  unfold exAt
  rw [map_smul, LinearMap.smul_apply, exA3_apply, smul3]
  congr 1
  ext i; fin_cases i <;> simp <;> ring

theorem exAt_posDef : exAt.PosDef := by
  unfold exAt
  exact exA3_posDef.smul (by positivity)

/-- the exact solution of `At x = e₀` -/
noncomputable def exxt : EuclideanSpace ℝ (Fin 3) := !₂[3 / 4 * 10 ^ 41, 1 / 2 * 10 ^ 41, 1 / 4 * 10 ^ 41]

theorem exxt_solves : At exxt = exb3 := by
  unfold exxt exb3
  rw [exAt_apply]
  congr 1
  ext i; fin_cases i <;> simp <;> ring

theorem exAt_colState0 : (colState exAt none (oneCol exb3) (oneCol exz3) 0 0).r = exb3 := by
  unfold colState
  rw [show normDen (oneCol exb3 0) = ((‖exb3‖ : ℝ) : ℝ) from nscale_of_ne exb3_ne]
  show ((((‖exb3‖ : ℝ) : ℝ))⁻¹ • exb3) - At ((((‖exb3‖ : ℝ) : ℝ))⁻¹ • exz3) = exb3
  rw [ex3_nb, ex3_nz]
  unfold exz3 exb3
  rw [exAt_apply, sub3]
  norm_num

/-- `max_iters = 1`, `tol = 1/10`: one step is made -/
theorem exAt_steps :
    runSteps (matArr exAt) ((none : Option (Matrix (Fin 3) (Fin 3) ℝ)).map matArr)
      (colsArr (oneCol exb3)) (colsArr (oneCol exz3)) 1 (RCLike.ofReal (1 / 10 : ℝ)) = 1 := by
  obtain ⟨h1, -⟩ := run_stop_exact exAt none (oneCol exb3) (oneCol exz3) 1 (1 / 10)
  have hcap : runSteps (matArr exAt) ((none : Option (Matrix (Fin 3) (Fin 3) ℝ)).map matArr)
      (colsArr (oneCol exb3)) (colsArr (oneCol exz3)) 1 (RCLike.ofReal (1 / 10 : ℝ)) ≤ 1 :=
    loopSteps_le _ _ _ _
  rcases h1 with h | h
  · exact h
  · by_contra hne
    have e : runSteps (matArr exAt) ((none : Option (Matrix (Fin 3) (Fin 3) ℝ)).map matArr)
      (colsArr (oneCol exb3)) (colsArr (oneCol exz3)) 1 (RCLike.ofReal (1 / 10 : ℝ)) = 0 := by omega
    have h0 := h 0
    rw [e] at h0
    unfold tolEffR at h0
    rw [exAt_colState0, exb3_norm] at h0
    norm_num at h0

/-- the value returned after that step: `α = γ / ⟪p, A p⟫ = 1 / 2e-41` — no guard interferes any more -/
theorem exAt_out :
    xOut exAt none (oneCol exb3) (oneCol exz3) 1 (RCLike.ofReal (1 / 10 : ℝ)) 0 = !₂[5 * 10 ^ 40, 0, 0] := by
  unfold xOut
  rw [exAt_steps]
  unfold gRun
  rw [show nscale (𝕜 := ℝ) (oneCol exb3 0) = ((‖exb3‖ : ℝ) : ℝ) from nscale_of_ne exb3_ne]
  show ((‖exb3‖ : ℝ) : ℝ) • (gStep At Mi smallR (gInit At Mi ((((‖exb3‖ : ℝ) : ℝ))⁻¹ • exb3)
    ((((‖exb3‖ : ℝ) : ℝ))⁻¹ • exz3))).x = _
  rw [ex3_nb, ex3_nz, exb3_norm]
  have hinit : gInit At Mi exb3 exz3 = ⟨!₂[0, 0, 0], !₂[1, 0, 0], !₂[1, 0, 0], 0, 0, 1⟩ := by
    simp only [gInit, exb3, exz3, Mi_apply, exAt_apply, inner3, sub3]
    norm_num
  rw [hinit]
  have hs1 : smallR ≤ 1 := by
    unfold smallR
    rw [div_le_one (by positivity)]
    norm_num
  have hr : ¬ ‖(!₂[1, 0, 0] : EuclideanSpace ℝ (Fin 3))‖ < smallR := by
    rw [norm3]; norm_num
    exact hs1
  simp only [gStep, sdiv, exAt_apply, inner3, if_neg hr]
  norm_num
  rw [smul3, add3]
  norm_num

/-- **regression example**: on `1e-41 · tridiag(-1, 2, -1)`, `b = e₀`, `x0 = 0`, `max_iters = 1`,
`tol = 1/10` the returned vector `5e40 · e₀` minimises the energy over `x0 + K_1 = span {e₀}` (direct
computation: the energy of `t · e₀` is `¾e41 - 2t + 2e-41 t²`, minimal at `t = 5e40`) -/
theorem exAt_optimal (t : ℝ) :
    energy At exxt (xOut exAt none (oneCol exb3) (oneCol exz3) 1 (RCLike.ofReal (1 / 10 : ℝ)) 0) ≤
      energy At exxt !₂[t, 0, 0] := by
  rw [exAt_out]
  unfold energy exxt
  simp only [sub3, exAt_apply, inner3, RCLike.re_to_real]
  have h : 0 ≤ (t - 5 * 10 ^ 40) ^ 2 := sq_nonneg _
  have e : (10 : ℝ) ^ 41 ≠ 0 := by positivity
  field_simp
  nlinarith [h]

end CG
